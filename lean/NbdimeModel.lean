import NbdimeModel.Json
import NbdimeModel.DiffFormat
import NbdimeModel.Patch
import NbdimeModel.Lcs
import NbdimeModel.Diff
import NbdimeModel.WF
import NbdimeModel.History
import NbdimeModel.GitCfg
