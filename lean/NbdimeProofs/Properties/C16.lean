import NbdimeModel
/-
  C16 — terminal rendering. Proved here: what the renderer's ignore table does for the paths of each
  category (so that "prints something for every diff that touches a non-ignored category" has a
  precise reading), and that the plain line prefixes contain no escape character. That rendering
  never fails, prints nothing for an empty diff and emits no ANSI codes with colour off is evaluated
  on the real printers for every configuration (see the check); it is not proved: the value
  printers, pprint, pygments and the external diff tools are outside the model.
-/
namespace Nbdime
open Nbdime.Pretty

/-- with everything included nothing is ignored, whatever the path -/
theorem C16_include_all_shows_all (p : String) : shouldIgnore ⟨true, true, true, true, true, true⟩ p = false := by
  unfold shouldIgnore
  repeat' split
  all_goals simp_all

/-- a source path is hidden exactly when sources are excluded -/
theorem C16_sources (c : Include) (p : String) (h : p.startsWith "/cells/*/source" = true) :
    shouldIgnore c p = !c.sources := by
  simp [shouldIgnore, h]

/-- notebook-level metadata is hidden exactly when metadata is excluded -/
theorem C16_nb_metadata (c : Include) : shouldIgnore c "/metadata/kernelspec" = !c.metadata := by
  have h1 : ("/metadata/kernelspec".startsWith "/cells/*/source") = false := by decide +kernel
  have h2 : ("/metadata/kernelspec".startsWith "/cells/*/attachments") = false := by decide +kernel
  have h3 : ("/metadata/kernelspec".startsWith "/metadata") = true := by decide +kernel
  simp [shouldIgnore, h1, h2, h3]

/-- the prefixes written when colour is off contain no escape character -/
theorem C16_plain_constants_no_esc : plainConstants.all (fun s => !hasEsc s) = true := by decide +kernel

end Nbdime
