import NbdimeProofs.Lemmas.NbRoundtrip
/-
  C01 — notebook diff → patch round trip. Property theorem: under ANY differ tables made of the
  sound kinds (checked on the live tables of every run by the decidable `cfgSoundB`), for every answer
  of the similarity predicates, `patch(a, diff_notebooks(a, b)) = b` exactly.
-/
namespace Nbdime

/-- The property for the model of `diff_notebooks` / `patch_notebook`: for every configuration that
    passes `cfgSoundB` (differ table entries among generic / multilevel / string-lines / single-outputs /
    attachments; predicate lists with several predicates, or exactly `==`), every oracle whose opcode
    answers satisfy difflib's contract, and every pair of compatible canonical notebooks: if the differ
    returns `d`, patching `a` with `d` succeeds and gives exactly `b`. "partial": pairs in which a
    boolean meets a 0/1-valued number under one key are excluded (finding F-eq), and the ignore
    wrappers (which hide changes on purpose) are not sound kinds (they are the subject of C14). -/
theorem C01_roundtrip_partial (O : Oracle) (hO : OracleOK O) (cfg : Cfg) (hcfg : cfgSoundB cfg = true)
    (a b : J) (d : List Op) (ca : a.canonical = true) (cb : b.canonical = true) (hab : Compat a b)
    (h : diffNotebooks O cfg a b = .ok d) : patch a d = .ok b := by
  unfold diffNotebooks at h
  cases a with
  | obj ak =>
    cases b with
    | obj bk =>
      simp only at h
      exact diffAt_sound O hO bigFuel cfg (cfgSound_of_B cfg hcfg) .generic rfl "" _ _ d ca cb hab h
    | _ => simp at h
  | _ => simp at h

/-- "the diff is empty exactly when A and B are identical", the direction that needs the round trip -/
theorem C01_empty_diff_only_if_equal (O : Oracle) (hO : OracleOK O) (cfg : Cfg) (hcfg : cfgSoundB cfg = true)
    (a b : J) (ca : a.canonical = true) (cb : b.canonical = true) (hab : Compat a b)
    (h : diffNotebooks O cfg a b = .ok []) : a = b :=
  (patch_nil a b ca (C01_roundtrip_partial O hO cfg hcfg a b [] ca cb hab h)).symm

/-- the differ tables of the pinned tree (the check regenerates this literal from the live tables on
    every run and discharges `cfgSoundB` for it) -/
def pinnedNbCfg : Cfg :=
  { predTable := [("/cells", ["compare_cell_approximate", "compare_cell_moderate", "compare_cell_strict", "compare_cell_by_ids"]),
                  ("/cells/*/outputs", ["compare_output_approximate", "compare_output_strict"])],
    predDefault := ["eq"], predGuard := [],
    differTable := [("/cells", .multilevel), ("/cells/*", .generic), ("/cells/*/attachments", .attachments),
                    ("/cells/*/outputs", .multilevel), ("/cells/*/outputs/*", .singleOutputs),
                    ("/cells/*/source", .stringLines)],
    differDefault := .generic, atomicTable := [("/cells/*/id", true)] }

theorem pinnedNbCfg_sound : cfgSoundB pinnedNbCfg = true := by decide +kernel

/-- non-vacuity: a two-cell notebook pair (source edit, output change, metadata change, inserted cell) on which
    the model differ succeeds under the pinned tables -/
def exNbA : J := .obj [("cells", .arr [
    .obj [("cell_type", .str "code".toList), ("execution_count", .int 2), ("id", .str "c1".toList), ("metadata", .obj []),
          ("outputs", .arr [.obj [("data", .obj [("text/plain", .str "3".toList)]), ("execution_count", .int 2),
                                  ("metadata", .obj []), ("output_type", .str "execute_result".toList)]]),
          ("source", .str "x = 1\ny = 2".toList)]]),
  ("metadata", .obj []), ("nbformat", .int 4), ("nbformat_minor", .int 5)]

def exNbB : J := .obj [("cells", .arr [
    .obj [("cell_type", .str "markdown".toList), ("id", .str "c0".toList), ("metadata", .obj []), ("source", .str "# t".toList)],
    .obj [("cell_type", .str "code".toList), ("execution_count", .int 3), ("id", .str "c1".toList),
          ("metadata", .obj [("tags", .arr [.str "t".toList])]),
          ("outputs", .arr [.obj [("data", .obj [("text/plain", .str "4".toList)]), ("execution_count", .int 3),
                                  ("metadata", .obj []), ("output_type", .str "execute_result".toList)]]),
          ("source", .str "x = 1\ny = 3".toList)]]),
  ("metadata", .obj []), ("nbformat", .int 4), ("nbformat_minor", .int 5)]

def exNbOracle : Oracle :=
  { cmp := fun name x y => .ok (match name with
      | "compare_cell_by_ids" | "compare_cell_strict" => J.beq x y
      | _ => (match x, y with
          | .obj a, .obj b => (lookupKV "id" a).isSome && J.beq ((lookupKV "id" a).getD .null) ((lookupKV "id" b).getD .null) ||
                              (lookupKV "output_type" a).isSome
          | .str _, .str _ => true
          | _, _ => J.beq x y)),
    opcodes := fun a b => .ok [⟨"replace", 0, a.length, 0, b.length⟩] }

theorem exNbOracle_ok : OracleOK exNbOracle := by
  intro a b ocs h
  simp only [exNbOracle, Except.ok.injEq] at h
  subst h
  simp [opcodesValid, opcodesValidAux]

example : (diffNotebooks exNbOracle pinnedNbCfg exNbA exNbB).toBool = true ∧ exNbA.canonical = true ∧
    exNbB.canonical = true ∧ exNbA.intsOnly = true ∧ exNbB.intsOnly = true := by decide +kernel

end Nbdime
