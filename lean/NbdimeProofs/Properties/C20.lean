import NbdimeModel
/-
  C20 — the web API writes only where told at start-up, refuses when no output was fixed, stops
  only closable sessions, and an error answer changes nothing on disk. Model: NbdimeModel/Web.lean.
  The server keeps no state that a request can change (Params are fixed at start-up), so every
  request of a sequence is answered as if it were the first: `handle` has no state argument.
-/
namespace Nbdime
open Nbdime.Web

/-- every write of every request targets the output file fixed at start-up — whatever the request
    body says (extra path fields are part of `StoreBody` and never reach an effect) -/
theorem C20_confined (p : Params) (r : Req) (e : Effect) (he : e ∈ (handle true p r).effects) :
    ∃ fn, p.outputfilename = some fn ∧ e.path = joinPath p.cwd fn := by
  cases r <;> simp only [handle] at he <;> try (simp at he)
  case apiDiff ok b rm => split at he <;> simp at he
  case apiMerge ok b l rm => split at he <;> simp at he
  case apiStore b =>
    unfold handleStore at he
    cases ho : p.outputfilename with
    | none => simp [ho] at he
    | some fn =>
      refine ⟨fn, rfl, ?_⟩
      simp only [ho] at he
      cases b <;> simp at he
      rcases he with he | he <;> subst he <;> rfl
  case apiClose => split at he <;> simp at he

/-- without an output file fixed at start-up the store endpoint refuses and writes nothing -/
theorem C20_refuse (p : Params) (b : StoreBody) (h : p.outputfilename = none) :
    (handle true p (.apiStore b)).status = 400 ∧ (handle true p (.apiStore b)).effects = [] := by
  simp [handle, handleStore, h]

/-- remote shutdown only for sessions started as closable -/
theorem C20_close (p : Params) (r : Req) (h : (handle true p r).stops = true) :
    p.closable = true ∧ r = .apiClose := by
  cases r <;> simp only [handle] at h <;> try (simp at h)
  case apiDiff ok b rm => split at h <;> simp at h
  case apiMerge ok b l rm => split at h <;> simp at h
  case apiStore b =>
    unfold handleStore at h
    cases ho : p.outputfilename <;> simp only [ho] at h
    · simp at h
    · cases b <;> simp at h
  case apiClose => split at h <;> simp_all

/-- a request answered with an error status changes nothing on disk and does not stop the server -/
theorem C20_error_clean (p : Params) (r : Req) (h : 400 ≤ (handle true p r).status) :
    (handle true p r).effects = [] ∧ (handle true p r).stops = false := by
  cases r <;> simp only [handle] at h ⊢ <;> try (simp)
  case apiDiff ok b rm => split <;> simp
  case apiMerge ok b l rm => split <;> simp
  case apiStore b =>
    unfold handleStore at h ⊢
    cases ho : p.outputfilename <;> simp only [ho] at h ⊢
    · simp
    · cases b <;> simp at h ⊢
  case apiClose => split at h <;> simp_all

/-- the original order (open the file, then serialise) violates the property: an unserialisable
    `merged` value is answered with 500 but the output file is already truncated (finding F-store,
    replayed on the implementation and repaired) -/
theorem C20_open_before_serialise_refuted :
    let p : Params := ⟨"/w", some "out.ipynb", false⟩
    (handle false p (.apiStore (.notSerialisable false))).status = 500 ∧
    (handle false p (.apiStore (.notSerialisable false))).effects = [.truncate "/w/out.ipynb"] := by
  decide

/-- non-vacuity: a store request with path fields in the body, on a server with an output file -/
example : (handle true ⟨"/w", some "out.ipynb", true⟩ (.apiStore (.notebook true))).effects =
    [.truncate "/w/out.ipynb", .write "/w/out.ipynb"] := by decide

end Nbdime
