import NbdimeModel
/-
  C08 — exit status, output file and behaviour on failure of the merge command and git driver.
  The theorems hold for ANY step list of the shape `pre ++ [openOut, writeOut, returnRc]` with
  `pre` made of non-mutating steps that include the rc computation; the step list of the real
  `main_merge` is extracted on every run and the shape is discharged by `decide`.
-/
namespace Nbdime
open Nbdime.Cli

def Cli.pureStep : Step → Bool
  | .checkFiles => true
  | .read => true
  | .merge => true
  | .computeRc => true
  | _ => false

/-- the decidable shape predicate used on the extracted list -/
def Cli.okShape (steps : List Step) : Bool :=
  let n := steps.length
  decide (3 ≤ n) && steps.drop (n - 3) == [.openOut, .writeOut, .returnRc] &&
  (steps.take (n - 3)).all pureStep && (steps.take (n - 3)).contains .computeRc &&
  (steps.take (n - 3)).contains .merge

theorem okShape_split (steps : List Step) (h : okShape steps = true) :
    ∃ pre, steps = pre ++ [.openOut, .writeOut, .returnRc] ∧ pre.all pureStep = true ∧ .computeRc ∈ pre := by
  unfold okShape at h
  simp only [Bool.and_eq_true, decide_eq_true_eq, beq_iff_eq, List.contains_eq_mem] at h
  obtain ⟨⟨⟨⟨_, h2⟩, h3⟩, h4⟩, _⟩ := h
  refine ⟨steps.take (steps.length - 3), ?_, h3, h4⟩
  rw [← h2, List.take_append_drop]

def rcOf (conflict : Bool) : Nat := if conflict then 1 else 0

/-- rc after a pure prefix -/
def preRc (conflict : Bool) : List Step → Option Nat → Option Nat
  | [], rc => rc
  | .computeRc :: rest, _ => preRc conflict rest (some (rcOf conflict))
  | _ :: rest, rc => preRc conflict rest rc

theorem preRc_mem (conflict : Bool) (pre : List Step) (rc : Option Nat) (h : .computeRc ∈ pre) :
    preRc conflict pre rc = some (rcOf conflict) := by
  induction pre generalizing rc with
  | nil => simp at h
  | cons s pre ih =>
    by_cases hm : Step.computeRc ∈ pre
    · cases s <;> simp [preRc, ih _ hm]
    · have hs : s = .computeRc := by
        simp only [List.mem_cons] at h
        rcases h with h | h
        · exact h.symm
        · exact absurd h hm
      subst hs
      simp only [preRc]
      clear ih h
      induction pre with
      | nil => rfl
      | cons t pre ih2 =>
        have : Step.computeRc ∉ pre := fun x => hm (by simp [x])
        have ht : t ≠ .computeRc := fun e => hm (by simp [e])
        cases t <;> simp_all [preRc]

/-- running a pure prefix without fault only computes the rc -/
theorem run_pure_prefix (conflict : Bool) (pre rest : List Step) (hp : pre.all pureStep = true)
    (out : Out) (rc : Option Nat) :
    runSteps conflict (pre ++ rest) none ⟨out, rc, none⟩ =
      runSteps conflict rest none ⟨out, preRc conflict pre rc, none⟩ := by
  induction pre generalizing rc with
  | nil => rfl
  | cons s pre ih =>
    simp only [List.all_cons, Bool.and_eq_true] at hp
    obtain ⟨hs, hp'⟩ := hp
    cases s <;> simp only [pureStep] at hs <;> first
      | exact absurd hs (by decide)
      | (simp only [List.cons_append, runSteps, Option.isSome_none, Bool.false_eq_true, if_false, applyStep, preRc]
         exact ih hp' _)

theorem head_not_swallow (pre rest : List Step) (hp : pre.all pureStep = true)
    (hr : rest.head? ≠ some .swallow) : (pre ++ rest).head? ≠ some .swallow := by
  cases pre with
  | nil => simpa using hr
  | cons s pre =>
    simp only [List.all_cons, Bool.and_eq_true] at hp
    intro h
    simp only [List.cons_append, List.head?_cons, Option.some.injEq] at h
    subst h
    exact absurd hp.1 (by decide)

/-- a raising or killing fault on a step that is not followed by a handler ends the run -/
theorem run_fault_now (conflict : Bool) (s : Step) (rest : List Step) (f : Fault) (w : World)
    (he : w.exit = none) (hr : rest.head? ≠ some .swallow) :
    runSteps conflict (s :: rest) (some (0, f)) w = { applyFaulted w s with exit := some f.status } := by
  simp only [runSteps, he, Option.isSome_none, Bool.false_eq_true, if_false]
  cases f
  · cases rest with
    | nil => rfl
    | cons t ts =>
      cases t <;> first | rfl | exact absurd rfl hr
  · cases rest with
    | nil => rfl
    | cons t ts => rfl

/-- a fault inside the pure prefix: nothing was touched and the exit status is the fault's -/
theorem run_fault_in_prefix (conflict : Bool) (pre rest : List Step) (hp : pre.all pureStep = true)
    (hr : rest.head? ≠ some .swallow)
    (i : Nat) (hi : i < pre.length) (f : Fault) (out : Out) (rc : Option Nat) :
    ∃ rc', runSteps conflict (pre ++ rest) (some (i, f)) ⟨out, rc, none⟩ = ⟨out, rc', some f.status⟩ := by
  induction pre generalizing i rc with
  | nil => simp at hi
  | cons s pre ih =>
    simp only [List.all_cons, Bool.and_eq_true] at hp
    obtain ⟨hs, hp'⟩ := hp
    cases i with
    | zero =>
      refine ⟨rc, ?_⟩
      rw [List.cons_append, run_fault_now conflict s (pre ++ rest) f _ rfl (head_not_swallow pre rest hp' hr)]
      cases s <;> simp only [pureStep] at hs <;> first
        | exact absurd hs (by decide)
        | rfl
    | succ i =>
      have hi' : i < pre.length := by simpa using hi
      cases s <;> simp only [pureStep] at hs <;> first
        | exact absurd hs (by decide)
        | (simp only [List.cons_append, runSteps, Option.isSome_none, Bool.false_eq_true, if_false, applyStep]
           exact ih hp' i hi' _)

/-- fault injected at step `i` of a list shorter than `i`: treated as "no fault happened" -/
def faultHits (steps : List Step) : Option (Nat × Fault) → Bool
  | none => false
  | some (i, _) => decide (i < steps.length)

/-- No fault: the process exits with 0 iff there is no unresolved conflict, and the complete
    merged notebook is at the output. -/
theorem C08_no_fault (conflict : Bool) (steps : List Step) (h : okShape steps = true) :
    runSteps conflict steps none .init = ⟨.complete, some (rcOf conflict), some (rcOf conflict)⟩ := by
  obtain ⟨pre, rfl, hp, hc⟩ := okShape_split steps h
  rw [World.init, run_pure_prefix conflict pre _ hp, preRc_mem conflict pre none hc]
  simp [runSteps, applyStep]

/-- A failure before the result is written (reading, diffing, deciding, applying, computing the
    status, and opening the output) leaves the output location untouched and is never reported
    as success. -/
theorem C08_untouched (conflict : Bool) (steps : List Step) (h : okShape steps = true)
    (i : Nat) (f : Fault) (hi : i + 2 < steps.length) :
    (runSteps conflict steps (some (i, f)) .init).out = .untouched ∧
    (runSteps conflict steps (some (i, f)) .init).exit = some f.status := by
  obtain ⟨pre, rfl, hp, hc⟩ := okShape_split steps h
  have hlen : i < pre.length + 1 := by simp at hi; omega
  by_cases hi' : i < pre.length
  · obtain ⟨rc', hr⟩ := run_fault_in_prefix conflict pre [.openOut, .writeOut, .returnRc] hp (by simp) i hi' f .untouched none
    rw [World.init, hr]; exact ⟨rfl, rfl⟩
  · have hie : i = pre.length := by omega
    subst hie
    -- the fault hits `openOut`: walk through the prefix first
    have key : ∀ (pre : List Step) (rc : Option Nat), pre.all pureStep = true →
        runSteps conflict (pre ++ [.openOut, .writeOut, .returnRc]) (some (pre.length, f)) ⟨.untouched, rc, none⟩ =
          ⟨.untouched, preRc conflict pre rc, some f.status⟩ := by
      intro pre
      induction pre with
      | nil =>
        intro rc _
        simp only [List.nil_append, List.length_nil, preRc]
        rw [run_fault_now conflict .openOut [.writeOut, .returnRc] f _ rfl (by simp)]
        rfl
      | cons s pre ih =>
        intro rc hp
        simp only [List.all_cons, Bool.and_eq_true] at hp
        cases s <;> simp only [pureStep] at hp <;> first
          | exact absurd hp.1 (by decide)
          | (simp only [List.cons_append, List.length_cons, runSteps, Option.isSome_none, Bool.false_eq_true,
               if_false, applyStep, preRc]
             exact ih _ hp.2)
    rw [World.init, key pre none hp]; exact ⟨rfl, rfl⟩

/-- If any step fails or the process dies, success is never reported. -/
theorem C08_never_success_on_fault (conflict : Bool) (steps : List Step) (h : okShape steps = true)
    (i : Nat) (f : Fault) (hi : i + 1 < steps.length) :
    (runSteps conflict steps (some (i, f)) .init).exit = some f.status := by
  by_cases h2 : i + 2 < steps.length
  · exact (C08_untouched conflict steps h i f h2).2
  · obtain ⟨pre, rfl, hp, hc⟩ := okShape_split steps h
    have hie : i = pre.length + 1 := by simp at hi h2; omega
    subst hie
    have key : ∀ (pre : List Step) (rc : Option Nat), pre.all pureStep = true →
        (runSteps conflict (pre ++ [.openOut, .writeOut, .returnRc]) (some (pre.length + 1, f)) ⟨.untouched, rc, none⟩).exit =
          some f.status := by
      intro pre
      induction pre with
      | nil =>
        intro rc _
        simp only [List.nil_append, List.length_nil, runSteps, Option.isSome_none, Bool.false_eq_true, if_false, applyStep]
      | cons s pre ih =>
        intro rc hp
        simp only [List.all_cons, Bool.and_eq_true] at hp
        cases s <;> simp only [pureStep] at hp <;> first
          | exact absurd hp.1 (by decide)
          | (simp only [List.cons_append, List.length_cons, runSteps, Option.isSome_none, Bool.false_eq_true,
               if_false, applyStep]
             exact ih _ hp.2)
    rw [World.init]; exact key pre none hp

theorem Fault.status_ne_zero (f : Fault) : f.status ≠ 0 := by cases f <;> decide

/-- Exit status zero if and only if nothing failed and no unresolved conflict remains. -/
theorem C08_zero_iff (conflict : Bool) (steps : List Step) (h : okShape steps = true)
    (fault : Option (Nat × Fault)) (hf : ∀ i f, fault = some (i, f) → i + 1 < steps.length) :
    (runSteps conflict steps fault .init).exit = some 0 ↔ fault = none ∧ conflict = false := by
  cases fault with
  | none =>
    rw [C08_no_fault conflict steps h]
    cases conflict <;> simp [rcOf]
  | some p =>
    obtain ⟨i, f⟩ := p
    rw [C08_never_success_on_fault conflict steps h i f (hf i f rfl)]
    simp [Fault.status_ne_zero]

/-- Unguarded failure handling is not harmless: with a handler that swallows a failing removal
    (agreed deletion) the run reports success while the output is still there. -/
theorem C08_swallow_refuted :
    (runSteps false [.checkFiles, .removeOut, .swallow, .returnConst 0] (some (1, .raise_)) .init) =
      ⟨.untouched, none, some 0⟩ := by decide

/-- non-vacuity: the step list of the unchanged `main_merge` -/
example : okShape [.checkFiles, .read, .read, .read, .merge, .computeRc, .openOut, .writeOut, .returnRc] = true := by decide

end Nbdime
