import NbdimeModel
/-
  C04 — a merged notebook validates against its declared format. Cell-level closure facts over the
  decidable shape predicate (NbdimeModel/NbShape.lean): what list patches do to a valid cell list,
  and the status of the marker cells the merger synthesises. The notebook-level statement
  `C04_statement` is evaluated on the implementation for every generated merge; it is not proved
  (and is false of the pinned code for pre-4.5 notebooks: `C04_marker_cell_with_id_invalid_pre45`).
-/
namespace Nbdime
open Nbdime.NbShape

/-- full-strength statement over any merger; a definition, no proof claimed -/
def C04_statement (merge : J → J → J → Option (Nat × List J)) : Prop :=
  ∀ b l r m cells, merge b l r = some (m, cells) → validCells m cells = true

/-- inserting cells that are valid for the declared minor keeps a valid cell list valid -/
theorem C04_insert_valid (minor : Nat) (xs vs : List J) (k : Nat)
    (hx : validCells minor xs = true) (hv : validCells minor vs = true) :
    validCells minor (xs.take k ++ vs ++ xs.drop k) = true := by
  unfold validCells at *
  simp only [List.all_append, Bool.and_eq_true, List.all_eq_true] at *
  refine ⟨⟨fun c hc => hx c (List.mem_of_mem_take hc), hv⟩, fun c hc => hx c (List.mem_of_mem_drop hc)⟩

/-- removing a range of cells keeps a valid cell list valid -/
theorem C04_remove_valid (minor : Nat) (xs : List J) (k n : Nat) (hx : validCells minor xs = true) :
    validCells minor (xs.take k ++ xs.drop (k + n)) = true := by
  unfold validCells at *
  simp only [List.all_append, Bool.and_eq_true, List.all_eq_true] at *
  exact ⟨fun c hc => hx c (List.mem_of_mem_take hc), fun c hc => hx c (List.mem_of_mem_drop hc)⟩

/-- a conflict-marker cell (markdown, empty metadata, a well-formed id) is valid from 4.5 on -/
theorem C04_marker_cell_valid (minor : Nat) (src ident : List Char) (hm : 5 ≤ minor) (hi : idOk ident = true) :
    validCell minor (markerCell src ident) = true := by
  simp [validCell, markerCell, lookupKV, allowedKeys, idRule, hm, hi, isObj, isSource]

/-- ... and is NOT valid in a notebook that declares a minor below 5: finding F-markerid -/
theorem C04_marker_cell_with_id_invalid_pre45 (minor : Nat) (src ident : List Char) (hm : minor < 5) :
    validCell minor (markerCell src ident) = false := by
  have : ¬ (5 ≤ minor) := by omega
  simp [validCell, markerCell, lookupKV, idRule, this]

example : validCells 5 [markerCell "x".toList "abc-1".toList] = true := by decide

end Nbdime
