import NbdimeModel
/-
  C14 — ignore options. `C14.tableOk` is the decidable predicate "this differ table hides exactly
  the categories in `ignored`", written from the CLI help text. Each run regenerates the 64 tables
  from the live `set_notebook_diff_targets` and discharges `tableOk` on them by `decide`
  (gen/C14_Tables.lean). The theorems below say what an `ignore` / `ignoreKeys` entry does in the
  model differ, for every oracle, configuration and document.
-/
namespace Nbdime
namespace C14

def catPaths : String → List String
  | "sources" => ["/cells/*/source"]
  | "outputs" => ["/cells/*/outputs"]
  | "attachments" => ["/cells/*/attachments"]
  | "metadata" => ["/metadata", "/cells/*/metadata", "/cells/*/outputs/*/metadata"]
  | "id" => ["/cells/*/id"]
  | _ => []

def boolCats : List String := ["sources", "outputs", "attachments", "metadata", "id"]
def detailParents : List String := ["/cells/*", "/cells/*/outputs/*"]

def isIgnore : Differ → Bool
  | .ignore => true
  | _ => false

def ignoresKey (k : String) : Differ → Bool
  | .ignoreKeys _ keys => keys.contains k
  | _ => false

def differAt (table : List (String × Differ)) (dflt : Differ) (p : String) : Differ :=
  (lookupKV p table).getD dflt

/-- the table ignores a path of a yes/no category iff that category is ignored, and filters
    `execution_count` out of cells and outputs iff `details` is ignored -/
def tableOk (ignored : List String) (table : List (String × Differ)) (dflt : Differ) : Bool :=
  (boolCats.all fun c => (catPaths c).all fun p => isIgnore (differAt table dflt p) == ignored.contains c) &&
  (detailParents.all fun p => ignoresKey "execution_count" (differAt table dflt p) == ignored.contains "details")

end C14

/-- any table satisfying `tableOk`: a path of a yes/no category is mapped to `ignore` exactly
    when the category is ignored -/
theorem C14_tables_sound (ignored : List String) (table : List (String × Differ)) (dflt : Differ)
    (h : C14.tableOk ignored table dflt = true) (c : String) (hc : c ∈ C14.boolCats)
    (p : String) (hp : p ∈ C14.catPaths c) :
    (C14.isIgnore (C14.differAt table dflt p) = true ↔ c ∈ ignored) := by
  unfold C14.tableOk at h
  simp only [Bool.and_eq_true, List.all_eq_true] at h
  have := h.1 c hc p hp
  simp only [beq_iff_eq] at this
  rw [this]
  simp

/-- an ignored sub-document contributes nothing: when the differ table maps `path/k` to
    `diff_ignore`, the dict differ adds no entry for key `k` (values of the same type, not
    atomic), for every oracle, every configuration and all documents -/
theorem C14_ignore_hides (O : Oracle) (fuel : Nat) (cfg : Cfg) (path k : String)
    (a b : List (String × J)) (di : List (String × Op))
    (hig : cfg.differ (path ++ "/" ++ k) = .ignore)
    (hty : (((lookupKV k a).getD .null).sameType ((lookupKV k b).getD .null) &&
            !cfg.isAtomic ((lookupKV k a).getD .null) (path ++ "/" ++ k)) = true) :
    dictBothStep (diffAt O (fuel + 1)) cfg path a b di k = .ok di := by
  unfold dictBothStep
  simp only [hty, if_true, hig]
  simp [diffAt, mapPatch, bind, Except.bind]

/-- `diff_ignore_keys`: no entry with an ignored key survives the filter -/
theorem C14_filter_hides (keys : List String) (d : List Op) (e : Op) (k : String)
    (he : e ∈ filterIgnored keys d) (hk : e.key = .s k) : k ∉ keys := by
  unfold filterIgnored at he
  rw [List.mem_filter] at he
  have h2 := he.2
  rw [hk] at h2
  simpa using h2

/-- non-vacuity: the table the unchanged code builds for `--ignore-metadata --ignore-details` -/
example : C14.tableOk ["metadata", "details"]
    [("/cells/*", .ignoreKeys .generic ["execution_count"]),
     ("/cells/*/outputs/*", .ignoreKeys .singleOutputs ["execution_count"]),
     ("/metadata", .ignore), ("/cells/*/metadata", .ignore), ("/cells/*/outputs/*/metadata", .ignore),
     ("/cells/*/source", .stringLines), ("/cells/*/outputs", .multilevel), ("/cells/*/attachments", .attachments)]
    .generic = true := by decide

end Nbdime
