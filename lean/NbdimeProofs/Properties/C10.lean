import NbdimeModel
import NbdimeProofs.Lemmas.MergeNoConflict
/-
  C10 — use-base / use-local / use-remote. For the model of the merger (NbdimeModel/Merge*.lean):
  no conflict is left under the strategy tables those options build. (`C10_relabel_*` about the
  decision applier are in Properties/C05.lean.)
-/
namespace Nbdime
open Merge

/-- decidable form of `plainValues`, run on the extracted strategy tables by the check -/
def C10.plainTableB (table : List (String × String)) : Bool :=
  table.all (fun kv => kv.2 != "inline-outputs" && kv.2 != "inline-cells" && kv.2 != "record-conflict" &&
    kv.2 != "inline-attachments" && kv.2 != "inline-source")

theorem C10.plainTableB_sound {S : Strategies} (h : C10.plainTableB S.table = true) : plainValues S := by
  intro kv hkv
  unfold C10.plainTableB at h
  rw [List.all_eq_true] at h
  have := h kv hkv
  simp only [Bool.and_eq_true, bne_iff_ne, ne_eq] at this
  obtain ⟨⟨⟨⟨h1, h2⟩, h3⟩, h4⟩, h5⟩ := this
  exact ⟨h1, h2, h3, h4, h5⟩

/-- **C10, "leaves no unresolved conflict", for the model**: for every strategy table that passes
    `plainTableB` and whose root strategy is `use-…`, every base, every two diffs and every oracle. -/
theorem C10_model_no_conflict {E : Env} {base : J} {ld rd : List Op} {ds : List MD} {s : String}
    (hv : C10.plainTableB E.S.table = true) (hroot : E.S.get "/" = some s) (hs : isUse s = true)
    (h : decideMerge E base ld rd = .ok ds) : ∀ d ∈ ds, d.conflict = false :=
  decideMerge_useX_noConflict (C10.plainTableB_sound hv) hroot hs h

/-- the option combinations of the use-* family the command line accepts -/
def C10.useArgs : List MergeArgs :=
  (["use-base", "use-local", "use-remote"].flatMap fun m =>
    ([none, some "use-base", some "use-local", some "use-remote"] : List (Option String)).flatMap fun i =>
      ([none, some "use-base", some "use-local", some "use-remote", some "remove", some "clear-all"] : List (Option String)).flatMap fun o =>
        [true, false].map fun t => (⟨m, i, o, t⟩ : MergeArgs))

set_option maxRecDepth 100000 in
theorem C10.useArgs_ok : C10.useArgs.all (fun a =>
    C10.plainTableB (notebookStrategies a).table && isUse (((notebookStrategies a).get "/").getD "")) = true := by
  decide +kernel

/-- **C10, "leaves no unresolved conflict", quantified over the command-line options**: for each of the 144 use-*
    option combinations, every base, pair of diffs and oracle. (`notebookStrategies` is compared with the tables of the
    real `notebook_merge_strategies` on every run.) -/
theorem C10_cli_no_conflict {O : Oracle} {cfg : Cfg} {render : Render} {a : MergeArgs} (ha : a ∈ C10.useArgs)
    {base : J} {ld rd : List Op} {ds : List MD}
    (h : decideNotebookMerge O cfg render a base ld rd = .ok ds) : ∀ d ∈ ds, d.conflict = false := by
  have hall := C10.useArgs_ok
  rw [List.all_eq_true] at hall
  have hp := hall a ha
  simp only [Bool.and_eq_true] at hp
  obtain ⟨h1, h2⟩ := hp
  cases hg : (notebookStrategies a).get "/" with
  | none => simp [hg, isUse] at h2
  | some s =>
    simp only [hg, Option.getD_some] at h2
    exact C10_model_no_conflict (E := { O := O, cfg := cfg, S := notebookStrategies a, render := render }) h1 hg h2 h

namespace C10ex
def tab : List (String × String) :=
  [("/", "use-local"), ("/cells/*/id", "remove"), ("/cells/*/source", "use-local"), ("/nbformat_minor", "take-max")]
def exE : Env := { O := { cmp := fun _ _ _ => .ok false, opcodes := fun _ _ => .ok [] }, cfg := defaultCfg,
                   S := { table := tab, transients := [] }, render := fun _ l _ => .ok (l, 0) }
def exBase : J := .obj [("a", .int 1), ("b", .arr [.int 1, .int 2])]
def exLd : List Op := [.replace "a" (.int 2), .patchK "b" [.removerange 0 1]]
def exRd : List Op := [.replace "a" (.int 3), .patchK "b" [.patchI 0 [.invalid "x"]]]
/-- non-vacuity: the hypotheses hold for a concrete table and a merge with two genuine conflicts, both resolved -/
example : C10.plainTableB tab = true ∧ exE.S.get "/" = some "use-local" := by decide +kernel
example : (match decideMerge exE exBase exLd exRd with
           | .ok ds => ds.map (fun d => (d.action, d.conflict))
           | .error _ => []) = [("local", false), ("local", false)] := by decide +kernel
end C10ex

end Nbdime
