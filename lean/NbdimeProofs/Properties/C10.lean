import NbdimeModel
import NbdimeProofs.Lemmas.MergeNoConflict
/-
  C10 — use-base / use-local / use-remote. For the model of the merger (NbdimeModel/Merge*.lean):
  no conflict is left under the strategy tables those options build. (`C10_relabel_*` about the
  decision applier are in Properties/C05.lean.)
-/
namespace Nbdime
open Merge

/-- decidable form of `plainValues`, run on the extracted strategy tables by the check -/
def C10.plainTableB (table : List (String × String)) : Bool :=
  table.all (fun kv => kv.2 != "inline-outputs" && kv.2 != "inline-cells" && kv.2 != "record-conflict" &&
    kv.2 != "inline-attachments" && kv.2 != "inline-source")

theorem C10.plainTableB_sound {S : Strategies} (h : C10.plainTableB S.table = true) : plainValues S := by
  intro kv hkv
  unfold C10.plainTableB at h
  rw [List.all_eq_true] at h
  have := h kv hkv
  simp only [Bool.and_eq_true, bne_iff_ne, ne_eq] at this
  obtain ⟨⟨⟨⟨h1, h2⟩, h3⟩, h4⟩, h5⟩ := this
  exact ⟨h1, h2, h3, h4, h5⟩

/-- **C10, "leaves no unresolved conflict", for the model**: for every strategy table that passes
    `plainTableB` and whose root strategy is `use-…`, every base, every two diffs and every oracle. -/
theorem C10_model_no_conflict {E : Env} {base : J} {ld rd : List Op} {ds : List MD} {s : String}
    (hv : C10.plainTableB E.S.table = true) (hroot : E.S.get "/" = some s) (hs : isUse s = true)
    (h : decideMerge E base ld rd = .ok ds) : ∀ d ∈ ds, d.conflict = false :=
  decideMerge_useX_noConflict (C10.plainTableB_sound hv) hroot hs h

namespace C10ex
def tab : List (String × String) :=
  [("/", "use-local"), ("/cells/*/id", "remove"), ("/cells/*/source", "use-local"), ("/nbformat_minor", "take-max")]
def exE : Env := { O := { cmp := fun _ _ _ => .ok false, opcodes := fun _ _ => .ok [] }, cfg := defaultCfg,
                   S := { table := tab, transients := [] }, render := fun _ l _ => .ok (l, 0) }
def exBase : J := .obj [("a", .int 1), ("b", .arr [.int 1, .int 2])]
def exLd : List Op := [.replace "a" (.int 2), .patchK "b" [.removerange 0 1]]
def exRd : List Op := [.replace "a" (.int 3), .patchK "b" [.patchI 0 [.invalid "x"]]]
/-- non-vacuity: the hypotheses hold for a concrete table and a merge with two genuine conflicts, both resolved -/
example : C10.plainTableB tab = true ∧ exE.S.get "/" = some "use-local" := by decide +kernel
example : (match decideMerge exE exBase exLd exRd with
           | .ok ds => ds.map (fun d => (d.action, d.conflict))
           | .error _ => []) = [("local", false), ("local", false)] := by decide +kernel
end C10ex

end Nbdime
