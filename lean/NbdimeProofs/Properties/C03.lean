import NbdimeModel
/-
  C03 — the merge always completes. Two table obligations are regenerated from /repo on every run
  (gen/C03_Tables.lean) and discharged by `decide` against the predicates below:
  * `strategyTableOk`: for every accepted combination of --merge-strategy / --input-strategy /
    --output-strategy / --no-ignore-transients (and the web tool's `mergetool`), every path of
    the strategy table carries a strategy that the resolvers implement *for that path*;
  * `switchCovers`: the literals of the if/elif chain of `_merge_lists` cover every combination of
    chunk shapes that chunking can produce, so the final "Unhandled chunk conflict type" arm
    (which would abort the merge) is unreachable.
-/
namespace Nbdime
namespace C03

def genericStrategies : List String := ["use-base", "use-local", "use-remote", "mergetool", "union"]

/-- which specialised strategy is implemented for which path (strategies.py resolvers) -/
def allowedAt (path strategy : String) : Bool :=
  genericStrategies.contains strategy ||
  (strategy == "inline-cells" && path == "/cells") ||
  (strategy == "inline-source" && path == "/cells/*/source") ||
  (strategy == "inline-outputs" && path == "/cells/*/outputs") ||
  (strategy == "inline-attachments" && path == "/cells/*/attachments") ||
  (strategy == "record-conflict" && ["/metadata", "/cells/*/metadata", "/cells/*/outputs/*/metadata"].contains path) ||
  (strategy == "take-max" && path == "/nbformat_minor") ||
  (strategy == "fail" && ["/nbformat", "/cells/*/cell_type"].contains path) ||
  (strategy == "clear" && ["/cells/*/execution_count", "/cells/*/outputs/*/execution_count"].contains path) ||
  (strategy == "remove" && ["/cells/*/id", "/cells/*/outputs"].contains path) ||
  (strategy == "clear-all" && path == "/cells/*/outputs")

def strategyTableOk (table : List (String × String)) : Bool :=
  table.all (fun ps => allowedAt ps.1 ps.2) &&
  lookupKV "/nbformat" table == some "fail" && lookupKV "/nbformat_minor" table == some "take-max"

def shapes : List String := ["", "A", "P", "R", "AP", "AR"]

def ppart (s : String) : String := if s == "AP" then "P" else if s == "AR" then "R" else if s == "A" then "" else s

def handled (chunkLits pLits : List String) (l r : String) : Bool :=
  l == "" || r == "" ||                       -- unmodified or one-sided: handled before the chain
  pLits.contains (ppart l ++ "/" ++ ppart r) || chunkLits.contains (l ++ "/" ++ r)

def switchCovers (chunkLits pLits : List String) : Bool :=
  shapes.all fun l => shapes.all fun r => handled chunkLits pLits l r

end C03

theorem C03_switch_total (chunkLits pLits : List String) (h : C03.switchCovers chunkLits pLits = true)
    (l r : String) (hl : l ∈ C03.shapes) (hr : r ∈ C03.shapes) : C03.handled chunkLits pLits l r = true := by
  unfold C03.switchCovers at h
  simp only [List.all_eq_true] at h
  exact h l hl r hr

theorem C03_strategy_table_sound (table : List (String × String)) (h : C03.strategyTableOk table = true)
    (path strategy : String) (hm : (path, strategy) ∈ table) : C03.allowedAt path strategy = true := by
  unfold C03.strategyTableOk at h
  simp only [Bool.and_eq_true, List.all_eq_true] at h
  exact h.1.1 (path, strategy) hm

/-- non-vacuity: the literals of the unchanged `_merge_lists` -/
example : C03.switchCovers ["/", "A/A", "A/AP", "A/AR", "A/P", "A/R", "AP/A", "AP/AP", "AR/A", "AR/AR", "AR/R", "P/A", "R/A", "R/AR", "R/R"]
    ["P/P", "P/R", "R/P"] = true := by decide

end Nbdime
