import NbdimeProofs.Lemmas.KV
/-
  C19 — option resolution follows flag > most specific configuration section > default.
  Model: NbdimeModel/Config.lean. The class table (sections, the options each supports, the MRO of
  every entry point) is regenerated from the live classes on every run and `C19.tableOk` is
  discharged on it by `decide` (gen/C19_Tables.lean).
-/
namespace Nbdime
open Nbdime.Config

namespace C19

def idxOf (s : String) : List String → Nat
  | [] => 0
  | x :: xs => if x == s then 0 else idxOf s xs + 1

def disjoint (a b : List String) : Bool := a.all (fun x => !b.contains x)

/-- `mro` : (section, options it supports) most specific first; `doc` : documented specificity
    order. Whenever the class linearisation orders two sections against the documentation, no
    option is supported by both, so the difference cannot be observed. -/
def tableOk (mro : List (String × List String)) (doc : List String) : Bool :=
  let names := mro.map (·.1)
  mro.all fun s1 => mro.all fun s2 =>
    !(doc.contains s1.1 && doc.contains s2.1 &&
      decide (idxOf s1.1 doc < idxOf s2.1 doc) && decide (idxOf s2.1 names < idxOf s1.1 names)) ||
    disjoint s1.2 s2.2

end C19

/-- scalar assignments: neither nested objects nor deleting nulls -/
def ScalarKVs (kvs : List (String × J)) : Prop :=
  ∀ kv ∈ kvs, (∀ o, kv.2 ≠ .obj o) ∧ kv.2 ≠ .null

def lastWriteJ (k : String) : List (String × J) → Option J
  | [] => none
  | (a, v) :: rest => match lastWriteJ k rest with
      | some v' => some v'
      | none => if a = k then some v else none

theorem updStep_scalar (rec : List (String × J) → List (String × J) → List (String × J))
    (t : List (String × J)) (a : String) (v : J) (h1 : ∀ o, v ≠ .obj o) (h2 : v ≠ .null) :
    updStep rec t (a, v) = insertKV a v t := by
  cases v <;> simp_all [updStep]

theorem lookup_recUpdate_scalar (fuel : Nat) (t new : List (String × J)) (h : ScalarKVs new) (k : String) :
    lookupKV k (recUpdate (fuel + 1) t new) = (lastWriteJ k new).orElse (fun _ => lookupKV k t) := by
  unfold recUpdate
  induction new generalizing t with
  | nil => simp [lastWriteJ]
  | cons kv rest ih =>
    obtain ⟨a, v⟩ := kv
    have hv := h (a, v) (by simp)
    have hrest : ScalarKVs rest := fun x hx => h x (by simp [hx])
    simp only [List.foldl_cons]
    rw [updStep_scalar _ t a v hv.1 hv.2, ih _ hrest]
    simp only [lastWriteJ, lookupKV_insertKV]
    cases lastWriteJ k rest with
    | some v' => simp
    | none =>
      by_cases hk : k = a
      · subst hk; simp
      · have : ¬ a = k := fun e => hk e.symm
        simp [hk, this]

/-- folding scalar updates along the reversed MRO: the most specific class that writes wins -/
theorem lookup_foldl_reverse (mro : List Cls) (g : Cls → List (String × J))
    (hg : ∀ c ∈ mro, ScalarKVs (g c)) (init : List (String × J)) (k : String) :
    lookupKV k (mro.reverse.foldl (fun acc c => recUpdate 8 acc (g c)) init) =
      (mro.findSome? (fun c => lastWriteJ k (g c))).orElse (fun _ => lookupKV k init) := by
  rw [List.foldl_reverse]
  induction mro with
  | nil => simp
  | cons c rest ih =>
    have hc := hg c (by simp)
    have hr : ∀ c ∈ rest, ScalarKVs (g c) := fun x hx => hg x (by simp [hx])
    simp only [List.foldr_cons, List.findSome?_cons]
    rw [lookup_recUpdate_scalar 7 _ _ hc, ih hr]
    cases lastWriteJ k (g c) <;> simp

/-- Resolution of a scalar option (every entry point, every assignment of scalar values to any
    sections in any files): the value of the most specific section (in class-linearisation order)
    that sets it; otherwise the default of the most specific class that declares it. -/
theorem C19_resolve_scalar (mro : List Cls) (disk : List (String × J)) (opt : String)
    (hd : ∀ c ∈ mro, ScalarKVs c.own) (hs : ∀ c ∈ mro, ScalarKVs (sectionOf disk c.name)) :
    lookupKV opt (buildConfig mro disk) =
      (mro.findSome? (fun c => lastWriteJ opt (sectionOf disk c.name))).orElse
        (fun _ => mro.findSome? (fun c => lastWriteJ opt c.own)) := by
  unfold buildConfig
  rw [lookup_foldl_reverse mro (fun c => sectionOf disk c.name) hs,
      lookup_foldl_reverse mro (fun c => c.own) hd]
  simp [lookupKV]

/-- a flag always wins -/
theorem C19_flag_wins (mro : List Cls) (files : List (List (String × J))) (flags argDefaults : List (String × J))
    (opt : String) (v : J) (h : lookupKV opt flags = some v) :
    effective mro files flags argDefaults opt = some v := by
  simp [effective, h]

/-- the file read last (the working directory's) decides a top-level scalar entry, whatever the
    user-level and system-level files say -/
theorem C19_cwd_first (lower : List (List (String × J))) (cwd : List (String × J)) (h : ScalarKVs cwd)
    (k : String) (v : J) (hk : lastWriteJ k cwd = some v) :
    lookupKV k (diskConfig (lower ++ [cwd])) = some v := by
  unfold diskConfig
  rw [List.foldl_append]
  simp only [List.foldl_cons, List.foldl_nil]
  rw [lookup_recUpdate_scalar 7 _ _ h, hk]
  simp

/-- what `tableOk` buys: two sections that both support an option are linearised in the documented order -/
theorem C19_tableOk_sound (mro : List (String × List String)) (doc : List String)
    (h : C19.tableOk mro doc = true) (s1 s2 : String × List String) (h1 : s1 ∈ mro) (h2 : s2 ∈ mro)
    (d1 : doc.contains s1.1 = true) (d2 : doc.contains s2.1 = true)
    (hdoc : C19.idxOf s1.1 doc < C19.idxOf s2.1 doc)
    (opt : String) (o1 : opt ∈ s1.2) (o2 : opt ∈ s2.2) :
    ¬ (C19.idxOf s2.1 (mro.map (·.1)) < C19.idxOf s1.1 (mro.map (·.1))) := by
  intro hm
  unfold C19.tableOk at h
  simp only [List.all_eq_true] at h
  have := h s1 h1 s2 h2
  simp only [d1, d2, hdoc, hm, decide_true, Bool.and_self, Bool.not_true, Bool.false_or] at this
  unfold C19.disjoint at this
  simp only [List.all_eq_true] at this
  have := this opt o1
  simp at this
  exact this o2

/-- non-vacuity: Server above Web, both with `port`, and a Web section that sets it -/
example : lookupKV "port" (buildConfig [⟨"Server", [("port", .int 8888)]⟩, ⟨"Web", [("port", .int 0)]⟩]
    [("Web", .obj [("port", .int 1234)])]) = some (.int 1234) := by
  rw [C19_resolve_scalar]
  · simp [sectionOf, lookupKV, lastWriteJ]
  · intro c hc; simp at hc; rcases hc with rfl | rfl <;> intro kv hkv <;> simp at hkv <;> subst hkv <;> simp
  · intro c hc; simp at hc; rcases hc with rfl | rfl <;> intro kv hkv <;> simp [sectionOf, lookupKV] at hkv <;> (try subst hkv) <;> simp

end Nbdime
