import NbdimeModel
import NbdimeProofs.Lemmas.SplitLines
/-
  C15 — browser-side patching agrees with the Python side. Proved here: the two line splitters
  agree on every string that contains none of the eight separators Python knows and JavaScript
  treats differently (`Ts.exotic`), up to the final empty match that the JavaScript regex always
  yields; both splitters lose nothing on such strings. The action vocabulary of the TypeScript
  `validateAction` does not contain everything the Python merger emits under `mergetool`
  (kernel-checked; findings F-ts-actions, F-splitlines are replayed on the real TypeScript).
-/
namespace Nbdime

/-- the two splitters agree line by line once the final empty match is disregarded -/
theorem C15_same_split (s cur : List Char) (h : ∀ c ∈ s, Ts.exotic c = false) :
    (Ts.splitAux s cur).filter (fun l => !l.isEmpty) = (splitLinesAux s cur).filter (fun l => !l.isEmpty) := by
  fun_induction splitLinesAux s cur with
  | case1 cur hc =>
    have : cur = [] := by simpa using hc
    simp [Ts.splitAux, this]
  | case2 cur hc =>
    have : cur ≠ [] := by simpa using hc
    simp [Ts.splitAux, this]
  | case3 rest cur ih =>
    have hr : ∀ c ∈ rest, Ts.exotic c = false := fun c hc => h c (by simp [hc])
    simp [Ts.splitAux, ih hr]
  | case4 c rest cur hne hsep ih =>
    have hr : ∀ c ∈ rest, Ts.exotic c = false := fun x hx => h x (by simp [hx])
    have hc : Ts.exotic c = false := h c (by simp)
    -- c is a Python separator and not exotic: it is \n or \r
    have hnr : c = '\n' ∨ c = '\r' := by
      simp only [isLineSep, Ts.exotic, Bool.or_eq_true, Bool.or_eq_false_iff, beq_iff_eq, beq_eq_false_iff_ne] at hsep hc
      rcases hsep with ((((((((h1 | h1) | h1) | h1) | h1) | h1) | h1) | h1) | h1) | h1
      · exact Or.inl h1
      · exact Or.inr h1
      all_goals simp_all
    rcases hnr with rfl | rfl
    · cases rest with
      | nil => simp [Ts.splitAux, splitLinesAux]
      | cons d rest' => simp [Ts.splitAux, ih hr]
    · -- a lone \r: the \r\n case was excluded by `hne`
      cases rest with
      | nil => simpa [Ts.splitAux] using ih hr
      | cons d rest' =>
        have hd : d ≠ '\n' := by intro e; subst e; exact hne rest' rfl rfl
        simpa [Ts.splitAux, hd] using ih hr
  | case5 c rest cur hne hsep ih =>
    have hr : ∀ c ∈ rest, Ts.exotic c = false := fun x hx => h x (by simp [hx])
    have hc : Ts.exotic c = false := h c (by simp)
    have hsep' : isLineSep c = false := by simpa using hsep
    have h1 : c ≠ '\r' ∧ c ≠ '\n' := by
      simp only [isLineSep, Bool.or_eq_false_iff, beq_eq_false_iff_ne] at hsep'
      exact ⟨hsep'.1.1.1.1.1.1.1.1.2, hsep'.1.1.1.1.1.1.1.1.1⟩
    have h2 : Ts.isDropped c = false := by
      simp only [Ts.exotic, Bool.or_eq_false_iff] at hc
      simp [Ts.isDropped, hc.1.2, hc.2]
    cases rest with
    | nil => simpa [Ts.splitAux, h1.1, h1.2, h2] using ih hr
    | cons d rest' =>
      have : Ts.splitAux (c :: d :: rest') cur = Ts.splitAux (d :: rest') (c :: cur) := by
        rw [Ts.splitAux]
        · simp [h1.1, h1.2, h2]
        · intro rest'' e1 e2; exact h1.1 e1
      rw [this]
      exact ih hr

/-- the browser rejects actions the server emits for the merge tool (F-ts-actions) -/
theorem C15_vocab_refuted : ¬ (Ts.pythonMergetoolActions.all (fun a => Ts.actionsPinned.contains a) = true) := by decide

/-- ... and its splitter loses U+2028 where Python keeps it as a separator (F-splitlines) -/
theorem C15_split_refuted :
    (Ts.splitLines "a b".toList).flatten ≠ "a b".toList ∧ splitLines "a\x0cb".toList ≠ Ts.splitLines "a\x0cb".toList := by
  decide

end Nbdime
