import NbdimeModel
import NbdimeProofs.Lemmas.SplitLines
import NbdimeProofs.Lemmas.TsEquiv
import NbdimeProofs.Properties.C01
import NbdimeProofs.Properties.C02
import NbdimeProofs.Properties.C11
/-
  C15 — browser-side patching agrees with the Python side. Proved here: the two line splitters
  agree on every string that contains none of the eight separators Python knows and JavaScript
  treats differently (`Ts.exotic`), up to the final empty match that the JavaScript regex always
  yields; both splitters lose nothing on such strings. The action vocabulary of the TypeScript
  `validateAction` does not contain everything the Python merger emits under `mergetool`
  (kernel-checked; findings F-ts-actions, F-splitlines are replayed on the real TypeScript).
-/
namespace Nbdime

/-- the two splitters agree line by line once the final empty match is disregarded -/
theorem C15_same_split (s cur : List Char) (h : ∀ c ∈ s, Ts.exotic c = false) :
    (Ts.splitAux s cur).filter (fun l => !l.isEmpty) = (splitLinesAux s cur).filter (fun l => !l.isEmpty) := by
  fun_induction splitLinesAux s cur with
  | case1 cur hc =>
    have : cur = [] := by simpa using hc
    simp [Ts.splitAux, this]
  | case2 cur hc =>
    have : cur ≠ [] := by simpa using hc
    simp [Ts.splitAux, this]
  | case3 rest cur ih =>
    have hr : ∀ c ∈ rest, Ts.exotic c = false := fun c hc => h c (by simp [hc])
    simp [Ts.splitAux, ih hr]
  | case4 c rest cur hne hsep ih =>
    have hr : ∀ c ∈ rest, Ts.exotic c = false := fun x hx => h x (by simp [hx])
    have hc : Ts.exotic c = false := h c (by simp)
    -- c is a Python separator and not exotic: it is \n or \r
    have hnr : c = '\n' ∨ c = '\r' := by
      simp only [isLineSep, Ts.exotic, Bool.or_eq_true, Bool.or_eq_false_iff, beq_iff_eq, beq_eq_false_iff_ne] at hsep hc
      rcases hsep with ((((((((h1 | h1) | h1) | h1) | h1) | h1) | h1) | h1) | h1) | h1
      · exact Or.inl h1
      · exact Or.inr h1
      all_goals simp_all
    rcases hnr with rfl | rfl
    · cases rest with
      | nil => simp [Ts.splitAux, splitLinesAux]
      | cons d rest' => simp [Ts.splitAux, ih hr]
    · -- a lone \r: the \r\n case was excluded by `hne`
      cases rest with
      | nil => simpa [Ts.splitAux] using ih hr
      | cons d rest' =>
        have hd : d ≠ '\n' := by intro e; subst e; exact hne rest' rfl rfl
        simpa [Ts.splitAux, hd] using ih hr
  | case5 c rest cur hne hsep ih =>
    have hr : ∀ c ∈ rest, Ts.exotic c = false := fun x hx => h x (by simp [hx])
    have hc : Ts.exotic c = false := h c (by simp)
    have hsep' : isLineSep c = false := by simpa using hsep
    have h1 : c ≠ '\r' ∧ c ≠ '\n' := by
      simp only [isLineSep, Bool.or_eq_false_iff, beq_eq_false_iff_ne] at hsep'
      exact ⟨hsep'.1.1.1.1.1.1.1.1.2, hsep'.1.1.1.1.1.1.1.1.1⟩
    have h2 : Ts.isDropped c = false := by
      simp only [Ts.exotic, Bool.or_eq_false_iff] at hc
      simp [Ts.isDropped, hc.1.2, hc.2]
    cases rest with
    | nil => simpa [Ts.splitAux, h1.1, h1.2, h2] using ih hr
    | cons d rest' =>
      have : Ts.splitAux (c :: d :: rest') cur = Ts.splitAux (d :: rest') (c :: cur) := by
        rw [Ts.splitAux]
        · simp [h1.1, h1.2, h2]
        · intro rest'' e1 e2; exact h1.1 e1
      rw [this]
      exact ih hr

/-- the browser rejects actions the server emits for the merge tool (F-ts-actions) -/
theorem C15_vocab_refuted : ¬ (Ts.pythonMergetoolActions.all (fun a => Ts.actionsPinned.contains a) = true) := by decide

/-- ... and its splitter loses U+2028 where Python keeps it as a separator (F-splitlines) -/
theorem C15_split_refuted :
    (Ts.splitLines "a b".toList).flatten ≠ "a b".toList ∧ splitLines "a\x0cb".toList ≠ Ts.splitLines "a\x0cb".toList := by
  decide


/-- **the browser-side patcher agrees with the Python patcher** (models `Ts.patch` of patch/generic.ts + patchString /
    flattenStringDiff, and `patch` of patching.py): on every diff that is well-formed for its canonical base document —
    objects, arrays and strings at any depth — as long as no string of the base document contains one of the eight
    separators the two languages split differently (finding F-splitlines is exactly the complement). -/
theorem C15_ts_patch_eq (doc : J) (d : List Op) (hc : doc.canonical = true) (hex : Ts.noExotic doc = true)
    (hwf : wf doc d = true) : Ts.patch doc d = patch doc d :=
  ts_patch_eq doc d hc hex hwf

/-- end to end: what the web diff view shows as the remote document. The diff the generic differ computes from `a` to `b`,
    applied by the browser-side patcher to `a`, gives `b` (uses the round trip C02 and the well-formedness C11). -/
theorem C15_ts_roundtrip_generic (O : Oracle) (hO : OracleOK O) (a b : J) (d : List Op)
    (ca : a.canonical = true) (cb : b.canonical = true) (hab : Compat a b) (hex : Ts.noExotic a = true)
    (hd : diffGeneric O a b = .ok d) : Ts.patch a d = .ok b := by
  rw [ts_patch_eq a d ca hex (C11_generic_wf O hO a b d ca cb hab hd)]
  exact C02_roundtrip_partial O hO a b d ca cb hab hd

/-- the same for notebooks under any sound table configuration of the notebook differ -/
theorem C15_ts_roundtrip_notebook (O : Oracle) (hO : OracleOK O) (cfg : Cfg) (hcfg : cfgSoundB cfg = true) (a b : J)
    (d : List Op) (ca : a.canonical = true) (cb : b.canonical = true) (hab : Compat a b) (hex : Ts.noExotic a = true)
    (hd : diffNotebooks O cfg a b = .ok d) : Ts.patch a d = .ok b := by
  rw [ts_patch_eq a d ca hex (C11_notebook_wf O hO cfg hcfg a b d ca cb hab hd)]
  exact C01_roundtrip_partial O hO cfg hcfg a b d ca cb hab hd

end Nbdime
