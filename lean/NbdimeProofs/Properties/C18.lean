import NbdimeProofs.Lemmas.KV
/-
  C18 — git integration set-up is idempotent and never touches foreign settings.
  Model: NbdimeModel/GitCfg.lean. Configuration is observed through `git config --get`, so
  statements about the store are statements about `Store.get` for every key.
-/
namespace Nbdime
open Nbdime.GitCfg

def GitCfg.Store.get (s : Store) (k : String) : Option String := lookupKV k s.cfg

def GitCfg.isEnable : Cmd → Bool
  | .enableDiffDriver => true
  | .enableMergeDriver => true
  | .enableDiffTool _ => true
  | .enableMergeTool _ => true
  | .enableAll => true
  | _ => false

/-- keys nbdime owns: its tool/driver entries, the two default-tool keys, and its two sections -/
def GitCfg.owned (k : String) : Bool :=
  ownKeys.contains k || k.startsWith "diff.jupyternotebook." || k.startsWith "merge.jupyternotebook."

theorem lookup_applyWrites (ws : List (String × String)) (cfg : List (String × String)) (k : String) :
    lookupKV k (applyWrites ws cfg) = (lastWrite k ws).orElse (fun _ => lookupKV k cfg) := by
  induction ws generalizing cfg with
  | nil => simp [applyWrites, lastWrite]
  | cons w ws ih =>
    obtain ⟨a, v⟩ := w
    have : applyWrites ((a, v) :: ws) cfg = applyWrites ws (setKey a v cfg) := rfl
    rw [this, ih, lookupKV_setKey]
    simp only [lastWrite]
    cases lastWrite k ws with
    | some v' => simp
    | none =>
      by_cases h : k = a
      · subst h; simp
      · have : ¬ a = k := fun e => h e.symm
        simp [h, this]

theorem lookup_unsetIfNbdime (key : String) (cfg : List (String × String)) (k : String) :
    lookupKV k (unsetIfNbdime key cfg) =
      if k = key ∧ lookupKV key cfg = some "nbdime" then none else lookupKV k cfg := by
  unfold unsetIfNbdime
  by_cases h : lookupKV key cfg = some "nbdime"
  · simp [h, lookupKV_unsetKey]
  · simp [h]

/-- enable commands do not reach the disable half of `step` -/
theorem disableCfg_enable (cfg : List (String × String)) (c : Cmd) (hc : isEnable c = true) :
    disableCfg cfg c = cfg := by
  cases c <;> simp_all [isEnable, disableCfg]

theorem get_enable (s : Store) (c : Cmd) (hc : isEnable c = true) (k : String) :
    (GitCfg.step s c).get k = (lastWrite k (enableWrites c)).orElse (fun _ => s.get k) := by
  simp only [GitCfg.step, Store.get, disableCfg_enable _ c hc, lookup_applyWrites]

/-- Enabling is idempotent on the configuration: running the same enable command again leaves
    every key as it was after the first run. -/
theorem C18_idem_cfg (s : Store) (c : Cmd) (hc : isEnable c = true) (k : String) :
    (GitCfg.step (GitCfg.step s c) c).get k = (GitCfg.step s c).get k := by
  rw [get_enable _ c hc, get_enable _ c hc]
  cases lastWrite k (enableWrites c) <;> simp

theorem addAttr_idem (l : Chunk) (m : Chunk → Bool) (hl : m l = true) (a : Option (List Chunk)) :
    addAttr l m (addAttr l m a) = addAttr l m a := by
  cases a with
  | none => simp [addAttr, hl]
  | some cs =>
    by_cases h : cs.any m = true
    · simp [addAttr, h]
    · have h' : cs.any m = false := by simpa using h
      simp only [addAttr, h']
      simp [hl]

/-- ... and on the attributes file. -/
theorem C18_idem_attrs (s : Store) (c : Cmd) (hc : isEnable c = true) :
    (GitCfg.step (GitCfg.step s c) c).attrs = (GitCfg.step s c).attrs := by
  cases c <;> simp only [isEnable] at hc <;> simp only [GitCfg.step, enableAttrs]
  · exact addAttr_idem _ _ rfl _
  · exact addAttr_idem _ _ rfl _
  · cases hs : s.attrs with
    | none => simp [addAttr, Chunk.hasDiff, Chunk.hasMerge]
    | some cs =>
      by_cases h1 : cs.any Chunk.hasDiff = true <;> by_cases h2 : cs.any Chunk.hasMerge = true <;>
        simp [addAttr, h1, h2, Chunk.hasDiff, Chunk.hasMerge, List.any_append]

theorem lastWrite_not_owned (c : Cmd) (k : String) (h : owned k = false) :
    lastWrite k (enableWrites c) = none := by
  simp only [owned, ownKeys, Bool.or_eq_false_iff] at h
  obtain ⟨⟨h1, _⟩, _⟩ := h
  simp only [List.contains_cons, List.contains_nil, Bool.or_false, Bool.or_eq_false_iff,
    beq_eq_false_iff_ne, ne_eq] at h1
  have e : ∀ (x : String), ¬ k = x → ¬ x = k := fun x hx hh => hx hh.symm
  cases c <;> simp only [enableWrites, lastWrite]
  case enableDiffTool sd => cases sd <;> simp_all [lastWrite]
  case enableMergeTool sd => cases sd <;> simp_all [lastWrite]
  all_goals simp_all

theorem lookup_disableCfg_not_owned (cfg : List (String × String)) (c : Cmd) (k : String)
    (h : owned k = false) : lookupKV k (disableCfg cfg c) = lookupKV k cfg := by
  simp only [owned, ownKeys, Bool.or_eq_false_iff] at h
  obtain ⟨⟨h1, h2⟩, h3⟩ := h
  simp only [List.contains_cons, List.contains_nil, Bool.or_false, Bool.or_eq_false_iff,
    beq_eq_false_iff_ne, ne_eq] at h1
  have hg : ¬ k = "diff.guitool" := h1.2.2.2.2.2.2.2.1
  have hm : ¬ k = "merge.tool" := h1.2.2.2.2.2.2.2.2
  cases c <;> simp only [disableCfg, lookup_unsetIfNbdime, lookupKV_removeSection, h2, h3, hg, hm,
    false_and, if_false, Bool.false_eq_true]

/-- No command ever changes a key that is not nbdime's own. -/
theorem C18_own (s : Store) (c : Cmd) (k : String) (h : owned k = false) :
    (GitCfg.step s c).get k = s.get k := by
  simp only [GitCfg.step, Store.get, lookup_disableCfg_not_owned _ c k h, lookup_applyWrites,
    lastWrite_not_owned c k h]
  simp

/-- Closure under every command sequence. -/
theorem C18_own_seq (s : Store) (cs : List Cmd) (k : String) (h : owned k = false) :
    (GitCfg.runCmds s cs).get k = s.get k := by
  induction cs generalizing s with
  | nil => rfl
  | cons c cs ih =>
    simp only [GitCfg.runCmds, List.foldl_cons] at *
    rw [ih, C18_own s c k h]

theorem lookup_disableCfg_mergetool (cfg : List (String × String)) (c : Cmd) (v : String)
    (h : lookupKV "merge.tool" cfg = some v) (hne : v ≠ "nbdime") :
    lookupKV "merge.tool" (disableCfg cfg c) = some v := by
  have hn : ¬ (some v = some "nbdime") := fun e => hne (Option.some.inj e)
  have e1 : ¬ ("merge.tool" = "diff.guitool") := by decide
  cases c <;> simp only [disableCfg, lookup_unsetIfNbdime, lookupKV_removeSection, sw_mt_d, sw_mt_m, h, hn,
    e1, and_false, false_and, if_false, Bool.false_eq_true]

theorem lookup_disableCfg_guitool (cfg : List (String × String)) (c : Cmd) (v : String)
    (h : lookupKV "diff.guitool" cfg = some v) (hne : v ≠ "nbdime") :
    lookupKV "diff.guitool" (disableCfg cfg c) = some v := by
  have hn : ¬ (some v = some "nbdime") := fun e => hne (Option.some.inj e)
  have e1 : ¬ ("diff.guitool" = "merge.tool") := by decide
  cases c <;> simp only [disableCfg, lookup_unsetIfNbdime, lookupKV_removeSection, sw_gt_d, sw_gt_m, h, hn,
    e1, and_false, false_and, if_false, Bool.false_eq_true]

/-- A default merge tool that points at another tool survives every command except an explicit
    `--set-default` of the merge tool... -/
theorem C18_foreign_mergetool (s : Store) (c : Cmd) (v : String)
    (hv : s.get "merge.tool" = some v) (hne : v ≠ "nbdime") (hc : c ≠ .enableMergeTool true) :
    (GitCfg.step s c).get "merge.tool" = some v := by
  have hw : lastWrite "merge.tool" (enableWrites c) = none := by
    cases c
    case enableDiffTool sd => cases sd <;> decide
    case enableMergeTool sd =>
      cases sd
      · decide
      · exact absurd rfl hc
    all_goals decide
  have hl : lookupKV "merge.tool" (applyWrites (enableWrites c) s.cfg) = some v := by
    rw [lookup_applyWrites, hw]; simpa [Store.get] using hv
  exact lookup_disableCfg_mergetool _ c v hl hne

/-- ... and likewise the default gui diff tool. -/
theorem C18_foreign_guitool (s : Store) (c : Cmd) (v : String)
    (hv : s.get "diff.guitool" = some v) (hne : v ≠ "nbdime") (hc : c ≠ .enableDiffTool true) :
    (GitCfg.step s c).get "diff.guitool" = some v := by
  have hw : lastWrite "diff.guitool" (enableWrites c) = none := by
    cases c
    case enableMergeTool sd => cases sd <;> decide
    case enableDiffTool sd =>
      cases sd
      · decide
      · exact absurd rfl hc
    all_goals decide
  have hl : lookupKV "diff.guitool" (applyWrites (enableWrites c) s.cfg) = some v := by
    rw [lookup_applyWrites, hw]; simpa [Store.get] using hv
  exact lookup_disableCfg_guitool _ c v hl hne

/-- Closure: any sequence of enable/disable commands without `--set-default`. -/
theorem C18_foreign_seq (s : Store) (cs : List Cmd) (v : String)
    (hv : s.get "merge.tool" = some v) (hne : v ≠ "nbdime")
    (hcs : ∀ c ∈ cs, c ≠ .enableMergeTool true) :
    (GitCfg.runCmds s cs).get "merge.tool" = some v := by
  induction cs generalizing s with
  | nil => exact hv
  | cons c cs ih =>
    simp only [GitCfg.runCmds, List.foldl_cons] at *
    exact ih _ (C18_foreign_mergetool s c v hv hne (hcs c (by simp))) (fun c' hc' => hcs c' (by simp [hc']))

/-- Disabling removes both drivers: no key of either driver section is left. -/
theorem C18_disabled (s : Store) (k : String)
    (hk : k.startsWith "diff.jupyternotebook." = true ∨ k.startsWith "merge.jupyternotebook." = true) :
    (GitCfg.step s .disableAll).get k = none := by
  have hm : ¬ k = "merge.tool" := by
    intro e; subst e; rcases hk with hk | hk
    · rw [sw_mt_d] at hk; exact Bool.noConfusion hk
    · rw [sw_mt_m] at hk; exact Bool.noConfusion hk
  have hg : ¬ k = "diff.guitool" := by
    intro e; subst e; rcases hk with hk | hk
    · rw [sw_gt_d] at hk; exact Bool.noConfusion hk
    · rw [sw_gt_m] at hk; exact Bool.noConfusion hk
  simp only [GitCfg.step, Store.get, disableCfg, lookup_unsetIfNbdime, lookupKV_removeSection, hm, hg,
    false_and, if_false]
  rcases hk with hk | hk
  · simp only [hk, if_true]; split <;> rfl
  · simp only [hk, if_true]

/-- The attributes file keeps all prior content and gains at most the two nbdime lines. -/
theorem C18_attrs_kept (s : Store) (c : Cmd) :
    ∃ extra, (GitCfg.step s c).attrs.getD [] = s.attrs.getD [] ++ extra ∧
      ∀ x ∈ extra, x = Chunk.diffLine ∨ x = Chunk.mergeLine := by
  cases c <;> simp only [GitCfg.step, enableAttrs]
  case enableDiffDriver =>
    cases hs : s.attrs with
    | none => exact ⟨[.diffLine], by simp [addAttr]⟩
    | some cs =>
      by_cases h : cs.any Chunk.hasDiff = true
      · exact ⟨[], by simp [addAttr, h]⟩
      · exact ⟨[.diffLine], by simp [addAttr, h]⟩
  case enableMergeDriver =>
    cases hs : s.attrs with
    | none => exact ⟨[.mergeLine], by simp [addAttr]⟩
    | some cs =>
      by_cases h : cs.any Chunk.hasMerge = true
      · exact ⟨[], by simp [addAttr, h]⟩
      · exact ⟨[.mergeLine], by simp [addAttr, h]⟩
  case enableAll =>
    cases hs : s.attrs with
    | none => exact ⟨[.diffLine, .mergeLine], by simp [addAttr, Chunk.hasMerge]⟩
    | some cs =>
      by_cases h1 : cs.any Chunk.hasDiff = true <;> by_cases h2 : cs.any Chunk.hasMerge = true
      · exact ⟨[], by simp [addAttr, h1, h2]⟩
      · exact ⟨[.mergeLine], by simp [addAttr, h1, h2]⟩
      · exact ⟨[.diffLine], by simp [addAttr, h1, h2, List.any_append, Chunk.hasMerge]⟩
      · exact ⟨[.diffLine, .mergeLine], by simp [addAttr, h1, h2, List.any_append, Chunk.hasMerge]⟩
  all_goals exact ⟨[], by simp⟩

/-- non-vacuity: a store with a foreign merge tool, foreign attributes and a foreign key -/
example : (GitCfg.runCmds ⟨[("merge.tool", "meld"), ("user.name", "x")], some [.foreign "*.txt text" false false]⟩
    [.enableAll, .disableAll, .enableAll]).get "merge.tool" = some "meld" :=
  C18_foreign_seq _ _ "meld" (by simp [Store.get, lookupKV]) (by decide) (by decide)

end Nbdime
