import NbdimeModel
import NbdimeProofs.Lemmas.MergeLaws
import NbdimeProofs.Lemmas.ApplyOneSided
import NbdimeProofs.Lemmas.ApplyKeywise
import NbdimeProofs.Lemmas.KeywiseMore
import NbdimeProofs.Lemmas.ApplyChoose
import NbdimeProofs.Lemmas.MergeCells
import NbdimeProofs.Lemmas.MixedStage
import NbdimeProofs.Lemmas.MergeTotal
import NbdimeProofs.Lemmas.JsonEq
import NbdimeProofs.Lemmas.NbWf
import NbdimeProofs.Properties.C01
import NbdimeProofs.Properties.C02
import NbdimeProofs.Properties.C11
import NbdimeProofs.Lemmas.Resolve
/-
  C05 / C10 — laws of the decision applier (NbdimeModel/Apply.lean) that the merge laws rest on:
  * no decisions: the merge is the identity;
  * swapping the local and remote roles of every decision does not change what is applied
    (side symmetry of the applied result), for every base document and every decision list whose
    `either` decisions really agree;
  * resolving every conflicted decision to one side leaves no conflict (C10).
-/
namespace Nbdime

/-- identity: nothing decided, nothing changes -/
theorem C05_identity_no_decisions (b : J) : applyDecisions b [] = .ok b := rfl

def swapAction (a : String) : String :=
  if a = "local" then "remote" else if a = "remote" then "local"
  else if a = "local_then_remote" then "remote_then_local"
  else if a = "remote_then_local" then "local_then_remote" else a

/-- the same decision seen with the roles of local and remote exchanged -/
def swapDecision (d : Decision) : Decision :=
  { d with action := swapAction d.action, localDiff := d.remoteDiff, remoteDiff := d.localDiff }

/-- decisions whose resolution does not depend on which side is called local -/
def Symmetric (d : Decision) : Prop :=
  (d.action = "either" → d.localDiff = d.remoteDiff) ∧
  d.action ≠ "clear" ∧ d.action ≠ "remove" ∧ d.action ≠ "take_max"

theorem resolveAction_swap (base : J) (d : Decision) (h : Symmetric d) :
    resolveAction base (swapDecision d) = resolveAction base d := by
  obtain ⟨he, hc, hr, ht⟩ := h
  have hk : d.keyBased = false := keyBased_false_of d hc hr ht
  have hk' : (swapDecision d).keyBased = false := by
    unfold Decision.keyBased swapDecision swapAction
    by_cases h1 : d.action = "local"
    · simp [h1]
    by_cases h2 : d.action = "remote"
    · simp [h2]
    by_cases h3 : d.action = "local_then_remote"
    · simp [h3]
    by_cases h4 : d.action = "remote_then_local"
    · simp [h4]
    simp [h1, h2, h3, h4, hc, hr, ht]
  rw [resolveAction_leaf _ _ hk, resolveAction_leaf _ _ hk']
  unfold resolveLeaf swapDecision swapAction
  by_cases h1 : d.action = "local"
  · simp [h1]
  by_cases h2 : d.action = "remote"
  · simp [h2]
  by_cases h3 : d.action = "local_then_remote"
  · simp [h3]
  by_cases h4 : d.action = "remote_then_local"
  · simp [h4]
  by_cases h5 : d.action = "either"
  · simp [h5, he h5]
  by_cases h6 : d.action = "base"
  · simp [h6]
  by_cases h7 : d.action = "custom"
  · simp [h7]
  by_cases h8 : d.action = "clear_all"
  · simp [h8]
  simp only [h1, h2, h3, h4, if_false]
  first | done | (split <;> simp_all)

theorem swapDecision_path (d : Decision) : (swapDecision d).path = d.path := rfl

theorem swapAction_clear_all (a : String) : (swapAction a == "clear_all") = (a == "clear_all") := by
  unfold swapAction
  by_cases h1 : a = "local"
  · subst h1; decide
  by_cases h2 : a = "remote"
  · subst h2; decide
  by_cases h3 : a = "local_then_remote"
  · subst h3; decide
  by_cases h4 : a = "remote_then_local"
  · subst h4; decide
  simp [h1, h2, h3, h4]

/-- side symmetry of application: exchanging the roles in every decision gives the same result -/
theorem C05_apply_swap (ds : List Decision) (hs : ∀ d ∈ ds, Symmetric d) (merged : J) (g : Option Group) :
    applyLoop (ds.map swapDecision) merged g = applyLoop ds merged g := by
  induction ds generalizing merged g with
  | nil => rfl
  | cons d rest ih =>
    have hd := hs d (by simp)
    have hrest : ∀ d ∈ rest, Symmetric d := fun x hx => hs x (by simp [hx])
    simp only [List.map_cons, applyLoop, swapDecision_path]
    have hca : ((swapDecision d).action == "clear_all") = (d.action == "clear_all") := swapAction_clear_all d.action
    simp only [hca, resolveAction_swap _ d hd, ih hrest]

theorem C05_symmetry_applied (b : J) (ds : List Decision) (hs : ∀ d ∈ ds, Symmetric d) :
    applyDecisions b (ds.map swapDecision) = applyDecisions b ds :=
  C05_apply_swap ds hs b none

/-- C10: resolving every open conflict to one side -/
def resolveTo (side : String) (d : Decision) : Decision :=
  if d.conflict then { d with action := side, conflict := false } else d

theorem C10_relabel_no_conflict (side : String) (ds : List Decision) :
    (ds.map (resolveTo side)).all (fun d => !d.conflict) = true := by
  simp only [List.all_map, List.all_eq_true]
  intro d _
  unfold resolveTo
  by_cases h : d.conflict = true <;> simp [h]

/-- relabelling touches only conflicted decisions -/
theorem C10_relabel_keeps_resolved (side : String) (d : Decision) (h : d.conflict = false) :
    resolveTo side d = d := by
  simp [resolveTo, h]

/-- non-vacuity -/
example : Symmetric ⟨[.s "cells"], "local_then_remote", true, some [.addrange 0 [.null]], some [.addrange 0 [.bool true]], none⟩ := by
  refine ⟨?_, ?_, ?_, ?_⟩
  · intro h; exact absurd h (by decide)
  all_goals decide


/-! ### the laws for the model of the decision procedure (`NbdimeModel/MergeGeneric.lean`)

  These hold for every base that is an object or array, every pair of diffs, every strategy table,
  every oracle (similarity predicates, difflib, text merge renderer): the quantifier the property states. -/

open Merge in
/-- identity: no change on either side, no decision (hence `applyDecisions` returns base: `C05_identity_no_decisions`) -/
theorem C05_model_identity (E : Env) (base : J) (hc : IsContainer base) : decideMerge E base [] [] = .ok [] :=
  decideMerge_identity E base hc

open Merge in
/-- one-sided adoption, decision level: a change on the local side only is never a conflict and every
    decision takes the local diff -/
theorem C05_model_onesided_local {E : Env} {base : J} {ld : List Op} {ds : List MD} (hc : IsContainer base)
    (h : decideMerge E base ld [] = .ok ds) : ∀ d ∈ ds, d.action = "local" ∧ d.conflict = false :=
  decideMerge_onesided_local hc h

open Merge in
theorem C05_model_onesided_remote {E : Env} {base : J} {rd : List Op} {ds : List MD} (hc : IsContainer base)
    (h : decideMerge E base [] rd = .ok ds) : ∀ d ∈ ds, d.action = "remote" ∧ d.conflict = false :=
  decideMerge_onesided_remote hc h

open Merge in
/-- agreement: the same diff on both sides is never a conflict and every decision is `either` -/
theorem C05_model_agreement {E : Env} {base : J} {d : List Op} {ds : List MD} (hc : IsContainer base)
    (h : decideMerge E base d d = .ok ds) : ∀ x ∈ ds, x.action = "either" ∧ x.conflict = false :=
  decideMerge_agreement hc h

open Merge in
/-- **one-sided adoption at document level** (model of `merge(base, X, base) = X` for any root object): if `ld` is a
    well-formed mapping diff that patches `base` into `X`, the decisions recorded for "local changed by `ld`, remote
    unchanged", applied to `base`, give exactly `X` — every strategy table, every oracle. -/
theorem C05_model_onesided_apply (E : Env) (base : List (String × J)) (ld : List Op) (ds : List MD) (X : J)
    (hc : (J.obj base).canonical = true) (hwf : wf (.obj base) ld = true)
    (hX : patch (.obj base) ld = .ok X) (h : decideMerge E (.obj base) ld [] = .ok ds) :
    applyDecisions (.obj base) (ds.map MD.toDecision) = .ok X := by
  rw [wf] at hwf
  obtain ⟨h1, h2, _⟩ := wfObj_shape base ld [] hwf
  exact apply_onesided_obj E base ld ds X hc h1 h2 hX h

open Merge in
/-- end to end for generic JSON objects: diff (model of `nbdime.diff`), decide (model of `decide_merge_with_diff` with
    the remote side unchanged), apply (model of `apply_decisions`): the result is the local document. Uses the
    round trip (C02) and well-formedness (C11) theorems of the differ. -/
theorem C05_generic_onesided_adoption (E : Env) (O : Oracle) (hO : OracleOK O) (base : List (String × J)) (x : J)
    (ld : List Op) (ds : List MD) (ca : (J.obj base).canonical = true) (cx : x.canonical = true)
    (hab : Compat (.obj base) x) (hd : diffGeneric O (.obj base) x = .ok ld)
    (h : decideMerge E (.obj base) ld [] = .ok ds) :
    applyDecisions (.obj base) (ds.map MD.toDecision) = .ok x :=
  C05_model_onesided_apply E base ld ds x ca (C11_generic_wf O hO _ x ld ca cx hab hd)
    (C02_roundtrip_partial O hO _ x ld ca cx hab hd) h

open Merge in
/-- end to end for notebooks: `diff_notebooks` under any sound table configuration, then the merge with an unchanged
    remote side under ANY strategy table (`notebook_merge_strategies` for any options), then `apply_decisions`:
    the merged notebook is the local notebook. -/
theorem C05_notebook_onesided_adoption (E : Env) (O : Oracle) (hO : OracleOK O) (cfg : Cfg) (hcfg : cfgSoundB cfg = true)
    (base : List (String × J)) (x : J) (ld : List Op) (ds : List MD)
    (ca : (J.obj base).canonical = true) (cx : x.canonical = true) (hab : Compat (.obj base) x)
    (hd : diffNotebooks O cfg (.obj base) x = .ok ld) (h : decideMerge E (.obj base) ld [] = .ok ds) :
    applyDecisions (.obj base) (ds.map MD.toDecision) = .ok x :=
  C05_model_onesided_apply E base ld ds x ca (C11_notebook_wf O hO cfg hcfg _ x ld ca cx hab hd)
    (C01_roundtrip_partial O hO cfg hcfg _ x ld ca cx hab hd) h

open Merge in
/-- **key-wise merges at document level** (root object): the two diffs are well-formed for `base` and carry the same
    entry wherever they share a root key (one side only, the other side only, or both the same — at any depth below
    the key). Then `apply_decisions ∘ decide_merge_with_diff` gives `base` patched with the local diff and with the
    remote entries under the remaining keys — every strategy table, every oracle. -/
theorem C05_model_keywise_apply (E : Env) (base : List (String × J)) (ld rd : List Op) (ds : List MD) (X : J)
    (hc : (J.obj base).canonical = true) (hwfL : wf (.obj base) ld = true) (hwfR : wf (.obj base) rd = true)
    (hagree : ∀ el ∈ ld, ∀ er ∈ rd, el.skey = er.skey → el = er)
    (hX : patch (.obj base) (ld ++ rd.filter (fun e => !(ld.map Op.skey).contains e.skey)) = .ok X)
    (h : decideMerge E (.obj base) ld rd = .ok ds) :
    applyDecisions (.obj base) (ds.map MD.toDecision) = .ok X := by
  rw [wf] at hwfL hwfR
  obtain ⟨l1, l2, _⟩ := wfObj_shape base ld [] hwfL
  obtain ⟨r1, r2, _⟩ := wfObj_shape base rd [] hwfR
  exact (apply_keywise_obj E base ld rd ds X hc l1 l2 r1 r2 hagree hX h).1

open Merge in
/-- one-sided adoption, remote role: `merge(base, base, X) = X` for any root object -/
theorem C05_model_onesided_apply_remote (E : Env) (base : List (String × J)) (rd : List Op) (ds : List MD) (X : J)
    (hc : (J.obj base).canonical = true) (hwf : wf (.obj base) rd = true)
    (hX : patch (.obj base) rd = .ok X) (h : decideMerge E (.obj base) [] rd = .ok ds) :
    applyDecisions (.obj base) (ds.map MD.toDecision) = .ok X := by
  rw [wf] at hwf
  obtain ⟨r1, r2, _⟩ := wfObj_shape base rd [] hwf
  refine (apply_keywise_obj E base [] rd ds X hc (fun _ h => nomatch h) List.nodup_nil r1 r2
    (fun _ h => nomatch h) ?_ h).1
  have : rd.filter (fun e => !(([] : List Op).map Op.skey).contains e.skey) = rd :=
    List.filter_eq_self.mpr (fun _ _ => rfl)
  rw [List.nil_append, this]; exact hX

open Merge in
/-- agreement at document level: both sides made the change `d`; the merged document is `base` patched with `d` -/
theorem C05_model_agreement_apply (E : Env) (base : List (String × J)) (d : List Op) (ds : List MD) (X : J)
    (hc : (J.obj base).canonical = true) (hwf : wf (.obj base) d = true)
    (hX : patch (.obj base) d = .ok X) (h : decideMerge E (.obj base) d d = .ok ds) :
    applyDecisions (.obj base) (ds.map MD.toDecision) = .ok X := by
  rw [wf] at hwf
  obtain ⟨d1, d2, _⟩ := wfObj_shape base d [] hwf
  refine (apply_keywise_obj E base d d ds X hc d1 d2 d1 d2 ?_ ?_ h).1
  · intro el hel er her hk
    exact inj_of_map_nodup Op.skey d d2 el hel er her hk
  · have : d.filter (fun e => !(d.map Op.skey).contains e.skey) = [] := by
      rw [List.filter_eq_nil_iff]
      intro e he
      simp [List.mem_map_of_mem he]
    rw [this, List.append_nil]; exact hX


open Merge in
/-- end to end, remote role, generic JSON objects: diff, decide with the local side unchanged, apply = the remote document -/
theorem C05_generic_onesided_adoption_remote (E : Env) (O : Oracle) (hO : OracleOK O) (base : List (String × J)) (x : J)
    (rd : List Op) (ds : List MD) (ca : (J.obj base).canonical = true) (cx : x.canonical = true)
    (hab : Compat (.obj base) x) (hd : diffGeneric O (.obj base) x = .ok rd)
    (h : decideMerge E (.obj base) [] rd = .ok ds) :
    applyDecisions (.obj base) (ds.map MD.toDecision) = .ok x :=
  C05_model_onesided_apply_remote E base rd ds x ca (C11_generic_wf O hO _ x rd ca cx hab hd)
    (C02_roundtrip_partial O hO _ x rd ca cx hab hd) h

open Merge in
/-- end to end, remote role, notebooks -/
theorem C05_notebook_onesided_adoption_remote (E : Env) (O : Oracle) (hO : OracleOK O) (cfg : Cfg) (hcfg : cfgSoundB cfg = true)
    (base : List (String × J)) (x : J) (rd : List Op) (ds : List MD)
    (ca : (J.obj base).canonical = true) (cx : x.canonical = true) (hab : Compat (.obj base) x)
    (hd : diffNotebooks O cfg (.obj base) x = .ok rd) (h : decideMerge E (.obj base) [] rd = .ok ds) :
    applyDecisions (.obj base) (ds.map MD.toDecision) = .ok x :=
  C05_model_onesided_apply_remote E base rd ds x ca (C11_notebook_wf O hO cfg hcfg _ x rd ca cx hab hd)
    (C01_roundtrip_partial O hO cfg hcfg _ x rd ca cx hab hd) h

open Merge in
/-- end to end, agreement, generic JSON objects: both sides turned `base` into `x` -/
theorem C05_generic_agreement_adoption (E : Env) (O : Oracle) (hO : OracleOK O) (base : List (String × J)) (x : J)
    (d : List Op) (ds : List MD) (ca : (J.obj base).canonical = true) (cx : x.canonical = true)
    (hab : Compat (.obj base) x) (hd : diffGeneric O (.obj base) x = .ok d)
    (h : decideMerge E (.obj base) d d = .ok ds) :
    applyDecisions (.obj base) (ds.map MD.toDecision) = .ok x :=
  C05_model_agreement_apply E base d ds x ca (C11_generic_wf O hO _ x d ca cx hab hd)
    (C02_roundtrip_partial O hO _ x d ca cx hab hd) h

open Merge in
/-- end to end, agreement, notebooks -/
theorem C05_notebook_agreement_adoption (E : Env) (O : Oracle) (hO : OracleOK O) (cfg : Cfg) (hcfg : cfgSoundB cfg = true)
    (base : List (String × J)) (x : J) (d : List Op) (ds : List MD)
    (ca : (J.obj base).canonical = true) (cx : x.canonical = true) (hab : Compat (.obj base) x)
    (hd : diffNotebooks O cfg (.obj base) x = .ok d) (h : decideMerge E (.obj base) d d = .ok ds) :
    applyDecisions (.obj base) (ds.map MD.toDecision) = .ok x :=
  C05_model_agreement_apply E base d ds x ca (C11_notebook_wf O hO cfg hcfg _ x d ca cx hab hd)
    (C01_roundtrip_partial O hO cfg hcfg _ x d ca cx hab hd) h

open Merge in
/-- **C06 at document level, different keys of the root object** (for notebooks: one side works on the cells, the other
    on the notebook metadata / format fields; for generic JSON: "changes under different keys"): two well-formed
    diffs that share no root key merge without conflict into exactly base with both diffs applied. -/
theorem C06_model_different_keys (E : Env) (base : List (String × J)) (ld rd : List Op) (ds : List MD) (X : J)
    (hc : (J.obj base).canonical = true) (hwfL : wf (.obj base) ld = true) (hwfR : wf (.obj base) rd = true)
    (hdisj : ∀ el ∈ ld, ∀ er ∈ rd, el.skey ≠ er.skey)
    (hX : patch (.obj base) (ld ++ rd) = .ok X) (h : decideMerge E (.obj base) ld rd = .ok ds) :
    applyDecisions (.obj base) (ds.map MD.toDecision) = .ok X ∧ ∀ d ∈ ds, d.conflict = false := by
  rw [wf] at hwfL hwfR
  obtain ⟨l1, l2, _⟩ := wfObj_shape base ld [] hwfL
  obtain ⟨r1, r2, _⟩ := wfObj_shape base rd [] hwfR
  refine apply_keywise_obj E base ld rd ds X hc l1 l2 r1 r2 (fun el hl er hr hk => absurd hk (hdisj el hl er hr)) ?_ h
  have : rd.filter (fun e => !(ld.map Op.skey).contains e.skey) = rd := by
    rw [List.filter_eq_self]
    intro e he
    simp only [Bool.not_eq_true', List.contains_eq_mem, decide_eq_false_iff_not, List.mem_map, not_exists, not_and]
    intro el hel hk
    exact hdisj el hel e he hk
  rw [this]; exact hX

open Merge in
/-- C09, "applying the decisions to base gives the merged document", and no conflict, for key-wise merges -/
theorem C09_model_keywise_apply (E : Env) (base : List (String × J)) (ld rd : List Op) (ds : List MD) (X : J)
    (hc : (J.obj base).canonical = true) (hwfL : wf (.obj base) ld = true) (hwfR : wf (.obj base) rd = true)
    (hagree : ∀ el ∈ ld, ∀ er ∈ rd, el.skey = er.skey → el = er)
    (hX : patch (.obj base) (ld ++ rd.filter (fun e => !(ld.map Op.skey).contains e.skey)) = .ok X)
    (h : decideMerge E (.obj base) ld rd = .ok ds) :
    applyDecisions (.obj base) (ds.map MD.toDecision) = .ok X ∧ ∀ d ∈ ds, d.conflict = false := by
  rw [wf] at hwfL hwfR
  obtain ⟨l1, l2, _⟩ := wfObj_shape base ld [] hwfL
  obtain ⟨r1, r2, _⟩ := wfObj_shape base rd [] hwfR
  exact apply_keywise_obj E base ld rd ds X hc l1 l2 r1 r2 hagree hX h


open Merge in
/-- the key-wise theorem under its decidable hypothesis `Merge.keywise` (evaluated by the driver on every generated
    root-key case): inside the domain, whenever the combined diff patches base and the merge returns decisions,
    `apply_decisions ∘ decide_merge_with_diff` = `patch base (ld ∪ rd)` and no decision is a conflict. -/
theorem C06_model_keywise (E : Env) (base : J) (ld rd : List Op) (X Y : J)
    (hk : keywise base ld rd = true) (hX : patch base (keywiseUnion ld rd) = .ok X)
    (h : mergeApply E base ld rd = .ok Y) : Y = X := by
  cases base with
  | obj kvs =>
    simp only [keywise, Bool.and_eq_true, List.all_eq_true, Bool.or_eq_true, bne_iff_ne, ne_eq] at hk
    obtain ⟨⟨⟨hc, hwl⟩, hwr⟩, hag⟩ := hk
    unfold mergeApply at h
    simp only [bind, Except.bind] at h
    cases hd : decideMerge E (.obj kvs) ld rd with
    | error e => simp [hd] at h
    | ok ds =>
      simp only [hd] at h
      have := (C09_model_keywise_apply E kvs ld rd ds X hc hwl hwr
        (fun el hel er her hkey => by
          rcases hag el hel er her with h1 | h1
          · exact absurd hkey h1
          · exact Op.beq_eq el er h1) hX hd).1
      rw [this] at h
      cases h; rfl
  | _ => simp [keywise] at hk

open Merge in
/-- **C09, choosing a side, for key-wise merges**: with every decision switched to local, `apply_decisions` gives base
    patched with the local diff — the local document; with every decision switched to remote, the remote document. -/
theorem C09_model_keywise_choose_local (E : Env) (base : List (String × J)) (ld rd : List Op) (ds : List MD) (L : J)
    (hc : (J.obj base).canonical = true) (hwfL : wf (.obj base) ld = true) (hwfR : wf (.obj base) rd = true)
    (hagree : ∀ el ∈ ld, ∀ er ∈ rd, el.skey = er.skey → el = er)
    (hL : patch (.obj base) ld = .ok L) (h : decideMerge E (.obj base) ld rd = .ok ds) :
    applyAs "local" (.obj base) (ds.map MD.toDecision) = .ok L :=
  keywise_choose true E base ld rd ds L hc hwfL hwfR hagree hL h

open Merge in
theorem C09_model_keywise_choose_remote (E : Env) (base : List (String × J)) (ld rd : List Op) (ds : List MD) (R : J)
    (hc : (J.obj base).canonical = true) (hwfL : wf (.obj base) ld = true) (hwfR : wf (.obj base) rd = true)
    (hagree : ∀ el ∈ ld, ∀ er ∈ rd, el.skey = er.skey → el = er)
    (hR : patch (.obj base) rd = .ok R) (h : decideMerge E (.obj base) ld rd = .ok ds) :
    applyAs "remote" (.obj base) (ds.map MD.toDecision) = .ok R :=
  keywise_choose false E base ld rd ds R hc hwfL hwfR hagree hR h

open Merge in
/-- **C11 for the decisions of key-wise merges**: every local / remote diff embedded in a decision is well-formed for the
    sub-document at the decision's path (character level when the path ends on a line of a string) -/
theorem C11_model_keywise_decisions_wf (E : Env) (base : List (String × J)) (ld rd : List Op) (ds : List MD)
    (hwfL : wf (.obj base) ld = true) (hwfR : wf (.obj base) rd = true)
    (hagree : ∀ el ∈ ld, ∀ er ∈ rd, el.skey = er.skey → el = er)
    (h : decideMerge E (.obj base) ld rd = .ok ds) :
    ∀ d ∈ ds, ∀ x, (d.localDiff = some x ∨ d.remoteDiff = some x) → wfAt (.obj base) d.path x = true :=
  keywise_decisions_wf E base ld rd ds hwfL hwfR hagree h

open Merge in
/-- **C03 on the key-wise domain**: the decision procedure does not raise, whatever the strategy table and the oracle -/
theorem C03_model_keywise_total (E : Env) (base : List (String × J)) (ld rd : List Op)
    (hwfL : wf (.obj base) ld = true) (hwfR : wf (.obj base) rd = true)
    (hagree : ∀ el ∈ ld, ∀ er ∈ rd, el.skey = er.skey → el = er) :
    ∃ ds, decideMerge E (.obj base) ld rd = .ok ds := by
  rw [wf] at hwfL hwfR
  obtain ⟨l1, l2, _⟩ := wfObj_shape base ld [] hwfL
  obtain ⟨r1, r2, _⟩ := wfObj_shape base rd [] hwfR
  exact keywise_total E base ld rd l1 l2 r1 r2 hagree

open Merge in
/-- the whole of C03 / C06 / C09 on the key-wise domain in one statement: if both diffs are well-formed, agree on shared
    keys, and each patches base (into L and R), and their union patches base into X, then the merge succeeds, reports no
    conflict, applies to X, and choosing local / remote for every decision gives L / R. -/
theorem C09_model_keywise_all (E : Env) (base : List (String × J)) (ld rd : List Op) (L R X : J)
    (hc : (J.obj base).canonical = true) (hwfL : wf (.obj base) ld = true) (hwfR : wf (.obj base) rd = true)
    (hagree : ∀ el ∈ ld, ∀ er ∈ rd, el.skey = er.skey → el = er)
    (hL : patch (.obj base) ld = .ok L) (hR : patch (.obj base) rd = .ok R)
    (hX : patch (.obj base) (ld ++ rd.filter (fun e => !(ld.map Op.skey).contains e.skey)) = .ok X) :
    ∃ ds, decideMerge E (.obj base) ld rd = .ok ds ∧ (∀ d ∈ ds, d.conflict = false) ∧
      applyDecisions (.obj base) (ds.map MD.toDecision) = .ok X ∧
      applyAs "local" (.obj base) (ds.map MD.toDecision) = .ok L ∧
      applyAs "remote" (.obj base) (ds.map MD.toDecision) = .ok R := by
  obtain ⟨ds, h⟩ := C03_model_keywise_total E base ld rd hwfL hwfR hagree
  obtain ⟨a1, a2⟩ := C09_model_keywise_apply E base ld rd ds X hc hwfL hwfR hagree hX h
  exact ⟨ds, h, a2, a1, C09_model_keywise_choose_local E base ld rd ds L hc hwfL hwfR hagree hL h,
    C09_model_keywise_choose_remote E base ld rd ds R hc hwfL hwfR hagree hR h⟩


open Merge in
/-- the merged diff does not depend on which side is called local: the two unions are permutations of each other -/
theorem unionDiff_swap_perm (ld rd : List Op) (hndL : (ld.map Op.skey).Nodup) (hndR : (rd.map Op.skey).Nodup)
    (hagree : ∀ el ∈ ld, ∀ er ∈ rd, el.skey = er.skey → el = er) : (unionDiff rd ld).Perm (unionDiff ld rd) := by
  have nd : ∀ (a b : List Op), (a.map Op.skey).Nodup → (b.map Op.skey).Nodup → (unionDiff a b).Nodup := by
    intro a b ha hb
    unfold unionDiff
    have ofmap : ∀ (l : List Op), (l.map Op.skey).Nodup → l.Nodup := fun l h =>
      List.Pairwise.of_map Op.skey (fun x y hne hxy => hne (by rw [hxy])) h
    refine List.nodup_append.mpr ⟨ofmap a ha, List.Pairwise.filter _ (ofmap b hb), ?_⟩
    intro x hx y hy hxy
    subst hxy
    simp only [List.mem_filter, Bool.not_eq_true', List.contains_eq_mem, decide_eq_false_iff_not] at hy
    exact hy.2 (List.mem_map_of_mem hx)
  rw [List.perm_ext_iff_of_nodup (nd rd ld hndR hndL) (nd ld rd hndL hndR)]
  intro e
  unfold unionDiff
  simp only [List.mem_append, List.mem_filter, Bool.not_eq_true', List.contains_eq_mem, decide_eq_false_iff_not]
  constructor
  · rintro (h | ⟨h, _⟩)
    · by_cases hk : e.skey ∈ ld.map Op.skey
      · obtain ⟨el, hel, hkey⟩ := List.mem_map.mp hk
        have := hagree el hel e h hkey
        subst this
        exact Or.inl hel
      · exact Or.inr ⟨h, hk⟩
    · exact Or.inl h
  · rintro (h | ⟨h, _⟩)
    · by_cases hk : e.skey ∈ rd.map Op.skey
      · obtain ⟨er, her, hkey⟩ := List.mem_map.mp hk
        have := hagree e h er her hkey.symm
        subst this
        exact Or.inl her
      · exact Or.inr ⟨h, hk⟩
    · exact Or.inl h

open Merge in
/-- **C05, side symmetry, on the key-wise domain**: exchanging the local and the remote role gives the same merged
    document, and no conflict either way — every strategy table, every oracle -/
theorem C05_model_keywise_symmetric (E : Env) (base : List (String × J)) (ld rd : List Op) (ds1 ds2 : List MD) (X : J)
    (hc : (J.obj base).canonical = true) (hwfL : wf (.obj base) ld = true) (hwfR : wf (.obj base) rd = true)
    (hagree : ∀ el ∈ ld, ∀ er ∈ rd, el.skey = er.skey → el = er)
    (hX : patch (.obj base) (ld ++ rd.filter (fun e => !(ld.map Op.skey).contains e.skey)) = .ok X)
    (h1 : decideMerge E (.obj base) ld rd = .ok ds1) (h2 : decideMerge E (.obj base) rd ld = .ok ds2) :
    applyDecisions (.obj base) (ds1.map MD.toDecision) = .ok X ∧ applyDecisions (.obj base) (ds2.map MD.toDecision) = .ok X ∧
      (∀ d ∈ ds1, d.conflict = false) ∧ (∀ d ∈ ds2, d.conflict = false) := by
  obtain ⟨a1, a2⟩ := C09_model_keywise_apply E base ld rd ds1 X hc hwfL hwfR hagree hX h1
  rw [wf] at hwfL hwfR
  obtain ⟨hmapL, hndL, _⟩ := wfObj_shape base ld [] hwfL
  obtain ⟨hmapR, hndR, _⟩ := wfObj_shape base rd [] hwfR
  have hagree' : ∀ el ∈ rd, ∀ er ∈ ld, el.skey = er.skey → el = er := fun el hel er her hk => (hagree er her el hel hk.symm).symm
  obtain ⟨b, rfl, hb0, hperm, hndU, hUmap⟩ := keywise_decisions E base rd ld ds2 hmapR hndR hmapL hndL hagree' h2
  have hsw := unionDiff_swap_perm ld rd hndL hndR hagree
  change patch (.obj base) (unionDiff ld rd) = .ok X at hX
  have heffAll : ∀ e ∈ unionDiff ld rd, (mapEff base e).isSome = true := by
    rw [patch] at hX
    simp only [bind, Except.bind] at hX
    cases hpd : patchDict base (unionDiff ld rd) [] [] with
    | error er => simp [hpd] at hX
    | ok R => exact fun e he => (patchDict_ok_eff base _ [] [] R hpd e he).2
  have hndU' : ((unionDiff ld rd).map Op.skey).Nodup := (hsw.map Op.skey).nodup_iff.mp hndU
  refine ⟨a1, ?_, a2, fun d hd => by
    obtain ⟨s, e, rfl, _⟩ := hb0 d (mem_sortDesc b d hd)
    exact mkSide_noconf s e⟩
  rw [← hX]
  apply apply_entries base hc b entryOf (unionDiff ld rd)
  · intro d hd
    obtain ⟨s, e, rfl, he, _⟩ := hb0 d hd
    rw [entryOf_mkSide s (hUmap e he)]
    exact mkSide_ent s (hUmap e he)
  · intro d hd
    obtain ⟨s, e, rfl, he, _⟩ := hb0 d hd
    rw [entryOf_mkSide s (hUmap e he)]
    exact heffAll e (hsw.subset he)
  · exact hperm.trans hsw
  · exact hndU'


theorem ascPatchB_spec : ∀ (lo : Nat) (d : List Op), Merge.ascPatchB lo d = true → AscPatch lo d
  | _, [], _ => trivial
  | lo, .patchI j dd :: rest, h => by
      simp only [Merge.ascPatchB, Bool.and_eq_true, decide_eq_true_eq] at h
      exact ⟨h.1, ascPatchB_spec (j + 1) rest h.2⟩
  | _, .add _ _ :: _, h => by simp [Merge.ascPatchB] at h
  | _, .remove _ :: _, h => by simp [Merge.ascPatchB] at h
  | _, .replace _ _ :: _, h => by simp [Merge.ascPatchB] at h
  | _, .patchK _ _ :: _, h => by simp [Merge.ascPatchB] at h
  | _, .addrange _ _ :: _, h => by simp [Merge.ascPatchB] at h
  | _, .addchars _ _ :: _, h => by simp [Merge.ascPatchB] at h
  | _, .removerange _ _ :: _, h => by simp [Merge.ascPatchB] at h
  | _, .invalid _ :: _, h => by simp [Merge.ascPatchB] at h

open Merge in
/-- **C06 for cells, document level** (`apply_cells_only` under its decidable hypothesis `Merge.cellwise`, evaluated by the
    driver on the ownership cases): the local side patches some items of one list of the root object (the cells), the remote
    side patches others, neither inserts or removes items. Then whenever the merge returns decisions and the two diffs
    apply one after the other, `apply_decisions ∘ decide_merge_with_diff` gives exactly that document — base with both
    sets of changes — and no decision is a conflict, for every strategy table and every oracle. -/
theorem C06_model_cells (E : Env) (base : J) (ld rd : List Op) (ds : List MD) (X : J)
    (hcw : cellwise base ld rd = true) (hX : patchBoth base ld rd = .ok X)
    (h : decideMerge E base ld rd = .ok ds) :
    applyDecisions base (ds.map MD.toDecision) = .ok X ∧ ∀ d ∈ ds, d.conflict = false := by
  unfold cellwise at hcw
  split at hcw
  · rename_i kvs k dL k' dR
    simp only [Bool.and_eq_true, beq_iff_eq, Bool.not_eq_true', List.all_eq_true, bne_iff_ne, ne_eq] at hcw
    obtain ⟨⟨⟨⟨⟨⟨⟨hkk, hc⟩, hlk⟩, haL⟩, haR⟩, hne⟩, hdis⟩, hpy⟩ := hcw
    subst hkk
    cases hl : lookupKV k kvs with
    | none => simp [hl] at hlk
    | some v =>
      cases v with
      | arr xs =>
        unfold patchBoth at hX
        simp only [bind, Except.bind] at hX
        cases hL : patch (.obj kvs) [.patchK k dL] with
        | error e => simp [hL] at hX
        | ok L =>
          simp only [hL] at hX
          exact apply_cells_only E kvs k xs dL dR ds L X hc hl (ascPatchB_spec 0 dL haL) (ascPatchB_spec 0 dR haR)
            (fun e0 h0 e1 h1 => hdis e0 h0 e1 h1) (by intro hnil; simp [hnil] at hne) hpy hL hX h
      | null => simp [hl] at hlk
      | bool _ => simp [hl] at hlk
      | int _ => simp [hl] at hlk
      | flt _ => simp [hl] at hlk
      | str _ => simp [hl] at hlk
      | obj _ => simp [hl] at hlk
  · cases hcw

open Merge in
theorem entryAt_spec {k : String} {d : List Op} {e : Op} (h : entryAt k d = some e) : e ∈ d ∧ e.skey = k := by
  unfold entryAt at h
  have h1 := List.find?_some h
  exact ⟨List.mem_of_find?_eq_some h, by simpa using h1⟩

open Merge in
theorem mixedParts_spec {base : J} {k : String} {ld rd : List Op} {kvs : List (String × J)} {xs : List J} {dL dR : List Op}
    (h : mixedParts base k ld rd = some (kvs, xs, dL, dR)) :
    base = .obj kvs ∧ lookupKV k kvs = some (.arr xs) ∧ Op.patchK k dL ∈ ld ∧ Op.patchK k dR ∈ rd := by
  unfold mixedParts at h
  split at h
  · rename_i kvs'
    split at h
    · rename_i xs' k1 dL' k2 dR' h1 h2 h3
      simp only [Option.some.injEq, Prod.mk.injEq] at h
      obtain ⟨rfl, rfl, rfl, rfl⟩ := h
      obtain ⟨m2, s2⟩ := entryAt_spec h2
      obtain ⟨m3, s3⟩ := entryAt_spec h3
      simp only [Op.skey] at s2 s3
      subst s2
      subst s3
      exact ⟨rfl, h1, m2, m3⟩
    · cases h
  · cases h

open Merge in
/-- **C06 on the mixed domain** (`Merge.mixedwise`, decidable, evaluated by the driver): the two sides edit different
    items of the list under root key `k` (the cells of a notebook) — neither inserts or removes items — and on every
    other root key (notebook metadata, format fields) they change it on one side only or in the same way. Then, whenever
    the merge returns decisions and the two diffs apply one after the other, `apply_decisions ∘ decide_merge_with_diff`
    gives exactly base with the local diff and then the remaining remote entries applied, and no decision is a conflict —
    for every strategy table and every oracle. -/
theorem C06_model_mixed (E : Env) (base : J) (k : String) (ld rd : List Op) (ds : List MD) (X : J)
    (hm : mixedwise base k ld rd = true) (hX : patchBothMixed base k ld rd = .ok X)
    (h : decideMerge E base ld rd = .ok ds) :
    applyDecisions base (ds.map MD.toDecision) = .ok X ∧ ∀ d ∈ ds, d.conflict = false := by
  unfold mixedwise at hm
  split at hm
  · rename_i kvs xs dL dR hparts
    obtain ⟨rfl, hk, hkL, hkR⟩ := mixedParts_spec hparts
    simp only [Bool.and_eq_true, Bool.not_eq_true', List.all_eq_true, bne_iff_ne, ne_eq, Bool.or_eq_true, beq_iff_eq] at hm
    obtain ⟨⟨⟨⟨⟨⟨⟨⟨⟨hc, hwl⟩, hwr⟩, hint⟩, haL⟩, haR⟩, hne⟩, hdis⟩, hpy⟩, hag⟩ := hm
    have hwl' := hwl
    have hwr' := hwr
    rw [wf] at hwl' hwr'
    obtain ⟨hmapL, hndL, _⟩ := wfObj_shape kvs ld [] hwl'
    obtain ⟨hmapR, hndR, _⟩ := wfObj_shape kvs rd [] hwr'
    have hcc := hc
    simp only [J.canonical, Bool.and_eq_true] at hcc
    have hb : SK kvs := keysSorted_sk kvs hcc.1
    unfold patchBothMixed at hX
    simp only [bind, Except.bind] at hX
    cases hL : patch (.obj kvs) ld with
    | error e => simp [hL] at hX
    | ok L =>
      simp only [hL] at hX
      obtain ⟨RL, RX, hRL, hRX, hX'⟩ := mixed_two_stage kvs hb ld rd hndL hndR k xs dL dR hkL hkR hk L X hL hX
      exact apply_mixed_obj E kvs ld rd ds X k xs dL dR RL RX hc hint hmapL hndL hmapR hndR hkL hkR
        (fun el hel er her hkey hnk => by
          rcases hag el hel er her with (h1 | h1) | h1
          · exact absurd hkey h1
          · exact absurd h1 hnk
          · exact Op.beq_eq el er h1)
        hk (ascPatchB_spec 0 dL haL) (ascPatchB_spec 0 dR haR) (fun e0 h0 e1 h1 => hdis e0 h0 e1 h1)
        (by intro hnil; simp [hnil] at hne) hpy hRL hRX hX' h
  · cases hm

open Merge in
/-- **C11 on the mixed domain**: every local / remote diff inside a decision of a mixed merge is well-formed for the
    sub-document at the decision's path -/
theorem C11_model_mixed_decisions_wf (E : Env) (base : J) (k : String) (ld rd : List Op) (ds : List MD)
    (hm : mixedwise base k ld rd = true) (h : decideMerge E base ld rd = .ok ds) :
    ∀ d ∈ ds, ∀ x, (d.localDiff = some x ∨ d.remoteDiff = some x) → wfAt base d.path x = true := by
  unfold mixedwise at hm
  split at hm
  · rename_i kvs xs dL dR hparts
    obtain ⟨rfl, hk, hkL, hkR⟩ := mixedParts_spec hparts
    simp only [Bool.and_eq_true, Bool.not_eq_true', List.all_eq_true, bne_iff_ne, ne_eq, Bool.or_eq_true, beq_iff_eq] at hm
    obtain ⟨⟨⟨⟨⟨⟨⟨⟨⟨hc, hwl⟩, hwr⟩, hint⟩, haL⟩, haR⟩, hne⟩, hdis⟩, hpy⟩, hag⟩ := hm
    rw [wf] at hwl hwr
    obtain ⟨hmapL, hndL, _⟩ := wfObj_shape kvs ld [] hwl
    obtain ⟨hmapR, hndR, _⟩ := wfObj_shape kvs rd [] hwr
    have okL := wfObj_entries kvs ld [] hwl
    have okR := wfObj_entries kvs rd [] hwr
    obtain ⟨R, rfl, hRmem⟩ := mixed_decisions E kvs ld rd ds k xs dL dR hmapL hndL hmapR hndR hkL hkR
      (fun el hel er her hkey hnk => by
        rcases hag el hel er her with (h1 | h1) | h1
        · exact absurd hkey h1
        · exact absurd h1 hnk
        · exact Op.beq_eq el er h1)
      hk (ascPatchB_spec 0 dL haL) (ascPatchB_spec 0 dR haR) (fun e0 h0 e1 h1 => hdis e0 h0 e1 h1) hpy h
    have hwL : wfList xs dL 0 none = true := by
      have := okL _ hkL
      simp only [entryOk, hk, Bool.and_eq_true] at this
      have h2 := this.2.2
      rw [wf] at h2
      exact h2
    have hwR : wfList xs dR 0 none = true := by
      have := okR _ hkR
      simp only [entryOk, hk, Bool.and_eq_true] at this
      have h2 := this.2.2
      rw [wf] at h2
      exact h2
    intro d hd
    rcases hRmem d (mem_sortDesc R d hd) with hw | ⟨s, e, rfl, hme, _, he | he⟩
    · exact walk_items_wf kvs k xs dL dR hk (ascPatchB_spec 0 dL haL) (ascPatchB_spec 0 dR haR)
        (fun e0 h0 e1 h1 => hdis e0 h0 e1 h1) hwL hwR d hw
    · exact mkSide_wfAt kvs s e hme (okL e he)
    · exact mkSide_wfAt kvs s e hme (okR e he)
  · cases hm

open Merge in
/-- end to end for notebooks: `ld` and `rd` are the diffs the notebook differ computes from `base` to the local and to the
    remote notebook (any sound table configuration). If they are in the mixed domain — different cells edited, other root
    keys changed by one side or by both in the same way —, the merged document is the local notebook with the remaining
    remote entries applied. -/
theorem C06_notebook_mixed (E : Env) (O : Oracle) (hO : OracleOK O) (cfg : Cfg) (hcfg : cfgSoundB cfg = true)
    (base l : J) (k : String) (ld rd : List Op) (ds : List MD) (X : J)
    (cb : base.canonical = true) (cl : l.canonical = true) (hcl : Compat base l)
    (hld : diffNotebooks O cfg base l = .ok ld)
    (hm : mixedwise base k ld rd = true) (hX : patch l (mixedRest k ld rd) = .ok X)
    (h : decideMerge E base ld rd = .ok ds) :
    applyDecisions base (ds.map MD.toDecision) = .ok X ∧ ∀ d ∈ ds, d.conflict = false := by
  have hL : patch base ld = .ok l := C01_roundtrip_partial O hO cfg hcfg base l ld cb cl hcl hld
  apply C06_model_mixed E base k ld rd ds X hm ?_ h
  unfold patchBothMixed
  simp only [hL, bind, Except.bind, hX]

open Merge in
/-- end to end for notebooks: the local notebook `l` and the remote notebook `r` are diffed against `base` by the
    notebook differ (any sound table configuration); if the two diffs are cell-wise disjoint (`Merge.cellwise`), the merged
    document is the local notebook with the remote diff applied to it: both sets of cell edits, nothing else. -/
theorem C06_notebook_cells (E : Env) (O : Oracle) (hO : OracleOK O) (cfg : Cfg) (hcfg : cfgSoundB cfg = true)
    (base l : J) (ld rd : List Op) (ds : List MD) (X : J)
    (cb : base.canonical = true) (cl : l.canonical = true) (hbl : Compat base l)
    (hld : diffNotebooks O cfg base l = .ok ld) (hcw : cellwise base ld rd = true)
    (hX : patch l rd = .ok X) (h : decideMerge E base ld rd = .ok ds) :
    applyDecisions base (ds.map MD.toDecision) = .ok X ∧ ∀ d ∈ ds, d.conflict = false := by
  have hl := C01_roundtrip_partial O hO cfg hcfg base l ld cb cl hbl hld
  refine C06_model_cells E base ld rd ds X hcw ?_ h
  simp [patchBoth, hl, hX, bind, Except.bind]

open Merge in
/-- **C09, choosing a side, for cell-wise merges**: with every decision switched to local (remote), `apply_decisions` gives
    base patched with the local (remote) diff. -/
theorem C09_model_cells_choose (loc : Bool) (E : Env) (base : J) (ld rd : List Op) (ds : List MD) (T : J)
    (hcw : cellwise base ld rd = true) (hwL : wf base ld = true) (hwR : wf base rd = true)
    (hL : ∃ L, patch base ld = .ok L) (hR : ∃ R, patch base rd = .ok R)
    (hT : patch base (if loc then ld else rd) = .ok T) (h : decideMerge E base ld rd = .ok ds) :
    applyAs (sideName loc) base (ds.map MD.toDecision) = .ok T := by
  unfold cellwise at hcw
  split at hcw
  · rename_i kvs k dL k' dR
    simp only [Bool.and_eq_true, beq_iff_eq, Bool.not_eq_true', List.all_eq_true, bne_iff_ne, ne_eq] at hcw
    obtain ⟨⟨⟨⟨⟨⟨⟨hkk, hc⟩, hlk⟩, haL⟩, haR⟩, hne⟩, hdis⟩, hpy⟩ := hcw
    subst hkk
    cases hl : lookupKV k kvs with
    | none => simp [hl] at hlk
    | some v =>
      cases v with
      | arr xs =>
        have hwl : ∀ d, wf (.obj kvs) [.patchK k d] = true → wfList xs d 0 none = true := by
          intro d hw
          rw [wf, wfObj] at hw
          simp only [hl, Bool.and_eq_true] at hw
          have := hw.1.2.2
          rw [wf] at this
          exact this
        have hT' : patch (.obj kvs) [.patchK k (if loc then dL else dR)] = .ok T := by
          cases loc <;> simpa using hT
        exact cells_choose loc E kvs k xs dL dR ds T hc hl (ascPatchB_spec 0 dL haL) (ascPatchB_spec 0 dR haR)
          (fun e0 h0 e1 h1 => hdis e0 h0 e1 h1) (by intro hnil; simp [hnil] at hne) hpy (hwl dL hwL) (hwl dR hwR) hL hR hT' h
      | null => simp [hl] at hlk
      | bool _ => simp [hl] at hlk
      | int _ => simp [hl] at hlk
      | flt _ => simp [hl] at hlk
      | str _ => simp [hl] at hlk
      | obj _ => simp [hl] at hlk
  · cases hcw

open Merge in
/-- **C11 for the decisions of cell-wise merges**: every local / remote diff inside a decision is well-formed for the
    sub-document at the decision's path -/
theorem C11_model_cells_decisions_wf (E : Env) (base : J) (ld rd : List Op) (ds : List MD)
    (hcw : cellwise base ld rd = true) (hwL : wf base ld = true) (hwR : wf base rd = true)
    (h : decideMerge E base ld rd = .ok ds) :
    ∀ d ∈ ds, ∀ x, (d.localDiff = some x ∨ d.remoteDiff = some x) → wfAt base d.path x = true := by
  unfold cellwise at hcw
  split at hcw
  · rename_i kvs k dL k' dR
    simp only [Bool.and_eq_true, beq_iff_eq, Bool.not_eq_true', List.all_eq_true, bne_iff_ne, ne_eq] at hcw
    obtain ⟨⟨⟨⟨⟨⟨⟨hkk, hc⟩, hlk⟩, haL⟩, haR⟩, hne⟩, hdis⟩, hpy⟩ := hcw
    subst hkk
    cases hl : lookupKV k kvs with
    | none => simp [hl] at hlk
    | some v =>
      cases v with
      | arr xs =>
        have hwl : ∀ d, wf (.obj kvs) [.patchK k d] = true → wfList xs d 0 none = true := by
          intro d hw
          rw [wf, wfObj] at hw
          simp only [hl, Bool.and_eq_true] at hw
          have := hw.1.2.2
          rw [wf] at this
          exact this
        exact cells_decisions_wf E kvs k xs dL dR ds hl (ascPatchB_spec 0 dL haL) (ascPatchB_spec 0 dR haR)
          (fun e0 h0 e1 h1 => hdis e0 h0 e1 h1) hpy (hwl dL hwL) (hwl dR hwR) h
      | null => simp [hl] at hlk
      | bool _ => simp [hl] at hlk
      | int _ => simp [hl] at hlk
      | flt _ => simp [hl] at hlk
      | str _ => simp [hl] at hlk
      | obj _ => simp [hl] at hlk
  · cases hcw

open Merge in
/-- what `Merge.cellwise` says -/
theorem cellwise_unpack {base : J} {ld rd : List Op} (h : cellwise base ld rd = true) :
    ∃ kvs k xs dL dR, base = .obj kvs ∧ ld = [.patchK k dL] ∧ rd = [.patchK k dR] ∧ (J.obj kvs).canonical = true ∧
      lookupKV k kvs = some (.arr xs) ∧ AscPatch 0 dL ∧ AscPatch 0 dR ∧ dL ≠ [] ∧
      (∀ e0 ∈ dL, ∀ e1 ∈ dR, e0.idx ≠ e1.idx) ∧ Op.pyEq (.patchK k dL) (.patchK k dR) = false := by
  unfold cellwise at h
  split at h
  · rename_i kvs k dL k' dR
    simp only [Bool.and_eq_true, beq_iff_eq, Bool.not_eq_true', List.all_eq_true, bne_iff_ne, ne_eq] at h
    obtain ⟨⟨⟨⟨⟨⟨⟨hkk, hc⟩, hlk⟩, haL⟩, haR⟩, hne⟩, hdis⟩, hpy⟩ := h
    subst hkk
    cases hl : lookupKV k kvs with
    | none => simp [hl] at hlk
    | some v =>
      cases v with
      | arr xs =>
        exact ⟨kvs, k, xs, dL, dR, rfl, rfl, rfl, hc, hl, ascPatchB_spec 0 dL haL, ascPatchB_spec 0 dR haR,
          (by intro hnil; simp [hnil] at hne), (fun e0 h0 e1 h1 => hdis e0 h0 e1 h1), hpy⟩
      | null => simp [hl] at hlk
      | bool _ => simp [hl] at hlk
      | int _ => simp [hl] at hlk
      | flt _ => simp [hl] at hlk
      | str _ => simp [hl] at hlk
      | obj _ => simp [hl] at hlk
  · cases h

open Merge in
/-- **C05, side symmetry, on the cell-wise domain**: exchanging the local and the remote role gives the same merged
    document (and no conflict either way) -/
theorem C05_model_cells_symmetric (E : Env) (base : J) (ld rd : List Op) (ds1 ds2 : List MD) (X : J)
    (hcw1 : cellwise base ld rd = true) (hcw2 : cellwise base rd ld = true) (hX : patchBoth base ld rd = .ok X)
    (h1 : decideMerge E base ld rd = .ok ds1) (h2 : decideMerge E base rd ld = .ok ds2) :
    applyDecisions base (ds1.map MD.toDecision) = .ok X ∧ applyDecisions base (ds2.map MD.toDecision) = .ok X ∧
      (∀ d ∈ ds1, d.conflict = false) ∧ (∀ d ∈ ds2, d.conflict = false) := by
  obtain ⟨a1, a2⟩ := C06_model_cells E base ld rd ds1 X hcw1 hX h1
  obtain ⟨kvs, k, xs, dL, dR, rfl, rfl, rfl, hc, hl, haL, haR, _, hdis, _⟩ := cellwise_unpack hcw1
  have hX2 : patchBoth (.obj kvs) [.patchK k dR] [.patchK k dL] = .ok X := by
    unfold patchBoth at hX ⊢
    simp only [bind, Except.bind] at hX ⊢
    cases hL : patch (.obj kvs) [.patchK k dL] with
    | error e => simp [hL] at hX
    | ok L =>
      simp only [hL] at hX
      obtain ⟨R, hR1, hR2⟩ := patchBoth_cells_comm kvs hc k xs hl dL dR haL haR hdis L X hL hX
      simp only [hR1, hR2]
  obtain ⟨b1, b2⟩ := C06_model_cells E (.obj kvs) [.patchK k dR] [.patchK k dL] ds2 X hcw2 hX2 h2
  exact ⟨a1, b1, a2, b2⟩

open Merge in
/-- **C03 on the mixed domain**: the merge completes — no exception, whatever the strategy table and the oracle -/
theorem C03_model_mixed_total (E : Env) (base : J) (k : String) (ld rd : List Op)
    (hm : mixedwise base k ld rd = true) : ∃ ds, decideMerge E base ld rd = .ok ds := by
  unfold mixedwise at hm
  split at hm
  · rename_i kvs xs dL dR hparts
    obtain ⟨rfl, hk, hkL, hkR⟩ := mixedParts_spec hparts
    simp only [Bool.and_eq_true, Bool.not_eq_true', List.all_eq_true, bne_iff_ne, ne_eq, Bool.or_eq_true, beq_iff_eq] at hm
    obtain ⟨⟨⟨⟨⟨⟨⟨⟨⟨hc, hwl⟩, hwr⟩, hint⟩, haL⟩, haR⟩, hne⟩, hdis⟩, hpy⟩, hag⟩ := hm
    rw [wf] at hwl hwr
    obtain ⟨hmapL, hndL, _⟩ := wfObj_shape kvs ld [] hwl
    obtain ⟨hmapR, hndR, _⟩ := wfObj_shape kvs rd [] hwr
    have okL := wfObj_entries kvs ld [] hwl
    have okR := wfObj_entries kvs rd [] hwr
    have hwL : wfList xs dL 0 none = true := by
      have := okL _ hkL
      simp only [entryOk, hk, Bool.and_eq_true] at this
      have h2 := this.2.2
      rw [wf] at h2
      exact h2
    have hwR : wfList xs dR 0 none = true := by
      have := okR _ hkR
      simp only [entryOk, hk, Bool.and_eq_true] at this
      have h2 := this.2.2
      rw [wf] at h2
      exact h2
    exact mixed_total E kvs ld rd k xs dL dR hmapL hndL hmapR hndR hkL hkR
      (fun el hel er her hkey hnk => by
        rcases hag el hel er her with (h1 | h1) | h1
        · exact absurd hkey h1
        · exact absurd h1 hnk
        · exact Op.beq_eq el er h1)
      hk (ascPatchB_spec 0 dL haL) (ascPatchB_spec 0 dR haR) (fun e0 h0 e1 h1 => hdis e0 h0 e1 h1) hpy
      (wfList_idx_lt xs dL (ascPatchB_spec 0 dL haL) hwL) (wfList_idx_lt xs dR (ascPatchB_spec 0 dR haR) hwR)
  · cases hm

open Merge in
/-- the whole of C03 / C06 / C11 on the mixed domain in one statement: inside the domain, if the two diffs apply one after
    the other (to X), the merge completes, reports no conflict, every diff inside its decisions is well-formed, and
    applying the decisions to base gives X — every strategy table, every oracle. -/
theorem C06_model_mixed_all (E : Env) (base : J) (k : String) (ld rd : List Op) (X : J)
    (hm : mixedwise base k ld rd = true) (hX : patchBothMixed base k ld rd = .ok X) :
    ∃ ds, decideMerge E base ld rd = .ok ds ∧ (∀ d ∈ ds, d.conflict = false) ∧
      applyDecisions base (ds.map MD.toDecision) = .ok X ∧
      ∀ d ∈ ds, ∀ x, (d.localDiff = some x ∨ d.remoteDiff = some x) → wfAt base d.path x = true := by
  obtain ⟨ds, h⟩ := C03_model_mixed_total E base k ld rd hm
  obtain ⟨a1, a2⟩ := C06_model_mixed E base k ld rd ds X hm hX h
  exact ⟨ds, h, a2, a1, C11_model_mixed_decisions_wf E base k ld rd ds hm h⟩

open Merge in
/-- **C03 on the cell-wise domain**: the merge of well-formed patches of different cells completes -/
theorem C03_model_cells_total (E : Env) (base : J) (ld rd : List Op)
    (hcw : cellwise base ld rd = true) (hwl : wf base ld = true) (hwr : wf base rd = true) :
    ∃ ds, decideMerge E base ld rd = .ok ds := by
  obtain ⟨kvs, k, xs, dL, dR, rfl, rfl, rfl, hc, hl, haL, haR, hne, hdis, hpy⟩ := cellwise_unpack hcw
  rw [wf] at hwl hwr
  obtain ⟨hmapL, hndL, _⟩ := wfObj_shape kvs [.patchK k dL] [] hwl
  obtain ⟨hmapR, hndR, _⟩ := wfObj_shape kvs [.patchK k dR] [] hwr
  have okL := wfObj_entries kvs _ [] hwl _ List.mem_cons_self
  have okR := wfObj_entries kvs _ [] hwr _ List.mem_cons_self
  have hwL : wfList xs dL 0 none = true := by
    simp only [entryOk, hl, Bool.and_eq_true] at okL
    have h2 := okL.2.2
    rw [wf] at h2
    exact h2
  have hwR : wfList xs dR 0 none = true := by
    simp only [entryOk, hl, Bool.and_eq_true] at okR
    have h2 := okR.2.2
    rw [wf] at h2
    exact h2
  exact mixed_total E kvs _ _ k xs dL dR hmapL hndL hmapR hndR List.mem_cons_self List.mem_cons_self
    (fun el hel er her hkey hnk => by
      simp only [List.mem_singleton] at hel
      subst hel
      exact absurd rfl hnk)
    hl haL haR hdis hpy (wfList_idx_lt xs dL haL hwL) (wfList_idx_lt xs dR haR hwR)

open Merge in
/-- **C10 on the mixed domain**: the merged document does not depend on the strategy — any two strategy tables (use-local,
    use-remote, inline, …) and oracles give the same document, the one with both sets of changes (there is no conflict to
    resolve to a side) -/
theorem C10_model_mixed_any_strategy (E1 E2 : Env) (base : J) (k : String) (ld rd : List Op) (X : J)
    (hm : mixedwise base k ld rd = true) (hX : patchBothMixed base k ld rd = .ok X) :
    mergeApply E1 base ld rd = .ok X ∧ mergeApply E2 base ld rd = .ok X := by
  obtain ⟨ds1, h1, _, a1, _⟩ := C06_model_mixed_all E1 base k ld rd X hm hX
  obtain ⟨ds2, h2, _, a2, _⟩ := C06_model_mixed_all E2 base k ld rd X hm hX
  constructor
  · unfold mergeApply; simp only [h1, bind, Except.bind, a1]
  · unfold mergeApply; simp only [h2, bind, Except.bind, a2]

theorem lookupEdit_some_mem (es : List CellEdit) (i : Nat) (pv : J) (h : lookupEdit es i = some pv) :
    ∃ e ∈ es, e.j = i ∧ e.pv = pv := by
  unfold lookupEdit at h
  cases hf : es.find? (fun e => e.j == i) with
  | none => simp [hf] at h
  | some e =>
    simp only [hf, Option.map_some, Option.some.injEq] at h
    exact ⟨e, List.mem_of_find?_eq_some hf, by simpa using List.find?_some hf, h⟩

open Merge NbShape in
/-- **C04 on the cell-wise domain**: the two sides edit different cells; then every cell of the merged notebook is a cell of
    the local or of the remote notebook — so if the cells of both are valid for the declared format (`NbShape.validCells`, the
    cell part of the nbformat schema), so are the cells of the merged notebook. Every strategy table, every oracle. -/
theorem C04_model_cells_valid (E : Env) (base : J) (ld rd : List Op) (ds : List MD) (L R X : J) (minor : Nat)
    (hcw : cellwise base ld rd = true) (hL : patch base ld = .ok L) (hR : patch base rd = .ok R)
    (hX : patchBoth base ld rd = .ok X) (h : decideMerge E base ld rd = .ok ds) :
    applyDecisions base (ds.map MD.toDecision) = .ok X ∧
    ∃ k lc rc xc, getKey L (.s k) = .ok (.arr lc) ∧ getKey R (.s k) = .ok (.arr rc) ∧ getKey X (.s k) = .ok (.arr xc) ∧
      (∀ c ∈ xc, c ∈ lc ∨ c ∈ rc) ∧ (validCells minor lc = true → validCells minor rc = true → validCells minor xc = true) ∧
      (∀ (i : Nat) (bc : List J), getKey base (.s k) = .ok (.arr bc) →
        (lc[i]? ≠ bc[i]? → xc[i]? = lc[i]?) ∧ (rc[i]? ≠ bc[i]? → xc[i]? = rc[i]?)) := by
  refine ⟨(C06_model_cells E base ld rd ds X hcw hX h).1, ?_⟩
  obtain ⟨kvs, k, xs, dL, dR, rfl, rfl, rfl, hc, hl, haL, haR, hne, hdis, hpy⟩ := cellwise_unpack hcw
  have hcc := hc
  simp only [J.canonical, Bool.and_eq_true] at hcc
  have hb : SK kvs := keysSorted_sk kvs hcc.1
  obtain ⟨RL, EL, rfl, aL, dLeq, fL, gL⟩ := cell_edits kvs hb k xs hl dL haL L hL
  obtain ⟨RR, ER, rfl, aR, dReq, fR, gR⟩ := cell_edits kvs hb k xs hl dR haR R hR
  unfold patchBoth at hX
  simp only [hL, bind, Except.bind] at hX
  have hsL : SK (insertKV k (.arr RL) kvs) := insertKV_sorted _ _ _ hb
  have hkL : lookupKV k (insertKV k (.arr RL) kvs) = some (.arr RL) := by rw [lookupKV_insertKV]; simp
  obtain ⟨RX, ER', hXeq, aR', dReq', fR', gR'⟩ := cell_edits _ hsL k RL hkL dR haR X hX
  rw [insertKV_twice k (.arr RL) (.arr RX) kvs hb] at hXeq
  subst hXeq
  have hmem : ∀ c ∈ RX, c ∈ RL ∨ c ∈ RR := by
    intro c hcm
    obtain ⟨i, hi⟩ := List.getElem?_of_mem hcm
    rw [gR' i] at hi
    cases hrl : RL[i]? with
    | none => simp [hrl] at hi
    | some y =>
      simp only [hrl, Option.map_some, Option.some.injEq] at hi
      cases hed : lookupEdit ER' i with
      | none =>
        simp only [hed, Option.getD_none] at hi
        subst hi
        exact Or.inl (List.mem_of_getElem? hrl)
      | some pv =>
        simp only [hed, Option.getD_some] at hi
        subst hi
        right
        obtain ⟨e, he, hej, hepv⟩ := lookupEdit_some_mem ER' i pv hed
        -- the same entry among the remote edits against base
        have hm : Op.patchI e.j e.dd ∈ dR := by rw [dReq']; exact List.mem_map_of_mem (f := fun e => Op.patchI e.j e.dd) he
        rw [dReq] at hm
        obtain ⟨e', he', hpe⟩ := List.mem_map.mp hm
        simp only [Op.patchI.injEq] at hpe
        obtain ⟨f1, f2⟩ := fR' e he
        obtain ⟨g1, g2⟩ := fR e' he'
        -- no local edit at that index: the item is the base item
        have hnoL : lookupEdit EL e.j = none := by
          apply lookupEdit_none
          intro eL hL' heq
          have m0 : Op.patchI eL.j eL.dd ∈ dL := by rw [dLeq]; exact List.mem_map_of_mem (f := fun e => Op.patchI e.j e.dd) hL'
          have m1 : Op.patchI e.j e.dd ∈ dR := by rw [dReq']; exact List.mem_map_of_mem (f := fun e => Op.patchI e.j e.dd) he
          exact hdis _ m0 _ m1 heq
        have hv : e.v = e'.v := by
          have := gL e.j
          rw [f1, hnoL, ← hpe.1, g1] at this
          simpa using this
        have hpv : e.pv = e'.pv := by
          rw [hv] at f2
          have : patch e'.v e'.dd = .ok e.pv := by rw [hpe.2]; exact f2
          rw [g2] at this
          exact (Except.ok.inj this).symm
        -- so the merged item is the remote item
        have hRRi : RR[e'.j]? = some e'.pv := by
          rw [gR e'.j, g1, lookupEdit_mem aR e' he']
          rfl
        rw [← hepv, hpv]
        exact List.mem_of_getElem? hRRi
  -- the remote edits against base and against the locally patched list are the same edits
  have hsame : ∀ e' ∈ ER, ∃ e ∈ ER', e.j = e'.j ∧ e.pv = e'.pv := by
    intro e' he'
    have hm : Op.patchI e'.j e'.dd ∈ dR := by rw [dReq]; exact List.mem_map_of_mem (f := fun e => Op.patchI e.j e.dd) he'
    have hm1 := hm
    rw [dReq'] at hm
    obtain ⟨e, he, hpe⟩ := List.mem_map.mp hm
    simp only [Op.patchI.injEq] at hpe
    obtain ⟨f1, f2⟩ := fR' e he
    obtain ⟨g1, g2⟩ := fR e' he'
    have hnoL : lookupEdit EL e.j = none := by
      apply lookupEdit_none
      intro eL hL' heq
      have m0 : Op.patchI eL.j eL.dd ∈ dL := by rw [dLeq]; exact List.mem_map_of_mem (f := fun e => Op.patchI e.j e.dd) hL'
      have m1 : Op.patchI e.j e.dd ∈ dR := by rw [dReq']; exact List.mem_map_of_mem (f := fun e => Op.patchI e.j e.dd) he
      exact hdis _ m0 _ m1 heq
    have hv : e.v = e'.v := by
      have := gL e.j
      rw [f1, hnoL, hpe.1, g1] at this
      simpa using this
    refine ⟨e, he, hpe.1, ?_⟩
    rw [hv, hpe.2] at f2
    rw [g2] at f2
    exact (Except.ok.inj f2).symm
  refine ⟨k, RL, RR, RX, by simp [getKey, lookupKV_insertKV], by simp [getKey, lookupKV_insertKV], by simp [getKey, lookupKV_insertKV], hmem, ?_, ?_⟩
  · intro vl vr
    unfold validCells at *
    rw [List.all_eq_true] at *
    intro c hcm
    rcases hmem c hcm with h1 | h1
    · exact vl c h1
    · exact vr c h1
  · intro i bc hbc
    have hbx : bc = xs := by
      simp only [getKey, hl, Except.ok.injEq, J.arr.injEq] at hbc
      exact hbc.symm
    subst hbx
    constructor
    · intro hdiff
      -- a local edit at i, hence no remote edit there
      cases hle : lookupEdit EL i with
      | none =>
        exfalso; apply hdiff
        rw [gL i, hle]
        cases bc[i]? <;> simp
      | some pv =>
        obtain ⟨eL, heL, hj, _⟩ := lookupEdit_some_mem EL i pv hle
        have hnoR : lookupEdit ER' i = none := by
          apply lookupEdit_none
          intro eR hR' heq
          have m0 : Op.patchI eL.j eL.dd ∈ dL := by rw [dLeq]; exact List.mem_map_of_mem (f := fun e => Op.patchI e.j e.dd) heL
          have m1 : Op.patchI eR.j eR.dd ∈ dR := by rw [dReq']; exact List.mem_map_of_mem (f := fun e => Op.patchI e.j e.dd) hR'
          exact hdis _ m0 _ m1 (by show eL.j = eR.j; rw [hj, heq])
        rw [gR' i, hnoR]
        cases RL[i]? <;> simp
    · intro hdiff
      cases hre : lookupEdit ER i with
      | none =>
        exfalso; apply hdiff
        rw [gR i, hre]
        cases bc[i]? <;> simp
      | some pv =>
        obtain ⟨e', he', hj, hpv⟩ := lookupEdit_some_mem ER i pv hre
        obtain ⟨e, he, hje, hpe⟩ := hsame e' he'
        have hnoL : lookupEdit EL i = none := by
          apply lookupEdit_none
          intro eL hL' heq
          have m0 : Op.patchI eL.j eL.dd ∈ dL := by rw [dLeq]; exact List.mem_map_of_mem (f := fun e => Op.patchI e.j e.dd) hL'
          have m1 : Op.patchI e'.j e'.dd ∈ dR := by rw [dReq]; exact List.mem_map_of_mem (f := fun e => Op.patchI e.j e.dd) he'
          exact hdis _ m0 _ m1 (by show eL.j = e'.j; rw [heq, hj])
        have h1 : lookupEdit ER' i = some e.pv := by
          have := lookupEdit_mem aR' e he
          rw [hje, hj] at this
          exact this
        rw [gR' i, h1, gL i, hnoL, gR i, hre, hpe, hpv]
        cases bc[i]? <;> simp

open Merge NbShape in
/-- **C07 at cell granularity, on the cell-wise domain**: nothing is invented — every cell of the merged notebook is a cell
    of the local or of the remote notebook — and nothing is dropped — a cell the local (remote) side changed is, at its
    place, the local (remote) cell in the merged notebook. -/
theorem C07_model_cells_survival (E : Env) (base : J) (ld rd : List Op) (ds : List MD) (L R X : J)
    (hcw : cellwise base ld rd = true) (hL : patch base ld = .ok L) (hR : patch base rd = .ok R)
    (hX : patchBoth base ld rd = .ok X) (h : decideMerge E base ld rd = .ok ds) :
    applyDecisions base (ds.map MD.toDecision) = .ok X ∧
    ∃ k lc rc xc, getKey L (.s k) = .ok (.arr lc) ∧ getKey R (.s k) = .ok (.arr rc) ∧ getKey X (.s k) = .ok (.arr xc) ∧
      (∀ c ∈ xc, c ∈ lc ∨ c ∈ rc) ∧
      (∀ (i : Nat) (bc : List J), getKey base (.s k) = .ok (.arr bc) →
        (lc[i]? ≠ bc[i]? → xc[i]? = lc[i]?) ∧ (rc[i]? ≠ bc[i]? → xc[i]? = rc[i]?)) := by
  obtain ⟨a, k, lc, rc, xc, h1, h2, h3, h4, _, h6⟩ := C04_model_cells_valid E base ld rd ds L R X 5 hcw hL hR hX h
  exact ⟨a, k, lc, rc, xc, h1, h2, h3, h4, h6⟩

open Merge in
/-- the merged diff outside `k` does not depend on which side is called local -/
theorem unionDiff_swap_perm_off (k : String) (ld rd : List Op) (hndL : (ld.map Op.skey).Nodup) (hndR : (rd.map Op.skey).Nodup)
    (hagree : ∀ el ∈ ld, ∀ er ∈ rd, el.skey = er.skey → el.skey ≠ k → el = er) :
    ((unionDiff rd ld).filter (fun e => e.skey != k)).Perm ((unionDiff ld rd).filter (fun e => e.skey != k)) := by
  have nd : ∀ (a b : List Op), (a.map Op.skey).Nodup → (b.map Op.skey).Nodup → ((unionDiff a b).filter (fun e => e.skey != k)).Nodup := by
    intro a b ha hb
    apply List.Pairwise.filter
    unfold unionDiff
    have ofmap : ∀ (l : List Op), (l.map Op.skey).Nodup → l.Nodup := fun l h =>
      List.Pairwise.of_map Op.skey (fun x y hne hxy => hne (by rw [hxy])) h
    refine List.nodup_append.mpr ⟨ofmap a ha, List.Pairwise.filter _ (ofmap b hb), ?_⟩
    intro x hx y hy hxy
    subst hxy
    simp only [List.mem_filter, Bool.not_eq_true', List.contains_eq_mem, decide_eq_false_iff_not] at hy
    exact hy.2 (List.mem_map_of_mem hx)
  rw [List.perm_ext_iff_of_nodup (nd rd ld hndR hndL) (nd ld rd hndL hndR)]
  intro e
  unfold unionDiff
  simp only [List.mem_append, List.mem_filter, Bool.not_eq_true', List.contains_eq_mem, decide_eq_false_iff_not, bne_iff_ne, ne_eq]
  constructor
  · rintro ⟨h | ⟨h, _⟩, hk⟩
    · refine ⟨?_, hk⟩
      by_cases hkk : e.skey ∈ ld.map Op.skey
      · obtain ⟨el, hel, hkey⟩ := List.mem_map.mp hkk
        have := hagree el hel e h hkey (by rw [hkey]; exact hk)
        subst this
        exact Or.inl hel
      · exact Or.inr ⟨h, hkk⟩
    · exact ⟨Or.inl h, hk⟩
  · rintro ⟨h | ⟨h, _⟩, hk⟩
    · refine ⟨?_, hk⟩
      by_cases hkk : e.skey ∈ rd.map Op.skey
      · obtain ⟨er, her, hkey⟩ := List.mem_map.mp hkk
        have := hagree e h er her hkey.symm hk
        subst this
        exact Or.inl her
      · exact Or.inr ⟨h, hkk⟩
    · exact ⟨Or.inl h, hk⟩

open Merge in
/-- **C05, side symmetry, on the mixed domain**: if both role assignments are in the domain and both two-stage patches apply,
    they give the same document X, both merges complete, report no conflict and give X -/
theorem C05_model_mixed_symmetric (E : Env) (base : J) (k : String) (ld rd : List Op) (X Y : J)
    (hm1 : mixedwise base k ld rd = true) (hm2 : mixedwise base k rd ld = true)
    (hX : patchBothMixed base k ld rd = .ok X) (hY : patchBothMixed base k rd ld = .ok Y) :
    X = Y ∧ ∃ ds1 ds2, decideMerge E base ld rd = .ok ds1 ∧ decideMerge E base rd ld = .ok ds2 ∧
      applyDecisions base (ds1.map MD.toDecision) = .ok X ∧ applyDecisions base (ds2.map MD.toDecision) = .ok X ∧
      (∀ d ∈ ds1, d.conflict = false) ∧ (∀ d ∈ ds2, d.conflict = false) := by
  have hXY : X = Y := by
    have hm1' := hm1
    unfold mixedwise at hm1'
    split at hm1'
    · rename_i kvs xs dL dR hparts
      obtain ⟨rfl, hk, hkL, hkR⟩ := mixedParts_spec hparts
      simp only [Bool.and_eq_true, Bool.not_eq_true', List.all_eq_true, bne_iff_ne, ne_eq, Bool.or_eq_true, beq_iff_eq] at hm1'
      obtain ⟨⟨⟨⟨⟨⟨⟨⟨⟨hc, hwl⟩, hwr⟩, hint⟩, haL⟩, haR⟩, hne⟩, hdis⟩, hpy⟩, hag⟩ := hm1'
      rw [wf] at hwl hwr
      obtain ⟨hmapL, hndL, _⟩ := wfObj_shape kvs ld [] hwl
      obtain ⟨hmapR, hndR, _⟩ := wfObj_shape kvs rd [] hwr
      have hcc := hc
      simp only [J.canonical, Bool.and_eq_true] at hcc
      have hb : SK kvs := keysSorted_sk kvs hcc.1
      have hcl : J.canonicalList xs = true := by
        have := canonicalKvs_mem kvs hcc.2 _ (lookupKV_mem k _ kvs hk)
        simpa only [J.canonical] using this
      unfold patchBothMixed at hX hY
      simp only [bind, Except.bind] at hX hY
      cases hL : patch (.obj kvs) ld with
      | error e => simp [hL] at hX
      | ok L =>
        cases hR : patch (.obj kvs) rd with
        | error e => simp [hR] at hY
        | ok R =>
          simp only [hL] at hX
          simp only [hR] at hY
          obtain ⟨RL, RX, hRL, hRX, hX'⟩ := mixed_two_stage kvs hb ld rd hndL hndR k xs dL dR hkL hkR hk L X hL hX
          obtain ⟨RR, RY, hRR, hRY, hY'⟩ := mixed_two_stage kvs hb rd ld hndR hndL k xs dR dL hkR hkL hk R Y hR hY
          have hxy := patchList_comm xs hcl dL dR (ascPatchB_spec 0 dL haL) (ascPatchB_spec 0 dR haR)
            (fun e0 h0 e1 h1 => hdis e0 h0 e1 h1) RL RX RR RY hRL hRX hRR hRY
          subst hxy
          have hagree : ∀ el ∈ ld, ∀ er ∈ rd, el.skey = er.skey → el.skey ≠ k → el = er := by
            intro el hel er her hkey hnk
            rcases hag el hel er her with (h1 | h1) | h1
            · exact absurd hkey h1
            · exact absurd h1 hnk
            · exact Op.beq_eq el er h1
          have hp := unionDiff_swap_perm_off k ld rd hndL hndR hagree
          have hndU2 : ((((unionDiff rd ld).filter (fun e => e.skey != k)) ++ [Op.replace k (.arr RX)]).map Op.skey).Nodup := by
            rw [List.map_append, List.nodup_append]
            refine ⟨?_, by simp, ?_⟩
            · apply (List.filter_sublist.map Op.skey).nodup
              unfold unionDiff
              rw [List.map_append, List.nodup_append]
              refine ⟨hndR, (List.filter_sublist.map Op.skey).nodup hndL, ?_⟩
              intro a ha b' hb' hab
              obtain ⟨e, he, rfl⟩ := List.mem_map.mp hb'
              have := (List.mem_filter.mp he).2
              simp only [Bool.not_eq_true', List.contains_eq_mem, decide_eq_false_iff_not] at this
              exact this (hab ▸ ha)
            · intro a ha b' hb' hab
              simp only [List.map_cons, List.map_nil, List.mem_singleton] at hb'
              obtain ⟨e, he, rfl⟩ := List.mem_map.mp ha
              have := (List.mem_filter.mp he).2
              simp only [bne_iff_ne, ne_eq] at this
              rw [hab, hb'] at this
              exact this rfl
          have hY'' := patch_obj_perm kvs hb _ _ (hp.append_right [Op.replace k (.arr RX)]) hndU2 Y hY'
          rw [hX'] at hY''
          exact Except.ok.inj hY''
    · cases hm1'
  subst hXY
  obtain ⟨ds1, h1, c1, a1, _⟩ := C06_model_mixed_all E base k ld rd X hm1 hX
  obtain ⟨ds2, h2, c2, a2, _⟩ := C06_model_mixed_all E base k rd ld X hm2 hY
  exact ⟨rfl, ds1, ds2, h1, h2, a1, a2, c1, c2⟩

namespace C05ex
open Merge
def exE : Env := { O := { cmp := fun _ _ _ => .ok false, opcodes := fun _ _ => .ok [] }, cfg := defaultCfg,
                   S := { table := [], transients := [] }, render := fun _ l _ => .ok (l, 0) }
def exBase : J := .obj [("a", .arr [.int 1, .int 2]), ("b", .int 3)]
def exLd : List Op := [.patchK "a" [.addrange 1 [.int 9]], .replace "b" (.int 4)]
def showDs (r : Except Err (List MD)) : List (String × Bool × Nat) :=
  match r with
  | .ok ds => ds.map (fun d => (d.action, d.conflict, d.path.length))
  | .error _ => []
/-- non-vacuity: the hypotheses `decideMerge … = .ok ds` are met by concrete nested documents -/
example : showDs (decideMerge exE exBase exLd []) = [("local", false, 1), ("local", false, 0)] := by decide +kernel
example : showDs (decideMerge exE exBase exLd exLd) = [("either", false, 1), ("either", false, 0)] := by decide +kernel
example : showDs (decideMerge exE exBase [] exLd) = [("remote", false, 1), ("remote", false, 0)] := by decide +kernel
/-- non-vacuity of the end-to-end theorem: for the nested example pair of C02 the differ returns a diff and the merger
    returns decisions for it (the remaining hypotheses — canonical, compatible, oracle contract — are those of C02) -/
example : (match diffGeneric exOracle exA exB with
           | .ok ld => (decideMerge exE exA ld []).toBool
           | .error _ => false) = true := by decide +kernel
/-- non-vacuity of the key-wise theorems: local changes under `a`, remote under `b`; the merge succeeds, the
    remaining hypotheses are those of C02 / C11 (a diff the differ returns is well-formed and patches base) -/
def exLa : List Op := [.patchK "a" [.addrange 1 [.int 9]]]
def exRb : List Op := [.replace "b" (.int 4)]
example : showDs (decideMerge exE exBase exLa exRb) = [("local", false, 1), ("remote", false, 0)] := by decide +kernel
end C05ex

end Nbdime
