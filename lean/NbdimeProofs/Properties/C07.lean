import NbdimeModel
/-
  C07 — the built-in text merge renderer neither drops nor invents lines. Lines are compared up to
  their line terminator (`core = rstrip("\r\n")`), because the renderer normalises terminators.
  For the external helpers (git merge-file, diff3) the same two facts are an oracle contract (K5)
  that is checked on every recorded answer by the harness.
-/
namespace Nbdime
open Nbdime.Render

abbrev core := rstripNL

def isNL (c : Char) : Bool := c == '\n' || c == '\r'

theorem dropWhile_idem {α} (p : α → Bool) (l : List α) : (l.dropWhile p).dropWhile p = l.dropWhile p := by
  induction l with
  | nil => rfl
  | cons x xs ih =>
    by_cases h : p x = true
    · simp [List.dropWhile, h, ih]
    · simp [List.dropWhile, h]

theorem core_append_nl (x : Line) : core (x ++ ['\n']) = core x := by
  simp [core, rstripNL, List.dropWhile]

theorem core_core (x : Line) : core (core x) = core x := by
  simp [core, rstripNL, dropWhile_idem]

theorem core_ensureNL (x : Line) : core (ensureNL x) = core x := by
  unfold ensureNL
  split
  · rfl
  · exact core_append_nl x

theorem map_core_bumpLast (ls : List Line) : (bumpLast ls).map core = ls.map core := by
  induction ls with
  | nil => rfl
  | cons x rest ih =>
    cases rest with
    | nil =>
      simp only [bumpLast]
      split <;> simp [core_append_nl]
    | cons y ys => simp only [bumpLast, List.map_cons] at *; rw [ih]

theorem map_core_stripLast (ls : List Line) : (stripLast ls).map core = ls.map core := by
  induction ls with
  | nil => rfl
  | cons x rest ih =>
    cases rest with
    | nil => simp [stripLast, core_core]
    | cons y ys => simp only [stripLast, List.map_cons] at *; rw [ih]

theorem map_core_ensureNL (ls : List Line) : (ls.map ensureNL).map core = ls.map core := by
  simp [List.map_map, Function.comp_def, core_ensureNL]

theorem take_commonPrefix (a b : List Line) :
    a.take (commonPrefixLen a b) = b.take (commonPrefixLen a b) := by
  induction a generalizing b with
  | nil => simp [commonPrefixLen]
  | cons x xs ih =>
    cases b with
    | nil => simp [commonPrefixLen]
    | cons y ys =>
      simp only [commonPrefixLen]
      by_cases h : (x == y) = true
      · have : x = y := by simpa using h
        subst this
        simp [ih ys]
      · simp [h]

theorem postLines_sub (a b : List Line) : ∀ x ∈ postLines a b, x ∈ a := by
  intro x hx
  unfold postLines at hx
  cases ha : a.getLast? with
  | none => simp [ha] at hx
  | some la =>
    cases hb : b.getLast? with
    | none => simp [ha, hb] at hx
    | some lb =>
      simp only [ha, hb] at hx
      split at hx
      · simp at hx; subst hx; exact List.mem_of_getLast? ha
      · simp at hx

/-- the line list before terminator normalisation, up to terminators -/
theorem formatLines_core (l r : List Line) :
    (formatLines l r).map core =
      (let bl := bumpLast l; let br := bumpLast r; let i := commonPrefixLen bl br
       (bl.take i ++ [m0] ++ bl.drop i ++ [m1] ++ br.drop i ++ [m2] ++ postLines (bl.drop i) (br.drop i)).map core) := by
  unfold formatLines
  simp only [map_core_stripLast, map_core_ensureNL]

/-- Provenance: every line the built-in renderer emits is, up to its terminator, a line of local,
    a line of remote, or one of the three conflict markers — nothing is invented. -/
theorem C07_builtin_provenance (l r : List Line) (x : Line) (hx : x ∈ (formatLines l r).map core) :
    x ∈ l.map core ∨ x ∈ r.map core ∨ x ∈ [core m0, core m1, core m2] := by
  rw [formatLines_core] at hx
  simp only [List.map_append, List.mem_append, List.map_cons, List.map_nil, List.mem_cons, List.not_mem_nil, or_false] at hx
  have hbl : ∀ y, y ∈ (bumpLast l).map core → y ∈ l.map core := by intro y hy; rwa [map_core_bumpLast] at hy
  have hbr : ∀ y, y ∈ (bumpLast r).map core → y ∈ r.map core := by intro y hy; rwa [map_core_bumpLast] at hy
  rcases hx with ((((((h | h) | h) | h) | h) | h) | h)
  · left; apply hbl
    obtain ⟨y, hy, rfl⟩ := List.mem_map.mp h
    exact List.mem_map.mpr ⟨y, List.mem_of_mem_take hy, rfl⟩
  · right; right; simp [h]
  · left; apply hbl
    obtain ⟨y, hy, rfl⟩ := List.mem_map.mp h
    exact List.mem_map.mpr ⟨y, List.mem_of_mem_drop hy, rfl⟩
  · right; right; simp [h]
  · right; left; apply hbr
    obtain ⟨y, hy, rfl⟩ := List.mem_map.mp h
    exact List.mem_map.mpr ⟨y, List.mem_of_mem_drop hy, rfl⟩
  · right; right; simp [h]
  · left; apply hbl
    obtain ⟨y, hy, rfl⟩ := List.mem_map.mp h
    exact List.mem_map.mpr ⟨y, List.mem_of_mem_drop (postLines_sub _ _ y hy), rfl⟩

/-- Survival: every line of local and every line of remote is emitted (up to its terminator) —
    nothing is dropped. -/
theorem C07_builtin_survival (l r : List Line) (x : Line) (hx : x ∈ l.map core ∨ x ∈ r.map core) :
    x ∈ (formatLines l r).map core := by
  rw [formatLines_core]
  simp only [List.map_append, List.mem_append, List.map_cons, List.map_nil, List.mem_cons, List.not_mem_nil, or_false]
  rcases hx with h | h
  · rw [← map_core_bumpLast] at h
    obtain ⟨y, hy, rfl⟩ := List.mem_map.mp h
    rw [← List.take_append_drop (commonPrefixLen (bumpLast l) (bumpLast r)) (bumpLast l)] at hy
    rcases List.mem_append.mp hy with hy | hy
    · exact Or.inl (Or.inl (Or.inl (Or.inl (Or.inl (Or.inl (List.mem_map.mpr ⟨y, hy, rfl⟩))))))
    · exact Or.inl (Or.inl (Or.inl (Or.inl (Or.inr (List.mem_map.mpr ⟨y, hy, rfl⟩)))))
  · rw [← map_core_bumpLast] at h
    obtain ⟨y, hy, rfl⟩ := List.mem_map.mp h
    rw [← List.take_append_drop (commonPrefixLen (bumpLast l) (bumpLast r)) (bumpLast r)] at hy
    rcases List.mem_append.mp hy with hy | hy
    · rw [← take_commonPrefix] at hy
      exact Or.inl (Or.inl (Or.inl (Or.inl (Or.inl (Or.inl (List.mem_map.mpr ⟨y, hy, rfl⟩))))))
    · exact Or.inl (Or.inl (Or.inr (List.mem_map.mpr ⟨y, hy, rfl⟩)))

/-- non-vacuity: a two-line conflict -/
example : (formatLines ["a\n".toList, "x\n".toList] ["a\n".toList, "y\n".toList]).flatten =
    "a\n<<<<<<< local\nx\n\n=======\ny\n\n>>>>>>> remote".toList := by decide

end Nbdime
