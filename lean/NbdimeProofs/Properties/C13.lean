import NbdimeProofs.Lemmas.SeqAbstract
import NbdimeProofs.Lemmas.KV
/-
  C13 — diff, patch, merge and rendering never modify their inputs.
  Two mechanisms of the code that *do* touch or share inputs are modelled:
  * `diff_single_outputs` pops the `data` key off both outputs and puts it back: restoring after
    popping gives back the same object (as a key-sorted association list);
  * `patch_list` builds its result from deep copies of the unmentioned base items and from the very
    value objects of the diff (`newobj.extend(e.valuelist)`): provenance labels on the abstract
    cursor semantics show that the result never shares storage with the patched document, and
    that it does share storage with the diff (finding F-alias: mutating a patch result alters
    the diff it was built from).
-/
namespace Nbdime
open Nbdime.Abs

/-- pop then restore is the identity on a key-sorted object that has the key -/
theorem C13_restore_pop (k : String) (v : J) (kvs : List (String × J))
    (hs : keysSorted kvs = true) (hv : lookupKV k kvs = some v) :
    insertKV k v (eraseKV k kvs) = kvs := by
  induction kvs with
  | nil => simp [lookupKV] at hv
  | cons kv rest ih =>
    obtain ⟨a, b⟩ := kv
    by_cases hak : a = k
    · subst hak
      simp only [lookupKV, beq_self_eq_true, if_true, Option.some.injEq] at hv
      subst hv
      -- the rest has only larger keys, so nothing else is erased and `a` is re-inserted in front
      have hrest : ∀ x ∈ rest, a < x.1 := by
        clear ih
        induction rest generalizing a b with
        | nil => intro x hx; simp at hx
        | cons y ys ih2 =>
          obtain ⟨c, d⟩ := y
          simp only [keysSorted, Bool.and_eq_true, decide_eq_true_eq] at hs
          intro x hx
          simp only [List.mem_cons] at hx
          rcases hx with rfl | hx
          · exact hs.1
          · have := ih2 c d hs.2 x hx
            exact String.lt_trans hs.1 this
      have herase : eraseKV a rest = rest := by
        clear ih hs
        induction rest with
        | nil => rfl
        | cons y ys ih3 =>
          obtain ⟨c, d⟩ := y
          have hc : a < c := hrest (c, d) (by simp)
          have hne : (c == a) = false := by
            simp only [beq_eq_false_iff_ne, ne_eq]
            intro e; subst e; exact absurd hc (String.lt_irrefl _)
          simp only [eraseKV, hne, Bool.false_eq_true, if_false]
          rw [ih3 (fun x hx => hrest x (by simp [hx]))]
      simp only [eraseKV, beq_self_eq_true, if_true, herase]
      cases rest with
      | nil => rfl
      | cons y ys =>
        obtain ⟨c, d⟩ := y
        have hc : a < c := hrest (c, d) (by simp)
        simp [insertKV, hc]
    · have h1 : (a == k) = false := by simpa using hak
      simp only [lookupKV, h1] at hv
      have hs' : keysSorted rest = true := by
        cases rest with
        | nil => rfl
        | cons y ys => obtain ⟨c, d⟩ := y; simp only [keysSorted, Bool.and_eq_true] at hs; exact hs.2
      -- k occurs later in a sorted list, so a < k
      have hlt : a < k := by
        clear ih
        induction rest generalizing a b with
        | nil => simp [lookupKV] at hv
        | cons y ys ih4 =>
          obtain ⟨c, d⟩ := y
          simp only [keysSorted, Bool.and_eq_true, decide_eq_true_eq] at hs
          by_cases hck : c = k
          · subst hck; exact hs.1
          · have h2 : (c == k) = false := by simpa using hck
            simp only [lookupKV, h2] at hv
            have hs2 : keysSorted ys = true := by
              cases ys with
              | nil => rfl
              | cons z zs => obtain ⟨e, f⟩ := z; simp only [keysSorted, Bool.and_eq_true] at hs; exact hs.2.2
            exact String.lt_trans hs.1 (ih4 c d hs.2 hck h2 hv hs2)
      have hnlt : ¬ k < a := fun h => absurd (String.lt_trans h hlt) (String.lt_irrefl _)
      simp only [eraseKV, h1, insertKV, hnlt, if_false, Bool.false_eq_true]
      rw [ih hs' hv]

/-- where the storage of an element of a patched list comes from -/
inductive Src where
  | copied        -- `copy.deepcopy` of a base item: fresh storage
  | fromDiff      -- the value object inside the diff entry itself
  deriving Repr, DecidableEq

/-- `patch_list` with provenance labels (same cursor semantics as `patchFrom`) -/
def patchFromProv {α} : List (SOp α) → Nat → List α → List (Src × α)
  | [], take, xs => (xs.drop take).map (fun x => (Src.copied, x))
  | .addrange k vs :: es, take, xs =>
      ((xs.drop take).take (k - take)).map (fun x => (Src.copied, x)) ++ vs.map (fun v => (Src.fromDiff, v)) ++
        patchFromProv es (max take k) xs
  | .removerange k n :: es, take, xs =>
      ((xs.drop take).take (k - take)).map (fun x => (Src.copied, x)) ++ patchFromProv es (max take (k + n)) xs

/-- the labels do not change what is computed -/
theorem patchFromProv_values {α} (ops : List (SOp α)) (t : Nat) (xs : List α) :
    (patchFromProv ops t xs).map (·.2) = patchFrom ops t xs := by
  induction ops generalizing t with
  | nil => simp [patchFromProv, patchFrom, List.map_map, Function.comp_def]
  | cons e es ih =>
    cases e <;> simp [patchFromProv, patchFrom, ih, List.map_map, Function.comp_def]

/-- every element of a patched list is either a fresh copy or a value of the diff: the patched
    document's own items are never shared with the result (mutating the result cannot alter it) -/
theorem C13_patch_never_aliases_base {α} (ops : List (SOp α)) (t : Nat) (xs : List α) (p : Src × α)
    (hp : p ∈ patchFromProv ops t xs) : p.1 = .copied ∨ (p.1 = .fromDiff ∧ ∃ k vs, SOp.addrange k vs ∈ ops ∧ p.2 ∈ vs) := by
  induction ops generalizing t with
  | nil =>
    simp only [patchFromProv, List.mem_map] at hp
    obtain ⟨x, _, rfl⟩ := hp
    exact Or.inl rfl
  | cons e es ih =>
    cases e with
    | addrange k vs =>
      simp only [patchFromProv, List.mem_append, List.mem_map] at hp
      rcases hp with (⟨x, _, rfl⟩ | ⟨v, hv, rfl⟩) | h
      · exact Or.inl rfl
      · exact Or.inr ⟨rfl, k, vs, by simp, hv⟩
      · rcases ih _ h with h' | ⟨h1, k', vs', hm, hv⟩
        · exact Or.inl h'
        · exact Or.inr ⟨h1, k', vs', by simp [hm], hv⟩
    | removerange k n =>
      simp only [patchFromProv, List.mem_append, List.mem_map] at hp
      rcases hp with ⟨x, _, rfl⟩ | h
      · exact Or.inl rfl
      · rcases ih _ h with h' | ⟨h1, k', vs', hm, hv⟩
        · exact Or.inl h'
        · exact Or.inr ⟨h1, k', vs', by simp [hm], hv⟩

/-- ... but inserted items ARE the diff's own objects: finding F-alias (kernel-checked witness) -/
theorem C13_patch_aliases_diff_refuted :
    (Src.fromDiff, 7) ∈ patchFromProv [SOp.addrange 1 [7]] 0 [1, 2] := by decide

end Nbdime
