import NbdimeModel
/-
  C17 — diffing git revisions examines exactly the notebooks git reports as changed, and the
  caller's working directory is the same afterwards. Model: NbdimeModel/GitFiles.lean.
-/
namespace Nbdime
open Nbdime.GitFiles

/-- with the repaired `pushd`, looking at one side of one entry leaves the world as it was -/
theorem entryStream_world (w : World) (p : Option (List String)) (b : Option String) (r : Ref) (rd : List String) :
    (entryStream true w p b r rd).2 = w := by
  unfold entryStream
  cases p with
  | none => rfl
  | some p =>
    simp only
    split
    · rfl
    · split
      · rfl
      · cases r <;> simp only [withPushd]
        · cases b <;> rfl
        · cases b <;> rfl
        · rfl

/-- the pair produced for one entry, the world held fixed -/
def pairAt (w : World) (base remote : Ref) (rd : List String) (e : Entry) : Option (Stream × Stream) :=
  match (entryStream true w e.aPath e.aBlob base rd).1 with
  | none => none
  | some a => match (entryStream true w e.bPath e.bBlob remote rd).1 with
    | none => none
    | some b => some (a, b)

theorem changed_spec (base remote : Ref) (rd : List String) (w : World) (es : List Entry) :
    changed true base remote rd w es = (es.filterMap (pairAt w base remote rd), w) := by
  induction es with
  | nil => rfl
  | cons e es ih =>
    simp only [changed, List.filterMap_cons, pairAt]
    have h1 := entryStream_world w e.aPath e.aBlob base rd
    generalize hA : entryStream true w e.aPath e.aBlob base rd = ra at h1 ⊢
    obtain ⟨fa, w1⟩ := ra
    simp only at h1; subst h1
    cases fa with
    | none => simpa using ih
    | some a =>
      simp only
      have h2 := entryStream_world w1 e.bPath e.bBlob remote rd
      generalize hB : entryStream true w1 e.bPath e.bBlob remote rd = rb at h2 ⊢
      obtain ⟨fb, w2⟩ := rb
      simp only at h2; subst h2
      cases fb with
      | none => simpa using ih
      | some b => simp [ih]

/-- The caller's working directory (and the file system) is the same afterwards, for every
    number of entries, every pair of refs and every invocation directory. -/
theorem C17_cwd (base remote : Ref) (rd : List String) (w : World) (es : List Entry) :
    (changed true base remote rd w es).2 = w := by
  rw [changed_spec]

/-- Exactly the entries whose two paths are notebooks are examined, each paired with its content
    on either side read from the *same* place (the world never moves between entries): the result
    is a `filterMap` of a per-entry function, independent of position and of the other entries. -/
theorem C17_exact (base remote : Ref) (rd : List String) (w : World) (es : List Entry) :
    (changed true base remote rd w es).1 = es.filterMap (pairAt w base remote rd) := by
  rw [changed_spec]

/-- Non-notebook files are skipped: an entry with a non-notebook path yields nothing. -/
theorem C17_skip (base remote : Ref) (rd : List String) (w : World) (e : Entry) (p : List String)
    (ha : e.aPath = some p) (hp : p.isEmpty = false) (hn : isNb p = false) :
    pairAt w base remote rd e = none := by
  simp [pairAt, entryStream, ha, hp, hn]

/-- The unrepaired context manager (`old = os.curdir`) violates the property: from a
    subdirectory the second working-tree entry is read as missing and the cwd has moved.
    (Witness replayed on the implementation by the harness; this is finding F-pushd.) -/
theorem C17_unrepaired_pushd_refuted :
    let w : World := ⟨["r", "sub"], [(["r", "a.ipynb"], "A"), (["r", "b.ipynb"], "B")]⟩
    let es : List Entry := [⟨some ["a.ipynb"], some ["a.ipynb"], some "a0", none⟩, ⟨some ["b.ipynb"], some ["b.ipynb"], some "b0", none⟩]
    (changed false (.commit "HEAD") .worktree [".."] w es).1.map (·.2) = [.file "A", .missing] ∧
    (changed false (.commit "HEAD") .worktree [".."] w es).2.cwd ≠ w.cwd ∧
    (changed true (.commit "HEAD") .worktree [".."] w es).1.map (·.2) = [.file "A", .file "B"] := by
  decide +kernel

end Nbdime
