import NbdimeProofs.Lemmas.LcsMatching
import NbdimeProofs.Lemmas.JsonEq
/-
  C02 — generic JSON diff/patch round trip. Property theorems only (helper lemmas live in Lemmas/).
  Status: sequence level proved for every monotone matching (whatever the LCS/snake heuristics
  pick); the recursive statement over whole documents is `C02_roundtrip_statement` below and is
  not yet proved in full (see MANIFEST level_note).
-/
namespace Nbdime
open Nbdime.Abs

/-- Full-strength statement (a definition: no proof is claimed by its presence). The unchanged
    code compares leaves with Python `==`, so the conclusion is `pyEq`, which is `=` on documents
    without bool/int/float look-alikes (known finding F-eq). -/
def C02_roundtrip_statement : Prop :=
  ∀ (O : Oracle) (a b : J) (d : List Op),
    diffGeneric O a b = .ok d → ∃ r, patch a d = .ok r ∧ J.pyEq r b = true

/-- Sequence level: for *every* monotone matching `ps` between `a` and `b` (the LCS actually
    chosen is irrelevant) the diff that `diff_from_lcs` emits, applied by the model's
    `patch_list` with Python's take/skip cursor, rebuilds `b` exactly and never fails. -/
theorem C02_seq_roundtrip_partial (a b : List J) (ps : List (Nat × Nat))
    (hm : Matching a b ps 0 0) :
    patchList a ((dfl a b ps 0 0).map toOp) 0 = .ok b := by
  rw [patchList_map_toOp, patch_dfl a b ps 0 0 (Nat.zero_le _) (Nat.zero_le _) hm]
  simp

/-- non-vacuity: a concrete non-trivial matching meets the hypothesis -/
example : Matching [J.int 1, J.int 2, J.int 3] [J.int 0, J.int 1, J.int 3] [(0, 1), (2, 2)] 0 0 := by
  simp [Matching]

/-- The model's executable shallow list differ (`diff_sequence_bruteforce`: comparison grid, LLCS
    table, backtracking, `diff_from_lcs` through the sequence builder) followed by the model's
    `patch_list` rebuilds the target exactly, for every comparison predicate that implies equality —
    whichever common subsequence the table picks. -/
theorem C02_list_roundtrip (cmp : J → J → Except Err Bool) (hstrict : ∀ x y, cmp x y = .ok true → x = y)
    (A B : List J) (d : List Op) (h : diffSequence cmp A B = .ok d) : patchList A d 0 = .ok B :=
  diffSequence_roundtrip cmp hstrict A B d h

/-- Instance: the type-aware equality (`1`, `1.0`, `true` distinct). -/
theorem C02_list_roundtrip_strict (A B : List J) (d : List Op)
    (h : diffSequence (fun x y => .ok (J.beq x y)) A B = .ok d) : patchList A d 0 = .ok B :=
  C02_list_roundtrip _ (fun x y hxy => J.beq_eq x y (by simpa using hxy)) A B d h

/-- Instance for the code as it is (Python `==`, finding F-eq): exact on lists whose items hold no
    booleans and no floats; for other lists the statement is false (`C02_pyEq_refuted`). -/
theorem C02_list_roundtrip_pyEq_partial (A B : List J) (d : List Op)
    (hA : ∀ x ∈ A, x.intsOnly = true) (hB : ∀ y ∈ B, y.intsOnly = true)
    (h : diffSequence (fun x y => if x.intsOnly && y.intsOnly then .ok (J.pyEq x y) else .ok (J.beq x y)) A B = .ok d) :
    patchList A d 0 = .ok B := by
  apply C02_list_roundtrip _ _ A B d h
  intro x y hxy
  by_cases hc : (x.intsOnly && y.intsOnly) = true
  · simp only [hc, if_true, Except.ok.injEq] at hxy
    simp only [Bool.and_eq_true] at hc
    exact J.pyEq_eq x y hc.1 hc.2 hxy
  · simp only [hc, Bool.false_eq_true, if_false, Except.ok.injEq] at hxy
    exact J.beq_eq x y hxy

/-- Python `==` identifies `1` and `true`: the shallow differ reports nothing and the round trip
    fails (finding F-eq; replayed on the implementation by the check). -/
theorem C02_pyEq_refuted :
    diffSequence (fun x y => .ok (J.pyEq x y)) [J.int 1] [J.bool true] = .ok [] ∧
    patchList [J.int 1] [] 0 ≠ .ok [J.bool true] := by
  constructor
  · rfl
  · simp [patchList]
