import NbdimeProofs.Lemmas.SeqBridge
/-
  C02 — generic JSON diff/patch round trip. Property theorems only (helper lemmas live in Lemmas/).
  Status: sequence level proved for every monotone matching (whatever the LCS/snake heuristics
  pick); the recursive statement over whole documents is `C02_roundtrip_statement` below and is
  not yet proved in full (see MANIFEST level_note).
-/
namespace Nbdime
open Nbdime.Abs

/-- Full-strength statement (a definition: no proof is claimed by its presence). The unchanged
    code compares leaves with Python `==`, so the conclusion is `pyEq`, which is `=` on documents
    without bool/int/float look-alikes (known finding F-eq). -/
def C02_roundtrip_statement : Prop :=
  ∀ (O : Oracle) (a b : J) (d : List Op),
    diffGeneric O a b = .ok d → ∃ r, patch a d = .ok r ∧ J.pyEq r b = true

/-- Sequence level: for *every* monotone matching `ps` between `a` and `b` (the LCS actually
    chosen is irrelevant) the diff that `diff_from_lcs` emits, applied by the model's
    `patch_list` with Python's take/skip cursor, rebuilds `b` exactly and never fails. -/
theorem C02_seq_roundtrip_partial (a b : List J) (ps : List (Nat × Nat))
    (hm : Matching a b ps 0 0) :
    patchList a ((dfl a b ps 0 0).map toOp) 0 = .ok b := by
  rw [patchList_map_toOp, patch_dfl a b ps 0 0 (Nat.zero_le _) (Nat.zero_le _) hm]
  simp

/-- non-vacuity: a concrete non-trivial matching meets the hypothesis -/
example : Matching [J.int 1, J.int 2, J.int 3] [J.int 0, J.int 1, J.int 3] [(0, 1), (2, 2)] 0 0 := by
  simp [Matching]

end Nbdime
