import NbdimeProofs.Lemmas.LcsMatching
import NbdimeProofs.Lemmas.JsonEq
import NbdimeProofs.Lemmas.RoundtripAll
/-
  C02 — generic JSON diff/patch round trip. Property theorems only (helper lemmas live in Lemmas/).
  Status: the recursive round trip over whole documents (lists, dicts, strings, any depth) is
  proved for every similarity oracle (`C02_roundtrip_partial`); "partial" only because the code
  compares leaves with Python `==`, so documents that contain booleans or floats are outside it
  (finding F-eq, refuted by `C02_pyEq_refuted`). The remaining hypotheses are checked at run time:
  difflib's opcode contract (`OracleOK`, evaluated by the driver on every recorded answer) and dict
  keys sorted (the codec delivers them so).
-/
namespace Nbdime
open Nbdime.Abs

/-- Full-strength statement (a definition: no proof is claimed by its presence). The unchanged
    code compares leaves with Python `==`, so the conclusion is `pyEq`, which is `=` on documents
    without bool/int/float look-alikes (known finding F-eq). -/
def C02_roundtrip_statement : Prop :=
  ∀ (O : Oracle) (a b : J) (d : List Op),
    diffGeneric O a b = .ok d → ∃ r, patch a d = .ok r ∧ J.pyEq r b = true

/-- The recursive round trip, at every depth and for every answer of the similarity predicates:
    if the generic differ returns `d` for `(a, b)` then `patch a d` succeeds and is exactly `b`.
    Hypotheses: the documents are compatible (`Compat`: nowhere does the differ compare a boolean with
    a 0/1-valued number with Python `==` — exactly the complement of finding F-eq), dict keys sorted,
    and opcode answers that satisfy difflib's contract. -/
theorem C02_roundtrip_partial (O : Oracle) (hO : OracleOK O) (a b : J) (d : List Op)
    (ca : a.canonical = true) (cb : b.canonical = true) (hab : Compat a b)
    (h : diffGeneric O a b = .ok d) : patch a d = .ok b :=
  diffAt_generic_roundtrip O hO bigFuel "" a b d ca cb hab h

/-- "the diff is empty only if the two documents serialise identically" (for compatible documents) -/
theorem C02_empty_diff_only_if_equal (O : Oracle) (hO : OracleOK O) (a b : J)
    (ca : a.canonical = true) (cb : b.canonical = true) (hab : Compat a b)
    (h : diffGeneric O a b = .ok []) : a = b :=
  (patch_nil a b ca (C02_roundtrip_partial O hO a b [] ca cb hab h)).symm

/-- special case with a decidable hypothesis: documents without booleans and floats -/
theorem C02_roundtrip_intsOnly (O : Oracle) (hO : OracleOK O) (a b : J) (d : List Op)
    (ca : a.canonical = true) (cb : b.canonical = true) (ia : a.intsOnly = true) (ib : b.intsOnly = true)
    (h : diffGeneric O a b = .ok d) : patch a d = .ok b :=
  C02_roundtrip_partial O hO a b d ca cb (compat_ints a b ia ib) h

/-- non-vacuity: a nested document pair with a list insertion, a dict change and a string edit, and an
    oracle whose answers satisfy the contract; the differ returns a diff and the hypotheses hold -/
def exOracle : Oracle :=
  { cmp := fun _ x y => .ok (J.beq x y),
    opcodes := fun a b => .ok [⟨"replace", 0, a.length, 0, b.length⟩] }

theorem exOracle_ok : OracleOK exOracle := by
  intro a b ocs h
  simp only [exOracle, Except.ok.injEq] at h
  subst h
  simp [opcodesValid, opcodesValidAux]

def exA : J := .obj [("k", .arr [.int 1, .int 2]), ("s", .str "ab\ncd".toList)]
def exB : J := .obj [("k", .arr [.int 1, .int 3, .int 2]), ("s", .str "ab\nce".toList), ("z", .null)]

example : (diffGeneric exOracle exA exB).toBool = true ∧ exA.canonical = true ∧ exB.canonical = true ∧
    exA.intsOnly = true ∧ exB.intsOnly = true := by decide +kernel

/-- Sequence level: for *every* monotone matching `ps` between `a` and `b` (the LCS actually
    chosen is irrelevant) the diff that `diff_from_lcs` emits, applied by the model's
    `patch_list` with Python's take/skip cursor, rebuilds `b` exactly and never fails. -/
theorem C02_seq_roundtrip_partial (a b : List J) (ps : List (Nat × Nat))
    (hm : Matching a b ps 0 0) :
    patchList a ((dfl a b ps 0 0).map toOp) 0 = .ok b := by
  rw [patchList_map_toOp, patch_dfl a b ps 0 0 (Nat.zero_le _) (Nat.zero_le _) hm]
  simp

/-- non-vacuity: a concrete non-trivial matching meets the hypothesis -/
example : Matching [J.int 1, J.int 2, J.int 3] [J.int 0, J.int 1, J.int 3] [(0, 1), (2, 2)] 0 0 := by
  simp [Matching]

/-- The model's executable shallow list differ (`diff_sequence_bruteforce`: comparison grid, LLCS
    table, backtracking, `diff_from_lcs` through the sequence builder) followed by the model's
    `patch_list` rebuilds the target exactly, for every comparison predicate that implies equality —
    whichever common subsequence the table picks. -/
theorem C02_list_roundtrip (cmp : J → J → Except Err Bool) (hstrict : ∀ x y, cmp x y = .ok true → x = y)
    (A B : List J) (d : List Op) (h : diffSequence cmp A B = .ok d) : patchList A d 0 = .ok B :=
  diffSequence_roundtrip cmp hstrict A B d h

/-- Instance: the type-aware equality (`1`, `1.0`, `true` distinct). -/
theorem C02_list_roundtrip_strict (A B : List J) (d : List Op)
    (h : diffSequence (fun x y => .ok (J.beq x y)) A B = .ok d) : patchList A d 0 = .ok B :=
  C02_list_roundtrip _ (fun x y hxy => J.beq_eq x y (by simpa using hxy)) A B d h

/-- Instance for the code as it is (Python `==`, finding F-eq): exact on lists whose items hold no
    booleans and no floats; for other lists the statement is false (`C02_pyEq_refuted`). -/
theorem C02_list_roundtrip_pyEq_partial (A B : List J) (d : List Op)
    (hA : ∀ x ∈ A, x.intsOnly = true) (hB : ∀ y ∈ B, y.intsOnly = true)
    (h : diffSequence (fun x y => if x.intsOnly && y.intsOnly then .ok (J.pyEq x y) else .ok (J.beq x y)) A B = .ok d) :
    patchList A d 0 = .ok B := by
  apply C02_list_roundtrip _ _ A B d h
  intro x y hxy
  by_cases hc : (x.intsOnly && y.intsOnly) = true
  · simp only [hc, if_true, Except.ok.injEq] at hxy
    simp only [Bool.and_eq_true] at hc
    exact J.pyEq_eq x y hc.1 hc.2 hxy
  · simp only [hc, Bool.false_eq_true, if_false, Except.ok.injEq] at hxy
    exact J.beq_eq x y hxy

/-- Python `==` identifies `1` and `true`: the shallow differ reports nothing and the round trip
    fails (finding F-eq; replayed on the implementation by the check). -/
theorem C02_pyEq_refuted :
    diffSequence (fun x y => .ok (J.pyEq x y)) [J.int 1] [J.bool true] = .ok [] ∧
    patchList [J.int 1] [] 0 ≠ .ok [J.bool true] := by
  constructor
  · rfl
  · simp [patchList]
