import NbdimeModel
import NbdimeProofs.Lemmas.Resolve
import NbdimeProofs.Lemmas.MergeOrder
/-
  C09 — merge decisions describe the merge. Model: NbdimeModel/Apply.lean (independent applier).
  Proved here: what the ordering predicate run on every produced decision list means; that
  "choose side X for every decision" applies exactly that side's diff (nothing when it is absent);
  that a decision with action `base` contributes nothing; and that applying a single root decision
  is patching base with the resolved diff. The statement that choosing local everywhere
  reproduces local (`C09_local_statement`) is evaluated on the implementation and on the model for
  every generated triple; it is stated, not yet proved (it needs the merger model).
-/
namespace Nbdime

/-- full-strength statement about the Lean applier and any decision list the merger can produce;
    a definition (no proof is claimed by its presence) -/
def C09_local_statement (merger : J → J → J → List Decision) : Prop :=
  ∀ b l r, applyAs "local" b (merger b l r) = .ok l

theorem C09_childrenFirst_sound (ds : List Decision) (h : childrenFirst ds = true) :
    ∀ i j (hi : i < ds.length) (hj : j < ds.length), i < j → strictPrefix ds[i].path ds[j].path = false := by
  induction ds with
  | nil => intro i j hi; simp at hi
  | cons d rest ih =>
    simp only [childrenFirst, Bool.and_eq_true, List.all_eq_true] at h
    obtain ⟨h1, h2⟩ := h
    intro i j hi hj hij
    cases j with
    | zero => omega
    | succ j =>
      cases i with
      | zero =>
        have hj' : j < rest.length := by simpa using hj
        have := h1 rest[j] (List.getElem_mem hj')
        simpa using this
      | succ i =>
        have hi' : i < rest.length := by simpa using hi
        have hj' : j < rest.length := by simpa using hj
        simpa using ih h2 i j hi' hj' (by omega)

/-- a decision resolved to `base` contributes no diff entry, whatever its diffs are -/
theorem C09_base_noop (base : J) (d : Decision) (h : d.action = "base") :
    resolveAction base d = .ok [] := by
  rw [resolveAction_leaf base d (keyBased_false_of d (by simp [h]) (by simp [h]) (by simp [h]))]
  unfold resolveLeaf
  simp [h]

/-- choosing a side for a decision applies exactly that side's diff, and nothing when absent -/
theorem C09_chooseSide_action (base : J) (d : Decision) :
    resolveAction base (chooseSide "local" d) = .ok (d.localDiff.getD []) ∧
    resolveAction base (chooseSide "remote" d) = .ok (d.remoteDiff.getD []) := by
  constructor
  · rw [resolveAction_leaf _ _ (by simp [chooseSide, Decision.keyBased])]
    unfold resolveLeaf chooseSide; simp
  · rw [resolveAction_leaf _ _ (by simp [chooseSide, Decision.keyBased])]
    unfold resolveLeaf chooseSide; simp

/-- a single decision on the root path: applying it is patching base with its resolved diff -/
theorem C09_apply_single_root (base : J) (d : Decision) (hp : d.path = []) :
    applyDecisions base [d] = (do let ad ← resolveAction base d; patch base ad) := by
  unfold applyDecisions
  simp only [applyLoop, hp, splitStringPath, getAt, bind, Except.bind, pure, Except.pure]
  cases resolveAction base d with
  | error e => rfl
  | ok ad =>
    simp only [List.isEmpty_nil, if_true, flush, getAt, bind, Except.bind]
    cases patch base ad with
    | error e => rfl
    | ok v => simp [setAt]

/-- non-vacuity of the ordering predicate: a deeper decision before its parent is accepted, the reverse is rejected -/
example : childrenFirst [⟨[.s "cells", .i 0], "local", false, some [], none, none⟩, ⟨[.s "cells"], "local", false, some [], none, none⟩] = true ∧
    childrenFirst [⟨[.s "cells"], "local", false, some [], none, none⟩, ⟨[.s "cells", .i 0], "local", false, some [], none, none⟩] = false := by
  decide


/-- **ordering clause for the model of the merger**: whatever decisions the builder holds (any
    inputs, any strategies), the list `validated` returns is children-first. With
    `C09_childrenFirst_sound` this is the statement of the property for the model; the tie to
    `decide_merge_with_diff` is the merge-model correspondence run by the check. -/
theorem C09_validated_childrenFirst (b : Merge.B) :
    childrenFirst ((Merge.validated b).map Merge.MD.toDecision) = true :=
  Merge.validated_childrenFirst b

/-- the same for the whole decision procedure -/
theorem C09_decideMerge_childrenFirst (E : Merge.Env) (base : J) (ld rd : List Op) (ds : List Merge.MD)
    (h : Merge.decideMerge E base ld rd = .ok ds) : childrenFirst (ds.map Merge.MD.toDecision) = true := by
  unfold Merge.decideMerge at h
  simp only [bind, Except.bind] at h
  split at h
  · cases h
  · simp only [pure, Except.pure, Except.ok.injEq] at h
    subst h
    exact Merge.validated_childrenFirst _

end Nbdime
