import NbdimeModel
/-
  C12 — diffing is a pure function of its inputs and of the ignore options in force.
  State machine: NbdimeModel/History.lean. The N-th call of any history is answered as after
  replaying only the configuration calls made since the last reset, i.e. as in a fresh process.
-/
namespace Nbdime

theorem run_configSuffix (st : HState) (h : List Call) :
    run st h = run (if hasReset h then .init else st) (configSuffix h) := by
  induction h generalizing st with
  | nil => simp [run, configSuffix, hasReset]
  | cons c cs ih =>
    have hr : hasReset (c :: cs) = (c.isReset || hasReset cs) := by simp [hasReset]
    simp only [run]
    rw [ih]
    by_cases hcs : hasReset cs = true
    · simp [configSuffix, hr, hcs]
    · have hcs' : hasReset cs = false := by simpa using hcs
      cases c <;> simp [configSuffix, hr, hcs', run, step, Call.isReset]

/-- a diff call never writes differ state -/
theorem C12_diff_pure (st : HState) (O : Oracle) (a b : J) : (step st (.diff O a b)).2 = st := rfl

/-- resetting the ignore options restores the initial behaviour, whatever happened before -/
theorem C12_reset (st : HState) : (step st .reset).2 = HState.init := rfl

/-- history freedom: after ANY finite history of diff / merge / configuration / reset calls,
    the next call is answered exactly as by a fresh process in which only the configuration
    calls since the last reset were replayed -/
theorem C12_history_free (h : List Call) (c : Call) :
    (step (run .init h) c).1 = (step (run .init (configSuffix h)) c).1 := by
  rw [run_configSuffix .init h]
  simp

/-- non-vacuity: a history with diffs, a reset and two configuration calls -/
example : (configSuffix [.targets ⟨true, false, true, true, true, true⟩, .other, .reset,
    .ignores [("/metadata", .yes)], .other, .targets ⟨true, true, true, true, true, false⟩]).length = 2 := by
  decide

end Nbdime
