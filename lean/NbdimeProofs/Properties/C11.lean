import NbdimeProofs.Lemmas.LcsMatching
import NbdimeProofs.Lemmas.WfDiff
import NbdimeProofs.Lemmas.NbWf
import NbdimeProofs.Properties.C02
/-
  C11 — every produced diff is well-formed for its base document. `wf` (NbdimeModel/WF.lean) is the
  decidable predicate the check runs on every diff the implementation produces. Proved here: the
  shallow list differ of the model always produces a well-formed diff (ordered, within bounds,
  non-overlapping, at most one insertion per position and before the removal at that position),
  for every predicate and whichever common subsequence is chosen.
-/
namespace Nbdime
open Nbdime.Abs

theorem wfList_dfl (a b : List J) (ps : List (Nat × Nat)) (x y lo : Nat) (added : Option Nat)
    (hx : x ≤ a.length) (hy : y ≤ b.length) (hm : Matching a b ps x y) (hlo : lo ≤ x)
    (hadd : ∀ k, added = some k → k < x) :
    wfList a ((dfl a b ps x y).map toOp) lo added = true := by
  induction ps generalizing x y lo added with
  | nil =>
    simp only [dfl]
    have hne : ∀ k, added = some k → ¬ (k = x) := fun k hk e => by have := hadd k hk; omega
    have hadd' : (added != some x) = true := by
      cases added with
      | none => rfl
      | some k => simp; exact hne k rfl
    by_cases h1 : y < b.length <;> by_cases h2 : x < a.length
    · have hd : (b.drop y).isEmpty = false := by
        simp only [List.isEmpty_eq_false_iff, ne_eq, List.drop_eq_nil_iff]; omega
      simp only [h1, h2, if_true, List.singleton_append, List.map_cons, List.map_nil, toOp]
      rw [wfList, wfList, wfList]
      simp [hlo, hd, hadd']; omega
    · have hd : (b.drop y).isEmpty = false := by
        simp only [List.isEmpty_eq_false_iff, ne_eq, List.drop_eq_nil_iff]; omega
      simp only [h1, h2, if_true, if_false, List.append_nil, List.map_cons, List.map_nil, toOp]
      rw [wfList, wfList]
      simp [hlo, hd, hadd']; omega
    · simp only [h1, h2, if_true, if_false, List.nil_append, List.map_cons, List.map_nil, toOp]
      rw [wfList, wfList]
      simp [hlo]; omega
    · simp only [h1, h2, if_false, List.append_nil, List.map_nil]
      rw [wfList]
  | cons p ps ih =>
    obtain ⟨i, j⟩ := p
    obtain ⟨hxi, hyj, hi, hj, _, hrest⟩ := hm
    have hne : ∀ k, added = some k → ¬ (k = x) := fun k hk e => by have := hadd k hk; omega
    have hadd' : (added != some x) = true := by
      cases added with
      | none => rfl
      | some k => simp; exact hne k rfl
    simp only [dfl]
    by_cases h1 : j > y <;> by_cases h2 : i > x
    · have hd : ((b.drop y).take (j - y)).isEmpty = false := by
        simp only [List.isEmpty_eq_false_iff, ne_eq, List.take_eq_nil_iff, List.drop_eq_nil_iff]; omega
      simp only [h1, h2, if_true, List.singleton_append, List.cons_append, List.nil_append, List.map_cons, toOp]
      rw [wfList, wfList]
      have := ih (i + 1) (j + 1) (x + (i - x)) none (by omega) (by omega) hrest (by omega) (by simp)
      simp [hlo, hd, hadd', this]; omega
    · have hix : i = x := by omega
      subst hix
      have hd : ((b.drop y).take (j - y)).isEmpty = false := by
        simp only [List.isEmpty_eq_false_iff, ne_eq, List.take_eq_nil_iff, List.drop_eq_nil_iff]; omega
      simp only [h1, h2, if_true, if_false, List.singleton_append, List.append_nil, List.nil_append, List.map_cons, toOp]
      rw [wfList]
      have := ih (i + 1) (j + 1) i (some i) (by omega) (by omega) hrest (by omega) (by intro k hk; cases hk; omega)
      simp [hlo, hd, hadd', this]; omega
    · have hjy : j = y := by omega
      subst hjy
      simp only [h1, h2, if_true, if_false, List.singleton_append, List.nil_append, List.map_cons, toOp]
      rw [wfList]
      have := ih (i + 1) (j + 1) (x + (i - x)) none (by omega) (by omega) hrest (by omega) (by simp)
      simp [hlo, this]; omega
    · have hix : i = x := by omega
      have hjy : j = y := by omega
      subst hix; subst hjy
      simp only [h1, h2, if_false, List.nil_append]
      exact ih (i + 1) (j + 1) lo added (by omega) (by omega) hrest (by omega) (fun k hk => by have := hadd k hk; omega)

/-- Every diff the model's shallow list differ produces is well-formed for the list it was computed
    from, for every comparison predicate that implies equality. -/
theorem C11_wf_shallow_list (cmp : J → J → Except Err Bool) (hstrict : ∀ x y, cmp x y = .ok true → x = y)
    (A B : List J) (d : List Op) (h : diffSequence cmp A B = .ok d) : wf (.arr A) d = true := by
  unfold diffSequence at h
  simp only [bind, Except.bind] at h
  cases hG : compareGrid cmp A B with
  | error e => simp [hG] at h
  | ok G =>
    simp only [hG] at h
    cases hps : lcsIndices G A.length B.length with
    | error e => simp [hps] at h
    | ok ps =>
      simp only [hps, pure, Except.pure, Except.ok.injEq] at h
      subst h
      have hgm : GridMatching (gridAt G) A.length B.length ps 0 0 := by
        unfold lcsIndices at hps
        exact lcsBack_matching (gridAt G) _ A.length B.length _ A.length B.length [] ps (Nat.le_refl _) (Nat.le_refl _) trivial hps
      have hm : Matching A B ps 0 0 := by
        apply GridMatching_to_Matching A B (gridAt G) ps 0 0 _ hgm
        intro i j hi hj hg
        have := hstrict _ _ (compareGrid_true cmp A B G hG i j hi hj hg)
        rw [List.getElem?_eq_getElem hi, List.getElem?_eq_getElem hj, this]
      rw [diffFromLcs_eq_dfl A B ps hm, wf]
      exact wfList_dfl A B ps 0 0 0 none (Nat.zero_le _) (Nat.zero_le _) hm (Nat.le_refl _) (by simp)

/-- non-vacuity -/
example : wf (.arr [.int 1, .int 2, .int 3]) [.addrange 1 [.int 9], .removerange 1 1] = true := by
  rw [wf, wfList, wfList, wfList]; decide


/-- **C11 for the model of the whole generic differ** (lists, objects, strings down to the character
    level, any depth, any answer of the similarity predicates): the diff `diffGeneric` returns is
    well-formed for the base document. Hypotheses as in `C02_roundtrip_partial` (canonical keys,
    compatible documents, difflib's opcode contract — the last one evaluated by the driver on every
    recorded answer). -/
theorem C11_generic_wf (O : Oracle) (hO : OracleOK O) (a b : J) (d : List Op)
    (ca : a.canonical = true) (cb : b.canonical = true) (hab : Compat a b)
    (h : diffGeneric O a b = .ok d) : wf a d = true :=
  diffAt_generic_wf O hO bigFuel "" a b d ca cb hab h

/-- non-vacuity: the nested example pair of C02 (list insertion, dict change, string edit; the differ does return a
    diff for it, see Properties/C02.lean) meets every hypothesis, so its diff is well-formed -/
example : ∀ d, diffGeneric exOracle exA exB = .ok d → wf exA d = true := fun d h =>
  C11_generic_wf exOracle exOracle_ok exA exB d (by decide +kernel) (by decide +kernel)
    (compat_ints exA exB (by decide +kernel) (by decide +kernel)) h


/-- **C11 for the model of the notebook differ**: under every differ configuration that passes the decidable
    `cfgSoundB` (the live tables of `diff_notebooks` are extracted per run and the theorem is instantiated with
    them), every oracle with `OracleOK` and every pair of compatible canonical notebooks, the diff is well-formed for
    the base notebook — cells and outputs (multilevel alignment, any predicate answers), sources (line and
    character level), mime bundles, attachments, metadata, at every depth. -/
theorem C11_notebook_wf (O : Oracle) (hO : OracleOK O) (cfg : Cfg) (hcfg : cfgSoundB cfg = true)
    (a b : J) (d : List Op) (ca : a.canonical = true) (cb : b.canonical = true) (hab : Compat a b)
    (h : diffNotebooks O cfg a b = .ok d) : wf a d = true :=
  diffNotebooks_wf O hO cfg hcfg a b d ca cb hab h

end Nbdime
