import NbdimeProofs.Lemmas.SeqAbstract
import NbdimeModel
import NbdimeProofs.Lemmas.Resolve
import NbdimeProofs.Lemmas.MergeDisjoint
/-
  C06 — changes at separate positions combine. Locality of Python's `patch_list` cursor semantics:
  a diff whose entries fall into two groups separated by a position `x` (everything of the first
  group ends at or before `x`, every key of the second is at or after `x`) acts on the two parts of
  the list independently. This is what lets one-sided decisions of the two sides, which touch
  different cells, be applied in one patch without interfering.
-/
namespace Nbdime
open Nbdime.Abs

/-- end position of an entry: where the cursor stands after it -/
def Abs.SOp.stop {α} : SOp α → Nat
  | .addrange k _ => k
  | .removerange k n => k + n

theorem take_drop_take {α} (a : List α) (x t k : Nat) (hk : k ≤ x) :
    ((a.take x).drop t).take (k - t) = (a.drop t).take (k - t) := by
  rw [List.drop_take, List.take_take]
  congr 1
  omega

/-- locality: the entries before `x` only see `a.take x`, the entries from `x` on only see the rest -/
theorem C06_disjoint_list_patches {α} (ops1 ops2 : List (SOp α)) (a : List α) (x t : Nat)
    (ht : t ≤ x)
    (h1 : ∀ e ∈ ops1, e.stop ≤ x)
    (h2 : ∀ e ∈ ops2.head?, x ≤ e.key) :
    patchFrom (ops1 ++ ops2) t a = patchFrom ops1 t (a.take x) ++ patchFrom ops2 x a := by
  induction ops1 generalizing t with
  | nil =>
    simp only [List.nil_append, patchFrom]
    rw [patchFrom_cursor ops2 a t x ht h2, List.drop_take]
  | cons e es ih =>
    have he := h1 e (by simp)
    have hes : ∀ e ∈ es, e.stop ≤ x := fun y hy => h1 y (by simp [hy])
    cases e with
    | addrange k vs =>
      simp only [SOp.stop] at he
      simp only [List.cons_append, patchFrom]
      rw [ih (max t k) (by omega) hes, take_drop_take a x t k he]
      simp [List.append_assoc]
    | removerange k n =>
      simp only [SOp.stop] at he
      simp only [List.cons_append, patchFrom]
      rw [ih (max t (k + n)) (by omega) hes, take_drop_take a x t k (by omega)]
      simp [List.append_assoc]

/-- a one-sided decision applies exactly the diff of the side that changed -/
theorem C06_onesided_applies_local (base : J) (d : Decision) (ld : List Op)
    (ha : d.action = "local") (hl : d.localDiff = some ld) : resolveAction base d = .ok ld := by
  rw [resolveAction_leaf base d (keyBased_false_of d (by simp [ha]) (by simp [ha]) (by simp [ha]))]
  unfold resolveLeaf
  simp [ha, hl]

/-- non-vacuity: local removes item 0, remote appends after item 2 of a 3-item list -/
example : patchFrom ([SOp.removerange 0 1] ++ [SOp.addrange 3 [9]]) 0 [1, 2, 3] = [2, 3, 9] := by decide


/-- **C06, "reports no conflict", for the model of the merger** (`NbdimeModel/MergeGeneric.lean`):
    disjoint changes (decidable predicate `Merge.disjoint`, evaluated by the driver on the generated
    ownership cases) never produce a conflicted decision, under any strategy table and oracle. -/
theorem C06_model_no_conflict {E : Merge.Env} {base : J} {ld rd : List Op} {ds : List Merge.MD}
    (hd : Merge.disjoint E.S base ld rd = true) (h : Merge.decideMerge E base ld rd = .ok ds) :
    ∀ d ∈ ds, d.conflict = false :=
  Merge.decideMerge_disjoint_noConflict hd h

namespace C06ex
open Merge
def exE : Env := { O := { cmp := fun _ _ _ => .ok false, opcodes := fun _ _ => .ok [] }, cfg := defaultCfg,
                   S := { table := [], transients := [] }, render := fun _ l _ => .ok (l, 0) }
def exBase : J := .obj [("cells", .arr [.obj [("source", .str "a\nb\n".toList)], .obj [("source", .str "c\n".toList)], .int 7])]
def exLd : List Op := [.patchK "cells" [.patchI 0 [.patchK "source" [.addrange 1 [.str "x\n".toList]]]]]
def exRd : List Op := [.patchK "cells" [.patchI 1 [.replace "source" (.str "d\n".toList)], .removerange 2 1]]
/-- non-vacuity: a nested pair of diffs meets the hypothesis and the merge succeeds with three decisions -/
example : disjoint exE.S exBase exLd exRd = true := by decide +kernel
example : (match decideMerge exE exBase exLd exRd with | .ok ds => ds.length | .error _ => 0) = 3 := by decide +kernel
/-- ... and a pair that is not disjoint is rejected by the predicate -/
example : disjoint exE.S exBase exLd [.patchK "cells" [.removerange 0 1]] = false := by decide +kernel
end C06ex

end Nbdime
