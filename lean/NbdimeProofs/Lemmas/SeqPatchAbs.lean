import NbdimeProofs.Lemmas.SeqAbstract
/-
  Abstract sequence layer with item patches: the cursor semantics of Python's `patch_list`
  (`take`/`skip` bookkeeping) over an arbitrary element type, for diffs made of
  addrange / removerange / patch(k, new item).  `run` splits the semantics into "what has been
  emitted so far" and "where the cursor stands", which is what the invariants of the diff
  producers (`diff_lists`, `compute_diff_from_snakes`) talk about.  Core Lean only.
-/
namespace Nbdime.Abs

inductive POp (α : Type) where
  | add (k : Nat) (vs : List α)
  | rem (k n : Nat)
  | pat (k : Nat) (new : α)

def POp.key {α} : POp α → Nat
  | .add k _ => k
  | .rem k _ => k
  | .pat k _ => k

/-- what one entry emits besides the skipped-over prefix -/
def POp.out {α} : POp α → List α
  | .add _ vs => vs
  | .rem _ _ => []
  | .pat _ v => [v]

/-- how many base items one entry consumes -/
def POp.eat {α} : POp α → Nat
  | .add _ _ => 0
  | .rem _ n => n
  | .pat _ _ => 1

/-- `patch_list`: result from cursor `t` on -/
def pf {α} : List (POp α) → Nat → List α → List α
  | [], t, xs => xs.drop t
  | e :: es, t, xs => (xs.drop t).take (e.key - t) ++ e.out ++ pf es (max t (e.key + e.eat)) xs

/-- emitted items and final cursor -/
def run {α} : List (POp α) → Nat → List α → List α × Nat
  | [], t, _ => ([], t)
  | e :: es, t, xs =>
      let r := run es (max t (e.key + e.eat)) xs
      ((xs.drop t).take (e.key - t) ++ e.out ++ r.1, r.2)

theorem pf_eq_run {α} (ops : List (POp α)) (t : Nat) (xs : List α) :
    pf ops t xs = (run ops t xs).1 ++ xs.drop (run ops t xs).2 := by
  induction ops generalizing t with
  | nil => simp [pf, run]
  | cons e es ih => simp [pf, run, ih, List.append_assoc]

theorem run_append {α} (d1 d2 : List (POp α)) (t : Nat) (xs : List α) :
    run (d1 ++ d2) t xs =
      ((run d1 t xs).1 ++ (run d2 (run d1 t xs).2 xs).1, (run d2 (run d1 t xs).2 xs).2) := by
  induction d1 generalizing t with
  | nil => simp [run]
  | cons e es ih => simp [run, ih, List.append_assoc]

theorem run_cursor_ge {α} (ops : List (POp α)) (t : Nat) (xs : List α) : t ≤ (run ops t xs).2 := by
  induction ops generalizing t with
  | nil => simp [run]
  | cons e es ih =>
    simp only [run]
    have := ih (max t (e.key + e.eat))
    omega

def slice' {α} (xs : List α) (lo hi : Nat) : List α := (xs.drop lo).take (hi - lo)

theorem slice'_append {α} (xs : List α) (a b c : Nat) (h1 : a ≤ b) (h2 : b ≤ c) :
    slice' xs a b ++ slice' xs b c = slice' xs a c := by
  unfold slice'
  exact (take_split xs a b c h1 h2).symm

theorem slice'_self {α} (xs : List α) (a : Nat) : slice' xs a a = [] := by simp [slice']

theorem slice'_succ {α} (xs : List α) (i : Nat) (h : i < xs.length) : slice' xs i (i + 1) = [xs[i]] := by
  unfold slice'
  have h1 : i + 1 - i = 1 := by omega
  rw [h1, List.drop_eq_getElem_cons h]
  rfl

theorem slice'_to_end {α} (xs : List α) (a : Nat) : slice' xs a xs.length = xs.drop a := by
  unfold slice'
  apply List.take_of_length_le; simp

theorem slice'_zero {α} (xs : List α) (b : Nat) : slice' xs 0 b = xs.take b := by simp [slice']

/-- The state of a diff under construction: `di` applied to `A` has produced `B.take j` once the
    base items up to `i` that the cursor has not passed yet are copied. -/
def Built {α} (A B : List α) (di : List (POp α)) (i j : Nat) : Prop :=
  (run di 0 A).2 ≤ i ∧ (run di 0 A).1 ++ slice' A (run di 0 A).2 i = B.take j

theorem Built.init {α} (A B : List α) : Built A B [] 0 0 := by
  simp [Built, run, slice']

/-- A finished construction patches `A` into `B`. -/
theorem Built.done {α} (A B : List α) (di : List (POp α)) (h : Built A B di A.length B.length) :
    pf di 0 A = B := by
  obtain ⟨hc, he⟩ := h
  rw [pf_eq_run, ← slice'_to_end, he, List.take_length]

/-- an aligned pair that needs no entry: the item is copied later -/
theorem Built.keep {α} (A B : List α) (di : List (POp α)) (i j : Nat) (h : Built A B di i j)
    (hi : i < A.length) (hj : j < B.length) (heq : A[i] = B[j]) : Built A B di (i + 1) (j + 1) := by
  obtain ⟨hc, he⟩ := h
  refine ⟨by omega, ?_⟩
  rw [← slice'_append A _ i (i + 1) hc (by omega), ← List.append_assoc, he, slice'_succ A i hi, heq]
  rw [List.take_add_one, List.getElem?_eq_getElem hj]; rfl

/-- appending an entry at the end whose key is the current base position -/
theorem Built.push {α} (A B : List α) (di : List (POp α)) (i j : Nat) (e : POp α)
    (h : Built A B di i j) (hk : e.key = i) (hout : e.out = slice' B j (j + e.out.length))
    (_hjb : j + e.out.length ≤ B.length) :
    Built A B (di ++ [e]) (i + e.eat) (j + e.out.length) := by
  obtain ⟨hc, he⟩ := h
  unfold Built
  rw [run_append]
  simp only [run, List.append_nil]
  have hm : max (run di 0 A).2 (e.key + e.eat) = i + e.eat := by rw [hk]; omega
  rw [hm]
  refine ⟨Nat.le_refl _, ?_⟩
  rw [slice'_self, List.append_nil, hk]
  have : (A.drop (run di 0 A).2).take (i - (run di 0 A).2) = slice' A (run di 0 A).2 i := rfl
  rw [this, ← List.append_assoc, he]
  have hl : e.out.length = (slice' B j (j + e.out.length)).length := by rw [← hout]
  rw [hout, ← hl]
  rw [← slice'_zero, slice'_append B 0 j _ (Nat.zero_le _) (by omega), slice'_zero]

/-- entries in key order, each starting at or after the end of the previous one, all inside `N` -/
def ChainFrom {α} (N : Nat) : Nat → List (POp α) → Prop
  | _, [] => True
  | t, e :: es => t ≤ e.key ∧ e.key + e.eat ≤ N ∧ ChainFrom N (e.key + e.eat) es

theorem ChainFrom.snoc {α} {N t : Nat} {ops : List (POp α)} (h : ChainFrom N t ops) (xs : List α) (e : POp α)
    (hk : (run ops t xs).2 ≤ e.key) (hN : e.key + e.eat ≤ N) : ChainFrom N t (ops ++ [e]) := by
  induction ops generalizing t with
  | nil =>
    simp only [run] at hk
    exact ⟨hk, hN, trivial⟩
  | cons e0 es ih =>
    obtain ⟨h1, h2, h3⟩ := h
    simp only [run] at hk
    have hm : max t (e0.key + e0.eat) = e0.key + e0.eat := by omega
    rw [hm] at hk
    exact ⟨h1, h2, ih h3 hk⟩

/-- `Built` together with the chain discipline -/
def BuiltC {α} (A B : List α) (di : List (POp α)) (i j : Nat) : Prop :=
  Built A B di i j ∧ ChainFrom A.length 0 di

theorem BuiltC.init {α} (A B : List α) : BuiltC A B [] 0 0 := ⟨Built.init A B, trivial⟩

theorem BuiltC.keep {α} (A B : List α) (di : List (POp α)) (i j : Nat) (h : BuiltC A B di i j)
    (hi : i < A.length) (hj : j < B.length) (heq : A[i] = B[j]) : BuiltC A B di (i + 1) (j + 1) :=
  ⟨Built.keep A B di i j h.1 hi hj heq, h.2⟩

theorem BuiltC.push {α} (A B : List α) (di : List (POp α)) (i j : Nat) (e : POp α)
    (h : BuiltC A B di i j) (hk : e.key = i) (hout : e.out = slice' B j (j + e.out.length))
    (hjb : j + e.out.length ≤ B.length) (hN : i + e.eat ≤ A.length) :
    BuiltC A B (di ++ [e]) (i + e.eat) (j + e.out.length) :=
  ⟨Built.push A B di i j e h.1 hk hout hjb, h.2.snoc A e (by rw [hk]; exact h.1.1) (by rw [hk]; exact hN)⟩

end Nbdime.Abs
