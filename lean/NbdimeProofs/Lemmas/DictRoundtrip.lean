import NbdimeProofs.Lemmas.KVSorted
import NbdimeProofs.Lemmas.JsonEq
/-
  Dict level of the round trip: `diff_dicts` (model `diffDicts`: removed / common / added keys through
  the mapping diff builder) followed by `patch_dict` (model `patchDict`) rebuilds the target dict,
  provided the differ used on common keys is sound and `==` on the values at hand implies equality.
-/
set_option linter.unusedSimpArgs false
namespace Nbdime

/-- what one mapping entry does to its key in `patch_dict`: `none` = the entry is not applicable,
    `some r` = afterwards the key holds `r` (`r = none`: key absent) -/
def mapEff (obj : List (String × J)) : Op → Option (Option J)
  | .add k v => if hasKey k obj then none else some (some v)
  | .remove _ => some none
  | .replace _ v => some (some v)
  | .patchK k dd =>
      match lookupKV k obj with
      | some v => (match patch v dd with
          | .ok pv => some (some pv)
          | .error _ => none)
      | none => none
  | _ => none

theorem hasKey_cons {α} (k a : String) (b : α) (rest : List (String × α)) :
    hasKey k ((a, b) :: rest) = (a == k || hasKey k rest) := by
  unfold hasKey
  rw [lookupKV_cons']
  by_cases h : a = k <;> simp [h]

/-- `patch_dict` on a table of applicable entries with distinct keys: it succeeds, the result is
    sorted, and every key holds what its entry says (or what it held before). -/
theorem patchDict_table (obj : List (String × J)) (hobj : DK obj) (di : List (String × Op))
    (newobj : List (String × J)) (deleted : List String)
    (hdk : DK di) (hent : ∀ p ∈ di, p.2.skey = p.1 ∧ p.2.isMapOp = true ∧ (mapEff obj p.2).isSome = true)
    (hdis : ∀ p ∈ di, hasKey p.1 newobj = false ∧ deleted.contains p.1 = false) :
    ∃ R, patchDict obj (di.map (·.2)) newobj deleted = .ok R ∧ SK R ∧ ∀ k, lookupKV k R =
      match lookupKV k di with
      | some e => (mapEff obj e).getD none
      | none => if hasKey k newobj then lookupKV k newobj
                else if deleted.contains k then none else lookupKV k obj := by
  induction di generalizing newobj deleted with
  | nil =>
    refine ⟨_, by rw [List.map_nil, patchDict], sortKV_sorted _, ?_⟩
    intro k
    have hun : DK (obj.filter (fun kv => !deleted.contains kv.1 && !hasKey kv.1 newobj)) :=
      List.Pairwise.filter _ hobj
    simp only [lookupKV_nil]
    rw [lookupKV_sortKV, List.reverse_append, List.reverse_reverse, lookupKV_append, lookupKV_reverse _ _ hun,
      lookupKV_filterKey (fun x => !deleted.contains x && !hasKey x newobj)]
    by_cases h1 : hasKey k newobj = true
    · simp [h1]
    · have h1' : hasKey k newobj = false := by simpa using h1
      have hn : lookupKV k newobj = none := by
        unfold hasKey at h1'
        cases h : lookupKV k newobj <;> simp_all
      by_cases h2 : deleted.contains k = true
      · simp [h1', h2, hn]
      · have h2' : deleted.contains k = false := by simpa using h2
        simp [h1', h2', hn]
  | cons p rest ih =>
    obtain ⟨key, e⟩ := p
    have hc := List.pairwise_cons.mp hdk
    obtain ⟨hsk, hmap, heff⟩ := hent (key, e) (by simp)
    obtain ⟨hnew, hdel⟩ := hdis (key, e) (by simp)
    simp only at hsk hmap heff hnew hdel
    have hdel' : key ∉ deleted := by simpa using hdel
    have hrest_ent : ∀ p ∈ rest, p.2.skey = p.1 ∧ p.2.isMapOp = true ∧ (mapEff obj p.2).isSome = true :=
      fun p hp => hent p (List.mem_cons_of_mem _ hp)
    have hne : ∀ p ∈ rest, key ≠ p.1 := fun p hp => hc.1 p hp
    have hlk : lookupKV key rest = none := by
      cases h : lookupKV key rest with
      | none => rfl
      | some e' => exact absurd rfl (hne (key, e') (lookupKV_mem key e' rest h))
    -- common shape of the three "the key gets a value" cases
    have setcase : ∀ v : J, mapEff obj e = some (some v) →
        (∃ R, patchDict obj (rest.map (·.2)) ((key, v) :: newobj) deleted = .ok R ∧ SK R ∧ ∀ k, lookupKV k R =
          match lookupKV k ((key, e) :: rest) with
          | some e => (mapEff obj e).getD none
          | none => if hasKey k newobj then lookupKV k newobj
                    else if deleted.contains k then none else lookupKV k obj) := by
      intro v hv
      obtain ⟨R, r1, r2, r3⟩ := ih ((key, v) :: newobj) deleted hc.2 hrest_ent (by
        intro p hp
        obtain ⟨a1, a2⟩ := hdis p (List.mem_cons_of_mem _ hp)
        refine ⟨?_, a2⟩
        rw [hasKey_cons]
        have : key ≠ p.1 := hne p hp
        simp [this, a1])
      refine ⟨R, r1, r2, ?_⟩
      intro k
      rw [r3 k]
      simp only [lookupKV_cons', hasKey_cons]
      by_cases hk : key = k
      · subst hk
        simp [hlk, hv]
      · have : (key == k) = false := by simpa using hk
        simp only [hk, if_false, this, Bool.false_or]
    cases e with
    | add k v =>
      simp only [Op.skey] at hsk; subst hsk
      simp only [mapEff] at heff
      have hko : hasKey k obj = false := by
        by_cases h : hasKey k obj = true
        · simp [h] at heff
        · simpa using h
      obtain ⟨R, r1, r2, r3⟩ := setcase v (by simp [mapEff, hko])
      refine ⟨R, ?_, r2, r3⟩
      simp only [List.map_cons]
      rw [patchDict]
      simp [Op.isMapOp, Op.skey, hnew, hko, r1]
    | remove k =>
      simp only [Op.skey] at hsk; subst hsk
      obtain ⟨R, r1, r2, r3⟩ := ih newobj (k :: deleted) hc.2 hrest_ent (by
        intro p hp
        obtain ⟨a1, a2⟩ := hdis p (List.mem_cons_of_mem _ hp)
        refine ⟨a1, ?_⟩
        have : k ≠ p.1 := hne p hp
        have hne' : (p.1 == k) = false := by simpa using (fun e => this e.symm)
        simp only [List.contains_cons, hne', Bool.false_or]
        exact a2)
      refine ⟨R, ?_, r2, ?_⟩
      · simp only [List.map_cons]
        rw [patchDict]
        simp [Op.isMapOp, Op.skey, hnew, r1]
      · intro k'
        rw [r3 k']
        simp only [lookupKV_cons']
        by_cases hk : k = k'
        · subst hk
          simp [hlk, mapEff, hnew]
        · have : (k' == k) = false := by simpa using (fun e => hk e.symm)
          simp only [hk, if_false, List.contains_cons, this, Bool.false_or]
    | replace k v =>
      simp only [Op.skey] at hsk; subst hsk
      obtain ⟨R, r1, r2, r3⟩ := setcase v (by simp [mapEff])
      refine ⟨R, ?_, r2, r3⟩
      simp only [List.map_cons]
      rw [patchDict]
      simp [Op.isMapOp, Op.skey, hnew, hdel', r1]
    | patchK k dd =>
      simp only [Op.skey] at hsk; subst hsk
      simp only [mapEff] at heff
      cases hl : lookupKV k obj with
      | none => simp [hl] at heff
      | some v0 =>
        simp only [hl] at heff
        cases hp : patch v0 dd with
        | error er => simp [hp] at heff
        | ok pv =>
          obtain ⟨R, r1, r2, r3⟩ := setcase pv (by simp [mapEff, hl, hp])
          refine ⟨R, ?_, r2, r3⟩
          simp only [List.map_cons]
          rw [patchDict]
          simp [Op.isMapOp, Op.skey, hnew, hdel', hl, hp, r1, bind, Except.bind]
    | addrange _ _ => simp [Op.isMapOp] at hmap
    | addchars _ _ => simp [Op.isMapOp] at hmap
    | removerange _ _ => simp [Op.isMapOp] at hmap
    | patchI _ _ => simp [Op.isMapOp] at hmap
    | invalid _ => simp [Op.isMapOp] at hmap

/-! ### the table `diff_dicts` builds -/

/-- every entry of the table is applicable to `a` and turns its key into what `b` holds there -/
def GoodT (a b : List (String × J)) (di : List (String × Op)) : Prop :=
  SK di ∧ ∀ k e, lookupKV k di = some e → e.skey = k ∧ e.isMapOp = true ∧ mapEff a e = some (lookupKV k b) ∧
    ((lookupKV k a).isSome = true ∨ (lookupKV k b).isSome = true)

/-- key `k` has been dealt with: no entry means `a` and `b` agree there -/
def Handled (a b : List (String × J)) (di : List (String × Op)) (k : String) : Prop :=
  lookupKV k di = none → lookupKV k a = lookupKV k b

theorem mapAppend_good (a b : List (String × J)) (di di' : List (String × Op)) (e : Op)
    (hg : GoodT a b di) (heff : mapEff a e = some (lookupKV e.skey b))
    (hin : (lookupKV e.skey a).isSome = true ∨ (lookupKV e.skey b).isSome = true)
    (h : mapAppend di e = .ok di') :
    GoodT a b di' ∧ lookupKV e.skey di' = some e ∧ ∀ k, k ≠ e.skey → lookupKV k di' = lookupKV k di := by
  unfold mapAppend at h
  by_cases h1 : e.isMapOp = true
  · by_cases h2 : hasKey e.skey di = true
    · simp [h1, h2] at h
    · simp only [h1, h2, Bool.not_true, Bool.false_eq_true, if_false, Except.ok.injEq] at h
      subst h
      refine ⟨⟨insertKV_sorted _ _ _ hg.1, ?_⟩, by simp [lookupKV_insertKV], fun k hk => by simp [lookupKV_insertKV, hk]⟩
      intro k e' hl
      rw [lookupKV_insertKV] at hl
      by_cases hk : k = e.skey
      · simp only [hk, if_true, Option.some.injEq] at hl
        subst hl
        exact ⟨hk.symm, h1, by rw [hk]; exact heff, by rw [hk]; exact hin⟩
      · simp only [hk, if_false] at hl
        exact hg.2 k e' hl
  · simp [h1] at h

theorem Handled.of_some {a b : List (String × J)} {di : List (String × Op)} {k : String} {e : Op}
    (h : lookupKV k di = some e) : Handled a b di k := by
  intro hn; rw [h] at hn; cases hn

theorem Handled.insert {a b : List (String × J)} {di di' : List (String × Op)} {k : String} (key : String)
    (h : Handled a b di k) (hother : ∀ k', k' ≠ key → lookupKV k' di' = lookupKV k' di)
    (hkey : (lookupKV key di').isSome = true) : Handled a b di' k := by
  intro hn
  by_cases hk : k = key
  · subst hk; rw [hn] at hkey; simp at hkey
  · exact h (by rw [← hother k hk]; exact hn)

/-- a fold in `Except` that keeps an invariant, handles its own element and never un-handles another -/
theorem foldlM_handled {σ : Type} (f : σ → String → Except Err σ) (P : σ → Prop) (H : σ → String → Prop)
    (l : List String) (C : String → Prop) (hC : ∀ x ∈ l, C x)
    (hstep : ∀ s x s', C x → P s → f s x = .ok s' → P s' ∧ H s' x ∧ ∀ k, H s k → H s' k)
    (s0 s : σ) (hP : P s0) (h : l.foldlM f s0 = .ok s) :
    P s ∧ (∀ x ∈ l, H s x) ∧ ∀ k, H s0 k → H s k := by
  induction l generalizing s0 with
  | nil =>
    simp only [List.foldlM_nil, pure, Except.pure, Except.ok.injEq] at h
    subst h
    exact ⟨hP, fun x hx => absurd hx (by simp), fun k hk => hk⟩
  | cons x rest ih =>
    simp only [List.foldlM_cons, bind, Except.bind] at h
    cases hf : f s0 x with
    | error e => simp [hf] at h
    | ok s1 =>
      simp only [hf] at h
      obtain ⟨p1, p2, p3⟩ := hstep s0 x s1 (hC x (by simp)) hP hf
      obtain ⟨q1, q2, q3⟩ := ih (fun y hy => hC y (List.mem_cons_of_mem _ hy)) s1 p1 h
      refine ⟨q1, ?_, fun k hk => q3 k (p3 k hk)⟩
      intro y hy
      simp only [List.mem_cons] at hy
      rcases hy with rfl | hy
      · exact q3 _ p2
      · exact q2 y hy

theorem mem_insertStr (k x : String) (l : List String) : x ∈ insertStr k l ↔ x = k ∨ x ∈ l := by
  induction l with
  | nil => simp [insertStr]
  | cons y rest ih =>
    simp only [insertStr]
    split
    · simp
    · split
      · rename_i heq
        have : y = k := by simpa using heq
        subst this
        simp
      · simp only [List.mem_cons, ih]
        constructor
        · rintro (h | h | h)
          · exact Or.inr (Or.inl h)
          · exact Or.inl h
          · exact Or.inr (Or.inr h)
        · rintro (h | h | h)
          · exact Or.inr (Or.inl h)
          · exact Or.inl h
          · exact Or.inr (Or.inr h)

theorem mem_sortStrs (x : String) (l : List String) : x ∈ sortStrs l ↔ x ∈ l := by
  unfold sortStrs
  suffices ∀ acc : List String, x ∈ l.foldl (fun acc k => insertStr k acc) acc ↔ x ∈ l ∨ x ∈ acc by
    simpa using this []
  induction l with
  | nil => intro acc; simp
  | cons y rest ih =>
    intro acc
    simp only [List.foldl_cons, ih, mem_insertStr, List.mem_cons]
    constructor
    · rintro (h | h | h)
      · exact Or.inl (Or.inr h)
      · exact Or.inl (Or.inl h)
      · exact Or.inr h
    · rintro ((h | h) | h)
      · exact Or.inr (Or.inl h)
      · exact Or.inl h
      · exact Or.inr (Or.inr h)

theorem mem_keys_iff {α} (k : String) (l : List (String × α)) :
    k ∈ l.map (·.1) ↔ (lookupKV k l).isSome = true := by
  induction l with
  | nil => simp [lookupKV]
  | cons x rest ih =>
    obtain ⟨a, b⟩ := x
    simp only [List.map_cons, List.mem_cons, lookupKV_cons', ih]
    by_cases h : a = k
    · simp [h]
    · have : ¬ k = a := fun e => h e.symm
      simp [h, this]

theorem contains_keys_iff {α} (k : String) (l : List (String × α)) :
    (l.map (·.1)).contains k = (lookupKV k l).isSome := by
  have := mem_keys_iff k l
  cases h : (lookupKV k l).isSome
  · have : k ∉ l.map (·.1) := fun hm => by rw [this.mp hm] at h; cases h
    simpa using this
  · have : k ∈ l.map (·.1) := this.mpr h
    simpa using this

/-- the differ used on the values of common keys is sound -/
def DictRecOK (recur : Recur) (cfg : Cfg) (path : String) (a b : List (String × J)) : Prop :=
  ∀ k av bv dd, lookupKV k a = some av → lookupKV k b = some bv →
    recur cfg (cfg.differ (path ++ "/" ++ k)) (path ++ "/" ++ k) av bv = .ok dd →
    patch av dd = .ok bv ∧ (dd = [] → av = bv)

/-- Python `==` on the values of common keys implies equality -/
def PyStrict (a b : List (String × J)) : Prop :=
  ∀ k av bv, lookupKV k a = some av → lookupKV k b = some bv → J.pyEq av bv = true → av = bv

theorem dictBothStep_good (recur : Recur) (cfg : Cfg) (path : String) (a b : List (String × J))
    (hrec : DictRecOK recur cfg path a b) (hpy : PyStrict a b)
    (di di' : List (String × Op)) (k : String) (av bv : J)
    (ha : lookupKV k a = some av) (hb : lookupKV k b = some bv) (hg : GoodT a b di)
    (h : dictBothStep recur cfg path a b di k = .ok di') :
    GoodT a b di' ∧ Handled a b di' k ∧ ∀ k', Handled a b di k' → Handled a b di' k' := by
  unfold dictBothStep at h
  simp only [ha, hb, Option.getD_some] at h
  have same : GoodT a b di ∧ (av = bv → Handled a b di k) ∧ ∀ k', Handled a b di k' → Handled a b di k' :=
    ⟨hg, fun e _ => by rw [ha, hb, e], fun _ h => h⟩
  have appended : ∀ e : Op, e.skey = k → mapEff a e = some (some bv) → mapAppend di e = .ok di' →
      GoodT a b di' ∧ Handled a b di' k ∧ ∀ k', Handled a b di k' → Handled a b di' k' := by
    intro e hek heff hm
    obtain ⟨g1, g2, g3⟩ := mapAppend_good a b di di' e hg (by rw [hek, hb]; exact heff)
      (by rw [hek, ha]; exact Or.inl rfl) hm
    rw [hek] at g2 g3
    exact ⟨g1, Handled.of_some g2, fun k' hk' => hk'.insert k g3 (by rw [g2]; rfl)⟩
  split at h
  · -- recurse
    simp only [bind, Except.bind] at h
    cases hr : recur cfg (cfg.differ (path ++ "/" ++ k)) (path ++ "/" ++ k) av bv with
    | error e => simp [hr] at h
    | ok dd =>
      simp only [hr] at h
      obtain ⟨hp, hnil⟩ := hrec k av bv dd ha hb hr
      unfold mapPatch at h
      by_cases hemp : dd.isEmpty = true
      · simp only [hemp, if_true, Except.ok.injEq] at h
        subst h
        exact ⟨same.1, same.2.1 (hnil (by simpa using hemp)), same.2.2⟩
      · simp only [hemp, Bool.false_eq_true, if_false] at h
        exact appended (.patchK k dd) rfl (by simp [mapEff, ha, hp]) h
  · split at h
    · cases h
    · split at h
      · exact appended (.replace k bv) rfl (by simp [mapEff]) h
      · rename_i hne
        simp only [pure, Except.pure, Except.ok.injEq] at h
        subst h
        have : J.pyEq av bv = true := by simpa using hne
        exact ⟨same.1, same.2.1 (hpy k av bv ha hb this), same.2.2⟩

theorem not_mem_keys_of_none {α} (k : String) (l : List (String × α)) (h : lookupKV k l = none) :
    k ∉ l.map (·.1) := by
  intro hm
  have := (mem_keys_iff k l).mp hm
  rw [h] at this; cases this

theorem none_of_not_mem_keys {α} (k : String) (l : List (String × α)) (h : k ∉ l.map (·.1)) :
    lookupKV k l = none := by
  cases hl : lookupKV k l with
  | none => rfl
  | some v => exact absurd ((mem_keys_iff k l).mpr (by rw [hl]; rfl)) h

theorem isSome_false {α} {o : Option α} (h : o.isSome = false) : o = none := by
  cases o <;> simp_all

/-- applying a good table in which every key of `a` or `b` is handled rebuilds `b` -/
theorem table_apply (a b : List (String × J)) (ha : SK a) (hb : SK b) (di : List (String × Op))
    (hg : GoodT a b di) (hall : ∀ k, lookupKV k di = none → lookupKV k a = lookupKV k b) :
    patchDict a (mapValidated di) [] [] = .ok b := by
  obtain ⟨R, r1, r2, r3⟩ := patchDict_table a ha.dk di [] [] hg.1.dk
    (by
      intro p hp
      obtain ⟨k, e⟩ := p
      have hl := lookupKV_of_mem k e di hg.1.dk hp
      obtain ⟨e1, e2, e3, _⟩ := hg.2 k e hl
      exact ⟨e1, e2, by rw [e3]; rfl⟩)
    (by intro p _; exact ⟨rfl, rfl⟩)
  unfold mapValidated
  rw [r1]
  congr 1
  apply sk_ext R b r2 hb
  intro k
  rw [r3 k]
  cases hl : lookupKV k di with
  | none =>
    simp only [hasKey, lookupKV_nil, Option.isSome_none, Bool.false_eq_true, if_false, List.contains_nil]
    exact hall k hl
  | some e =>
    obtain ⟨_, _, e3, _⟩ := hg.2 k e hl
    simp [e3]

/-- the three key classes of `diff_dicts` / `diff_mime_bundle` / `diff_attachments` -/
structure KeyClasses (a b : List (String × J)) (rem both add : List String) : Prop where
  rem_sound : ∀ x ∈ rem, (lookupKV x a).isSome = true ∧ lookupKV x b = none
  both_sound : ∀ x ∈ both, (lookupKV x a).isSome = true ∧ (lookupKV x b).isSome = true
  add_sound : ∀ x ∈ add, lookupKV x a = none ∧ (lookupKV x b).isSome = true
  rem_complete : ∀ k, (lookupKV k a).isSome = true → lookupKV k b = none → k ∈ rem
  both_complete : ∀ k, (lookupKV k a).isSome = true → (lookupKV k b).isSome = true → k ∈ both
  add_complete : ∀ k, lookupKV k a = none → (lookupKV k b).isSome = true → k ∈ add

theorem listDiffKeys_spec (a b : List (String × J)) :
    KeyClasses a b (listDiffKeys a b).1 (listDiffKeys a b).2.1 (listDiffKeys a b).2.2 := by
  unfold listDiffKeys
  constructor
  · intro x hx
    simp only [mem_sortStrs, List.mem_filter, Bool.not_eq_true', contains_keys_iff] at hx
    exact ⟨(mem_keys_iff x a).mp hx.1, isSome_false hx.2⟩
  · intro x hx
    simp only [mem_sortStrs, List.mem_filter, contains_keys_iff] at hx
    exact ⟨(mem_keys_iff x a).mp hx.1, hx.2⟩
  · intro x hx
    simp only [mem_sortStrs, List.mem_filter, Bool.not_eq_true', contains_keys_iff] at hx
    exact ⟨isSome_false hx.2, (mem_keys_iff x b).mp hx.1⟩
  · intro k h1 h2
    simp only [mem_sortStrs, List.mem_filter, Bool.not_eq_true', contains_keys_iff]
    exact ⟨(mem_keys_iff k a).mpr h1, by rw [h2]; rfl⟩
  · intro k h1 h2
    simp only [mem_sortStrs, List.mem_filter, contains_keys_iff]
    exact ⟨(mem_keys_iff k a).mpr h1, h2⟩
  · intro k h1 h2
    simp only [mem_sortStrs, List.mem_filter, Bool.not_eq_true', contains_keys_iff]
    exact ⟨(mem_keys_iff k b).mpr h2, by rw [h1]; rfl⟩

/-- what the step for a common key must guarantee -/
def BothStepOK (a b : List (String × J)) (F : List (String × Op) → String → Except Err (List (String × Op))) : Prop :=
  ∀ s x s' av bv, lookupKV x a = some av → lookupKV x b = some bv → GoodT a b s → F s x = .ok s' →
    GoodT a b s' ∧ Handled a b s' x ∧ ∀ k', Handled a b s k' → Handled a b s' k'

/-- the three folds (removed keys, common keys through `F`, added keys): a good table in which every key of
    `a` or `b` is handled -/
theorem threeFold_table (a b : List (String × J)) (rem both add : List String) (hk : KeyClasses a b rem both add)
    (F : List (String × Op) → String → Except Err (List (String × Op))) (hF : BothStepOK a b F)
    (di1 di2 di3 : List (String × Op))
    (h1 : rem.foldlM (fun di k => mapAppend di (.remove k)) ([] : List (String × Op)) = .ok di1)
    (h2 : both.foldlM F di1 = .ok di2)
    (h3 : add.foldlM (fun di k => mapAppend di (.add k ((lookupKV k b).getD .null))) di2 = .ok di3) :
    GoodT a b di3 ∧ ∀ k, lookupKV k di3 = none → lookupKV k a = lookupKV k b := by
  have g0 : GoodT a b [] := ⟨by simp [SK], fun k e hl => by simp [lookupKV] at hl⟩
  obtain ⟨g1, hd1, _⟩ := foldlM_handled (fun di k => mapAppend di (.remove k)) (GoodT a b) (Handled a b) rem
    (fun k => (lookupKV k a).isSome = true ∧ lookupKV k b = none) hk.rem_sound
    (by
      intro s x s' hc hP hf
      obtain ⟨g1, g2, g3⟩ := mapAppend_good a b s s' (.remove x) hP (by simp [mapEff, Op.skey, hc.2])
        (Or.inl hc.1) hf
      simp only [Op.skey] at g2 g3
      exact ⟨g1, Handled.of_some g2, fun k hk => hk.insert x g3 (by rw [g2]; rfl)⟩)
    [] di1 g0 h1
  obtain ⟨g2, hd2, keep2⟩ := foldlM_handled F (GoodT a b) (Handled a b) both
    (fun k => (lookupKV k a).isSome = true ∧ (lookupKV k b).isSome = true) hk.both_sound
    (by
      intro s x s' hc hP hf
      obtain ⟨c1, c2⟩ := hc
      cases hla : lookupKV x a with
      | none => rw [hla] at c1; cases c1
      | some av =>
        cases hlb : lookupKV x b with
        | none => rw [hlb] at c2; cases c2
        | some bv => exact hF s x s' av bv hla hlb hP hf)
    di1 di2 g1 h2
  obtain ⟨g3, hd3, keep3⟩ := foldlM_handled (fun di k => mapAppend di (.add k ((lookupKV k b).getD .null)))
    (GoodT a b) (Handled a b) add
    (fun k => lookupKV k a = none ∧ (lookupKV k b).isSome = true) hk.add_sound
    (by
      intro s x s' hc hP hf
      obtain ⟨c1, c2⟩ := hc
      cases hlb : lookupKV x b with
      | none => rw [hlb] at c2; cases c2
      | some bv =>
        rw [hlb] at hf
        simp only [Option.getD_some] at hf
        have hk' : hasKey x a = false := by simp [hasKey, c1]
        obtain ⟨g1, g2, g3⟩ := mapAppend_good a b s s' (.add x bv) hP (by simp [mapEff, Op.skey, hk', hlb])
          (Or.inr (by simp [Op.skey, hlb])) hf
        simp only [Op.skey] at g2 g3
        exact ⟨g1, Handled.of_some g2, fun k hk => hk.insert x g3 (by rw [g2]; rfl)⟩)
    di2 di3 g2 h3
  refine ⟨g3, ?_⟩
  intro k hn
  cases hla : lookupKV k a with
  | none =>
    cases hlb : lookupKV k b with
    | none => rfl
    | some bv =>
      have := hd3 k (hk.add_complete k hla (by rw [hlb]; rfl)) hn
      rw [hla, hlb] at this; exact this
  | some av =>
    cases hlb : lookupKV k b with
    | none =>
      have := keep3 k (keep2 k (hd1 k (hk.rem_complete k (by rw [hla]; rfl) hlb))) hn
      rw [hla, hlb] at this; exact this
    | some bv =>
      have := keep3 k (hd2 k (hk.both_complete k (by rw [hla]; rfl) (by rw [hlb]; rfl))) hn
      rw [hla, hlb] at this; exact this

/-- the table `diff_dicts` returns: good, and every key of `a` or `b` handled -/
theorem diffDicts_table (recur : Recur) (cfg : Cfg) (path : String) (a b : List (String × J))
    (hrec : DictRecOK recur cfg path a b) (hpy : PyStrict a b)
    (d : List Op) (h : diffDicts recur cfg path a b = .ok d) :
    ∃ di, d = mapValidated di ∧ GoodT a b di ∧ ∀ k, lookupKV k di = none → lookupKV k a = lookupKV k b := by
  unfold diffDicts at h
  have hk := listDiffKeys_spec a b
  generalize listDiffKeys a b = t at h hk
  obtain ⟨rem, both, add⟩ := t
  simp only [bind, Except.bind, pure, Except.pure] at h hk
  split at h
  · cases h
  · rename_i di1 h1
    split at h
    · cases h
    · rename_i di2 h2
      split at h
      · cases h
      · rename_i di3 h3
        simp only [Except.ok.injEq] at h
        subst h
        obtain ⟨g, hall⟩ := threeFold_table a b rem both add hk (dictBothStep recur cfg path a b)
          (fun s x s' av bv ha hb hg hf => dictBothStep_good recur cfg path a b hrec hpy s s' x av bv ha hb hg hf)
          di1 di2 di3 h1 h2 h3
        exact ⟨di3, rfl, g, hall⟩

theorem diffDicts_roundtrip (recur : Recur) (cfg : Cfg) (path : String) (a b : List (String × J))
    (ha : SK a) (hb : SK b) (hrec : DictRecOK recur cfg path a b) (hpy : PyStrict a b)
    (d : List Op) (h : diffDicts recur cfg path a b = .ok d) : patchDict a d [] [] = .ok b := by
  obtain ⟨di, rfl, hg, hall⟩ := diffDicts_table recur cfg path a b hrec hpy d h
  exact table_apply a b ha hb di hg hall

end Nbdime
