import NbdimeProofs.Lemmas.RoundtripAll
import NbdimeProofs.Lemmas.MergeLaws
/-
  C11 for the model of the generic differ: every produced diff is well-formed (`wf`) for its base
  document.  The list / line / character levels reuse the constructions of the round-trip
  development (`BuiltM`, `CharSt`), which carry the syntactic discipline `Strict`; the object level
  re-runs the three folds of `diff_dicts` with the table invariant `TableW`.
-/
namespace Nbdime
open Nbdime.Abs


theorem chainOK_tail {e : Op} {es : List Op} (h : ChainOK (e :: es)) : ChainOK es := by
  cases es with
  | nil => trivial
  | cons x xs => exact h.2

theorem chainOK_head {e x : Op} {xs : List Op} (h : ChainOK (e :: x :: xs)) : stepOK e x := h.1

/-- the first entry after an insertion at `k` is not another insertion at `k` -/
theorem next_after_add {e : Op} {es : List Op} (hadd : e.isAdd = true) (h : ChainOK (e :: es)) :
    ∀ x ∈ es.head?, x.isAdd = true → e.idx < x.idx := by
  intro x hx hxa
  cases es with
  | nil => simp at hx
  | cons y ys =>
    simp only [List.head?_cons, Option.mem_def, Option.some.injEq] at hx
    subst hx
    rcases h.1 with h1 | ⟨_, _, h3⟩
    · exact h1
    · rw [hxa] at h3; cases h3

theorem wfList_aux {P : J → List Op → J → Prop}
    (hP : ∀ v dd new, P v dd new → dd ≠ [] → v.isContainer = true ∧ wf v dd = true) (A : List J) :
    ∀ (di : List Op) (pops : List (POp J)), Denotes P A di pops → ∀ (lo : Nat) (added : Option Nat),
      ChainFrom A.length lo pops → (∀ e ∈ di, okEntry e = true) → ChainOK di →
      (∀ k, added = some k → ∀ e ∈ di.head?, e.isAdd = true → k < e.idx) → wfList A di lo added = true := by
  intro di pops hd
  induction hd with
  | nil => intro lo added _ _ _ _; rw [wfList]
  | add k vs _ ih =>
    intro lo added hc hok hch hadd
    obtain ⟨c1, c2, c3⟩ := hc
    simp only [POp.key, POp.eat, Nat.add_zero] at c1 c2 c3
    have hv := hok (.addrange k vs) List.mem_cons_self
    simp only [okEntry] at hv
    rw [wfList]
    have hne : (added != some k) = true := by
      cases added with
      | none => rfl
      | some k' =>
        have := hadd k' rfl (.addrange k vs) (by simp) rfl
        simp only [Op.idx] at this
        simp; omega
    simp only [c1, c2, hv, hne, decide_true, Bool.and_self, Bool.true_and]
    exact ih k (some k) c3 (fun e he => hok e (List.mem_cons_of_mem _ he)) (chainOK_tail hch)
      (fun k' hk' => by cases hk'; exact next_after_add (e := .addrange k vs) rfl hch)
  | rem k n _ ih =>
    intro lo added hc hok hch _
    obtain ⟨c1, c2, c3⟩ := hc
    simp only [POp.key, POp.eat] at c1 c2 c3
    have hv := hok (.removerange k n) List.mem_cons_self
    simp only [okEntry, decide_eq_true_eq] at hv
    rw [wfList]
    simp only [c1, c2, hv, decide_true, Bool.and_self, Bool.true_and]
    exact ih (k + n) none c3 (fun e he => hok e (List.mem_cons_of_mem _ he)) (chainOK_tail hch)
      (fun k' hk' => by cases hk')
  | pat k dd v new hv hp _ ih =>
    intro lo added hc hok hch _
    obtain ⟨c1, c2, c3⟩ := hc
    simp only [POp.key, POp.eat] at c1 c2 c3
    have hne := hok (.patchI k dd) List.mem_cons_self
    simp only [okEntry] at hne
    have hdd : dd ≠ [] := by intro h; subst h; simp at hne
    obtain ⟨w1, w2⟩ := hP v dd new hp hdd
    rw [wfList]
    simp only [c1, hne, hv, w1, w2, decide_true, Bool.and_self, Bool.true_and]
    exact ih (k + 1) none c3 (fun e he => hok e (List.mem_cons_of_mem _ he)) (chainOK_tail hch)
      (fun k' hk' => by cases hk')

/-- a finished list construction is well-formed for its base list -/
theorem wfList_of_built {P : J → List Op → J → Prop}
    (hP : ∀ v dd new, P v dd new → dd ≠ [] → v.isContainer = true ∧ wf v dd = true)
    {A B : List J} {di : List Op} {kb : Nat} (h : BuiltM P A B di A.length B.length kb) :
    wfList A di 0 none = true := by
  obtain ⟨pops, h1, h2, _, h4⟩ := h.done_strict
  exact wfList_aux hP A di pops h1 0 none h2 h4.1 h4.2 (fun k hk => by cases hk)

/-- character level: a chain of character entries is well-formed for a line of length `n` -/
theorem wfChars_aux (n : Nat) : ∀ (cops : List (POp Char)) (lo : Nat) (added : Option Nat),
    NoPat cops → ChainFrom n lo cops → (∀ e ∈ cops.map toOpC, okEntry e = true) → ChainOK (cops.map toOpC) →
    (∀ k, added = some k → ∀ e ∈ (cops.map toOpC).head?, e.isAdd = true → k < e.idx) →
    wfChars n (cops.map toOpC) lo added = true
  | [], lo, added, _, _, _, _, _ => by simp [wfChars]
  | c :: cs, lo, added, hnp, hc, hok, hch, hadd => by
      obtain ⟨c1, c2, c3⟩ := hc
      have hnp' : NoPat cs := fun e he => hnp e (List.mem_cons_of_mem _ he)
      have hok' : ∀ e ∈ cs.map toOpC, okEntry e = true := fun e he => hok e (by simp only [List.map_cons]; exact List.mem_cons_of_mem _ he)
      cases c with
      | add k vs =>
        simp only [POp.key, POp.eat, Nat.add_zero] at c1 c2 c3
        have hv := hok (.addchars k vs) (by simp [toOpC])
        simp only [okEntry] at hv
        have hne : (added != some k) = true := by
          cases added with
          | none => rfl
          | some k' =>
            have := hadd k' rfl (.addchars k vs) (by simp [toOpC]) rfl
            simp only [Op.idx] at this
            simp; omega
        simp only [List.map_cons, toOpC, wfChars, c1, c2, hv, hne, decide_true, Bool.and_self, Bool.true_and]
        exact wfChars_aux n cs k (some k) hnp' c3 hok' (chainOK_tail (by simpa [toOpC] using hch))
          (fun k' hk' => by
            cases hk'
            exact next_after_add (e := .addchars k vs) rfl (by simpa [toOpC] using hch))
      | rem k m =>
        simp only [POp.key, POp.eat] at c1 c2 c3
        have hv := hok (.removerange k m) (by simp [toOpC])
        simp only [okEntry, decide_eq_true_eq] at hv
        simp only [List.map_cons, toOpC, wfChars, c1, c2, hv, decide_true, Bool.and_self, Bool.true_and]
        exact wfChars_aux n cs (k + m) none hnp' c3 hok' (chainOK_tail (by simpa [toOpC] using hch))
          (fun k' hk' => by cases hk')
      | pat k v =>
        have := hnp (.pat k v) List.mem_cons_self
        simp [POp.isPat] at this

theorem allStr_of_forall : ∀ (vs : List J), (∀ x ∈ vs, ∃ c, x = J.str c) → allStr vs = true
  | [], _ => rfl
  | v :: vs, h => by
      obtain ⟨c, rfl⟩ := h v List.mem_cons_self
      simp only [allStr]
      exact allStr_of_forall vs (fun x hx => h x (List.mem_cons_of_mem _ hx))

/-- line level -/
theorem wfLines_aux {P : J → List Op → J → Prop}
    (hP : ∀ l dd new, P (J.str l) dd new → dd ≠ [] → wfChars l.length dd 0 none = true) (ls : List (List Char)) :
    ∀ (di : List Op) (pops : List (POp J)), Denotes P (ls.map J.str) di pops → ∀ (lo : Nat) (added : Option Nat),
      ChainFrom ls.length lo pops → (∀ e ∈ di, okEntry e = true) → ChainOK di →
      (∀ k vs, Op.addrange k vs ∈ di → allStr vs = true) →
      (∀ k, added = some k → ∀ e ∈ di.head?, e.isAdd = true → k < e.idx) → wfLines ls di lo added = true := by
  intro di pops hd
  induction hd with
  | nil => intro lo added _ _ _ _ _; rw [wfLines]
  | add k vs _ ih =>
    intro lo added hc hok hch hstr hadd
    obtain ⟨c1, c2, c3⟩ := hc
    simp only [POp.key, POp.eat, Nat.add_zero] at c1 c2 c3
    have hv := hok (.addrange k vs) List.mem_cons_self
    simp only [okEntry] at hv
    have hs := hstr k vs List.mem_cons_self
    rw [wfLines]
    have hne : (added != some k) = true := by
      cases added with
      | none => rfl
      | some k' =>
        have := hadd k' rfl (.addrange k vs) (by simp) rfl
        simp only [Op.idx] at this
        simp; omega
    simp only [c1, c2, hv, hs, hne, decide_true, Bool.and_self, Bool.true_and]
    exact ih k (some k) c3 (fun e he => hok e (List.mem_cons_of_mem _ he)) (chainOK_tail hch)
      (fun k' vs' h' => hstr k' vs' (List.mem_cons_of_mem _ h'))
      (fun k' hk' => by cases hk'; exact next_after_add (e := .addrange k vs) rfl hch)
  | rem k n _ ih =>
    intro lo added hc hok hch hstr _
    obtain ⟨c1, c2, c3⟩ := hc
    simp only [POp.key, POp.eat] at c1 c2 c3
    have hv := hok (.removerange k n) List.mem_cons_self
    simp only [okEntry, decide_eq_true_eq] at hv
    rw [wfLines]
    simp only [c1, c2, hv, decide_true, Bool.and_self, Bool.true_and]
    exact ih (k + n) none c3 (fun e he => hok e (List.mem_cons_of_mem _ he)) (chainOK_tail hch)
      (fun k' vs' h' => hstr k' vs' (List.mem_cons_of_mem _ h')) (fun k' hk' => by cases hk')
  | pat k dd v new hv hp _ ih =>
    intro lo added hc hok hch hstr _
    obtain ⟨c1, c2, c3⟩ := hc
    simp only [POp.key, POp.eat] at c1 c2 c3
    have hne := hok (.patchI k dd) List.mem_cons_self
    simp only [okEntry] at hne
    have hdd : dd ≠ [] := by intro h; subst h; simp at hne
    simp only [List.getElem?_map] at hv
    cases hl : ls[k]? with
    | none => simp [hl] at hv
    | some l =>
      simp only [hl, Option.map_some, Option.some.injEq] at hv
      subst hv
      have w := hP l dd new hp hdd
      rw [wfLines]
      simp only [c1, hne, hl, w, decide_true, Bool.and_self, Bool.true_and]
      exact ih (k + 1) none c3 (fun e he => hok e (List.mem_cons_of_mem _ he)) (chainOK_tail hch)
        (fun k' vs' h' => hstr k' vs' (List.mem_cons_of_mem _ h')) (fun k' hk' => by cases hk')

/-- the line relation with the syntactic discipline of the character entries -/
def CharRelS : J → List Op → J → Prop := fun v dd new => CharRel v dd new ∧ Strict dd

theorem itemOK_linesS (O : Oracle) (hO : OracleOK O) (fuel : Nat) (la lb : List (List Char)) :
    ItemOK CharRelS (diffAt O fuel) linesCfg .stringsByChar ("" ++ "/*") (la.map J.str) (lb.map J.str) := by
  intro i j hi hj cd h
  simp only [List.getElem_map] at h ⊢
  cases fuel with
  | zero => simp [diffAt] at h
  | succ f =>
    simp only [diffAt] at h
    obtain ⟨cops, c1, c2, c3, c4, c5⟩ := diffStringsByChar_ok O hO _ _ cd h
    refine ⟨⟨⟨_, _, cops, rfl, rfl, c1, c2, c3, c4⟩, c5⟩, ?_⟩
    intro hnil
    subst hnil
    have : cops = [] := by
      cases cops with
      | nil => rfl
      | cons e es => simp at c2
    subst this
    simp only [pf, List.drop_zero] at c4
    rw [c4]

theorem denotes_add_mem {P : J → List Op → J → Prop} {A : List J} {di : List Op} {pops : List (POp J)}
    (hd : Denotes P A di pops) : ∀ k vs, Op.addrange k vs ∈ di → POp.add k vs ∈ pops := by
  induction hd with
  | nil => intro k vs h; cases h
  | add k0 vs0 _ ih =>
    intro k vs h
    simp only [List.mem_cons, Op.addrange.injEq] at h
    rcases h with ⟨rfl, rfl⟩ | h
    · exact List.mem_cons_self
    · exact List.mem_cons_of_mem _ (ih k vs h)
  | rem k0 n _ ih =>
    intro k vs h
    simp only [List.mem_cons] at h
    rcases h with h | h
    · cases h
    · exact List.mem_cons_of_mem _ (ih k vs h)
  | pat k0 dd v new _ _ _ ih =>
    intro k vs h
    simp only [List.mem_cons] at h
    rcases h with h | h
    · cases h
    · exact List.mem_cons_of_mem _ (ih k vs h)

/-- `diff_strings_linewise` produces a diff that is well-formed for the base string -/
theorem stringsLinewise_wf (O : Oracle) (hO : OracleOK O) (fuel : Nat) (sa sb : List Char) (d : List Op)
    (h : stringsLinewise O (diffAt O fuel) sa sb = .ok d) : wfLines (splitLines sa) d 0 none = true := by
  unfold stringsLinewise at h
  by_cases hab : (sa == sb) = true
  · simp only [hab, if_true, Except.ok.injEq] at h
    subst h
    rw [wfLines]
  · simp only [hab, Bool.false_eq_true, if_false] at h
    have hml : diffLists O (diffAt O fuel) linesCfg "" ((splitLines sa).map J.str) ((splitLines sb).map J.str) =
        multilevel O (diffAt O fuel) linesCfg "" ((splitLines sa).map J.str) ((splitLines sb).map J.str) := by
      unfold diffLists
      simp [linesCfg, Cfg.preds, lookupKV, orSlash]
    rw [hml] at h
    obtain ⟨kb, hb⟩ := multilevel_built (P := CharRelS) O (diffAt O fuel) linesCfg "" _ _
      (by
        have : linesCfg.differ ("" ++ "/*") = .stringsByChar := by simp [linesCfg, Cfg.differ, lookupKV]
        rw [this]
        exact itemOK_linesS O hO fuel (splitLines sa) (splitLines sb)) d h
    obtain ⟨pops, p1, p2, p3, p4⟩ := hb.done_strict
    simp only [List.length_map] at p2
    refine wfLines_aux (P := CharRelS) ?_ (splitLines sa) d pops p1 0 none p2 p4.1 p4.2 ?_ (fun k hk => by cases hk)
    · intro l dd new hp hne
      obtain ⟨⟨a, b, cops, e1, _, c1, c2, c3, _⟩, hs⟩ := hp
      cases e1
      subst c2
      exact wfChars_aux l.length cops 0 none c1 c3 hs.1 hs.2 (fun k hk => by cases hk)
    · intro k vs hmem
      apply allStr_of_forall
      intro x hx
      have := mem_pf_of_out pops 0 ((splitLines sa).map J.str) (.add k vs) (denotes_add_mem p1 k vs hmem) x hx
      rw [p3] at this
      obtain ⟨l, _, rfl⟩ := List.mem_map.mp this
      exact ⟨l, rfl⟩


/-- one entry of a mapping diff is applicable to `a` and, if a patch, well-formed for the value it patches -/
def entryOK (a : List (String × J)) : Op → Prop
  | .add k _ => hasKey k a = false
  | .remove k => hasKey k a = true
  | .replace k _ => hasKey k a = true
  | .patchK k dd => dd ≠ [] ∧ ∃ v, lookupKV k a = some v ∧ v.isContainer = true ∧ wf v dd = true
  | _ => False

/-- the table a mapping differ builds: sorted, every entry keyed by its own key, applicable to `a`, and on a key
    of `a` or `b` -/
def TableW (a b : List (String × J)) (di : List (String × Op)) : Prop :=
  SK di ∧ ∀ k e, lookupKV k di = some e → e.skey = k ∧ entryOK a e ∧
    ((lookupKV k a).isSome = true ∨ (lookupKV k b).isSome = true)

theorem TableW.nil (a b : List (String × J)) : TableW a b [] :=
  ⟨List.Pairwise.nil, fun k e h => by simp [lookupKV] at h⟩

theorem mapAppend_W {a b : List (String × J)} {di di' : List (String × Op)} {e : Op}
    (hw : TableW a b di) (he : entryOK a e)
    (hin : (lookupKV e.skey a).isSome = true ∨ (lookupKV e.skey b).isSome = true)
    (h : mapAppend di e = .ok di') : TableW a b di' := by
  unfold mapAppend at h
  split at h
  · cases h
  · split at h
    · cases h
    · simp only [Except.ok.injEq] at h
      subst h
      refine ⟨insertKV_sorted _ _ _ hw.1, ?_⟩
      intro k e' hl
      rw [lookupKV_insertKV] at hl
      by_cases hk : k = e.skey
      · simp only [hk, if_true, Option.some.injEq] at hl
        subst hl
        exact ⟨hk.symm, he, by rw [hk]; exact hin⟩
      · simp only [hk, if_false] at hl
        exact hw.2 k e' hl

/-- `mapPatch` with a sub-diff that is well-formed for the value under the key -/
theorem mapPatch_W {a b : List (String × J)} {di di' : List (String × Op)} {k : String} {av : J} {dd : List Op}
    (hw : TableW a b di) (ha : lookupKV k a = some av)
    (hdd : dd ≠ [] → av.isContainer = true ∧ wf av dd = true)
    (h : mapPatch di k dd = .ok di') : TableW a b di' := by
  unfold mapPatch at h
  split at h
  · cases h; exact hw
  · rename_i hemp
    have hne : dd ≠ [] := by intro e; subst e; simp at hemp
    obtain ⟨w1, w2⟩ := hdd hne
    exact mapAppend_W (e := .patchK k dd) hw
      (show dd ≠ [] ∧ ∃ v, lookupKV k a = some v ∧ v.isContainer = true ∧ wf v dd = true from ⟨hne, av, ha, w1, w2⟩)
      (Or.inl (by simp [Op.skey, ha])) h

/-- what the step for a common key must guarantee -/
def BothStepW (a b : List (String × J)) (F : List (String × Op) → String → Except Err (List (String × Op))) : Prop :=
  ∀ s x s' av bv, lookupKV x a = some av → lookupKV x b = some bv → TableW a b s → F s x = .ok s' → TableW a b s'

/-- the three folds (removed keys, common keys through `F`, added keys) -/
theorem threeFold_W (a b : List (String × J)) (rem both add : List String) (hk : KeyClasses a b rem both add)
    (F : List (String × Op) → String → Except Err (List (String × Op))) (hF : BothStepW a b F)
    (di1 di2 di3 : List (String × Op))
    (h1 : rem.foldlM (fun di k => mapAppend di (.remove k)) ([] : List (String × Op)) = .ok di1)
    (h2 : both.foldlM F di1 = .ok di2)
    (h3 : add.foldlM (fun di k => mapAppend di (.add k ((lookupKV k b).getD .null))) di2 = .ok di3) :
    TableW a b di3 := by
  have w1 : TableW a b di1 :=
    Merge.foldlM_inv (TableW a b) _ rem [] di1 (fun k hk' x y hx hy =>
      mapAppend_W (e := .remove k) hx (show hasKey k a = true from (hk.rem_sound k hk').1)
        (Or.inl (hk.rem_sound k hk').1) hy) (TableW.nil a b) h1
  have w2 : TableW a b di2 :=
    Merge.foldlM_inv (TableW a b) _ both di1 di2 (fun k hk' x y hx hy => by
      obtain ⟨s1, s2⟩ := hk.both_sound k hk'
      cases ha : lookupKV k a with
      | none => simp [ha] at s1
      | some av =>
        cases hb : lookupKV k b with
        | none => simp [hb] at s2
        | some bv => exact hF x k y av bv ha hb hx hy) w1 h2
  exact Merge.foldlM_inv (TableW a b) _ add di2 di3 (fun k hk' x y hx hy =>
    mapAppend_W (e := .add k ((lookupKV k b).getD .null)) hx
      (show hasKey k a = false by simp [hasKey, (hk.add_sound k hk').1]) (Or.inr (hk.add_sound k hk').2) hy) w2 h3

/-- what the recursion must give for the values of common keys -/
def DictRecW (recur : Recur) (cfg : Cfg) (path : String) (a b : List (String × J)) : Prop :=
  ∀ k av bv dd, lookupKV k a = some av → lookupKV k b = some bv →
    recur cfg (cfg.differ (path ++ "/" ++ k)) (path ++ "/" ++ k) av bv = .ok dd →
    dd ≠ [] → av.isContainer = true ∧ wf av dd = true

theorem dictBothStep_W (recur : Recur) (cfg : Cfg) (path : String) (a b : List (String × J))
    (hrec : DictRecW recur cfg path a b) : BothStepW a b (dictBothStep recur cfg path a b) := by
  intro di k di' av bv ha hb hw h
  unfold dictBothStep at h
  simp only [ha, hb, Option.getD_some] at h
  split at h
  · simp only [bind, Except.bind] at h
    split at h
    · cases h
    · rename_i dd hr
      exact mapPatch_W hw ha (hrec k av bv dd ha hb hr) h
  · split at h
    · cases h
    · split at h
      · exact mapAppend_W (e := .replace k bv) hw (show hasKey k a = true by simp [hasKey, ha])
          (Or.inl (by simp [Op.skey, ha])) h
      · simp only [pure, Except.pure, Except.ok.injEq] at h
        subst h; exact hw

theorem diffDicts_W (recur : Recur) (cfg : Cfg) (path : String) (a b : List (String × J))
    (hrec : DictRecW recur cfg path a b) (d : List Op) (h : diffDicts recur cfg path a b = .ok d) :
    ∃ di, d = mapValidated di ∧ TableW a b di := by
  unfold diffDicts at h
  have hk := listDiffKeys_spec a b
  generalize listDiffKeys a b = t at h hk
  obtain ⟨rem, both, add⟩ := t
  simp only [bind, Except.bind, pure, Except.pure] at h hk
  split at h
  · cases h
  · rename_i di1 h1
    split at h
    · cases h
    · rename_i di2 h2
      split at h
      · cases h
      · rename_i di3 h3
        simp only [Except.ok.injEq] at h
        subst h
        exact ⟨di3, rfl, threeFold_W a b rem both add hk _ (dictBothStep_W recur cfg path a b hrec) di1 di2 di3 h1 h2 h3⟩

theorem wfObj_of_table (a : List (String × J)) : ∀ (di : List (String × Op)) (seen : List String),
    DK di → (∀ kv ∈ di, kv.2.skey = kv.1 ∧ entryOK a kv.2) → (∀ kv ∈ di, kv.1 ∉ seen) →
    wfObj a (di.map (·.2)) seen = true
  | [], _, _, _, _ => by simp only [List.map_nil]; rw [wfObj]
  | (k, e) :: rest, seen, hd, hall, hns => by
      rw [DK, List.pairwise_cons] at hd
      obtain ⟨hd1, hd2⟩ := hd
      obtain ⟨hk, he⟩ := hall (k, e) List.mem_cons_self
      simp only at hk he
      have hnot : seen.contains k = false := by
        have := hns (k, e) List.mem_cons_self
        simpa using this
      have hnot' : k ∉ seen := hns (k, e) List.mem_cons_self
      have rest_ok := wfObj_of_table a rest (k :: seen) hd2 (fun kv h => hall kv (List.mem_cons_of_mem _ h))
        (fun kv h => by
          intro hc
          simp only [List.mem_cons] at hc
          rcases hc with hc | hc
          · exact hd1 kv h hc.symm
          · exact hns kv (List.mem_cons_of_mem _ h) hc)
      simp only [List.map_cons]
      cases e with
      | add k' v => simp only [Op.skey] at hk; subst hk; rw [wfObj]; simp only [entryOK] at he; simp [hnot', he, rest_ok]
      | remove k' => simp only [Op.skey] at hk; subst hk; rw [wfObj]; simp only [entryOK] at he; simp [hnot', he, rest_ok]
      | replace k' v => simp only [Op.skey] at hk; subst hk; rw [wfObj]; simp only [entryOK] at he; simp [hnot', he, rest_ok]
      | patchK k' dd =>
        simp only [Op.skey] at hk; subst hk
        obtain ⟨h1, v, h2, h3, h4⟩ := he
        have hne : dd.isEmpty = false := by cases dd <;> simp_all
        rw [wfObj]; simp [hnot', hne, h2, h3, h4, rest_ok]
      | addrange _ _ => exact absurd he (by simp [entryOK])
      | addchars _ _ => exact absurd he (by simp [entryOK])
      | removerange _ _ => exact absurd he (by simp [entryOK])
      | patchI _ _ => exact absurd he (by simp [entryOK])
      | invalid _ => exact absurd he (by simp [entryOK])

/-- a finished table is a well-formed mapping diff -/
theorem wfObj_of_tableW {a b : List (String × J)} {di : List (String × Op)} (hw : TableW a b di) :
    wfObj a (mapValidated di) [] = true := by
  unfold mapValidated
  refine wfObj_of_table a di [] hw.1.dk (fun kv hkv => ?_) (fun _ _ => by simp)
  have := hw.2 kv.1 kv.2 (lookupKV_of_mem kv.1 kv.2 di hw.1.dk hkv)
  exact ⟨this.1, this.2.1⟩

/-- `diff_dicts` produces a diff that is well-formed for the base object -/
theorem diffDicts_wf (recur : Recur) (cfg : Cfg) (path : String) (a b : List (String × J))
    (hrec : DictRecW recur cfg path a b) (d : List Op) (h : diffDicts recur cfg path a b = .ok d) :
    wfObj a d [] = true := by
  obtain ⟨di, rfl, hw⟩ := diffDicts_W recur cfg path a b hrec d h
  exact wfObj_of_tableW hw

/-! ### the recursive theorem -/

/-- the item relation used for lists: the sub-diff patches the item and, if not empty, is well-formed for it -/
def PW : J → List Op → J → Prop := fun v dd new =>
  PatchRel v dd new ∧ (dd ≠ [] → v.isContainer = true ∧ wf v dd = true)

theorem generic_ok_container (O : Oracle) (fuel : Nat) (cfg : Cfg) (p : String) (x y : J) (cd : List Op)
    (h : diffAt O fuel cfg .generic p x y = .ok cd) : x.isContainer = true := by
  cases fuel with
  | zero => simp [diffAt] at h
  | succ f =>
    simp only [diffAt] at h
    unfold genericDiff at h
    cases x <;> cases y <;> simp_all [J.isContainer]

/-- **C11 for the model of the generic differ**: every diff it returns is well-formed for the document it was
    computed from — list operations ordered, non-overlapping, in bounds, at most one insertion per position
    and before the removal / patch there; every object key targeted once, additions on absent keys,
    removals / replacements / patches on present ones; nested patches only into containers and never
    empty; line and character level likewise — at every depth, whatever the similarity predicates answer. -/
theorem diffAt_generic_wf (O : Oracle) (hO : OracleOK O) (fuel : Nat) :
    ∀ (path : String) (a b : J) (d : List Op), a.canonical = true → b.canonical = true → Compat a b →
      diffAt O fuel defaultCfg .generic path a b = .ok d → wf a d = true := by
  induction fuel with
  | zero => intro path a b d _ _ _ h; simp [diffAt] at h
  | succ f ih =>
    intro path a b d ca cb hab h
    simp only [diffAt] at h
    unfold genericDiff at h
    have hdf : ∀ p, defaultCfg.differ p = .generic := by intro p; simp [defaultCfg, Cfg.differ, lookupKV]
    have sub : ∀ (p : String) (x y : J) (cd : List Op), x.canonical = true → y.canonical = true → Compat x y →
        diffAt O f defaultCfg (defaultCfg.differ p) p x y = .ok cd →
        PW x cd y ∧ (cd = [] → x = y) := by
      intro p x y cd cx cy hxy hd
      rw [hdf] at hd
      have hp := diffAt_generic_roundtrip O hO f p x y cd cx cy hxy hd
      refine ⟨⟨hp, fun _ => ⟨generic_ok_container O f defaultCfg p x y cd hd, ih p x y cd cx cy hxy hd⟩⟩, ?_⟩
      intro hnil
      subst hnil
      exact (patch_nil x y cx hp).symm
    cases a with
    | arr al =>
      cases b with
      | arr bl =>
        simp only at h
        simp only [J.canonical] at ca cb
        have hpairs := hab.arr_inv
        obtain ⟨kb, hb⟩ := diffLists_single_built (P := PW) O (diffAt O f) defaultCfg path al bl "eq"
          (by simp [defaultCfg, Cfg.preds, lookupKV])
          (by
            intro i j hi hj hc
            rw [pred_eq] at hc
            simp only [Except.ok.injEq] at hc
            exact compat_pyEq _ _ (hpairs _ (List.getElem_mem hi) _ (List.getElem_mem hj))
              (canonicalList_mem al ca _ (List.getElem_mem hi)) (canonicalList_mem bl cb _ (List.getElem_mem hj)) hc)
          (by
            intro i j hi hj cd hc
            exact sub _ _ _ cd (canonicalList_mem al ca _ (List.getElem_mem hi))
              (canonicalList_mem bl cb _ (List.getElem_mem hj))
              (hpairs _ (List.getElem_mem hi) _ (List.getElem_mem hj)) hc)
          d h
        rw [wf]
        exact wfList_of_built (P := PW) (fun v dd new hp hne => hp.2 hne) hb
      | _ => simp at h
    | obj ak =>
      cases b with
      | obj bk =>
        simp only at h
        simp only [J.canonical, Bool.and_eq_true] at ca cb
        have hkeys := hab.obj_inv
        rw [wf]
        refine diffDicts_wf (diffAt O f) defaultCfg path ak bk ?_ d h
        intro k av bv dd ha hb hc hne
        have ma := lookupKV_mem k av ak ha
        have mb := lookupKV_mem k bv bk hb
        exact (sub _ _ _ dd (canonicalKvs_mem ak ca.2 _ ma) (canonicalKvs_mem bk cb.2 _ mb) (hkeys k av bv ha hb) hc).1.2 hne
      | _ => simp at h
    | str sa =>
      cases b with
      | str sb =>
        simp only at h
        rw [wf]
        exact stringsLinewise_wf O hO f sa sb d h
      | _ => simp at h
    | null => simp at h
    | bool _ => simp at h
    | int _ => simp at h
    | flt _ => simp at h

end Nbdime
