import NbdimeProofs.Lemmas.MergeMixed
/-
  C03 on the cell-wise and on the mixed domain: `make_merge_chunks` passes its range assertions on patch-only diffs
  whose indices lie inside the list, so `_merge_lists`, `_merge_dicts` and `decide_merge_with_diff` do not raise.
-/
set_option linter.unusedSimpArgs false
set_option linter.unusedVariables false
namespace Nbdime
open Nbdime.Abs Nbdime.Merge

theorem mem_insertNat_fwd (n : Nat) : ∀ (l : List Nat) (x : Nat), x ∈ insertNat n l → x = n ∨ x ∈ l
  | [], x, h => by simp [insertNat] at h; exact Or.inl h
  | a :: rest, x, h => by
      simp only [insertNat] at h
      split at h
      · rcases List.mem_cons.mp h with h | h
        · exact Or.inl h
        · exact Or.inr h
      · split at h
        · exact Or.inr h
        · rcases List.mem_cons.mp h with h | h
          · exact Or.inr (by simp [h])
          · rcases mem_insertNat_fwd n rest x h with h | h
            · exact Or.inl h
            · exact Or.inr (List.mem_cons_of_mem _ h)

/-- where the boundaries of a patch-only diff come from -/
theorem sectionBoundaries_src : ∀ (d : List Op) (acc : List Nat) (lo : Nat), AscPatch lo d →
    ∀ x ∈ sectionBoundaries acc d, x ∈ acc ∨ ∃ e ∈ d, x = e.idx ∨ x = e.idx + 1
  | [], acc, _, _, x, hx => Or.inl hx
  | .patchI j dd :: rest, acc, lo, ha, x, hx => by
      simp only [sectionBoundaries] at hx
      rcases sectionBoundaries_src rest _ (j + 1) ha.2 x hx with h | ⟨e, he, h⟩
      · rcases mem_insertNat_fwd (j + 1) (insertNat j acc) x h with rfl | h1
        · exact Or.inr ⟨.patchI j dd, List.mem_cons_self, Or.inr rfl⟩
        · rcases mem_insertNat_fwd j acc x h1 with rfl | h2
          · exact Or.inr ⟨.patchI x dd, List.mem_cons_self, Or.inl rfl⟩
          · exact Or.inl h2
      · exact Or.inr ⟨e, List.mem_cons_of_mem _ he, h⟩
  | .add _ _ :: _, _, _, ha, _, _ => ha.elim
  | .remove _ :: _, _, _, ha, _, _ => ha.elim
  | .replace _ _ :: _, _, _, ha, _, _ => ha.elim
  | .patchK _ _ :: _, _, _, ha, _, _ => ha.elim
  | .addrange _ _ :: _, _, _, ha, _, _ => ha.elim
  | .addchars _ _ :: _, _, _, ha, _, _ => ha.elim
  | .removerange _ _ :: _, _, _, ha, _, _ => ha.elim
  | .invalid _ :: _, _, _, ha, _, _ => ha.elim

/-- no entry sits on the boundary: nothing is taken -/
theorem takeAt_none (j : Nat) (r : List Op) (h : ∀ e ∈ r, e.idx ≠ j) : (takeAt j r).1 = none := by
  cases r with
  | nil => rfl
  | cons e rest =>
    have : (e.idx == j) = false := by simpa using h e List.mem_cons_self
    simp [takeAt, this]

/-- the last chunk ends at the last boundary (no entry sits on it) -/
theorem makeChunks_last : ∀ (bs : List Nat) (j n : Nat) (r0 r1 : List Op) (lo : Nat), bs ≠ [] → StrictAsc (j :: bs) →
    AscPatch lo r0 → AscPatch lo r1 → (∀ e ∈ r0, e.idx ∈ j :: bs) → (∀ e ∈ r1, e.idx ∈ j :: bs) →
    (j :: bs).getLast? = some n → (∀ e ∈ r0, e.idx ≠ n) → (∀ e ∈ r1, e.idx ≠ n) →
    ∃ c, (makeChunks (j :: bs) r0 r1).getLast? = some c ∧ c.k = n
  | [], _, _, _, _, _, hne, _, _, _, _, _, _, _, _ => absurd rfl hne
  | k :: rest, j, n, r0, r1, lo, _, hbs, ha0, ha1, hm0, hm1, hl, hn0, hn1 => by
      have hge : ∀ (r : List Op), (∀ e ∈ r, e.idx ∈ j :: k :: rest) → ∀ e ∈ r, j ≤ e.idx := by
        intro r hm e he
        rcases List.mem_cons.mp (hm e he) with h | h
        · omega
        · exact Nat.le_of_lt (StrictAsc.head_lt hbs _ h)
      obtain ⟨t0a, t0b, t0c⟩ := takeAt_asc j lo r0 ha0 (hge r0 hm0)
      obtain ⟨t1a, t1b, t1c⟩ := takeAt_asc j lo r1 ha1 (hge r1 hm1)
      have hm0' : ∀ e ∈ (takeAt j r0).2, e.idx ∈ k :: rest := by
        intro e he
        obtain ⟨h1, h2⟩ := t0b e he
        rcases List.mem_cons.mp (hm0 e h1) with h | h
        · exact absurd h h2
        · exact h
      have hm1' : ∀ e ∈ (takeAt j r1).2, e.idx ∈ k :: rest := by
        intro e he
        obtain ⟨h1, h2⟩ := t1b e he
        rcases List.mem_cons.mp (hm1 e h1) with h | h
        · exact absurd h h2
        · exact h
      have hjk : j < k := StrictAsc.head_lt hbs k List.mem_cons_self
      have hl' : (k :: rest).getLast? = some n := by
        simpa [List.getLast?_cons_cons] using hl
      rw [makeChunks.eq_def]
      simp only [spanKey_asc j lo r0 ha0, spanKey_asc j lo r1 ha1, hjk, decide_true, Bool.true_or, if_true]
      cases rest with
      | nil =>
        -- the last boundary: nothing left
        have hkn : k = n := by simpa using hl'
        subst hkn
        have e0 : (takeAt k (takeAt j r0).2).1 = none := takeAt_none k _ (fun e he => hn0 e (t0b e he).1)
        have e1 : (takeAt k (takeAt j r1).2).1 = none := takeAt_none k _ (fun e he => hn1 e (t1b e he).1)
        have htail : makeChunks [k] (takeAt j r0).2 (takeAt j r1).2 = [] := by
          rw [makeChunks.eq_def]
          simp only [spanKey_asc k (j + 1) _ t0a, spanKey_asc k (j + 1) _ t1a, e0, e1, Option.toList, List.isEmpty_nil,
            Bool.not_true, Bool.or_false, Nat.lt_irrefl, decide_false, Bool.false_eq_true, if_false]
          rfl
        rw [htail]
        exact ⟨_, rfl, rfl⟩
      | cons k2 rest2 =>
        obtain ⟨c, hc1, hc2⟩ := makeChunks_last (k2 :: rest2) k n (takeAt j r0).2 (takeAt j r1).2 (j + 1) (by simp)
          hbs.tail t0a t1a hm0' hm1' hl' (fun e he => hn0 e (t0b e he).1) (fun e he => hn1 e (t1b e he).1)
        refine ⟨c, ?_, hc2⟩
        cases htl : makeChunks (k :: k2 :: rest2) (takeAt j r0).2 (takeAt j r1).2 with
        | nil => rw [htl] at hc1; cases hc1
        | cons c0 cs =>
          rw [htl] at hc1
          simp only [List.getLast?_cons_cons]
          exact hc1

/-- `make_merge_chunks` passes its range assertions on patch-only diffs whose indices lie inside the list -/
theorem makeMergeChunks_ok (n : Nat) (d0 d1 : List Op) (h0 : AscPatch 0 d0) (h1 : AscPatch 0 d1)
    (hb0 : ∀ e ∈ d0, e.idx < n) (hb1 : ∀ e ∈ d1, e.idx < n) :
    makeMergeChunks n d0 d1 = .ok (makeChunks (boundsOf n d0 d1) d0 d1) := by
  unfold makeMergeChunks
  have s0 := splitOnBoundaries_patches (boundsOf n d0 d1) d0 [] 0 h0 (fun _ h => nomatch h)
  have s1 := splitOnBoundaries_patches (boundsOf n d0 d1) d1 [] 0 h1 (fun _ h => nomatch h)
  simp only [List.nil_append] at s0 s1
  unfold boundsOf at s0 s1
  simp only [s0, s1, bind, Except.bind, pure, Except.pure]
  have hbase : StrictAsc (insertNat n [0]) := (insertNat_asc n [0] trivial).1
  obtain ⟨a1, a2, a3⟩ := sectionBoundaries_patches d0 (insertNat n [0]) 0 h0 hbase
  obtain ⟨b1, b2, b3⟩ := sectionBoundaries_patches d1 _ 0 h1 a1
  by_cases hn : n = 0
  · subst hn
    have e0 : d0 = [] := by
      cases d0 with
      | nil => rfl
      | cons e _ => exact absurd (hb0 e List.mem_cons_self) (Nat.not_lt_zero _)
    have e1 : d1 = [] := by
      cases d1 with
      | nil => rfl
      | cons e _ => exact absurd (hb1 e List.mem_cons_self) (Nat.not_lt_zero _)
    subst e0; subst e1
    simp [sectionBoundaries, boundsOf]
  · have hcond : (n != 0 || !d0.isEmpty || !d1.isEmpty) = true := by simp [hn]
    simp only [hcond, if_true]
    -- the boundaries: 0 first, n last
    generalize hB : sectionBoundaries (sectionBoundaries (insertNat n [0]) d0) d1 = B at b1 b2 b3
    have hmem0 : 0 ∈ B := b2 _ (a2 _ (((insertNat_asc n [0] trivial).2 0).mpr (Or.inr List.mem_cons_self)))
    have hmemn : n ∈ B := b2 _ (a2 _ (((insertNat_asc n [0] trivial).2 n).mpr (Or.inl rfl)))
    have hle : ∀ x ∈ B, x ≤ n := by
      intro x hx
      rw [← hB] at hx
      rcases sectionBoundaries_src d1 _ 0 h1 x hx with h | ⟨e, he, h⟩
      · rcases sectionBoundaries_src d0 _ 0 h0 x h with h' | ⟨e, he, h'⟩
        · rcases ((insertNat_asc n [0] trivial).2 x).mp h' with rfl | h''
          · exact Nat.le_refl _
          · simp at h''; omega
        · have := hb0 e he; omega
      · have := hb1 e he; omega
    have hboundsOf : boundsOf n d0 d1 = B := by unfold boundsOf; exact hB
    rw [hboundsOf]
    cases B with
    | nil => cases hmem0
    | cons j bs =>
      have hj0 : j = 0 := by
        rcases List.mem_cons.mp hmem0 with h | h
        · exact h.symm
        · have := StrictAsc.head_lt b1 0 h; omega
      subst hj0
      cases bs with
      | nil =>
        rcases List.mem_cons.mp hmemn with h | h
        · exact absurd h hn
        · cases h
      | cons k rest =>
        have h0k : 0 < k := StrictAsc.head_lt b1 k List.mem_cons_self
        -- the last boundary is n
        have hlast : ∃ m, (0 :: k :: rest).getLast? = some m := ⟨_, List.getLast?_eq_some_getLast (by simp)⟩
        obtain ⟨m, hm⟩ := hlast
        have hmin : m ∈ (0 :: k :: rest) := List.mem_of_getLast? hm
        have hmn : m = n := by
          have h1' := hle m hmin
          -- n is in the list, the last element of a strictly ascending list is its maximum
          have hmax : ∀ (l : List Nat) (a x : Nat), StrictAsc (a :: l) → (a :: l).getLast? = some x → ∀ y ∈ a :: l, y ≤ x := by
            intro l
            induction l with
            | nil => intro a x _ hx y hy; simp at hx hy; omega
            | cons b t ih =>
              intro a x hs hx y hy
              have hx' : (b :: t).getLast? = some x := by simpa [List.getLast?_cons_cons] using hx
              rcases List.mem_cons.mp hy with rfl | hy'
              · have := ih b x hs.tail hx' b List.mem_cons_self
                have := StrictAsc.head_lt hs b List.mem_cons_self
                omega
              · exact ih b x hs.tail hx' y hy'
          have := hmax (k :: rest) 0 m b1 hm n hmemn
          omega
        subst hmn
        obtain ⟨c, hc1, hc2⟩ := makeChunks_last (k :: rest) 0 m d0 d1 0 (by simp) b1 h0 h1
          (fun e he => b2 _ (a3 e he)) b3 hm (fun e he => Nat.ne_of_lt (hb0 e he)) (fun e he => Nat.ne_of_lt (hb1 e he))
        -- the first chunk starts at 0
        have hfirst : ∃ c0 cs, makeChunks (0 :: k :: rest) d0 d1 = c0 :: cs ∧ c0.j = 0 := by
          rw [makeChunks.eq_def]
          simp only [h0k, decide_true, Bool.true_or, if_true]
          exact ⟨_, _, rfl, rfl⟩
        obtain ⟨c0, cs, hcs, hc0⟩ := hfirst
        rw [hcs] at hc1 ⊢
        simp only [hc1, hc0, hc2, bne_self_eq_false, Bool.false_eq_true, if_false]

/-- `_merge_lists` completes on patch-only diffs of different items inside the list -/
theorem mergeLists_patches_ok (E : Env) (rec : Rec) (inStr : Bool) (xs : List J) (d0 d1 : List Op) (path : List PKey)
    (h0 : AscPatch 0 d0) (h1 : AscPatch 0 d1) (hdis : ∀ e0 ∈ d0, ∀ e1 ∈ d1, e0.idx ≠ e1.idx)
    (hb0 : ∀ e ∈ d0, e.idx < xs.length) (hb1 : ∀ e ∈ d1, e.idx < xs.length) :
    mergeLists E rec inStr xs d0 d1 path = .ok (walk path (boundsOf xs.length d0 d1) d0 d1) := by
  unfold mergeLists
  simp only [bind, Except.bind, makeMergeChunks_ok xs.length d0 d1 h0 h1 hb0 hb1]
  have hbase : StrictAsc (insertNat xs.length [0]) := (insertNat_asc xs.length [0] trivial).1
  obtain ⟨a1, a2, a3⟩ := sectionBoundaries_patches d0 (insertNat xs.length [0]) 0 h0 hbase
  obtain ⟨b1, b2, b3⟩ := sectionBoundaries_patches d1 _ 0 h1 a1
  have hf := fold_chunks E rec inStr xs path (E.S.get (starPath path)) (E.S.get (starPath path ++ "/*"))
    (boundsOf xs.length d0 d1) d0 d1 [] 0 b1 h0 h1 (fun e he => b2 _ (a3 e he)) b3 hdis
  rw [hf]
  simp only [List.nil_append]
  rw [resolveList_noconf (walk_noconf path _ d0 d1)]

theorem dictBoth_cells_ok (E : Env) (m : Nat) (base : List (String × J)) (spath : String) (b : B) (k : String) (xs : List J)
    (dL dR : List Op) (hk : lookupKV k base = some (.arr xs)) (h0 : AscPatch 0 dL) (h1 : AscPatch 0 dR)
    (hdis : ∀ e0 ∈ dL, ∀ e1 ∈ dR, e0.idx ≠ e1.idx) (hneq : Op.pyEq (.patchK k dL) (.patchK k dR) = false)
    (hb0 : ∀ e ∈ dL, e.idx < xs.length) (hb1 : ∀ e ∈ dR, e.idx < xs.length) :
    dictBoth E (mergeF E (m + 1)) false base [] spath b k (.patchK k dL) (.patchK k dR) =
      .ok (b ++ walk [PKey.s k] (boundsOf xs.length dL dR) dL dR) := by
  unfold dictBoth
  have hct : (chunkTypename [Op.patchK k dL] != chunkTypename [Op.patchK k dR]) = false := by simp [chunkTypename]
  simp only [isPD, Option.isSome_none, Bool.false_eq_true, if_false, isRemoveOp, Bool.or_self, hct, hneq, hk, opDiff, bind,
    Except.bind, pure, Except.pure, List.nil_append, mergeF,
    mergeLists_patches_ok E (mergeF E m) false xs dL dR [PKey.s k] h0 h1 hdis hb0 hb1]

/-- `_merge_dicts` completes in the mixed domain -/
theorem mergeDicts_mixed_ok (E : Env) (m : Nat) (base : List (String × J)) (ld rd : List Op)
    (l r : List (String × Op)) (hl : dictBased ld = .ok l) (hr : dictBased rd = .ok r)
    (k : String) (xs : List J) (dL dR : List Op)
    (hlk : lookupKV k l = some (.patchK k dL)) (hrk : lookupKV k r = some (.patchK k dR))
    (hagree : ∀ k' el er, k' ≠ k → lookupKV k' l = some el → lookupKV k' r = some er → el = er)
    (hmap : ∀ k' e, lookupKV k' l = some e → e.isMapOp = true)
    (hk : lookupKV k base = some (.arr xs)) (h0 : AscPatch 0 dL) (h1 : AscPatch 0 dR)
    (hdis : ∀ e0 ∈ dL, ∀ e1 ∈ dR, e0.idx ≠ e1.idx) (hneq : Op.pyEq (.patchK k dL) (.patchK k dR) = false)
    (hb0 : ∀ e ∈ dL, e.idx < xs.length) (hb1 : ∀ e ∈ dR, e.idx < xs.length)
    (hnd : (bothKeys l r).Nodup) :
    ∃ R, mergeDicts E (mergeF E (m + 1)) false base ld rd [] = .ok R := by
  have hkin : k ∈ bothKeys l r := by
    unfold bothKeys
    rw [_root_.Nbdime.mem_sortStrs]
    simp only [List.mem_filter, List.contains_eq_mem, decide_eq_true_eq, mem_keys_iff]
    simp [hlk, hrk]
  obtain ⟨pre, post, hsplit⟩ := List.append_of_mem hkin
  have hnd' := hnd
  rw [hsplit] at hnd'
  have hkpre : k ∉ pre := by
    intro hm
    have := (List.nodup_append.mp hnd').2.2 k hm k List.mem_cons_self
    exact this rfl
  have hkpost : k ∉ post := by
    have := (List.nodup_append.mp hnd').2.1
    exact (List.nodup_cons.mp this).1
  unfold mergeDicts
  simp only [hl, hr, bind, Except.bind]
  have h1k : ∀ k' ∈ oneKeys l r, (lookupKV k' l).isSome ≠ (lookupKV k' r).isSome := by
    intro k' hk'
    have hk'' := (_root_.Nbdime.mem_sortStrs k' _).mp hk'
    simp only [List.mem_append, List.mem_filter, Bool.not_eq_true', List.contains_eq_mem, decide_eq_false_iff_not] at hk''
    rcases hk'' with ⟨a, b⟩ | ⟨a, b⟩
    · have ha := (mem_keys_iff k' l).mp a
      have hb : (lookupKV k' r).isSome = false := by
        cases hh : (lookupKV k' r).isSome with
        | false => rfl
        | true => exact absurd ((mem_keys_iff k' r).mpr hh) b
      rw [ha, hb]; decide
    · have ha := (mem_keys_iff k' r).mp a
      have hb : (lookupKV k' l).isSome = false := by
        cases hh : (lookupKV k' l).isSome with
        | false => rfl
        | true => exact absurd ((mem_keys_iff k' l).mpr hh) b
      rw [ha, hb]; decide
  have h2k : ∀ k' ∈ bothKeys l r, k' ≠ k → ∃ e, lookupKV k' l = some e ∧ lookupKV k' r = some e ∧ e.isMapOp = true := by
    intro k' hk' hne
    have hk'' := (_root_.Nbdime.mem_sortStrs k' _).mp hk'
    simp only [List.mem_filter, List.contains_eq_mem, decide_eq_true_eq] at hk''
    obtain ⟨a, b⟩ := hk''
    have ha := (mem_keys_iff k' l).mp a
    have hb := (mem_keys_iff k' r).mp b
    cases hle : lookupKV k' l with
    | none => simp [hle] at ha
    | some el =>
      cases hre : lookupKV k' r with
      | none => simp [hre] at hb
      | some er =>
        have := hagree k' el er hne hle hre
        subst this
        exact ⟨el, rfl, rfl, hmap k' el hle⟩
  have f1 := fold_onekeys l r (oneKeys l r) [] h1k
  unfold oneKeys at f1
  rw [f1]
  simp only [List.nil_append]
  generalize hg : (fun (b : B) (k' : String) =>
      match lookupKV k' l, lookupKV k' r with
      | some le, some re => dictBoth E (mergeF E (m + 1)) false base [] (starPath []) b k' le re
      | _, _ => throw (Err.key k')) = g
  have hgsame : ∀ b k' e, lookupKV k' l = some e → lookupKV k' r = some e →
      g b k' = dictBoth E (mergeF E (m + 1)) false base [] (starPath []) b k' e e := by
    intro b k' e ha hb; rw [← hg]; simp only [ha, hb]
  have hgk : ∀ b, g b k = dictBoth E (mergeF E (m + 1)) false base [] (starPath []) b k (.patchK k dL) (.patchK k dR) := by
    intro b; rw [← hg]; simp only [hlk, hrk]
  have hsplit' : sortStrs (List.filter (fun k' => (r.map (·.1)).contains k') (l.map (·.1))) = pre ++ k :: post := hsplit
  rw [hsplit']
  have hpre := fold_bothkeys E (mergeF E (m + 1)) false base (starPath []) l r g hgsame pre
    ((oneKeys l r).filterMap (keyDec l r))
    (fun k' hk' => h2k k' (by rw [hsplit]; exact List.mem_append_left _ hk') (fun hh => hkpre (hh ▸ hk')))
  unfold oneKeys at hpre
  generalize hb1' : List.filterMap (keyDec l r) (sortStrs (List.filter (fun k => !(r.map (·.1)).contains k) (l.map (·.1)) ++
      List.filter (fun k => !(l.map (·.1)).contains k) (r.map (·.1)))) ++ List.filterMap (keyDec l r) pre = b1 at hpre
  rw [foldlM_append_ok, hpre]
  simp only [bind, Except.bind, List.foldlM_cons]
  rw [hgk, dictBoth_cells_ok E m base (starPath []) b1 k xs dL dR hk h0 h1 hdis hneq hb0 hb1]
  simp only []
  have hpost := fold_bothkeys E (mergeF E (m + 1)) false base (starPath []) l r g hgsame post
    (b1 ++ walk [PKey.s k] (boundsOf xs.length dL dR) dL dR)
    (fun k' hk' => h2k k' (by rw [hsplit]; exact List.mem_append_right _ (List.mem_cons_of_mem _ hk'))
      (fun hh => hkpost (hh ▸ hk')))
  rw [hpost]
  simp only [pure, Except.pure]
  have hnc : hasConflicted (b1 ++ walk [PKey.s k] (boundsOf xs.length dL dR) dL dR ++ List.filterMap (keyDec l r) post) = false := by
    unfold hasConflicted
    rw [List.any_eq_false]
    intro d hd
    rw [← hb1'] at hd
    simp only [List.mem_append, List.mem_filterMap] at hd
    have hw := walk_noconf [PKey.s k] (boundsOf xs.length dL dR) dL dR
    unfold hasConflicted at hw
    rw [List.any_eq_false] at hw
    rcases hd with ((⟨k', _, hk'⟩ | ⟨k', _, hk'⟩) | hd) | ⟨k', _, hk'⟩
    · obtain ⟨s, e, rfl, _⟩ := keyDec_mem hk'; simp [mkSide_noconf]
    · obtain ⟨s, e, rfl, _⟩ := keyDec_mem hk'; simp [mkSide_noconf]
    · exact hw d hd
    · obtain ⟨s, e, rfl, _⟩ := keyDec_mem hk'; simp [mkSide_noconf]
  rw [resolveDict_noconf hnc]
  exact ⟨_, rfl⟩

/-- **C03 on the mixed domain**: `decide_merge_with_diff` does not raise -/
theorem mixed_total (E : Env) (base : List (String × J)) (ld rd : List Op)
    (k : String) (xs : List J) (dL dR : List Op)
    (hmapL : ∀ e ∈ ld, e.isMapOp = true) (hndL : (ld.map Op.skey).Nodup)
    (hmapR : ∀ e ∈ rd, e.isMapOp = true) (hndR : (rd.map Op.skey).Nodup)
    (hkL : Op.patchK k dL ∈ ld) (hkR : Op.patchK k dR ∈ rd)
    (hagree : ∀ el ∈ ld, ∀ er ∈ rd, el.skey = er.skey → el.skey ≠ k → el = er)
    (hk : lookupKV k base = some (.arr xs)) (h0 : AscPatch 0 dL) (h1 : AscPatch 0 dR)
    (hdis : ∀ e0 ∈ dL, ∀ e1 ∈ dR, e0.idx ≠ e1.idx)
    (hneq : Op.pyEq (.patchK k dL) (.patchK k dR) = false)
    (hb0 : ∀ e ∈ dL, e.idx < xs.length) (hb1 : ∀ e ∈ dR, e.idx < xs.length) :
    ∃ ds, decideMerge E (.obj base) ld rd = .ok ds := by
  have h : True := trivial
  obtain ⟨l, hl, hskL, hpermL, hkeyL⟩ := dictBased_nodup ld hmapL hndL
  obtain ⟨r, hr, hskR, hpermR, hkeyR⟩ := dictBased_nodup rd hmapR hndR
  obtain ⟨tl1, tl2, tl3⟩ := table_lookup hskL hpermL hkeyL
  obtain ⟨tr1, tr2, tr3⟩ := table_lookup hskR hpermR hkeyR
  have hlk : lookupKV k l = some (.patchK k dL) := tl2 _ hkL
  have hrk : lookupKV k r = some (.patchK k dR) := tr2 _ hkR
  have hkl : (l.map (·.1)).Nodup := sk_keys_nodup l hskL
  have hkr : (r.map (·.1)).Nodup := sk_keys_nodup r hskR
  have hboth : (bothKeys l r).Nodup := by
    unfold bothKeys
    have hin : ((l.map (·.1)).filter (fun k => (r.map (·.1)).contains k)).Nodup := List.filter_sublist.nodup hkl
    exact (sortStrs_perm _ hin).nodup_iff.mpr hin
  have hone : (oneKeys l r).Nodup := by
    unfold oneKeys
    have hin : ((l.map (·.1)).filter (fun k => !(r.map (·.1)).contains k) ++
        (r.map (·.1)).filter (fun k => !(l.map (·.1)).contains k)).Nodup := by
      rw [List.nodup_append]
      refine ⟨List.filter_sublist.nodup hkl, List.filter_sublist.nodup hkr, ?_⟩
      intro a ha b' hb' hab
      subst hab
      have h1 := (List.mem_filter.mp ha).1
      have h2 := (List.mem_filter.mp hb').2
      simp only [Bool.not_eq_true', List.contains_eq_mem, decide_eq_false_iff_not] at h2
      exact h2 h1
    exact (sortStrs_perm _ hin).nodup_iff.mpr hin
  have hmemOne : ∀ k', k' ∈ oneKeys l r ↔ ((lookupKV k' l).isSome ≠ (lookupKV k' r).isSome) := by
    intro k'
    unfold oneKeys
    rw [_root_.Nbdime.mem_sortStrs]
    simp only [List.mem_append, List.mem_filter, Bool.not_eq_true', List.contains_eq_mem, decide_eq_false_iff_not,
      mem_keys_iff]
    cases (lookupKV k' l).isSome <;> cases (lookupKV k' r).isSome <;> simp
  have hmemBoth : ∀ k', k' ∈ bothKeys l r ↔ ((lookupKV k' l).isSome = true ∧ (lookupKV k' r).isSome = true) := by
    intro k'
    unfold bothKeys
    rw [_root_.Nbdime.mem_sortStrs]
    simp only [List.mem_filter, List.contains_eq_mem, decide_eq_true_eq, mem_keys_iff]
  have hone_ne : ∀ k' ∈ oneKeys l r, k' ≠ k := by
    intro k' hk' hh
    subst hh
    have := (hmemOne _).mp hk'
    rw [hlk, hrk] at this
    exact this rfl
  have hag' : ∀ k' el er, k' ≠ k → lookupKV k' l = some el → lookupKV k' r = some er → el = er := by
    intro k' el er hne' h1' h2'
    exact hagree el (tl1 k' el h1').1 er (tr1 k' er h2').1 (by rw [(tl1 k' el h1').2, (tr1 k' er h2').2])
      (by rw [(tl1 k' el h1').2]; exact hne')
  unfold decideMerge
  obtain ⟨m, hf⟩ : ∃ m, bigFuel = m + 1 + 1 := ⟨99998, rfl⟩
  rw [hf]
  have hunf : mergeF E (m + 1 + 1) false (.obj base) (.d ld) (.d rd) [] = mergeDicts E (mergeF E (m + 1)) false base ld rd [] := rfl
  rw [hunf]
  obtain ⟨R, hR⟩ := mergeDicts_mixed_ok E m base ld rd l r hl hr k xs dL dR hlk hrk hag'
    (fun k' e h1' => hmapL e (tl1 k' e h1').1) hk h0 h1 hdis hneq hb0 hb1 hboth
  simp only [hR, bind, Except.bind, pure, Except.pure]
  exact ⟨_, rfl⟩

/-- the indices of a well-formed patch-only list diff lie inside the list -/
theorem wfList_idx_lt (xs : List J) (d : List Op) (ha : AscPatch 0 d) (hw : wfList xs d 0 none = true) :
    ∀ e ∈ d, e.idx < xs.length := by
  intro e he
  obtain ⟨_, j, dd, rfl⟩ := AscPatch.idx_ge ha e he
  obtain ⟨v, f1, _, _⟩ := wfList_entries xs d 0 none hw j dd he
  show j < xs.length
  have := (List.getElem?_eq_some_iff.mp f1).1
  exact this

end Nbdime
