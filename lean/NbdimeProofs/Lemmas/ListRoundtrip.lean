import NbdimeProofs.Lemmas.SnakesRoundtrip
/-
  `diff_lists` with a single predicate (model: `diffLists`, the `diffSequence` + `listStep` path):
  shallow diff from the brute-force LCS, then recursion into the aligned items. Followed by
  `patch_list` it rebuilds the target exactly, provided the predicate implies equality on the items
  at hand and the differ used on aligned items is sound.
-/
namespace Nbdime
open Nbdime.Abs

variable {P : J → List Op → J → Prop}

/-- what `diff_sequence` returns: the abstract `dfl` of some monotone matching -/
theorem diffSequence_spec (cmp : J → J → Except Err Bool) (A B : List J) (d : List Op)
    (hstrict : ∀ i j (hi : i < A.length) (hj : j < B.length), cmp A[i] B[j] = .ok true → A[i] = B[j])
    (h : diffSequence cmp A B = .ok d) :
    ∃ ps, Matching A B ps 0 0 ∧ d = (dfl A B ps 0 0).map toOp := by
  unfold diffSequence at h
  simp only [bind, Except.bind] at h
  cases hG : compareGrid cmp A B with
  | error e => simp [hG] at h
  | ok G =>
    simp only [hG] at h
    cases hps : lcsIndices G A.length B.length with
    | error e => simp [hps] at h
    | ok ps =>
      simp only [hps, pure, Except.pure, Except.ok.injEq] at h
      subst h
      have hgm : GridMatching (gridAt G) A.length B.length ps 0 0 := by
        unfold lcsIndices at hps
        exact lcsBack_matching (gridAt G) _ A.length B.length _ A.length B.length [] ps (Nat.le_refl _) (Nat.le_refl _) trivial hps
      have hm : Matching A B ps 0 0 := by
        apply GridMatching_to_Matching A B (gridAt G) ps 0 0 _ hgm
        intro i j hi hj hg
        have := hstrict i j hi hj (compareGrid_true cmp A B G hG i j hi hj hg)
        rw [List.getElem?_eq_getElem hi, List.getElem?_eq_getElem hj, this]
      exact ⟨ps, hm, diffFromLcs_eq_dfl A B ps hm⟩

/-- the item loop of `diff_lists` over `n` aligned equal items -/
theorem itemLoop_built (recur : Recur) (cfg : Cfg) (subpath : String) (A B : List J)
    (hok : ItemOK P recur cfg (cfg.differ subpath) subpath A B) (n : Nat) (di di' : List Op) (i j kb : Nat)
    (hA : i + n ≤ A.length) (hB : j + n ≤ B.length) (heq : ∀ t, t < n → A[i + t]? = B[j + t]?)
    (h : BuiltM P A B di i j kb) (hkb : kb ≤ i)
    (hr : itemLoop recur cfg subpath A B i j n di = .ok di') :
    BuiltM P A B di' (i + n) (j + n) (max kb (i + n - 1)) ∧ (n = 0 → di' = di) := by
  induction n generalizing di i j kb with
  | zero =>
    simp only [itemLoop, Except.ok.injEq] at hr
    subst hr
    exact ⟨h.mono (Nat.le_max_left _ _), fun _ => rfl⟩
  | succ n ih =>
    have hi : i < A.length := by omega
    have hj : j < B.length := by omega
    have h0 : A[i] = B[j] := by
      have := heq 0 (by omega)
      simp only [Nat.add_zero, List.getElem?_eq_getElem hi, List.getElem?_eq_getElem hj] at this
      exact Option.some.inj this
    have heq' : ∀ t, t < n → A[i + 1 + t]? = B[j + 1 + t]? := by
      intro t ht
      have := heq (t + 1) (by omega)
      have e1 : i + (t + 1) = i + 1 + t := by omega
      have e2 : j + (t + 1) = j + 1 + t := by omega
      rw [e1, e2] at this; exact this
    simp only [itemLoop, List.getElem?_eq_getElem hi, List.getElem?_eq_getElem hj, bind, Except.bind, pure,
      Except.pure] at hr
    refine ⟨?_, fun hn => absurd hn (by omega)⟩
    by_cases hat : cfg.isAtomic A[i] subpath = true
    · simp only [hat, Bool.not_true, Bool.false_eq_true, if_false] at hr
      have hb := h.keep hi hj h0
      have := (ih di (i + 1) (j + 1) kb (by omega) (by omega) heq' hb (by omega) hr).1
      have e1 : i + 1 + n = i + (n + 1) := by omega
      have e2 : j + 1 + n = j + (n + 1) := by omega
      rw [e1, e2] at this
      exact this
    · simp only [hat, Bool.not_false, if_true] at hr
      cases hc : recur cfg (cfg.differ subpath) subpath A[i] B[j] with
      | error e => simp [hc] at hr
      | ok cd =>
        simp only [hc] at hr
        obtain ⟨hp, hnil⟩ := hok i j hi hj cd hc
        have hb := h.patch hkb hi hj cd hp hnil
        have := (ih _ (i + 1) (j + 1) i (by omega) (by omega) heq' hb (by omega) hr).1
        have e1 : i + 1 + n = i + (n + 1) := by omega
        have e2 : j + 1 + n = j + (n + 1) := by omega
        rw [e1, e2] at this
        exact this.mono (by omega)

/-- the aligned equal items between the cursor of the loop and the cursor of `dfl` -/
def Pending (A B : List J) (i j x y : Nat) : Prop :=
  i ≤ x ∧ j ≤ y ∧ x - i = y - j ∧ ∀ t, t < x - i → A[i + t]? = B[j + t]?

/-- one `addrange` of the shallow diff in `listStep` -/
theorem listStep_add (recur : Recur) (cfg : Cfg) (subpath : String) (A B : List J)
    (hok : ItemOK P recur cfg (cfg.differ subpath) subpath A B)
    (di : List Op) (i j kb x y : Nat) (vs : List J)
    (hp : Pending A B i j x y) (hxA : x ≤ A.length) (hyB : y + vs.length ≤ B.length)
    (hvs : vs = slice' B y (y + vs.length)) (hvne : vs.isEmpty = false)
    (h : BuiltM P A B di i j kb) (hkb : kb ≤ i) (hkx : kb < x ∨ di = [])
    (st : List Op × Nat × Nat)
    (hr : listStep recur cfg subpath A B (di, i, j) (.addrange x vs) = .ok st) :
    st.2.1 = x ∧ st.2.2 = y + vs.length ∧ BuiltM P A B st.1 x (y + vs.length) x := by
  obtain ⟨h1, h2, h3, h4⟩ := hp
  simp only [listStep, countConsumed, Op.idx, bind, Except.bind, pure, Except.pure] at hr
  cases hl : itemLoop recur cfg subpath A B i j (x - i) di with
  | error e => simp [hl] at hr
  | ok di1 =>
    simp only [hl, Except.ok.injEq] at hr
    subst hr
    obtain ⟨hb, hz⟩ := itemLoop_built recur cfg subpath A B hok (x - i) di di1 i j kb (by omega) (by omega) h4 h hkb hl
    have e1 : i + (x - i) = x := by omega
    have e2 : j + (x - i) = y := by omega
    rw [e1, e2] at hb
    refine ⟨by simp; omega, by simp; omega, ?_⟩
    obtain ⟨p, d1, d2, d3, d4⟩ := hb
    have hlt : ∀ o ∈ di1, o.idx < x := by
      by_cases hn : x - i = 0
      · have := hz hn
        subst this
        intro o ho
        rcases hkx with hkx | hkx
        · obtain ⟨_, _, _, g3, _⟩ := h
          have := g3 o ho; omega
        · subst hkx; simp at ho
      · intro o ho
        have := d3 o ho
        omega
    show BuiltM P A B (seqAppend di1 (.addrange x vs)) x (y + vs.length) x
    rw [seqAppend_end di1 (.addrange x vs) (by simpa [Op.idx] using hlt)]
    refine ⟨p ++ [.add x vs], d1.append (.add x vs .nil), ?_, ?_, ?_⟩
    · have := BuiltC.push A B p x y (.add x vs) d2 rfl (by simpa [POp.out] using hvs) (by simpa [POp.out] using hyB)
        (by simp [POp.eat]; omega)
      simpa [POp.eat, POp.out] using this
    · intro o ho
      simp only [List.mem_append, List.mem_singleton] at ho
      rcases ho with ho | rfl
      · exact Nat.le_of_lt (hlt o ho)
      · simp [Op.idx]
    · exact d4.snoc (by simpa [okEntry] using hvne) (fun o ho => Or.inl (by simpa [Op.idx] using hlt o ho))

/-- one `removerange` of the shallow diff in `listStep` -/
theorem listStep_rem (recur : Recur) (cfg : Cfg) (subpath : String) (A B : List J)
    (hok : ItemOK P recur cfg (cfg.differ subpath) subpath A B)
    (di : List Op) (i j kb x y m : Nat)
    (hp : Pending A B i j x y) (hxA : x + m ≤ A.length) (hyB : y ≤ B.length) (hm : 1 ≤ m)
    (h : BuiltM P A B di i j kb) (hkb : kb ≤ i)
    (st : List Op × Nat × Nat)
    (hr : listStep recur cfg subpath A B (di, i, j) (.removerange x m) = .ok st) :
    st.2.1 = x + m ∧ st.2.2 = y ∧ BuiltM P A B st.1 (x + m) y x := by
  obtain ⟨h1, h2, h3, h4⟩ := hp
  simp only [listStep, countConsumed, Op.idx, bind, Except.bind, pure, Except.pure] at hr
  cases hl : itemLoop recur cfg subpath A B i j (x - i) di with
  | error e => simp [hl] at hr
  | ok di1 =>
    simp only [hl, Except.ok.injEq] at hr
    subst hr
    obtain ⟨hb, _⟩ := itemLoop_built recur cfg subpath A B hok (x - i) di di1 i j kb (by omega) (by omega) h4 h hkb hl
    have e1 : i + (x - i) = x := by omega
    have e2 : j + (x - i) = y := by omega
    rw [e1, e2] at hb
    refine ⟨by simp; omega, by simp; omega, ?_⟩
    obtain ⟨p, d1, d2, d3, d4⟩ := hb
    show BuiltM P A B (seqAppend di1 (.removerange x m)) (x + m) y x
    rw [seqAppend_end_nonadd di1 (.removerange x m) rfl (fun o ho => by
      have := d3 o ho
      show o.idx ≤ x
      omega)]
    refine ⟨p ++ [.rem x m], d1.append (.rem x m .nil), ?_, ?_, ?_⟩
    · have := BuiltC.push A B p x y (.rem x m) d2 rfl (by simp [POp.out, slice'_self]) (by simp [POp.out]; omega)
        (by simpa [POp.eat] using hxA)
      simpa [POp.eat, POp.out] using this
    · intro o ho
      simp only [List.mem_append, List.mem_singleton] at ho
      rcases ho with ho | rfl
      · have := d3 o ho; omega
      · simp [Op.idx]
    · have hcur : ∀ q ∈ p, q.key + q.eat ≤ x := fun q hq =>
        Nat.le_trans (run_entry_le p 0 A q hq) d2.1.1
      have hna := denotes_nonadd_lt d1 d4.1 hcur
      refine d4.snoc (by simp [okEntry]; omega) (fun o ho => ?_)
      cases hadd : o.isAdd with
      | false => exact Or.inl (by simpa [Op.idx] using hna o ho hadd)
      | true =>
        have hle : o.idx ≤ x := by have := d3 o ho; omega
        by_cases hlt : o.idx < x
        · exact Or.inl (by simpa [Op.idx] using hlt)
        · exact Or.inr ⟨by show o.idx = x; omega, hadd, rfl⟩

theorem Pending.refl (A B : List J) (x y : Nat) : Pending A B x y x y :=
  ⟨Nat.le_refl _, Nat.le_refl _, by omega, fun t ht => absurd ht (by omega)⟩

/-- the entries `dfl` emits for one gap, run through `listStep` -/
theorem gapFold (recur : Recur) (cfg : Cfg) (subpath : String) (A B : List J)
    (hok : ItemOK P recur cfg (cfg.differ subpath) subpath A B)
    (di : List Op) (i j kb x y x' y' : Nat) (restOps : List Op)
    (hx : x ≤ x') (hy : y ≤ y') (hxA : x' ≤ A.length) (hyB : y' ≤ B.length)
    (hp : Pending A B i j x y) (h : BuiltM P A B di i j kb) (hkb : kb ≤ i) (hkx : kb < x ∨ di = [])
    (st : List Op × Nat × Nat)
    (hr : (((if y' > y then [SOp.addrange x ((B.drop y).take (y' - y))] else []) ++
            (if x' > x then [SOp.removerange x (x' - x)] else [])).map toOp ++ restOps).foldlM
          (listStep recur cfg subpath A B) (di, i, j) = .ok st) :
    ∃ di1 i1 j1 kb1, restOps.foldlM (listStep recur cfg subpath A B) (di1, i1, j1) = .ok st ∧
      BuiltM P A B di1 i1 j1 kb1 ∧ kb1 ≤ i1 ∧ (kb1 ≤ x' ∨ di1 = []) ∧ Pending A B i1 j1 x' y' := by
  have hlen : ((B.drop y).take (y' - y)).length = y' - y := by simp; omega
  have hvs : (B.drop y).take (y' - y) = slice' B y (y + ((B.drop y).take (y' - y)).length) := by
    rw [hlen]
    have : y + (y' - y) = y' := by omega
    rw [this]; rfl
  by_cases h1 : y' > y <;> by_cases h2 : x' > x
  · simp only [h1, h2, if_true, List.singleton_append, List.map_cons, List.map_nil, toOp, List.cons_append,
      List.nil_append, List.foldlM_cons, bind, Except.bind] at hr
    cases ha : listStep recur cfg subpath A B (di, i, j) (.addrange x ((B.drop y).take (y' - y))) with
    | error e => simp [ha] at hr
    | ok s1 =>
      simp only [ha] at hr
      obtain ⟨a1, a2, a3⟩ := listStep_add recur cfg subpath A B hok di i j kb x y _ hp (by omega)
        (by rw [hlen]; omega) hvs (by
          cases hq : (B.drop y).take (y' - y) with
          | nil => rw [hq] at hlen; simp at hlen; omega
          | cons _ _ => rfl) h hkb hkx s1 ha
      obtain ⟨d1, i1, j1⟩ := s1
      simp only at a1 a2 a3
      subst a1; subst a2
      rw [hlen] at a3 hr
      have e : y + (y' - y) = y' := by omega
      rw [e] at a3 hr
      cases hb : listStep recur cfg subpath A B (d1, i1, y') (.removerange i1 (x' - i1)) with
      | error e => simp [hb] at hr
      | ok s2 =>
        simp only [hb] at hr
        obtain ⟨b1, b2, b3⟩ := listStep_rem recur cfg subpath A B hok d1 i1 y' i1 i1 y' (x' - i1)
          (Pending.refl A B i1 y') (by omega) hyB (by omega) a3 (Nat.le_refl _) s2 hb
        obtain ⟨d2, i2, j2⟩ := s2
        simp only at b1 b2 b3
        subst b1; subst b2
        have e2 : i1 + (x' - i1) = x' := by omega
        rw [e2] at b3 hr
        exact ⟨d2, x', j2, i1, hr, b3, by omega, Or.inl (by omega), Pending.refl A B x' j2⟩
  · have hxx : x' = x := by omega
    subst hxx
    simp only [h1, h2, if_true, if_false, List.append_nil, List.map_cons, List.map_nil, toOp, List.cons_append,
      List.nil_append, List.foldlM_cons, bind, Except.bind] at hr
    cases ha : listStep recur cfg subpath A B (di, i, j) (.addrange x' ((B.drop y).take (y' - y))) with
    | error e => simp [ha] at hr
    | ok s1 =>
      simp only [ha] at hr
      obtain ⟨a1, a2, a3⟩ := listStep_add recur cfg subpath A B hok di i j kb x' y _ hp (by omega)
        (by rw [hlen]; omega) hvs (by
          cases hq : (B.drop y).take (y' - y) with
          | nil => rw [hq] at hlen; simp at hlen; omega
          | cons _ _ => rfl) h hkb hkx s1 ha
      obtain ⟨d1, i1, j1⟩ := s1
      simp only at a1 a2 a3
      subst a1; subst a2
      rw [hlen] at a3 hr
      have e : y + (y' - y) = y' := by omega
      rw [e] at a3 hr
      exact ⟨d1, i1, y', i1, hr, a3, Nat.le_refl _, Or.inl (Nat.le_refl _), Pending.refl A B i1 y'⟩
  · have hyy : y' = y := by omega
    subst hyy
    simp only [h1, h2, if_true, if_false, List.nil_append, List.map_cons, List.map_nil, toOp, List.cons_append,
      List.foldlM_cons, bind, Except.bind] at hr
    cases hb : listStep recur cfg subpath A B (di, i, j) (.removerange x (x' - x)) with
    | error e => simp [hb] at hr
    | ok s2 =>
      simp only [hb] at hr
      obtain ⟨b1, b2, b3⟩ := listStep_rem recur cfg subpath A B hok di i j kb x y' (x' - x)
        hp (by omega) hyB (by omega) h hkb s2 hb
      obtain ⟨d2, i2, j2⟩ := s2
      simp only at b1 b2 b3
      subst b1; subst b2
      have e2 : x + (x' - x) = x' := by omega
      rw [e2] at b3 hr
      exact ⟨d2, x', j2, x, hr, b3, by omega, Or.inl (by omega), Pending.refl A B x' j2⟩
  · have hxx : x' = x := by omega
    have hyy : y' = y := by omega
    subst hxx; subst hyy
    simp only [h1, h2, if_false, List.append_nil, List.map_nil, List.nil_append] at hr
    refine ⟨di, i, j, kb, hr, h, hkb, ?_, hp⟩
    rcases hkx with hkx | hkx
    · exact Or.inl (by omega)
    · exact Or.inr hkx

theorem Pending.extend {A B : List J} {i j x y : Nat} (hp : Pending A B i j x y)
    (heq : A[x]? = B[y]?) : Pending A B i j (x + 1) (y + 1) := by
  obtain ⟨h1, h2, h3, h4⟩ := hp
  refine ⟨by omega, by omega, by omega, ?_⟩
  intro t ht
  by_cases hlt : t < x - i
  · exact h4 t hlt
  · have e1 : i + t = x := by omega
    have e2 : j + t = y := by omega
    rw [e1, e2]; exact heq

/-- the whole shallow diff run through `listStep` -/
theorem listFold_built (recur : Recur) (cfg : Cfg) (subpath : String) (A B : List J)
    (hok : ItemOK P recur cfg (cfg.differ subpath) subpath A B)
    (ps : List (Nat × Nat)) (di : List Op) (i j kb x y : Nat)
    (hm : Matching A B ps x y) (hxA : x ≤ A.length) (hyB : y ≤ B.length)
    (hp : Pending A B i j x y) (h : BuiltM P A B di i j kb) (hkb : kb ≤ i) (hkx : kb < x ∨ di = [])
    (st : List Op × Nat × Nat)
    (hr : ((dfl A B ps x y).map toOp).foldlM (listStep recur cfg subpath A B) (di, i, j) = .ok st) :
    ∃ kb', BuiltM P A B st.1 st.2.1 st.2.2 kb' ∧ kb' ≤ st.2.1 ∧ Pending A B st.2.1 st.2.2 A.length B.length := by
  induction ps generalizing di i j kb x y with
  | nil =>
    have hd : B.drop y = (B.drop y).take (B.length - y) := by
      symm; apply List.take_of_length_le; simp
    have hr' : (((if B.length > y then [SOp.addrange x ((B.drop y).take (B.length - y))] else []) ++
            (if A.length > x then [SOp.removerange x (A.length - x)] else [])).map toOp ++ []).foldlM
          (listStep recur cfg subpath A B) (di, i, j) = .ok st := by
      simp only [dfl] at hr
      rw [← hd, List.append_nil]
      exact hr
    obtain ⟨di1, i1, j1, kb1, g1, g2, g3, _, g5⟩ := gapFold recur cfg subpath A B hok di i j kb x y
      A.length B.length [] hxA hyB (Nat.le_refl _) (Nat.le_refl _) hp h hkb hkx st hr'
    simp only [List.foldlM_nil, pure, Except.pure, Except.ok.injEq] at g1
    subst g1
    exact ⟨kb1, g2, g3, g5⟩
  | cons p ps ih =>
    obtain ⟨pi, pj⟩ := p
    obtain ⟨hxi, hyj, hi, hj, heq, hrest⟩ := hm
    have hr' : (((if pj > y then [SOp.addrange x ((B.drop y).take (pj - y))] else []) ++
            (if pi > x then [SOp.removerange x (pi - x)] else [])).map toOp ++
            (dfl A B ps (pi + 1) (pj + 1)).map toOp).foldlM
          (listStep recur cfg subpath A B) (di, i, j) = .ok st := by
      simp only [dfl, List.map_append] at hr ⊢
      exact hr
    obtain ⟨di1, i1, j1, kb1, g1, g2, g3, g4, g5⟩ := gapFold recur cfg subpath A B hok di i j kb x y
      pi pj _ hxi hyj (by omega) (by omega) hp h hkb hkx st hr'
    exact ih di1 i1 j1 kb1 (pi + 1) (pj + 1) hrest (by omega) (by omega) (g5.extend heq) g2 g3
      (by rcases g4 with g4 | g4
          · exact Or.inl (by omega)
          · exact Or.inr g4) g1

/-- `diff_lists` (single-predicate path), for any item relation: a finished construction -/
theorem diffLists_single_built (O : Oracle) (recur : Recur) (cfg : Cfg) (path : String) (A B : List J)
    (c0 : String) (hnames : cfg.preds (orSlash path) = [c0])
    (hstrict : ∀ i j (hi : i < A.length) (hj : j < B.length), O.pred c0 A[i] B[j] = .ok true → A[i] = B[j])
    (hok : ItemOK P recur cfg (cfg.differ (path ++ "/*")) (path ++ "/*") A B)
    (d : List Op) (h : diffLists O recur cfg path A B = .ok d) :
    ∃ kb, BuiltM P A B d A.length B.length kb := by
  unfold diffLists at h
  simp only [hnames, List.length_singleton, Nat.lt_irrefl, if_false, List.getElem?_cons_zero, bind,
    Except.bind, pure, Except.pure] at h
  cases hs : diffSequence (O.pred c0) A B with
  | error e => simp [hs] at h
  | ok shallow =>
    simp only [hs] at h
    obtain ⟨ps, hm, rfl⟩ := diffSequence_spec (O.pred c0) A B shallow hstrict hs
    cases hf : ((dfl A B ps 0 0).map toOp).foldlM (listStep recur cfg (path ++ "/*") A B) ([], 0, 0) with
    | error e => simp [hf] at h
    | ok st =>
      obtain ⟨di, i, j⟩ := st
      simp only [hf] at h
      obtain ⟨kb', g1, g2, g3⟩ := listFold_built recur cfg (path ++ "/*") A B hok ps [] 0 0 0 0 0 hm
        (Nat.zero_le _) (Nat.zero_le _) (Pending.refl A B 0 0) (BuiltM.init A B) (Nat.le_refl _) (Or.inr rfl)
        (di, i, j) hf
      simp only at g1 g2 g3
      obtain ⟨p1, p2, p3, p4⟩ := g3
      split at h
      · cases h
      · split at h
        · cases h
        · obtain ⟨hb, _⟩ := itemLoop_built recur cfg (path ++ "/*") A B hok (A.length - i) di d i j kb'
            (by omega) (by omega) p4 g1 g2 h
          have e1 : i + (A.length - i) = A.length := by omega
          have e2 : j + (A.length - i) = B.length := by omega
          rw [e1, e2] at hb
          exact ⟨_, hb⟩

/-- `diff_lists` (single-predicate path) then `patch_list`: exact round trip -/
theorem diffLists_single_roundtrip (O : Oracle) (recur : Recur) (cfg : Cfg) (path : String) (A B : List J)
    (c0 : String) (hnames : cfg.preds (orSlash path) = [c0])
    (hstrict : ∀ i j (hi : i < A.length) (hj : j < B.length), O.pred c0 A[i] B[j] = .ok true → A[i] = B[j])
    (hok : ItemOK PatchRel recur cfg (cfg.differ (path ++ "/*")) (path ++ "/*") A B)
    (d : List Op) (h : diffLists O recur cfg path A B = .ok d) : patchList A d 0 = .ok B := by
  obtain ⟨kb, hb⟩ := diffLists_single_built O recur cfg path A B c0 hnames hstrict hok d h
  exact hb.done

end Nbdime
