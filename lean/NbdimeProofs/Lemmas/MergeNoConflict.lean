import NbdimeProofs.Lemmas.MergeDisjoint
/-
  C10, first clause, for the model of the merger: under a `use-…` root strategy and a strategy
  table without marker-producing strategies no decision is left conflicted.
  Invariant carried through the whole decision procedure (`UInv`): a conflicted decision has not
  been claimed by a strategy. Proof style: partial-correctness triples `SatE` for `Except`.
-/
namespace Nbdime
namespace Merge


/-- partial-correctness triple for `Except`: if the computation succeeds, the result satisfies `P` -/
def SatE {α} (P : α → Prop) (x : Except Err α) : Prop := ∀ a, x = .ok a → P a

theorem SatE.ok {α} {P : α → Prop} {a : α} (h : P a) : SatE P (.ok a) := by
  intro b hb; cases hb; exact h
theorem SatE.pure {α} {P : α → Prop} {a : α} (h : P a) : SatE P (pure a) := SatE.ok h
theorem SatE.error {α} {P : α → Prop} {e : Err} : SatE P (.error e) := by intro b hb; cases hb
theorem SatE.throw {α} {P : α → Prop} {e : Err} : SatE P (throw e : Except Err α) := SatE.error
theorem SatE.bind {α β} {P : α → Prop} {Q : β → Prop} {x : Except Err α} {f : α → Except Err β}
    (hx : SatE P x) (hf : ∀ a, P a → SatE Q (f a)) : SatE Q (x >>= f) := by
  intro b hb
  cases x with
  | error e => cases hb
  | ok a => exact hf a (hx a rfl) b hb
theorem SatE.bind_any {α β} {Q : β → Prop} {x : Except Err α} {f : α → Except Err β}
    (hf : ∀ a, SatE Q (f a)) : SatE Q (x >>= f) :=
  SatE.bind (P := fun _ => True) (fun _ _ => trivial) (fun a _ => hf a)
theorem SatE.imp {α} {P Q : α → Prop} {x : Except Err α} (h : SatE P x) (hpq : ∀ a, P a → Q a) : SatE Q x :=
  fun a ha => hpq a (h a ha)
theorem SatE.intro {α} {P : α → Prop} {x : Except Err α} (h : ∀ a, x = .ok a → P a) : SatE P x := h
theorem SatE.of {α} {P : α → Prop} {x : Except Err α} {a : α} (h : SatE P x) (hx : x = .ok a) : P a := h a hx

attribute [irreducible] SatE

def UInv (b : B) : Prop := ∀ d ∈ b, d.conflict = true → truthy d.strategy = false

theorem UInv.nil : UInv [] := by intro d h; cases h
theorem UInv.append {a b : B} (ha : UInv a) (hb : UInv b) : UInv (a ++ b) := by
  intro d h; rcases List.mem_append.mp h with h | h
  · exact ha d h
  · exact hb d h
theorem UInv.add {b : B} (hb : UInv b) {path action ld rd} {c : Bool} {st : Option String} {cu si}
    (hp : c = true → truthy st = false) : UInv (addDecision b path action ld rd c st cu si) := by
  intro d h
  unfold addDecision at h
  simp only [List.mem_append, List.mem_singleton] at h
  rcases h with h | h
  · exact hb d h
  · subst h; exact hp

theorem sat_onesided {b : B} {path ld rd} (hb : UInv b) : SatE UInv (onesided b path ld rd) := by
  unfold onesided
  split
  · exact SatE.error
  · split
    · exact SatE.error
    · exact SatE.ok (hb.add (by simp))

theorem sat_agreement {b : B} {path ld rd} (hb : UInv b) : SatE UInv (agreement b path ld rd) := by
  unfold agreement
  split
  · exact SatE.error
  · split
    · exact SatE.error
    · exact SatE.ok (hb.add (by simp))

theorem sat_sequential {a : String} {b : B} {path ld rd} {c : Bool} (hb : UInv b) :
    SatE UInv (sequential a b path ld rd c none) := by
  unfold sequential
  split
  · exact SatE.error
  · exact SatE.ok (hb.add (by simp [truthy]))

theorem sat_localD {b : B} {path ld rd} (hb : UInv b) : SatE UInv (localD b path ld rd) := by
  unfold localD
  split
  · exact SatE.error
  · exact SatE.ok (hb.add (by simp))

theorem sat_remoteD {b : B} {path ld rd} (hb : UInv b) : SatE UInv (remoteD b path ld rd) := by
  unfold remoteD
  split
  · exact SatE.error
  · exact SatE.ok (hb.add (by simp))

theorem inv_baseD {b : B} {path ld rd} (hb : UInv b) : UInv (baseD b path ld rd) := hb.add (by simp)


/-- close a leaf `SatE P (.ok e)` / `.error` after all matches are split; `lemmas` produce `UInv` facts from equations in context -/
macro "sat_leaf" : tactic => `(tactic| first
  | exact SatE.error
  | exact SatE.ok (by assumption)
  | (apply SatE.ok; first | assumption | (apply UInv.add; first | assumption | simp [truthy])))

theorem sat_tryresolve {b : B} {path ld rd st} (hb : UInv b) :
    SatE (fun r => UInv r.1) (tryresolve b path ld rd st) := by
  unfold tryresolve
  simp only [bind, Except.bind, pure, Except.pure]
  repeat' split
  all_goals first
    | exact SatE.error
    | exact SatE.ok hb
    | exact SatE.ok (hb.add (by simp))

theorem inv_tryresolveX {b : B} {path ld rd st} {r : B × Option String} (hb : UInv b) (h : tryresolve b path ld rd st = .ok r) : UInv r.1 := (sat_tryresolve hb).of h

theorem sat_conflictD {b : B} {path ld rd st si} (hb : UInv b) : SatE UInv (conflictD b path ld rd st si) := by
  unfold conflictD
  simp only [bind, Except.bind, pure, Except.pure]
  repeat' split
  all_goals first
    | exact SatE.error
    | exact SatE.ok (hb.add (by simp [truthy]))
    | (apply SatE.ok; grind [→ inv_tryresolveX])


theorem inv_onesided {b b' : B} {path ld rd} (hb : UInv b) (h : onesided b path ld rd = .ok b') : UInv b' := (sat_onesided hb).of h
theorem inv_agreement {b b' : B} {path ld rd} (hb : UInv b) (h : agreement b path ld rd = .ok b') : UInv b' := (sat_agreement hb).of h
theorem inv_conflictD {b b' : B} {path ld rd st si} (hb : UInv b) (h : conflictD b path ld rd st si = .ok b') : UInv b' := (sat_conflictD hb).of h
theorem inv_sequential {a} {b b' : B} {path ld rd c} (hb : UInv b) (h : sequential a b path ld rd c none = .ok b') : UInv b' := (sat_sequential hb).of h
theorem inv_localD {b b' : B} {path ld rd} (hb : UInv b) (h : localD b path ld rd = .ok b') : UInv b' := (sat_localD hb).of h
theorem inv_remoteD {b b' : B} {path ld rd} (hb : UInv b) (h : remoteD b path ld rd = .ok b') : UInv b' := (sat_remoteD hb).of h
theorem inv_tryresolve {b : B} {path ld rd st} {r : B × Option String} (hb : UInv b) (h : tryresolve b path ld rd st = .ok r) : UInv r.1 := (sat_tryresolve hb).of h

theorem sat_splitStep {key : Nat} {loc rem : List J} {path : List PKey} {st : Option String} {d : Op} {next : Option Op}
    {s : SplitState} (hb : UInv s.b) : SatE (fun r => UInv r.1.b) (splitStep key loc rem path st d next s) := by
  unfold splitStep
  simp only [bind, Except.bind, pure, Except.pure, throw, throwThe, MonadExceptOf.throw]
  repeat' split
  all_goals first
    | exact SatE.error
    | (apply SatE.ok; grind [→ inv_onesided, → inv_agreement, → inv_conflictD])

theorem sat_splitLoop {key : Nat} {loc rem : List J} {path : List PKey} {st : Option String} :
    ∀ (ds : List Op) (sk : Bool) (s : SplitState), UInv s.b →
      SatE (fun r => UInv r.b) (splitLoop key loc rem path st ds sk s)
  | [], _, s, hb => by unfold splitLoop; exact SatE.ok hb
  | _ :: rest, true, s, hb => by unfold splitLoop; exact sat_splitLoop rest false s hb
  | d :: rest, false, s, hb => by
      unfold splitLoop
      simp only [bind, Except.bind]
      split
      · exact SatE.error
      · rename_i r hr
        exact sat_splitLoop rest r.2 r.1 ((sat_splitStep hb).of hr)

theorem inv_splitLoop {key : Nat} {loc rem : List J} {path : List PKey} {st : Option String} {ds sk} {s s' : SplitState}
    (hb : UInv s.b) (h : splitLoop key loc rem path st ds sk s = .ok s') : UInv s'.b := (sat_splitLoop ds sk s hb).of h

theorem inv_splitLoop0 {key : Nat} {loc rem : List J} {path : List PKey} {st : Option String} {ds sk} {s' : SplitState}
    (h : splitLoop key loc rem path st ds sk { b := [], taken := 0, offset := 0 } = .ok s') : UInv s'.b :=
  inv_splitLoop (s := { b := [], taken := 0, offset := 0 }) UInv.nil h

/-- leaf closer after `repeat' split`: the remaining computation is an error, a value, or a tail call of a builder operation -/
macro "sat_leaves" "[" ls:Lean.Parser.Tactic.grindParam,* "]" : tactic => `(tactic|
  all_goals first
    | exact SatE.error
    | (apply SatE.ok; grind [$ls,*])
    | (apply sat_agreement; grind [$ls,*])
    | (apply sat_onesided; grind [$ls,*])
    | (apply sat_conflictD; grind [$ls,*])
    | (apply sat_localD; grind [$ls,*])
    | (apply sat_remoteD; grind [$ls,*])
    | (apply sat_sequential; grind [$ls,*]))

theorem sat_splitAddrange {E : Env} {key : Nat} {loc rem : List J} {path : List PKey} {st : Option String} :
    SatE UInv (splitAddrange E key loc rem path st) := by
  unfold splitAddrange
  simp only [bind, Except.bind, pure, Except.pure, throw, throwThe, MonadExceptOf.throw]
  repeat' split
  sat_leaves [→ inv_splitLoop0, → inv_agreement]

theorem inv_splitAddrange {E : Env} {key : Nat} {loc rem : List J} {path : List PKey} {st : Option String} {b : B}
    (h : splitAddrange E key loc rem path st = .ok b) : UInv b := sat_splitAddrange.of h

theorem sat_concurrentInserts {E : Env} {ld rd : List Op} {path : List PKey} {st : Option String} :
    SatE UInv (concurrentInserts E ld rd path st) := by
  unfold concurrentInserts
  simp only [bind, Except.bind, pure, Except.pure, throw, throwThe, MonadExceptOf.throw]
  have h0 : UInv [] := UInv.nil
  repeat' split
  sat_leaves [→ inv_splitAddrange, → inv_agreement, → inv_onesided, → inv_conflictD]

theorem inv_concurrentInserts {E : Env} {ld rd : List Op} {path : List PKey} {st : Option String} {b : B}
    (h : concurrentInserts E ld rd path st = .ok b) : UInv b := sat_concurrentInserts.of h

theorem sat_chunkDeleteVsPatch {E : Env} {rec : Rec} {inStr : Bool} {base : List J} {path : List PKey} {ls is_ : Option String}
    {b : B} {key : Nat} {p0 p1 : List Op} {e0 e1 : Op}
    (hrec : ∀ i bv l r p sub, rec i bv l r p = .ok sub → UInv sub) (hb : UInv b) :
    SatE UInv (chunkDeleteVsPatch E rec inStr base path ls is_ b key p0 p1 e0 e1) := by
  unfold chunkDeleteVsPatch
  simp only [bind, Except.bind, pure, Except.pure, throw, throwThe, MonadExceptOf.throw]
  repeat' split
  sat_leaves [UInv.append, inv_baseD]

theorem inv_chunkDeleteVsPatch {E : Env} {rec : Rec} {inStr : Bool} {base : List J} {path : List PKey} {ls is_ : Option String}
    {b b' : B} {key : Nat} {p0 p1 : List Op} {e0 e1 : Op}
    (hrec : ∀ i bv l r p sub, rec i bv l r p = .ok sub → UInv sub) (hb : UInv b)
    (h : chunkDeleteVsPatch E rec inStr base path ls is_ b key p0 p1 e0 e1 = .ok b') : UInv b' :=
  (sat_chunkDeleteVsPatch hrec hb).of h

theorem sat_chunkPatchRemove {E : Env} {rec : Rec} {inStr : Bool} {base : List J} {path : List PKey} {ls is_ : Option String}
    {b : B} {key : Nat} {p0 p1 : List Op} {pc : String}
    (hrec : ∀ i bv l r p sub, rec i bv l r p = .ok sub → UInv sub) (hb : UInv b) :
    SatE UInv (chunkPatchRemove E rec inStr base path ls is_ b key p0 p1 pc) := by
  unfold chunkPatchRemove
  simp only [bind, Except.bind, pure, Except.pure, throw, throwThe, MonadExceptOf.throw]
  repeat' split
  all_goals first
    | exact SatE.error
    | exact sat_agreement hb
    | exact sat_chunkDeleteVsPatch hrec hb
    | (apply SatE.ok; grind [UInv.append])

theorem sat_chunkPriorInsert {E : Env} {path : List PKey} {is_ : Option String} {b : B} {a0 a1 : List Op} {ac : String}
    (hb : UInv b) : SatE UInv (chunkPriorInsert E path is_ b a0 a1 ac) := by
  unfold chunkPriorInsert
  simp only [bind, Except.bind, pure, Except.pure]
  repeat' split
  sat_leaves [→ inv_concurrentInserts, UInv.append]

theorem sat_chunkSwitch {E : Env} {rec : Rec} {inStr : Bool} {base : List J} {path : List PKey} {ls is_ : Option String}
    {b : B} {key : Nat} {d0 d1 a0 p0 a1 p1 : List Op} {ck pc ac : String}
    (hrec : ∀ i bv l r p sub, rec i bv l r p = .ok sub → UInv sub) (hb : UInv b) :
    SatE UInv (chunkSwitch E rec inStr base path ls is_ b key d0 d1 a0 p0 a1 p1 ck pc ac) := by
  unfold chunkSwitch
  simp only [bind, Except.bind, pure, Except.pure, throw, throwThe, MonadExceptOf.throw]
  repeat' split
  all_goals first
    | exact SatE.error
    | exact sat_chunkPatchRemove hrec ((sat_chunkPriorInsert hb).of (by assumption))
    | (apply SatE.ok; grind [→ inv_concurrentInserts, → inv_tryresolve, UInv.append])
    | (apply sat_agreement; grind [→ inv_onesided])
    | (apply sat_onesided; grind [→ inv_concurrentInserts, UInv.append])
    | (apply sat_sequential; grind)

theorem sat_mergeChunk {E : Env} {rec : Rec} {inStr : Bool} {base : List J} {path : List PKey} {ls is_ : Option String}
    {b : B} {c : Chunk} (hrec : ∀ i bv l r p sub, rec i bv l r p = .ok sub → UInv sub) (hb : UInv b) :
    SatE UInv (mergeChunk E rec inStr base path ls is_ b c) := by
  unfold mergeChunk
  exact sat_chunkSwitch hrec hb

/-! ### resolvers under a table without inline / record strategies -/

def plainStrategy (s : Option String) : Prop :=
  s ≠ some "inline-outputs" ∧ s ≠ some "inline-cells" ∧ s ≠ some "record-conflict" ∧
  s ≠ some "inline-attachments" ∧ s ≠ some "inline-source"

def QD (d : MD) : Prop := d.conflict = true → truthy d.strategy = false

theorem uinv_iff {b : B} : UInv b ↔ ∀ d ∈ b, QD d := Iff.rfl

theorem mapM_inv {f : MD → Except Err MD} (hf : ∀ d d', f d = .ok d' → QD d → QD d') :
    ∀ (l l' : List MD), l.mapM f = .ok l' → (∀ d ∈ l, QD d) → ∀ d' ∈ l', QD d'
  | [], l', h, _ => by
      simp only [List.mapM_nil, pure, Except.pure, Except.ok.injEq] at h; subst h; intro d hd; cases hd
  | x :: rest, l', h, hq => by
      simp only [List.mapM_cons, bind, Except.bind] at h
      split at h
      · cases h
      · rename_i x' hx'
        split at h
        · cases h
        · rename_i rest' hrest'
          simp only [pure, Except.pure, Except.ok.injEq] at h; subst h
          intro d hd
          simp only [List.mem_cons] at hd
          rcases hd with hd | hd
          · subst hd; exact hf x _ hx' (hq x List.mem_cons_self)
          · exact mapM_inv hf rest rest' hrest' (fun d hd' => hq d (List.mem_cons_of_mem _ hd')) d hd

theorem inv_resolveGeneric {b : B} {s : Option String} (hb : UInv b) : UInv (resolveGeneric b s) := by
  unfold resolveGeneric
  split
  · exact hb
  · simp only []
    split
    · intro d hd
      rw [List.mem_map] at hd
      obtain ⟨x, hx, rfl⟩ := hd
      split
      · simp
      · exact hb x hx
    · exact hb

theorem sat_removeOutputs {path : List PKey} {b : B} : SatE UInv (removeOutputs path b) := by
  unfold removeOutputs
  simp only [bind, Except.bind]
  split
  · exact SatE.error
  · rename_i idx _
    apply SatE.intro
    intro r hr
    refine foldlM_inv UInv _ idx [] r (fun kd _ x y hx hy => ?_) UInv.nil hr
    obtain ⟨key, decs⟩ := kd
    simp only [bind, Except.bind, pure, Except.pure] at hy
    split at hy
    · rename_i hnc
      simp only [Except.ok.injEq] at hy; subst hy
      refine hx.append ?_
      intro d hd hc
      simp only [Bool.not_eq_true', List.any_eq_false] at hnc
      exact absurd hc (by simpa using hnc d hd)
    · have hadd : ∀ l r c, UInv (customD x path l r c false (some "remove")) := fun l r c => UInv.add hx (by simp)
      repeat' split at hy
      all_goals first
        | (cases hy; exact hadd _ _ _)
        | cases hy
        | (simp only [Except.ok.injEq] at hy; subst hy; exact hadd _ _ _)

theorem sat_resolveList {render : Render} {path : List PKey} {base : List J} {b : B} {s : Option String}
    (hs : plainStrategy s) (hb : UInv b) : SatE UInv (resolveList render path base b s) := by
  obtain ⟨h1, h2, h3, h4, h5⟩ := hs
  unfold resolveList
  split
  · exact SatE.ok hb
  · have e1 : (s.getD "" == "inline-outputs") = false := by
      cases s with
      | none => simp
      | some v => simpa using h1
    have e2 : (s.getD "" == "inline-cells") = false := by
      cases s with
      | none => simp
      | some v => simpa using h2
    simp only [e1, e2, Bool.false_eq_true, if_false]
    split
    · exact sat_removeOutputs
    · split
      · apply SatE.intro
        intro r hr
        exact mapM_inv (fun d d' hd hq => by
          simp only [bind, Except.bind, pure, Except.pure] at hd
          split at hd
          · split at hd
            · cases hd
            · split at hd
              · simp only [Except.ok.injEq] at hd; subst hd; exact hq
              · simp only [Except.ok.injEq] at hd; subst hd; intro hc; simp at hc
          · simp only [Except.ok.injEq] at hd; subst hd; exact hq) b r hr hb
      · split
        · simp only [bind, Except.bind, pure, Except.pure]
          split
          · exact SatE.error
          · exact SatE.ok (UInv.add UInv.nil (by simp))
        · split
          · exact SatE.ok hb
          · exact SatE.ok (inv_resolveGeneric hb)

theorem getD_ne {s : Option String} {v : String} (h : s ≠ some v) : (s.getD "" == v) = false ∨ s = none := by
  cases s with
  | none => exact Or.inr rfl
  | some w => left; simpa using h

theorem sat_resolveDict {path : List PKey} {base : List (String × J)} {b : B} {s : Option String}
    (hs : plainStrategy s) (hb : UInv b) : SatE UInv (resolveDict path base b s) := by
  obtain ⟨_, _, h3, h4, _⟩ := hs
  unfold resolveDict
  split
  · exact SatE.ok hb
  · rename_i hg
    have hsome : s ≠ none := by
      intro hn; subst hn; simp [guardOk, truthy] at hg
    have e3 : (s.getD "" == "record-conflict") = false := by
      rcases getD_ne h3 with h | h
      · exact h
      · exact absurd h hsome
    have e4 : (s.getD "" == "inline-attachments") = false := by
      rcases getD_ne h4 with h | h
      · exact h
      · exact absurd h hsome
    simp only [e3, e4, Bool.false_eq_true, if_false]
    split
    · exact SatE.ok hb
    · exact SatE.ok (inv_resolveGeneric hb)

theorem inv_resolveStrings {b : B} {s : Option String} (hb : UInv b) : UInv (resolveStrings b s) := by
  unfold resolveStrings
  split
  · exact hb
  · simp only []
    split
    · intro d hd
      rw [List.mem_map] at hd
      obtain ⟨x, hx, rfl⟩ := hd
      split
      · simp
      · exact hb x hx
    · split
      · exact hb
      · exact inv_resolveGeneric hb

def PlainTable (S : Strategies) : Prop := ∀ k, plainStrategy (S.get k)

theorem sat_mergeLists {E : Env} {rec : Rec} {inStr : Bool} {base : List J} {ld rd : List Op} {path : List PKey}
    (hS : PlainTable E.S) (hrec : ∀ i bv l r p sub, rec i bv l r p = .ok sub → UInv sub) :
    SatE UInv (mergeLists E rec inStr base ld rd path) := by
  unfold mergeLists
  simp only [bind, Except.bind]
  split
  · exact SatE.error
  · split
    · exact SatE.error
    · rename_i chunks _ _ b0 hb0
      have h0 : UInv b0 :=
        foldlM_inv UInv _ chunks [] b0 (fun c _ x y hx hy => (sat_mergeChunk hrec hx).of hy) UInv.nil hb0
      exact sat_resolveList (hS _) h0

theorem sat_dictBoth {E : Env} {rec : Rec} {inStr : Bool} {base : List (String × J)} {path : List PKey} {sp : String}
    {b : B} {key : String} {le re : Op} (hrec : ∀ i bv l r p sub, rec i bv l r p = .ok sub → UInv sub) (hb : UInv b) :
    SatE UInv (dictBoth E rec inStr base path sp b key le re) := by
  unfold dictBoth
  simp only [bind, Except.bind, pure, Except.pure, throw, throwThe, MonadExceptOf.throw]
  repeat' split
  all_goals first
    | exact SatE.error
    | (apply SatE.ok; grind [UInv.append])
    | exact sat_agreement hb
    | exact sat_localD hb
    | exact sat_remoteD hb
    | exact sat_conflictD hb

theorem sat_mergeDicts {E : Env} {rec : Rec} {inStr : Bool} {base : List (String × J)} {ld rd : List Op} {path : List PKey}
    (hS : PlainTable E.S) (hrec : ∀ i bv l r p sub, rec i bv l r p = .ok sub → UInv sub) :
    SatE UInv (mergeDicts E rec inStr base ld rd path) := by
  unfold mergeDicts
  simp only [bind, Except.bind]
  split
  · exact SatE.error
  · split
    · exact SatE.error
    · split
      · exact SatE.error
      · rename_i v1 hv1
        have h1 : UInv v1 :=
          foldlM_inv UInv _ _ [] v1 (fun k _ x y hx hy => inv_onesided hx hy) UInv.nil hv1
        split
        · exact SatE.error
        · rename_i v2 hv2
          have h2 : UInv v2 := by
            refine foldlM_inv UInv _ _ v1 v2 (fun k _ x y hx hy => ?_) h1 hv2
            split at hy
            · exact (sat_dictBoth hrec hx).of hy
            · cases hy
          exact sat_resolveDict (hS _) h2

theorem sat_mergeStrings {E : Env} {rec : Rec} {inStr : Bool} {base : List Char} {ld rd : MDiff} {path : List PKey}
    (hS : PlainTable E.S) (hrec : ∀ i bv l r p sub, rec i bv l r p = .ok sub → UInv sub) :
    SatE UInv (mergeStrings E rec inStr base ld rd path) := by
  unfold mergeStrings
  split
  · repeat' split
    all_goals first
      | exact SatE.error
      | exact sat_conflictD UInv.nil
  · have hne : (E.S.get (starPath path) == some "inline-source") = false := by
      have := (hS (starPath path)).2.2.2.2
      simpa using this
    simp only [bind, Except.bind, hne, Bool.false_eq_true, if_false, pure, Except.pure]
    repeat' split
    all_goals first
      | exact SatE.error
      | (apply SatE.ok; apply inv_resolveStrings; rename_i hq; first
          | exact (sat_sequential (c := false) UInv.nil).of hq
          | exact (sat_mergeLists hS hrec).of hq)

theorem sat_mergeF {E : Env} (hS : PlainTable E.S) : ∀ (fuel : Nat) (inStr : Bool) (base : J) (ld rd : MDiff)
    (path : List PKey), SatE UInv (mergeF E fuel inStr base ld rd path)
  | 0, _, _, _, _, _ => by unfold mergeF; exact SatE.error
  | fuel + 1, inStr, base, ld, rd, path => by
      have ih : ∀ i bv l r p sub, mergeF E fuel i bv l r p = .ok sub → UInv sub :=
        fun i bv l r p sub h => (sat_mergeF hS fuel i bv l r p).of h
      unfold mergeF
      repeat' split
      all_goals first
        | exact SatE.error
        | exact sat_mergeDicts hS ih
        | exact sat_mergeLists hS ih
        | exact sat_mergeStrings hS ih

/-- tables in which no value is one of the marker-producing strategies -/
def plainValues (S : Strategies) : Prop :=
  ∀ kv ∈ S.table, kv.2 ≠ "inline-outputs" ∧ kv.2 ≠ "inline-cells" ∧ kv.2 ≠ "record-conflict" ∧
    kv.2 ≠ "inline-attachments" ∧ kv.2 ≠ "inline-source"

theorem plainTable_of_values {S : Strategies} (h : plainValues S) : PlainTable S := by
  intro k
  unfold Strategies.get
  simp only []
  cases hl : lookupKV _ S.table with
  | none => simp [plainStrategy]
  | some v =>
    have := h _ (lookupKV_mem hl)
    simp only [plainStrategy, ne_eq, Option.some.injEq]
    exact this

/-- **C10, first clause, for the model of the merger**: under a root strategy `use-…` and a strategy
    table without marker-producing (inline / record) strategies — the tables `--merge-strategy use-base|use-local|use-remote`
    builds — no decision of the merge is left conflicted: for every base, every pair of diffs, every oracle. -/
theorem decideMerge_useX_noConflict {E : Env} {base : J} {ld rd : List Op} {ds : List MD} {s : String}
    (hv : plainValues E.S) (hroot : E.S.get "/" = some s) (hs : isUse s = true)
    (h : decideMerge E base ld rd = .ok ds) : ∀ d ∈ ds, d.conflict = false := by
  unfold decideMerge at h
  simp only [bind, Except.bind] at h
  split at h
  · cases h
  · rename_i b hb
    have h0 : UInv b := (sat_mergeF (plainTable_of_values hv) bigFuel false base (.d ld) (.d rd) []).of hb
    simp only [pure, Except.pure, Except.ok.injEq] at h
    subst h
    intro d hd
    unfold validated at hd
    have hd' := mem_sortDesc _ d hd
    rw [List.mem_map] at hd'
    obtain ⟨x, hx, rfl⟩ := hd'
    simp only []
    -- x is a member of `resolveGeneric b (some s)`
    rw [hroot] at hx
    unfold resolveGeneric at hx
    split at hx
    · rename_i hg
      -- guard false: no conflicted decision at all
      have : hasConflicted b = false := by
        have hne : s ≠ "" := by intro he; subst he; revert hs; decide
        have hm : s ≠ "mergetool" := by intro he; subst he; revert hs; decide
        simp [guardOk, truthy, hne, hm] at hg
        exact hg
      unfold hasConflicted at this
      rw [List.any_eq_false] at this
      simpa using this x hx
    · simp only [Option.getD_some, hs, if_true] at hx
      rw [List.mem_map] at hx
      obtain ⟨y, hy, rfl⟩ := hx
      split
      · rfl
      · rename_i hc
        cases hyc : y.conflict with
        | false => rfl
        | true =>
          have := h0 y hy hyc
          simp [hyc, this] at hc

end Merge
end Nbdime
