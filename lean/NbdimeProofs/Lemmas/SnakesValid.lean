import NbdimeProofs.Lemmas.LcsMatching
/-
  Whatever the similarity predicates answer, `compute_snakes` and `compute_snakes_multilevel`
  (model: `computeSnakes`, `snakesML`) return an ordered chain of non-empty snakes inside the
  rectangle they were asked about.  This is all that `compute_diff_from_snakes` needs.
-/
namespace Nbdime

/-- ordered, non-empty snakes from `(i0, j0)` on, all inside `N × M` -/
def SnakesIn (N M : Nat) : List Snake → Nat → Nat → Prop
  | [], i0, j0 => i0 ≤ N ∧ j0 ≤ M
  | s :: rest, i0, j0 =>
      i0 ≤ s.i ∧ j0 ≤ s.j ∧ 0 < s.n ∧ SnakesIn N M rest (s.i + s.n) (s.j + s.n)

theorem SnakesIn.start_le {N M : Nat} {sn : List Snake} {x y : Nat} (h : SnakesIn N M sn x y) :
    x ≤ N ∧ y ≤ M := by
  induction sn generalizing x y with
  | nil => exact h
  | cons s rest ih =>
    obtain ⟨h1, h2, _, h4⟩ := h
    have := ih h4
    omega

theorem SnakesIn.mono {N M N' M' : Nat} {sn : List Snake} {x y : Nat} (h : SnakesIn N M sn x y)
    (hN : N ≤ N') (hM : M ≤ M') : SnakesIn N' M' sn x y := by
  induction sn generalizing x y with
  | nil => exact ⟨Nat.le_trans h.1 hN, Nat.le_trans h.2 hM⟩
  | cons s rest ih =>
    obtain ⟨h1, h2, h3, h4⟩ := h
    exact ⟨h1, h2, h3, ih h4⟩

theorem SnakesIn.lower {N M : Nat} {sn : List Snake} {x y x' y' : Nat} (h : SnakesIn N M sn x y)
    (hx : x' ≤ x) (hy : y' ≤ y) : SnakesIn N M sn x' y' := by
  cases sn with
  | nil => exact ⟨Nat.le_trans hx h.1, Nat.le_trans hy h.2⟩
  | cons s rest =>
    obtain ⟨h1, h2, h3, h4⟩ := h
    exact ⟨by omega, by omega, h3, h4⟩

def Snake.shift (a b : Nat) (s : Snake) : Snake := ⟨s.i + a, s.j + b, s.n⟩

theorem SnakesIn.shift {N M : Nat} {sn : List Snake} {x y : Nat} (a b : Nat) (h : SnakesIn N M sn x y) :
    SnakesIn (N + a) (M + b) (sn.map (Snake.shift a b)) (x + a) (y + b) := by
  induction sn generalizing x y with
  | nil => exact ⟨by have := h.1; omega, by have := h.2; omega⟩
  | cons s rest ih =>
    obtain ⟨h1, h2, h3, h4⟩ := h
    refine ⟨by simp [Snake.shift]; omega, by simp [Snake.shift]; omega, h3, ?_⟩
    have := ih h4
    simp only [Snake.shift] at this ⊢
    have e1 : s.i + a + s.n = s.i + s.n + a := by omega
    have e2 : s.j + b + s.n = s.j + s.n + b := by omega
    rw [e1, e2]; exact this

/-- chains compose: `L` ends where `L'` may start -/
theorem SnakesIn.append {N M c d : Nat} {L L' : List Snake} {a b : Nat}
    (h : SnakesIn c d L a b) (h' : SnakesIn N M L' c d) : SnakesIn N M (L ++ L') a b := by
  induction L generalizing a b with
  | nil => exact h'.lower h.1 h.2
  | cons s rest ih =>
    obtain ⟨h1, h2, h3, h4⟩ := h
    exact ⟨h1, h2, h3, ih h4⟩

def mkSnake (p : Nat × Nat) : Snake := ⟨p.1, p.2, 1⟩

/-- once the last snake starts before the next pair, `bruteforce_compute_snakes` never extends it -/
theorem snakesFromIndices_nomerge (G : Nat → Nat → Bool) (N M : Nat) (ps : List (Nat × Nat)) (x y : Nat)
    (s : Snake) (rest : List Snake) (hs : s.i < x) (hm : GridMatching G N M ps x y) :
    snakesFromIndices ps (s :: rest) = (ps.map mkSnake).reverse ++ s :: rest := by
  induction ps generalizing x y s rest with
  | nil => simp [snakesFromIndices]
  | cons p ps ih =>
    obtain ⟨i, j⟩ := p
    obtain ⟨h1, h2, _, _, _, h6⟩ := hm
    have hne : (s.i == i) = false := by
      have : s.i ≠ i := by omega
      simpa using this
    simp only [snakesFromIndices, hne, Bool.false_and, Bool.false_eq_true, if_false]
    rw [ih (i + 1) (j + 1) ⟨i, j, 1⟩ (s :: rest) (by simp) h6]
    simp [mkSnake]

theorem snakesFromIndices_init (G : Nat → Nat → Bool) (N M : Nat) (ps : List (Nat × Nat))
    (hm : GridMatching G N M ps 0 0) :
    dropZeroHead (snakesFromIndices ps [⟨0, 0, 0⟩]).reverse = ps.map mkSnake := by
  cases ps with
  | nil => simp [snakesFromIndices, dropZeroHead]
  | cons p ps =>
    obtain ⟨i, j⟩ := p
    obtain ⟨h1, h2, _, _, _, h6⟩ := hm
    by_cases h0 : i = 0 ∧ j = 0
    · obtain ⟨hi, hj⟩ := h0
      subst hi; subst hj
      simp only [snakesFromIndices, beq_self_eq_true, Bool.and_self, if_true]
      rw [snakesFromIndices_nomerge G N M ps 1 1 ⟨0, 0, 1⟩ [] (by simp) h6]
      simp [dropZeroHead, mkSnake]
    · have hne : ((0 : Nat) == i && (0 : Nat) == j) = false := by
        by_cases hi : i = 0
        · have : j ≠ 0 := fun hj => h0 ⟨hi, hj⟩
          have : ((0 : Nat) == j) = false := by simpa using (fun e => this e.symm)
          simp [this]
        · have : ((0 : Nat) == i) = false := by simpa using (fun e => hi e.symm)
          simp [this]
      simp only [snakesFromIndices, hne, Bool.false_eq_true, if_false]
      by_cases hi : i = 0
      · -- then j > 0; the zero snake starts at i = 0, which is not before the next pair's row…
        -- use the column instead: redo the no-merge argument on the second list element
        subst hi
        have hj : 0 < j := by
          have : j ≠ 0 := fun hj => h0 ⟨rfl, hj⟩
          omega
        rw [snakesFromIndices_nomerge G N M ps 1 (j + 1) ⟨0, j, 1⟩ [⟨0, 0, 0⟩] (by simp) h6]
        simp [dropZeroHead, mkSnake]
      · rw [snakesFromIndices_nomerge G N M ps (i + 1) (j + 1) ⟨i, j, 1⟩ [⟨0, 0, 0⟩] (by simp) h6]
        simp [dropZeroHead, mkSnake]

theorem gridMatching_snakesIn (G : Nat → Nat → Bool) (N M : Nat) (ps : List (Nat × Nat)) (x y : Nat)
    (hx : x ≤ N) (hy : y ≤ M) (hm : GridMatching G N M ps x y) : SnakesIn N M (ps.map mkSnake) x y := by
  induction ps generalizing x y with
  | nil => exact ⟨hx, hy⟩
  | cons p ps ih =>
    obtain ⟨i, j⟩ := p
    obtain ⟨h1, h2, h3, h4, _, h6⟩ := hm
    exact ⟨h1, h2, by simp [mkSnake], ih (i + 1) (j + 1) (by omega) (by omega) h6⟩

theorem bruteforceSnakes_in {α β} (cmp : α → β → Except Err Bool) (A : List α) (B : List β)
    (sn : List Snake) (h : bruteforceSnakes cmp A B = .ok sn) : SnakesIn A.length B.length sn 0 0 := by
  unfold bruteforceSnakes at h
  simp only [bind, Except.bind, pure, Except.pure] at h
  cases hG : compareGrid cmp A B with
  | error e => simp [hG] at h
  | ok G =>
    simp only [hG] at h
    cases hps : lcsIndices G A.length B.length with
    | error e => simp [hps] at h
    | ok ps =>
      simp only [hps, Except.ok.injEq] at h
      have hgm : GridMatching (gridAt G) A.length B.length ps 0 0 := by
        unfold lcsIndices at hps
        exact lcsBack_matching (gridAt G) _ A.length B.length _ A.length B.length [] ps (Nat.le_refl _)
          (Nat.le_refl _) trivial hps
      rw [snakesFromIndices_init (gridAt G) A.length B.length ps hgm] at h
      subst h
      exact gridMatching_snakesIn (gridAt G) A.length B.length ps 0 0 (Nat.zero_le _) (Nat.zero_le _) hgm

theorem computeSnakes_in {α β} (cmp : α → β → Except Err Bool) (A : List α) (B : List β) (r : Rect)
    (hi : r.i0 ≤ r.i1) (hj : r.j0 ≤ r.j1) (sn : List Snake) (h : computeSnakes cmp A B r = .ok sn) :
    SnakesIn r.i1 r.j1 sn r.i0 r.j0 := by
  unfold computeSnakes at h
  simp only [bind, Except.bind, pure, Except.pure] at h
  cases hb : bruteforceSnakes cmp (slice A r.i0 r.i1) (slice B r.j0 r.j1) with
  | error e => simp [hb] at h
  | ok s0 =>
    simp only [hb, Except.ok.injEq] at h
    subst h
    have h0 := bruteforceSnakes_in cmp _ _ s0 hb
    have hs := (h0.shift r.i0 r.j0)
    have hl1 : (slice A r.i0 r.i1).length + r.i0 ≤ r.i1 := by simp [slice]; omega
    have hl2 : (slice B r.j0 r.j1).length + r.j0 ≤ r.j1 := by simp [slice]; omega
    have := hs.mono hl1 hl2
    simp only [Nat.zero_add] at this
    exact this

/-! ### the refinement loop -/

/-- `ns` (reversed, last snake first) is a chain from `(a, b)` ending at or before `(c, d)` -/
def RevIn : List Snake → Nat → Nat → Nat → Nat → Prop
  | [], a, b, c, d => a ≤ c ∧ b ≤ d
  | l :: rest, a, b, c, d => 0 < l.n ∧ l.i + l.n ≤ c ∧ l.j + l.n ≤ d ∧ RevIn rest a b l.i l.j

theorem RevIn.mono {ns : List Snake} {a b c d c' d' : Nat} (h : RevIn ns a b c d) (hc : c ≤ c') (hd : d ≤ d') :
    RevIn ns a b c' d' := by
  cases ns with
  | nil => exact ⟨Nat.le_trans h.1 hc, Nat.le_trans h.2 hd⟩
  | cons l rest =>
    obtain ⟨h1, h2, h3, h4⟩ := h
    exact ⟨h1, by omega, by omega, h4⟩

theorem RevIn.start_le {ns : List Snake} {a b c d : Nat} (h : RevIn ns a b c d) : a ≤ c ∧ b ≤ d := by
  induction ns generalizing c d with
  | nil => exact h
  | cons l rest ih =>
    obtain ⟨_, h2, h3, h4⟩ := h
    have := ih h4
    omega

/-- a reversed chain, read forwards -/
theorem RevIn.forward {ns : List Snake} {a b c d N M : Nat} (h : RevIn ns a b c d)
    (tail : List Snake) (ht : SnakesIn N M tail c d) : SnakesIn N M (ns.reverse ++ tail) a b := by
  induction ns generalizing c d tail with
  | nil => exact ht.lower h.1 h.2
  | cons l rest ih =>
    obtain ⟨h1, h2, h3, h4⟩ := h
    have : SnakesIn N M (l :: tail) l.i l.j := ⟨Nat.le_refl _, Nat.le_refl _, h1, ht.lower h2 h3⟩
    have := ih h4 (l :: tail) this
    simpa using this

/-- a forward chain pushed onto a reversed one -/
theorem RevIn.push_chain {ns sb : List Snake} {a b c d c' d' : Nat} (h : RevIn ns a b c d)
    (hs : SnakesIn c' d' sb c d) : RevIn (sb.reverse ++ ns) a b c' d' := by
  induction sb generalizing ns c d with
  | nil =>
    simp only [List.reverse_nil, List.nil_append]
    exact h.mono hs.1 hs.2
  | cons s rest ih =>
    obtain ⟨h1, h2, h3, h4⟩ := hs
    have hpush : RevIn (s :: ns) a b (s.i + s.n) (s.j + s.n) :=
      ⟨h3, Nat.le_refl _, Nat.le_refl _, h.mono h1 h2⟩
    have := ih hpush h4
    simpa using this

/-- the state of the loop: either the initial zero snake is still at the bottom, or it has been
    merged away -/
def MlState (ns : List Snake) (a b c d : Nat) : Prop :=
  (∃ good, ns = good ++ [(⟨0, 0, 0⟩ : Snake)] ∧ RevIn good a b c d) ∨ (ns ≠ [] ∧ RevIn ns a b c d)

theorem MlState.result {ns : List Snake} {a b c d : Nat} (h : MlState ns a b c d) :
    SnakesIn c d (dropZeroHead ns.reverse) a b := by
  rcases h with ⟨good, rfl, hg⟩ | ⟨hne, hg⟩
  · simp only [List.reverse_append, List.reverse_cons, List.reverse_nil, List.nil_append,
      List.singleton_append, dropZeroHead, beq_self_eq_true, if_true]
    have := hg.forward (N := c) (M := d) [] ⟨Nat.le_refl _, Nat.le_refl _⟩
    simpa using this
  · have hf := hg.forward (N := c) (M := d) [] ⟨Nat.le_refl _, Nat.le_refl _⟩
    simp only [List.append_nil] at hf
    cases hr : ns.reverse with
    | nil => exact absurd (by simpa using hr) hne
    | cons s rest =>
      rw [hr] at hf
      obtain ⟨_, _, h3, _⟩ := hf
      have : (s.n == 0) = false := by
        have : s.n ≠ 0 := by omega
        simpa using this
      simp only [dropZeroHead, this, Bool.false_eq_true, if_false]
      exact ⟨‹_›, ‹_›, h3, ‹_›⟩

theorem MlState.push_chain {ns sb : List Snake} {a b c d c' d' : Nat} (h : MlState ns a b c d)
    (hs : SnakesIn c' d' sb c d) : MlState (sb.reverse ++ ns) a b c' d' := by
  rcases h with ⟨good, rfl, hg⟩ | ⟨hne, hg⟩
  · exact Or.inl ⟨sb.reverse ++ good, by simp, hg.push_chain hs⟩
  · exact Or.inr ⟨by simp [hne], hg.push_chain hs⟩

/-- pushing or merging one non-empty snake that starts at or after the current end -/
theorem MlState.push_snake {ns : List Snake} {a b c d : Nat} (h : MlState ns a b c d) (s : Snake)
    (hn : 0 < s.n) (hi : c ≤ s.i) (hj : d ≤ s.j) :
    MlState (pushOrMerge s ns) a b (s.i + s.n) (s.j + s.n) := by
  have push : ∀ good, RevIn good a b c d → RevIn (s :: good) a b (s.i + s.n) (s.j + s.n) :=
    fun good hg => ⟨hn, Nat.le_refl _, Nat.le_refl _, hg.mono hi hj⟩
  have merge : ∀ l rest, RevIn (l :: rest) a b c d → l.i + l.n = s.i → l.j + l.n = s.j →
      RevIn ((⟨l.i, l.j, l.n + s.n⟩ : Snake) :: rest) a b (s.i + s.n) (s.j + s.n) := by
    intro l rest hg e1 e2
    obtain ⟨g1, g2, g3, g4⟩ := hg
    exact ⟨by simp; omega, by simp; omega, by simp; omega, g4⟩
  rcases h with ⟨good, rfl, hg⟩ | ⟨hne, hg⟩
  · cases good with
    | nil =>
      -- the only entry is the zero snake
      simp only [List.nil_append, pushOrMerge]
      by_cases hc : ((0 : Nat) + 0 == s.i && (0 : Nat) + 0 == s.j) = true
      · simp only [hc, if_true]
        simp only [Nat.add_zero, Bool.and_eq_true, beq_iff_eq] at hc
        refine Or.inr ⟨by simp, ?_⟩
        have hs := hg.start_le
        refine ⟨?_, ?_, ?_, ?_⟩
        · show 0 < 0 + s.n; omega
        · show 0 + (0 + s.n) ≤ s.i + s.n; omega
        · show 0 + (0 + s.n) ≤ s.j + s.n; omega
        · show a ≤ 0 ∧ b ≤ 0; omega
      · simp only [hc, Bool.false_eq_true, if_false]
        exact Or.inl ⟨[s], by simp, push [] hg⟩
    | cons l rest =>
      simp only [List.cons_append, pushOrMerge]
      by_cases hc : (l.i + l.n == s.i && l.j + l.n == s.j) = true
      · simp only [hc, if_true]
        simp only [Bool.and_eq_true, beq_iff_eq] at hc
        exact Or.inl ⟨⟨l.i, l.j, l.n + s.n⟩ :: rest, by simp, merge l rest hg hc.1 hc.2⟩
      · simp only [hc, Bool.false_eq_true, if_false]
        exact Or.inl ⟨s :: l :: rest, by simp, push _ hg⟩
  · cases ns with
    | nil => exact absurd rfl hne
    | cons l rest =>
      simp only [pushOrMerge]
      by_cases hc : (l.i + l.n == s.i && l.j + l.n == s.j) = true
      · simp only [hc, if_true]
        simp only [Bool.and_eq_true, beq_iff_eq] at hc
        exact Or.inr ⟨by simp, merge l rest hg hc.1 hc.2⟩
      · simp only [hc, Bool.false_eq_true, if_false]
        exact Or.inr ⟨by simp, push _ hg⟩

theorem MlState.mono {ns : List Snake} {a b c d c' d' : Nat} (h : MlState ns a b c d) (hc : c ≤ c') (hd : d ≤ d') :
    MlState ns a b c' d' := by
  rcases h with ⟨good, rfl, hg⟩ | ⟨hne, hg⟩
  · exact Or.inl ⟨good, rfl, hg.mono hc hd⟩
  · exact Or.inr ⟨hne, hg.mono hc hd⟩

/-- what the loop needs from the lower level -/
def SubOK (sub : Rect → Except Err (List Snake)) : Prop :=
  ∀ r sb, r.i0 ≤ r.i1 → r.j0 ≤ r.j1 → sub r = .ok sb → SnakesIn r.i1 r.j1 sb r.i0 r.j0

theorem mlStep_state (sub : Rect → Except Err (List Snake)) (hsub : SubOK sub) (ns : List Snake)
    (a b i0 j0 : Nat) (s : Snake) (hi : i0 ≤ s.i) (hj : j0 ≤ s.j) (h : MlState ns a b i0 j0)
    (st : List Snake × Nat × Nat) (hr : mlStep sub (ns, i0, j0) s = .ok st) :
    st.2.1 = s.i + s.n ∧ st.2.2 = s.j + s.n ∧ MlState st.1 a b (s.i + s.n) (s.j + s.n) := by
  simp only [mlStep, bind, Except.bind, pure, Except.pure] at hr
  -- first the refinement of the gap
  have key : ∀ ns1, MlState ns1 a b s.i s.j →
      MlState (if s.n > 0 then pushOrMerge s ns1 else ns1) a b (s.i + s.n) (s.j + s.n) := by
    intro ns1 h1
    by_cases hn : s.n > 0
    · simp only [hn, if_true]
      exact h1.push_snake s hn (Nat.le_refl _) (Nat.le_refl _)
    · have : s.n = 0 := by omega
      simp only [hn, if_false, this, Nat.add_zero]
      exact h1
  by_cases hc : (decide (s.i > i0) && decide (s.j > j0)) = true
  · simp only [hc, if_true] at hr
    cases hs : sub ⟨i0, j0, s.i, s.j⟩ with
    | error e => simp [hs] at hr
    | ok sb =>
      simp only [hs, Except.ok.injEq] at hr
      subst hr
      have hsb := hsub ⟨i0, j0, s.i, s.j⟩ sb hi hj hs
      exact ⟨rfl, rfl, key _ (h.push_chain hsb)⟩
  · simp only [hc, Bool.false_eq_true, if_false, Except.ok.injEq] at hr
    subst hr
    exact ⟨rfl, rfl, key _ (h.mono hi hj)⟩

theorem mlFold_state (sub : Rect → Except Err (List Snake)) (hsub : SubOK sub) (i1 j1 : Nat)
    (snakes : List Snake) (ns : List Snake) (a b i0 j0 : Nat)
    (hs : SnakesIn i1 j1 snakes i0 j0) (h : MlState ns a b i0 j0)
    (st : List Snake × Nat × Nat)
    (hr : (snakes ++ [(⟨i1, j1, 0⟩ : Snake)]).foldlM (mlStep sub) (ns, i0, j0) = .ok st) :
    MlState st.1 a b i1 j1 := by
  induction snakes generalizing ns i0 j0 with
  | nil =>
    simp only [List.nil_append, List.foldlM_cons, List.foldlM_nil, bind, Except.bind, pure, Except.pure] at hr
    cases hp : mlStep sub (ns, i0, j0) ⟨i1, j1, 0⟩ with
    | error e => simp [hp] at hr
    | ok st1 =>
      simp only [hp, Except.ok.injEq] at hr
      subst hr
      obtain ⟨_, _, hm⟩ := mlStep_state sub hsub ns a b i0 j0 ⟨i1, j1, 0⟩ hs.1 hs.2 h st1 hp
      simpa using hm
  | cons s rest ih =>
    obtain ⟨h1, h2, h3, h4⟩ := hs
    simp only [List.cons_append, List.foldlM_cons, bind, Except.bind] at hr
    cases hp : mlStep sub (ns, i0, j0) s with
    | error e => simp [hp] at hr
    | ok st1 =>
      simp only [hp] at hr
      obtain ⟨e1, e2, hm⟩ := mlStep_state sub hsub ns a b i0 j0 s h1 h2 h st1 hp
      obtain ⟨n1, a1, b1⟩ := st1
      simp only at e1 e2 hm
      subst e1; subst e2
      exact ih n1 _ _ h4 hm hr

/-- `compute_snakes_multilevel` returns an ordered chain of non-empty snakes inside the rectangle -/
theorem snakesML_in {α β} (cmps : List (α → β → Except Err Bool)) (A : List α) (B : List β)
    (level : Nat) : SubOK (snakesML cmps A B level) := by
  induction level with
  | zero =>
    intro r sb hi hj h
    unfold snakesML at h
    simp only [bind, Except.bind, pure, Except.pure] at h
    cases hc : cmps[0]? with
    | none => simp [hc, throw, throwThe, MonadExceptOf.throw] at h
    | some cmp =>
      simp only [hc] at h
      cases hcs : computeSnakes cmp A B r with
      | error e => simp [hcs] at h
      | ok sn =>
        simp only [hcs, Except.ok.injEq] at h
        subst h
        exact computeSnakes_in cmp A B r hi hj sn hcs
  | succ lvl ih =>
    intro r sb hi hj h
    unfold snakesML at h
    simp only [bind, Except.bind, pure, Except.pure] at h
    cases hc : cmps[lvl + 1]? with
    | none => simp [hc, throw, throwThe, MonadExceptOf.throw] at h
    | some cmp =>
      simp only [hc] at h
      cases hcs : computeSnakes cmp A B r with
      | error e => simp [hcs] at h
      | ok sn =>
        simp only [hcs] at h
        have hsn := computeSnakes_in cmp A B r hi hj sn hcs
        cases hf : (sn ++ [(⟨r.i1, r.j1, 0⟩ : Snake)]).foldlM (mlStep (snakesML cmps A B lvl))
            ([(⟨0, 0, 0⟩ : Snake)], r.i0, r.j0) with
        | error e => simp [hf] at h
        | ok st =>
          obtain ⟨ns, x, y⟩ := st
          simp only [hf, Except.ok.injEq] at h
          subst h
          have h0 : MlState [(⟨0, 0, 0⟩ : Snake)] r.i0 r.j0 r.i0 r.j0 :=
            Or.inl ⟨[], rfl, ⟨Nat.le_refl _, Nat.le_refl _⟩⟩
          have := mlFold_state (snakesML cmps A B lvl) ih r.i1 r.j1 sn _ r.i0 r.j0 r.i0 r.j0 hsn h0 _ hf
          exact this.result

end Nbdime
