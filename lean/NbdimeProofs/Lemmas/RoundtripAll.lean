import NbdimeProofs.Lemmas.FlattenCombine
import NbdimeProofs.Lemmas.ListRoundtrip
import NbdimeProofs.Lemmas.DictRoundtrip
import NbdimeProofs.Lemmas.Compat
/-
  Assembly: the recursive round trip of the generic differ (`diff`) and `patch` over whole JSON
  documents — lists, dicts and strings, at every depth.
-/
set_option linter.unusedSimpArgs false
namespace Nbdime
open Nbdime.Abs

/-! ### the empty diff -/

theorem patchString_nil (s : List Char) : patchString s [] = .ok s := by
  simp [patchString, flatten, flattenOps, combineOps, sortByIdx, patchChars, bind, Except.bind, pure, Except.pure]

/-- patching with the empty diff returns the document (dict keys sorted) -/
theorem patch_nil (a r : J) (hc : a.canonical = true) (h : patch a [] = .ok r) : r = a := by
  cases a with
  | obj kvs =>
    simp only [J.canonical, Bool.and_eq_true] at hc
    rw [patch] at h
    simp only [bind, Except.bind] at h
    rw [patchDict] at h
    have hf : kvs.filter (fun kv => !([] : List String).contains kv.1 && !hasKey kv.1 ([] : List (String × J))) = kvs := by
      apply List.filter_eq_self.mpr
      intro x _
      simp [hasKey, lookupKV]
    simp only [List.reverse_nil, List.nil_append, hf, sortKV_of_sorted kvs (keysSorted_sk kvs hc.1), Except.ok.injEq] at h
    exact h.symm
  | arr xs =>
    rw [patch] at h
    simp only [bind, Except.bind] at h
    rw [patchList] at h
    simpa using h.symm
  | str s =>
    rw [patch] at h
    simp only [patchString_nil, bind, Except.bind, Except.ok.injEq] at h
    exact h.symm
  | null => rw [patch] at h <;> first | cases h | (intros; simp_all)
  | bool _ => rw [patch] at h <;> first | cases h | (intros; simp_all)
  | int _ => rw [patch] at h <;> first | cases h | (intros; simp_all)
  | flt _ => rw [patch] at h <;> first | cases h | (intros; simp_all)

/-! ### strings -/

theorem mem_pf_of_out {α} (ops : List (POp α)) (t : Nat) (xs : List α) (e : POp α) (he : e ∈ ops) (x : α)
    (hx : x ∈ e.out) : x ∈ pf ops t xs := by
  induction ops generalizing t with
  | nil => simp at he
  | cons o os ih =>
    simp only [pf]
    simp only [List.mem_cons] at he
    rcases he with rfl | he
    · simp [hx]
    · have := ih (max t (o.key + o.eat)) he
      simp [this]

/-- the oracle's `get_opcodes` answers satisfy difflib's contract -/
def OracleOK (O : Oracle) : Prop := ∀ a b ocs, O.opcodes a b = .ok ocs → opcodesValid a b ocs = true

theorem itemOK_lines (O : Oracle) (hO : OracleOK O) (fuel : Nat) (la lb : List (List Char)) :
    ItemOK CharRel (diffAt O fuel) linesCfg .stringsByChar ("" ++ "/*") (la.map J.str) (lb.map J.str) := by
  intro i j hi hj cd h
  simp only [List.getElem_map] at h ⊢
  cases fuel with
  | zero => simp [diffAt] at h
  | succ f =>
    simp only [diffAt] at h
    obtain ⟨cops, c1, c2, c3, c4, _⟩ := diffStringsByChar_ok O hO _ _ cd h
    refine ⟨⟨_, _, cops, rfl, rfl, c1, c2, c3, c4⟩, ?_⟩
    intro hnil
    subst hnil
    have : cops = [] := by
      cases cops with
      | nil => rfl
      | cons e es => simp at c2
    subst this
    simp only [pf, List.drop_zero] at c4
    rw [c4]

/-- `diff_strings_linewise` then `patch_string`: exact round trip -/
theorem stringsLinewise_roundtrip (O : Oracle) (hO : OracleOK O) (fuel : Nat) (sa sb : List Char) (d : List Op)
    (h : stringsLinewise O (diffAt O fuel) sa sb = .ok d) : patchString sa d = .ok sb := by
  unfold stringsLinewise at h
  by_cases hab : (sa == sb) = true
  · simp only [hab, if_true, Except.ok.injEq] at h
    subst h
    have : sa = sb := by simpa using hab
    subst this
    exact patchString_nil sa
  · simp only [hab, Bool.false_eq_true, if_false] at h
    -- the line config has two predicates: the multilevel path
    have hml : diffLists O (diffAt O fuel) linesCfg "" ((splitLines sa).map J.str) ((splitLines sb).map J.str) =
        multilevel O (diffAt O fuel) linesCfg "" ((splitLines sa).map J.str) ((splitLines sb).map J.str) := by
      unfold diffLists
      simp [linesCfg, Cfg.preds, lookupKV, orSlash]
    rw [hml] at h
    obtain ⟨kb, hb⟩ := multilevel_built (P := CharRel) O (diffAt O fuel) linesCfg "" _ _
      (by
        have : linesCfg.differ ("" ++ "/*") = .stringsByChar := by simp [linesCfg, Cfg.differ, lookupKV]
        rw [this]
        exact itemOK_lines O hO fuel (splitLines sa) (splitLines sb)) d h
    obtain ⟨pops, p1, p2, p3⟩ := hb.done'
    simp only [List.length_map] at p2
    have hs : ∀ e ∈ pops, ∀ x ∈ e.out, ∃ c, x = J.str c := by
      intro e he x hx
      have := mem_pf_of_out pops 0 ((splitLines sa).map J.str) e he x hx
      rw [p3] at this
      obtain ⟨l, _, rfl⟩ := List.mem_map.mp this
      exact ⟨l, rfl⟩
    rw [patchString_lines sa d pops p1 p2 hs, p3, chars_map_str, join_splitLines]

/-! ### the recursive theorem -/

theorem pred_eq (O : Oracle) : O.pred "eq" = fun x y => .ok (J.pyEq x y) := by
  simp [Oracle.pred]

/-- `patch(a, diff(a, b)) = b` for the generic differ, at every depth: compatible documents (no boolean
    meets a 0/1-valued number where the differ compares with `==`: finding F-eq), dict keys sorted (as the
    codec delivers them), and an opcode oracle that satisfies difflib's contract. No other assumption on
    the similarity oracle. -/
theorem diffAt_generic_roundtrip (O : Oracle) (hO : OracleOK O) (fuel : Nat) :
    ∀ (path : String) (a b : J) (d : List Op), a.canonical = true → b.canonical = true → Compat a b →
      diffAt O fuel defaultCfg .generic path a b = .ok d → patch a d = .ok b := by
  induction fuel with
  | zero => intro path a b d _ _ _ h; simp [diffAt] at h
  | succ f ih =>
    intro path a b d ca cb hab h
    simp only [diffAt] at h
    unfold genericDiff at h
    -- sub-differ soundness from the induction hypothesis
    have sub : ∀ (p : String) (x y : J) (cd : List Op), x.canonical = true → y.canonical = true → Compat x y →
        diffAt O f defaultCfg (defaultCfg.differ p) p x y = .ok cd →
        PatchRel x cd y ∧ (cd = [] → x = y) := by
      intro p x y cd cx cy hxy hd
      have hdf : defaultCfg.differ p = .generic := by simp [defaultCfg, Cfg.differ, lookupKV]
      rw [hdf] at hd
      have hp := ih p x y cd cx cy hxy hd
      refine ⟨hp, ?_⟩
      intro hnil
      subst hnil
      exact (patch_nil x y cx hp).symm
    cases a with
    | arr al =>
      cases b with
      | arr bl =>
        simp only at h
        simp only [J.canonical] at ca cb
        have hpairs := hab.arr_inv
        have hr := diffLists_single_roundtrip O (diffAt O f) defaultCfg path al bl "eq"
          (by simp [defaultCfg, Cfg.preds, lookupKV])
          (by
            intro i j hi hj hc
            rw [pred_eq] at hc
            simp only [Except.ok.injEq] at hc
            exact compat_pyEq _ _ (hpairs _ (List.getElem_mem hi) _ (List.getElem_mem hj))
              (canonicalList_mem al ca _ (List.getElem_mem hi)) (canonicalList_mem bl cb _ (List.getElem_mem hj)) hc)
          (by
            intro i j hi hj cd hc
            exact sub _ _ _ cd (canonicalList_mem al ca _ (List.getElem_mem hi))
              (canonicalList_mem bl cb _ (List.getElem_mem hj))
              (hpairs _ (List.getElem_mem hi) _ (List.getElem_mem hj)) hc)
          d h
        rw [patch]
        simp [hr, bind, Except.bind]
      | _ => simp at h
    | obj ak =>
      cases b with
      | obj bk =>
        simp only at h
        simp only [J.canonical, Bool.and_eq_true] at ca cb
        have hkeys := hab.obj_inv
        have hr := diffDicts_roundtrip (diffAt O f) defaultCfg path ak bk (keysSorted_sk ak ca.1) (keysSorted_sk bk cb.1)
          (by
            intro k av bv dd ha hb hc
            have ma := lookupKV_mem k av ak ha
            have mb := lookupKV_mem k bv bk hb
            exact sub _ _ _ dd (canonicalKvs_mem ak ca.2 _ ma) (canonicalKvs_mem bk cb.2 _ mb) (hkeys k av bv ha hb) hc)
          (by
            intro k av bv ha hb hc
            have ma := lookupKV_mem k av ak ha
            have mb := lookupKV_mem k bv bk hb
            exact compat_pyEq _ _ (hkeys k av bv ha hb) (canonicalKvs_mem ak ca.2 _ ma) (canonicalKvs_mem bk cb.2 _ mb) hc)
          d h
        rw [patch]
        simp [hr, bind, Except.bind]
      | _ => simp at h
    | str sa =>
      cases b with
      | str sb =>
        simp only at h
        have hr := stringsLinewise_roundtrip O hO f sa sb d h
        rw [patch]
        simp [hr, bind, Except.bind]
      | _ => simp at h
    | null => simp at h
    | bool _ => simp at h
    | int _ => simp at h
    | flt _ => simp at h

end Nbdime
