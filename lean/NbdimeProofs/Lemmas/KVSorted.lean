import NbdimeModel
import NbdimeProofs.Lemmas.KV
/-
  Association lists with distinct / strictly sorted keys: lookup as membership, lookup after
  `sortKV`, and extensionality (two strictly sorted lists with the same lookups are equal).
  Used for the dict level of the diff/patch round trip.
-/
namespace Nbdime

def DK {α} (l : List (String × α)) : Prop := l.Pairwise (fun a b => a.1 ≠ b.1)
def SK {α} (l : List (String × α)) : Prop := l.Pairwise (fun a b => a.1 < b.1)

theorem SK.dk {α} {l : List (String × α)} (h : SK l) : DK l :=
  List.Pairwise.imp (fun {a b} hab heq => by rw [heq] at hab; exact String.lt_irrefl _ hab) h

theorem lookupKV_nil {α} (k : String) : lookupKV k ([] : List (String × α)) = none := rfl

theorem lookupKV_cons' {α} (k a : String) (b : α) (rest : List (String × α)) :
    lookupKV k ((a, b) :: rest) = if a = k then some b else lookupKV k rest := by
  simp [lookupKV]

theorem lookupKV_mem {α} (k : String) (v : α) (l : List (String × α)) (h : lookupKV k l = some v) :
    (k, v) ∈ l := by
  induction l with
  | nil => simp [lookupKV] at h
  | cons x rest ih =>
    obtain ⟨a, b⟩ := x
    rw [lookupKV_cons'] at h
    by_cases hak : a = k
    · simp only [hak, if_true, Option.some.injEq] at h
      subst hak; subst h; simp
    · simp only [hak, if_false] at h
      exact List.mem_cons_of_mem _ (ih h)

theorem lookupKV_of_mem {α} (k : String) (v : α) (l : List (String × α)) (hd : DK l) (h : (k, v) ∈ l) :
    lookupKV k l = some v := by
  induction l with
  | nil => simp at h
  | cons x rest ih =>
    obtain ⟨a, b⟩ := x
    rw [lookupKV_cons']
    have hd' := List.pairwise_cons.mp hd
    simp only [List.mem_cons] at h
    rcases h with h | h
    · cases h; simp
    · have : a ≠ k := hd'.1 (k, v) h
      simp only [this, if_false]
      exact ih hd'.2 h

theorem option_ext {α} (o1 o2 : Option α) (h : ∀ v, o1 = some v ↔ o2 = some v) : o1 = o2 := by
  cases o1 with
  | none =>
    cases o2 with
    | none => rfl
    | some w => exact absurd ((h w).mpr rfl) (by simp)
  | some v => exact ((h v).mp rfl).symm

theorem lookupKV_reverse {α} (k : String) (l : List (String × α)) (hd : DK l) :
    lookupKV k l.reverse = lookupKV k l := by
  have hr : DK l.reverse := by
    unfold DK
    rw [List.pairwise_reverse]
    exact List.Pairwise.imp (fun {a b} h => fun e => h e.symm) hd
  apply option_ext
  intro v
  constructor
  · intro h
    exact lookupKV_of_mem k v l hd (by simpa using lookupKV_mem k v _ h)
  · intro h
    exact lookupKV_of_mem k v _ hr (by simpa using lookupKV_mem k v _ h)

theorem lookupKV_append {α} (k : String) (l1 l2 : List (String × α)) :
    lookupKV k (l1 ++ l2) = (lookupKV k l1).or (lookupKV k l2) := by
  induction l1 with
  | nil => simp [lookupKV]
  | cons x rest ih =>
    obtain ⟨a, b⟩ := x
    simp only [List.cons_append, lookupKV_cons']
    by_cases hak : a = k
    · simp [hak]
    · simp [hak, ih]

theorem lookupKV_filterKey {α} (p : String → Bool) (l : List (String × α)) (k : String) :
    lookupKV k (l.filter (fun kv => p kv.1)) = if p k then lookupKV k l else none := by
  induction l with
  | nil => simp [lookupKV]
  | cons kv rest ih =>
    obtain ⟨a, b⟩ := kv
    by_cases hp : p a = true
    · by_cases hak : a = k
      · subst hak; simp [List.filter_cons, hp, lookupKV]
      · simp [List.filter_cons, hp, lookupKV, hak, ih]
    · have hp' : p a = false := by simpa using hp
      by_cases hak : a = k
      · subst hak; simp [List.filter_cons, hp', lookupKV, ih]
      · simp [List.filter_cons, hp', lookupKV, hak, ih]

/-- lookup after folding `insertKV` over a list: the last occurrence wins -/
theorem lookupKV_foldl_insert {α} (k : String) (l acc : List (String × α)) :
    lookupKV k (l.foldl (fun acc kv => insertKV kv.1 kv.2 acc) acc) =
      (lookupKV k l.reverse).or (lookupKV k acc) := by
  induction l generalizing acc with
  | nil => simp [lookupKV]
  | cons x rest ih =>
    obtain ⟨a, b⟩ := x
    simp only [List.foldl_cons, ih, List.reverse_cons, lookupKV_append, lookupKV_insertKV]
    by_cases hka : k = a
    · subst hka
      cases lookupKV k rest.reverse <;> simp [lookupKV]
    · have : ¬ a = k := fun e => hka e.symm
      cases lookupKV k rest.reverse <;> simp [lookupKV, hka, this]

theorem lookupKV_sortKV {α} (k : String) (l : List (String × α)) :
    lookupKV k (sortKV l) = lookupKV k l.reverse := by
  unfold sortKV
  rw [lookupKV_foldl_insert]
  simp [lookupKV]

/-! ### sortedness -/

theorem lookupKV_none_of_lt {α} (k : String) (l : List (String × α)) (h : ∀ y ∈ l, k < y.1) :
    lookupKV k l = none := by
  induction l with
  | nil => rfl
  | cons x rest ih =>
    obtain ⟨a, b⟩ := x
    rw [lookupKV_cons']
    have hka : k < a := h (a, b) (by simp)
    have : a ≠ k := fun e => by rw [e] at hka; exact String.lt_irrefl _ hka
    simp only [this, if_false]
    exact ih (fun y hy => h y (List.mem_cons_of_mem _ hy))

theorem insertKV_mem {α} (k : String) (v : α) (l : List (String × α)) (y : String × α)
    (hy : y ∈ insertKV k v l) : y = (k, v) ∨ y ∈ l := by
  induction l with
  | nil => simp [insertKV] at hy; exact Or.inl hy
  | cons x rest ih =>
    obtain ⟨a, b⟩ := x
    simp only [insertKV] at hy
    split at hy
    · simp only [List.mem_cons] at hy
      rcases hy with hy | hy | hy
      · exact Or.inl hy
      · exact Or.inr (by simp [hy])
      · exact Or.inr (by simp [hy])
    · split at hy
      · simp only [List.mem_cons] at hy
        rcases hy with hy | hy
        · exact Or.inl hy
        · exact Or.inr (by simp [hy])
      · simp only [List.mem_cons] at hy
        rcases hy with hy | hy
        · exact Or.inr (by simp [hy])
        · rcases ih hy with h | h
          · exact Or.inl h
          · exact Or.inr (by simp [h])

theorem insertKV_sorted {α} (k : String) (v : α) (l : List (String × α)) (h : SK l) : SK (insertKV k v l) := by
  induction l with
  | nil => simp [insertKV, SK]
  | cons x rest ih =>
    obtain ⟨a, b⟩ := x
    have hc := List.pairwise_cons.mp h
    simp only [insertKV]
    split
    · rename_i hlt
      apply List.pairwise_cons.mpr
      refine ⟨?_, h⟩
      intro y hy
      simp only [List.mem_cons] at hy
      rcases hy with rfl | hy
      · exact hlt
      · exact String.lt_trans hlt (hc.1 y hy)
    · rename_i hnlt
      split
      · rename_i heq
        have heq' : a = k := by simpa using heq
        subst heq'
        apply List.pairwise_cons.mpr
        exact ⟨hc.1, hc.2⟩
      · rename_i hne
        have hne' : a ≠ k := by simpa using hne
        have hak : a < k := Std.lt_of_le_of_ne (String.not_lt.mp hnlt) hne'
        apply List.pairwise_cons.mpr
        refine ⟨?_, ih hc.2⟩
        intro y hy
        rcases insertKV_mem k v rest y hy with rfl | hy
        · exact hak
        · exact hc.1 y hy

theorem sortKV_sorted {α} (l : List (String × α)) : SK (sortKV l) := by
  unfold sortKV
  suffices ∀ acc : List (String × α), SK acc → SK (l.foldl (fun acc kv => insertKV kv.1 kv.2 acc) acc) from
    this [] (by simp [SK])
  induction l with
  | nil => intro acc h; exact h
  | cons x rest ih => intro acc h; exact ih _ (insertKV_sorted x.1 x.2 acc h)

/-- two strictly sorted association lists with the same lookups are equal -/
theorem sk_ext {α} (l1 l2 : List (String × α)) (h1 : SK l1) (h2 : SK l2)
    (h : ∀ k, lookupKV k l1 = lookupKV k l2) : l1 = l2 := by
  induction l1 generalizing l2 with
  | nil =>
    cases l2 with
    | nil => rfl
    | cons y t2 =>
      obtain ⟨k', v'⟩ := y
      have := h k'
      simp [lookupKV] at this
  | cons x t1 ih =>
    obtain ⟨k, v⟩ := x
    cases l2 with
    | nil =>
      have := h k
      simp [lookupKV] at this
    | cons y t2 =>
      obtain ⟨k', v'⟩ := y
      have c1 := List.pairwise_cons.mp h1
      have c2 := List.pairwise_cons.mp h2
      have hkk : k = k' := by
        by_cases hlt : k < k'
        · have hn : lookupKV k ((k', v') :: t2) = none := by
            apply lookupKV_none_of_lt
            intro y hy
            simp only [List.mem_cons] at hy
            rcases hy with rfl | hy
            · exact hlt
            · exact String.lt_trans hlt (c2.1 y hy)
          have := h k
          rw [hn] at this
          simp [lookupKV] at this
        · by_cases hgt : k' < k
          · have hn : lookupKV k' ((k, v) :: t1) = none := by
              apply lookupKV_none_of_lt
              intro y hy
              simp only [List.mem_cons] at hy
              rcases hy with rfl | hy
              · exact hgt
              · exact String.lt_trans hgt (c1.1 y hy)
            have := h k'
            rw [hn] at this
            simp [lookupKV] at this
          · exact String.le_antisymm (String.not_lt.mp hgt) (String.not_lt.mp hlt)
      subst hkk
      have hv : v = v' := by
        have := h k
        simpa [lookupKV] using this
      subst hv
      congr 1
      apply ih t2 c1.2 c2.2
      intro k''
      by_cases hk : k = k''
      · subst hk
        rw [lookupKV_none_of_lt k t1 c1.1, lookupKV_none_of_lt k t2 c2.1]
      · have := h k''
        simpa [lookupKV_cons', hk] using this

theorem keysSorted_sk {α} (l : List (String × α)) (h : keysSorted l = true) : SK l := by
  induction l with
  | nil => simp [SK]
  | cons x rest ih =>
    cases rest with
    | nil => simp [SK]
    | cons y rest2 =>
      obtain ⟨k, v⟩ := x
      obtain ⟨k', v'⟩ := y
      simp only [keysSorted, Bool.and_eq_true, decide_eq_true_eq] at h
      have hrest := ih h.2
      have c := List.pairwise_cons.mp hrest
      apply List.pairwise_cons.mpr
      refine ⟨?_, hrest⟩
      intro z hz
      simp only [List.mem_cons] at hz
      rcases hz with rfl | hz
      · exact h.1
      · exact String.lt_trans h.1 (c.1 z hz)

/-- a strictly sorted list is a fixed point of `sortKV` -/
theorem sortKV_of_sorted {α} (l : List (String × α)) (h : SK l) : sortKV l = l := by
  apply sk_ext _ _ (sortKV_sorted l) h
  intro k
  rw [lookupKV_sortKV, lookupKV_reverse k l h.dk]

end Nbdime
