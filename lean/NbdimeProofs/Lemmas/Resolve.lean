import NbdimeModel
/- `resolve_action` for decisions whose action is not key-based is the leaf resolution. -/
namespace Nbdime

theorem resolveAction_leaf (base : J) (d : Decision) (h : d.keyBased = false) :
    resolveAction base d = resolveLeaf base d := by
  unfold resolveAction resolveActionF
  simp [h]

theorem keyBased_false_of (d : Decision) (hc : d.action ≠ "clear") (hr : d.action ≠ "remove") (ht : d.action ≠ "take_max") :
    d.keyBased = false := by
  unfold Decision.keyBased
  simp [hc, hr, ht]

end Nbdime
