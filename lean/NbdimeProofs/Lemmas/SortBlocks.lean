import NbdimeModel
import NbdimeProofs.Lemmas.MergeOrder
import NbdimeProofs.Lemmas.ApplyOneSided
/-
  Structure of the list `validated` returns (stable descending insertion sort by `_sort_key`):
  * filtering commutes with the sort (`filter_sortDesc`): the decisions of one kind appear in the sorted list in the
    order in which the sort of those decisions alone would put them;
  * the decisions below one root key `k` (not integer-like) form one contiguous block: before it the decisions below
    root keys that sort higher, after it those below keys that sort lower and the decisions on the root path
    (`desc_three`).
-/
set_option linter.unusedSimpArgs false
set_option linter.unusedVariables false
namespace Nbdime
open Nbdime.Merge

theorem insertDesc_head (e : MD) : ∀ (m : List MD), (∀ z ∈ m, keyLt (sortKeyOf e) (sortKeyOf z) = false) → insertDesc e m = e :: m
  | [], _ => rfl
  | y :: m', h => by
      simp only [insertDesc, h y List.mem_cons_self, Bool.false_eq_true, if_false]

/-- filtering commutes with the stable insertion into a descending list -/
theorem filter_insertDesc (p : MD → Bool) (e : MD) : ∀ (l : List MD), Desc l →
    (insertDesc e l).filter p = if p e then insertDesc e (l.filter p) else l.filter p
  | [], _ => by
      cases hp : p e <;> simp [insertDesc, List.filter_cons, hp]
  | x :: rest, h => by
      unfold Desc at h
      rw [List.pairwise_cons] at h
      obtain ⟨hx, hrest⟩ := h
      have ih := filter_insertDesc p e rest hrest
      cases hlt : keyLt (sortKeyOf e) (sortKeyOf x) with
      | true =>
        simp only [insertDesc, hlt, if_true, List.filter_cons]
        rw [ih]
        cases hpx : p x <;> cases hpe : p e <;> simp [insertDesc, hlt]
      | false =>
        simp only [insertDesc, hlt, Bool.false_eq_true, if_false]
        have hall : ∀ z ∈ (x :: rest).filter p, keyLt (sortKeyOf e) (sortKeyOf z) = false := by
          intro z hz
          have hz' := (List.mem_filter.mp hz).1
          rcases List.mem_cons.mp hz' with rfl | hz''
          · exact hlt
          · exact keyLt_neg_trans _ _ _ hlt (hx z hz'')
        cases hpe : p e with
        | true =>
          simp only [if_true]
          rw [insertDesc_head e _ hall]
          rw [List.filter_cons, hpe]
          simp
        | false =>
          simp only [Bool.false_eq_true, if_false]
          rw [List.filter_cons, hpe]
          simp

/-- **filtering commutes with the sort** -/
theorem filter_sortDesc (p : MD → Bool) : ∀ (b : List MD), (sortDesc b).filter p = sortDesc (b.filter p)
  | [] => rfl
  | x :: rest => by
      have e1 : sortDesc (x :: rest) = insertDesc x (sortDesc rest) := rfl
      rw [e1, filter_insertDesc p x _ (sortDesc_desc rest), filter_sortDesc p rest]
      cases hp : p x with
      | true => simp only [if_true, List.filter_cons, hp]; rfl
      | false => simp only [Bool.false_eq_true, if_false, List.filter_cons, hp]

/-! ### the block of one root key -/

/-- the decision sits below a root key that sorts after `c` (comes first in the descending list) -/
def hiOf (c : SortComp) (d : MD) : Bool :=
  match d.path with
  | h :: _ => c.lt (sortComp h)
  | [] => false

/-- the decision sits below a root key that sorts like `c` -/
def eqOf (c : SortComp) (d : MD) : Bool :=
  match d.path with
  | h :: _ => !(c.lt (sortComp h)) && !((sortComp h).lt c)
  | [] => false

def loOf (c : SortComp) (d : MD) : Bool := !(hiOf c d) && !(eqOf c d)

theorem keyLt_head_lt {a b : SortComp} (as bs : List SortComp) (h : a.lt b = true) : keyLt (a :: as) (b :: bs) = true := by
  simp [keyLt, h]

/-- in a descending list: first the decisions below higher root keys, then the block of `c`, then everything else -/
theorem desc_three (c : SortComp) : ∀ (l : List MD), Desc l →
    l = l.filter (hiOf c) ++ l.filter (eqOf c) ++ l.filter (loOf c)
  | [], _ => rfl
  | d :: rest, h => by
      unfold Desc at h
      rw [List.pairwise_cons] at h
      obtain ⟨hd, hrest⟩ := h
      have ih := desc_three c rest hrest
      cases hhi : hiOf c d with
      | true =>
        have heq : eqOf c d = false := by
          unfold hiOf at hhi; unfold eqOf
          cases hp : d.path with
          | nil => rfl
          | cons hh q => simp only [hp] at hhi; simp [hhi]
        have hlo : loOf c d = false := by simp [loOf, hhi]
        simp only [List.filter_cons, hhi, heq, hlo, if_true, Bool.false_eq_true, if_false, List.cons_append]
        rw [← ih]
      | false =>
        cases heq : eqOf c d with
        | true =>
          have hlo : loOf c d = false := by simp [loOf, heq]
          -- nothing later is below a higher key
          have hnohi : rest.filter (hiOf c) = [] := by
            rw [List.filter_eq_nil_iff]
            intro z hz hzhi
            have hdz := hd z hz
            unfold eqOf at heq; unfold hiOf at hzhi
            cases hp : d.path with
            | nil => simp [hp] at heq
            | cons dh dq =>
              cases hzp : z.path with
              | nil => simp [hzp] at hzhi
              | cons zh zq =>
                simp only [hp, Bool.and_eq_true, Bool.not_eq_true'] at heq
                simp only [hzp] at hzhi
                have : (sortComp dh).lt (sortComp zh) = true := by
                  cases hh : (sortComp dh).lt (sortComp zh) with
                  | true => rfl
                  | false =>
                    have := SortComp.neg_trans heq.1 hh
                    rw [this] at hzhi; cases hzhi
                simp only [sortKeyOf, hp, hzp, List.map_cons] at hdz
                rw [keyLt_head_lt _ _ this] at hdz
                cases hdz
          simp only [List.filter_cons, hhi, heq, hlo, if_true, Bool.false_eq_true, if_false, hnohi, List.nil_append,
            List.cons_append]
          have ih' := ih
          rw [hnohi, List.nil_append] at ih'
          rw [← ih']
        | false =>
          have hlo : loOf c d = true := by simp [loOf, hhi, heq]
          -- everything later is low as well
          have hall : ∀ z ∈ rest, hiOf c z = false ∧ eqOf c z = false := by
            intro z hz
            have hdz := hd z hz
            cases hp : d.path with
            | nil =>
              cases hzp : z.path with
              | nil => simp [hiOf, eqOf, hzp]
              | cons zh zq =>
                simp only [sortKeyOf, hp, hzp, List.map_nil, List.map_cons, keyLt_nil_cons] at hdz
                cases hdz
            | cons dh dq =>
              simp only [hiOf, hp] at hhi
              simp only [eqOf, hp, hhi, Bool.not_false, Bool.true_and, Bool.not_eq_false'] at heq
              -- heq : (sortComp dh).lt c = true
              cases hzp : z.path with
              | nil => simp [hiOf, eqOf, hzp]
              | cons zh zq =>
                simp only [sortKeyOf, hp, hzp, List.map_cons] at hdz
                have hnlt : (sortComp dh).lt (sortComp zh) = false := by
                  cases hh : (sortComp dh).lt (sortComp zh) with
                  | false => rfl
                  | true => rw [keyLt_head_lt _ _ hh] at hdz; cases hdz
                -- zh.lt c must hold
                have hzc : (sortComp zh).lt c = true := by
                  cases hh : (sortComp zh).lt c with
                  | true => rfl
                  | false =>
                    have := SortComp.neg_trans hnlt hh
                    rw [this] at heq; cases heq
                have hcz : c.lt (sortComp zh) = false := SortComp.lt_asymm hzc
                simp [hiOf, eqOf, hzp, hcz, hzc]
          have f1 : rest.filter (hiOf c) = [] := by
            rw [List.filter_eq_nil_iff]; intro z hz; simp [(hall z hz).1]
          have f2 : rest.filter (eqOf c) = [] := by
            rw [List.filter_eq_nil_iff]; intro z hz; simp [(hall z hz).2]
          have f3 : rest.filter (loOf c) = rest := by
            rw [List.filter_eq_self]; intro z hz; simp [loOf, (hall z hz).1, (hall z hz).2]
          simp only [List.filter_cons, hhi, heq, hlo, if_true, Bool.false_eq_true, if_false, f1, f2, f3, List.nil_append]

/-- below which root key a decision sits -/
def headIs (k : String) (d : MD) : Bool :=
  match d.path with
  | .s k' :: _ => k' == k
  | _ => false

/-- for a key that is not integer-like, "sorts like `k`" means "is `k`" -/
theorem eqOf_str (k : String) (hk : isIntLike k = false) (d : MD) : eqOf (.str k) d = headIs k d := by
  unfold eqOf headIs
  cases hp : d.path with
  | nil => rfl
  | cons h q =>
    cases h with
    | i n => simp [sortComp, SortComp.lt]
    | s k' =>
      simp only [sortComp]
      by_cases hi : isIntLike k' = true
      · simp only [hi, if_true, SortComp.lt]
        have : k' ≠ k := by intro hh; rw [hh, hk] at hi; cases hi
        have h2 : (k' == k) = false := by simpa using this
        rw [h2]
        cases hke : k == "" <;> simp [hke, bne]
      · simp only [hi, Bool.false_eq_true, if_false, SortComp.lt]
        by_cases hkk : k' = k
        · subst hkk
          simp [String.lt_irrefl]
        · have h2 : (k' == k) = false := by simpa using hkk
          rw [h2]
          by_cases h1 : k < k'
          · simp [h1]
          · by_cases h3 : k' < k
            · simp [h3]
            · exact absurd (String.le_antisymm (String.not_lt.mp h1) (String.not_lt.mp h3)) hkk

end Nbdime
