import NbdimeProofs.Lemmas.SeqPatchAbs
import NbdimeProofs.Lemmas.Builder
/-
  Bridge between the abstract sequence layer with item patches (`POp`, `pf`, `Built`) and the
  executable model: `patchList` on addrange / removerange / patch entries, and the sequence
  builder appending entries in key order.
-/
namespace Nbdime
open Nbdime.Abs

/-- the model entries `ops` mean the abstract entries `pops` over the base list `A`:
    a `patch` entry stands for the item it produces -/
inductive Denotes (P : J → List Op → J → Prop) (A : List J) : List Op → List (POp J) → Prop
  | nil : Denotes P A [] []
  | add (k : Nat) (vs : List J) {es ps} : Denotes P A es ps →
      Denotes P A (.addrange k vs :: es) (.add k vs :: ps)
  | rem (k n : Nat) {es ps} : Denotes P A es ps →
      Denotes P A (.removerange k n :: es) (.rem k n :: ps)
  | pat (k : Nat) (dd : List Op) (v new : J) {es ps} : A[k]? = some v → P v dd new →
      Denotes P A es ps → Denotes P A (.patchI k dd :: es) (.pat k new :: ps)

/-- the item relation of `patch_list`: the sub-diff patches the item -/
def PatchRel : J → List Op → J → Prop := fun v dd new => patch v dd = .ok new

theorem patchList_denotes (A : List J) (ops : List Op) (pops : List (POp J)) (t : Nat)
    (h : Denotes PatchRel A ops pops) : patchList A ops t = .ok (pf pops t A) := by
  induction h generalizing t with
  | nil => simp [patchList, pf]
  | add k vs _ ih =>
    rw [patchList]
    simp [ih, pf, POp.key, POp.out, POp.eat, bind, Except.bind]
  | rem k n _ ih =>
    rw [patchList]
    simp [ih, pf, POp.key, POp.out, POp.eat, bind, Except.bind]
  | pat k dd v new hv hp _ ih =>
    rw [patchList]
    unfold PatchRel at hp
    simp [hv, hp, ih, pf, POp.key, POp.out, POp.eat, bind, Except.bind]

theorem Denotes.append {P : J → List Op → J → Prop} {A : List J} {d1 d2 : List Op} {p1 p2 : List (POp J)}
    (h1 : Denotes P A d1 p1) (h2 : Denotes P A d2 p2) : Denotes P A (d1 ++ d2) (p1 ++ p2) := by
  induction h1 with
  | nil => simpa using h2
  | add k vs _ ih => exact .add k vs ih
  | rem k n _ ih => exact .rem k n ih
  | pat k dd v new hv hp _ ih => exact .pat k dd v new hv hp ih

/-- a non-add entry whose key is not smaller than any key so far goes to the end -/
theorem seqAppend_end_nonadd (d : List Op) (e : Op) (hadd : e.isAdd = false)
    (h : ∀ o ∈ d, o.idx ≤ e.idx) : seqAppend d e = d ++ [e] := by
  unfold seqAppend
  cases hr : d.reverse with
  | nil =>
    have : d = [] := by simpa using hr
    subst this; simp [seqAppendRev]
  | cons x rest =>
    have hx : x ∈ d := by
      have : x ∈ d.reverse := by rw [hr]; simp
      simpa using this
    have hle := h x hx
    have hnot : ¬ (x.idx > e.idx) := by omega
    simp only [seqAppendRev, hadd, Bool.false_eq_true, if_false, hnot]
    have : d = (x :: rest).reverse := by rw [← hr]; simp
    rw [this]; simp

/-- The state of a model diff under construction (see `Abs.Built`): `di` denotes abstract
    entries that have rebuilt `B.take j` from `A` up to base position `i`, and every key in `di`
    is at most `kb`. -/
def BuiltM (P : J → List Op → J → Prop) (A B : List J) (di : List Op) (i j kb : Nat) : Prop :=
  ∃ pops, Denotes P A di pops ∧ BuiltC A B pops i j ∧ ∀ o ∈ di, o.idx ≤ kb

variable {P : J → List Op → J → Prop}

theorem BuiltM.init (A B : List J) : BuiltM P A B [] 0 0 0 :=
  ⟨[], .nil, BuiltC.init A B, by simp⟩

theorem BuiltM.mono {A B : List J} {di : List Op} {i j kb kb' : Nat} (h : BuiltM P A B di i j kb)
    (hk : kb ≤ kb') : BuiltM P A B di i j kb' := by
  obtain ⟨p, h1, h2, h3⟩ := h
  exact ⟨p, h1, h2, fun o ho => Nat.le_trans (h3 o ho) hk⟩

/-- a finished construction: `patch_list` turns `A` into `B` -/
theorem BuiltM.done {A B : List J} {di : List Op} {kb : Nat}
    (h : BuiltM PatchRel A B di A.length B.length kb) : patchList A di 0 = .ok B := by
  obtain ⟨p, h1, h2, _⟩ := h
  rw [patchList_denotes A di p 0 h1, Built.done A B p h2.1]

/-- a finished construction, for any item relation: ordered in-bounds entries that rebuild `B` -/
theorem BuiltM.done' {A B : List J} {di : List Op} {kb : Nat}
    (h : BuiltM P A B di A.length B.length kb) :
    ∃ pops, Denotes P A di pops ∧ ChainFrom A.length 0 pops ∧ pf pops 0 A = B := by
  obtain ⟨p, h1, h2, _⟩ := h
  exact ⟨p, h1, h2.2, Built.done A B p h2.1⟩

theorem BuiltM.keep {A B : List J} {di : List Op} {i j kb : Nat} (h : BuiltM P A B di i j kb)
    (hi : i < A.length) (hj : j < B.length) (heq : A[i] = B[j]) : BuiltM P A B di (i + 1) (j + 1) kb := by
  obtain ⟨p, h1, h2, h3⟩ := h
  exact ⟨p, h1, BuiltC.keep A B p i j h2 hi hj heq, h3⟩

/-- `seqPatch` for an aligned pair whose sub-diff patches `A[i]` into `B[j]` -/
theorem BuiltM.patch {A B : List J} {di : List Op} {i j kb : Nat} (h : BuiltM P A B di i j kb)
    (hkb : kb ≤ i) (hi : i < A.length) (hj : j < B.length) (cd : List Op)
    (hp : P A[i] cd B[j]) (hnil : cd = [] → A[i] = B[j]) :
    BuiltM P A B (seqPatch di i cd) (i + 1) (j + 1) i := by
  unfold seqPatch
  by_cases hc : cd.isEmpty = true
  · have : cd = [] := by simpa using hc
    simp only [hc, if_true]
    exact (h.keep hi hj (hnil this)).mono hkb
  · obtain ⟨p, h1, h2, h3⟩ := h
    simp only [hc, Bool.false_eq_true, if_false]
    rw [seqAppend_end_nonadd di (.patchI i cd) rfl (fun o ho => by
      have := h3 o ho
      show o.idx ≤ i
      omega)]
    refine ⟨p ++ [.pat i B[j]], h1.append (.pat i cd A[i] B[j] (by simp [hi]) hp .nil), ?_, ?_⟩
    · have := BuiltC.push A B p i j (.pat i B[j]) h2 rfl (by
        simp only [POp.out, List.length_singleton]
        rw [slice'_succ B j hj]) (by simp [POp.out]; omega) (by simp [POp.eat]; omega)
      simpa [POp.eat, POp.out] using this
    · intro o ho
      simp only [List.mem_append, List.mem_singleton] at ho
      rcases ho with ho | rfl
      · have := h3 o ho; omega
      · simp [Op.idx]

/-- the gap before an aligned run: `n` base items removed and `vs` inserted at base position `i`
    (the builder puts the addrange in front of the removerange) -/
theorem BuiltM.gap {A B : List J} {di : List Op} {i j kb : Nat} (h : BuiltM P A B di i j kb)
    (hkb : kb < i ∨ di = []) (n : Nat) (vs : List J) (hvs : vs = slice' B j (j + vs.length))
    (hjb : j + vs.length ≤ B.length) (hN : i + n ≤ A.length) :
    BuiltM P A B (seqAddrange (seqRemoverange di i n) i vs) (i + n) (j + vs.length) i := by
  obtain ⟨p, h1, h2, h3⟩ := h
  have hlt : ∀ o ∈ di, o.idx < i := by
    intro o ho
    rcases hkb with hkb | hkb
    · have := h3 o ho; omega
    · subst hkb; simp at ho
  by_cases hn : n = 0
  · subst hn
    by_cases hv : vs.isEmpty = true
    · have hv' : vs = [] := by simpa using hv
      subst hv'
      simp only [seqRemoverange, seqAddrange, beq_self_eq_true, if_true, List.isEmpty_nil,
        List.length_nil, Nat.add_zero]
      exact ⟨p, h1, h2, fun o ho => Nat.le_of_lt (hlt o ho)⟩
    · simp only [seqRemoverange, seqAddrange, beq_self_eq_true, if_true, hv, Bool.false_eq_true, if_false]
      rw [seqAppend_end di (.addrange i vs) (by simpa [Op.idx] using hlt)]
      refine ⟨p ++ [.add i vs], h1.append (.add i vs .nil), ?_, ?_⟩
      · have := BuiltC.push A B p i j (.add i vs) h2 rfl (by simpa [POp.out] using hvs) (by simpa [POp.out] using hjb)
          (by simp [POp.eat]; omega)
        simpa [POp.eat, POp.out] using this
      · intro o ho
        simp only [List.mem_append, List.mem_singleton] at ho
        rcases ho with ho | rfl
        · exact Nat.le_of_lt (hlt o ho)
        · simp [Op.idx]
  · have hrem : seqRemoverange di i n = di ++ [.removerange i n] := by
      simp only [seqRemoverange, beq_iff_eq, hn, if_false]
      exact seqAppend_end di _ (by simpa [Op.idx] using hlt)
    by_cases hv : vs.isEmpty = true
    · have hv' : vs = [] := by simpa using hv
      subst hv'
      simp only [hrem, seqAddrange, List.isEmpty_nil, if_true, List.length_nil, Nat.add_zero]
      refine ⟨p ++ [.rem i n], h1.append (.rem i n .nil), ?_, ?_⟩
      · have := BuiltC.push A B p i j (.rem i n) h2 rfl (by simp [POp.out, slice'_self]) (by simp [POp.out]; omega)
          (by simpa [POp.eat] using hN)
        simpa [POp.eat, POp.out] using this
      · intro o ho
        simp only [List.mem_append, List.mem_singleton] at ho
        rcases ho with ho | rfl
        · exact Nat.le_of_lt (hlt o ho)
        · simp [Op.idx]
    · simp only [hrem, seqAddrange, hv, Bool.false_eq_true, if_false]
      rw [seqAppend_add_before_rem di i n vs hlt]
      refine ⟨p ++ [.add i vs] ++ [.rem i n], ?_, ?_, ?_⟩
      · have := (h1.append (.add i vs .nil)).append (.rem i n (P := P) (A := A) .nil)
        simpa [List.append_assoc] using this
      · have s1 := BuiltC.push A B p i j (.add i vs) h2 rfl (by simpa [POp.out] using hvs) (by simpa [POp.out] using hjb)
          (by simp [POp.eat]; omega)
        simp only [POp.eat, POp.out, Nat.add_zero] at s1
        have s2 := BuiltC.push A B (p ++ [.add i vs]) i (j + vs.length) (.rem i n) s1 rfl
          (by simp [POp.out, slice'_self]) (by simp [POp.out]; omega) (by simpa [POp.eat] using hN)
        simpa [POp.eat, POp.out] using s2
      · intro o ho
        simp only [List.mem_append, List.mem_cons, List.not_mem_nil, or_false] at ho
        rcases ho with ho | rfl | rfl
        · exact Nat.le_of_lt (hlt o ho)
        · simp [Op.idx]
        · simp [Op.idx]

end Nbdime
