import NbdimeProofs.Lemmas.SeqPatchAbs
import NbdimeProofs.Lemmas.Builder
/-
  Bridge between the abstract sequence layer with item patches (`POp`, `pf`, `Built`) and the
  executable model: `patchList` on addrange / removerange / patch entries, and the sequence
  builder appending entries in key order.
-/
namespace Nbdime
open Nbdime.Abs

/-- the model entries `ops` mean the abstract entries `pops` over the base list `A`:
    a `patch` entry stands for the item it produces -/
inductive Denotes (P : J → List Op → J → Prop) (A : List J) : List Op → List (POp J) → Prop
  | nil : Denotes P A [] []
  | add (k : Nat) (vs : List J) {es ps} : Denotes P A es ps →
      Denotes P A (.addrange k vs :: es) (.add k vs :: ps)
  | rem (k n : Nat) {es ps} : Denotes P A es ps →
      Denotes P A (.removerange k n :: es) (.rem k n :: ps)
  | pat (k : Nat) (dd : List Op) (v new : J) {es ps} : A[k]? = some v → P v dd new →
      Denotes P A es ps → Denotes P A (.patchI k dd :: es) (.pat k new :: ps)

/-- the item relation of `patch_list`: the sub-diff patches the item -/
def PatchRel : J → List Op → J → Prop := fun v dd new => patch v dd = .ok new

theorem patchList_denotes (A : List J) (ops : List Op) (pops : List (POp J)) (t : Nat)
    (h : Denotes PatchRel A ops pops) : patchList A ops t = .ok (pf pops t A) := by
  induction h generalizing t with
  | nil => simp [patchList, pf]
  | add k vs _ ih =>
    rw [patchList]
    simp [ih, pf, POp.key, POp.out, POp.eat, bind, Except.bind]
  | rem k n _ ih =>
    rw [patchList]
    simp [ih, pf, POp.key, POp.out, POp.eat, bind, Except.bind]
  | pat k dd v new hv hp _ ih =>
    rw [patchList]
    unfold PatchRel at hp
    simp [hv, hp, ih, pf, POp.key, POp.out, POp.eat, bind, Except.bind]

theorem Denotes.append {P : J → List Op → J → Prop} {A : List J} {d1 d2 : List Op} {p1 p2 : List (POp J)}
    (h1 : Denotes P A d1 p1) (h2 : Denotes P A d2 p2) : Denotes P A (d1 ++ d2) (p1 ++ p2) := by
  induction h1 with
  | nil => simpa using h2
  | add k vs _ ih => exact .add k vs ih
  | rem k n _ ih => exact .rem k n ih
  | pat k dd v new hv hp _ ih => exact .pat k dd v new hv hp ih

/-- a non-add entry whose key is not smaller than any key so far goes to the end -/
theorem seqAppend_end_nonadd (d : List Op) (e : Op) (hadd : e.isAdd = false)
    (h : ∀ o ∈ d, o.idx ≤ e.idx) : seqAppend d e = d ++ [e] := by
  unfold seqAppend
  cases hr : d.reverse with
  | nil =>
    have : d = [] := by simpa using hr
    subst this; simp [seqAppendRev]
  | cons x rest =>
    have hx : x ∈ d := by
      have : x ∈ d.reverse := by rw [hr]; simp
      simpa using this
    have hle := h x hx
    have hnot : ¬ (x.idx > e.idx) := by omega
    simp only [seqAppendRev, hadd, Bool.false_eq_true, if_false, hnot]
    have : d = (x :: rest).reverse := by rw [← hr]; simp
    rw [this]; simp

/-! ### the syntactic discipline of a sequence diff (needed for well-formedness, C11) -/

/-- an entry carries a non-empty payload -/
def okEntry : Op → Bool
  | .addrange _ vs => !vs.isEmpty
  | .addchars _ cs => !cs.isEmpty
  | .removerange _ n => decide (1 ≤ n)
  | .patchI _ dd => !dd.isEmpty
  | _ => false

/-- consecutive entries: keys increase; the only pair allowed on one key is an insertion followed by a
    removal / patch -/
def stepOK (e1 e2 : Op) : Prop := e1.idx < e2.idx ∨ (e1.idx = e2.idx ∧ e1.isAdd = true ∧ e2.isAdd = false)

def ChainOK : List Op → Prop
  | [] => True
  | [_] => True
  | e1 :: e2 :: rest => stepOK e1 e2 ∧ ChainOK (e2 :: rest)

def Strict (di : List Op) : Prop := (∀ e ∈ di, okEntry e = true) ∧ ChainOK di

theorem Strict.nil : Strict [] := ⟨by simp, trivial⟩

theorem ChainOK.snoc : ∀ {di : List Op} {e : Op}, ChainOK di → (∀ o ∈ di, stepOK o e) → ChainOK (di ++ [e])
  | [], _, _, _ => trivial
  | [x], e, _, hl => ⟨hl x (by simp), trivial⟩
  | x :: y :: rest, e, h, hl => by
      obtain ⟨h1, h2⟩ := h
      exact ⟨h1, ChainOK.snoc (di := y :: rest) h2 (fun o ho => hl o (List.mem_cons_of_mem _ ho))⟩

theorem Strict.snoc {di : List Op} {e : Op} (h : Strict di) (he : okEntry e = true) (hl : ∀ o ∈ di, stepOK o e) :
    Strict (di ++ [e]) := by
  refine ⟨?_, h.2.snoc hl⟩
  intro x hx
  simp only [List.mem_append, List.mem_singleton] at hx
  rcases hx with hx | rfl
  · exact h.1 x hx
  · exact he

theorem run_entry_le {α} : ∀ (ops : List (POp α)) (t : Nat) (xs : List α), ∀ p ∈ ops, p.key + p.eat ≤ (Abs.run ops t xs).2
  | [], _, _, p, hp => by cases hp
  | e :: es, t, xs, p, hp => by
      simp only [Abs.run]
      simp only [List.mem_cons] at hp
      rcases hp with rfl | hp
      · have := run_cursor_ge es (max t (p.key + p.eat)) xs
        omega
      · exact run_entry_le es _ xs p hp

/-- the entries that are not insertions end at or before the cursor, hence start before it -/
theorem denotes_nonadd_lt {P : J → List Op → J → Prop} {A : List J} {di : List Op} {pops : List (POp J)} {i : Nat}
    (hd : Denotes P A di pops) (hs : ∀ e ∈ di, okEntry e = true) (hc : ∀ p ∈ pops, p.key + p.eat ≤ i) :
    ∀ o ∈ di, o.isAdd = false → o.idx < i := by
  induction hd with
  | nil => intro o ho; cases ho
  | add k vs _ ih =>
    intro o ho hna
    simp only [List.mem_cons] at ho
    rcases ho with rfl | ho
    · simp [Op.isAdd] at hna
    · exact ih (fun e he => hs e (List.mem_cons_of_mem _ he)) (fun p hp => hc p (List.mem_cons_of_mem _ hp)) o ho hna
  | rem k n _ ih =>
    intro o ho hna
    simp only [List.mem_cons] at ho
    rcases ho with rfl | ho
    · have h1 := hs (.removerange k n) List.mem_cons_self
      have h2 := hc (.rem k n) List.mem_cons_self
      simp only [okEntry, decide_eq_true_eq] at h1
      simp only [POp.key, POp.eat] at h2
      simp only [Op.idx]; omega
    · exact ih (fun e he => hs e (List.mem_cons_of_mem _ he)) (fun p hp => hc p (List.mem_cons_of_mem _ hp)) o ho hna
  | pat k dd v new _ _ _ ih =>
    intro o ho hna
    simp only [List.mem_cons] at ho
    rcases ho with rfl | ho
    · have h2 := hc (.pat k new) List.mem_cons_self
      simp only [POp.key, POp.eat] at h2
      simp only [Op.idx]; omega
    · exact ih (fun e he => hs e (List.mem_cons_of_mem _ he)) (fun p hp => hc p (List.mem_cons_of_mem _ hp)) o ho hna

/-- The state of a model diff under construction (see `Abs.Built`): `di` denotes abstract
    entries that have rebuilt `B.take j` from `A` up to base position `i`, every key in `di`
    is at most `kb`, and `di` obeys the syntactic discipline `Strict`. -/
def BuiltM (P : J → List Op → J → Prop) (A B : List J) (di : List Op) (i j kb : Nat) : Prop :=
  ∃ pops, Denotes P A di pops ∧ BuiltC A B pops i j ∧ (∀ o ∈ di, o.idx ≤ kb) ∧ Strict di

variable {P : J → List Op → J → Prop}

theorem BuiltM.init (A B : List J) : BuiltM P A B [] 0 0 0 :=
  ⟨[], .nil, BuiltC.init A B, by simp, Strict.nil⟩

theorem BuiltM.mono {A B : List J} {di : List Op} {i j kb kb' : Nat} (h : BuiltM P A B di i j kb)
    (hk : kb ≤ kb') : BuiltM P A B di i j kb' := by
  obtain ⟨p, h1, h2, h3, h4⟩ := h
  exact ⟨p, h1, h2, fun o ho => Nat.le_trans (h3 o ho) hk, h4⟩

/-- a finished construction: `patch_list` turns `A` into `B` -/
theorem BuiltM.done {A B : List J} {di : List Op} {kb : Nat}
    (h : BuiltM PatchRel A B di A.length B.length kb) : patchList A di 0 = .ok B := by
  obtain ⟨p, h1, h2, _, _⟩ := h
  rw [patchList_denotes A di p 0 h1, Built.done A B p h2.1]

/-- a finished construction, for any item relation: ordered in-bounds entries that rebuild `B` -/
theorem BuiltM.done' {A B : List J} {di : List Op} {kb : Nat}
    (h : BuiltM P A B di A.length B.length kb) :
    ∃ pops, Denotes P A di pops ∧ ChainFrom A.length 0 pops ∧ pf pops 0 A = B := by
  obtain ⟨p, h1, h2, _, _⟩ := h
  exact ⟨p, h1, h2.2, Built.done A B p h2.1⟩

/-- the same, with the syntactic discipline -/
theorem BuiltM.done_strict {A B : List J} {di : List Op} {kb : Nat}
    (h : BuiltM P A B di A.length B.length kb) :
    ∃ pops, Denotes P A di pops ∧ ChainFrom A.length 0 pops ∧ pf pops 0 A = B ∧ Strict di := by
  obtain ⟨p, h1, h2, _, h4⟩ := h
  exact ⟨p, h1, h2.2, Built.done A B p h2.1, h4⟩

theorem BuiltM.keep {A B : List J} {di : List Op} {i j kb : Nat} (h : BuiltM P A B di i j kb)
    (hi : i < A.length) (hj : j < B.length) (heq : A[i] = B[j]) : BuiltM P A B di (i + 1) (j + 1) kb := by
  obtain ⟨p, h1, h2, h3, h4⟩ := h
  exact ⟨p, h1, BuiltC.keep A B p i j h2 hi hj heq, h3, h4⟩

/-- `seqPatch` for an aligned pair whose sub-diff patches `A[i]` into `B[j]` -/
theorem BuiltM.patch {A B : List J} {di : List Op} {i j kb : Nat} (h : BuiltM P A B di i j kb)
    (hkb : kb ≤ i) (hi : i < A.length) (hj : j < B.length) (cd : List Op)
    (hp : P A[i] cd B[j]) (hnil : cd = [] → A[i] = B[j]) :
    BuiltM P A B (seqPatch di i cd) (i + 1) (j + 1) i := by
  unfold seqPatch
  by_cases hc : cd.isEmpty = true
  · have : cd = [] := by simpa using hc
    simp only [hc, if_true]
    exact (h.keep hi hj (hnil this)).mono hkb
  · obtain ⟨p, h1, h2, h3, h4⟩ := h
    simp only [hc, Bool.false_eq_true, if_false]
    rw [seqAppend_end_nonadd di (.patchI i cd) rfl (fun o ho => by
      have := h3 o ho
      show o.idx ≤ i
      omega)]
    refine ⟨p ++ [.pat i B[j]], h1.append (.pat i cd A[i] B[j] (by simp [hi]) hp .nil), ?_, ?_, ?_⟩
    · have := BuiltC.push A B p i j (.pat i B[j]) h2 rfl (by
        simp only [POp.out, List.length_singleton]
        rw [slice'_succ B j hj]) (by simp [POp.out]; omega) (by simp [POp.eat]; omega)
      simpa [POp.eat, POp.out] using this
    · intro o ho
      simp only [List.mem_append, List.mem_singleton] at ho
      rcases ho with ho | rfl
      · have := h3 o ho; omega
      · simp [Op.idx]
    · -- the new patch entry follows every earlier one
      have hcur : ∀ q ∈ p, q.key + q.eat ≤ i := fun q hq =>
        Nat.le_trans (run_entry_le p 0 A q hq) h2.1.1
      have hna := denotes_nonadd_lt h1 h4.1 hcur
      refine h4.snoc (by simpa [okEntry] using hc) (fun o ho => ?_)
      cases hadd : o.isAdd with
      | false => exact Or.inl (by simpa [Op.idx] using hna o ho hadd)
      | true =>
        have hle : o.idx ≤ i := by have := h3 o ho; omega
        by_cases hlt : o.idx < i
        · exact Or.inl (by simpa [Op.idx] using hlt)
        · exact Or.inr ⟨by show o.idx = i; omega, hadd, rfl⟩

/-- the gap before an aligned run: `n` base items removed and `vs` inserted at base position `i`
    (the builder puts the addrange in front of the removerange) -/
theorem BuiltM.gap {A B : List J} {di : List Op} {i j kb : Nat} (h : BuiltM P A B di i j kb)
    (hkb : kb < i ∨ di = []) (n : Nat) (vs : List J) (hvs : vs = slice' B j (j + vs.length))
    (hjb : j + vs.length ≤ B.length) (hN : i + n ≤ A.length) :
    BuiltM P A B (seqAddrange (seqRemoverange di i n) i vs) (i + n) (j + vs.length) i := by
  obtain ⟨p, h1, h2, h3, h4⟩ := h
  have hlt : ∀ o ∈ di, o.idx < i := by
    intro o ho
    rcases hkb with hkb | hkb
    · have := h3 o ho; omega
    · subst hkb; simp at ho
  by_cases hn : n = 0
  · subst hn
    by_cases hv : vs.isEmpty = true
    · have hv' : vs = [] := by simpa using hv
      subst hv'
      simp only [seqRemoverange, seqAddrange, beq_self_eq_true, if_true, List.isEmpty_nil,
        List.length_nil, Nat.add_zero]
      exact ⟨p, h1, h2, fun o ho => Nat.le_of_lt (hlt o ho), h4⟩
    · simp only [seqRemoverange, seqAddrange, beq_self_eq_true, if_true, hv, Bool.false_eq_true, if_false]
      rw [seqAppend_end di (.addrange i vs) (by simpa [Op.idx] using hlt)]
      refine ⟨p ++ [.add i vs], h1.append (.add i vs .nil), ?_, ?_, ?_⟩
      · have := BuiltC.push A B p i j (.add i vs) h2 rfl (by simpa [POp.out] using hvs) (by simpa [POp.out] using hjb)
          (by simp [POp.eat]; omega)
        simpa [POp.eat, POp.out] using this
      · intro o ho
        simp only [List.mem_append, List.mem_singleton] at ho
        rcases ho with ho | rfl
        · exact Nat.le_of_lt (hlt o ho)
        · simp [Op.idx]
      · exact h4.snoc (by simpa [okEntry] using hv) (fun o ho => Or.inl (by simpa [Op.idx] using hlt o ho))
  · have hrem : seqRemoverange di i n = di ++ [.removerange i n] := by
      simp only [seqRemoverange, beq_iff_eq, hn, if_false]
      exact seqAppend_end di _ (by simpa [Op.idx] using hlt)
    by_cases hv : vs.isEmpty = true
    · have hv' : vs = [] := by simpa using hv
      subst hv'
      simp only [hrem, seqAddrange, List.isEmpty_nil, if_true, List.length_nil, Nat.add_zero]
      refine ⟨p ++ [.rem i n], h1.append (.rem i n .nil), ?_, ?_, ?_⟩
      · have := BuiltC.push A B p i j (.rem i n) h2 rfl (by simp [POp.out, slice'_self]) (by simp [POp.out]; omega)
          (by simpa [POp.eat] using hN)
        simpa [POp.eat, POp.out] using this
      · intro o ho
        simp only [List.mem_append, List.mem_singleton] at ho
        rcases ho with ho | rfl
        · exact Nat.le_of_lt (hlt o ho)
        · simp [Op.idx]
      · exact h4.snoc (by simp [okEntry]; omega) (fun o ho => Or.inl (by simpa [Op.idx] using hlt o ho))
    · simp only [hrem, seqAddrange, hv, Bool.false_eq_true, if_false]
      rw [seqAppend_add_before_rem di i n vs hlt]
      refine ⟨p ++ [.add i vs] ++ [.rem i n], ?_, ?_, ?_, ?_⟩
      · have := (h1.append (.add i vs .nil)).append (.rem i n (P := P) (A := A) .nil)
        simpa [List.append_assoc] using this
      · have s1 := BuiltC.push A B p i j (.add i vs) h2 rfl (by simpa [POp.out] using hvs) (by simpa [POp.out] using hjb)
          (by simp [POp.eat]; omega)
        simp only [POp.eat, POp.out, Nat.add_zero] at s1
        have s2 := BuiltC.push A B (p ++ [.add i vs]) i (j + vs.length) (.rem i n) s1 rfl
          (by simp [POp.out, slice'_self]) (by simp [POp.out]; omega) (by simpa [POp.eat] using hN)
        simpa [POp.eat, POp.out] using s2
      · intro o ho
        simp only [List.mem_append, List.mem_cons, List.not_mem_nil, or_false] at ho
        rcases ho with ho | rfl | rfl
        · exact Nat.le_of_lt (hlt o ho)
        · simp [Op.idx]
        · simp [Op.idx]
      · have s1 : Strict (di ++ [.addrange i vs]) :=
          h4.snoc (by simpa [okEntry] using hv) (fun o ho => Or.inl (by simpa [Op.idx] using hlt o ho))
        have s2 : Strict (di ++ [.addrange i vs] ++ [.removerange i n]) :=
          s1.snoc (by simp [okEntry]; omega) (fun o ho => by
            simp only [List.mem_append, List.mem_singleton] at ho
            rcases ho with ho | rfl
            · exact Or.inl (by simpa [Op.idx] using hlt o ho)
            · exact Or.inr ⟨rfl, rfl, rfl⟩)
        simpa [List.append_assoc] using s2

end Nbdime
