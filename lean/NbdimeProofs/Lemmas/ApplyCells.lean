import NbdimeProofs.Lemmas.ApplyChoose
/-
  Document level, list level (C06 for cells): both sides edit items of one list (no insertions, no removals), each
  item by one side only or by both in the same way. The decisions are one per edited item, on paths below
  `<key>/<index>`; applied by `apply_decisions` they replace exactly those items.
-/
set_option linter.unusedSimpArgs false
set_option linter.unusedVariables false
namespace Nbdime
open Nbdime.Abs Nbdime.Merge

/-- an edited item: index, sub-diff, old and new value -/
structure CellEdit where
  j : Nat
  dd : List Op
  v : J
  pv : J

def lookupEdit (es : List CellEdit) (n : Nat) : Option J := (es.find? (fun e => e.j == n)).map (·.pv)

/-- strictly ascending indices, all at least `lo` -/
def Asc : Nat → List CellEdit → Prop
  | _, [] => True
  | lo, e :: rest => lo ≤ e.j ∧ Asc (e.j + 1) rest

theorem lookupEdit_lt {lo : Nat} : ∀ {es : List CellEdit}, Asc lo es → ∀ n, n < lo → lookupEdit es n = none
  | [], _, _, _ => rfl
  | e :: rest, h, n, hn => by
      have ih := lookupEdit_lt h.2 n (by have := h.1; omega)
      unfold lookupEdit at ih ⊢
      have hne : (e.j == n) = false := by simp; have := h.1; omega
      simp only [List.find?_cons, hne]
      exact ih

/-- `patch_list` with patch entries on ascending indices replaces exactly those items -/
theorem patchList_edits (xs : List J) : ∀ (es : List CellEdit) (t : Nat), Asc t es →
    (∀ e ∈ es, xs[e.j]? = some e.v ∧ patch e.v e.dd = .ok e.pv) →
    ∃ R, patchList xs (es.map (fun e => Op.patchI e.j e.dd)) t = .ok R ∧
      ∀ i, R[i]? = (xs[t + i]?).map (fun x => (lookupEdit es (t + i)).getD x)
  | [], t, _, _ => by
      refine ⟨xs.drop t, by rw [List.map_nil, patchList], ?_⟩
      intro i
      simp [lookupEdit, List.getElem?_drop]
  | e :: rest, t, hasc, hok => by
      obtain ⟨hv, hp⟩ := hok e List.mem_cons_self
      obtain ⟨R', hR', hget⟩ := patchList_edits xs rest (e.j + 1) hasc.2 (fun x hx => hok x (List.mem_cons_of_mem _ hx))
      have hj : e.j < xs.length := by
        rcases Nat.lt_or_ge e.j xs.length with h | h
        · exact h
        · rw [List.getElem?_eq_none h] at hv; cases hv
      have hte : t ≤ e.j := hasc.1
      refine ⟨(xs.drop t).take (e.j - t) ++ [e.pv] ++ R', ?_, ?_⟩
      · rw [List.map_cons, patchList]
        simp only [hv, hp, bind, Except.bind]
        rw [Nat.max_eq_right (by omega : t ≤ e.j + 1), hR']
      · intro i
        have hlen : ((xs.drop t).take (e.j - t)).length = e.j - t := by simp; omega
        by_cases h1 : i < e.j - t
        · rw [List.append_assoc, List.getElem?_append_left (by rw [hlen]; exact h1)]
          have hlk : lookupEdit (e :: rest) (t + i) = none := lookupEdit_lt (lo := e.j) (es := e :: rest) (show e.j ≤ e.j ∧ Asc (e.j + 1) rest from ⟨Nat.le_refl _, hasc.2⟩) (t + i) (by omega)
          simp [List.getElem?_take, h1, List.getElem?_drop, hlk]
        · by_cases h2 : i = e.j - t
          · subst h2
            rw [List.append_assoc, List.getElem?_append_right (by rw [hlen]; exact Nat.le_refl _), hlen]
            have : t + (e.j - t) = e.j := by omega
            simp [this, hv, lookupEdit]
          · have hi : e.j - t < i := by omega
            rw [List.getElem?_append_right (by simp; omega)]
            have hidx : i - ((xs.drop t).take (e.j - t) ++ [e.pv]).length = i - (e.j - t) - 1 := by simp; omega
            rw [hidx, hget]
            have h3 : e.j + 1 + (i - (e.j - t) - 1) = t + i := by omega
            rw [h3]
            have hne : (e.j == t + i) = false := by simp; omega
            simp [lookupEdit, List.find?_cons, hne]


/-! ### running a prefix of the decision list -/

/-- one decision processed by the loop of `apply_decisions`: the new (merged, open group) -/
def loopStep (md : Decision) (merged : J) (g : Option Group) : Except Err (J × Option Group) := do
  let (path, line) ← splitStringPath merged md.path
  match g with
  | some grp =>
      if grp.path == path then
        if grp.clearAll then pure (merged, g)
        else do
          let resolved ← getAt merged path
          let (clr, diffs0) := if md.action == "clear_all" then (true, []) else (false, grp.diffs)
          let ad ← resolveAction resolved md
          let ad := if line.isEmpty then ad else pushPath line ad
          let diffs ← combinePatches 64 (diffs0 ++ ad)
          pure (merged, some ⟨path, diffs, clr⟩)
      else do
        let merged' ← flush merged g
        let resolved ← getAt merged' path
        let ad ← resolveAction resolved md
        let ad := if line.isEmpty then ad else pushPath line ad
        pure (merged', some ⟨path, ad, md.action == "clear_all"⟩)
  | none => do
      let resolved ← getAt merged path
      let ad ← resolveAction resolved md
      let ad := if line.isEmpty then ad else pushPath line ad
      pure (merged, some ⟨path, ad, md.action == "clear_all"⟩)

def runPrefix : List Decision → J → Option Group → Except Err (J × Option Group)
  | [], merged, g => .ok (merged, g)
  | md :: rest, merged, g => do
      let (m', g') ← loopStep md merged g
      runPrefix rest m' g'

theorem applyLoop_step (md : Decision) (rest : List Decision) (merged : J) (g : Option Group) :
    applyLoop (md :: rest) merged g = (do let (m', g') ← loopStep md merged g; applyLoop rest m' g') := by
  rw [applyLoop]
  unfold loopStep
  simp only [bind, Except.bind]
  cases splitStringPath merged md.path with
  | error e => rfl
  | ok pl =>
    obtain ⟨path, line⟩ := pl
    simp only []
    cases g with
    | none =>
      simp only []
      cases getAt merged path with
      | error e => rfl
      | ok resolved =>
        simp only []
        cases resolveAction resolved md with
        | error e => rfl
        | ok ad => rfl
    | some grp =>
      simp only []
      by_cases hp : (grp.path == path) = true
      · simp only [hp, if_true]
        by_cases hc : grp.clearAll = true
        · simp [hc, pure, Except.pure]
        · simp only [hc, Bool.false_eq_true, if_false]
          cases getAt merged path with
          | error e => rfl
          | ok resolved =>
            simp only []
            cases resolveAction resolved md with
            | error e => rfl
            | ok ad =>
              simp only []
              cases combinePatches 64 ((if md.action == "clear_all" then (true, ([] : List Op)) else (false, grp.diffs)).2 ++
                  (if line.isEmpty then ad else pushPath line ad)) with
              | error e => simp [pure, Except.pure]
              | ok diffs => simp [pure, Except.pure]
      · simp only [hp, Bool.false_eq_true, if_false]
        cases flush merged (some grp) with
        | error e => rfl
        | ok merged' =>
          simp only []
          cases getAt merged' path with
          | error e => rfl
          | ok resolved =>
            simp only []
            cases resolveAction resolved md with
            | error e => rfl
            | ok ad => rfl

theorem applyLoop_append : ∀ (ds rest : List Decision) (merged : J) (g : Option Group),
    applyLoop (ds ++ rest) merged g = (do let (m', g') ← runPrefix ds merged g; applyLoop rest m' g')
  | [], rest, merged, g => by simp [runPrefix, bind, Except.bind]
  | md :: ds, rest, merged, g => by
      rw [List.cons_append, applyLoop_step, runPrefix]
      simp only [bind, Except.bind]
      cases loopStep md merged g with
      | error e => rfl
      | ok mg =>
        obtain ⟨m', g'⟩ := mg
        simp only []
        exact applyLoop_append ds rest m' g'


/-! ### `apply_decisions` on a list whose decisions each sit below one item -/

structure ArrItem where
  j : Nat
  q' : List PKey
  x : List Op
  v : J
  pv : J
  d : Decision

def ArrItem.ok (xs : List J) (it : ArrItem) : Prop :=
  xs[it.j]? = some it.v ∧ it.v.canonical = true ∧ patch it.v (pushPath it.q' it.x) = .ok it.pv ∧
    Res it.d (PKey.i it.j :: it.q') it.x

/-- flushing this pending group puts `pv` at index `j`, whatever else the list holds, as long as index `j` still
    holds `v` -/
def PendA (v : J) (g : Group) (j : Nat) (pv : J) : Prop :=
  (∃ p', g.path = PKey.i j :: p') ∧ g.clearAll = false ∧
  ∀ M' : List J, M'[j]? = some v → flush (.arr M') (some g) = .ok (.arr (M'.set j pv))

theorem open_arr (j : Nat) (q' : List PKey) (x : List Op) (v pv : J) (cv : v.canonical = true)
    (hp : patch v (pushPath q' x) = .ok pv) :
    ∃ p' line r, (∀ M : List J, M[j]? = some v →
        splitStringPath (.arr M) (PKey.i j :: q') = .ok (PKey.i j :: p', line) ∧ getAt (.arr M) (PKey.i j :: p') = .ok r) ∧
      PendA v ⟨PKey.i j :: p', pushPath line x, false⟩ j pv := by
  obtain ⟨p', line, r, r', h1, h2, h3, h4⟩ := flush_eq_patch q' v x pv cv hp
  refine ⟨p', line, r, ?_, ⟨p', rfl⟩, rfl, ?_⟩
  · intro M hM
    constructor
    · simp [splitStringPath, getKey, hM, h1, bind, Except.bind]
    · simp [getAt, getKey, hM, h2, bind, Except.bind]
  · intro M' hM'
    simp [flush, getAt, getKey, hM', h2, h3, setAt, h4, bind, Except.bind]

theorem arr_step (j : Nat) (q' : List PKey) (x : List Op) (v pv : J) (cv : v.canonical = true)
    (hp : patch v (pushPath q' x) = .ok pv) (dd : Decision) (hR : Res dd (PKey.i j :: q') x)
    (rest : List Decision) (M : List J) (hM : M[j]? = some v) :
    (∃ g, PendA v g j pv ∧ loopStep dd (.arr M) none = .ok (.arr M, some g)) ∧
    (∀ (gp : Group) (jp : Nat) (vp pvp : J), PendA vp gp jp pvp → jp ≠ j → M[jp]? = some vp →
      ∃ g, PendA v g j pv ∧ loopStep dd (.arr M) (some gp) = .ok (.arr (M.set jp pvp), some g)) := by
  obtain ⟨p', line, r, hres, hpend⟩ := open_arr j q' x v pv cv hp
  constructor
  · refine ⟨_, hpend, ?_⟩
    obtain ⟨s1, s2⟩ := hres M hM
    have hr := hR.res r
    have hca := hR.nca
    have hpath := hR.path
    simp only [loopStep, bind, Except.bind, hpath, s1, s2, hr, line_push, hca, pure, Except.pure]
  · intro gp jp vp pvp hgp hne hjp
    refine ⟨_, hpend, ?_⟩
    obtain ⟨⟨pp, hpp⟩, hclr, hfl⟩ := hgp
    obtain ⟨s1, _⟩ := hres M hM
    have hM2 : (M.set jp pvp)[j]? = some v := by
      rw [List.getElem?_set]; simp [hne, hM]
    obtain ⟨_, s2'⟩ := hres (M.set jp pvp) hM2
    have hr := hR.res r
    have hca := hR.nca
    have hpath := hR.path
    have hneq : (gp.path == PKey.i j :: p') = false := by
      rw [hpp]
      simp only [beq_eq_false_iff_ne, ne_eq, List.cons.injEq, PKey.i.injEq, not_and]
      intro h; exact absurd h hne
    simp only [loopStep, bind, Except.bind, hpath, s1, hneq, Bool.false_eq_true, if_false, hfl M hjp, s2', hr, line_push, hca, pure, Except.pure]

abbrev PendArr := Option (Group × Nat × J × J)

/-- state while the item decisions are processed: `F` lists the indices dealt with (the pending one included) and
    their new values; the list `M` holds them except the pending one -/
def ArrInv (xs M : List J) (F : List (Nat × J)) (pend : PendArr) : Prop :=
  M.length = xs.length ∧
  (∀ i, M[i]? = if pend.map (fun t => t.2.1) = some i then xs[i]? else
      (xs[i]?).map (fun x => ((F.find? (fun p => p.1 == i)).map (·.2)).getD x)) ∧
  (∀ g jp vp pvp, pend = some (g, jp, vp, pvp) → PendA vp g jp pvp ∧ xs[jp]? = some vp ∧
      (F.find? (fun p => p.1 == jp)).map (·.2) = some pvp)

theorem arr_loop (xs : List J) : ∀ (items : List ArrItem) (tail : List Decision) (M : List J) (F : List (Nat × J))
    (pend : PendArr),
    (∀ it ∈ items, it.ok xs) → (items.map (·.j)).Nodup → (∀ it ∈ items, F.find? (fun p => p.1 == it.j) = none) →
    ArrInv xs M F pend →
    ∃ M' pend', runPrefix (items.map (·.d)) (.arr M) (pend.map (·.1)) = .ok (.arr M', pend'.map (·.1)) ∧
      ArrInv xs M' ((items.map (fun it => (it.j, it.pv))).reverse ++ F) pend' ∧
      ((pend.isSome = true ∨ items ≠ []) → pend'.isSome = true)
  | [], tail, M, F, pend, _, _, _, hinv => ⟨M, pend, rfl, by simpa using hinv, fun h => by rcases h with h | h; exact h; exact absurd rfl h⟩
  | it :: rest, tail, M, F, pend, hok, hnd, hF, hinv => by
      obtain ⟨hlen, hlk, hpe⟩ := hinv
      obtain ⟨ho1, ho2, ho3, ho4⟩ := hok it List.mem_cons_self
      have hitF := hF it List.mem_cons_self
      simp only [List.map_cons, List.nodup_cons] at hnd
      obtain ⟨hnotin, hnd'⟩ := hnd
      have restF : ∀ it' ∈ rest, ((it.j, it.pv) :: F).find? (fun p => p.1 == it'.j) = none := by
        intro it' hit'
        have hne : it.j ≠ it'.j := by
          intro h; apply hnotin; rw [h]; exact List.mem_map_of_mem hit'
        simp only [List.find?_cons]
        have : (it.j == it'.j) = false := by simpa using hne
        simp only [this]
        exact hF it' (List.mem_cons_of_mem _ hit')
      cases pend with
      | none =>
        have hM : M[it.j]? = some it.v := by
          rw [hlk it.j]; simp [hitF, ho1]
        obtain ⟨⟨g, hg, hstep⟩, _⟩ := arr_step it.j it.q' it.x it.v it.pv ho2 ho3 it.d ho4 (rest.map (·.d) ++ tail) M hM
        have hinv' : ArrInv xs M ((it.j, it.pv) :: F) (some (g, it.j, it.v, it.pv)) := by
          refine ⟨hlen, ?_, ?_⟩
          · intro i
            rw [hlk i]
            by_cases hi : it.j = i
            · subst hi; simp [hitF, ho1]
            · have : (it.j == i) = false := by simpa using hi
              simp [hi, List.find?_cons, this]
          · intro g' jp vp pvp h
            cases h
            exact ⟨hg, ho1, by simp [List.find?_cons]⟩
        obtain ⟨M', pend', h1, h2, h3⟩ := arr_loop xs rest tail M ((it.j, it.pv) :: F) (some (g, it.j, it.v, it.pv))
          (fun i hi => hok i (List.mem_cons_of_mem _ hi)) hnd' restF hinv'
        refine ⟨M', pend', ?_, ?_, fun _ => h3 (Or.inl rfl)⟩
        · simp only [List.map_cons, Option.map_none, runPrefix, hstep, bind, Except.bind]
          simpa using h1
        · simpa [List.append_assoc] using h2
      | some pd =>
        obtain ⟨gp, jp, vp, pvp⟩ := pd
        obtain ⟨hgp, hbase, hFjp⟩ := hpe gp jp vp pvp rfl
        have hne : jp ≠ it.j := by
          intro h; rw [h] at hFjp; rw [hitF] at hFjp; cases hFjp
        have hM : M[it.j]? = some it.v := by
          rw [hlk it.j]
          have : ¬ (jp = it.j) := hne
          simp [this, hitF, ho1]
        have hMjp : M[jp]? = some vp := by
          rw [hlk jp]; simp [hbase]
        obtain ⟨_, hstep2⟩ := arr_step it.j it.q' it.x it.v it.pv ho2 ho3 it.d ho4 (rest.map (·.d) ++ tail) M hM
        obtain ⟨g, hg, hstep⟩ := hstep2 gp jp vp pvp hgp hne hMjp
        have hjplt : jp < M.length := by
          rcases Nat.lt_or_ge jp M.length with h | h
          · exact h
          · rw [List.getElem?_eq_none h] at hMjp; cases hMjp
        have hinv' : ArrInv xs (M.set jp pvp) ((it.j, it.pv) :: F) (some (g, it.j, it.v, it.pv)) := by
          refine ⟨by simp [hlen], ?_, ?_⟩
          · intro i
            rw [List.getElem?_set, hlk i]
            by_cases hi : it.j = i
            · subst hi
              have : ¬ (jp = it.j) := hne
              simp [this, hitF]
            · have hb : (it.j == i) = false := by simpa using hi
              by_cases hij : jp = i
              · subst hij
                simp [hi, List.find?_cons, hb, hjplt, hbase]
                cases hf : F.find? (fun p => p.1 == jp) with
                | none => simp [hf] at hFjp
                | some pr =>
                  simp only [hf, Option.map_some, Option.some.injEq] at hFjp
                  simp [hFjp]
              · simp [hi, hij, List.find?_cons, hb]
          · intro g' jp' vp' pvp' h
            cases h
            exact ⟨hg, ho1, by simp [List.find?_cons]⟩
        obtain ⟨M', pend', h1, h2, h3⟩ := arr_loop xs rest tail (M.set jp pvp) ((it.j, it.pv) :: F) (some (g, it.j, it.v, it.pv))
          (fun i hi => hok i (List.mem_cons_of_mem _ hi)) hnd' restF hinv'
        refine ⟨M', pend', ?_, ?_, fun _ => h3 (Or.inl rfl)⟩
        · simp only [List.map_cons, Option.map_some, runPrefix, hstep, bind, Except.bind]
          simpa using h1
        · simpa [List.append_assoc] using h2


theorem find_rev_items : ∀ (items : List ArrItem), (items.map (·.j)).Nodup → ∀ i,
    ((items.map (fun it => (it.j, it.pv))).reverse.find? (fun p => p.1 == i)).map (·.2) =
      (items.find? (fun it => it.j == i)).map (·.pv)
  | [], _, _ => rfl
  | it :: rest, hnd, i => by
      simp only [List.map_cons, List.nodup_cons] at hnd
      have ih := find_rev_items rest hnd.2 i
      simp only [List.map_cons, List.reverse_cons, List.find?_append, List.find?_cons, List.find?_nil]
      by_cases hi : it.j = i
      · subst hi
        have hnone : rest.find? (fun x => x.j == it.j) = none := by
          rw [List.find?_eq_none]
          intro x hx hxe
          exact hnd.1 (by simp at hxe; rw [← hxe]; exact List.mem_map_of_mem hx)
        rw [hnone] at ih
        cases hf : (rest.map (fun it => (it.j, it.pv))).reverse.find? (fun p => p.1 == it.j) with
        | none => simp
        | some pr => rw [hf] at ih; simp at ih
      · have hb : (it.j == i) = false := by simpa using hi
        simp only [hb]
        cases hf : (rest.map (fun it => (it.j, it.pv))).reverse.find? (fun p => p.1 == i) with
        | none => rw [hf] at ih; simpa using ih
        | some pr => rw [hf] at ih; simpa using ih

/-- the whole block of item decisions on a list, started with no group open: the state it leaves (the last group is
    still pending) and what flushing that group gives -/
theorem arr_run_summary (xs : List J) (items : List ArrItem) (hok : ∀ it ∈ items, it.ok xs)
    (hnd : (items.map (·.j)).Nodup) (hne : items ≠ []) :
    ∃ M' g jp vp pvp, runPrefix (items.map (·.d)) (.arr xs) none = .ok (.arr M', some g) ∧ PendA vp g jp pvp ∧
      M'[jp]? = some vp ∧
      (∀ i, (M'.set jp pvp)[i]? = (xs[i]?).map (fun x => ((items.find? (fun it => it.j == i)).map (·.pv)).getD x)) := by
  have hinv0 : ArrInv xs xs [] none := ⟨rfl, fun i => by simp, fun _ _ _ _ h => by cases h⟩
  obtain ⟨M', pend', h1, ⟨hlen, hlk, hpe⟩, h3⟩ := arr_loop xs items [] xs [] none hok hnd (fun _ _ => rfl) hinv0
  have hs := h3 (Or.inr hne)
  cases pend' with
  | none => simp at hs
  | some pd =>
    obtain ⟨g, jp, vp, pvp⟩ := pd
    obtain ⟨hg, hbase, hF⟩ := hpe g jp vp pvp rfl
    have hMjp : M'[jp]? = some vp := by rw [hlk jp]; simp [hbase]
    refine ⟨M', g, jp, vp, pvp, by simpa using h1, hg, hMjp, ?_⟩
    intro i
    have hjplt : jp < M'.length := by
      rcases Nat.lt_or_ge jp M'.length with h | h
      · exact h
      · rw [List.getElem?_eq_none h] at hMjp; cases hMjp
    simp only [List.append_nil] at hlk hF
    rw [List.getElem?_set, hlk i, ← find_rev_items items hnd i]
    by_cases hij : jp = i
    · subst hij
      simp [hjplt, hbase, hF]
    · simp [hij]

/-! ### decisions below one key of an object: the run is the run on the value of that key -/

def liftDec (k : String) (d : Decision) : Decision := { d with path := PKey.s k :: d.path }
def liftG (k : String) (g : Group) : Group := { g with path := PKey.s k :: g.path }

theorem insertKV_twice (k : String) (a b : J) (M : List (String × J)) (hM : SK M) :
    insertKV k b (insertKV k a M) = insertKV k b M := by
  apply sk_ext _ _ (insertKV_sorted _ _ _ (insertKV_sorted _ _ _ hM)) (insertKV_sorted _ _ _ hM)
  intro x
  rw [lookupKV_insertKV, lookupKV_insertKV, lookupKV_insertKV]
  by_cases hx : x = k <;> simp [hx]

theorem flush_lift (k : String) (M : List (String × J)) (A : J) (hk : lookupKV k M = some A) (g : Group) :
    flush (.obj M) (some (liftG k g)) =
      (match flush A (some g) with
       | .error e => .error e
       | .ok a => .ok (.obj (insertKV k a M))) := by
  simp only [flush, liftG, getAt, getKey, hk, setAt, bind, Except.bind]
  cases getAt A g.path with
  | error e => rfl
  | ok resolved =>
    simp only []
    cases patch resolved g.diffs with
    | error e => rfl
    | ok patched =>
      simp only []
      cases setAt A g.path patched with
      | error e => rfl
      | ok a => rfl

theorem resolveAction_lift (k : String) (r : J) (md : Decision) (hkb : md.keyBased = false) :
    resolveAction r (liftDec k md) = resolveAction r md := by
  have hkb' : (liftDec k md).keyBased = false := hkb
  rw [resolveAction_leaf r md hkb, resolveAction_leaf r (liftDec k md) hkb']
  rfl

theorem loopStep_lift (k : String) (md : Decision) (hkb : md.keyBased = false) (M : List (String × J)) (hM : SK M) (A : J)
    (hk : lookupKV k M = some A) (g : Option Group) :
    loopStep (liftDec k md) (.obj M) (g.map (liftG k)) =
      (match loopStep md A g with
       | .error e => .error e
       | .ok (a, g') => .ok (.obj (insertKV k a M), g'.map (liftG k))) := by
  have hsame : insertKV k A M = M := insertKV_lookup_self k A M hM hk
  unfold loopStep
  have hpath : (liftDec k md).path = PKey.s k :: md.path := rfl
  have hact : (liftDec k md).action = md.action := rfl
  simp only [hpath, hact, splitStringPath, getKey, hk, bind, Except.bind, resolveAction_lift k _ md hkb]
  cases splitStringPath A md.path with
  | error e => rfl
  | ok pl =>
    obtain ⟨path, line⟩ := pl
    simp only []
    cases g with
    | none =>
      simp only [Option.map_none, getAt, getKey, hk, bind, Except.bind]
      cases getAt A path with
      | error e => rfl
      | ok resolved =>
        simp only []
        cases resolveAction resolved md with
        | error e => rfl
        | ok ad => simp [pure, Except.pure, hsame, liftG]
    | some grp =>
      simp only [Option.map_some]
      have hcmp : ((liftG k grp).path == PKey.s k :: path) = (grp.path == path) := by
        simp only [liftG]
        by_cases h : grp.path = path <;> simp [h]
      have hclr : (liftG k grp).clearAll = grp.clearAll := rfl
      have hdf : (liftG k grp).diffs = grp.diffs := rfl
      simp only [hcmp, hclr, hdf]
      by_cases hp : (grp.path == path) = true
      · simp only [hp, if_true]
        by_cases hc : grp.clearAll = true
        · simp [hc, pure, Except.pure, hsame]
        · simp only [hc, Bool.false_eq_true, if_false, getAt, getKey, hk, bind, Except.bind]
          cases getAt A path with
          | error e => rfl
          | ok resolved =>
            simp only []
            cases resolveAction resolved md with
            | error e => rfl
            | ok ad =>
              simp only []
              cases combinePatches 64 ((if md.action == "clear_all" then (true, ([] : List Op)) else (false, grp.diffs)).2 ++
                  (if line.isEmpty then ad else pushPath line ad)) with
              | error e => simp [pure, Except.pure]
              | ok diffs => simp [pure, Except.pure, hsame, liftG]
      · simp only [hp, Bool.false_eq_true, if_false]
        rw [flush_lift k M A hk grp]
        cases flush A (some grp) with
        | error e => rfl
        | ok a =>
          simp only [getAt, getKey, lookupKV_insertKV, if_true, bind, Except.bind]
          cases getAt a path with
          | error e => rfl
          | ok resolved =>
            simp only []
            cases resolveAction resolved md with
            | error e => rfl
            | ok ad => simp [pure, Except.pure, liftG]

theorem runPrefix_lift (k : String) : ∀ (ds : List Decision) (hkb : ∀ md ∈ ds, md.keyBased = false)
    (M : List (String × J)) (hM : SK M) (A : J) (hk : lookupKV k M = some A) (g : Option Group),
    runPrefix (ds.map (liftDec k)) (.obj M) (g.map (liftG k)) =
      (match runPrefix ds A g with
       | .error e => .error e
       | .ok (a, g') => .ok (.obj (insertKV k a M), g'.map (liftG k)))
  | [], _, M, hM, A, hk, g => by simp [runPrefix, insertKV_lookup_self k A M hM hk]
  | md :: ds, hkb, M, hM, A, hk, g => by
      simp only [List.map_cons, runPrefix, bind, Except.bind]
      rw [loopStep_lift k md (hkb md List.mem_cons_self) M hM A hk g]
      cases loopStep md A g with
      | error e => rfl
      | ok ag =>
        obtain ⟨a, g'⟩ := ag
        simp only []
        rw [runPrefix_lift k ds (fun x hx => hkb x (List.mem_cons_of_mem _ hx)) (insertKV k a M) (insertKV_sorted _ _ _ hM) a (by rw [lookupKV_insertKV]; simp) g']
        cases runPrefix ds a g' with
        | error e => rfl
        | ok ag2 =>
          obtain ⟨a2, g2⟩ := ag2
          simp only [insertKV_twice k a a2 M hM]


/-- a group of another key is pending when the block starts: it is flushed by the first decision of the block -/
theorem runPrefix_foreign (k : String) (d1 : Decision) (ds : List Decision) (M : List (String × J))
    (gp : Group) (kp : String) (vp pvp : J) (hgp : PendOK vp gp kp pvp) (hkne : kp ≠ k) (hkp : lookupKV kp M = some vp) :
    runPrefix ((d1 :: ds).map (liftDec k)) (.obj M) (some gp) =
      runPrefix ((d1 :: ds).map (liftDec k)) (.obj (insertKV kp pvp M)) none := by
  obtain ⟨⟨pp, hpp⟩, hclr, hfl⟩ := hgp
  have hlk : lookupKV k (insertKV kp pvp M) = lookupKV k M := by
    rw [lookupKV_insertKV]; simp [Ne.symm hkne]
  simp only [List.map_cons, runPrefix]
  congr 1
  unfold loopStep
  have hpath : (liftDec k d1).path = PKey.s k :: d1.path := rfl
  simp only [hpath, splitStringPath, getKey, hlk, bind, Except.bind]
  cases hk : lookupKV k M with
  | none => rfl
  | some A =>
    simp only []
    cases splitStringPath A d1.path with
    | error e => rfl
    | ok pl =>
      obtain ⟨path, line⟩ := pl
      have hneq : (gp.path == PKey.s k :: path) = false := by
        rw [hpp]
        simp only [beq_eq_false_iff_ne, ne_eq, List.cons.injEq, PKey.s.injEq, not_and]
        intro h; exact absurd h hkne
      simp only [hneq, Bool.false_eq_true, if_false, hfl M hkp]

/-- **the block of item decisions below key `k` of the root object** (the value of `k` is the list `xs`): what it does to
    the state of `apply_decisions`, started with no group open or with the group of another key open -/
theorem cells_block (k : String) (xs : List J) (items : List ArrItem) (hok : ∀ it ∈ items, it.ok xs)
    (hnd : (items.map (·.j)).Nodup) (hne : items ≠ []) (hkb : ∀ it ∈ items, it.d.keyBased = false)
    (rest : List Decision) (M : List (String × J)) (hM : SK M) (hk : lookupKV k M = some (.arr xs)) :
    ∃ mid R g, PendOK mid g k (.arr R) ∧
      (∀ i, R[i]? = (xs[i]?).map (fun x => ((items.find? (fun it => it.j == i)).map (·.pv)).getD x)) ∧
      applyLoop (items.map (fun it => liftDec k it.d) ++ rest) (.obj M) none =
        applyLoop rest (.obj (insertKV k mid M)) (some g) ∧
      (∀ (gp : Group) (kp : String) (vp pvp : J), PendOK vp gp kp pvp → kp ≠ k → lookupKV kp M = some vp →
        applyLoop (items.map (fun it => liftDec k it.d) ++ rest) (.obj M) (some gp) =
          applyLoop rest (.obj (insertKV k mid (insertKV kp pvp M))) (some g)) := by
  obtain ⟨M', g, jp, vp, pvp, hrun, hpa, hMjp, hR⟩ := arr_run_summary xs items hok hnd hne
  have hmap : items.map (fun it => liftDec k it.d) = (items.map (·.d)).map (liftDec k) := by
    rw [List.map_map]; rfl
  have hkbd : ∀ md ∈ items.map (·.d), md.keyBased = false := by
    intro md hmd
    obtain ⟨it, hit, rfl⟩ := List.mem_map.mp hmd
    exact hkb it hit
  refine ⟨.arr M', M'.set jp pvp, liftG k g, ?_, hR, ?_, ?_⟩
  · obtain ⟨⟨p', hp'⟩, hclr, hfl⟩ := hpa
    refine ⟨⟨PKey.i jp :: p', by simp [liftG, hp']⟩, hclr, ?_⟩
    intro M'' hM''
    rw [flush_lift k M'' (.arr M') hM'' g, hfl M' hMjp]
  · rw [hmap, applyLoop_append]
    have := runPrefix_lift k (items.map (·.d)) hkbd M hM (.arr xs) hk none
    simp only [Option.map_none] at this
    rw [this, hrun]
    simp [bind, Except.bind]
  · intro gp kp vp' pvp' hgp hkne hkp
    rw [hmap, applyLoop_append]
    cases hitems : items.map (·.d) with
    | nil =>
      have : items = [] := by simpa using hitems
      exact absurd this hne
    | cons d1 ds =>
      rw [runPrefix_foreign k d1 ds M gp kp vp' pvp' hgp hkne hkp]
      have hM1 : SK (insertKV kp pvp' M) := insertKV_sorted _ _ _ hM
      have hk1 : lookupKV k (insertKV kp pvp' M) = some (.arr xs) := by
        rw [lookupKV_insertKV]; simp [Ne.symm hkne, hk]
      have := runPrefix_lift k (d1 :: ds) (by rw [← hitems]; exact hkbd) (insertKV kp pvp' M) hM1 (.arr xs) hk1 none
      simp only [Option.map_none] at this
      rw [this, ← hitems, hrun]
      simp [bind, Except.bind]


/-! ### the root object: single deep decisions, one block of item decisions, plain root entries -/

/-- a key of the root object dealt with by deep decisions: key, new value, the entry of the combined diff it stands for -/
structure Slot where
  k : String
  pv : J
  entry : Op

def Slot.ok (base : List (String × J)) (t : Slot) : Prop :=
  t.entry.skey = t.k ∧ t.entry.isMapOp = true ∧ mapEff base t.entry = some (some t.pv)

/-- the last step of the document-level theorems: the fully flushed root `V` (slots replaced) patched with the plain
    root entries is `base` patched with the whole diff -/
theorem final_table (base : List (String × J)) (hb : SK base) (T : List Slot) (hT : ∀ t ∈ T, t.ok base)
    (V : List (String × J)) (hskV : SK V)
    (hlkV : ∀ x, lookupKV x V = (lookupKV x ((T.map (fun t => (t.k, t.pv))).reverse)).or (lookupKV x base))
    (es diffs' ld : List Op) (hes : ∀ o ∈ es, isPlainMap o = true) (heff : ∀ o ∈ es, (mapEff base o).isSome = true)
    (hpermD : diffs'.Perm es) (hperm : ld.Perm (T.map (·.entry) ++ es)) (hnd : (ld.map Op.skey).Nodup) :
    patch (.obj V) diffs' = patch (.obj base) ld := by
  have hnd2 : ((T.map (·.entry) ++ es).map Op.skey).Nodup := (hperm.map Op.skey).nodup_iff.mp hnd
  simp only [List.map_append, List.map_map] at hnd2
  have hkeys : (T.map (·.k)) = T.map (Op.skey ∘ (·.entry)) := by
    apply List.map_congr_left; intro t ht; exact ((hT t ht).1).symm
  rw [← hkeys] at hnd2
  have hndI : (T.map (·.k)).Nodup := (List.nodup_append.mp hnd2).1
  have hndE : (es.map Op.skey).Nodup := (List.nodup_append.mp hnd2).2.1
  have hdisj : ∀ t ∈ T, ∀ e ∈ es, t.k ≠ e.skey := by
    intro t ht e he heq
    have := (List.nodup_append.mp hnd2).2.2 t.k (List.mem_map_of_mem ht) e.skey (List.mem_map_of_mem he)
    exact this heq
  generalize hF : (T.map (fun t => (t.k, t.pv))).reverse = F at hlkV
  have hFdk : DK F := by
    rw [← hF]
    unfold DK
    rw [List.pairwise_reverse, List.pairwise_map]
    rw [List.nodup_iff_pairwise_ne, List.pairwise_map] at hndI
    exact hndI.imp (fun h => fun heq => h heq.symm)
  have hFmem : ∀ t ∈ T, lookupKV t.k F = some t.pv := fun t ht =>
    lookupKV_of_mem t.k t.pv F hFdk (by rw [← hF]; simp; exact ⟨t, ht, rfl, rfl⟩)
  have hFnone : ∀ x, x ∉ T.map (·.k) → lookupKV x F = none := by
    intro x hx
    apply none_of_not_mem_keys
    rw [← hF]; simpa [List.map_reverse, List.map_map] using hx
  have hndD : (diffs'.map Op.skey).Nodup := (hpermD.map Op.skey).nodup_iff.mpr hndE
  have hesV : ∀ e ∈ es, mapEff V e = mapEff base e := by
    intro e he
    have hplain := hes e he
    cases e with
    | add k v =>
      have hk : lookupKV k V = lookupKV k base := by
        rw [hlkV k, hFnone k (fun hm => by
          obtain ⟨t, ht, hk⟩ := List.mem_map.mp hm
          exact hdisj t ht _ he hk)]
        rfl
      show (if hasKey k V then none else some (some v)) = (if hasKey k base then none else some (some v))
      unfold hasKey
      rw [hk]
    | remove k => rfl
    | replace k v => rfl
    | patchK _ _ => simp [isPlainMap] at hplain
    | addrange _ _ => simp [isPlainMap] at hplain
    | addchars _ _ => simp [isPlainMap] at hplain
    | removerange _ _ => simp [isPlainMap] at hplain
    | patchI _ _ => simp [isPlainMap] at hplain
    | invalid _ => simp [isPlainMap] at hplain
  obtain ⟨R, hR, hskR, hlkR⟩ := patchDict_table V hskV.dk (keyed diffs') [] [] (keyed_dk hndD)
    (fun p hp => by
      obtain ⟨e, he, rfl⟩ := List.mem_map.mp hp
      have he' : e ∈ es := hpermD.subset he
      exact ⟨rfl, plain_isMapOp (hes e he'), by rw [hesV e he']; exact heff e he'⟩)
    (fun p _ => ⟨rfl, rfl⟩)
  obtain ⟨R0, hR0, hskR0, hlkR0⟩ := patchDict_table base hb.dk (keyed ld) [] [] (keyed_dk hnd)
    (fun p hp => by
      obtain ⟨e, he, rfl⟩ := List.mem_map.mp hp
      have he' := hperm.subset he
      simp only [List.mem_append, List.mem_map] at he'
      rcases he' with ⟨t, ht, rfl⟩ | he'
      · exact ⟨rfl, (hT t ht).2.1, by rw [(hT t ht).2.2]; rfl⟩
      · exact ⟨rfl, plain_isMapOp (hes e he'), heff e he'⟩)
    (fun p _ => ⟨rfl, rfl⟩)
  rw [keyed_map_snd] at hR hR0
  rw [patch, patch]
  simp only [hR, hR0, bind, Except.bind]
  congr 2
  apply sk_ext R R0 hskR hskR0
  intro x
  rw [hlkR x, hlkR0 x]
  simp only [hasKey, lookupKV, Option.isSome_none, Bool.false_eq_true, if_false, List.contains_nil]
  by_cases hxE : x ∈ es.map Op.skey
  · obtain ⟨e, he, rfl⟩ := List.mem_map.mp hxE
    have heD : e ∈ diffs' := hpermD.symm.subset he
    have heL : e ∈ ld := hperm.symm.subset (List.mem_append_right _ he)
    rw [keyed_lookup_mem hndD heD, keyed_lookup_mem hnd heL]
    simp only []
    rw [hesV e he]
  · have hnD : x ∉ diffs'.map Op.skey := fun h => hxE ((hpermD.map Op.skey).subset h)
    rw [keyed_lookup_none hnD]
    by_cases hxI : x ∈ T.map (·.k)
    · obtain ⟨t, ht, rfl⟩ := List.mem_map.mp hxI
      have heL : t.entry ∈ ld := hperm.symm.subset (List.mem_append_left _ (List.mem_map_of_mem ht))
      have := keyed_lookup_mem hnd heL
      rw [(hT t ht).1] at this
      rw [this]
      simp only [hlkV t.k, hFmem t ht, Option.or_some, (hT t ht).2.2]
      rfl
    · have hnL : x ∉ ld.map Op.skey := by
        intro h
        have := (hperm.map Op.skey).subset h
        simp only [List.map_append, List.map_map, List.mem_append] at this
        rcases this with h' | h'
        · apply hxI
          obtain ⟨t, ht, hk⟩ := List.mem_map.mp h'
          exact List.mem_map.mpr ⟨t, ht, by rw [← hk]; exact ((hT t ht).1).symm⟩
        · exact hxE h'
      rw [keyed_lookup_none hnL]
      simp only [hlkV x, hFnone x hxI, Option.none_or]

def slotOfItem (it : DeepItem) : Slot := ⟨it.k, it.pv, it.entry⟩

theorem slotOfItem_ok (base : List (String × J)) (it : DeepItem) (h : it.ok base) : (slotOfItem it).ok base := by
  obtain ⟨o1, _, o3, _⟩ := h
  exact ⟨rfl, rfl, by simp [slotOfItem, DeepItem.entry, mapEff, o1, o3]⟩

/-- **core with a block**: deep decisions of other keys before and after, the block of item decisions below key `k`
    (whose value is the list `xs`), the plain root entries last -/
theorem apply_block_core (base : List (String × J)) (hb : SK base) (itemsA itemsB : List DeepItem)
    (k : String) (xs : List J) (cells : List ArrItem) (eb : Op)
    (rs : List (Decision × List Op)) (ld : List Op)
    (hokA : ∀ it ∈ itemsA, it.ok base) (hokB : ∀ it ∈ itemsB, it.ok base)
    (hk : lookupKV k base = some (.arr xs)) (hokC : ∀ it ∈ cells, it.ok xs) (hndC : (cells.map (·.j)).Nodup)
    (hneC : cells ≠ []) (hkbC : ∀ it ∈ cells, it.d.keyBased = false)
    (heb : ∀ R : List J, (∀ i, R[i]? = (xs[i]?).map (fun x => ((cells.find? (fun it => it.j == i)).map (·.pv)).getD x)) →
      (⟨k, .arr R, eb⟩ : Slot).ok base)
    (hrs : ∀ p ∈ rs, ∀ o ∈ p.2, isPlainMap o = true) (hres : ∀ p ∈ rs, Res p.1 [] p.2)
    (heff' : ∀ p ∈ rs, ∀ o ∈ p.2, (mapEff base o).isSome = true)
    (hperm' : ld.Perm (itemsA.map DeepItem.entry ++ [eb] ++ itemsB.map DeepItem.entry ++ rs.flatMap (·.2)))
    (hnd : (ld.map Op.skey).Nodup) :
    applyDecisions (.obj base) (itemsA.map DeepItem.dec ++ cells.map (fun it => liftDec k it.d) ++ itemsB.map DeepItem.dec ++
      rs.map (·.1)) = patch (.obj base) ld := by
  -- keys
  have hkeb : eb.skey = k := by
    obtain ⟨M', g, jp, vp, pvp, _, _, _, hR⟩ := arr_run_summary xs cells hokC hndC hneC
    exact (heb _ hR).1
  have hnd2 : ((itemsA.map DeepItem.entry ++ [eb] ++ itemsB.map DeepItem.entry ++ rs.flatMap (·.2)).map Op.skey).Nodup :=
    (hperm'.map Op.skey).nodup_iff.mp hnd
  simp only [List.map_append, List.map_map, List.map_cons, List.map_nil] at hnd2
  have hkA : itemsA.map (Op.skey ∘ DeepItem.entry) = itemsA.map (·.k) := List.map_congr_left (fun _ _ => rfl)
  have hkB : itemsB.map (Op.skey ∘ DeepItem.entry) = itemsB.map (·.k) := List.map_congr_left (fun _ _ => rfl)
  rw [hkA, hkB, hkeb] at hnd2
  have n1 := List.nodup_append.mp hnd2
  have n2 := List.nodup_append.mp n1.1
  have n3 := List.nodup_append.mp n2.1
  have hndA : (itemsA.map (·.k)).Nodup := n3.1
  have hndB : (itemsB.map (·.k)).Nodup := n2.2.1
  have hkA' : k ∉ itemsA.map (·.k) := fun hm => n3.2.2 k hm k (by simp) rfl
  have hkB' : k ∉ itemsB.map (·.k) := fun hm => n2.2.2 k (by simp) k hm rfl
  have hAB : ∀ a ∈ itemsA.map (·.k), ∀ b ∈ itemsB.map (·.k), a ≠ b :=
    fun a ha b hb' => n2.2.2 a (by simp [ha]) b hb'
  -- phase A
  have hinv0 : DeepInv base base [] none := ⟨hb, fun x => by simp [pendKey, lookupKV], fun _ _ _ _ h => by cases h⟩
  obtain ⟨M1, pend1, h1, hinv1⟩ := deep_loop base itemsA
    (cells.map (fun it => liftDec k it.d) ++ itemsB.map DeepItem.dec ++ rs.map (·.1)) base [] none hokA hndA (fun _ _ => rfl) hinv0
  obtain ⟨hsk1, hlk1, hpe1⟩ := hinv1
  generalize hFA : (itemsA.map (fun it => (it.k, it.pv))).reverse ++ ([] : List (String × J)) = FA at hlk1 hpe1
  have hFAk : lookupKV k FA = none := by
    apply none_of_not_mem_keys
    rw [← hFA]; simpa [List.map_reverse, List.map_map] using hkA'
  -- the block
  have step : ∃ M2 g mid R, (∀ i, R[i]? = (xs[i]?).map (fun x => ((cells.find? (fun it => it.j == i)).map (·.pv)).getD x)) ∧
      applyLoop (cells.map (fun it => liftDec k it.d) ++ (itemsB.map DeepItem.dec ++ rs.map (·.1))) (.obj M1) (pend1.map (·.1)) =
        applyLoop (itemsB.map DeepItem.dec ++ rs.map (·.1)) (.obj M2) (some g) ∧
      DeepInv base M2 ((k, .arr R) :: FA) (some (g, k, mid, .arr R)) := by
    cases pend1 with
    | none =>
      have hkM1 : lookupKV k M1 = some (.arr xs) := by rw [hlk1 k]; simp [pendKey, hFAk, hk]
      obtain ⟨mid, R, g, hpo, hR, hrun, _⟩ := cells_block k xs cells hokC hndC hneC hkbC
        (itemsB.map DeepItem.dec ++ rs.map (·.1)) M1 hsk1 hkM1
      refine ⟨insertKV k mid M1, g, mid, R, hR, by simpa using hrun, insertKV_sorted _ _ _ hsk1, ?_, ?_⟩
      · intro x
        rw [lookupKV_insertKV, hlk1 x]
        by_cases hx : x = k
        · subst hx; simp [pendKey, pendVal]
        · have : ¬ (k = x) := fun h => hx h.symm
          simp [pendKey, pendVal, hx, this, lookupKV_cons']
      · intro g' kp vp pvp h
        cases h
        exact ⟨hpo, by simp [lookupKV_cons']⟩
    | some pd =>
      obtain ⟨gp, kp, vp, pvp⟩ := pd
      obtain ⟨hgp, hFkp⟩ := hpe1 gp kp vp pvp rfl
      have hne : kp ≠ k := by
        intro h; rw [h] at hFkp; rw [hFAk] at hFkp; cases hFkp
      have hkM1 : lookupKV k M1 = some (.arr xs) := by
        rw [hlk1 k]; simp [pendKey, pendVal, hne, hFAk, hk]
      have hMkp : lookupKV kp M1 = some vp := by rw [hlk1 kp]; simp [pendKey, pendVal]
      obtain ⟨mid, R, g, hpo, hR, _, hrun⟩ := cells_block k xs cells hokC hndC hneC hkbC
        (itemsB.map DeepItem.dec ++ rs.map (·.1)) M1 hsk1 hkM1
      refine ⟨insertKV k mid (insertKV kp pvp M1), g, mid, R, hR, by simpa using hrun gp kp vp pvp hgp hne hMkp,
        insertKV_sorted _ _ _ (insertKV_sorted _ _ _ hsk1), ?_, ?_⟩
      · intro x
        rw [lookupKV_insertKV, lookupKV_insertKV, hlk1 x]
        by_cases hx : x = k
        · subst hx; simp [pendKey, pendVal]
        · have : ¬ (k = x) := fun h => hx h.symm
          by_cases hxk : x = kp
          · subst hxk
            simp [pendKey, pendVal, hx, this, lookupKV_cons', hFkp]
          · have h1 : ¬ (kp = x) := fun h => hxk h.symm
            have h2 : ¬ (k = x) := fun h => hx h.symm
            simp [pendKey, pendVal, hx, hxk, h1, h2, lookupKV_cons']
      · intro g' kp' vp' pvp' h
        cases h
        exact ⟨hpo, by simp [lookupKV_cons']⟩
  obtain ⟨M2, g2, mid, R, hRchar, h2, hinv2⟩ := step
  -- phase B
  have hFB : ∀ it ∈ itemsB, lookupKV it.k ((k, .arr R) :: FA) = none := by
    intro it hit
    rw [lookupKV_cons']
    have hne : k ≠ it.k := fun h => hkB' (by rw [h]; exact List.mem_map_of_mem hit)
    simp only [hne, if_false]
    apply none_of_not_mem_keys
    rw [← hFA]
    simp only [List.append_nil, List.map_reverse, List.map_map, List.mem_reverse]
    intro hm
    obtain ⟨a, ha, hka⟩ := List.mem_map.mp hm
    exact hAB a.k (List.mem_map_of_mem ha) it.k (List.mem_map_of_mem hit) hka
  obtain ⟨M3, pend3, h3, hinv3⟩ := deep_loop base itemsB (rs.map (·.1)) M2 ((k, .arr R) :: FA)
    (some (g2, k, mid, .arr R)) hokB hndB hFB hinv2
  -- the root entries
  obtain ⟨V, diffs', hskV, hlkV, hpermD, h4⟩ := finish_root base M3 _ pend3 hinv3 rs hrs hres
  unfold applyDecisions
  have e1 : applyLoop (itemsA.map DeepItem.dec ++ cells.map (fun it => liftDec k it.d) ++ itemsB.map DeepItem.dec ++ rs.map (·.1))
      (.obj base) none = patch (.obj V) diffs' := by
    have r1 : itemsA.map DeepItem.dec ++ cells.map (fun it => liftDec k it.d) ++ itemsB.map DeepItem.dec ++ rs.map (·.1) =
        itemsA.map DeepItem.dec ++ (cells.map (fun it => liftDec k it.d) ++ itemsB.map DeepItem.dec ++ rs.map (·.1)) := by
      simp [List.append_assoc]
    rw [r1]
    have h1' := h1
    simp only [Option.map_none] at h1'
    rw [h1']
    have r2 : cells.map (fun it => liftDec k it.d) ++ itemsB.map DeepItem.dec ++ rs.map (·.1) =
        cells.map (fun it => liftDec k it.d) ++ (itemsB.map DeepItem.dec ++ rs.map (·.1)) := by simp [List.append_assoc]
    rw [r2, h2]
    have h3' := h3
    simp only [Option.map_some] at h3'
    rw [h3', h4]
  rw [e1]
  -- the table
  let T : List Slot := itemsA.map slotOfItem ++ [⟨k, .arr R, eb⟩] ++ itemsB.map slotOfItem
  have hT : ∀ t ∈ T, t.ok base := by
    intro t ht
    simp only [T, List.mem_append, List.mem_map, List.mem_singleton] at ht
    rcases ht with (⟨it, hit, rfl⟩ | rfl) | ⟨it, hit, rfl⟩
    · exact slotOfItem_ok base it (hokA it hit)
    · exact heb R hRchar
    · exact slotOfItem_ok base it (hokB it hit)
  apply final_table base hb T hT V hskV _ (rs.flatMap (·.2)) diffs' ld
    (fun o ho => by obtain ⟨p, hp, hop⟩ := List.mem_flatMap.mp ho; exact hrs p hp o hop)
    (fun o ho => by obtain ⟨p, hp, hop⟩ := List.mem_flatMap.mp ho; exact heff' p hp o hop) hpermD _ hnd
  · intro x
    rw [hlkV x]
    congr 1
    simp only [T, List.map_append, List.map_map, List.reverse_append, List.map_cons, List.map_nil, List.reverse_cons,
      List.reverse_nil, List.nil_append, ← hFA, List.append_nil]
    rfl
  · simp only [T, List.map_append, List.map_map, List.map_cons, List.map_nil]
    have : (List.map ((fun x => x.entry) ∘ slotOfItem) itemsA) = itemsA.map DeepItem.entry := List.map_congr_left (fun _ _ => rfl)
    have h' : (List.map ((fun x => x.entry) ∘ slotOfItem) itemsB) = itemsB.map DeepItem.entry := List.map_congr_left (fun _ _ => rfl)
    rw [this, h']
    exact hperm'

end Nbdime
