import NbdimeProofs.Lemmas.CharLevel
/-
  `flatten_list_of_string_diff`: a line-based diff of a string, whose patch entries carry
  character-level sub-diffs, is turned into one character-level diff.  This file proves the core
  step (`flattenOps`): the flattened entries form an ordered in-bounds chain over the characters of
  the string and applying them gives the concatenation of the patched lines.
-/
set_option linter.unusedSimpArgs false
namespace Nbdime.Abs

/-! ### generic facts about `pf` / `run` / `ChainFrom` -/

theorem pf_append {α} (d1 d2 : List (POp α)) (t : Nat) (xs : List α) :
    pf (d1 ++ d2) t xs = (run d1 t xs).1 ++ pf d2 (run d1 t xs).2 xs := by
  rw [pf_eq_run, run_append, pf_eq_run d2]
  simp [List.append_assoc]

theorem ChainFrom.lower {α} {N t t' : Nat} {ops : List (POp α)} (h : ChainFrom N t ops) (ht : t' ≤ t) :
    ChainFrom N t' ops := by
  cases ops with
  | nil => trivial
  | cons e es => exact ⟨Nat.le_trans ht h.1, h.2.1, h.2.2⟩

theorem ChainFrom.mono {α} {N N' t : Nat} {ops : List (POp α)} (h : ChainFrom N t ops) (hN : N ≤ N') :
    ChainFrom N' t ops := by
  induction ops generalizing t with
  | nil => trivial
  | cons e es ih => exact ⟨h.1, Nat.le_trans h.2.1 hN, ih h.2.2⟩

theorem ChainFrom.append {α} {N T t : Nat} {X1 X2 : List (POp α)} (h1 : ChainFrom T t X1)
    (h2 : ChainFrom N T X2) (ht : t ≤ T) (hT : T ≤ N) : ChainFrom N t (X1 ++ X2) := by
  induction X1 generalizing t with
  | nil => exact h2.lower ht
  | cons e es ih => exact ⟨h1.1, Nat.le_trans h1.2.1 hT, ih h1.2.2 h1.2.1⟩

/-- the cursor may lag behind the first key -/
theorem pf_lag {α} (ops : List (POp α)) (xs : List α) (N t x : Nat) (ht : t ≤ x) (h : ChainFrom N x ops) :
    pf ops t xs = slice' xs t x ++ pf ops x xs := by
  cases ops with
  | nil => simp only [pf]; exact drop_split xs t x ht
  | cons e es =>
    obtain ⟨h1, _, _⟩ := h
    simp only [pf]
    have : (xs.drop t).take (e.key - t) = slice' xs t x ++ (xs.drop x).take (e.key - x) :=
      take_split xs t x e.key ht h1
    rw [this]
    have m1 : max t (e.key + e.eat) = e.key + e.eat := by omega
    have m2 : max x (e.key + e.eat) = e.key + e.eat := by omega
    rw [m1, m2]
    simp [List.append_assoc]

/-- under the chain discipline the cursor ends inside the bound -/
theorem ChainFrom.run_le {α} {N t : Nat} {ops : List (POp α)} (h : ChainFrom N t ops) (ht : t ≤ N) (xs : List α) :
    (run ops t xs).2 ≤ N := by
  induction ops generalizing t with
  | nil => simpa [run] using ht
  | cons e es ih =>
    simp only [run]
    have m : max t (e.key + e.eat) = e.key + e.eat := by have := h.1; omega
    rw [m]
    exact ih h.2.2 h.2.1

end Nbdime.Abs

namespace Nbdime
open Nbdime.Abs

/-! ### shifting character entries into a window of a longer string -/

def shiftC (o : Nat) : POp Char → POp Char
  | .add k cs => .add (k + o) cs
  | .rem k n => .rem (k + o) n
  | .pat k c => .pat (k + o) c

theorem shiftC_key (o : Nat) (e : POp Char) : (shiftC o e).key = e.key + o := by cases e <;> rfl
theorem shiftC_eat (o : Nat) (e : POp Char) : (shiftC o e).eat = e.eat := by cases e <;> rfl
theorem shiftC_out (o : Nat) (e : POp Char) : (shiftC o e).out = e.out := by cases e <;> rfl
theorem shiftC_isPat (o : Nat) (e : POp Char) : (shiftC o e).isPat = e.isPat := by cases e <;> rfl

theorem offset_toOpC (o : Nat) (e : POp Char) (h : e.isPat = false) :
    Op.offset o (toOpC e) = .ok (toOpC (shiftC o e)) := by
  cases e <;> simp_all [toOpC, Op.offset, shiftC, POp.isPat]

theorem mapM_offset (o : Nat) (cops : List (POp Char)) (h : NoPat cops) :
    (cops.map toOpC).mapM (Op.offset o) = .ok ((cops.map (shiftC o)).map toOpC) := by
  induction cops with
  | nil => rfl
  | cons e es ih =>
    have he := h e (by simp)
    have hes : NoPat es := fun x hx => h x (List.mem_cons_of_mem _ hx)
    simp only [List.map_cons, List.mapM_cons, offset_toOpC o e he, ih hes, bind, Except.bind, pure, Except.pure]

theorem NoPat.shift {o : Nat} {cops : List (POp Char)} (h : NoPat cops) : NoPat (cops.map (shiftC o)) := by
  intro e he
  obtain ⟨e0, h0, rfl⟩ := List.mem_map.mp he
  rw [shiftC_isPat]; exact h e0 h0

theorem Abs.ChainFrom.shift {N c o : Nat} {cops : List (POp Char)} (h : ChainFrom N c cops) :
    ChainFrom (N + o) (c + o) (cops.map (shiftC o)) := by
  induction cops generalizing c with
  | nil => trivial
  | cons e es ih =>
    obtain ⟨h1, h2, h3⟩ := h
    refine ⟨by rw [shiftC_key]; omega, by rw [shiftC_key, shiftC_eat]; omega, ?_⟩
    have := ih h3
    rw [shiftC_key, shiftC_eat]
    have e1 : e.key + e.eat + o = e.key + o + e.eat := by omega
    rw [← e1]; exact this

/-- entries confined to a window `a` of `pre ++ a ++ post` act on the window -/
theorem run_window (pre a post : List Char) (cops : List (POp Char)) (c : Nat) (h : ChainFrom a.length c cops) :
    Abs.run (cops.map (shiftC pre.length)) (c + pre.length) (pre ++ a ++ post) =
      ((Abs.run cops c a).1, (Abs.run cops c a).2 + pre.length) := by
  induction cops generalizing c with
  | nil => simp [Abs.run]
  | cons e es ih =>
    obtain ⟨h1, h2, h3⟩ := h
    simp only [List.map_cons, Abs.run, shiftC_key, shiftC_eat, shiftC_out]
    have m1 : max (c + pre.length) (e.key + pre.length + e.eat) = (e.key + e.eat) + pre.length := by omega
    have m2 : max c (e.key + e.eat) = e.key + e.eat := by omega
    rw [m1, m2, ih _ h3]
    have hd : (pre ++ a ++ post).drop (c + pre.length) = a.drop c ++ post := by
      rw [List.append_assoc, List.drop_append]
      have : c + pre.length - pre.length = c := by omega
      simp only [this, List.drop_eq_nil_of_le (Nat.le_add_left pre.length c), List.nil_append]
      rw [List.drop_append_of_le_length (by omega)]
    have ht : (a.drop c ++ post).take (e.key + pre.length - (c + pre.length)) = (a.drop c).take (e.key - c) := by
      have : e.key + pre.length - (c + pre.length) = e.key - c := by omega
      rw [this, List.take_append_of_le_length (by simp; omega)]
    rw [hd, ht]

/-! ### line offsets -/

def off (ls : List (List Char)) (k : Nat) : Nat := (ls.take k).flatten.length

theorem off_zero (ls : List (List Char)) : off ls 0 = 0 := by simp [off]

theorem off_length (ls : List (List Char)) : off ls ls.length = ls.flatten.length := by simp [off]

theorem off_cons_succ (l : List Char) (ls : List (List Char)) (k : Nat) : off (l :: ls) (k + 1) = l.length + off ls k := by
  simp [off]

theorem lineOffsets_get (ls : List (List Char)) (acc k : Nat) (hk : k ≤ ls.length) :
    (lineOffsets ls acc)[k]? = some (acc + off ls k) := by
  induction ls generalizing acc k with
  | nil =>
    have : k = 0 := by simpa using hk
    subst this
    simp [lineOffsets, off]
  | cons l ls ih =>
    cases k with
    | zero => simp [lineOffsets, off]
    | succ k =>
      simp only [lineOffsets, List.getElem?_cons_succ]
      rw [ih (acc + l.length) k (by simpa using hk), off_cons_succ]
      congr 1; omega

theorem take_split_list {α} (ls : List α) (t k : Nat) (h : t ≤ k) : ls.take k = ls.take t ++ (ls.drop t).take (k - t) := by
  have : k = t + (k - t) := by omega
  rw [this, List.take_add]
  simp

theorem off_add (ls : List (List Char)) (t k : Nat) (h : t ≤ k) :
    off ls k = off ls t + ((ls.drop t).take (k - t)).flatten.length := by
  unfold off
  rw [take_split_list ls t k h, List.flatten_append, List.length_append]

theorem off_mono (ls : List (List Char)) (t k : Nat) (h : t ≤ k) : off ls t ≤ off ls k := by
  rw [off_add ls t k h]; omega

theorem off_le (ls : List (List Char)) (k : Nat) : off ls k ≤ ls.flatten.length := by
  by_cases h : k ≤ ls.length
  · rw [← off_length]; exact off_mono ls k ls.length h
  · have : ls.take k = ls := List.take_of_length_le (by omega)
    simp [off, this]

theorem off_succ (ls : List (List Char)) (k : Nat) (hk : k < ls.length) : off ls (k + 1) = off ls k + ls[k].length := by
  rw [off_add ls k (k + 1) (by omega)]
  have : k + 1 - k = 1 := by omega
  rw [this, List.drop_eq_getElem_cons hk]
  simp only [List.take_succ_cons, List.take_zero, List.flatten_cons, List.flatten_nil, List.append_nil]

theorem drop_flatten (ls : List (List Char)) (t : Nat) : ls.flatten.drop (off ls t) = (ls.drop t).flatten := by
  have h : ls.flatten = (ls.take t).flatten ++ (ls.drop t).flatten := by
    rw [← List.flatten_append, List.take_append_drop]
  unfold off
  conv => lhs; rw [h]
  rw [List.drop_left]

theorem take_flatten_prefix {α} (L : List (List α)) (m : Nat) :
    L.flatten.take ((L.take m).flatten.length) = (L.take m).flatten := by
  have h : L.flatten = (L.take m).flatten ++ (L.drop m).flatten := by
    rw [← List.flatten_append, List.take_append_drop]
  conv => lhs; rw [h]
  rw [List.take_left]

theorem slice_flatten (ls : List (List Char)) (t k : Nat) (h : t ≤ k) :
    slice' ls.flatten (off ls t) (off ls k) = (slice' ls t k).flatten := by
  unfold slice'
  rw [drop_flatten, off_add ls t k h]
  have : off ls t + ((ls.drop t).take (k - t)).flatten.length - off ls t = ((ls.drop t).take (k - t)).flatten.length := by omega
  rw [this, take_flatten_prefix]

theorem flatten_split (ls : List (List Char)) (k : Nat) (hk : k < ls.length) :
    ls.flatten = (ls.take k).flatten ++ ls[k] ++ (ls.drop (k + 1)).flatten := by
  have h : ls = ls.take k ++ ls[k] :: ls.drop (k + 1) := by
    rw [← List.drop_eq_getElem_cons hk, List.take_append_drop]
  have := congrArg List.flatten h
  rw [List.flatten_append, List.flatten_cons] at this
  rw [List.append_assoc]
  exact this

theorem window_slice (pre a post : List Char) (c : Nat) (hc : c ≤ a.length) :
    slice' (pre ++ a ++ post) (c + pre.length) (pre.length + a.length) = a.drop c := by
  unfold slice'
  have hd : (pre ++ a ++ post).drop (c + pre.length) = a.drop c ++ post := by
    rw [List.append_assoc, List.drop_append]
    have : c + pre.length - pre.length = c := by omega
    simp only [this, List.drop_eq_nil_of_le (Nat.le_add_left pre.length c), List.nil_append]
    rw [List.drop_append_of_le_length (by omega)]
  rw [hd]
  have : pre.length + a.length - (c + pre.length) = (a.drop c).length := by simp; omega
  rw [this, List.take_left]

/-! ### strings as JSON values -/

def unstr : J → List Char
  | .str s => s
  | _ => []

def chars (L : List J) : List Char := (L.map unstr).flatten

theorem chars_append (L1 L2 : List J) : chars (L1 ++ L2) = chars L1 ++ chars L2 := by simp [chars]

theorem chars_map_str (ls : List (List Char)) : chars (ls.map J.str) = ls.flatten := by
  unfold chars
  rw [List.map_map]
  have : (unstr ∘ J.str) = id := by funext x; rfl
  rw [this, List.map_id]

theorem slice'_map {α β} (f : α → β) (xs : List α) (lo hi : Nat) : slice' (xs.map f) lo hi = (slice' xs lo hi).map f := by
  simp [slice', List.map_drop, List.map_take]

theorem joinStrs_chars (vs : List J) (h : ∀ x ∈ vs, ∃ c, x = J.str c) : joinStrs vs = .ok (chars vs) := by
  induction vs with
  | nil => rfl
  | cons v vs ih =>
    obtain ⟨c, rfl⟩ := h v (by simp)
    simp only [joinStrs, ih (fun x hx => h x (List.mem_cons_of_mem _ hx)), bind, Except.bind]
    simp [chars, unstr]

/-- the item relation of a line diff: the sub-diff of a patched line is an ordered in-bounds chain of
    character entries that turns the old line into the new one -/
def CharRel : J → List Op → J → Prop := fun v dd new =>
  ∃ a b cops, v = .str a ∧ new = .str b ∧ NoPat cops ∧ dd = cops.map toOpC ∧ ChainFrom a.length 0 cops ∧ pf cops 0 a = b

/-- `flatten_list_of_string_diff`, the per-entry translation: an ordered chain over the characters that
    produces the concatenation of the patched lines -/
theorem flattenOps_spec (ls : List (List Char)) (d : List Op) (pops : List (POp J)) (t : Nat)
    (hd : Denotes CharRel (ls.map J.str) d pops) (hc : ChainFrom ls.length t pops)
    (hs : ∀ e ∈ pops, ∀ x ∈ e.out, ∃ c, x = J.str c) :
    ∃ X, NoPat X ∧ flattenOps (lineOffsets ls 0) d = .ok (X.map toOpC) ∧
      ChainFrom ls.flatten.length (off ls t) X ∧
      pf X (off ls t) ls.flatten = chars (pf pops t (ls.map J.str)) := by
  induction hd generalizing t with
  | nil =>
    refine ⟨[], fun _ h => absurd h (by simp), rfl, trivial, ?_⟩
    simp only [pf]
    rw [drop_flatten, ← List.map_drop, chars_map_str]
  | @add k vs es ps _ ih =>
    obtain ⟨h1, h2, h3⟩ := hc
    simp only [POp.key, POp.eat, Nat.add_zero] at h1 h2 h3
    obtain ⟨X', x1, x2, x3, x4⟩ := ih k h3 (fun e he => hs e (List.mem_cons_of_mem _ he))
    have hvs : ∀ x ∈ vs, ∃ c, x = J.str c := hs (.add k vs) (by simp)
    refine ⟨.add (off ls k) (chars vs) :: X', ?_, ?_, ?_, ?_⟩
    · intro e he
      simp only [List.mem_cons] at he
      rcases he with rfl | he
      · rfl
      · exact x1 e he
    · simp only [flattenOps, lineOffsets_get ls 0 k h2, Nat.zero_add, joinStrs_chars vs hvs, x2, bind, Except.bind,
        pure, Except.pure, List.map_cons, toOpC, List.singleton_append]
    · refine ⟨off_mono ls t k h1, ?_, ?_⟩
      · show off ls k + 0 ≤ ls.flatten.length
        rw [Nat.add_zero]; exact off_le ls k
      · show ChainFrom ls.flatten.length (off ls k + 0) X'
        rw [Nat.add_zero]; exact x3
    · simp only [pf, POp.key, POp.out, POp.eat, Nat.add_zero]
      have m1 : max (off ls t) (off ls k) = off ls k := by have := off_mono ls t k h1; omega
      have m2 : max t k = k := by omega
      rw [m1, m2, x4, chars_append, chars_append]
      have : (ls.flatten.drop (off ls t)).take (off ls k - off ls t) = slice' ls.flatten (off ls t) (off ls k) := rfl
      rw [this, slice_flatten ls t k h1]
      have : ((ls.map J.str).drop t).take (k - t) = slice' (ls.map J.str) t k := rfl
      rw [this, slice'_map, chars_map_str]
  | @rem k n es ps _ ih =>
    obtain ⟨h1, h2, h3⟩ := hc
    simp only [POp.key, POp.eat] at h1 h2 h3
    obtain ⟨X', x1, x2, x3, x4⟩ := ih (k + n) h3 (fun e he => hs e (List.mem_cons_of_mem _ he))
    have hle := off_mono ls k (k + n) (by omega)
    refine ⟨.rem (off ls k) (off ls (k + n) - off ls k) :: X', ?_, ?_, ?_, ?_⟩
    · intro e he
      simp only [List.mem_cons] at he
      rcases he with rfl | he
      · rfl
      · exact x1 e he
    · simp only [flattenOps, lineOffsets_get ls 0 k (by omega), lineOffsets_get ls 0 (k + n) h2, Nat.zero_add, x2,
        bind, Except.bind, pure, Except.pure, List.map_cons, toOpC, List.singleton_append]
    · have e1 : off ls k + (off ls (k + n) - off ls k) = off ls (k + n) := by omega
      exact ⟨off_mono ls t k h1, by simp only [POp.key, POp.eat]; rw [e1]; exact off_le ls _,
        by simp only [POp.key, POp.eat]; rw [e1]; exact x3⟩
    · simp only [pf, POp.key, POp.out, POp.eat, List.append_nil]
      have e1 : off ls k + (off ls (k + n) - off ls k) = off ls (k + n) := by omega
      have m1 : max (off ls t) (off ls k + (off ls (k + n) - off ls k)) = off ls (k + n) := by
        have := off_mono ls t k h1; omega
      have m2 : max t (k + n) = k + n := by omega
      rw [m1, m2, x4, chars_append]
      have : (ls.flatten.drop (off ls t)).take (off ls k - off ls t) = slice' ls.flatten (off ls t) (off ls k) := rfl
      rw [this, slice_flatten ls t k h1]
      have : ((ls.map J.str).drop t).take (k - t) = slice' (ls.map J.str) t k := rfl
      rw [this, slice'_map, chars_map_str]
  | @pat k dd v new es ps hv hP _ ih =>
    obtain ⟨h1, h2, h3⟩ := hc
    simp only [POp.key, POp.eat] at h1 h2 h3
    obtain ⟨a, b, cops, rfl, rfl, c1, rfl, c3, c4⟩ := hP
    have hk : k < ls.length := by omega
    have ha : ls[k] = a := by
      simp only [List.getElem?_map, List.getElem?_eq_getElem hk, Option.map_some, Option.some.injEq, J.str.injEq] at hv
      exact hv
    obtain ⟨X', x1, x2, x3, x4⟩ := ih (k + 1) h3 (fun e he => hs e (List.mem_cons_of_mem _ he))
    have hoff : off ls (k + 1) = a.length + off ls k := by rw [off_succ ls k hk, ha]; omega
    -- the shifted character entries of this line
    have s1 : ChainFrom (off ls (k + 1)) (off ls k) (cops.map (shiftC (off ls k))) := by
      have := c3.shift (o := off ls k)
      rw [Nat.zero_add, ← hoff] at this
      exact this
    have hchain : ChainFrom ls.flatten.length (off ls k) (cops.map (shiftC (off ls k)) ++ X') :=
      s1.append x3 (by omega) (off_le ls _)
    refine ⟨cops.map (shiftC (off ls k)) ++ X', c1.shift.append x1, ?_, hchain.lower (off_mono ls t k h1), ?_⟩
    · simp only [flattenOps, lineOffsets_get ls 0 k (by omega), Nat.zero_add, mapM_offset (off ls k) cops c1, x2,
        bind, Except.bind, pure, Except.pure, List.map_append]
    · rw [pf_lag _ _ _ (off ls t) (off ls k) (off_mono ls t k h1) hchain, pf_append]
      -- the window of line k
      have hsplit := flatten_split ls k hk
      rw [ha] at hsplit
      have hpre : ((ls.take k).flatten).length = off ls k := rfl
      have hwin := run_window (ls.take k).flatten a (ls.drop (k + 1)).flatten cops 0 c3
      rw [hpre, Nat.zero_add, ← hsplit] at hwin
      rw [hwin]
      simp only
      have hend : (Abs.run cops 0 a).2 ≤ a.length := c3.run_le (Nat.zero_le _) a
      rw [pf_lag X' _ _ ((Abs.run cops 0 a).2 + off ls k) (off ls (k + 1)) (by omega) x3]
      have hws := window_slice (ls.take k).flatten a (ls.drop (k + 1)).flatten (Abs.run cops 0 a).2 hend
      rw [hpre, ← hsplit] at hws
      have e1 : off ls (k + 1) = off ls k + a.length := by omega
      rw [x4, e1, hws]
      have hb : (Abs.run cops 0 a).1 ++ a.drop (Abs.run cops 0 a).2 = b := by rw [← pf_eq_run]; exact c4
      simp only [pf, POp.key, POp.out, POp.eat]
      have m2 : max t (k + 1) = k + 1 := by omega
      rw [m2, chars_append, chars_append]
      have : ((ls.map J.str).drop t).take (k - t) = slice' (ls.map J.str) t k := rfl
      rw [this, slice'_map, chars_map_str, slice_flatten ls t k h1]
      have hcb : chars [J.str b] = b := by simp [chars, unstr]
      rw [hcb, ← hb]
      simp [List.append_assoc]

end Nbdime
