import NbdimeModel
/- association-list lemmas used by the small models (GitCfg, Config). Core Lean only. -/
namespace Nbdime
open Nbdime.GitCfg

theorem lookupKV_setKey (k v : String) (cfg : List (String × String)) (k' : String) :
    lookupKV k' (setKey k v cfg) = if k' = k then some v else lookupKV k' cfg := by
  induction cfg with
  | nil =>
    by_cases h : k' = k
    · subst h; simp [setKey, lookupKV]
    · have : ¬ k = k' := fun e => h e.symm
      simp [setKey, lookupKV, h, this]
  | cons kv rest ih =>
    obtain ⟨a, b⟩ := kv
    by_cases hak : a = k
    · subst hak
      by_cases h : k' = a
      · subst h; simp [setKey, lookupKV]
      · have : ¬ a = k' := fun e => h e.symm
        simp [setKey, lookupKV, h, this]
    · have h1 : (a == k) = false := by simpa using hak
      by_cases h : k' = k
      · subst h
        have : ¬ a = k' := hak
        simp [setKey, lookupKV, h1, this, ih]
      · by_cases ha : a = k'
        · subst ha; simp [setKey, lookupKV, h1, h]
        · simp [setKey, lookupKV, h1, ha, ih, h]

theorem lookupKV_filter (p : String → Bool) (cfg : List (String × String)) (k : String) :
    lookupKV k (cfg.filter (fun kv => p kv.1)) = if p k then lookupKV k cfg else none := by
  induction cfg with
  | nil => simp [lookupKV]
  | cons kv rest ih =>
    obtain ⟨a, b⟩ := kv
    by_cases hp : p a = true
    · by_cases hak : a = k
      · subst hak; simp [List.filter_cons, hp, lookupKV]
      · simp [List.filter_cons, hp, lookupKV, hak, ih]
    · have hp' : p a = false := by simpa using hp
      by_cases hak : a = k
      · subst hak; simp [List.filter_cons, hp', lookupKV, ih]
      · simp [List.filter_cons, hp', lookupKV, hak, ih]

theorem lookupKV_unsetKey (k : String) (cfg : List (String × String)) (k' : String) :
    lookupKV k' (unsetKey k cfg) = if k' = k then none else lookupKV k' cfg := by
  unfold unsetKey
  rw [lookupKV_filter (fun x => x != k)]
  by_cases h : k' = k <;> simp [h]

theorem lookupKV_removeSection (sec : String) (cfg : List (String × String)) (k' : String) :
    lookupKV k' (removeSection sec cfg) = if k'.startsWith sec then none else lookupKV k' cfg := by
  unfold removeSection
  rw [lookupKV_filter (fun x => !(x.startsWith sec))]
  by_cases h : k'.startsWith sec = true <;> simp [h]

theorem sw_mt_d : ("merge.tool".startsWith "diff.jupyternotebook.") = false := by decide
theorem sw_mt_m : ("merge.tool".startsWith "merge.jupyternotebook.") = false := by decide
theorem sw_gt_d : ("diff.guitool".startsWith "diff.jupyternotebook.") = false := by decide
theorem sw_gt_m : ("diff.guitool".startsWith "merge.jupyternotebook.") = false := by decide

/-- last write wins -/
def lastWrite (k : String) : List (String × String) → Option String
  | [] => none
  | (a, v) :: rest => match lastWrite k rest with
      | some v' => some v'
      | none => if a = k then some v else none


theorem lookupKV_cons {α} (k a : String) (b : α) (rest : List (String × α)) :
    lookupKV k ((a, b) :: rest) = if a = k then some b else lookupKV k rest := by
  simp [lookupKV]

theorem lookupKV_insertKV {α} (k' : String) (v : α) (t : List (String × α)) (k : String) :
    lookupKV k (insertKV k' v t) = if k = k' then some v else lookupKV k t := by
  induction t with
  | nil => simp only [insertKV, lookupKV_cons]; split <;> split <;> simp_all [lookupKV]
  | cons kv rest ih =>
    obtain ⟨a, b⟩ := kv
    simp only [insertKV]
    split
    · simp only [lookupKV_cons]; grind
    · split
      · simp only [lookupKV_cons]; grind
      · simp only [lookupKV_cons, ih]; grind

theorem lookupKV_eraseKV {α} (k' : String) (t : List (String × α)) (k : String) :
    lookupKV k (eraseKV k' t) = if k = k' then none else lookupKV k t := by
  induction t with
  | nil => simp [eraseKV, lookupKV]
  | cons kv rest ih =>
    obtain ⟨a, b⟩ := kv
    simp only [eraseKV]
    split
    · simp only [lookupKV_cons, ih]; grind
    · simp only [lookupKV_cons, ih]; grind

end Nbdime
