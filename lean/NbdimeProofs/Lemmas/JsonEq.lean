import NbdimeModel
/- equality lemmas for the JSON model: `beq` decides `=`; Python `==` coincides with `=` on
   documents whose only numbers are ints (no bool / float look-alikes). -/
namespace Nbdime

mutual
theorem J.beq_eq : ∀ a b : J, J.beq a b = true → a = b
  | .null, b => by cases b <;> simp [J.beq]
  | .bool a, b => by cases b <;> simp [J.beq]
  | .int a, b => by cases b <;> simp [J.beq]
  | .flt a, b => by cases b <;> simp [J.beq]
  | .str a, b => by cases b <;> simp [J.beq]
  | .arr a, b => by
      cases b <;> simp [J.beq]
      exact J.beqList_eq a _
  | .obj a, b => by
      cases b <;> simp [J.beq]
      exact J.beqKvs_eq a _
theorem J.beqList_eq : ∀ a b : List J, J.beqList a b = true → a = b
  | [], b => by cases b <;> simp [J.beqList]
  | x :: xs, b => by
      cases b with
      | nil => simp [J.beqList]
      | cons y ys =>
        simp [J.beqList]
        intro h1 h2
        exact ⟨J.beq_eq x y h1, J.beqList_eq xs ys h2⟩
theorem J.beqKvs_eq : ∀ a b : List (String × J), J.beqKvs a b = true → a = b
  | [], b => by cases b <;> simp [J.beqKvs]
  | (k, x) :: xs, b => by
      cases b with
      | nil => simp [J.beqKvs]
      | cons y ys =>
        obtain ⟨l, y⟩ := y
        simp [J.beqKvs]
        intro h0 h1 h2
        exact ⟨⟨h0, J.beq_eq x y h1⟩, J.beqKvs_eq xs ys h2⟩
end

mutual
theorem Op.beq_eq : ∀ a b : Op, Op.beq a b = true → a = b
  | .add k v, b => by
      cases b <;> simp [Op.beq]
      intro h1 h2; exact ⟨h1, J.beq_eq _ _ h2⟩
  | .remove k, b => by cases b <;> simp [Op.beq]
  | .replace k v, b => by
      cases b <;> simp [Op.beq]
      intro h1 h2; exact ⟨h1, J.beq_eq _ _ h2⟩
  | .patchK k d, b => by
      cases b <;> simp [Op.beq]
      intro h1 h2; exact ⟨h1, Op.beqList_eq _ _ h2⟩
  | .addrange i vs, b => by
      cases b <;> simp [Op.beq]
      intro h1 h2; exact ⟨h1, J.beqList_eq _ _ h2⟩
  | .addchars i cs, b => by cases b <;> simp [Op.beq]
  | .removerange i n, b => by cases b <;> simp [Op.beq]
  | .patchI i d, b => by
      cases b <;> simp [Op.beq]
      intro h1 h2; exact ⟨h1, Op.beqList_eq _ _ h2⟩
  | .invalid a, b => by cases b <;> simp [Op.beq]
theorem Op.beqList_eq : ∀ a b : List Op, Op.beqList a b = true → a = b
  | [], b => by cases b <;> simp [Op.beqList]
  | x :: xs, b => by
      cases b with
      | nil => simp [Op.beqList]
      | cons y ys =>
        simp [Op.beqList]
        intro h1 h2
        exact ⟨Op.beq_eq x y h1, Op.beqList_eq xs ys h2⟩
end

/- no booleans and no floats anywhere: the only numbers are ints -/
mutual
def J.intsOnly : J → Bool
  | .bool _ => false
  | .flt _ => false
  | .arr xs => J.intsOnlyList xs
  | .obj kvs => J.intsOnlyKvs kvs
  | _ => true
def J.intsOnlyList : List J → Bool
  | [] => true
  | x :: xs => J.intsOnly x && J.intsOnlyList xs
def J.intsOnlyKvs : List (String × J) → Bool
  | [] => true
  | (_, x) :: xs => J.intsOnly x && J.intsOnlyKvs xs
end

mutual
theorem J.pyEq_eq : ∀ a b : J, a.intsOnly = true → b.intsOnly = true → J.pyEq a b = true → a = b
  | .null, b => by cases b <;> simp [J.pyEq]
  | .bool a, b => by simp [J.intsOnly]
  | .int a, b => by cases b <;> simp [J.pyEq, J.intsOnly]
  | .flt a, b => by simp [J.intsOnly]
  | .str a, b => by cases b <;> simp [J.pyEq]
  | .arr a, b => by
      cases b <;> simp [J.pyEq, J.intsOnly]
      exact J.pyEqList_eq a _
  | .obj a, b => by
      cases b <;> simp [J.pyEq, J.intsOnly]
      exact J.pyEqKvs_eq a _
theorem J.pyEqList_eq : ∀ a b : List J, J.intsOnlyList a = true → J.intsOnlyList b = true → J.pyEqList a b = true → a = b
  | [], b => by cases b <;> simp [J.pyEqList]
  | x :: xs, b => by
      cases b with
      | nil => simp [J.pyEqList]
      | cons y ys =>
        simp [J.pyEqList, J.intsOnlyList]
        intro a1 a2 b1 b2 h1 h2
        exact ⟨J.pyEq_eq x y a1 b1 h1, J.pyEqList_eq xs ys a2 b2 h2⟩
theorem J.pyEqKvs_eq : ∀ a b : List (String × J), J.intsOnlyKvs a = true → J.intsOnlyKvs b = true → J.pyEqKvs a b = true → a = b
  | [], b => by cases b <;> simp [J.pyEqKvs]
  | (k, x) :: xs, b => by
      cases b with
      | nil => simp [J.pyEqKvs]
      | cons y ys =>
        obtain ⟨l, y⟩ := y
        simp [J.pyEqKvs, J.intsOnlyKvs]
        intro a1 a2 b1 b2 h0 h1 h2
        exact ⟨⟨h0, J.pyEq_eq x y a1 b1 h1⟩, J.pyEqKvs_eq xs ys a2 b2 h2⟩
end

end Nbdime
