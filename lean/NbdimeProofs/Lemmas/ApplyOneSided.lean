import NbdimeProofs.Lemmas.RoundtripAll
import NbdimeProofs.Lemmas.MergeLaws
import NbdimeProofs.Lemmas.Resolve
/-
  One-sided adoption at document level (C05): for a root object, applying the decisions the merger
  records for a change made on one side only is patching base with that side's diff.
  `apply_decisions` (grouping by path, flushing, string-line paths, `combine_patches`) is followed
  through the deep decisions (one group each) and the root group.
-/
set_option linter.unusedSimpArgs false
set_option linter.unusedVariables false
namespace Nbdime
open Nbdime.Abs Nbdime.Merge

-- ---- a1

/-- one patched key of a sorted object -/
theorem sortKV_cons_filter (k : String) (pv : J) (m : List (String × J)) (hm : SK m) :
    sortKV ([(k, pv)] ++ m.filter (fun kv => !([] : List String).contains kv.1 && !hasKey kv.1 [(k, pv)])) = insertKV k pv m := by
  apply sk_ext _ _ (sortKV_sorted _) (insertKV_sorted _ _ _ hm)
  intro x
  have hf : DK (m.filter (fun kv => !([] : List String).contains kv.1 && !hasKey kv.1 [(k, pv)])) :=
    List.Pairwise.filter _ hm.dk
  have hdk : DK ([(k, pv)] ++ m.filter (fun kv => !([] : List String).contains kv.1 && !hasKey kv.1 [(k, pv)])) := by
    unfold DK
    rw [List.pairwise_append]
    refine ⟨by simp, hf, ?_⟩
    intro a ha b hb
    simp only [List.mem_singleton] at ha
    subst ha
    simp only [List.mem_filter, hasKey, lookupKV, Bool.and_eq_true, Bool.not_eq_true'] at hb
    obtain ⟨_, _, hb2⟩ := hb
    intro heq
    simp only at heq
    simp [← heq] at hb2
  rw [lookupKV_sortKV, lookupKV_reverse _ _ hdk, lookupKV_append, lookupKV_insertKV,
    lookupKV_filterKey (fun y => !([] : List String).contains y && !hasKey y [(k, pv)])]
  by_cases hx : x = k
  · subst hx; simp [lookupKV]
  · have : (k == x) = false := by simpa using (Ne.symm hx)
    simp [lookupKV, hasKey, hx, this]

theorem patch_obj_patchK (m : List (String × J)) (hm : SK m) (k : String) (Y : List Op) (v pv : J)
    (hv : lookupKV k m = some v) (hp : patch v Y = .ok pv) :
    patch (.obj m) [.patchK k Y] = .ok (.obj (insertKV k pv m)) := by
  rw [patch]
  simp only [bind, Except.bind]
  rw [patchDict]
  simp only [Op.isMapOp, Bool.not_true, Bool.false_eq_true, if_false, Op.skey, hasKey, lookupKV, Option.isSome_none,
    List.contains_nil, hv, hp, bind, Except.bind]
  rw [patchDict]
  simp only [List.reverse_cons, List.reverse_nil, List.nil_append]
  rw [sortKV_cons_filter k pv m hm]

theorem patch_obj_patchK_inv (m : List (String × J)) (k : String) (Y : List Op) (R : J)
    (h : patch (.obj m) [.patchK k Y] = .ok R) :
    ∃ v pv, lookupKV k m = some v ∧ patch v Y = .ok pv := by
  rw [patch] at h
  simp only [bind, Except.bind] at h
  rw [patchDict] at h
  simp only [Op.isMapOp, Bool.not_true, Bool.false_eq_true, if_false, Op.skey, hasKey, lookupKV, Option.isSome_none,
    List.contains_nil] at h
  cases hv : lookupKV k m with
  | none => simp [hv] at h
  | some v =>
    simp only [hv, bind, Except.bind] at h
    cases hp : patch v Y with
    | error e => simp [hp] at h
    | ok pv => exact ⟨v, pv, rfl, hp⟩

theorem patch_arr_patchI (xs : List J) (n : Nat) (Y : List Op) (v pv : J)
    (hv : xs[n]? = some v) (hp : patch v Y = .ok pv) :
    patch (.arr xs) [.patchI n Y] = .ok (.arr (xs.set n pv)) := by
  rw [patch]
  simp only [bind, Except.bind]
  rw [patchList]
  simp only [hv, hp, bind, Except.bind]
  rw [patchList]
  simp only [Nat.zero_max, List.drop_zero, Nat.sub_zero]
  have hn : n < xs.length := by
    rcases Nat.lt_or_ge n xs.length with h | h
    · exact h
    · rw [List.getElem?_eq_none h] at hv; cases hv
  congr 2
  apply List.ext_getElem?
  intro i
  rw [List.getElem?_set]
  by_cases hi : i < n
  · rw [List.getElem?_append_left (by simp; omega), List.getElem?_append_left (by simp; omega)]
    simp [List.getElem?_take, hi]; omega
  · by_cases hi2 : i = n
    · subst hi2
      rw [List.getElem?_append_left (by simp; omega), List.getElem?_append_right (by simp; omega)]
      have : min i xs.length = i := by omega
      simp [hn, this]
    · rw [List.getElem?_append_right (by simp; omega)]
      have : n ≠ i := fun h => hi2 h.symm
      simp only [this, if_false]
      simp only [List.length_append, List.length_take, List.length_singleton]
      rw [List.getElem?_drop]
      congr 1
      omega

theorem patch_arr_patchI_inv (xs : List J) (n : Nat) (Y : List Op) (R : J)
    (h : patch (.arr xs) [.patchI n Y] = .ok R) : ∃ v pv, xs[n]? = some v ∧ patch v Y = .ok pv := by
  rw [patch] at h
  simp only [bind, Except.bind] at h
  rw [patchList] at h
  cases hv : xs[n]? with
  | none => simp [hv] at h
  | some v =>
    simp only [hv, bind, Except.bind] at h
    cases hp : patch v Y with
    | error e => simp [hp] at h
    | ok pv => exact ⟨v, pv, rfl, hp⟩


-- ---- a2
theorem pushPath_cons (k : PKey) (rest : List PKey) (x : List Op) :
    pushPath (k :: rest) x = [opPatchKey k (pushPath rest x)] := rfl

/-- what one group of `apply_decisions` does with a diff `x` found at path `q`: resolve the path (stopping at a
    string), patch the sub-document with the rest of the path pushed back, put the result in place — is patching the
    whole document with `x` re-rooted at `q` -/
theorem flush_eq_patch : ∀ (q : List PKey) (doc : J) (x : List Op) (R : J), doc.canonical = true →
    patch doc (pushPath q x) = .ok R →
    ∃ p line r r', splitStringPath doc q = .ok (p, line) ∧ getAt doc p = .ok r ∧
      patch r (pushPath line x) = .ok r' ∧ setAt doc p r' = .ok R
  | [], doc, x, R, _, h => ⟨[], [], doc, R, by simp [splitStringPath], by simp [getAt], by simpa [pushPath] using h, by simp [setAt]⟩
  | k :: rest, doc, x, R, hc, h => by
      rw [pushPath_cons] at h
      cases doc with
      | str s =>
        exact ⟨[], k :: rest, .str s, R, by simp [splitStringPath], by simp [getAt], by rw [pushPath_cons]; exact h, by simp [setAt]⟩
      | obj m =>
        cases k with
        | s key =>
          simp only [opPatchKey] at h
          obtain ⟨v, pv, hv, hp⟩ := patch_obj_patchK_inv m key _ R h
          simp only [J.canonical, Bool.and_eq_true] at hc
          have hm : SK m := keysSorted_sk m hc.1
          have hR := patch_obj_patchK m hm key _ v pv hv hp
          rw [hR] at h
          cases h
          have cv : v.canonical = true := canonicalKvs_mem m hc.2 _ (lookupKV_mem key v m hv)
          obtain ⟨p', line, r, r', h1, h2, h3, h4⟩ := flush_eq_patch rest v x pv cv hp
          refine ⟨.s key :: p', line, r, r', ?_, ?_, h3, ?_⟩
          · simp [splitStringPath, getKey, hv, h1, bind, Except.bind]
          · simp [getAt, getKey, hv, h2, bind, Except.bind]
          · simp [setAt, hv, h4, bind, Except.bind]
        | i n =>
          simp only [opPatchKey] at h
          rw [patch] at h
          simp only [bind, Except.bind] at h
          unfold patchDict at h
          simp [Op.isMapOp] at h
      | arr xs =>
        cases k with
        | i n =>
          simp only [opPatchKey] at h
          obtain ⟨v, pv, hv, hp⟩ := patch_arr_patchI_inv xs n _ R h
          have hR := patch_arr_patchI xs n _ v pv hv hp
          rw [hR] at h
          cases h
          simp only [J.canonical] at hc
          have hn : n < xs.length := by
            rcases Nat.lt_or_ge n xs.length with h | h
            · exact h
            · rw [List.getElem?_eq_none h] at hv; cases hv
          have hmem : v ∈ xs := by
            rw [List.getElem?_eq_getElem hn] at hv
            cases hv
            exact List.getElem_mem hn
          have cv : v.canonical = true := canonicalList_mem xs hc v hmem
          obtain ⟨p', line, r, r', h1, h2, h3, h4⟩ := flush_eq_patch rest v x pv cv hp
          refine ⟨.i n :: p', line, r, r', ?_, ?_, h3, ?_⟩
          · simp [splitStringPath, getKey, hv, h1, bind, Except.bind]
          · simp [getAt, getKey, hv, h2, bind, Except.bind]
          · simp [setAt, hv, h4, bind, Except.bind]
        | s key =>
          simp only [opPatchKey] at h
          rw [patch] at h
          simp only [bind, Except.bind] at h
          unfold patchList at h
          simp at h
      | null => unfold patch at h; simp at h
      | bool _ => unfold patch at h; simp at h
      | int _ => unfold patch at h; simp at h
      | flt _ => unfold patch at h; simp at h


-- ---- a3

theorem patchParts_eq {e : Op} {k : PKey} {dd : List Op} (h : patchParts e = some (k, dd)) : e = opPatchKey k dd := by
  cases e <;> simp [patchParts] at h
  · obtain ⟨h1, h2⟩ := h; subst h1; subst h2; rfl
  · obtain ⟨h1, h2⟩ := h; subst h1; subst h2; rfl

/-- `ensure_common_path` for a one-sided decision: the path grows by `suffix`, the local diff shrinks to `d'`,
    and pushing `d'` back along `suffix` gives the original diff -/
theorem ensure_onesided : ∀ (fuel : Nat) (path : List PKey) (d : List Op),
    ∃ suffix d', ensureCommonPath fuel path [some d, none, none] = (path ++ suffix, [some d', none, none]) ∧
      pushPath suffix d' = d
  | 0, path, d => ⟨[], d, by simp [ensureCommonPath], rfl⟩
  | fuel + 1, path, d => by
      cases d with
      | nil => exact ⟨[], [], by simp [ensureCommonPath, popPath, popPathAux], rfl⟩
      | cons e rest =>
        cases rest with
        | cons e2 r2 => exact ⟨[], e :: e2 :: r2, by simp [ensureCommonPath, popPath, popPathAux], rfl⟩
        | nil =>
          cases hp : patchParts e with
          | none => exact ⟨[], [e], by simp [ensureCommonPath, popPath, popPathAux, hp], rfl⟩
          | some kd =>
            obtain ⟨k, dd⟩ := kd
            obtain ⟨suffix, d', h1, h2⟩ := ensure_onesided fuel (path ++ [k]) dd
            refine ⟨k :: suffix, d', ?_, ?_⟩
            · simp only [ensureCommonPath, popPath, popPathAux, hp, Option.isNone_none, Bool.true_or, if_true,
                Option.map_some]
              rw [h1]; simp [List.append_assoc]
            · show [opPatchKey k (pushPath suffix d')] = [e]
              rw [h2, patchParts_eq hp]

/-- the decision `onesided` records for a single local entry `e` at the root -/
def mkLocal (e : Op) : MD :=
  let (p, ds) := ensureCommonPath pathFuel [] [some [e], none, none]
  { path := p, action := "local", conflict := false, localDiff := (ds[0]?).getD none, remoteDiff := (ds[1]?).getD none,
    customDiff := (ds[2]?).getD none, strategy := none, similarInsert := none }

theorem mkLocal_spec (e : Op) : ∃ q x, (mkLocal e).path = q ∧ (mkLocal e).localDiff = some x ∧ pushPath q x = [e] ∧
    (mkLocal e).action = "local" := by
  obtain ⟨suffix, d', h1, h2⟩ := ensure_onesided pathFuel [] [e]
  refine ⟨suffix, d', ?_, ?_, h2, rfl⟩
  · simp [mkLocal, h1]
  · simp [mkLocal, h1]

theorem onesided_single (b : B) (e : Op) : onesided b [] (some [e]) none = .ok (b ++ [mkLocal e]) := by
  simp [onesided, nonEmpty, addDecision, mkLocal]

/-- the builder after the one-sided arm of `_merge_dicts` at the root -/
theorem fold_onesided (l : List (String × Op)) : ∀ (keys : List String) (b : B),
    (∀ k ∈ keys, (lookupKV k l).isSome = true) →
    keys.foldlM (fun (b : B) k => onesided b [] ((lookupKV k l).map (fun e => [e])) none) b =
      .ok (b ++ keys.filterMap (fun k => (lookupKV k l).map mkLocal))
  | [], b, _ => by simp [pure, Except.pure]
  | k :: rest, b, hk => by
      have hs := hk k List.mem_cons_self
      cases hl : lookupKV k l with
      | none => simp [hl] at hs
      | some e =>
        simp only [List.foldlM_cons, hl, Option.map_some, onesided_single, bind, Except.bind,
          List.filterMap_cons]
        rw [fold_onesided l rest _ (fun k' hk' => hk k' (List.mem_cons_of_mem _ hk'))]
        simp [List.append_assoc]


-- ---- a4

theorem resolve_local (base : J) (d : Decision) (x : List Op) (ha : d.action = "local") (hl : d.localDiff = some x) :
    resolveAction base d = .ok x := by
  rw [resolveAction_leaf base d (keyBased_false_of d (by simp [ha]) (by simp [ha]) (by simp [ha]))]
  unfold resolveLeaf
  simp [ha, hl]

/-- a mapping entry that is not a patch: add / remove / replace on a string key -/
def isPlainMap : Op → Bool
  | .add _ _ => true
  | .remove _ => true
  | .replace _ _ => true
  | _ => false

theorem plain_pkey {e : Op} (h : isPlainMap e = true) : e.pkey = some (.s e.skey) := by
  cases e <;> simp_all [isPlainMap, Op.pkey, Op.skey]

/-- `sorted(..., key=...)` on plain mapping entries: succeeds with a permutation -/
theorem insertByKey_plain (e : Op) (he : isPlainMap e = true) : ∀ (l : List Op), (∀ o ∈ l, isPlainMap o = true) →
    ∃ l', insertByKey e l = .ok l' ∧ l'.Perm (e :: l)
  | [], _ => ⟨[e], by simp [insertByKey], List.Perm.refl _⟩
  | x :: rest, hl => by
      have hx := hl x List.mem_cons_self
      unfold insertByKey
      rw [plain_pkey he, plain_pkey hx]
      simp only [PKey.lt]
      by_cases hlt : x.skey < e.skey
      · simp only [hlt, decide_true]
        obtain ⟨r, h1, h2⟩ := insertByKey_plain e he rest (fun o ho => hl o (List.mem_cons_of_mem _ ho))
        refine ⟨x :: r, by simp [h1, bind, Except.bind], ?_⟩
        exact (List.Perm.cons x h2).trans (List.Perm.swap e x rest)
      · simp only [hlt, decide_false]
        have hx' : x.notInsert = true := by cases x <;> simp_all [isPlainMap, Op.notInsert]
        simp only [hx', Bool.not_true, Bool.and_false, Bool.false_and, Bool.false_eq_true, if_false]
        exact ⟨e :: x :: rest, rfl, List.Perm.refl _⟩

theorem sortByKey_plain : ∀ (l : List Op), (∀ o ∈ l, isPlainMap o = true) → ∃ l', sortByKey l = .ok l' ∧ l'.Perm l
  | [], _ => ⟨[], by simp [sortByKey, pure, Except.pure], List.Perm.refl _⟩
  | e :: rest, hl => by
      obtain ⟨r, h1, h2⟩ := sortByKey_plain rest (fun o ho => hl o (List.mem_cons_of_mem _ ho))
      have hr : ∀ o ∈ r, isPlainMap o = true := fun o ho => hl o (List.mem_cons_of_mem _ (h2.subset ho))
      obtain ⟨r', h3, h4⟩ := insertByKey_plain e (hl e List.mem_cons_self) r hr
      refine ⟨r', ?_, h4.trans (List.Perm.cons e h2)⟩
      unfold sortByKey at h1 ⊢
      simp only [List.foldrM_cons, h1, bind, Except.bind]
      exact h3

theorem gatherStep_plain (acc : List Op) (e : Op) (he : isPlainMap e = true) : gatherStep acc e = acc ++ [e] := by
  cases e <;> simp_all [isPlainMap, gatherStep]

theorem gather_plain : ∀ (l acc : List Op), (∀ o ∈ l, isPlainMap o = true) → l.foldl gatherStep acc = acc ++ l
  | [], acc, _ => by simp
  | e :: rest, acc, hl => by
      simp only [List.foldl_cons]
      rw [gatherStep_plain acc e (hl e List.mem_cons_self), gather_plain rest (acc ++ [e]) (fun o ho => hl o (List.mem_cons_of_mem _ ho))]
      simp [List.append_assoc]

theorem mapM_plain (rec : List Op → Except Err (List Op)) : ∀ (l : List Op), (∀ o ∈ l, isPlainMap o = true) →
    l.mapM (canonStep rec) = .ok l
  | [], _ => by simp [pure, Except.pure]
  | e :: rest, hl => by
      have he := hl e List.mem_cons_self
      rw [List.mapM_cons, mapM_plain rec rest (fun o ho => hl o (List.mem_cons_of_mem _ ho))]
      cases e <;> simp_all [isPlainMap, canonStep, bind, Except.bind, pure, Except.pure]

/-- `combine_patches` on plain mapping entries: a permutation (sorted by key) -/
theorem combinePatches_plain (fuel : Nat) (l : List Op) (hl : ∀ o ∈ l, isPlainMap o = true) :
    ∃ l', combinePatches (fuel + 1) l = .ok l' ∧ l'.Perm l := by
  unfold combinePatches
  simp only [bind, Except.bind]
  rw [gather_plain l [] hl]
  simp only [List.nil_append]
  rw [mapM_plain _ l hl]
  exact sortByKey_plain l hl


-- ---- a5
/-- a one-sided local decision -/
def dLocal (q : List PKey) (x : List Op) : Decision :=
  { path := q, action := "local", conflict := false, localDiff := some x, remoteDiff := none, customDiff := none }

/-- a decision that sits at path `q` and resolves, whatever the document it is resolved against, to the diff `x`
    (and is not a `clear_all`): all that `apply_decisions` uses of it -/
structure Res (d : Decision) (q : List PKey) (x : List Op) : Prop where
  path : d.path = q
  nca : (d.action == "clear_all") = false
  res : ∀ base, resolveAction base d = .ok x

theorem dLocal_res (q : List PKey) (x : List Op) : Res (dLocal q x) q x :=
  ⟨rfl, by show ("local" == "clear_all") = false; decide, fun base => resolve_local base _ x rfl rfl⟩

theorem flush_root (M : J) (diffs : List Op) :
    flush M (some ⟨[], diffs, false⟩) = patch M diffs := by
  simp only [flush, getAt, bind, Except.bind]
  cases patch M diffs with
  | error e => rfl
  | ok v => simp [setAt]

/-- the open root group swallows the remaining root decisions (each resolving to some plain entries, possibly none):
    the final diff is a permutation of all their entries -/
theorem root_acc : ∀ (rs : List (Decision × List Op)) (M : List (String × J)) (diffs : List Op),
    (∀ o ∈ diffs, isPlainMap o = true) → (∀ p ∈ rs, ∀ o ∈ p.2, isPlainMap o = true) → (∀ p ∈ rs, Res p.1 [] p.2) →
    ∃ diffs', diffs'.Perm (diffs ++ rs.flatMap (·.2)) ∧
      applyLoop (rs.map (·.1)) (.obj M) (some ⟨[], diffs, false⟩) = patch (.obj M) diffs'
  | [], M, diffs, _, _, _ => ⟨diffs, by simp, by simp [applyLoop, flush_root]⟩
  | p :: rest, M, diffs, hd, he, hres => by
      obtain ⟨d, es⟩ := p
      have hall : ∀ o ∈ diffs ++ es, isPlainMap o = true := by
        intro o ho
        simp only [List.mem_append] at ho
        rcases ho with ho | ho
        · exact hd o ho
        · exact he _ List.mem_cons_self o ho
      obtain ⟨d2, h2, p2⟩ := combinePatches_plain 63 (diffs ++ es) hall
      have hd2 : ∀ o ∈ d2, isPlainMap o = true := fun o ho => hall o (p2.subset ho)
      obtain ⟨d3, p3, h3⟩ := root_acc rest M d2 hd2 (fun o ho => he o (List.mem_cons_of_mem _ ho))
        (fun o ho => hres o (List.mem_cons_of_mem _ ho))
      have hR : Res d [] es := hres _ List.mem_cons_self
      refine ⟨d3, ?_, ?_⟩
      · refine p3.trans ?_
        have : (d2 ++ rest.flatMap (·.2)).Perm ((diffs ++ es) ++ rest.flatMap (·.2)) := List.Perm.append_right _ p2
        simpa [List.append_assoc, List.flatMap_cons] using this
      · simp only [List.map_cons, applyLoop, hR.path, splitStringPath, bind, Except.bind, pure, Except.pure]
        simp only [BEq.rfl, if_true, Bool.false_eq_true, if_false, getAt]
        simp only [hR.res, List.isEmpty_nil, if_true, hR.nca, Bool.false_eq_true, if_false, h2]
        exact h3


-- ---- a6
/-- flushing this pending group puts `pv` under key `k` of the root object, whatever else the root holds, as long
    as key `k` still holds `v` -/
def PendOK (v : J) (g : Group) (k : String) (pv : J) : Prop :=
  (∃ p', g.path = PKey.s k :: p') ∧ g.clearAll = false ∧
  ∀ M', lookupKV k M' = some v → flush (.obj M') (some g) = .ok (.obj (insertKV k pv M'))

theorem pushPath_nil (x : List Op) : pushPath [] x = x := rfl

theorem line_push (line : List PKey) (x : List Op) : (if line.isEmpty then x else pushPath line x) = pushPath line x := by
  cases line with
  | nil => rfl
  | cons a b => rfl

/-- what a deep one-sided decision on key `k` of the root object sets up -/
theorem open_deep (k : String) (q' : List PKey) (x : List Op) (v pv : J) (cv : v.canonical = true)
    (hp : patch v (pushPath q' x) = .ok pv) :
    ∃ p' line r, (∀ M, lookupKV k M = some v →
        splitStringPath (.obj M) (PKey.s k :: q') = .ok (PKey.s k :: p', line) ∧ getAt (.obj M) (PKey.s k :: p') = .ok r) ∧
      PendOK v ⟨PKey.s k :: p', pushPath line x, false⟩ k pv := by
  obtain ⟨p', line, r, r', h1, h2, h3, h4⟩ := flush_eq_patch q' v x pv cv hp
  refine ⟨p', line, r, ?_, ⟨p', rfl⟩, rfl, ?_⟩
  · intro M hM
    constructor
    · simp [splitStringPath, getKey, hM, h1, bind, Except.bind]
    · simp [getAt, getKey, hM, h2, bind, Except.bind]
  · intro M' hM'
    simp [flush, getAt, getKey, hM', h2, h3, setAt, h4, bind, Except.bind]

/-- one deep decision processed by `apply_decisions` -/
theorem deep_step (k : String) (q' : List PKey) (x : List Op) (v pv : J) (cv : v.canonical = true)
    (hp : patch v (pushPath q' x) = .ok pv) (dd : Decision) (hR : Res dd (PKey.s k :: q') x)
    (rest : List Decision) (M : List (String × J)) (hM : lookupKV k M = some v) :
    -- no group open
    (∃ g, PendOK v g k pv ∧ applyLoop (dd :: rest) (.obj M) none = applyLoop rest (.obj M) (some g)) ∧
    -- a group for another key is open
    (∀ (gp : Group) (kp : String) (vp pvp : J), PendOK vp gp kp pvp → kp ≠ k → lookupKV kp M = some vp →
      ∃ g, PendOK v g k pv ∧
        applyLoop (dd :: rest) (.obj M) (some gp) = applyLoop rest (.obj (insertKV kp pvp M)) (some g)) := by
  obtain ⟨p', line, r, hres, hpend⟩ := open_deep k q' x v pv cv hp
  constructor
  · refine ⟨_, hpend, ?_⟩
    obtain ⟨s1, s2⟩ := hres M hM
    have hr := hR.res r
    have hca := hR.nca
    have hpath := hR.path
    simp only [applyLoop, bind, Except.bind, hpath, s1, s2, hr, line_push, hca]
  · intro gp kp vp pvp hgp hne hkp
    refine ⟨_, hpend, ?_⟩
    obtain ⟨⟨pp, hpp⟩, hclr, hfl⟩ := hgp
    obtain ⟨s1, _⟩ := hres M hM
    have hM2 : lookupKV k (insertKV kp pvp M) = some v := by
      rw [lookupKV_insertKV]; simp [Ne.symm hne, hM]
    obtain ⟨_, s2'⟩ := hres (insertKV kp pvp M) hM2
    have hr := hR.res r
    have hca := hR.nca
    have hpath := hR.path
    have hneq : (gp.path == PKey.s k :: p') = false := by
      rw [hpp]
      simp only [beq_eq_false_iff_ne, ne_eq, List.cons.injEq, PKey.s.injEq, not_and]
      intro h; exact absurd h hne
    simp only [applyLoop, bind, Except.bind, hpath, s1, hneq, Bool.false_eq_true, if_false, hfl M hkp, s2', hr, line_push, hca]


-- ---- a7
structure DeepItem where
  k : String
  q' : List PKey
  x : List Op
  v : J
  pv : J
  d : Decision

def DeepItem.dec (it : DeepItem) : Decision := it.d

def DeepItem.ok (base : List (String × J)) (it : DeepItem) : Prop :=
  lookupKV it.k base = some it.v ∧ it.v.canonical = true ∧ patch it.v (pushPath it.q' it.x) = .ok it.pv ∧
    Res it.d (PKey.s it.k :: it.q') it.x

/-- the pending group, with the key it belongs to and the values before / after -/
abbrev Pend := Option (Group × String × J × J)

def pendKey (p : Pend) : Option String := p.map (fun t => t.2.1)

/-- state of `apply_decisions` while the deep one-sided decisions are processed: `F` lists the keys dealt with
    (the pending one included) and their new values; the root `M` holds them except the pending one -/
def pendVal (p : Pend) : Option J := p.map (fun t => t.2.2.1)

def DeepInv (base M F : List (String × J)) (pend : Pend) : Prop :=
  SK M ∧
  (∀ x, lookupKV x M = if pendKey pend = some x then pendVal pend else (lookupKV x F).or (lookupKV x base)) ∧
  (∀ g kp vp pvp, pend = some (g, kp, vp, pvp) → PendOK vp g kp pvp ∧ lookupKV kp F = some pvp)

theorem deep_loop (base : List (String × J)) : ∀ (items : List DeepItem) (tail : List Decision)
    (M F : List (String × J)) (pend : Pend),
    (∀ it ∈ items, it.ok base) → (items.map (·.k)).Nodup → (∀ it ∈ items, lookupKV it.k F = none) →
    DeepInv base M F pend →
    ∃ M' pend', applyLoop (items.map DeepItem.dec ++ tail) (.obj M) (pend.map (·.1)) =
        applyLoop tail (.obj M') (pend'.map (·.1)) ∧
      DeepInv base M' ((items.map (fun it => (it.k, it.pv))).reverse ++ F) pend'
  | [], tail, M, F, pend, _, _, _, hinv => ⟨M, pend, rfl, by simpa using hinv⟩
  | it :: rest, tail, M, F, pend, hok, hnd, hF, hinv => by
      obtain ⟨hsk, hlk, hpe⟩ := hinv
      obtain ⟨ho1, ho2, ho3, ho4⟩ := hok it List.mem_cons_self
      have hitF := hF it List.mem_cons_self
      simp only [List.map_cons, List.nodup_cons] at hnd
      obtain ⟨hnotin, hnd'⟩ := hnd
      have restF : ∀ it' ∈ rest, lookupKV it'.k ((it.k, it.pv) :: F) = none := by
        intro it' hit'
        rw [lookupKV_cons']
        have hne : it.k ≠ it'.k := by
          intro h; apply hnotin; rw [h]; exact List.mem_map_of_mem hit'
        simp [hne, hF it' (List.mem_cons_of_mem _ hit')]
      cases pend with
      | none =>
        have hM : lookupKV it.k M = some it.v := by
          rw [hlk it.k]; simp [pendKey, pendVal, hitF, ho1]
        obtain ⟨⟨g, hg, hstep⟩, _⟩ := deep_step it.k it.q' it.x it.v it.pv ho2 ho3 it.d ho4 (rest.map DeepItem.dec ++ tail) M hM
        have hinv' : DeepInv base M ((it.k, it.pv) :: F) (some (g, it.k, it.v, it.pv)) := by
          refine ⟨hsk, ?_, ?_⟩
          · intro x
            rw [hlk x]
            by_cases hx : it.k = x
            · subst hx; simp [pendKey, pendVal, hitF, ho1]
            · simp [pendKey, pendVal, hx, lookupKV_cons']
          · intro g' kp vp pvp h
            cases h
            exact ⟨hg, by simp [lookupKV_cons']⟩
        obtain ⟨M', pend', h1, h2⟩ := deep_loop base rest tail M ((it.k, it.pv) :: F) (some (g, it.k, it.v, it.pv))
          (fun i hi => hok i (List.mem_cons_of_mem _ hi)) hnd' restF hinv'
        refine ⟨M', pend', ?_, ?_⟩
        · simp only [List.map_cons, List.cons_append, Option.map_none, DeepItem.dec]
          rw [hstep]
          simpa [DeepItem.dec] using h1
        · simpa [List.append_assoc] using h2
      | some pd =>
        obtain ⟨gp, kp, vp, pvp⟩ := pd
        obtain ⟨hgp, hFkp⟩ := hpe gp kp vp pvp rfl
        have hne : kp ≠ it.k := by
          intro h; rw [h] at hFkp; rw [hFkp] at hitF; cases hitF
        have hM : lookupKV it.k M = some it.v := by
          rw [hlk it.k]; simp [pendKey, pendVal, hne, hitF, ho1]
        have hMkp : lookupKV kp M = some vp := by
          rw [hlk kp]; simp [pendKey, pendVal]
        obtain ⟨_, hstep2⟩ := deep_step it.k it.q' it.x it.v it.pv ho2 ho3 it.d ho4 (rest.map DeepItem.dec ++ tail) M hM
        obtain ⟨g, hg, hstep⟩ := hstep2 gp kp vp pvp hgp hne hMkp
        have hinv' : DeepInv base (insertKV kp pvp M) ((it.k, it.pv) :: F) (some (g, it.k, it.v, it.pv)) := by
          refine ⟨insertKV_sorted _ _ _ hsk, ?_, ?_⟩
          · intro x
            rw [lookupKV_insertKV, hlk x]
            by_cases hx : it.k = x
            · subst hx
              have : ¬ (it.k = kp) := fun h => hne h.symm
              simp [pendKey, pendVal, this, hne, hitF, ho1]
            · by_cases hxk : x = kp
              · subst hxk
                simp [pendKey, pendVal, hx, lookupKV_cons', hFkp]
              · have : ¬ (kp = x) := fun h => hxk h.symm
                simp [pendKey, pendVal, hx, hxk, this, lookupKV_cons']
          · intro g' kp' vp' pvp' h
            cases h
            exact ⟨hg, by simp [lookupKV_cons']⟩
        obtain ⟨M', pend', h1, h2⟩ := deep_loop base rest tail (insertKV kp pvp M) ((it.k, it.pv) :: F) (some (g, it.k, it.v, it.pv))
          (fun i hi => hok i (List.mem_cons_of_mem _ hi)) hnd' restF hinv'
        refine ⟨M', pend', ?_, ?_⟩
        · simp only [List.map_cons, List.cons_append, Option.map_some, DeepItem.dec]
          rw [hstep]
          simpa [DeepItem.dec] using h1
        · simpa [List.append_assoc] using h2


-- ---- a8
/-- after the deep decisions: flush what is pending, then the root group (if any) — the result is `patch V diffs'`
    for the fully flushed root `V` and a permutation `diffs'` of the root entries -/
theorem finish_root (base : List (String × J)) (M F : List (String × J)) (pend : Pend) (hinv : DeepInv base M F pend)
    (rs : List (Decision × List Op)) (hes : ∀ p ∈ rs, ∀ o ∈ p.2, isPlainMap o = true) (hres : ∀ p ∈ rs, Res p.1 [] p.2) :
    ∃ V diffs', SK V ∧ (∀ x, lookupKV x V = (lookupKV x F).or (lookupKV x base)) ∧ diffs'.Perm (rs.flatMap (·.2)) ∧
      applyLoop (rs.map (·.1)) (.obj M) (pend.map (·.1)) = patch (.obj V) diffs' := by
  obtain ⟨hsk, hlk, hpe⟩ := hinv
  -- the fully flushed root
  cases pend with
  | none =>
    have hV : ∀ x, lookupKV x M = (lookupKV x F).or (lookupKV x base) := by
      intro x; rw [hlk x]; simp [pendKey]
    cases rs with
    | nil =>
      refine ⟨M, [], hsk, hV, List.Perm.refl _, ?_⟩
      simp only [List.map_nil, applyLoop, Option.map_none, flush]
      rw [patch]
      simp only [bind, Except.bind]
      rw [patchDict]
      simp only [List.reverse_nil, List.nil_append, List.contains_nil, hasKey, lookupKV, Option.isSome_none, Bool.not_false,
        Bool.and_self]
      have : List.filter (fun (kv : String × J) => true) M = M := List.filter_eq_self.mpr (fun _ _ => rfl)
      rw [this, sortKV_of_sorted M hsk]
    | cons p rest =>
      obtain ⟨d, e⟩ := p
      have hR : Res d [] e := hres _ List.mem_cons_self
      obtain ⟨d', p', h'⟩ := root_acc rest M e (fun o ho => hes _ List.mem_cons_self o ho)
        (fun o ho => hes o (List.mem_cons_of_mem _ ho)) (fun o ho => hres o (List.mem_cons_of_mem _ ho))
      refine ⟨M, d', hsk, hV, by simpa using p', ?_⟩
      have hr := hR.res (.obj M)
      have hpath := hR.path
      have hca := hR.nca
      simp only [List.map_cons, Option.map_none, applyLoop, hpath, splitStringPath, getAt, bind, Except.bind, hr,
        List.isEmpty_nil, if_true, hca]
      exact h'
  | some pd =>
    obtain ⟨gp, kp, vp, pvp⟩ := pd
    obtain ⟨hgp, hFkp⟩ := hpe gp kp vp pvp rfl
    have hMkp : lookupKV kp M = some vp := by rw [hlk kp]; simp [pendKey, pendVal]
    have hfl := hgp.2.2 M hMkp
    have hskV : SK (insertKV kp pvp M) := insertKV_sorted _ _ _ hsk
    have hV : ∀ x, lookupKV x (insertKV kp pvp M) = (lookupKV x F).or (lookupKV x base) := by
      intro x
      rw [lookupKV_insertKV, hlk x]
      by_cases hx : x = kp
      · subst hx; simp [hFkp]
      · have : ¬ (kp = x) := fun h => hx h.symm
        simp [pendKey, hx, this]
    cases rs with
    | nil =>
      refine ⟨insertKV kp pvp M, [], hskV, hV, List.Perm.refl _, ?_⟩
      simp only [List.map_nil, applyLoop, Option.map_some, hfl]
      rw [patch]
      simp only [bind, Except.bind]
      rw [patchDict]
      simp only [List.reverse_nil, List.nil_append, List.contains_nil, hasKey, lookupKV, Option.isSome_none, Bool.not_false,
        Bool.and_self]
      have : List.filter (fun (kv : String × J) => true) (insertKV kp pvp M) = insertKV kp pvp M :=
        List.filter_eq_self.mpr (fun _ _ => rfl)
      rw [this, sortKV_of_sorted _ hskV]
    | cons p rest =>
      obtain ⟨d, e⟩ := p
      have hR : Res d [] e := hres _ List.mem_cons_self
      obtain ⟨d', p', h'⟩ := root_acc rest (insertKV kp pvp M) e (fun o ho => hes _ List.mem_cons_self o ho)
        (fun o ho => hes o (List.mem_cons_of_mem _ ho)) (fun o ho => hres o (List.mem_cons_of_mem _ ho))
      refine ⟨insertKV kp pvp M, d', hskV, hV, by simpa using p', ?_⟩
      have hr := hR.res (.obj (insertKV kp pvp M))
      have hpath := hR.path
      have hca := hR.nca
      obtain ⟨pp, hpp⟩ := hgp.1
      have hneq : (gp.path == ([] : List PKey)) = false := by rw [hpp]; rfl
      simp only [List.map_cons, Option.map_some, applyLoop, hpath, splitStringPath, bind, Except.bind, hneq,
        Bool.false_eq_true, if_false, hfl, getAt, hr, List.isEmpty_nil, if_true, hca]
      exact h'


-- ---- a9
def DeepItem.entry (it : DeepItem) : Op := .patchK it.k (pushPath it.q' it.x)
theorem plain_isMapOp {e : Op} (h : isPlainMap e = true) : e.isMapOp = true := by
  cases e <;> simp_all [isPlainMap, Op.isMapOp]

/-- key table of a list of mapping entries -/
def keyed (l : List Op) : List (String × Op) := l.map (fun e => (e.skey, e))

theorem keyed_dk {l : List Op} (h : (l.map Op.skey).Nodup) : DK (keyed l) := by
  unfold DK keyed
  rw [List.pairwise_map]
  rw [List.nodup_iff_pairwise_ne, List.pairwise_map] at h
  exact h

theorem keyed_lookup_mem {l : List Op} (h : (l.map Op.skey).Nodup) {e : Op} (he : e ∈ l) :
    lookupKV e.skey (keyed l) = some e :=
  lookupKV_of_mem e.skey e (keyed l) (keyed_dk h) (List.mem_map.mpr ⟨e, he, rfl⟩)

theorem keyed_lookup_none {l : List Op} {x : String} (h : x ∉ l.map Op.skey) : lookupKV x (keyed l) = none := by
  apply none_of_not_mem_keys
  simpa [keyed, List.map_map] using h

theorem keyed_map_snd (l : List Op) : (keyed l).map (·.2) = l := by
  induction l with
  | nil => rfl
  | cons e rest ih => simp only [keyed, List.map_cons, List.map_map] at ih ⊢; rw [ih]

theorem flatMap_pair_singleton {α β γ} (f : α → β) (g : α → γ) : ∀ (l : List α),
    (l.map (fun d => (f d, [g d]))).flatMap (·.2) = l.map g
  | [] => rfl
  | x :: xs => by
      simp only [List.map_cons, List.flatMap_cons, List.singleton_append]
      rw [flatMap_pair_singleton f g xs]

/-- **core**: `apply_decisions` on the one-sided decisions of a root object (deep decisions for the patched keys in
    any order, then the plain entries in any order) is `patch` with the whole diff -/
theorem apply_onesided_core (base : List (String × J)) (hb : SK base) (items : List DeepItem)
    (rs : List (Decision × List Op)) (ld : List Op)
    (hok : ∀ it ∈ items, it.ok base) (hrs : ∀ p ∈ rs, ∀ o ∈ p.2, isPlainMap o = true) (hres : ∀ p ∈ rs, Res p.1 [] p.2)
    (heff' : ∀ p ∈ rs, ∀ o ∈ p.2, (mapEff base o).isSome = true)
    (hperm' : ld.Perm (items.map DeepItem.entry ++ rs.flatMap (·.2))) (hnd : (ld.map Op.skey).Nodup) :
    applyDecisions (.obj base) (items.map DeepItem.dec ++ rs.map (·.1)) = patch (.obj base) ld := by
  generalize hesdef : rs.flatMap (·.2) = es at hperm'
  have hperm : ld.Perm (items.map DeepItem.entry ++ es) := hperm'
  have hes : ∀ o ∈ es, isPlainMap o = true := by
    intro o ho; rw [← hesdef] at ho; obtain ⟨p, hp, hop⟩ := List.mem_flatMap.mp ho; exact hrs p hp o hop
  have heff : ∀ o ∈ es, (mapEff base o).isSome = true := by
    intro o ho; rw [← hesdef] at ho; obtain ⟨p, hp, hop⟩ := List.mem_flatMap.mp ho; exact heff' p hp o hop
  -- key bookkeeping
  have hnd2 : ((items.map DeepItem.entry ++ es).map Op.skey).Nodup := (hperm.map Op.skey).nodup_iff.mp hnd
  simp only [List.map_append, List.map_map] at hnd2
  have hkeys : (items.map (·.k)) = items.map (Op.skey ∘ DeepItem.entry) := by
    apply List.map_congr_left; intro it _; rfl
  rw [← hkeys] at hnd2
  have hndI : (items.map (·.k)).Nodup := (List.nodup_append.mp hnd2).1
  have hndE : (es.map Op.skey).Nodup := (List.nodup_append.mp hnd2).2.1
  have hdisj : ∀ it ∈ items, ∀ e ∈ es, it.k ≠ e.skey := by
    intro it hit e he heq
    have := (List.nodup_append.mp hnd2).2.2 it.k (List.mem_map_of_mem hit) e.skey (List.mem_map_of_mem he)
    exact this heq
  -- the deep phase
  have hinv0 : DeepInv base base [] none := ⟨hb, fun x => by simp [pendKey, lookupKV], fun _ _ _ _ h => by cases h⟩
  obtain ⟨M', pend', h1, hinv1⟩ := deep_loop base items (rs.map (·.1)) base [] none hok hndI
    (fun _ _ => rfl) hinv0
  obtain ⟨V, diffs', hskV, hlkV, hpermD, h2⟩ := finish_root base M' _ pend' hinv1 rs hrs hres
  rw [hesdef] at hpermD
  unfold applyDecisions
  have h1' : applyLoop (items.map DeepItem.dec ++ rs.map (·.1)) (.obj base) none =
      applyLoop (rs.map (·.1)) (.obj M') (pend'.map (·.1)) := by simpa using h1
  rw [h1', h2]
  -- the lookups of the flushed root
  have hF : ∃ F, F = (items.map (fun it => (it.k, it.pv))).reverse ++ ([] : List (String × J)) := ⟨_, rfl⟩
  obtain ⟨F, hF⟩ := hF
  rw [← hF] at hlkV
  have hFdk : DK F := by
    rw [hF, List.append_nil]
    unfold DK
    rw [List.pairwise_reverse, List.pairwise_map]
    rw [List.nodup_iff_pairwise_ne, List.pairwise_map] at hndI
    exact hndI.imp (fun h => fun heq => h heq.symm)
  have hFmem : ∀ it ∈ items, lookupKV it.k F = some it.pv := fun it hit =>
    lookupKV_of_mem it.k it.pv F hFdk (by rw [hF]; simp; exact ⟨it, hit, rfl, rfl⟩)
  have hFnone : ∀ x, x ∉ items.map (·.k) → lookupKV x F = none := by
    intro x hx
    apply none_of_not_mem_keys
    rw [hF]; simpa [List.map_reverse, List.map_map] using hx
  -- both sides through `patchDict_table`
  have hndD : (diffs'.map Op.skey).Nodup := (hpermD.map Op.skey).nodup_iff.mpr hndE
  have hesV : ∀ e ∈ es, mapEff V e = mapEff base e := by
    intro e he
    have hplain := hes e he
    cases e with
    | add k v =>
      have hk : lookupKV k V = lookupKV k base := by
        rw [hlkV k, hFnone k (fun hm => by
          obtain ⟨it, hit, hk⟩ := List.mem_map.mp hm
          exact hdisj it hit _ he hk)]
        rfl
      show (if hasKey k V then none else some (some v)) = (if hasKey k base then none else some (some v))
      unfold hasKey
      rw [hk]
    | remove k => rfl
    | replace k v => rfl
    | patchK _ _ => simp [isPlainMap] at hplain
    | addrange _ _ => simp [isPlainMap] at hplain
    | addchars _ _ => simp [isPlainMap] at hplain
    | removerange _ _ => simp [isPlainMap] at hplain
    | patchI _ _ => simp [isPlainMap] at hplain
    | invalid _ => simp [isPlainMap] at hplain
  obtain ⟨R, hR, hskR, hlkR⟩ := patchDict_table V hskV.dk (keyed diffs') [] [] (keyed_dk hndD)
    (fun p hp => by
      obtain ⟨e, he, rfl⟩ := List.mem_map.mp hp
      have he' : e ∈ es := hpermD.subset he
      exact ⟨rfl, plain_isMapOp (hes e he'), by rw [hesV e he']; exact heff e he'⟩)
    (fun p _ => ⟨rfl, rfl⟩)
  have hiteff : ∀ it ∈ items, mapEff base it.entry = some (some it.pv) := by
    intro it hit
    obtain ⟨o1, _, o3, _⟩ := hok it hit
    simp [DeepItem.entry, mapEff, o1, o3]
  obtain ⟨R0, hR0, hskR0, hlkR0⟩ := patchDict_table base hb.dk (keyed ld) [] [] (keyed_dk hnd)
    (fun p hp => by
      obtain ⟨e, he, rfl⟩ := List.mem_map.mp hp
      have he' := hperm.subset he
      simp only [List.mem_append, List.mem_map] at he'
      rcases he' with ⟨it, hit, rfl⟩ | he'
      · exact ⟨rfl, rfl, by rw [hiteff it hit]; rfl⟩
      · exact ⟨rfl, plain_isMapOp (hes e he'), heff e he'⟩)
    (fun p _ => ⟨rfl, rfl⟩)
  rw [keyed_map_snd] at hR hR0
  rw [patch, patch]
  simp only [hR, hR0, bind, Except.bind]
  congr 2
  apply sk_ext R R0 hskR hskR0
  intro x
  rw [hlkR x, hlkR0 x]
  simp only [hasKey, lookupKV, Option.isSome_none, Bool.false_eq_true, if_false, List.contains_nil]
  -- which entry, if any, has key x
  by_cases hxE : x ∈ es.map Op.skey
  · obtain ⟨e, he, rfl⟩ := List.mem_map.mp hxE
    have heD : e ∈ diffs' := hpermD.symm.subset he
    have heL : e ∈ ld := hperm.symm.subset (List.mem_append_right _ he)
    rw [keyed_lookup_mem hndD heD, keyed_lookup_mem hnd heL]
    simp only []
    rw [hesV e he]
  · have hnD : x ∉ diffs'.map Op.skey := fun h => hxE ((hpermD.map Op.skey).subset h)
    rw [keyed_lookup_none hnD]
    by_cases hxI : x ∈ items.map (·.k)
    · obtain ⟨it, hit, rfl⟩ := List.mem_map.mp hxI
      have heL : it.entry ∈ ld := hperm.symm.subset (List.mem_append_left _ (List.mem_map_of_mem hit))
      have := keyed_lookup_mem hnd heL
      simp only [DeepItem.entry, Op.skey] at this
      rw [this]
      simp only [hlkV it.k, hFmem it hit, Option.or_some]
      have := hiteff it hit
      simp only [DeepItem.entry] at this
      rw [this]; rfl
    · have hnL : x ∉ ld.map Op.skey := by
        intro h
        have := (hperm.map Op.skey).subset h
        simp only [List.map_append, List.map_map, List.mem_append] at this
        rcases this with h' | h'
        · apply hxI
          obtain ⟨it, hit, hk⟩ := List.mem_map.mp h'
          exact List.mem_map.mpr ⟨it, hit, hk⟩
        · exact hxE h'
      rw [keyed_lookup_none hnL]
      simp only [hlkV x, hFnone x hxI, Option.none_or]


-- ---- b1

theorem insertDesc_perm (e : MD) : ∀ (l : List MD), (insertDesc e l).Perm (e :: l)
  | [] => List.Perm.refl _
  | x :: rest => by
      simp only [insertDesc]
      split
      · exact (List.Perm.cons x (insertDesc_perm e rest)).trans (List.Perm.swap e x rest)
      · exact List.Perm.refl _

theorem sortDesc_perm : ∀ (b : B), (sortDesc b).Perm b
  | [] => List.Perm.refl _
  | x :: rest => by
      simp only [sortDesc, List.foldr]
      exact (insertDesc_perm x _).trans (List.Perm.cons x (sortDesc_perm rest))

theorem keyLt_nil_cons (c : SortComp) (cs : List SortComp) : keyLt [] (c :: cs) = true := rfl

/-- in a descending list every decision with a non-empty path precedes every decision on the root path -/
theorem desc_partition : ∀ (l : List MD), Desc l →
    l = l.filter (fun d => !d.path.isEmpty) ++ l.filter (fun d => d.path.isEmpty)
  | [], _ => rfl
  | d :: rest, h => by
      unfold Desc at h
      rw [List.pairwise_cons] at h
      obtain ⟨hd, hrest⟩ := h
      have ih := desc_partition rest hrest
      cases hp : d.path with
      | cons k q =>
        simp only [List.filter_cons, hp, List.isEmpty_cons, Bool.not_false, if_true, Bool.false_eq_true, if_false,
          List.cons_append]
        rw [← ih]
      | nil =>
        -- everything later is on the root path as well
        have hall : ∀ x ∈ rest, x.path = [] := by
          intro x hx
          have := hd x hx
          cases hxp : x.path with
          | nil => rfl
          | cons k q =>
            simp only [sortKeyOf, hp, hxp, List.map_nil, List.map_cons, keyLt_nil_cons] at this
            cases this
        have f1 : rest.filter (fun d => !d.path.isEmpty) = [] := by
          rw [List.filter_eq_nil_iff]; intro x hx; simp [hall x hx]
        have f2 : rest.filter (fun d => d.path.isEmpty) = rest := by
          rw [List.filter_eq_self]; intro x hx; simp [hall x hx]
        simp only [List.filter_cons, hp, List.isEmpty_nil, Bool.not_true, Bool.false_eq_true, if_false, if_true, f1, f2,
          List.nil_append]

/-- `patch_dict` succeeds only if every entry is a mapping entry that is applicable -/
theorem patchDict_ok_eff (obj : List (String × J)) : ∀ (d : List Op) (newobj : List (String × J)) (deleted : List String)
    (R : List (String × J)), patchDict obj d newobj deleted = .ok R → ∀ e ∈ d, e.isMapOp = true ∧ (mapEff obj e).isSome = true
  | [], _, _, _, _, e, he => by cases he
  | e0 :: es, newobj, deleted, R, h, e, he => by
      have rest_ok : ∀ (n : List (String × J)) (dl : List String), patchDict obj es n dl = .ok R →
          ∀ e ∈ es, e.isMapOp = true ∧ (mapEff obj e).isSome = true :=
        fun n dl hh => patchDict_ok_eff obj es n dl R hh
      simp only [List.mem_cons] at he
      cases e0 with
      | add k v =>
        unfold patchDict at h
        simp only [Op.isMapOp, Bool.not_true, Bool.false_eq_true, if_false, Op.skey] at h
        by_cases h1 : hasKey k newobj = true
        · simp [h1] at h
        · by_cases hk : hasKey k obj = true
          · simp [h1, hk] at h
          · simp only [h1, hk, Bool.false_eq_true, if_false] at h
            rcases he with rfl | he
            · exact ⟨rfl, by simp [mapEff, hk]⟩
            · exact rest_ok _ _ h e he
      | remove k =>
        unfold patchDict at h
        simp only [Op.isMapOp, Bool.not_true, Bool.false_eq_true, if_false, Op.skey] at h
        by_cases h1 : hasKey k newobj = true
        · simp [h1] at h
        · simp only [h1, Bool.false_eq_true, if_false] at h
          rcases he with rfl | he
          · exact ⟨rfl, rfl⟩
          · exact rest_ok _ _ h e he
      | replace k v =>
        unfold patchDict at h
        simp only [Op.isMapOp, Bool.not_true, Bool.false_eq_true, if_false, Op.skey] at h
        by_cases h1 : hasKey k newobj = true
        · simp [h1] at h
        · by_cases h2 : k ∈ deleted
          · simp [h1, h2] at h
          · simp only [h1, h2, Bool.false_eq_true, if_false, List.contains_iff_mem] at h
            rcases he with rfl | he
            · exact ⟨rfl, rfl⟩
            · exact rest_ok _ _ h e he
      | patchK k dd =>
        unfold patchDict at h
        simp only [Op.isMapOp, Bool.not_true, Bool.false_eq_true, if_false, Op.skey] at h
        by_cases h1 : hasKey k newobj = true
        · simp [h1] at h
        · by_cases h2 : k ∈ deleted
          · simp [h1, h2] at h
          · simp only [h1, h2, Bool.false_eq_true, if_false, List.contains_iff_mem] at h
            cases hv : lookupKV k obj with
            | none => simp [hv] at h
            | some v =>
              simp only [hv, bind, Except.bind] at h
              cases hpv : patch v dd with
              | error er => simp [hpv] at h
              | ok pv =>
                simp only [hpv] at h
                rcases he with rfl | he
                · exact ⟨rfl, by simp [mapEff, hv, hpv]⟩
                · exact rest_ok _ _ h e he
      | addrange _ _ => unfold patchDict at h; simp [Op.isMapOp] at h
      | addchars _ _ => unfold patchDict at h; simp [Op.isMapOp] at h
      | removerange _ _ => unfold patchDict at h; simp [Op.isMapOp] at h
      | patchI _ _ => unfold patchDict at h; simp [Op.isMapOp] at h
      | invalid _ => unfold patchDict at h; simp [Op.isMapOp] at h


-- ---- b2
theorem pathFuel_succ : ∃ n, pathFuel = n + 1 := ⟨99999, rfl⟩

theorem mkLocal_plain {e : Op} (h : isPlainMap e = true) :
    mkLocal e = { path := [], action := "local", conflict := false, localDiff := some [e], remoteDiff := none } := by
  obtain ⟨n, hn⟩ := pathFuel_succ
  have hp : patchParts e = none := by cases e <;> simp_all [isPlainMap, patchParts]
  simp [mkLocal, hn, ensureCommonPath, popPath, popPathAux, hp]

theorem mkLocal_patch (k : String) (dd : List Op) :
    ∃ q' x, mkLocal (.patchK k dd) = { path := PKey.s k :: q', action := "local", conflict := false, localDiff := some x, remoteDiff := none } ∧
      pushPath q' x = dd := by
  obtain ⟨n, hn⟩ := pathFuel_succ
  obtain ⟨suffix, d', h1, h2⟩ := ensure_onesided n [PKey.s k] dd
  refine ⟨suffix, d', ?_, h2⟩
  simp only [mkLocal, hn, ensureCommonPath, popPath, popPathAux, patchParts, Option.isNone_none, Bool.true_or, if_true,
    Option.map_some, List.nil_append]
  rw [h1]
  simp

/-- `as_dict_based_diff` on mapping entries with pairwise different keys: the sorted table of all of them -/
theorem insertKV_perm {α} (k : String) (v : α) : ∀ (l : List (String × α)), hasKey k l = false →
    (insertKV k v l).Perm ((k, v) :: l)
  | [], _ => List.Perm.refl _
  | (k', v') :: rest, h => by
      rw [hasKey_cons] at h
      simp only [Bool.or_eq_false_iff] at h
      simp only [insertKV]
      split
      · exact List.Perm.refl _
      · simp only [h.1, Bool.false_eq_true, if_false]
        exact (List.Perm.cons _ (insertKV_perm k v rest h.2)).trans (List.Perm.swap _ _ _)

theorem mapOp_entryKey {e : Op} (h : e.isMapOp = true) : entryKey e = some (.s e.skey) := by
  cases e <;> simp_all [Op.isMapOp, entryKey, Op.pkey, Op.skey]

theorem dictBased_nodup : ∀ (ld : List Op), (∀ e ∈ ld, e.isMapOp = true) → (ld.map Op.skey).Nodup →
    ∃ l, dictBased ld = .ok l ∧ SK l ∧ (l.map (·.2)).Perm ld ∧ ∀ kv ∈ l, kv.2.skey = kv.1
  | [], _, _ => ⟨[], rfl, List.Pairwise.nil, List.Perm.refl _, fun _ h => by cases h⟩
  | e :: es, hm, hnd => by
      simp only [List.map_cons, List.nodup_cons] at hnd
      obtain ⟨hnot, hnd'⟩ := hnd
      obtain ⟨l, h1, h2, h3, h4⟩ := dictBased_nodup es (fun x hx => hm x (List.mem_cons_of_mem _ hx)) hnd'
      have hk : hasKey e.skey l = false := by
        cases hh : hasKey e.skey l with
        | false => rfl
        | true =>
          exfalso; apply hnot
          have : e.skey ∈ l.map (·.1) := (mem_keys_iff e.skey l).mpr hh
          obtain ⟨kv, hkv, hkeq⟩ := List.mem_map.mp this
          have hmem : kv.2 ∈ es := h3.subset (List.mem_map_of_mem hkv)
          rw [← hkeq, ← h4 kv hkv]
          exact List.mem_map_of_mem hmem
      refine ⟨insertKV e.skey e l, ?_, insertKV_sorted _ _ _ h2, ?_, ?_⟩
      · simp [dictBased, h1, bind, Except.bind, mapOp_entryKey (hm e List.mem_cons_self), hk, pure, Except.pure]
      · have := (insertKV_perm e.skey e l hk).map (·.2)
        exact this.trans (List.Perm.cons e h3)
      · intro kv hkv
        have := (insertKV_perm e.skey e l hk).subset hkv
        simp only [List.mem_cons] at this
        rcases this with rfl | h
        · rfl
        · exact h4 kv h


-- ---- b3
theorem mkLocal_noconf (e : Op) : (mkLocal e).conflict = false := by simp [mkLocal]
theorem mkLocal_nostrat (e : Op) : (mkLocal e).strategy = none := by simp [mkLocal]

/-- the one-sided decisions of `_merge_dicts` at the root, exactly -/
theorem mergeDicts_onesided_exact (E : Env) (rec : Rec) (inStr : Bool) (base : List (String × J)) (ld : List Op)
    (l : List (String × Op)) (hl : dictBased ld = .ok l) :
    mergeDicts E rec inStr base ld [] [] =
      .ok ((sortStrs (l.map (·.1))).filterMap (fun k => (lookupKV k l).map mkLocal)) := by
  unfold mergeDicts
  simp only [hl, dictBased, bind, Except.bind, pure, Except.pure, List.map_nil, List.contains_nil, Bool.not_false,
    List.filter_nil, List.append_nil, Bool.false_eq_true]
  have hf : List.filter (fun (k : String) => true) (l.map (·.1)) = l.map (·.1) := List.filter_eq_self.mpr (fun _ _ => rfl)
  have hf2 : List.filter (fun (k : String) => false) (l.map (·.1)) = [] := List.filter_eq_nil_iff.mpr (fun _ _ => by simp)
  simp only [hf, hf2, lookupKV, Option.map_none]
  have hkeys : ∀ k ∈ sortStrs (l.map (·.1)), (lookupKV k l).isSome = true := by
    intro k hk
    exact (mem_keys_iff k l).mp ((mem_sortStrs k _).mp hk)
  rw [fold_onesided l _ [] hkeys]
  simp only [List.nil_append, sortStrs, List.foldl_nil, List.foldlM_nil, pure, Except.pure]
  have hnc : hasConflicted ((List.foldl (fun acc k => insertStr k acc) [] (l.map (·.1))).filterMap (fun k => (lookupKV k l).map mkLocal)) = false := by
    unfold hasConflicted
    rw [List.any_eq_false]
    intro d hd
    simp only [List.mem_filterMap, Option.map_eq_some_iff] at hd
    obtain ⟨k, _, e, _, rfl⟩ := hd
    simp [mkLocal_noconf]
  rw [resolveDict_noconf hnc]


/-- the deep item a (non-root) one-sided decision stands for -/
def toItem (base : List (String × J)) (d : MD) : DeepItem :=
  match d.path with
  | .s k :: q' =>
      let x := d.localDiff.getD []
      let v := (lookupKV k base).getD .null
      ⟨k, q', x, v, (match patch v (pushPath q' x) with
        | .ok pv => pv
        | .error _ => .null), dLocal (.s k :: q') x⟩
  | _ => ⟨"", [], [], .null, .null, dLocal [] []⟩

/-- the entry a root one-sided decision stands for -/
def toEntry (d : MD) : Op :=
  match d.localDiff with
  | some [e] => e
  | _ => .invalid ""

theorem mapOp_cases {e : Op} (h : e.isMapOp = true) : isPlainMap e = true ∨ ∃ k dd, e = .patchK k dd := by
  cases e <;> simp_all [Op.isMapOp, isPlainMap]

theorem item_of_patch (base : List (String × J)) (hc : J.canonicalKvs base = true) (k : String) (dd : List Op)
    (heff : (mapEff base (.patchK k dd)).isSome = true) :
    (mkLocal (.patchK k dd)).path.isEmpty = false ∧
    (toItem base (mkLocal (.patchK k dd))).ok base ∧
    (toItem base (mkLocal (.patchK k dd))).dec = (mkLocal (.patchK k dd)).toDecision ∧
    (toItem base (mkLocal (.patchK k dd))).entry = .patchK k dd := by
  obtain ⟨q', x, hmk, hpush⟩ := mkLocal_patch k dd
  cases hv : lookupKV k base with
  | none => simp [mapEff, hv] at heff
  | some v =>
    cases hp : patch v dd with
    | error e => simp [mapEff, hv, hp] at heff
    | ok pv =>
      have cv : v.canonical = true := canonicalKvs_mem base hc _ (lookupKV_mem k v base hv)
      rw [hmk]
      refine ⟨rfl, ?_, ?_, ?_⟩
      · simp only [toItem, DeepItem.ok, hv, Option.getD_some, hpush, hp]
        exact ⟨trivial, cv, trivial, dLocal_res _ _⟩
      · simp [toItem, DeepItem.dec, dLocal, MD.toDecision]
      · simp [toItem, DeepItem.entry, hpush]

theorem entry_of_plain {e : Op} (h : isPlainMap e = true) :
    (mkLocal e).path.isEmpty = true ∧ toEntry (mkLocal e) = e ∧ (mkLocal e).toDecision = dLocal [] [e] := by
  rw [mkLocal_plain h]
  exact ⟨rfl, rfl, rfl⟩

theorem insertStr_perm (k : String) : ∀ (l : List String), k ∉ l → (insertStr k l).Perm (k :: l)
  | [], _ => List.Perm.refl _
  | x :: rest, h => by
      simp only [List.mem_cons, not_or] at h
      simp only [insertStr]
      split
      · exact List.Perm.refl _
      · have : (x == k) = false := by simpa using (Ne.symm h.1)
        simp only [this, Bool.false_eq_true, if_false]
        exact (List.Perm.cons x (insertStr_perm k rest h.2)).trans (List.Perm.swap k x rest)

theorem foldl_insertStr_perm : ∀ (ks acc : List String), (acc ++ ks).Nodup →
    (ks.foldl (fun acc k => insertStr k acc) acc).Perm (acc ++ ks)
  | [], acc, _ => by simp
  | k :: rest, acc, h => by
      simp only [List.foldl_cons]
      have hk : k ∉ acc := by
        intro hm
        have := (List.nodup_append.mp h).2.2 k hm k List.mem_cons_self
        exact this rfl
      have p1 := insertStr_perm k acc hk
      have hnd' : (insertStr k acc ++ rest).Nodup := by
        have : (insertStr k acc ++ rest).Perm (acc ++ k :: rest) := by
          refine (List.Perm.append_right rest p1).trans ?_
          simpa using (List.perm_middle (l₁ := acc) (l₂ := rest) (a := k)).symm
        exact this.nodup_iff.mpr h
      refine (foldl_insertStr_perm rest (insertStr k acc) hnd').trans ?_
      refine (List.Perm.append_right rest p1).trans ?_
      simpa using (List.perm_middle (l₁ := acc) (l₂ := rest) (a := k)).symm

theorem sortStrs_perm (ks : List String) (h : ks.Nodup) : (sortStrs ks).Perm ks := by
  have := foldl_insertStr_perm ks [] (by simpa using h)
  simpa [sortStrs] using this

theorem filterMap_congr' {α β} (f g : α → Option β) : ∀ (l : List α), (∀ a ∈ l, f a = g a) → l.filterMap f = l.filterMap g
  | [], _ => rfl
  | a :: rest, h => by
      simp only [List.filterMap_cons, h a List.mem_cons_self]
      rw [filterMap_congr' f g rest (fun b hb => h b (List.mem_cons_of_mem _ hb))]

theorem filterMap_some_eq_map {α β} (f : α → Option β) (g : α → β) : ∀ (l : List α), (∀ a ∈ l, f a = some (g a)) →
    l.filterMap f = l.map g
  | [], _ => rfl
  | a :: rest, h => by
      simp only [List.filterMap_cons, h a List.mem_cons_self, List.map_cons]
      rw [filterMap_some_eq_map f g rest (fun b hb => h b (List.mem_cons_of_mem _ hb))]

theorem values_of_keys (l : List (String × Op)) (hd : DK l) :
    (l.map (·.1)).filterMap (fun k => lookupKV k l) = l.map (·.2) := by
  rw [List.filterMap_map]
  exact filterMap_some_eq_map _ _ l (fun kv hkv => lookupKV_of_mem kv.1 kv.2 l hd hkv)

theorem sk_keys_nodup {α} (l : List (String × α)) (h : SK l) : (l.map (·.1)).Nodup := by
  rw [List.nodup_iff_pairwise_ne, List.pairwise_map]
  exact h.dk

/-- the entry a decision of the one-sided list stands for -/
def origE (base : List (String × J)) (d : MD) : Op :=
  if d.path.isEmpty then toEntry d else (toItem base d).entry

theorem strip_mkLocal (e : Op) : ({ mkLocal e with strategy := none } : MD) = mkLocal e := by
  simp [mkLocal]

/-- **one-sided adoption, document level, root object**: if `ld` is a mapping diff with pairwise different keys
    that patches the (canonical) object `base` into `X`, then applying the decisions the merger records for "local
    changed by `ld`, remote unchanged" to `base` gives `X` — under every strategy table and oracle. -/
theorem apply_onesided_obj (E : Env) (base : List (String × J)) (ld : List Op) (ds : List MD) (X : J)
    (hc : (J.obj base).canonical = true) (hmap : ∀ e ∈ ld, e.isMapOp = true) (hnd : (ld.map Op.skey).Nodup)
    (hX : patch (.obj base) ld = .ok X) (h : decideMerge E (.obj base) ld [] = .ok ds) :
    applyDecisions (.obj base) (ds.map MD.toDecision) = .ok X := by
  simp only [J.canonical, Bool.and_eq_true] at hc
  have hb : SK base := keysSorted_sk base hc.1
  obtain ⟨l, hl, hsk, hpermL, hkey⟩ := dictBased_nodup ld hmap hnd
  -- effectiveness of every entry
  have heffAll : ∀ e ∈ ld, (mapEff base e).isSome = true := by
    rw [patch] at hX
    simp only [bind, Except.bind] at hX
    cases hpd : patchDict base ld [] [] with
    | error er => simp [hpd] at hX
    | ok R => exact fun e he => (patchDict_ok_eff base ld [] [] R hpd e he).2
  -- the decision list
  unfold decideMerge at h
  obtain ⟨n, hn⟩ := bigFuel_succ
  rw [hn] at h
  simp only [mergeF, mergeDicts_onesided_exact E _ false base ld l hl, bind, Except.bind] at h
  have hb0 : ∀ d ∈ (sortStrs (l.map (·.1))).filterMap (fun k => (lookupKV k l).map mkLocal),
      ∃ e ∈ ld, d = mkLocal e := by
    intro d hd
    simp only [List.mem_filterMap, Option.map_eq_some_iff] at hd
    obtain ⟨k, _, e, hke, rfl⟩ := hd
    exact ⟨e, hpermL.subset (List.mem_map_of_mem (f := (·.2)) (lookupKV_mem k e l hke)), rfl⟩
  generalize hbdef : (sortStrs (l.map (·.1))).filterMap (fun k => (lookupKV k l).map mkLocal) = b at h hb0
  have hnc : hasConflicted b = false := by
    unfold hasConflicted
    rw [List.any_eq_false]
    intro d hd
    obtain ⟨e, _, rfl⟩ := hb0 d hd
    simp [mkLocal_noconf]
  rw [resolveGeneric_noconf hnc] at h
  simp only [pure, Except.pure, Except.ok.injEq] at h
  have hstrip : b.map (fun d => ({ d with strategy := none } : MD)) = b := by
    have : ∀ d ∈ b, ({ d with strategy := none } : MD) = d := by
      intro d hd
      obtain ⟨e, _, rfl⟩ := hb0 d hd
      exact strip_mkLocal e
    rw [List.map_congr_left this]; simp
  unfold validated at h
  rw [hstrip] at h
  subst h
  -- sorted: deep decisions first
  have hdesc := sortDesc_desc b
  have hperm := sortDesc_perm b
  have hpart := desc_partition (sortDesc b) hdesc
  have hmemS : ∀ d ∈ sortDesc b, ∃ e ∈ ld, d = mkLocal e := fun d hd => hb0 d (hperm.subset hd)
  generalize hdeep : (sortDesc b).filter (fun d => !d.path.isEmpty) = deep at hpart
  generalize hroot : (sortDesc b).filter (fun d => d.path.isEmpty) = root at hpart
  have hdeepm : ∀ d ∈ deep, ∃ k dd, Op.patchK k dd ∈ ld ∧ d = mkLocal (.patchK k dd) := by
    intro d hd
    rw [← hdeep, List.mem_filter] at hd
    obtain ⟨e, he, rfl⟩ := hmemS d hd.1
    rcases mapOp_cases (hmap e he) with hp | ⟨k, dd, rfl⟩
    · have := (entry_of_plain hp).1
      simp [this] at hd
    · exact ⟨k, dd, he, rfl⟩
  have hrootm : ∀ d ∈ root, ∃ e ∈ ld, isPlainMap e = true ∧ d = mkLocal e := by
    intro d hd
    rw [← hroot, List.mem_filter] at hd
    obtain ⟨e, he, rfl⟩ := hmemS d hd.1
    rcases mapOp_cases (hmap e he) with hp | ⟨k, dd, rfl⟩
    · exact ⟨e, he, hp, rfl⟩
    · have := (item_of_patch base hc.2 k dd (heffAll _ he)).1
      simp [this] at hd
  -- the decisions as items / entries
  have hdec : (sortDesc b).map MD.toDecision =
      (deep.map (toItem base)).map DeepItem.dec ++ (root.map toEntry).map (fun e => dLocal [] [e]) := by
    rw [hpart, List.map_append, List.map_map, List.map_map]
    congr 1
    · apply List.map_congr_left
      intro d hd
      obtain ⟨k, dd, he, rfl⟩ := hdeepm d hd
      exact ((item_of_patch base hc.2 k dd (heffAll _ he)).2.2.1).symm
    · apply List.map_congr_left
      intro d hd
      obtain ⟨e, he, hp, rfl⟩ := hrootm d hd
      simp only [Function.comp, (entry_of_plain hp).2.1]
      exact (entry_of_plain hp).2.2
  have hrs : (root.map toEntry).map (fun e => dLocal [] [e]) =
      (root.map (fun d => (dLocal [] [toEntry d], [toEntry d]))).map (·.1) := by
    simp [List.map_map, Function.comp]
  have hrs2 : (root.map (fun d => (dLocal [] [toEntry d], [toEntry d]))).flatMap (·.2) = root.map toEntry := by
    exact flatMap_pair_singleton _ _ root
  rw [hdec, hrs]
  rw [← hX]
  apply apply_onesided_core base hb (deep.map (toItem base)) (root.map (fun d => (dLocal [] [toEntry d], [toEntry d]))) ld
  · intro it hit
    obtain ⟨d, hd, rfl⟩ := List.mem_map.mp hit
    obtain ⟨k, dd, he, rfl⟩ := hdeepm d hd
    exact (item_of_patch base hc.2 k dd (heffAll _ he)).2.1
  · intro o ho o' ho'
    obtain ⟨d, hd, rfl⟩ := List.mem_map.mp ho
    obtain ⟨e, he, hp, rfl⟩ := hrootm d hd
    simp only [List.mem_singleton] at ho'
    subst ho'
    rw [(entry_of_plain hp).2.1]; exact hp
  · intro o ho
    obtain ⟨d, hd, rfl⟩ := List.mem_map.mp ho
    exact dLocal_res _ _
  · intro o ho o' ho'
    obtain ⟨d, hd, rfl⟩ := List.mem_map.mp ho
    obtain ⟨e, he, hp, rfl⟩ := hrootm d hd
    simp only [List.mem_singleton] at ho'
    subst ho'
    rw [(entry_of_plain hp).2.1]; exact heffAll e he
  · -- the entries are those of `ld`
    rw [hrs2]
    have e1 : (deep.map (toItem base)).map DeepItem.entry ++ root.map toEntry = (sortDesc b).map (origE base) := by
      rw [hpart, List.map_append, List.map_map]
      congr 1
      · apply List.map_congr_left
        intro d hd
        obtain ⟨k, dd, he, rfl⟩ := hdeepm d hd
        simp [origE, (item_of_patch base hc.2 k dd (heffAll _ he)).1]
      · apply List.map_congr_left
        intro d hd
        obtain ⟨e, he, hp, rfl⟩ := hrootm d hd
        simp [origE, (entry_of_plain hp).1]
    rw [e1]
    have e2 : ((sortDesc b).map (origE base)).Perm (b.map (origE base)) := hperm.map _
    have e3 : b.map (origE base) = (sortStrs (l.map (·.1))).filterMap (fun k => lookupKV k l) := by
      rw [← hbdef, List.map_filterMap]
      apply filterMap_congr'
      intro k hk
      cases hke : lookupKV k l with
      | none => rfl
      | some e =>
        have he : e ∈ ld := hpermL.subset (List.mem_map_of_mem (f := (·.2)) (lookupKV_mem k e l hke))
        simp only [Option.map_some, Option.some.injEq]
        rcases mapOp_cases (hmap e he) with hp | ⟨k', dd, rfl⟩
        · simp [origE, (entry_of_plain hp).1, (entry_of_plain hp).2.1]
        · have hi := item_of_patch base hc.2 k' dd (heffAll _ he)
          simp [origE, hi.1, hi.2.2.2]
    have e4 : ((sortStrs (l.map (·.1))).filterMap (fun k => lookupKV k l)).Perm (l.map (·.2)) := by
      rw [← values_of_keys l hsk.dk]
      exact (sortStrs_perm _ (sk_keys_nodup l hsk)).filterMap _
    exact (e2.trans (e3 ▸ e4)).trans hpermL |>.symm
  · exact hnd

/-- a well-formed mapping diff consists of mapping entries with pairwise different keys -/
theorem wfObj_shape (a : List (String × J)) : ∀ (d : List Op) (seen : List String), wfObj a d seen = true →
    (∀ e ∈ d, e.isMapOp = true) ∧ (d.map Op.skey).Nodup ∧ ∀ e ∈ d, e.skey ∉ seen
  | [], _, _ => ⟨fun _ h => (nomatch h), List.nodup_nil, fun _ h _ => (nomatch h)⟩
  | e :: es, seen, h => by
      have key : ∀ k, e.skey = k → e.isMapOp = true → seen.contains k = false → wfObj a es (k :: seen) = true →
          (∀ x ∈ e :: es, x.isMapOp = true) ∧ ((e :: es).map Op.skey).Nodup ∧ ∀ x ∈ e :: es, x.skey ∉ seen := by
        intro k hk hm hs hrest
        obtain ⟨r1, r2, r3⟩ := wfObj_shape a es (k :: seen) hrest
        refine ⟨?_, ?_, ?_⟩
        · intro x hx
          simp only [List.mem_cons] at hx
          rcases hx with rfl | hx
          · exact hm
          · exact r1 x hx
        · simp only [List.map_cons, List.nodup_cons]
          refine ⟨?_, r2⟩
          intro hmem
          obtain ⟨x, hx, hxk⟩ := List.mem_map.mp hmem
          have := r3 x hx
          rw [hxk, hk] at this
          exact this List.mem_cons_self
        · intro x hx
          simp only [List.mem_cons] at hx
          rcases hx with rfl | hx
          · rw [hk]; simpa using hs
          · intro hc
            exact r3 x hx (List.mem_cons_of_mem _ hc)
      cases e with
      | add k v =>
        rw [wfObj] at h
        simp only [Bool.and_eq_true, Bool.not_eq_true'] at h
        exact key k rfl rfl h.1.1 h.2
      | remove k =>
        rw [wfObj] at h
        simp only [Bool.and_eq_true, Bool.not_eq_true'] at h
        exact key k rfl rfl h.1.1 h.2
      | replace k v =>
        rw [wfObj] at h
        simp only [Bool.and_eq_true, Bool.not_eq_true'] at h
        exact key k rfl rfl h.1.1 h.2
      | patchK k dd =>
        rw [wfObj] at h
        simp only [Bool.and_eq_true, Bool.not_eq_true'] at h
        exact key k rfl rfl h.1.1.1 h.2
      | addrange _ _ => unfold wfObj at h; simp at h
      | addchars _ _ => unfold wfObj at h; simp at h
      | removerange _ _ => unfold wfObj at h; simp at h
      | patchI _ _ => unfold wfObj at h; simp at h
      | invalid _ => unfold wfObj at h; simp at h

end Nbdime
