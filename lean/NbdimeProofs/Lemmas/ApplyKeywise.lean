import NbdimeProofs.Lemmas.ApplyOneSided
/-
  Key-wise merges of a root object at document level (C05 remote / agreement, C06 "changes under different
  keys", C09 "applying the decisions gives the merged document"):
  if every key of the root object is changed by one side only, or by both sides in the same way, the decisions
  `decide_merge_with_diff` records, applied to base by `apply_decisions`, give base patched with both diffs.
  Generalises `ApplyOneSided` (which is the case `rd = []`): `mkSide` builds the three kinds of decisions
  (`onesided` local / remote, `agreement`), `apply_entries` is the abstract statement about any list of decisions
  that each stand for one entry of a mapping diff.
-/
set_option linter.unusedSimpArgs false
set_option linter.unusedVariables false
namespace Nbdime
open Nbdime.Abs Nbdime.Merge

/-- which side(s) made the change a decision records -/
inductive Side where
  | loc | rem | both
  deriving DecidableEq, Repr

def Side.action : Side → String
  | .loc => "local" | .rem => "remote" | .both => "either"

def sideDiffs (s : Side) (d : List Op) : List (Option (List Op)) :=
  match s with
  | .loc => [some d, none, none]
  | .rem => [none, some d, none]
  | .both => [some d, some d, none]

/-- the decision `onesided` / `agreement` record for a single entry `e` at the root -/
def mkSide (s : Side) (e : Op) : MD :=
  let (p, ds) := ensureCommonPath pathFuel [] (sideDiffs s [e])
  { path := p, action := s.action, conflict := false, localDiff := (ds[0]?).getD none, remoteDiff := (ds[1]?).getD none,
    customDiff := (ds[2]?).getD none, strategy := none, similarInsert := none }

theorem mkSide_loc (e : Op) : mkSide .loc e = mkLocal e := rfl

/-- `ensure_common_path` on the diffs of one entry: the path grows by `suffix`, every present diff shrinks to `d'`,
    and pushing `d'` back along `suffix` gives the original diff -/
theorem ensure_side (s : Side) : ∀ (fuel : Nat) (path : List PKey) (d : List Op),
    ∃ suffix d', ensureCommonPath fuel path (sideDiffs s d) = (path ++ suffix, sideDiffs s d') ∧
      pushPath suffix d' = d
  | 0, path, d => ⟨[], d, by simp [ensureCommonPath], rfl⟩
  | fuel + 1, path, d => by
      cases d with
      | nil => exact ⟨[], [], by cases s <;> simp [sideDiffs, ensureCommonPath, popPath, popPathAux], rfl⟩
      | cons e rest =>
        cases rest with
        | cons e2 r2 =>
          exact ⟨[], e :: e2 :: r2, by cases s <;> simp [sideDiffs, ensureCommonPath, popPath, popPathAux], rfl⟩
        | nil =>
          cases hp : patchParts e with
          | none => exact ⟨[], [e], by cases s <;> simp [sideDiffs, ensureCommonPath, popPath, popPathAux, hp], rfl⟩
          | some kd =>
            obtain ⟨k, dd⟩ := kd
            obtain ⟨suffix, d', h1, h2⟩ := ensure_side s fuel (path ++ [k]) dd
            refine ⟨k :: suffix, d', ?_, ?_⟩
            · have hpop : popPath (sideDiffs s [e]) = some (k, sideDiffs s dd) := by
                cases s <;> simp [sideDiffs, popPath, popPathAux, hp]
              simp only [ensureCommonPath, hpop]
              rw [h1]; simp [List.append_assoc]
            · show [opPatchKey k (pushPath suffix d')] = [e]
              rw [h2, patchParts_eq hp]

/-- the local / remote / custom diffs of a decision built from `sideDiffs s x` -/
def sideMD (s : Side) (q : List PKey) (x : List Op) : MD :=
  { path := q, action := s.action, conflict := false,
    localDiff := match s with | .rem => none | _ => some x,
    remoteDiff := match s with | .loc => none | _ => some x }

theorem mkSide_plain (s : Side) {e : Op} (h : isPlainMap e = true) : mkSide s e = sideMD s [] [e] := by
  obtain ⟨n, hn⟩ := pathFuel_succ
  have hp : patchParts e = none := by cases e <;> simp_all [isPlainMap, patchParts]
  cases s <;> simp [mkSide, sideMD, sideDiffs, hn, ensureCommonPath, popPath, popPathAux, hp]

theorem mkSide_patch (s : Side) (k : String) (dd : List Op) :
    ∃ q' x, mkSide s (.patchK k dd) = sideMD s (PKey.s k :: q') x ∧ pushPath q' x = dd := by
  obtain ⟨n, hn⟩ := pathFuel_succ
  obtain ⟨suffix, d', h1, h2⟩ := ensure_side s n [PKey.s k] dd
  refine ⟨suffix, d', ?_, h2⟩
  have hpop : popPath (sideDiffs s [.patchK k dd]) = some (PKey.s k, sideDiffs s dd) := by
    cases s <;> simp [sideDiffs, popPath, popPathAux, patchParts]
  simp only [mkSide, hn, ensureCommonPath, hpop, List.nil_append]
  rw [h1]
  cases s <;> simp [sideMD, sideDiffs]

/-- the diff a key-wise decision applies -/
def Merge.MD.sideDiff (d : MD) : List Op :=
  if d.action == "remote" then d.remoteDiff.getD [] else d.localDiff.getD []

theorem sideMD_sideDiff (s : Side) (q : List PKey) (x : List Op) : (sideMD s q x).sideDiff = x := by
  cases s <;> simp [sideMD, MD.sideDiff, Side.action] <;> decide

theorem resolve_remote (base : J) (d : Decision) (x : List Op) (ha : d.action = "remote") (hl : d.remoteDiff = some x) :
    resolveAction base d = .ok x := by
  rw [resolveAction_leaf base d (keyBased_false_of d (by simp [ha]) (by simp [ha]) (by simp [ha]))]
  unfold resolveLeaf
  simp [ha, hl]

theorem resolve_either (base : J) (d : Decision) (x : List Op) (ha : d.action = "either") (hl : d.localDiff = some x) :
    resolveAction base d = .ok x := by
  rw [resolveAction_leaf base d (keyBased_false_of d (by simp [ha]) (by simp [ha]) (by simp [ha]))]
  unfold resolveLeaf
  simp [ha, hl]

theorem sideMD_res (s : Side) (q : List PKey) (x : List Op) : Res (sideMD s q x).toDecision q x := by
  cases s
  · exact ⟨rfl, by show ("local" == "clear_all") = false; decide, fun base => resolve_local base _ x rfl rfl⟩
  · exact ⟨rfl, by show ("remote" == "clear_all") = false; decide, fun base => resolve_remote base _ x rfl rfl⟩
  · exact ⟨rfl, by show ("either" == "clear_all") = false; decide, fun base => resolve_either base _ x rfl rfl⟩

/-! ### any list of decisions that each stand for one entry of a mapping diff -/

/-- the decision `d` stands for the mapping entries `es` (one entry, or none): plain entries at the root, or the entry
    `patch k dd` pushed down to its common path -/
def EntL (d : MD) (es : List Op) : Prop :=
  ((∀ o ∈ es, isPlainMap o = true) ∧ d.path = [] ∧ Res d.toDecision [] es) ∨
  (∃ k q' x, d.path = PKey.s k :: q' ∧ es = [.patchK k (pushPath q' x)] ∧ Res d.toDecision (PKey.s k :: q') x)

/-- the decision `d` stands for the mapping entry `e` -/
def Ent (d : MD) (e : Op) : Prop :=
  (isPlainMap e = true ∧ d.path = [] ∧ Res d.toDecision [] [e]) ∨
  (∃ k q' x, d.path = PKey.s k :: q' ∧ e = .patchK k (pushPath q' x) ∧ Res d.toDecision (PKey.s k :: q') x)

theorem Ent.toL {d : MD} {e : Op} (h : Ent d e) : EntL d [e] := by
  rcases h with ⟨h1, h2, h3⟩ | ⟨k, q', x, h1, h2, h3⟩
  · exact Or.inl ⟨fun o ho => by simp at ho; subst ho; exact h1, h2, h3⟩
  · exact Or.inr ⟨k, q', x, h1, by rw [h2], h3⟩

theorem mkSide_ent (s : Side) {e : Op} (h : e.isMapOp = true) : Ent (mkSide s e) e := by
  rcases mapOp_cases h with hp | ⟨k, dd, rfl⟩
  · rw [mkSide_plain s hp]
    exact Or.inl ⟨hp, rfl, sideMD_res s [] [e]⟩
  · obtain ⟨q', x, hmk, hpush⟩ := mkSide_patch s k dd
    rw [hmk]
    exact Or.inr ⟨k, q', x, rfl, by rw [hpush], sideMD_res s _ x⟩

theorem entL_deep (base : List (String × J)) (hc : J.canonicalKvs base = true) {d : MD} {es : List Op} (h : EntL d es)
    (hne : d.path.isEmpty = false) (heff : ∀ o ∈ es, (mapEff base o).isSome = true) :
    ∃ it : DeepItem, it.ok base ∧ it.dec = d.toDecision ∧ es = [it.entry] := by
  rcases h with ⟨_, hp, _⟩ | ⟨k, q', x, hp, rfl, hres⟩
  · simp [hp] at hne
  · have heff' := heff _ List.mem_cons_self
    cases hv : lookupKV k base with
    | none => simp [mapEff, hv] at heff'
    | some v =>
      cases hpp : patch v (pushPath q' x) with
      | error er => simp [mapEff, hv, hpp] at heff'
      | ok pv =>
        have cv : v.canonical = true := canonicalKvs_mem base hc _ (lookupKV_mem k v base hv)
        exact ⟨⟨k, q', x, v, pv, d.toDecision⟩, ⟨hv, cv, hpp, hres⟩, rfl, rfl⟩

theorem entL_root {d : MD} {es : List Op} (h : EntL d es) (hemp : d.path.isEmpty = true) :
    (∀ o ∈ es, isPlainMap o = true) ∧ Res d.toDecision [] es := by
  rcases h with ⟨h1, _, h3⟩ | ⟨k, q', x, hp, _, _⟩
  · exact ⟨h1, h3⟩
  · simp [hp] at hemp

/-- pull a list of items back along a list of decisions -/
theorem items_exist (base : List (String × J)) (hc : J.canonicalKvs base = true) (f : MD → List Op) : ∀ (deep : List MD),
    (∀ d ∈ deep, EntL d (f d) ∧ d.path.isEmpty = false ∧ ∀ o ∈ f d, (mapEff base o).isSome = true) →
    ∃ items : List DeepItem, (∀ it ∈ items, it.ok base) ∧ items.map DeepItem.dec = deep.map MD.toDecision ∧
      items.map DeepItem.entry = deep.flatMap f
  | [], _ => ⟨[], fun _ h => (nomatch h), rfl, rfl⟩
  | d :: rest, h => by
      obtain ⟨h1, h2, h3⟩ := h d List.mem_cons_self
      obtain ⟨it, i1, i2, i3⟩ := entL_deep base hc h1 h2 h3
      obtain ⟨items, j1, j2, j3⟩ := items_exist base hc f rest (fun x hx => h x (List.mem_cons_of_mem _ hx))
      refine ⟨it :: items, ?_, ?_, ?_⟩
      · intro x hx
        rcases List.mem_cons.mp hx with rfl | hx
        · exact i1
        · exact j1 x hx
      · simp [i2, j2]
      · simp [i3, j3, List.flatMap_cons]

theorem flatMap_pair_snd {α β γ} (f : α → β) (g : α → List γ) : ∀ (l : List α),
    (l.map (fun d => (f d, g d))).flatMap (·.2) = l.flatMap g
  | [] => rfl
  | x :: xs => by
      simp only [List.map_cons, List.flatMap_cons]
      rw [flatMap_pair_snd f g xs]

/-- **abstract core**: a list `b` of decisions that stand, each for at most one entry, for the entries of a mapping diff
    with pairwise different keys (every entry applicable to `base`): sorted the way `validated` sorts and applied by
    `apply_decisions`, they patch `base` with that diff -/
theorem apply_entriesL (base : List (String × J)) (hc : (J.obj base).canonical = true) (b : List MD) (f : MD → List Op)
    (ld : List Op) (hent : ∀ d ∈ b, EntL d (f d)) (heff : ∀ d ∈ b, ∀ o ∈ f d, (mapEff base o).isSome = true)
    (hperm : (b.flatMap f).Perm ld) (hnd : (ld.map Op.skey).Nodup) :
    applyDecisions (.obj base) ((sortDesc b).map MD.toDecision) = patch (.obj base) ld := by
  simp only [J.canonical, Bool.and_eq_true] at hc
  have hb : SK base := keysSorted_sk base hc.1
  have hdesc := sortDesc_desc b
  have hp := sortDesc_perm b
  have hpart := desc_partition (sortDesc b) hdesc
  generalize hdeep : (sortDesc b).filter (fun d => !d.path.isEmpty) = deep at hpart
  generalize hroot : (sortDesc b).filter (fun d => d.path.isEmpty) = root at hpart
  have hdeepm : ∀ d ∈ deep, EntL d (f d) ∧ d.path.isEmpty = false ∧ ∀ o ∈ f d, (mapEff base o).isSome = true := by
    intro d hd
    rw [← hdeep, List.mem_filter] at hd
    have hm := hp.subset hd.1
    exact ⟨hent d hm, by simpa using hd.2, heff d hm⟩
  have hrootm : ∀ d ∈ root, (∀ o ∈ f d, isPlainMap o = true) ∧ Res d.toDecision [] (f d) ∧
      ∀ o ∈ f d, (mapEff base o).isSome = true := by
    intro d hd
    rw [← hroot, List.mem_filter] at hd
    have hm := hp.subset hd.1
    obtain ⟨h1, h2⟩ := entL_root (hent d hm) hd.2
    exact ⟨h1, h2, heff d hm⟩
  obtain ⟨items, i1, i2, i3⟩ := items_exist base hc.2 f deep hdeepm
  have hdec : (sortDesc b).map MD.toDecision =
      items.map DeepItem.dec ++ (root.map (fun d => (d.toDecision, f d))).map (·.1) := by
    rw [hpart, List.map_append, i2]
    simp [List.map_map, Function.comp]
  rw [hdec]
  apply apply_onesided_core base hb items (root.map (fun d => (d.toDecision, f d))) ld i1
  · intro p hp'
    obtain ⟨d, hd, rfl⟩ := List.mem_map.mp hp'
    exact (hrootm d hd).1
  · intro p hp'
    obtain ⟨d, hd, rfl⟩ := List.mem_map.mp hp'
    exact (hrootm d hd).2.1
  · intro p hp'
    obtain ⟨d, hd, rfl⟩ := List.mem_map.mp hp'
    exact (hrootm d hd).2.2
  · have e1 : items.map DeepItem.entry ++ (root.map (fun d => (d.toDecision, f d))).flatMap (·.2) = (sortDesc b).flatMap f := by
      rw [hpart, List.flatMap_append, i3, flatMap_pair_snd]
    rw [e1]
    exact ((hp.flatMap_right f).trans hperm).symm
  · exact hnd

theorem flatMap_singleton' {α β} (f : α → β) : ∀ (l : List α), l.flatMap (fun d => [f d]) = l.map f
  | [] => rfl
  | x :: xs => by simp only [List.flatMap_cons, List.map_cons, List.singleton_append]; rw [flatMap_singleton' f xs]

/-- the one-entry-per-decision form -/
theorem apply_entries (base : List (String × J)) (hc : (J.obj base).canonical = true) (b : List MD) (f : MD → Op)
    (ld : List Op) (hent : ∀ d ∈ b, Ent d (f d)) (heff : ∀ d ∈ b, (mapEff base (f d)).isSome = true)
    (hperm : (b.map f).Perm ld) (hnd : (ld.map Op.skey).Nodup) :
    applyDecisions (.obj base) ((sortDesc b).map MD.toDecision) = patch (.obj base) ld :=
  apply_entriesL base hc b (fun d => [f d]) ld (fun d hd => (hent d hd).toL)
    (fun d hd o ho => by simp at ho; subst ho; exact heff d hd)
    (by rw [flatMap_singleton']; exact hperm) hnd

/-! ### the decisions `_merge_dicts` records at the root when the two diffs agree on every shared key -/

/-- the decision recorded for key `k` -/
def keyDec (l r : List (String × Op)) (k : String) : Option MD :=
  match lookupKV k l, lookupKV k r with
  | some e, none => some (mkSide .loc e)
  | none, some e => some (mkSide .rem e)
  | some e, some _ => some (mkSide .both e)
  | none, none => none

theorem onesided_single_remote (b : B) (e : Op) : onesided b [] none (some [e]) = .ok (b ++ [mkSide .rem e]) := by
  simp [onesided, nonEmpty, addDecision, mkSide, sideDiffs, Side.action]

theorem agreement_single (b : B) (e : Op) : agreement b [] (some [e]) (some [e]) = .ok (b ++ [mkSide .both e]) := by
  have : Op.pyEqList [e] [e] = true := opPyEqList_refl [e]
  simp [agreement, nonEmpty, optPyEq, this, addDecision, mkSide, sideDiffs, Side.action]

theorem fold_onekeys (l r : List (String × Op)) : ∀ (keys : List String) (b : B),
    (∀ k ∈ keys, (lookupKV k l).isSome ≠ (lookupKV k r).isSome) →
    keys.foldlM (fun (b : B) k => onesided b [] ((lookupKV k l).map (fun e => [e])) ((lookupKV k r).map (fun e => [e]))) b =
      .ok (b ++ keys.filterMap (keyDec l r))
  | [], b, _ => by simp [pure, Except.pure]
  | k :: rest, b, hk => by
      have hs := hk k List.mem_cons_self
      have ih := fun b' => fold_onekeys l r rest b' (fun k' hk' => hk k' (List.mem_cons_of_mem _ hk'))
      cases hl : lookupKV k l with
      | none =>
        cases hr : lookupKV k r with
        | none => simp [hl, hr] at hs
        | some e =>
          simp only [List.foldlM_cons, hl, hr, Option.map_some, Option.map_none, onesided_single_remote, bind, Except.bind,
            List.filterMap_cons, keyDec]
          rw [ih]; simp [List.append_assoc]
      | some e =>
        cases hr : lookupKV k r with
        | some e' => simp [hl, hr] at hs
        | none =>
          simp only [List.foldlM_cons, hl, hr, Option.map_some, Option.map_none, onesided_single, bind, Except.bind,
            List.filterMap_cons, keyDec, mkSide_loc]
          rw [ih]; simp [List.append_assoc]

theorem dictBoth_same_exact (E : Env) (rec : Rec) (inStr : Bool) (base : List (String × J)) (spath : String) (b : B)
    (key : String) (e : Op) (he : e.isMapOp = true) :
    dictBoth E rec inStr base [] spath b key e e = .ok (b ++ [mkSide .both e]) := by
  have hpd : isPD e = none := by cases e <;> simp_all [Op.isMapOp, isPD]
  unfold dictBoth
  simp only [hpd, Option.isSome_none, Bool.false_eq_true, if_false, bind, Except.bind, pure, Except.pure]
  by_cases hr : isRemoveOp e = true
  · simp only [hr, Bool.or_self, Bool.and_self, if_true]
    exact agreement_single b e
  · have hr' : isRemoveOp e = false := by simpa using hr
    simp only [hr', Bool.or_self, Bool.false_eq_true, if_false, bne_self_eq_false, opPyEq_refl, if_true]
    exact agreement_single b e

theorem fold_bothkeys (E : Env) (rec : Rec) (inStr : Bool) (base : List (String × J)) (spath : String)
    (l r : List (String × Op)) (g : B → String → Except Err B)
    (hg : ∀ b k e, lookupKV k l = some e → lookupKV k r = some e → g b k = dictBoth E rec inStr base [] spath b k e e) :
    ∀ (keys : List String) (b : B),
    (∀ k ∈ keys, ∃ e, lookupKV k l = some e ∧ lookupKV k r = some e ∧ e.isMapOp = true) →
    keys.foldlM g b = .ok (b ++ keys.filterMap (keyDec l r))
  | [], b, _ => by simp [pure, Except.pure]
  | k :: rest, b, hk => by
      obtain ⟨e, h1, h2, h3⟩ := hk k List.mem_cons_self
      simp only [List.foldlM_cons, hg b k e h1 h2, dictBoth_same_exact E rec inStr base spath b k e h3, bind, Except.bind,
        List.filterMap_cons, keyDec, h1, h2]
      rw [fold_bothkeys E rec inStr base spath l r g hg rest _ (fun k' hk' => hk k' (List.mem_cons_of_mem _ hk'))]
      simp [List.append_assoc]

theorem mkSide_noconf (s : Side) (e : Op) : (mkSide s e).conflict = false := by simp [mkSide]
theorem mkSide_nostrat (s : Side) (e : Op) : (mkSide s e).strategy = none := by simp [mkSide]

theorem keyDec_mem {l r : List (String × Op)} {k : String} {d : MD} (h : keyDec l r k = some d) :
    ∃ s e, d = mkSide s e ∧ (lookupKV k l = some e ∨ (lookupKV k l = none ∧ lookupKV k r = some e)) := by
  unfold keyDec at h
  split at h
  · rename_i e hl hr; cases h; exact ⟨.loc, e, rfl, Or.inl hl⟩
  · rename_i e hl hr; cases h; exact ⟨.rem, e, rfl, Or.inr ⟨hl, hr⟩⟩
  · rename_i e e' hl hr; cases h; exact ⟨.both, e, rfl, Or.inl hl⟩
  · cases h

/-- the keys `_merge_dicts` visits: first the keys changed on one side, then the keys changed on both -/
def oneKeys (l r : List (String × Op)) : List String :=
  sortStrs ((l.map (·.1)).filter (fun k => !(r.map (·.1)).contains k) ++ (r.map (·.1)).filter (fun k => !(l.map (·.1)).contains k))
def bothKeys (l r : List (String × Op)) : List String :=
  sortStrs ((l.map (·.1)).filter (fun k => (r.map (·.1)).contains k))

/-- the decisions of `_merge_dicts` at the root when both sides agree on every shared key, exactly -/
theorem mergeDicts_keywise_exact (E : Env) (rec : Rec) (inStr : Bool) (base : List (String × J)) (ld rd : List Op)
    (l r : List (String × Op)) (hl : dictBased ld = .ok l) (hr : dictBased rd = .ok r)
    (hagree : ∀ k el er, lookupKV k l = some el → lookupKV k r = some er → el = er)
    (hmap : ∀ k e, lookupKV k l = some e → e.isMapOp = true) :
    mergeDicts E rec inStr base ld rd [] =
      .ok ((oneKeys l r).filterMap (keyDec l r) ++ (bothKeys l r).filterMap (keyDec l r)) := by
  unfold mergeDicts
  simp only [hl, hr, bind, Except.bind]
  have h1 : ∀ k ∈ oneKeys l r, (lookupKV k l).isSome ≠ (lookupKV k r).isSome := by
    intro k hk
    have hk' := (mem_sortStrs k _).mp hk
    simp only [List.mem_append, List.mem_filter, Bool.not_eq_true', List.contains_eq_mem, decide_eq_false_iff_not] at hk'
    rcases hk' with ⟨a, b⟩ | ⟨a, b⟩
    · have ha := (mem_keys_iff k l).mp a
      have hb : (lookupKV k r).isSome = false := by
        cases hh : (lookupKV k r).isSome with
        | false => rfl
        | true => exact absurd ((mem_keys_iff k r).mpr hh) b
      rw [ha, hb]; decide
    · have ha := (mem_keys_iff k r).mp a
      have hb : (lookupKV k l).isSome = false := by
        cases hh : (lookupKV k l).isSome with
        | false => rfl
        | true => exact absurd ((mem_keys_iff k l).mpr hh) b
      rw [ha, hb]; decide
  have h2 : ∀ k ∈ bothKeys l r, ∃ e, lookupKV k l = some e ∧ lookupKV k r = some e ∧ e.isMapOp = true := by
    intro k hk
    have hk' := (mem_sortStrs k _).mp hk
    simp only [List.mem_filter, List.contains_eq_mem, decide_eq_true_eq] at hk'
    obtain ⟨a, b⟩ := hk'
    have ha := (mem_keys_iff k l).mp a
    have hb := (mem_keys_iff k r).mp b
    cases hle : lookupKV k l with
    | none => simp [hle] at ha
    | some el =>
      cases hre : lookupKV k r with
      | none => simp [hre] at hb
      | some er =>
        have := hagree k el er hle hre
        subst this
        exact ⟨el, rfl, rfl, hmap k el hle⟩
  have f1 := fold_onekeys l r (oneKeys l r) [] h1
  unfold oneKeys at f1
  rw [f1]
  simp only [List.nil_append]
  have f2 := fun g hg => fold_bothkeys E rec inStr base (starPath []) l r g hg (bothKeys l r)
    ((oneKeys l r).filterMap (keyDec l r)) h2
  unfold bothKeys oneKeys at f2
  rw [f2 _ (fun b k e ha hb => by simp only [ha, hb])]
  simp only [pure, Except.pure]
  rw [resolveDict_noconf]
  · rfl
  · unfold hasConflicted
    rw [List.any_eq_false]
    intro d hd
    simp only [List.mem_append, List.mem_filterMap] at hd
    rcases hd with ⟨k, _, hk⟩ | ⟨k, _, hk⟩ <;>
    · obtain ⟨s, e, rfl, _⟩ := keyDec_mem hk
      simp [mkSide_noconf]

/-! ### the document-level theorem -/

/-- the mapping entry a key-wise decision stands for -/
def entryOf (d : MD) : Op :=
  match d.path with
  | [] => (match d.sideDiff with
      | [e] => e
      | _ => .invalid "")
  | .s k :: q' => .patchK k (pushPath q' d.sideDiff)
  | _ => .invalid ""

theorem entryOf_mkSide (s : Side) {e : Op} (h : e.isMapOp = true) : entryOf (mkSide s e) = e := by
  rcases mapOp_cases h with hp | ⟨k, dd, rfl⟩
  · rw [mkSide_plain s hp]
    have h1 : (sideMD s [] [e]).path = [] := rfl
    simp only [entryOf, h1, sideMD_sideDiff]
  · obtain ⟨q', x, hmk, hpush⟩ := mkSide_patch s k dd
    rw [hmk]
    simp only [entryOf, sideMD_sideDiff]
    have : (sideMD s (PKey.s k :: q') x).path = PKey.s k :: q' := rfl
    simp only [this, hpush]

theorem nodup_of_map_nodup {α β} (f : α → β) : ∀ (l : List α), (l.map f).Nodup → l.Nodup
  | [], _ => List.nodup_nil
  | a :: rest, h => by
      simp only [List.map_cons, List.nodup_cons] at h ⊢
      exact ⟨fun hm => h.1 (List.mem_map_of_mem hm), nodup_of_map_nodup f rest h.2⟩

theorem inj_of_map_nodup {α β} (f : α → β) : ∀ (l : List α), (l.map f).Nodup → ∀ a ∈ l, ∀ b ∈ l, f a = f b → a = b
  | [], _, a, ha, _, _, _ => nomatch ha
  | x :: rest, h, a, ha, b, hb, hab => by
      simp only [List.map_cons, List.nodup_cons] at h
      rcases List.mem_cons.mp ha with rfl | ha' <;> rcases List.mem_cons.mp hb with rfl | hb'
      · rfl
      · exact absurd (hab ▸ List.mem_map_of_mem hb') h.1
      · exact absurd (hab ▸ List.mem_map_of_mem ha') h.1
      · exact inj_of_map_nodup f rest h.2 a ha' b hb' hab

theorem filterMap_nodup {α β} (g : α → Option β) (key : β → α) (hg : ∀ k a, g k = some a → key a = k) :
    ∀ (keys : List α), keys.Nodup → (keys.filterMap g).Nodup
  | [], _ => by simp
  | k :: rest, h => by
      simp only [List.nodup_cons] at h
      have ih := filterMap_nodup g key hg rest h.2
      simp only [List.filterMap_cons]
      cases hk : g k with
      | none => simpa using ih
      | some a =>
        simp only [List.nodup_cons]
        refine ⟨?_, ih⟩
        intro hm
        obtain ⟨k', hk', hka⟩ := List.mem_filterMap.mp hm
        have e1 := hg k a hk
        have e2 := hg k' a hka
        rw [← e1, e2] at h
        exact h.1 hk'

/-- the table `as_dict_based_diff` builds holds exactly the entries of the diff, under their keys -/
theorem table_lookup {ld : List Op} {l : List (String × Op)} (hsk : SK l) (hperm : (l.map (·.2)).Perm ld)
    (hkey : ∀ kv ∈ l, kv.2.skey = kv.1) :
    (∀ k e, lookupKV k l = some e → e ∈ ld ∧ e.skey = k) ∧ (∀ e ∈ ld, lookupKV e.skey l = some e) ∧
    (∀ k, lookupKV k l = none → k ∉ ld.map Op.skey) := by
  refine ⟨?_, ?_, ?_⟩
  · intro k e h
    have hm := lookupKV_mem k e l h
    exact ⟨hperm.subset (List.mem_map_of_mem (f := (·.2)) hm), hkey _ hm⟩
  · intro e he
    obtain ⟨kv, hkv, rfl⟩ := List.mem_map.mp (hperm.symm.subset he)
    have := hkey kv hkv
    rw [this]
    exact lookupKV_of_mem kv.1 kv.2 l hsk.dk hkv
  · intro k hk hm
    obtain ⟨e, he, rfl⟩ := List.mem_map.mp hm
    obtain ⟨kv, hkv, rfl⟩ := List.mem_map.mp (hperm.symm.subset he)
    have := hkey kv hkv
    rw [this, lookupKV_of_mem kv.1 kv.2 l hsk.dk hkv] at hk
    cases hk

/-- the entries of the merged diff: the local diff and the remote entries under the other keys -/
def unionDiff (ld rd : List Op) : List Op := ld ++ rd.filter (fun e => !(ld.map Op.skey).contains e.skey)

/-- what a key-wise merge decides, exactly: `ds` is the sorted list of one `mkSide` decision per entry of the merged
    diff; a local-only decision stands for an entry of `ld` under a key `rd` does not touch, a remote-only one for an
    entry of `rd` under a key `ld` does not touch, an agreed one for an entry of both -/
theorem keywise_decisions (E : Env) (base : List (String × J)) (ld rd : List Op) (ds : List MD)
    (hmapL : ∀ e ∈ ld, e.isMapOp = true) (hndL : (ld.map Op.skey).Nodup)
    (hmapR : ∀ e ∈ rd, e.isMapOp = true) (hndR : (rd.map Op.skey).Nodup)
    (hagree : ∀ el ∈ ld, ∀ er ∈ rd, el.skey = er.skey → el = er)
    (h : decideMerge E (.obj base) ld rd = .ok ds) :
    ∃ b, ds = sortDesc b ∧
      (∀ d ∈ b, ∃ s e, d = mkSide s e ∧ e ∈ unionDiff ld rd ∧
        (s = .loc → e ∈ ld ∧ e.skey ∉ rd.map Op.skey) ∧ (s = .rem → e ∈ rd ∧ e.skey ∉ ld.map Op.skey) ∧
        (s = .both → e ∈ ld ∧ e ∈ rd)) ∧
      (b.map entryOf).Perm (unionDiff ld rd) ∧ ((unionDiff ld rd).map Op.skey).Nodup ∧
      (∀ e ∈ unionDiff ld rd, e.isMapOp = true) := by
  obtain ⟨l, hl, hskL, hpermL, hkeyL⟩ := dictBased_nodup ld hmapL hndL
  obtain ⟨r, hr, hskR, hpermR, hkeyR⟩ := dictBased_nodup rd hmapR hndR
  obtain ⟨tl1, tl2, tl3⟩ := table_lookup hskL hpermL hkeyL
  obtain ⟨tr1, tr2, tr3⟩ := table_lookup hskR hpermR hkeyR
  generalize hU : unionDiff ld rd = U
  unfold unionDiff at hU
  -- the decision list
  unfold decideMerge at h
  obtain ⟨n, hn⟩ := bigFuel_succ
  rw [hn] at h
  have hag' : ∀ k el er, lookupKV k l = some el → lookupKV k r = some er → el = er :=
    fun k el er h1 h2 => hagree el (tl1 k el h1).1 er (tr1 k er h2).1 (by rw [(tl1 k el h1).2, (tr1 k er h2).2])
  have hexact := mergeDicts_keywise_exact E (mergeF E n) false base ld rd l r hl hr hag'
    (fun k e h1 => hmapL e (tl1 k e h1).1)
  simp only [mergeF, hexact, bind, Except.bind] at h
  generalize hbdef : (oneKeys l r).filterMap (keyDec l r) ++ (bothKeys l r).filterMap (keyDec l r) = b at h
  have memU_of_l : ∀ k e, lookupKV k l = some e → e ∈ U := by
    intro k e h1; rw [← hU]; exact List.mem_append_left _ (tl1 k e h1).1
  have memU_of_r : ∀ k e, lookupKV k l = none → lookupKV k r = some e → e ∈ U := by
    intro k e h1 h2
    rw [← hU]
    apply List.mem_append_right
    rw [List.mem_filter]
    refine ⟨(tr1 k e h2).1, ?_⟩
    have := tl3 k h1
    rw [(tr1 k e h2).2]
    simpa using this
  have hb0 : ∀ d ∈ b, ∃ s e, d = mkSide s e ∧ e ∈ U ∧
      (s = .loc → e ∈ ld ∧ e.skey ∉ rd.map Op.skey) ∧ (s = .rem → e ∈ rd ∧ e.skey ∉ ld.map Op.skey) ∧
      (s = .both → e ∈ ld ∧ e ∈ rd) := by
    intro d hd
    rw [← hbdef] at hd
    simp only [List.mem_append, List.mem_filterMap] at hd
    have : ∃ k, keyDec l r k = some d := by
      rcases hd with ⟨k, _, hk⟩ | ⟨k, _, hk⟩ <;> exact ⟨k, hk⟩
    obtain ⟨k, hk⟩ := this
    unfold keyDec at hk
    split at hk
    · rename_i e h1 h2
      cases hk
      exact ⟨.loc, e, rfl, memU_of_l k e h1, fun _ => ⟨(tl1 k e h1).1, by rw [(tl1 k e h1).2]; exact tr3 k h2⟩,
        (fun hc => nomatch hc), (fun hc => nomatch hc)⟩
    · rename_i e h1 h2
      cases hk
      exact ⟨.rem, e, rfl, memU_of_r k e h1 h2, (fun hc => nomatch hc),
        fun _ => ⟨(tr1 k e h2).1, by rw [(tr1 k e h2).2]; exact tl3 k h1⟩, (fun hc => nomatch hc)⟩
    · rename_i e e' h1 h2
      cases hk
      have := hag' k e e' h1 h2
      subst this
      exact ⟨.both, e, rfl, memU_of_l k e h1, (fun hc => nomatch hc), (fun hc => nomatch hc),
        fun _ => ⟨(tl1 k e h1).1, (tr1 k e h2).1⟩⟩
    · cases hk
  have hUmap : ∀ e ∈ U, e.isMapOp = true := by
    intro e he
    rw [← hU] at he
    rcases List.mem_append.mp he with h1 | h1
    · exact hmapL e h1
    · exact hmapR e (List.mem_filter.mp h1).1
  have hnc : hasConflicted b = false := by
    unfold hasConflicted
    rw [List.any_eq_false]
    intro d hd
    obtain ⟨s, e, rfl, _⟩ := hb0 d hd
    simp [mkSide_noconf]
  rw [resolveGeneric_noconf hnc] at h
  simp only [pure, Except.pure, Except.ok.injEq] at h
  have hstrip : b.map (fun d => ({ d with strategy := none } : MD)) = b := by
    have : ∀ d ∈ b, ({ d with strategy := none } : MD) = d := by
      intro d hd
      obtain ⟨s, e, rfl, _⟩ := hb0 d hd
      simp [mkSide]
    rw [List.map_congr_left this]; simp
  unfold validated at h
  rw [hstrip] at h
  -- keys of U
  have hndU : (U.map Op.skey).Nodup := by
    rw [← hU, List.map_append, List.nodup_append]
    refine ⟨hndL, (List.filter_sublist.map Op.skey).nodup hndR, ?_⟩
    intro a ha b' hb' hab
    obtain ⟨e, he, rfl⟩ := List.mem_map.mp hb'
    have := (List.mem_filter.mp he).2
    simp only [Bool.not_eq_true', List.contains_eq_mem, decide_eq_false_iff_not] at this
    exact this (hab ▸ ha)
  refine ⟨b, h.symm, hb0, ?_, hndU, hUmap⟩
  -- same entries
  have hkl : (l.map (·.1)).Nodup := sk_keys_nodup l hskL
  have hkr : (r.map (·.1)).Nodup := sk_keys_nodup r hskR
  have hone : (oneKeys l r).Nodup := by
    unfold oneKeys
    have hin : ((l.map (·.1)).filter (fun k => !(r.map (·.1)).contains k) ++
        (r.map (·.1)).filter (fun k => !(l.map (·.1)).contains k)).Nodup := by
      rw [List.nodup_append]
      refine ⟨List.filter_sublist.nodup hkl, List.filter_sublist.nodup hkr, ?_⟩
      intro a ha b' hb' hab
      subst hab
      have h1 := (List.mem_filter.mp ha).1
      have h2 := (List.mem_filter.mp hb').2
      simp only [Bool.not_eq_true', List.contains_eq_mem, decide_eq_false_iff_not] at h2
      exact h2 h1
    exact (sortStrs_perm _ hin).nodup_iff.mpr hin
  have hboth : (bothKeys l r).Nodup := by
    unfold bothKeys
    have hin : ((l.map (·.1)).filter (fun k => (r.map (·.1)).contains k)).Nodup := List.filter_sublist.nodup hkl
    exact (sortStrs_perm _ hin).nodup_iff.mpr hin
  have hmemOne : ∀ k, k ∈ oneKeys l r ↔ ((lookupKV k l).isSome ≠ (lookupKV k r).isSome) := by
    intro k
    unfold oneKeys
    rw [mem_sortStrs]
    simp only [List.mem_append, List.mem_filter, Bool.not_eq_true', List.contains_eq_mem, decide_eq_false_iff_not,
      mem_keys_iff]
    cases (lookupKV k l).isSome <;> cases (lookupKV k r).isSome <;> simp
  have hmemBoth : ∀ k, k ∈ bothKeys l r ↔ ((lookupKV k l).isSome = true ∧ (lookupKV k r).isSome = true) := by
    intro k
    unfold bothKeys
    rw [mem_sortStrs]
    simp only [List.mem_filter, List.contains_eq_mem, decide_eq_true_eq, mem_keys_iff]
  have hkeys : (oneKeys l r ++ bothKeys l r).Nodup := by
    rw [List.nodup_append]
    refine ⟨hone, hboth, ?_⟩
    intro a ha b' hb' hab
    subst hab
    have h1 := (hmemOne a).mp ha
    have h2 := (hmemBoth a).mp hb'
    rw [h2.1, h2.2] at h1
    exact h1 rfl
  have hbmap : b.map entryOf = (oneKeys l r ++ bothKeys l r).filterMap (fun k => (keyDec l r k).map entryOf) := by
    rw [← hbdef, List.filterMap_append, List.map_append, List.map_filterMap, List.map_filterMap]
  have hkd : ∀ k a, (keyDec l r k).map entryOf = some a → a.skey = k ∧ a ∈ U := by
    intro k a hka
    obtain ⟨d, hd, rfl⟩ := Option.map_eq_some_iff.mp hka
    obtain ⟨s, e, rfl, hcase⟩ := keyDec_mem hd
    have heU : e ∈ U := by
      rcases hcase with h1 | ⟨h1, h2⟩
      · exact memU_of_l k e h1
      · exact memU_of_r k e h1 h2
    rw [entryOf_mkSide s (hUmap e heU)]
    refine ⟨?_, heU⟩
    rcases hcase with h1 | ⟨_, h2⟩
    · exact (tl1 k e h1).2
    · exact (tr1 k e h2).2
  rw [hbmap]
  apply (List.perm_ext_iff_of_nodup (filterMap_nodup _ Op.skey (fun k a hka => (hkd k a hka).1) _ hkeys)
    (nodup_of_map_nodup Op.skey U hndU)).mpr
  intro a
  constructor
  · intro ha
    obtain ⟨k, _, hka⟩ := List.mem_filterMap.mp ha
    exact (hkd k a hka).2
  · intro ha
    rw [← hU] at ha
    rw [List.mem_filterMap]
    refine ⟨a.skey, ?_, ?_⟩
    · rcases List.mem_append.mp ha with h1 | h1
      · have hla := tl2 a h1
        cases hra : (lookupKV a.skey r).isSome with
        | true => exact List.mem_append_right _ ((hmemBoth _).mpr ⟨by simp [hla], hra⟩)
        | false => exact List.mem_append_left _ ((hmemOne _).mpr (by simp [hla, hra]))
      · obtain ⟨h1a, h1b⟩ := List.mem_filter.mp h1
        simp only [Bool.not_eq_true', List.contains_eq_mem, decide_eq_false_iff_not] at h1b
        have hra := tr2 a h1a
        have hla : lookupKV a.skey l = none := by
          cases hh : lookupKV a.skey l with
          | none => rfl
          | some e' => exact absurd (List.mem_map.mpr ⟨e', (tl1 _ e' hh).1, (tl1 _ e' hh).2⟩) h1b
        exact List.mem_append_left _ ((hmemOne _).mpr (by simp [hla, hra]))
    · rcases List.mem_append.mp ha with h1 | h1
      · have hla := tl2 a h1
        cases hra : lookupKV a.skey r with
        | none => simp [keyDec, hla, hra, entryOf_mkSide _ (hmapL a h1)]
        | some e' => simp [keyDec, hla, hra, entryOf_mkSide _ (hmapL a h1)]
      · obtain ⟨h1a, h1b⟩ := List.mem_filter.mp h1
        simp only [Bool.not_eq_true', List.contains_eq_mem, decide_eq_false_iff_not] at h1b
        have hra := tr2 a h1a
        have hla : lookupKV a.skey l = none := by
          cases hh : lookupKV a.skey l with
          | none => rfl
          | some e' => exact absurd (List.mem_map.mpr ⟨e', (tl1 _ e' hh).1, (tl1 _ e' hh).2⟩) h1b
        simp [keyDec, hla, hra, entryOf_mkSide _ (hmapR a h1a)]

/-- **key-wise merge, document level, root object**: `ld` and `rd` are mapping diffs (pairwise different keys
    each) that carry the same entry wherever they share a key. Then applying the decisions of
    `decide_merge_with_diff` to `base` patches `base` with `ld` and with the entries of `rd` under the other keys:
    nothing lost, nothing added — every strategy table, every oracle. Special cases: `rd = []` (one-sided local),
    `ld = []` (one-sided remote), `ld = rd` (agreement), no shared key (changes under different keys, C06). -/
theorem apply_keywise_obj (E : Env) (base : List (String × J)) (ld rd : List Op) (ds : List MD) (X : J)
    (hc : (J.obj base).canonical = true)
    (hmapL : ∀ e ∈ ld, e.isMapOp = true) (hndL : (ld.map Op.skey).Nodup)
    (hmapR : ∀ e ∈ rd, e.isMapOp = true) (hndR : (rd.map Op.skey).Nodup)
    (hagree : ∀ el ∈ ld, ∀ er ∈ rd, el.skey = er.skey → el = er)
    (hX : patch (.obj base) (ld ++ rd.filter (fun e => !(ld.map Op.skey).contains e.skey)) = .ok X)
    (h : decideMerge E (.obj base) ld rd = .ok ds) :
    applyDecisions (.obj base) (ds.map MD.toDecision) = .ok X ∧ ∀ d ∈ ds, d.conflict = false := by
  obtain ⟨b, rfl, hb0, hperm, hndU, hUmap⟩ := keywise_decisions E base ld rd ds hmapL hndL hmapR hndR hagree h
  change patch (.obj base) (unionDiff ld rd) = .ok X at hX
  generalize unionDiff ld rd = U at hX hb0 hperm hndU hUmap
  have heffAll : ∀ e ∈ U, (mapEff base e).isSome = true := by
    rw [patch] at hX
    simp only [bind, Except.bind] at hX
    cases hpd : patchDict base U [] [] with
    | error er => simp [hpd] at hX
    | ok R => exact fun e he => (patchDict_ok_eff base U [] [] R hpd e he).2
  refine ⟨?_, fun d hd => by
    obtain ⟨s, e, rfl, _⟩ := hb0 d (mem_sortDesc b d hd)
    exact mkSide_noconf s e⟩
  rw [← hX]
  apply apply_entries base hc b entryOf U
  · intro d hd
    obtain ⟨s, e, rfl, he, _⟩ := hb0 d hd
    rw [entryOf_mkSide s (hUmap e he)]
    exact mkSide_ent s (hUmap e he)
  · intro d hd
    obtain ⟨s, e, rfl, he, _⟩ := hb0 d hd
    rw [entryOf_mkSide s (hUmap e he)]
    exact heffAll e he
  · exact hperm
  · exact hndU

end Nbdime
