import NbdimeProofs.Lemmas.WfDiff
import NbdimeProofs.Lemmas.DictRoundtrip
import NbdimeProofs.Lemmas.FlattenCombine
/-
  C15: the model of the browser-side patcher (`Ts.patch`, NbdimeModel/TsPatch.lean) and the model of the Python
  patcher (`patch`) give the same document on every diff that is well-formed for its base document, as long as no
  string of the base document contains one of the separators the two languages treat differently.
-/
set_option linter.unusedSimpArgs false
set_option linter.unusedVariables false
namespace Nbdime
open Nbdime.Abs

/-- sequences: the two cursor loops coincide on a well-formed list diff, given that they coincide on the sub-diffs -/
theorem ts_patchSeq_eq (xs : List J) : ∀ (d : List Op) (lo : Nat) (added : Option Nat) (take : Nat),
    wfList xs d lo added = true →
    (∀ k dd v, Op.patchI k dd ∈ d → xs[k]? = some v → wf v dd = true → Ts.patch v dd = patch v dd) →
    Ts.patchSeq xs d take = patchList xs d take
  | [], _, _, take, _, _ => by rw [Ts.patchSeq, patchList]
  | e :: es, lo, added, take, h, hsub => by
      have hsub' : ∀ k dd v, Op.patchI k dd ∈ es → xs[k]? = some v → wf v dd = true → Ts.patch v dd = patch v dd :=
        fun k dd v hm => hsub k dd v (List.mem_cons_of_mem _ hm)
      cases e with
      | addrange k vs =>
        rw [wfList] at h
        simp only [Bool.and_eq_true, decide_eq_true_eq] at h
        rw [Ts.patchSeq, patchList]
        have hv : Ts.validateSeq xs.length (.addrange k vs) = .ok () := by
          simp only [Ts.validateSeq]; rw [if_neg (by omega)]
        simp only [hv, ts_patchSeq_eq xs es k (some k) (max take k) h.2 hsub']
      | removerange k m =>
        rw [wfList] at h
        simp only [Bool.and_eq_true, decide_eq_true_eq] at h
        rw [Ts.patchSeq, patchList]
        have hv : Ts.validateSeq xs.length (.removerange k m) = .ok () := by
          simp only [Ts.validateSeq]
          have := h.1.2; have := h.1.1.2
          rw [if_neg (by omega), if_neg (by omega)]
        simp only [hv, ts_patchSeq_eq xs es (k + m) none (max take (k + m)) h.2 hsub']
      | patchI k dd =>
        rw [wfList] at h
        simp only [Bool.and_eq_true, decide_eq_true_eq] at h
        rw [Ts.patchSeq, patchList]
        cases hx : xs[k]? with
        | none => simp [hx] at h
        | some v =>
          simp only [hx, Bool.and_eq_true] at h
          have hk : k < xs.length := by
            rcases Nat.lt_or_ge k xs.length with hlt | hge
            · exact hlt
            · rw [List.getElem?_eq_none hge] at hx; cases hx
          have hv : Ts.validateSeq xs.length (.patchI k dd) = .ok () := by
            simp only [Ts.validateSeq]; rw [if_neg (by omega)]
          simp only [hv, hsub k dd v List.mem_cons_self hx h.1.2.2,
            ts_patchSeq_eq xs es (k + 1) none (max take (k + 1)) h.2 hsub']
      | add _ _ => unfold wfList at h; simp at h
      | remove _ => unfold wfList at h; simp at h
      | replace _ _ => unfold wfList at h; simp at h
      | patchK _ _ => unfold wfList at h; simp at h
      | addchars _ _ => unfold wfList at h; simp at h
      | invalid _ => unfold wfList at h; simp at h

/-! ### objects -/

theorem lookup_copied (obj : List (String × J)) (x : String) : ∀ (ks : List String),
    lookupKV x (ks.filterMap (fun k => (lookupKV k obj).map (fun v => (k, v)))) = if x ∈ ks then lookupKV x obj else none
  | [] => by simp [lookupKV]
  | k :: rest => by
      have ih := lookup_copied obj x rest
      simp only [List.filterMap_cons]
      cases hk : lookupKV k obj with
      | none =>
        simp only [Option.map_none, ih, List.mem_cons]
        by_cases hx : x = k
        · subst hx; simp [hk]
        · simp [hx]
      | some v =>
        simp only [Option.map_some, lookupKV_cons', ih, List.mem_cons]
        by_cases hx : k = x
        · subst hx; simp [hk]
        · have : ¬ x = k := fun h => hx h.symm
          simp [hx, this]

theorem setKV'_fresh (k : String) (v : J) (l : List (String × J)) (h : hasKey k l = false) :
    Ts.setKV' k v l = (k, v) :: l := by
  unfold Ts.setKV'
  congr 1
  apply List.filter_eq_self.mpr
  intro kv hkv
  simp only [bne_iff_ne, ne_eq]
  intro heq
  have : hasKey k l = true := by
    unfold hasKey
    have hm : kv.1 ∈ l.map (·.1) := List.mem_map_of_mem hkv
    rw [heq] at hm
    exact (mem_keys_iff k l).mp hm
  rw [h] at this; cases this

/-- the state of the two object loops: same assigned values; the keys still to copy are the base keys that were
    neither removed nor re-assigned -/
structure ObjInv (obj newobj : List (String × J)) (deleted seen keysToCopy : List String) : Prop where
  nd : keysToCopy.Nodup
  mem : ∀ x, x ∈ keysToCopy ↔ (hasKey x obj = true ∧ deleted.contains x = false ∧ hasKey x newobj = false)
  seenN : ∀ x, hasKey x newobj = true → x ∈ seen
  seenD : ∀ x, deleted.contains x = true → x ∈ seen
  dk : DK newobj

theorem ts_patchObj_eq (obj : List (String × J)) (hobj : DK obj) : ∀ (d : List Op) (seen : List String)
    (newobj : List (String × J)) (deleted keysToCopy : List String),
    wfObj obj d seen = true → ObjInv obj newobj deleted seen keysToCopy →
    (∀ k dd v, Op.patchK k dd ∈ d → lookupKV k obj = some v → wf v dd = true → Ts.patch v dd = patch v dd) →
    Ts.patchObj obj d newobj keysToCopy = patchDict obj d newobj deleted
  | [], seen, newobj, deleted, keysToCopy, _, inv, _ => by
      rw [Ts.patchObj, patchDict]
      congr 1
      apply sk_ext _ _ (sortKV_sorted _) (sortKV_sorted _)
      intro x
      have hun : DK (obj.filter (fun kv => !deleted.contains kv.1 && !hasKey kv.1 newobj)) := List.Pairwise.filter _ hobj
      have hnf : DK (newobj.filter (fun kv => !keysToCopy.contains kv.1)) := List.Pairwise.filter _ inv.dk
      rw [lookupKV_sortKV, lookupKV_sortKV, List.reverse_append, List.reverse_append, List.reverse_reverse,
        List.reverse_reverse, lookupKV_append, lookupKV_append, lookupKV_reverse _ _ hnf, lookupKV_reverse _ _ hun,
        lookup_copied, lookupKV_filterKey (fun y => !keysToCopy.contains y),
        lookupKV_filterKey (fun y => !deleted.contains y && !hasKey y newobj)]
      have hm := inv.mem x
      cases hn : lookupKV x newobj with
      | some v =>
        have hk : hasKey x newobj = true := by simp [hasKey, hn]
        have hx : x ∉ keysToCopy := fun hc => by
          have := (hm.mp hc).2.2; rw [hk] at this; cases this
        simp [hx, hk, hn]
      | none =>
        have hk : hasKey x newobj = false := by simp [hasKey, hn]
        by_cases hx : x ∈ keysToCopy
        · obtain ⟨h1, h2, _⟩ := hm.mp hx
          have h2' : x ∉ deleted := by simpa using h2
          simp [hx, hk, h2', hn]
        · simp only [hx, if_false, List.contains_eq_mem, decide_false, Bool.not_false, if_true, hn, Option.or_none,
            hk, Bool.and_true]
          -- not copied: absent from the base, or removed
          cases ho : lookupKV x obj with
          | none => simp
          | some v =>
            have h1 : hasKey x obj = true := by simp [hasKey, ho]
            have : deleted.contains x = true := by
              cases hd : deleted.contains x with
              | true => rfl
              | false => exact absurd (hm.mpr ⟨h1, hd, hk⟩) hx
            have this' : x ∈ deleted := by simpa using this
            simp [this']
  | e :: es, seen, newobj, deleted, keysToCopy, h, inv, hsub => by
      have hsub' : ∀ k dd v, Op.patchK k dd ∈ es → lookupKV k obj = some v → wf v dd = true → Ts.patch v dd = patch v dd :=
        fun k dd v hm => hsub k dd v (List.mem_cons_of_mem _ hm)
      -- a key not seen so far is neither assigned nor deleted
      have fresh : ∀ k, seen.contains k = false → hasKey k newobj = false ∧ deleted.contains k = false := by
        intro k hk
        have hk' : k ∉ seen := by simpa using hk
        constructor
        · cases hh : hasKey k newobj with
          | false => rfl
          | true => exact absurd (inv.seenN k hh) hk'
        · cases hh : deleted.contains k with
          | false => rfl
          | true => exact absurd (inv.seenD k hh) hk'
      cases e with
      | add k v =>
        rw [wfObj] at h
        simp only [Bool.and_eq_true, Bool.not_eq_true'] at h
        obtain ⟨f1, f2⟩ := fresh k h.1.1
        have hnk : keysToCopy.contains k = false := by
          cases hc : keysToCopy.contains k with
          | false => rfl
          | true =>
            have := ((inv.mem k).mp (by simpa using hc)).1
            rw [h.1.2] at this; cases this
        rw [Ts.patchObj, patchDict]
        simp only [Ts.validateObj, hnk, Bool.false_eq_true, if_false, Op.isMapOp, Bool.not_true, Op.skey, f1, h.1.2,
          setKV'_fresh k v newobj f1]
        apply ts_patchObj_eq obj hobj es (k :: seen) ((k, v) :: newobj) deleted keysToCopy h.2 _ hsub'
        refine ⟨inv.nd, ?_, ?_, ?_, ?_⟩
        · intro x
          rw [inv.mem x, hasKey_cons]
          by_cases hx : k = x
          · subst hx; simp [h.1.2]
          · simp [hx]
        · intro x hx
          rw [hasKey_cons] at hx
          simp only [Bool.or_eq_true, beq_iff_eq] at hx
          rcases hx with rfl | hx
          · exact List.mem_cons_self
          · exact List.mem_cons_of_mem _ (inv.seenN x hx)
        · intro x hx; exact List.mem_cons_of_mem _ (inv.seenD x hx)
        · unfold DK
          rw [List.pairwise_cons]
          refine ⟨?_, inv.dk⟩
          intro b hb heq
          have : hasKey k newobj = true := (mem_keys_iff k newobj).mp (by simp only at heq; rw [heq]; exact List.mem_map_of_mem hb)
          rw [f1] at this; cases this
      | remove k =>
        rw [wfObj] at h
        simp only [Bool.and_eq_true, Bool.not_eq_true'] at h
        obtain ⟨f1, f2⟩ := fresh k h.1.1
        have hck : keysToCopy.contains k = true := by simpa using (inv.mem k).mpr ⟨h.1.2, f2, f1⟩
        rw [Ts.patchObj, patchDict]
        simp only [Ts.validateObj, hck, if_true, Op.isMapOp, Bool.not_true, Bool.false_eq_true, if_false, Op.skey, f1]
        apply ts_patchObj_eq obj hobj es (k :: seen) newobj (k :: deleted) (keysToCopy.erase k) h.2 _ hsub'
        refine ⟨inv.nd.erase k, ?_, ?_, ?_, inv.dk⟩
        · intro x
          rw [inv.nd.mem_erase_iff, inv.mem x]
          by_cases hx : x = k
          · subst hx; simp
          · have : ¬ k = x := fun hh => hx hh.symm
            simp [hx, this]
        · intro x hx; exact List.mem_cons_of_mem _ (inv.seenN x hx)
        · intro x hx
          simp only [List.contains_cons, Bool.or_eq_true, beq_iff_eq] at hx
          rcases hx with rfl | hx
          · exact List.mem_cons_self
          · exact List.mem_cons_of_mem _ (inv.seenD x hx)
      | replace k v =>
        rw [wfObj] at h
        simp only [Bool.and_eq_true, Bool.not_eq_true'] at h
        obtain ⟨f1, f2⟩ := fresh k h.1.1
        have hck : keysToCopy.contains k = true := by simpa using (inv.mem k).mpr ⟨h.1.2, f2, f1⟩
        rw [Ts.patchObj, patchDict]
        simp only [Ts.validateObj, hck, if_true, Op.isMapOp, Bool.not_true, Bool.false_eq_true, if_false, Op.skey, f1, f2,
          setKV'_fresh k v newobj f1]
        apply ts_patchObj_eq obj hobj es (k :: seen) ((k, v) :: newobj) deleted (keysToCopy.erase k) h.2 _ hsub'
        refine ⟨inv.nd.erase k, ?_, ?_, ?_, ?_⟩
        · intro x
          rw [inv.nd.mem_erase_iff, inv.mem x, hasKey_cons]
          by_cases hx : x = k
          · subst hx; simp
          · have : ¬ k = x := fun hh => hx hh.symm
            simp [hx, this]
        · intro x hx
          rw [hasKey_cons] at hx
          simp only [Bool.or_eq_true, beq_iff_eq] at hx
          rcases hx with rfl | hx
          · exact List.mem_cons_self
          · exact List.mem_cons_of_mem _ (inv.seenN x hx)
        · intro x hx; exact List.mem_cons_of_mem _ (inv.seenD x hx)
        · unfold DK
          rw [List.pairwise_cons]
          refine ⟨?_, inv.dk⟩
          intro b hb heq
          have : hasKey k newobj = true := (mem_keys_iff k newobj).mp (by simp only at heq; rw [heq]; exact List.mem_map_of_mem hb)
          rw [f1] at this; cases this
      | patchK k dd =>
        rw [wfObj] at h
        simp only [Bool.and_eq_true, Bool.not_eq_true'] at h
        obtain ⟨f1, f2⟩ := fresh k h.1.1.1
        cases hl : lookupKV k obj with
        | none => simp [hl] at h
        | some v =>
          simp only [hl, Bool.and_eq_true] at h
          have hko : hasKey k obj = true := by simp [hasKey, hl]
          have hck : keysToCopy.contains k = true := by simpa using (inv.mem k).mpr ⟨hko, f2, f1⟩
          rw [Ts.patchObj, patchDict]
          simp only [Ts.validateObj, hck, if_true, Op.isMapOp, Bool.not_true, Bool.false_eq_true, if_false, Op.skey, f1, f2,
            hl, hsub k dd v List.mem_cons_self hl h.1.2.2]
          cases hp : patch v dd with
          | error er => simp [bind, Except.bind]
          | ok pv =>
            simp only [bind, Except.bind, setKV'_fresh k pv newobj f1]
            apply ts_patchObj_eq obj hobj es (k :: seen) ((k, pv) :: newobj) deleted (keysToCopy.erase k) h.2 _ hsub'
            refine ⟨inv.nd.erase k, ?_, ?_, ?_, ?_⟩
            · intro x
              rw [inv.nd.mem_erase_iff, inv.mem x, hasKey_cons]
              by_cases hx : x = k
              · subst hx; simp
              · have : ¬ k = x := fun hh => hx hh.symm
                simp [hx, this]
            · intro x hx
              rw [hasKey_cons] at hx
              simp only [Bool.or_eq_true, beq_iff_eq] at hx
              rcases hx with rfl | hx
              · exact List.mem_cons_self
              · exact List.mem_cons_of_mem _ (inv.seenN x hx)
            · intro x hx; exact List.mem_cons_of_mem _ (inv.seenD x hx)
            · unfold DK
              rw [List.pairwise_cons]
              refine ⟨?_, inv.dk⟩
              intro b hb heq
              have : hasKey k newobj = true := (mem_keys_iff k newobj).mp (by simp only at heq; rw [heq]; exact List.mem_map_of_mem hb)
              rw [f1] at this; cases this
      | addrange _ _ => unfold wfObj at h; simp at h
      | addchars _ _ => unfold wfObj at h; simp at h
      | removerange _ _ => unfold wfObj at h; simp at h
      | patchI _ _ => unfold wfObj at h; simp at h
      | invalid _ => unfold wfObj at h; simp at h

/-! ### strings -/

/-- on a string without the characters the two languages treat differently, the browser's splitter returns Python's
    lines, plus possibly one final empty line -/
theorem ts_split_ext (s cur : List Char) (h : ∀ c ∈ s, Ts.exotic c = false) :
    ∃ extra, (extra = [] ∨ extra = [[]]) ∧ Ts.splitAux s cur = splitLinesAux s cur ++ extra := by
  fun_induction splitLinesAux s cur with
  | case1 cur hc =>
    have : cur = [] := by simpa using hc
    exact ⟨[[]], Or.inr rfl, by simp [Ts.splitAux, this]⟩
  | case2 cur hc =>
    exact ⟨[], Or.inl rfl, by simp [Ts.splitAux]⟩
  | case3 rest cur ih =>
    have hr : ∀ c ∈ rest, Ts.exotic c = false := fun c hc => h c (by simp [hc])
    obtain ⟨extra, he, heq⟩ := ih hr
    exact ⟨extra, he, by simp [Ts.splitAux, heq]⟩
  | case4 c rest cur hne hsep ih =>
    have hr : ∀ c ∈ rest, Ts.exotic c = false := fun x hx => h x (by simp [hx])
    have hc : Ts.exotic c = false := h c (by simp)
    have hnr : c = '\n' ∨ c = '\r' := by
      simp only [isLineSep, Ts.exotic, Bool.or_eq_true, Bool.or_eq_false_iff, beq_iff_eq, beq_eq_false_iff_ne] at hsep hc
      rcases hsep with ((((((((h1 | h1) | h1) | h1) | h1) | h1) | h1) | h1) | h1) | h1
      · exact Or.inl h1
      · exact Or.inr h1
      all_goals simp_all
    obtain ⟨extra, he, heq⟩ := ih hr
    refine ⟨extra, he, ?_⟩
    rcases hnr with rfl | rfl
    · cases rest with
      | nil => simp [Ts.splitAux] at heq ⊢; exact heq
      | cons d rest' => simp [Ts.splitAux, heq]
    · cases rest with
      | nil => simp [Ts.splitAux] at heq ⊢; exact heq
      | cons d rest' =>
        have hd : d ≠ '\n' := by intro e; subst e; exact hne rest' rfl rfl
        simp [Ts.splitAux, hd, heq]
  | case5 c rest cur hne hsep ih =>
    have hr : ∀ c ∈ rest, Ts.exotic c = false := fun x hx => h x (by simp [hx])
    have hc : Ts.exotic c = false := h c (by simp)
    have hsep' : isLineSep c = false := by simpa using hsep
    have h1 : c ≠ '\r' ∧ c ≠ '\n' := by
      simp only [isLineSep, Bool.or_eq_false_iff, beq_eq_false_iff_ne] at hsep'
      exact ⟨hsep'.1.1.1.1.1.1.1.1.2, hsep'.1.1.1.1.1.1.1.1.1⟩
    have h2 : Ts.isDropped c = false := by
      simp only [Ts.exotic, Bool.or_eq_false_iff] at hc
      simp [Ts.isDropped, hc.1.2, hc.2]
    obtain ⟨extra, he, heq⟩ := ih hr
    refine ⟨extra, he, ?_⟩
    cases rest with
    | nil => simpa [Ts.splitAux, h1.1, h1.2, h2] using heq
    | cons d rest' =>
      have : Ts.splitAux (c :: d :: rest') cur = Ts.splitAux (d :: rest') (c :: cur) := by
        rw [Ts.splitAux]
        · simp [h1.1, h1.2, h2]
        · intro rest'' e1 e2; exact h1.1 e1
      rw [this]
      exact heq


/-- a well-formed character diff is an ordered in-bounds chain of insertions and removals -/
theorem wfChars_chain (n : Nat) : ∀ (dd : List Op) (lo : Nat) (added : Option Nat), wfChars n dd lo added = true →
    ∃ cops : List (POp Char), NoPat cops ∧ dd = cops.map toOpC ∧ ChainFrom n lo cops
  | [], _, _, _ => ⟨[], (fun _ h => nomatch h), rfl, trivial⟩
  | e :: es, lo, added, h => by
      cases e with
      | addchars k cs =>
        simp only [wfChars, Bool.and_eq_true, decide_eq_true_eq] at h
        obtain ⟨cops, c1, c2, c3⟩ := wfChars_chain n es k (some k) h.2
        refine ⟨.add k cs :: cops, ?_, by simp [toOpC, c2], ⟨h.1.1.1.1, by simp [POp.key, POp.eat]; exact h.1.1.1.2, by simpa [POp.key, POp.eat] using c3⟩⟩
        intro x hx
        rcases List.mem_cons.mp hx with rfl | hx
        · rfl
        · exact c1 x hx
      | removerange k m =>
        simp only [wfChars, Bool.and_eq_true, decide_eq_true_eq] at h
        obtain ⟨cops, c1, c2, c3⟩ := wfChars_chain n es (k + m) none h.2
        refine ⟨.rem k m :: cops, ?_, by simp [toOpC, c2], ⟨h.1.1.1, by simp [POp.key, POp.eat]; exact h.1.2, by simpa [POp.key, POp.eat] using c3⟩⟩
        intro x hx
        rcases List.mem_cons.mp hx with rfl | hx
        · rfl
        · exact c1 x hx
      | add _ _ => simp [wfChars] at h
      | remove _ => simp [wfChars] at h
      | replace _ _ => simp [wfChars] at h
      | patchK _ _ => simp [wfChars] at h
      | addrange _ _ => simp [wfChars] at h
      | patchI _ _ => simp [wfChars] at h
      | invalid _ => simp [wfChars] at h

theorem allStr_spec : ∀ (vs : List J), allStr vs = true → ∀ x ∈ vs, ∃ c, x = J.str c
  | [], _, _, hx => nomatch hx
  | v :: rest, h, x, hx => by
      cases v with
      | str c =>
        simp only [allStr] at h
        rcases List.mem_cons.mp hx with rfl | hx
        · exact ⟨c, rfl⟩
        · exact allStr_spec rest h x hx
      | null => simp [allStr] at h
      | bool _ => simp [allStr] at h
      | int _ => simp [allStr] at h
      | flt _ => simp [allStr] at h
      | arr _ => simp [allStr] at h
      | obj _ => simp [allStr] at h

/-- a well-formed line diff denotes an ordered in-bounds chain over the lines whose patched lines are produced by
    character chains -/
theorem wfLines_denotes (ls : List (List Char)) : ∀ (d : List Op) (lo : Nat) (added : Option Nat),
    wfLines ls d lo added = true →
    ∃ pops, Denotes CharRel (ls.map J.str) d pops ∧ ChainFrom ls.length lo pops ∧
      (∀ e ∈ pops, ∀ x ∈ e.out, ∃ c, x = J.str c)
  | [], _, _, _ => ⟨[], Denotes.nil, trivial, (fun _ h => nomatch h)⟩
  | e :: es, lo, added, h => by
      cases e with
      | addrange k vs =>
        rw [wfLines] at h
        simp only [Bool.and_eq_true, decide_eq_true_eq] at h
        obtain ⟨pops, p1, p2, p3⟩ := wfLines_denotes ls es k (some k) h.2
        refine ⟨.add k vs :: pops, Denotes.add k vs p1, ⟨h.1.1.1.1.1, by simp [POp.key, POp.eat]; exact h.1.1.1.1.2, by simpa [POp.key, POp.eat] using p2⟩, ?_⟩
        intro e he x hx
        rcases List.mem_cons.mp he with rfl | he
        · exact allStr_spec vs h.1.1.2 x hx
        · exact p3 e he x hx
      | removerange k m =>
        rw [wfLines] at h
        simp only [Bool.and_eq_true, decide_eq_true_eq] at h
        obtain ⟨pops, p1, p2, p3⟩ := wfLines_denotes ls es (k + m) none h.2
        refine ⟨.rem k m :: pops, Denotes.rem k m p1, ⟨h.1.1.1, by simp [POp.key, POp.eat]; exact h.1.2, by simpa [POp.key, POp.eat] using p2⟩, ?_⟩
        intro e he x hx
        rcases List.mem_cons.mp he with rfl | he
        · simp [POp.out] at hx
        · exact p3 e he x hx
      | patchI k dd =>
        rw [wfLines] at h
        simp only [Bool.and_eq_true, decide_eq_true_eq] at h
        cases hl : ls[k]? with
        | none => simp [hl] at h
        | some l =>
          simp only [hl] at h
          obtain ⟨cops, c1, c2, c3⟩ := wfChars_chain l.length dd 0 none h.1.2
          obtain ⟨pops, p1, p2, p3⟩ := wfLines_denotes ls es (k + 1) none h.2
          have hk : k < ls.length := by
            rcases Nat.lt_or_ge k ls.length with hlt | hge
            · exact hlt
            · rw [List.getElem?_eq_none hge] at hl; cases hl
          refine ⟨.pat k (.str (pf cops 0 l)) :: pops, ?_, ⟨h.1.1.1, by simp [POp.key, POp.eat]; omega, by simpa [POp.key, POp.eat] using p2⟩, ?_⟩
          · apply Denotes.pat k dd (.str l) (.str (pf cops 0 l))
            · simp [hl]
            · exact ⟨l, pf cops 0 l, cops, rfl, rfl, c1, c2, c3, rfl⟩
            · exact p1
          · intro e he x hx
            rcases List.mem_cons.mp he with rfl | he
            · simp [POp.out] at hx; exact ⟨_, hx⟩
            · exact p3 e he x hx
      | add _ _ => unfold wfLines at h; simp at h
      | remove _ => unfold wfLines at h; simp at h
      | replace _ _ => unfold wfLines at h; simp at h
      | patchK _ _ => unfold wfLines at h; simp at h
      | addchars _ _ => unfold wfLines at h; simp at h
      | invalid _ => unfold wfLines at h; simp at h


theorem charLoop_map (s : List Char) (cops : List (POp Char)) (t : Nat) (h : NoPat cops) :
    Ts.charLoop s (cops.map toOpC) t = .ok (pf cops t s) := by
  induction cops generalizing t with
  | nil => simp [Ts.charLoop, pf]
  | cons e es ih =>
    have hes : NoPat es := fun x hx => h x (List.mem_cons_of_mem _ hx)
    have he := h e (by simp)
    cases e with
    | add k cs =>
      simp only [List.map_cons, toOpC]
      rw [Ts.charLoop]
      simp [ih _ hes, pf, POp.key, POp.out, POp.eat, bind, Except.bind]
    | rem k n =>
      simp only [List.map_cons, toOpC]
      rw [Ts.charLoop]
      simp [ih _ hes, pf, POp.key, POp.out, POp.eat, bind, Except.bind]
    | pat k c => simp [POp.isPat] at he

/-- the first entry of a well-formed line diff starts at or after `lo`, and is no second insertion at `added` -/
theorem wfLines_head (ls : List (List Char)) (x : Op) (rest : List Op) (lo : Nat) (added : Option Nat)
    (h : wfLines ls (x :: rest) lo added = true) : lo ≤ x.idx ∧ (added = some x.idx → Ts.notAddrange x = true) := by
  cases x with
  | addrange k vs =>
    rw [wfLines] at h
    simp only [Bool.and_eq_true, decide_eq_true_eq, bne_iff_ne, ne_eq] at h
    exact ⟨h.1.1.1.1.1, fun ha => absurd ha h.1.2⟩
  | removerange k m =>
    rw [wfLines] at h
    simp only [Bool.and_eq_true, decide_eq_true_eq] at h
    exact ⟨h.1.1.1, fun _ => rfl⟩
  | patchI k dd =>
    rw [wfLines] at h
    simp only [Bool.and_eq_true, decide_eq_true_eq] at h
    exact ⟨h.1.1.1, fun _ => rfl⟩
  | add _ _ => unfold wfLines at h; simp at h
  | remove _ => unfold wfLines at h; simp at h
  | replace _ _ => unfold wfLines at h; simp at h
  | patchK _ _ => unfold wfLines at h; simp at h
  | addchars _ _ => unfold wfLines at h; simp at h
  | invalid _ => unfold wfLines at h; simp at h

/-- a well-formed line diff is already in the order `flattenStringDiff` sorts it into -/
theorem sortLineOps_wf (ls : List (List Char)) : ∀ (d : List Op) (lo : Nat) (added : Option Nat),
    wfLines ls d lo added = true → Ts.sortLineOps d = d
  | [], _, _, _ => rfl
  | e :: es, lo, added, h => by
      -- the tail, and what its first entry looks like
      have tail : ∃ lo' added', wfLines ls es lo' added' = true ∧ e.idx ≤ lo' ∧
          (e.idx = lo' → (Ts.notAddrange e = false ∧ added' = some e.idx)) := by
        cases e with
        | addrange k vs =>
          rw [wfLines] at h
          simp only [Bool.and_eq_true, decide_eq_true_eq] at h
          exact ⟨k, some k, h.2, Nat.le_refl _, fun _ => ⟨rfl, rfl⟩⟩
        | removerange k m =>
          rw [wfLines] at h
          simp only [Bool.and_eq_true, decide_eq_true_eq] at h
          exact ⟨k + m, none, h.2, by simp [Op.idx], fun hh => by simp [Op.idx] at hh; omega⟩
        | patchI k dd =>
          rw [wfLines] at h
          simp only [Bool.and_eq_true, decide_eq_true_eq] at h
          exact ⟨k + 1, none, h.2, by simp [Op.idx], fun hh => by simp [Op.idx] at hh⟩
        | add _ _ => unfold wfLines at h; simp at h
        | remove _ => unfold wfLines at h; simp at h
        | replace _ _ => unfold wfLines at h; simp at h
        | patchK _ _ => unfold wfLines at h; simp at h
        | addchars _ _ => unfold wfLines at h; simp at h
        | invalid _ => unfold wfLines at h; simp at h
      obtain ⟨lo', added', ht, hle, heq⟩ := tail
      have ih := sortLineOps_wf ls es lo' added' ht
      unfold Ts.sortLineOps at ih ⊢
      simp only [List.foldr_cons, ih]
      cases es with
      | nil => rfl
      | cons x rest =>
        obtain ⟨hx1, hx2⟩ := wfLines_head ls x rest lo' added' ht
        simp only [Ts.insertLineOp]
        by_cases hlt : e.idx < x.idx
        · simp [hlt]
        · have hxe : e.idx = x.idx := by omega
          have hlo : e.idx = lo' := by omega
          obtain ⟨hne, had⟩ := heq hlo
          have hxn := hx2 (by rw [had, hxe])
          simp [hlt, hxe, hne, hxn]

theorem off_append_le (A extra : List (List Char)) (k : Nat) (hk : k ≤ A.length) : off (A ++ extra) k = off A k := by
  unfold off
  rw [List.take_append_of_le_length hk]

theorem offsets_ext (A extra : List (List Char)) (k : Nat) (hk : k ≤ A.length) :
    (lineOffsets (A ++ extra) 0)[k]? = (lineOffsets A 0)[k]? := by
  rw [lineOffsets_get (A ++ extra) 0 k (by simp; omega), lineOffsets_get A 0 k hk, off_append_le A extra k hk]

theorem validateChars_ok (n : Nat) : ∀ (dd : List Op) (lo : Nat) (added : Option Nat), wfChars n dd lo added = true →
    ∃ us, dd.mapM (Ts.validateSeq n) = .ok us
  | [], _, _, _ => ⟨[], rfl⟩
  | e :: es, lo, added, h => by
      cases e with
      | addchars k cs =>
        simp only [wfChars, Bool.and_eq_true, decide_eq_true_eq] at h
        obtain ⟨us, hus⟩ := validateChars_ok n es k (some k) h.2
        refine ⟨() :: us, ?_⟩
        simp only [List.mapM_cons, Ts.validateSeq]
        rw [if_neg (by omega)]
        simp only [bind, Except.bind, hus, pure, Except.pure]
      | removerange k m =>
        simp only [wfChars, Bool.and_eq_true, decide_eq_true_eq] at h
        obtain ⟨us, hus⟩ := validateChars_ok n es (k + m) none h.2
        refine ⟨() :: us, ?_⟩
        simp only [List.mapM_cons, Ts.validateSeq]
        rw [if_neg (by omega), if_neg (by omega)]
        simp only [bind, Except.bind, hus, pure, Except.pure]
      | add _ _ => simp [wfChars] at h
      | remove _ => simp [wfChars] at h
      | replace _ _ => simp [wfChars] at h
      | patchK _ _ => simp [wfChars] at h
      | addrange _ _ => simp [wfChars] at h
      | patchI _ _ => simp [wfChars] at h
      | invalid _ => simp [wfChars] at h

/-- entry by entry, `flattenStringDiff` over the browser's lines computes what `flatten_list_of_string_diff` computes
    over Python's lines -/
theorem flatten_entries_eq (A extra : List (List Char)) : ∀ (d : List Op) (lo : Nat) (added : Option Nat),
    wfLines A d lo added = true →
    (do let parts ← d.mapM (Ts.flattenEntry (A ++ extra) (lineOffsets (A ++ extra) 0)); pure parts.flatten : Except Err (List Op)) =
      flattenOps (lineOffsets A 0) d
  | [], _, _, _ => by simp [flattenOps, pure, Except.pure, bind, Except.bind]
  | e :: es, lo, added, h => by
      cases e with
      | addrange k vs =>
        rw [wfLines] at h
        simp only [Bool.and_eq_true, decide_eq_true_eq] at h
        have ih := flatten_entries_eq A extra es k (some k) h.2
        have hk : k ≤ A.length := h.1.1.1.1.2
        have ho := offsets_ext A extra k hk
        obtain ⟨o, hoA⟩ : ∃ o, (lineOffsets A 0)[k]? = some o := ⟨_, lineOffsets_get A 0 k hk⟩
        have hv : Ts.validateSeq (A ++ extra).length (.addrange k vs) = .ok () := by
          simp only [Ts.validateSeq, List.length_append]; rw [if_neg (by omega)]
        rw [flattenOps, ← ih]
        simp only [List.mapM_cons, Ts.flattenEntry, hv, Op.idx, ho, hoA, bind, Except.bind, pure, Except.pure]
        cases joinStrs vs with
        | error er => rfl
        | ok cs =>
          simp only []
          cases es.mapM (Ts.flattenEntry (A ++ extra) (lineOffsets (A ++ extra) 0)) with
          | error er => rfl
          | ok parts => simp
      | removerange k m =>
        rw [wfLines] at h
        simp only [Bool.and_eq_true, decide_eq_true_eq] at h
        have ih := flatten_entries_eq A extra es (k + m) none h.2
        have hkm : k + m ≤ A.length := h.1.2
        have hm1 : 1 ≤ m := h.1.1.2
        have ho := offsets_ext A extra k (by omega)
        have ho2 := offsets_ext A extra (k + m) hkm
        obtain ⟨o, hoA⟩ : ∃ o, (lineOffsets A 0)[k]? = some o := ⟨_, lineOffsets_get A 0 k (by omega)⟩
        obtain ⟨o2, hoA2⟩ : ∃ o, (lineOffsets A 0)[k + m]? = some o := ⟨_, lineOffsets_get A 0 (k + m) hkm⟩
        have hv : Ts.validateSeq (A ++ extra).length (.removerange k m) = .ok () := by
          simp only [Ts.validateSeq, List.length_append]; rw [if_neg (by omega), if_neg (by omega)]
        rw [flattenOps, ← ih]
        simp only [List.mapM_cons, Ts.flattenEntry, hv, Op.idx, ho, ho2, hoA, hoA2, bind, Except.bind, pure, Except.pure]
        cases es.mapM (Ts.flattenEntry (A ++ extra) (lineOffsets (A ++ extra) 0)) with
        | error er => rfl
        | ok parts => simp
      | patchI k dd =>
        rw [wfLines] at h
        simp only [Bool.and_eq_true, decide_eq_true_eq] at h
        have ih := flatten_entries_eq A extra es (k + 1) none h.2
        cases hl : A[k]? with
        | none => simp [hl] at h
        | some l =>
          simp only [hl] at h
          have hk : k < A.length := by
            rcases Nat.lt_or_ge k A.length with hlt | hge
            · exact hlt
            · rw [List.getElem?_eq_none hge] at hl; cases hl
          have ho := offsets_ext A extra k (by omega)
          obtain ⟨o, hoA⟩ : ∃ o, (lineOffsets A 0)[k]? = some o := ⟨_, lineOffsets_get A 0 k (by omega)⟩
          have hv : Ts.validateSeq (A ++ extra).length (.patchI k dd) = .ok () := by
            simp only [Ts.validateSeq, List.length_append]; rw [if_neg (by omega)]
          have hline : (A ++ extra)[k]? = some l := by rw [List.getElem?_append_left hk]; exact hl
          obtain ⟨us, hvc⟩ := validateChars_ok l.length dd 0 none h.1.2
          rw [flattenOps, ← ih]
          simp only [List.mapM_cons, Ts.flattenEntry, hv, Op.idx, ho, hoA, hline, Option.getD_some, hvc, bind, Except.bind,
            pure, Except.pure]
          cases dd.mapM (Op.offset o) with
          | error er => rfl
          | ok here =>
            simp only []
            cases es.mapM (Ts.flattenEntry (A ++ extra) (lineOffsets (A ++ extra) 0)) with
            | error er => rfl
            | ok parts => simp
      | add _ _ => unfold wfLines at h; simp at h
      | remove _ => unfold wfLines at h; simp at h
      | replace _ _ => unfold wfLines at h; simp at h
      | patchK _ _ => unfold wfLines at h; simp at h
      | addchars _ _ => unfold wfLines at h; simp at h
      | invalid _ => unfold wfLines at h; simp at h

/-- **strings**: on a string without exotic separators, for a well-formed line diff, the browser's `patchString` and
    Python's `patch_string` give the same string -/
theorem ts_patchString_eq (s : List Char) (d : List Op) (hex : ∀ c ∈ s, Ts.exotic c = false)
    (h : wfLines (splitLines s) d 0 none = true) : Ts.patchString s d = patchString s d := by
  obtain ⟨extra, _, hsplit⟩ := ts_split_ext s [] hex
  obtain ⟨pops, p1, p2, p3⟩ := wfLines_denotes (splitLines s) d 0 none h
  have hpy := patchString_lines s d pops p1 p2 p3
  obtain ⟨X, x1, x2, x3, x4⟩ := flattenOps_spec (splitLines s) d pops 0 p1 p2 p3
  rw [join_splitLines, off_zero] at x3 x4
  have hts : Ts.flattenTs s d = .ok (X.map toOpC) := by
    unfold Ts.flattenTs
    have hl : Ts.splitLines s = splitLines s ++ extra := hsplit
    rw [sortLineOps_wf (splitLines s) d 0 none h, hl]
    have := flatten_entries_eq (splitLines s) extra d 0 none h
    rw [x2] at this
    simp only [bind, Except.bind, pure, Except.pure] at this ⊢
    cases hm : d.mapM (Ts.flattenEntry (splitLines s ++ extra) (lineOffsets (splitLines s ++ extra) 0)) with
    | error er => rw [hm] at this; cases this
    | ok parts =>
      rw [hm] at this
      simp only [Except.ok.injEq] at this
      simp only [this, sortByIdx_chain s.length 0 X x1 x3]
  rw [hpy]
  unfold Ts.patchString
  simp only [hts, bind, Except.bind, charLoop_map s X 0 x1, x4]


/-! ### the whole document -/

open Ts (noExotic noExoticL noExoticK)

theorem noExoticL_mem : ∀ (xs : List J), noExoticL xs = true → ∀ v ∈ xs, noExotic v = true
  | [], _, _, hv => nomatch hv
  | x :: rest, h, v, hv => by
      simp only [noExoticL, Bool.and_eq_true] at h
      rcases List.mem_cons.mp hv with rfl | hv
      · exact h.1
      · exact noExoticL_mem rest h.2 v hv

theorem noExoticK_mem : ∀ (kvs : List (String × J)), noExoticK kvs = true → ∀ p ∈ kvs, noExotic p.2 = true
  | [], _, _, hv => nomatch hv
  | (k, x) :: rest, h, p, hp => by
      simp only [noExoticK, Bool.and_eq_true] at h
      rcases List.mem_cons.mp hp with rfl | hp
      · exact h.1
      · exact noExoticK_mem rest h.2 p hp

theorem sizeOf_sub_patchI {k : Nat} {dd d : List Op} (h : Op.patchI k dd ∈ d) : sizeOf dd < sizeOf d := by
  have := List.sizeOf_lt_of_mem h
  simp only [Op.patchI.sizeOf_spec] at this
  omega

theorem sizeOf_sub_patchK {k : String} {dd d : List Op} (h : Op.patchK k dd ∈ d) : sizeOf dd < sizeOf d := by
  have := List.sizeOf_lt_of_mem h
  simp only [Op.patchK.sizeOf_spec] at this
  omega

theorem keys_nodup_of_sk {α} (l : List (String × α)) (h : SK l) : (l.map (·.1)).Nodup := by
  rw [List.nodup_iff_pairwise_ne, List.pairwise_map]
  exact h.dk

theorem ts_patch_eq_aux : ∀ (n : Nat) (doc : J) (d : List Op), sizeOf d < n → doc.canonical = true →
    noExotic doc = true → wf doc d = true → Ts.patch doc d = patch doc d
  | 0, _, _, h, _, _, _ => absurd h (Nat.not_lt_zero _)
  | n + 1, doc, d, hn, hc, hex, hwf => by
      cases doc with
      | str s =>
        rw [wf] at hwf
        simp only [noExotic, List.all_eq_true, Bool.not_eq_true'] at hex
        rw [Ts.patch, patch, ts_patchString_eq s d hex hwf]
      | arr xs =>
        rw [wf] at hwf
        simp only [noExotic] at hex
        simp only [J.canonical] at hc
        rw [Ts.patch, patch]
        rw [ts_patchSeq_eq xs d 0 none 0 hwf (fun k dd v hm hv hw =>
          ts_patch_eq_aux n v dd (by have := sizeOf_sub_patchI hm; omega)
            (canonicalList_mem xs hc v (List.mem_of_getElem? hv)) (noExoticL_mem xs hex v (List.mem_of_getElem? hv)) hw)]
      | obj kvs =>
        rw [wf] at hwf
        simp only [noExotic] at hex
        simp only [J.canonical, Bool.and_eq_true] at hc
        have hsk : SK kvs := keysSorted_sk kvs hc.1
        rw [Ts.patch, patch]
        have inv : ObjInv kvs [] [] [] (kvs.map (·.1)) := by
          refine ⟨keys_nodup_of_sk kvs hsk, ?_, ?_, ?_, List.Pairwise.nil⟩
          · intro x
            rw [mem_keys_iff]
            simp [hasKey, lookupKV]
          · intro x hx; simp [hasKey, lookupKV] at hx
          · intro x hx; simp at hx
        rw [ts_patchObj_eq kvs hsk.dk d [] [] [] (kvs.map (·.1)) hwf inv (fun k dd v hm hv hw =>
          ts_patch_eq_aux n v dd (by have := sizeOf_sub_patchK hm; omega)
            (canonicalKvs_mem kvs hc.2 _ (lookupKV_mem k v kvs hv)) (noExoticK_mem kvs hex _ (lookupKV_mem k v kvs hv)) hw)]
      | null => unfold wf at hwf; simp at hwf
      | bool _ => unfold wf at hwf; simp at hwf
      | int _ => unfold wf at hwf; simp at hwf
      | flt _ => unfold wf at hwf; simp at hwf

/-- **the browser-side patcher and the Python patcher agree** on every diff that is well-formed for its (canonical)
    base document, provided no string of the base document contains one of the eight separators the two languages treat
    differently -/
theorem ts_patch_eq (doc : J) (d : List Op) (hc : doc.canonical = true) (hex : noExotic doc = true)
    (hwf : wf doc d = true) : Ts.patch doc d = patch doc d :=
  ts_patch_eq_aux (sizeOf d + 1) doc d (Nat.lt_succ_self _) hc hex hwf

end Nbdime
