import NbdimeProofs.Lemmas.MergeLaws
/-
  Disjoint changes never conflict (C06, first clause) — for the model of the merger, by induction on
  the nesting depth.
-/
namespace Nbdime
namespace Merge


def NC : String → Bool → Prop := fun _ c => c = false
theorem NC.nc : ∀ a c, NC a c → c = false := fun _ _ h => h

theorem mergeChunk_pyEq {E : Env} {rec : Rec} {inStr : Bool}
    {base : List J} {path : List PKey} {ls is_ : Option String} {b b' : B} {c : Chunk}
    (h0 : c.d0.isEmpty = false) (h1 : c.d1.isEmpty = false) (he : Op.pyEqList c.d0 c.d1 = true)
    (hb : AllAC NC b) (h : mergeChunk E rec inStr base path ls is_ b c = .ok b') : AllAC NC b' := by
  unfold mergeChunk chunkSwitch at h
  simp only [h0, h1, he, Bool.not_false, Bool.and_self, Bool.not_true, Bool.false_eq_true, if_false, if_true] at h
  split at h
  · simp only [pure, Except.pure, Except.ok.injEq] at h; subst h; exact hb
  · exact agreement_either (P := NC) rfl hb h

theorem mergeChunk_PP {E : Env} {rec : Rec} {inStr : Bool}
    {base : List J} {path : List PKey} {ls is_ : Option String} {b b' : B} {c : Chunk} {k k' : Nat} {a a' : List Op}
    {bv : J} (h0 : c.d0 = [.patchI k a]) (h1 : c.d1 = [.patchI k' a']) (he : Op.pyEqList c.d0 c.d1 = false)
    (hbv : base[c.j]? = some bv)
    (hrec : ∀ sub, rec inStr bv (.d a) (.d a') (path ++ [PKey.i c.j]) = .ok sub → AllAC NC sub)
    (hb : AllAC NC b) (h : mergeChunk E rec inStr base path ls is_ b c = .ok b') : AllAC NC b' := by
  unfold mergeChunk chunkSwitch at h
  rw [h0, h1] at he
  have s1 : "" ++ ("P" ++ "") ++ "/" ++ "" ++ ("P" ++ "") = "P/P" := by decide
  have s2 : "P" ++ "" ++ "/" ++ ("P" ++ "") = "P/P" := by decide
  have s3 : "" ++ "/" ++ "" = "/" := by decide
  simp only [h0, h1, he, chunkTypename, List.filter, isAddrange, List.isEmpty_cons, Bool.not_false, Bool.and_self,
    Bool.not_true, Bool.false_eq_true, if_false, s1, s2, s3, String.reduceBEq, Bool.true_or, Bool.or_self, if_true,
    chunkPriorInsert, chunkPatchRemove, Bool.false_or, hbv, opDiff, bind, Except.bind, pure, Except.pure] at h
  split at h
  · cases h
  · rename_i sub hsub
    simp only [Except.ok.injEq] at h
    subst h
    exact hb.append (hrec sub hsub)

theorem dictBoth_disj {E : Env} {rec : Rec} {inStr : Bool} {base : List (String × J)} {path : List PKey}
    {b b' : B} {key : String} {le re : Op} {dj : J → List Op → List Op → List PKey → Bool}
    (hd : keyDisj dj base path key le re = true)
    (hrec : ∀ bv a a' sub, dj bv a a' (path ++ [PKey.s key]) = true →
      rec inStr bv (.d a) (.d a') (path ++ [PKey.s key]) = .ok sub → AllAC NC sub)
    (hb : AllAC NC b)
    (h : dictBoth E rec inStr base path (starPath path) b key le re = .ok b') : AllAC NC b' := by
  unfold keyDisj at hd
  simp only [Bool.or_eq_true, Bool.and_eq_true] at hd
  unfold dictBoth at h
  simp only [bind, Except.bind, pure, Except.pure] at h
  rcases hd with ⟨h1, h2⟩ | ⟨⟨⟨⟨hnr, hpl⟩, hpr⟩, htn⟩, hrest⟩
  · -- both remove: no parent_deleted entries, agreement
    have hpl : (isPD le).isSome = false := by cases le <;> simp_all [isRemoveOp, isPD]
    have hpr : (isPD re).isSome = false := by cases re <;> simp_all [isRemoveOp, isPD]
    simp only [hpl, hpr, h1, h2, Bool.false_eq_true, if_false, Bool.or_self, Bool.and_self, if_true] at h
    exact agreement_either (P := NC) rfl hb h
  · have hpl' : (isPD le).isSome = false := by
      cases hx : isPD le <;> simp_all
    have hpr' : (isPD re).isSome = false := by
      cases hx : isPD re <;> simp_all
    have hnr' : (isRemoveOp le || isRemoveOp re) = false := by simpa using hnr
    have htn' : (chunkTypename [le] != chunkTypename [re]) = false := by
      simp only [bne_eq_false_iff_eq]; exact eq_of_beq htn
    simp only [hpl', hpr', hnr', htn', Bool.false_eq_true, if_false] at h
    rcases hrest with hpe | hpp
    · simp only [hpe, if_true] at h
      exact agreement_either (P := NC) rfl hb h
    · cases hpe : Op.pyEq le re with
      | true =>
        simp only [hpe, if_true] at h
        exact agreement_either (P := NC) rfl hb h
      | false =>
        simp only [hpe, Bool.false_eq_true, if_false] at h
        split at hpp
        · rename_i k1 a k2 a' bv hbv
          simp only [hbv, opDiff] at h
          split at h
          · cases h
          · rename_i sub hsub
            simp only [Except.ok.injEq] at h
            subst h
            exact hb.append (hrec bv a a' sub hpp hsub)
        · cases hpp

theorem onesided_nc {b b' : B} {path ld rd} (hb : AllAC NC b) (h : onesided b path ld rd = .ok b') : AllAC NC b' := by
  unfold onesided at h
  split at h
  · cases h
  · split at h
    · cases h
    · simp only [Except.ok.injEq] at h; subst h; exact hb.add rfl

theorem mem_insertStr (k : String) : ∀ (l : List String) (x : String), x ∈ insertStr k l → x = k ∨ x ∈ l
  | [], x, h => by simp [insertStr] at h; exact Or.inl h
  | y :: rest, x, h => by
      simp only [insertStr] at h
      split at h
      · simp only [List.mem_cons] at h
        rcases h with h | h | h
        · exact Or.inl h
        · exact Or.inr (by simp [h])
        · exact Or.inr (by simp [h])
      · split at h
        · exact Or.inr h
        · simp only [List.mem_cons] at h
          rcases h with h | h
          · exact Or.inr (by simp [h])
          · rcases mem_insertStr k rest x h with h | h
            · exact Or.inl h
            · exact Or.inr (by simp [h])

theorem mem_sortStrs_aux : ∀ (l acc : List String) (x : String),
    x ∈ l.foldl (fun acc k => insertStr k acc) acc → x ∈ acc ∨ x ∈ l
  | [], acc, x, h => Or.inl h
  | k :: rest, acc, x, h => by
      simp only [List.foldl] at h
      rcases mem_sortStrs_aux rest _ x h with h | h
      · rcases mem_insertStr k acc x h with h | h
        · exact Or.inr (by simp [h])
        · exact Or.inl h
      · exact Or.inr (by simp [h])

theorem mem_sortStrs {l : List String} {x : String} (h : x ∈ sortStrs l) : x ∈ l := by
  rcases mem_sortStrs_aux l [] x h with h | h
  · cases h
  · exact h

theorem chunk_step {E : Env} {rec : Rec} {inStr : Bool} {base : List J} {path : List PKey} {ls is_ : Option String}
    {dj : J → List Op → List Op → List PKey → Bool} {c : Chunk} {x y : B}
    (hrec : ∀ bv a a' p sub, dj bv a a' p = true → rec inStr bv (.d a) (.d a') p = .ok sub → AllAC NC sub)
    (hd : chunkDisj dj base path c = true) (hx : AllAC NC x)
    (hy : mergeChunk E rec inStr base path ls is_ x c = .ok y) : AllAC NC y := by
  unfold chunkDisj at hd
  cases h0 : c.d0.isEmpty with
  | true =>
    have : c.d0 = [] := by cases hd0 : c.d0 <;> simp_all
    exact mergeChunk_local_nil (P := NC) rfl this hx hy
  | false =>
    cases h1 : c.d1.isEmpty with
    | true =>
      have : c.d1 = [] := by cases hd1 : c.d1 <;> simp_all
      exact mergeChunk_remote_nil (P := NC) rfl this hx hy
    | false =>
      cases he : Op.pyEqList c.d0 c.d1 with
      | true => exact mergeChunk_pyEq h0 h1 he hx hy
      | false =>
        simp only [h0, h1, he, Bool.or_self, Bool.false_or] at hd
        split at hd
        · rename_i k a k' a' hd0 hd1
          split at hd
          · rename_i bv hbv
            exact mergeChunk_PP hd0 hd1 he hbv (fun sub hs => hrec bv a a' _ sub hd hs) hx hy
          · cases hd
        · cases hd

theorem lists_disj {E : Env} {rec : Rec} {inStr : Bool} {base : List J} {ld rd : List Op} {path : List PKey} {b : B}
    {dj : J → List Op → List Op → List PKey → Bool} {chunks : List Chunk}
    (hch : makeMergeChunks base.length ld rd = .ok chunks)
    (hd : chunks.all (chunkDisj dj base path) = true)
    (hrec : ∀ bv a a' p sub, dj bv a a' p = true → rec inStr bv (.d a) (.d a') p = .ok sub → AllAC NC sub)
    (h : mergeLists E rec inStr base ld rd path = .ok b) : AllAC NC b := by
  refine mergeLists_shape (P := NC) NC.nc (fun chunks' hch' c hc x y _ _ hx hy => ?_) h
  rw [hch] at hch'
  cases hch'
  rw [List.all_eq_true] at hd
  exact chunk_step hrec (hd c hc) hx hy

theorem lookupKV_mem {α} {k : String} {v : α} : ∀ {l : List (String × α)}, lookupKV k l = some v → (k, v) ∈ l
  | [], h => by simp [lookupKV] at h
  | (k', v') :: rest, h => by
      simp only [lookupKV] at h
      split at h
      · rename_i hk
        have : k' = k := by simpa using hk
        cases h; subst this; exact List.mem_cons_self
      · exact List.mem_cons_of_mem _ (lookupKV_mem h)

theorem dicts_disj {E : Env} {rec : Rec} {inStr : Bool} {base : List (String × J)} {ld rd : List Op} {path : List PKey}
    {b : B} {dj : J → List Op → List Op → List PKey → Bool} {l r : List (String × Op)}
    (hl : dictBased ld = .ok l) (hr : dictBased rd = .ok r)
    (hd : l.all (fun kv => match lookupKV kv.1 r with
                | none => true
                | some re => keyDisj dj base path kv.1 kv.2 re) = true)
    (hrec : ∀ bv a a' p sub, dj bv a a' p = true → rec inStr bv (.d a) (.d a') p = .ok sub → AllAC NC sub)
    (h : mergeDicts E rec inStr base ld rd path = .ok b) : AllAC NC b := by
  unfold mergeDicts at h
  simp only [hl, hr, bind, Except.bind] at h
  split at h
  · cases h
  · rename_i v1 hv1
    have h1 : AllAC NC v1 :=
      foldlM_inv (AllAC NC) _ _ [] v1 (fun k _ x y hx hy => onesided_nc hx hy) AllAC.nil hv1
    split at h
    · cases h
    · rename_i v2 hv2
      have h2 : AllAC NC v2 := by
        refine foldlM_inv (AllAC NC) _ _ v1 v2 (fun k _ x y hx hy => ?_) h1 hv2
        split at hy
        · rename_i le re hle hre
          rw [List.all_eq_true] at hd
          have := hd (k, le) (lookupKV_mem hle)
          simp only [hre] at this
          exact dictBoth_disj this (fun bv a a' sub hdj hs => hrec bv a a' _ sub hdj hs) hx hy
        · cases hy
      rw [resolveDict_noconf (noConflict_of NC.nc h2)] at h
      cases h; exact h2

/-- **C06 for the model of the merger**: when the two diffs are disjoint in the sense of `disjF`
    (every list chunk and every dict key is touched by one side only, or by both in the same way,
    or patched by both with sub-diffs that are again disjoint; no string is patched by both sides
    under a text-merging strategy), the merge produces no conflicted decision — for every base,
    strategy table, oracle and nesting depth. -/
theorem merge_disjoint_noConflict (E : Env) : ∀ (fuel : Nat) (inStr : Bool) (base : J) (ld rd : List Op)
    (path : List PKey) (b : B), disjF E.S fuel inStr base ld rd path = true →
    mergeF E fuel inStr base (.d ld) (.d rd) path = .ok b → AllAC NC b
  | 0, _, _, _, _, _, _, hd, _ => by simp [disjF] at hd
  | fuel + 1, inStr, base, ld, rd, path, b, hd, h => by
      have ih := merge_disjoint_noConflict E fuel
      cases base with
      | obj kvs =>
        simp only [disjF] at hd
        simp only [mergeF] at h
        split at hd
        · rename_i l r hl hr
          exact dicts_disj hl hr hd (fun bv a a' p sub hdj hs => ih inStr bv a a' p sub hdj hs) h
        · cases hd
      | arr xs =>
        simp only [disjF] at hd
        simp only [mergeF] at h
        split at hd
        · rename_i chunks hch
          exact lists_disj hch hd (fun bv a a' p sub hdj hs => ih inStr bv a a' p sub hdj hs) h
        · cases hd
      | str s =>
        simp only [disjF, Bool.and_eq_true, Bool.not_eq_true', bne_iff_ne, ne_eq] at hd
        obtain ⟨⟨⟨hin, hs1⟩, hs2⟩, hch⟩ := hd
        subst hin
        simp only [mergeF, mergeStrings, Bool.false_eq_true, if_false, bind, Except.bind] at h
        have e1 : (E.S.get (starPath path) == some "inline-source") = false := by
          simpa using hs1
        have e2 : (E.S.get (starPath path) == some "union") = false := by
          simpa using hs2
        simp only [e1, e2, Bool.false_eq_true, if_false] at h
        split at h
        · cases h
        · rename_i b0 hb0
          simp only [pure, Except.pure, Except.ok.injEq] at h
          split at hch
          · rename_i chunks hmk
            have h0 : AllAC NC b0 :=
              lists_disj hmk hch (fun bv a a' p sub hdj hs => ih true bv a a' p sub hdj hs) hb0
            rw [resolveStrings_noconf (noConflict_of NC.nc h0)] at h
            subst h; exact h0
          · cases hch
      | null => simp [disjF] at hd
      | bool _ => simp [disjF] at hd
      | int _ => simp [disjF] at hd
      | flt _ => simp [disjF] at hd

theorem decideMerge_disjoint_noConflict {E : Env} {base : J} {ld rd : List Op} {ds : List MD}
    (hd : disjoint E.S base ld rd = true) (h : decideMerge E base ld rd = .ok ds) :
    ∀ d ∈ ds, d.conflict = false := by
  unfold decideMerge at h
  simp only [bind, Except.bind] at h
  split at h
  · cases h
  · rename_i b hb
    have h0 : AllAC NC b := merge_disjoint_noConflict E bigFuel false base ld rd [] b hd hb
    rw [resolveGeneric_noconf (noConflict_of NC.nc h0)] at h
    simp only [pure, Except.pure, Except.ok.injEq] at h
    subst h
    exact validated_AllAC h0

end Merge
end Nbdime
