import NbdimeModel
import NbdimeProofs.Lemmas.MergeOrder
/-
  Laws of the merger model (`NbdimeModel/MergeGeneric.lean`) that hold for every input:
  identity (no changes, no decisions), agreement (the same diff on both sides gives only
  `either` decisions), one-sided changes (only `local` / `remote` decisions, none conflicted).
-/
namespace Nbdime
namespace Merge

@[simp] theorem hasConflicted_nil : hasConflicted [] = false := rfl

@[simp] theorem guardOk_nil (s : Option String) : guardOk s [] = false := by
  simp [guardOk]

theorem resolveList_nil (render : Render) (path : List PKey) (base : List J) (s : Option String) :
    resolveList render path base [] s = .ok [] := by
  simp [resolveList]

theorem resolveDict_nil (path : List PKey) (base : List (String × J)) (s : Option String) :
    resolveDict path base [] s = .ok [] := by
  simp [resolveDict]

theorem resolveStrings_nil (s : Option String) : resolveStrings [] s = [] := by
  simp [resolveStrings]

theorem resolveGeneric_nil (s : Option String) : resolveGeneric [] s = [] := by
  simp [resolveGeneric]

theorem makeMergeChunks_nil (n : Nat) :
    makeMergeChunks n [] [] = .ok (if n = 0 then [] else [⟨0, n, [], []⟩]) := by
  cases n with
  | zero => simp [makeMergeChunks, sectionBoundaries, insertNat, splitOnBoundaries, makeChunks, spanKey, bind, Except.bind, pure, Except.pure]
  | succ m =>
    simp [makeMergeChunks, sectionBoundaries, insertNat, splitOnBoundaries, makeChunks, spanKey, bind, Except.bind, pure, Except.pure]

theorem mergeChunk_unchanged (E : Env) (rec : Rec) (inStr : Bool) (base : List J) (path : List PKey)
    (ls is_ : Option String) (b : B) (j k : Nat) :
    mergeChunk E rec inStr base path ls is_ b ⟨j, k, [], []⟩ = .ok b := by
  simp [mergeChunk, chunkSwitch, chunkTypename, pure, Except.pure]

theorem foldChunks_nil (E : Env) (rec : Rec) (inStr : Bool) (base : List J) (path : List PKey)
    (ls is_ : Option String) (n : Nat) :
    List.foldlM (mergeChunk E rec inStr base path ls is_) []
      (if n = 0 then [] else [⟨0, n, [], []⟩]) = .ok [] := by
  split
  · rfl
  · simp [List.foldlM, mergeChunk_unchanged, bind, Except.bind, pure, Except.pure]

theorem mergeLists_nil (E : Env) (rec : Rec) (inStr : Bool) (base : List J) (path : List PKey) :
    mergeLists E rec inStr base [] [] path = .ok [] := by
  unfold mergeLists
  simp only [makeMergeChunks_nil, bind, Except.bind, foldChunks_nil, resolveList_nil]

theorem mergeDicts_nil (E : Env) (rec : Rec) (inStr : Bool) (base : List (String × J)) (path : List PKey) :
    mergeDicts E rec inStr base [] [] path = .ok [] := by
  simp [mergeDicts, dictBased, sortStrs, bind, Except.bind, pure, Except.pure, resolveDict_nil]

/-! ### Python `==` is reflexive on the model's values and diff entries -/

mutual
theorem pyEq_refl : ∀ a : J, J.pyEq a a = true
  | .null => by simp [J.pyEq]
  | .bool _ => by simp [J.pyEq]
  | .int _ => by simp [J.pyEq]
  | .flt _ => by simp [J.pyEq]
  | .str _ => by simp [J.pyEq]
  | .arr xs => by simp [J.pyEq, pyEqList_refl xs]
  | .obj kvs => by simp [J.pyEq, pyEqKvs_refl kvs]
theorem pyEqList_refl : ∀ xs : List J, J.pyEqList xs xs = true
  | [] => by simp [J.pyEqList]
  | x :: xs => by simp [J.pyEqList, pyEq_refl x, pyEqList_refl xs]
theorem pyEqKvs_refl : ∀ kvs : List (String × J), J.pyEqKvs kvs kvs = true
  | [] => by simp [J.pyEqKvs]
  | (k, x) :: xs => by simp [J.pyEqKvs, pyEq_refl x, pyEqKvs_refl xs]
end

mutual
theorem opPyEq_refl : ∀ e : Op, Op.pyEq e e = true
  | .add _ v => by simp [Op.pyEq, pyEq_refl v]
  | .remove _ => by simp [Op.pyEq]
  | .replace _ v => by simp [Op.pyEq, pyEq_refl v]
  | .patchK _ d => by simp [Op.pyEq, opPyEqList_refl d]
  | .addrange _ vs => by simp [Op.pyEq, pyEqList_refl vs]
  | .addchars _ _ => by simp [Op.pyEq]
  | .removerange _ _ => by simp [Op.pyEq]
  | .patchI _ d => by simp [Op.pyEq, opPyEqList_refl d]
  | .invalid _ => by simp [Op.pyEq]
theorem opPyEqList_refl : ∀ d : List Op, Op.pyEqList d d = true
  | [] => by simp [Op.pyEqList]
  | e :: es => by simp [Op.pyEqList, opPyEq_refl e, opPyEqList_refl es]
end

/-! ### what the builder operations add -/

theorem mem_addDecision {b : B} {path : List PKey} {action : String} {ld rd : Option (List Op)} {c : Bool}
    {cu si : Option (List Op)} {st : Option String} {d : MD}
    (h : d ∈ addDecision b path action ld rd c st cu si) : d ∈ b ∨ (d.action = action ∧ d.conflict = c) := by
  unfold addDecision at h
  simp only [List.mem_append, List.mem_singleton] at h
  rcases h with h | h
  · exact Or.inl h
  · right; subst h; exact ⟨rfl, rfl⟩

/-- all decisions satisfy `P`, a predicate on (action, conflict) -/
def AllAC (P : String → Bool → Prop) (b : B) : Prop := ∀ d ∈ b, P d.action d.conflict

theorem AllAC.nil {P} : AllAC P [] := by intro d h; cases h

theorem AllAC.append {P} {a b : B} (ha : AllAC P a) (hb : AllAC P b) : AllAC P (a ++ b) := by
  intro d h; rcases List.mem_append.mp h with h | h
  · exact ha d h
  · exact hb d h

theorem AllAC.add {P} {b : B} (hb : AllAC P b) {path action ld rd c st cu si} (hp : P action c) :
    AllAC P (addDecision b path action ld rd c st cu si) := by
  intro d h
  rcases mem_addDecision h with h | ⟨h1, h2⟩
  · exact hb d h
  · rw [h1, h2]; exact hp

theorem noConflict_of {P : String → Bool → Prop} (hP : ∀ a c, P a c → c = false) {b : B} (h : AllAC P b) :
    hasConflicted b = false := by
  unfold hasConflicted
  rw [Bool.eq_false_iff]
  intro hc
  rw [List.any_eq_true] at hc
  obtain ⟨d, hd, hcd⟩ := hc
  have := hP _ _ (h d hd)
  rw [this] at hcd; cases hcd

theorem guardOk_false {s : Option String} {b : B} (h : hasConflicted b = false) : guardOk s b = false := by
  simp [guardOk, h]

theorem resolveList_noconf {render : Render} {path : List PKey} {base : List J} {b : B} {s : Option String}
    (h : hasConflicted b = false) : resolveList render path base b s = .ok b := by
  simp [resolveList, guardOk_false h]

theorem resolveDict_noconf {path : List PKey} {base : List (String × J)} {b : B} {s : Option String}
    (h : hasConflicted b = false) : resolveDict path base b s = .ok b := by
  simp [resolveDict, guardOk_false h]

theorem resolveStrings_noconf {b : B} {s : Option String} (h : hasConflicted b = false) : resolveStrings b s = b := by
  simp [resolveStrings, guardOk_false h]

theorem resolveGeneric_noconf {b : B} {s : Option String} (h : hasConflicted b = false) : resolveGeneric b s = b := by
  simp [resolveGeneric, guardOk_false h]

/-! ### one-sided and agreed decisions -/

theorem onesided_local {P : String → Bool → Prop} (hP : P "local" false) {b b' : B} {path ld rd}
    (hb : AllAC P b) (hr : nonEmpty rd = false) (h : onesided b path ld rd = .ok b') : AllAC P b' := by
  unfold onesided at h
  cases hl : nonEmpty ld with
  | false => simp [hl, hr] at h
  | true =>
    simp only [hl, hr, Bool.or_false, Bool.and_false, Bool.not_true, Bool.false_eq_true, if_false, if_true,
      Except.ok.injEq] at h
    subst h
    exact hb.add hP

theorem onesided_remote {P : String → Bool → Prop} (hP : P "remote" false) {b b' : B} {path ld rd}
    (hb : AllAC P b) (hl : nonEmpty ld = false) (h : onesided b path ld rd = .ok b') : AllAC P b' := by
  unfold onesided at h
  simp only [hl, Bool.false_or, Bool.false_and, Bool.false_eq_true, if_false] at h
  split at h
  · cases h
  · simp only [Except.ok.injEq] at h
    subst h
    exact hb.add hP

theorem agreement_either {P : String → Bool → Prop} (hP : P "either" false) {b b' : B} {path ld rd}
    (hb : AllAC P b) (h : agreement b path ld rd = .ok b') : AllAC P b' := by
  unfold agreement at h
  split at h
  · cases h
  · split at h
    · cases h
    · simp only [Except.ok.injEq] at h
      subst h
      exact hb.add hP

/-! ### chunks of one-sided and of equal diffs -/

theorem spanKey_nil (j : Nat) : spanKey j [] = ([], []) := rfl

theorem mem_ite_cons {α} {p : Prop} [Decidable p] {a : α} {l : List α} {x : α}
    (h : x ∈ if p then a :: l else l) : x = a ∨ x ∈ l := by
  split at h
  · simpa using h
  · exact Or.inr h

theorem makeChunks_d1_nil : ∀ (bounds : List Nat) (s0 : List Op), ∀ c ∈ makeChunks bounds s0 [], c.d1 = []
  | [], _, c, h => by
      unfold makeChunks at h
      simp at h
  | j :: bs, s0, c, h => by
      unfold makeChunks at h
      simp only [spanKey_nil] at h
      rcases mem_ite_cons h with h | h
      · subst h; rfl
      · exact makeChunks_d1_nil bs _ c h

theorem makeChunks_d0_nil : ∀ (bounds : List Nat) (s1 : List Op), ∀ c ∈ makeChunks bounds [] s1, c.d0 = []
  | [], _, c, h => by
      unfold makeChunks at h
      simp at h
  | j :: bs, s1, c, h => by
      unfold makeChunks at h
      simp only [spanKey_nil] at h
      rcases mem_ite_cons h with h | h
      · subst h; rfl
      · exact makeChunks_d0_nil bs _ c h

theorem makeChunks_same : ∀ (bounds : List Nat) (s : List Op), ∀ c ∈ makeChunks bounds s s, c.d0 = c.d1
  | [], _, c, h => by
      unfold makeChunks at h
      simp at h
  | j :: bs, s, c, h => by
      unfold makeChunks at h
      simp only [spanKey_nil] at h
      rcases mem_ite_cons h with h | h
      · subst h; rfl
      · exact makeChunks_same bs _ c h

theorem splitOnBoundaries_nil (bs : List Nat) : splitOnBoundaries [] bs [] = .ok [] := rfl

/-- what `makeMergeChunks` returns is `makeChunks` of the split diffs -/
theorem makeMergeChunks_eq {n : Nat} {d0 d1 : List Op} {chunks : List Chunk}
    (h : makeMergeChunks n d0 d1 = .ok chunks) :
    ∃ bounds s0 s1, splitOnBoundaries d0 bounds [] = .ok s0 ∧ splitOnBoundaries d1 bounds [] = .ok s1 ∧
      chunks = makeChunks bounds s0 s1 := by
  unfold makeMergeChunks at h
  simp only [bind, Except.bind] at h
  split at h
  · cases h
  · rename_i s0 hs0
    split at h
    · cases h
    · rename_i s1 hs1
      refine ⟨_, s0, s1, hs0, hs1, ?_⟩
      split at h
      · split at h
        · split at h
          · cases h
          · split at h
            · cases h
            · simp only [pure, Except.pure, Except.ok.injEq] at h; exact h.symm
        · cases h
      · simp only [pure, Except.pure, Except.ok.injEq] at h; exact h.symm

theorem chunks_remote_nil {n : Nat} {d0 : List Op} {chunks : List Chunk}
    (h : makeMergeChunks n d0 [] = .ok chunks) : ∀ c ∈ chunks, c.d1 = [] := by
  obtain ⟨bounds, s0, s1, _, h1, hc⟩ := makeMergeChunks_eq h
  rw [splitOnBoundaries_nil] at h1
  cases h1
  subst hc
  exact makeChunks_d1_nil _ _

theorem chunks_local_nil {n : Nat} {d1 : List Op} {chunks : List Chunk}
    (h : makeMergeChunks n [] d1 = .ok chunks) : ∀ c ∈ chunks, c.d0 = [] := by
  obtain ⟨bounds, s0, s1, h0, _, hc⟩ := makeMergeChunks_eq h
  rw [splitOnBoundaries_nil] at h0
  cases h0
  subst hc
  exact makeChunks_d0_nil _ _

theorem chunks_same {n : Nat} {d : List Op} {chunks : List Chunk}
    (h : makeMergeChunks n d d = .ok chunks) : ∀ c ∈ chunks, c.d0 = c.d1 := by
  obtain ⟨bounds, s0, s1, h0, h1, hc⟩ := makeMergeChunks_eq h
  rw [h0] at h1
  cases h1
  subst hc
  exact makeChunks_same _ _

theorem foldlM_inv {α β : Type} (Inv : β → Prop) (f : β → α → Except Err β) :
    ∀ (l : List α) (b b' : β), (∀ a ∈ l, ∀ x y, Inv x → f x a = .ok y → Inv y) → Inv b →
      l.foldlM f b = .ok b' → Inv b'
  | [], b, b', _, hb, h => by
      simp only [List.foldlM, pure, Except.pure, Except.ok.injEq] at h; subst h; exact hb
  | a :: l, b, b', hstep, hb, h => by
      simp only [List.foldlM, bind, Except.bind] at h
      split at h
      · cases h
      · rename_i y hy
        exact foldlM_inv Inv f l y b' (fun a' ha' => hstep a' (List.mem_cons_of_mem _ ha'))
          (hstep a (List.mem_cons_self) b y hb hy) h

theorem mergeChunk_remote_nil {P : String → Bool → Prop} (hP : P "local" false) {E : Env} {rec : Rec} {inStr : Bool}
    {base : List J} {path : List PKey} {ls is_ : Option String} {b b' : B} {c : Chunk} (hc : c.d1 = [])
    (hb : AllAC P b) (h : mergeChunk E rec inStr base path ls is_ b c = .ok b') : AllAC P b' := by
  unfold mergeChunk chunkSwitch at h
  simp only [hc, chunkTypename, List.isEmpty_nil, Bool.not_true, Bool.and_false, Bool.not_false, if_true] at h
  split at h
  · simp only [pure, Except.pure, Except.ok.injEq] at h; subst h; exact hb
  · exact onesided_local hP hb rfl h

theorem mergeChunk_local_nil {P : String → Bool → Prop} (hP : P "remote" false) {E : Env} {rec : Rec} {inStr : Bool}
    {base : List J} {path : List PKey} {ls is_ : Option String} {b b' : B} {c : Chunk} (hc : c.d0 = [])
    (hb : AllAC P b) (h : mergeChunk E rec inStr base path ls is_ b c = .ok b') : AllAC P b' := by
  unfold mergeChunk chunkSwitch at h
  simp only [hc, chunkTypename, List.isEmpty_nil, Bool.not_true, Bool.false_and, Bool.not_false, if_true] at h
  split at h
  · simp only [pure, Except.pure, Except.ok.injEq] at h; subst h; exact hb
  · exact onesided_remote hP hb rfl h

theorem mergeChunk_same {P : String → Bool → Prop} (hP : P "either" false) {E : Env} {rec : Rec} {inStr : Bool}
    {base : List J} {path : List PKey} {ls is_ : Option String} {b b' : B} {c : Chunk} (hc : c.d0 = c.d1)
    (hb : AllAC P b) (h : mergeChunk E rec inStr base path ls is_ b c = .ok b') : AllAC P b' := by
  unfold mergeChunk chunkSwitch at h
  simp only [hc, opPyEqList_refl, if_true] at h
  split at h
  · simp only [pure, Except.pure, Except.ok.injEq] at h; subst h; exact hb
  · split at h
    · -- both empty: `onesided` rejects two empty diffs
      rename_i hemp
      have : c.d1 = [] := by
        cases hd : c.d1 with
        | nil => rfl
        | cons x xs => simp [hd] at hemp
      simp [this, onesided, nonEmpty] at h
    · exact agreement_either hP hb h

/-! ### lists -/

def PLocal : String → Bool → Prop := fun a c => a = "local" ∧ c = false
def PRemote : String → Bool → Prop := fun a c => a = "remote" ∧ c = false
def PEither : String → Bool → Prop := fun a c => a = "either" ∧ c = false

theorem PLocal.nc : ∀ a c, PLocal a c → c = false := fun _ _ h => h.2
theorem PRemote.nc : ∀ a c, PRemote a c → c = false := fun _ _ h => h.2
theorem PEither.nc : ∀ a c, PEither a c → c = false := fun _ _ h => h.2

theorem mergeLists_shape {P : String → Bool → Prop} (hnc : ∀ a c, P a c → c = false)
    {E : Env} {rec : Rec} {inStr : Bool} {base : List J} {ld rd : List Op} {path : List PKey} {b : B}
    (hstep : ∀ chunks, makeMergeChunks base.length ld rd = .ok chunks → ∀ c ∈ chunks, ∀ x y ls is_, AllAC P x →
      mergeChunk E rec inStr base path ls is_ x c = .ok y → AllAC P y)
    (h : mergeLists E rec inStr base ld rd path = .ok b) : AllAC P b := by
  unfold mergeLists at h
  simp only [bind, Except.bind] at h
  split at h
  · cases h
  · rename_i chunks hch
    split at h
    · cases h
    · rename_i b0 hb0
      have h0 : AllAC P b0 :=
        foldlM_inv (AllAC P) _ chunks [] b0 (fun c hc x y hx hy => hstep chunks hch c hc x y _ _ hx hy) AllAC.nil hb0
      rw [resolveList_noconf (noConflict_of hnc h0)] at h
      cases h; exact h0

theorem mergeLists_onesided_local {E : Env} {rec : Rec} {inStr : Bool} {base : List J} {ld : List Op}
    {path : List PKey} {b : B} (h : mergeLists E rec inStr base ld [] path = .ok b) : AllAC PLocal b :=
  mergeLists_shape PLocal.nc (fun _ hch c hc _ _ _ _ hx hy =>
    mergeChunk_remote_nil (P := PLocal) ⟨rfl, rfl⟩ (chunks_remote_nil hch c hc) hx hy) h

theorem mergeLists_onesided_remote {E : Env} {rec : Rec} {inStr : Bool} {base : List J} {rd : List Op}
    {path : List PKey} {b : B} (h : mergeLists E rec inStr base [] rd path = .ok b) : AllAC PRemote b :=
  mergeLists_shape PRemote.nc (fun _ hch c hc _ _ _ _ hx hy =>
    mergeChunk_local_nil (P := PRemote) ⟨rfl, rfl⟩ (chunks_local_nil hch c hc) hx hy) h

theorem mergeLists_agreement {E : Env} {rec : Rec} {inStr : Bool} {base : List J} {d : List Op}
    {path : List PKey} {b : B} (h : mergeLists E rec inStr base d d path = .ok b) : AllAC PEither b :=
  mergeLists_shape PEither.nc (fun _ hch c hc _ _ _ _ hx hy =>
    mergeChunk_same (P := PEither) ⟨rfl, rfl⟩ (chunks_same hch c hc) hx hy) h

/-! ### dicts -/


theorem filter_false_nil {α} (l : List α) : List.filter (fun _ => false) l = [] := by
  induction l <;> simp_all

theorem mergeDicts_onesided_local {E : Env} {rec : Rec} {inStr : Bool} {base : List (String × J)} {ld : List Op}
    {path : List PKey} {b : B} (h : mergeDicts E rec inStr base ld [] path = .ok b) : AllAC PLocal b := by
  unfold mergeDicts at h
  simp only [bind, Except.bind] at h
  split at h
  · cases h
  · rename_i l hl
    simp only [dictBased, List.map_nil, List.contains_nil, Bool.not_false, List.filter_nil, List.append_nil,
      sortStrs, pure, Except.pure, filter_false_nil, List.foldl_nil, List.foldlM_nil] at h
    split at h
    · cases h
    · rename_i v hv
      have h0 : AllAC PLocal v :=
        foldlM_inv (AllAC PLocal) _ _ [] v (fun k _ x y hx hy =>
          onesided_local (P := PLocal) ⟨rfl, rfl⟩ hx rfl hy) AllAC.nil hv
      rw [resolveDict_noconf (noConflict_of PLocal.nc h0)] at h
      cases h; exact h0

theorem mergeDicts_onesided_remote {E : Env} {rec : Rec} {inStr : Bool} {base : List (String × J)} {rd : List Op}
    {path : List PKey} {b : B} (h : mergeDicts E rec inStr base [] rd path = .ok b) : AllAC PRemote b := by
  unfold mergeDicts at h
  simp only [bind, Except.bind, dictBased, pure, Except.pure] at h
  split at h
  · cases h
  · rename_i r hr
    simp only [List.map_nil, List.contains_nil, Bool.not_false, List.filter_nil, List.nil_append,
      sortStrs, List.foldl_nil, List.foldlM_nil] at h
    split at h
    · cases h
    · rename_i v hv
      have h0 : AllAC PRemote v :=
        foldlM_inv (AllAC PRemote) _ _ [] v (fun k _ x y hx hy =>
          onesided_remote (P := PRemote) ⟨rfl, rfl⟩ hx rfl hy) AllAC.nil hv
      simp only [pure, Except.pure] at h
      rw [resolveDict_noconf (noConflict_of PRemote.nc h0)] at h
      cases h; exact h0


theorem filter_not_contains_self (l : List String) : l.filter (fun k => !l.contains k) = [] := by
  rw [List.filter_eq_nil_iff]
  intro a ha
  simpa using ha

theorem dictBoth_same {E : Env} {rec : Rec} {inStr : Bool} {base : List (String × J)} {path : List PKey}
    {spath : String} {b b' : B} {key : String} {e : Op} (hb : AllAC PEither b)
    (h : dictBoth E rec inStr base path spath b key e e = .ok b') : AllAC PEither b' := by
  unfold dictBoth at h
  simp only [bind, Except.bind, pure, Except.pure] at h
  split at h
  · -- a parent_deleted entry is not a patch: rejected
    rename_i hpd
    have : isPatchOp e = false := by
      cases e <;> simp [isPD] at hpd <;> rfl
    simp [this, throw, throwThe, MonadExceptOf.throw] at h
  · split at h
    · rename_i hr
      have hr' : isRemoveOp e = true := by simpa using hr
      simp only [hr', Bool.and_self, if_true] at h
      exact agreement_either (P := PEither) ⟨rfl, rfl⟩ hb h
    · simp only [bne_self_eq_false, Bool.false_eq_true, if_false, opPyEq_refl, if_true] at h
      exact agreement_either (P := PEither) ⟨rfl, rfl⟩ hb h

theorem mergeDicts_agreement {E : Env} {rec : Rec} {inStr : Bool} {base : List (String × J)} {d : List Op}
    {path : List PKey} {b : B} (h : mergeDicts E rec inStr base d d path = .ok b) : AllAC PEither b := by
  unfold mergeDicts at h
  simp only [bind, Except.bind] at h
  split at h
  · cases h
  · rename_i l hl
    simp only [filter_not_contains_self, List.append_nil, sortStrs, List.foldl_nil, List.foldlM_nil, pure,
      Except.pure] at h
    split at h
    · cases h
    · rename_i v hv
      have h0 : AllAC PEither v := by
        refine foldlM_inv (AllAC PEither) _ _ [] v (fun k _ x y hx hy => ?_) AllAC.nil hv
        split at hy
        · rename_i le re h1 h2
          rw [h1] at h2; cases h2
          exact dictBoth_same hx hy
        · cases hy
      rw [resolveDict_noconf (noConflict_of PEither.nc h0)] at h
      cases h; exact h0

/-! ### the whole decision procedure -/

def IsContainer : J → Prop
  | .obj _ => True
  | .arr _ => True
  | _ => False

theorem mem_sortDesc : ∀ (b : B) (d : MD), d ∈ sortDesc b → d ∈ b
  | [], d, h => by simp [sortDesc] at h
  | x :: rest, d, h => by
      simp only [sortDesc, List.foldr] at h
      rcases mem_insertDesc x _ d h with h | h
      · subst h; exact List.mem_cons_self
      · exact List.mem_cons_of_mem _ (mem_sortDesc rest d h)

theorem validated_AllAC {P : String → Bool → Prop} {b : B} (h : AllAC P b) : AllAC P (validated b) := by
  intro d hd
  unfold validated at hd
  have := mem_sortDesc _ d hd
  rw [List.mem_map] at this
  obtain ⟨x, hx, rfl⟩ := this
  exact h x hx

theorem bigFuel_succ : ∃ n, bigFuel = n + 1 := ⟨99999, rfl⟩

theorem decideMerge_shape {P : String → Bool → Prop} (hnc : ∀ a c, P a c → c = false) {E : Env} {base : J}
    {ld rd : List Op} {ds : List MD}
    (hl : ∀ rec xs b, mergeLists E rec false xs ld rd [] = .ok b → AllAC P b)
    (hd : ∀ rec kvs b, mergeDicts E rec false kvs ld rd [] = .ok b → AllAC P b)
    (hc : IsContainer base) (h : decideMerge E base ld rd = .ok ds) : AllAC P ds := by
  unfold decideMerge at h
  obtain ⟨n, hn⟩ := bigFuel_succ
  rw [hn] at h
  simp only [bind, Except.bind] at h
  split at h
  · cases h
  · rename_i b hb
    have h0 : AllAC P b := by
      cases base with
      | obj kvs => exact hd _ kvs b (by simpa [mergeF] using hb)
      | arr xs => exact hl _ xs b (by simpa [mergeF] using hb)
      | null => cases hc
      | bool _ => cases hc
      | int _ => cases hc
      | flt _ => cases hc
      | str _ => cases hc
    rw [resolveGeneric_noconf (noConflict_of hnc h0)] at h
    simp only [pure, Except.pure, Except.ok.injEq] at h
    subst h
    exact validated_AllAC h0

/-- **identity**: merging with no change on either side produces no decision, under every strategy table -/
theorem decideMerge_identity (E : Env) (base : J) (hc : IsContainer base) : decideMerge E base [] [] = .ok [] := by
  unfold decideMerge
  obtain ⟨n, hn⟩ := bigFuel_succ
  rw [hn]
  cases base with
  | obj kvs => simp [mergeF, mergeDicts_nil, bind, Except.bind, resolveGeneric_nil, validated, sortDesc, pure, Except.pure]
  | arr xs => simp [mergeF, mergeLists_nil, bind, Except.bind, resolveGeneric_nil, validated, sortDesc, pure, Except.pure]
  | null => cases hc
  | bool _ => cases hc
  | int _ => cases hc
  | flt _ => cases hc
  | str _ => cases hc

/-- **one-sided change (local)**: only `local` decisions, none conflicted, under every strategy table -/
theorem decideMerge_onesided_local {E : Env} {base : J} {ld : List Op} {ds : List MD} (hc : IsContainer base)
    (h : decideMerge E base ld [] = .ok ds) : ∀ d ∈ ds, d.action = "local" ∧ d.conflict = false :=
  decideMerge_shape PLocal.nc (fun _ _ _ => mergeLists_onesided_local) (fun _ _ _ => mergeDicts_onesided_local) hc h

/-- **one-sided change (remote)** -/
theorem decideMerge_onesided_remote {E : Env} {base : J} {rd : List Op} {ds : List MD} (hc : IsContainer base)
    (h : decideMerge E base [] rd = .ok ds) : ∀ d ∈ ds, d.action = "remote" ∧ d.conflict = false :=
  decideMerge_shape PRemote.nc (fun _ _ _ => mergeLists_onesided_remote) (fun _ _ _ => mergeDicts_onesided_remote) hc h

/-- **agreement**: the same diff on both sides gives only `either` decisions, none conflicted -/
theorem decideMerge_agreement {E : Env} {base : J} {d : List Op} {ds : List MD} (hc : IsContainer base)
    (h : decideMerge E base d d = .ok ds) : ∀ x ∈ ds, x.action = "either" ∧ x.conflict = false :=
  decideMerge_shape PEither.nc (fun _ _ _ => mergeLists_agreement) (fun _ _ _ => mergeDicts_agreement) hc h

end Merge
end Nbdime
