import NbdimeModel
/- `str.splitlines(True)` loses nothing: joining the lines gives the string back. -/
namespace Nbdime

/-- joining what `str.splitlines(True)` returns gives the string back -/
theorem splitLinesAux_flatten (s cur : List Char) :
    (splitLinesAux s cur).flatten = cur.reverse ++ s := by
  fun_induction splitLinesAux s cur with
  | case1 cur h => have : cur = [] := by simpa using h
                   simp [this]
  | case2 cur h => simp
  | case3 rest cur ih => simp [ih]
  | case4 c rest cur hne hsep ih => simp [ih]
  | case5 c rest cur hne hsep ih => simp [ih]

theorem join_splitLines (s : List Char) : (splitLines s).flatten = s := by
  simp [splitLines, splitLinesAux_flatten]

end Nbdime
