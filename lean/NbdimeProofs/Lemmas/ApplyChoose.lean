import NbdimeProofs.Lemmas.KeywiseMore
/-
  C09, "choosing one side for every decision reproduces that side", for key-wise merges of a root object:
  `apply_decisions` with every decision switched to local (remote) patches base with the local (remote) diff.
  Decisions of the other side then carry an empty diff: at the root they contribute nothing, below a key they
  are an identity patch of that key (`patch_identity`).
-/
set_option linter.unusedSimpArgs false
set_option linter.unusedVariables false
namespace Nbdime
open Nbdime.Abs Nbdime.Merge

/-- two mapping diffs with pairwise different keys have the same effect on `base` if they say the same about every key -/
theorem patch_table_ext (base : List (String × J)) (hb : SK base) (A B : List Op)
    (hndA : (A.map Op.skey).Nodup) (hndB : (B.map Op.skey).Nodup)
    (hA : ∀ e ∈ A, e.isMapOp = true ∧ (mapEff base e).isSome = true)
    (hB : ∀ e ∈ B, e.isMapOp = true ∧ (mapEff base e).isSome = true)
    (hsame : ∀ x, (match lookupKV x (keyed A) with
                   | some e => (mapEff base e).getD none
                   | none => lookupKV x base) =
                  (match lookupKV x (keyed B) with
                   | some e => (mapEff base e).getD none
                   | none => lookupKV x base)) :
    patch (.obj base) A = patch (.obj base) B := by
  obtain ⟨RA, hRA, hskA, hlkA⟩ := patchDict_table base hb.dk (keyed A) [] [] (keyed_dk hndA)
    (fun p hp => by
      obtain ⟨e, he, rfl⟩ := List.mem_map.mp hp
      exact ⟨rfl, (hA e he).1, (hA e he).2⟩)
    (fun p _ => ⟨rfl, rfl⟩)
  obtain ⟨RB, hRB, hskB, hlkB⟩ := patchDict_table base hb.dk (keyed B) [] [] (keyed_dk hndB)
    (fun p hp => by
      obtain ⟨e, he, rfl⟩ := List.mem_map.mp hp
      exact ⟨rfl, (hB e he).1, (hB e he).2⟩)
    (fun p _ => ⟨rfl, rfl⟩)
  rw [keyed_map_snd] at hRA hRB
  rw [patch, patch]
  simp only [hRA, hRB, bind, Except.bind]
  congr 2
  apply sk_ext RA RB hskA hskB
  intro x
  rw [hlkA x, hlkB x]
  simp only [hasKey, lookupKV, Option.isSome_none, Bool.false_eq_true, if_false, List.contains_nil]
  exact hsame x

/-- the path leads to a container (or to a line of a string) -/
def pathOk : J → List PKey → Bool
  | doc, [] => doc.isContainer
  | .obj kvs, .s k :: q => match lookupKV k kvs with
      | some v => pathOk v q
      | none => false
  | .arr xs, .i n :: q => match xs[n]? with
      | some v => pathOk v q
      | none => false
  | .str s, [.i n] => ((splitLines s)[n]?).isSome
  | _, _ => false

theorem wf_container {doc : J} {x : List Op} (h : wf doc x = true) : doc.isContainer = true := by
  cases doc <;> first | rfl | (unfold wf at h; simp at h)

theorem wfAt_pathOk : ∀ (q : List PKey) (doc : J) (x : List Op), wfAt doc q x = true → pathOk doc q = true
  | [], doc, x, h => by
      have : wfAt doc [] x = wf doc x := by cases doc <;> rfl
      rw [this] at h
      have := wf_container h
      cases doc <;> simp_all [pathOk]
  | k :: q, doc, x, h => by
      cases doc with
      | obj kvs =>
        cases k with
        | s key =>
          simp only [wfAt] at h
          simp only [pathOk]
          cases hl : lookupKV key kvs with
          | none => simp [hl] at h
          | some v =>
            simp only [hl] at h ⊢
            exact wfAt_pathOk q v x h
        | i n => simp [wfAt] at h
      | arr xs =>
        cases k with
        | i n =>
          simp only [wfAt] at h
          simp only [pathOk]
          cases hl : xs[n]? with
          | none => simp [hl] at h
          | some v =>
            simp only [hl] at h ⊢
            exact wfAt_pathOk q v x h
        | s key => simp [wfAt] at h
      | str s =>
        cases k with
        | i n =>
          cases q with
          | nil =>
            simp only [wfAt] at h
            simp only [pathOk]
            cases hl : (splitLines s)[n]? with
            | none => simp [hl] at h
            | some l => rfl
          | cons k2 q2 => simp [wfAt] at h
        | s key => simp [wfAt] at h
      | null => simp [wfAt] at h
      | bool _ => simp [wfAt] at h
      | int _ => simp [wfAt] at h
      | flt _ => simp [wfAt] at h

theorem patch_nil_ok (a : J) (hc : a.canonical = true) (hcont : a.isContainer = true) : patch a [] = .ok a := by
  cases a with
  | obj kvs =>
    simp only [J.canonical, Bool.and_eq_true] at hc
    rw [patch]
    simp only [bind, Except.bind]
    rw [patchDict]
    have hf : kvs.filter (fun kv => !([] : List String).contains kv.1 && !hasKey kv.1 ([] : List (String × J))) = kvs := by
      apply List.filter_eq_self.mpr
      intro x _
      simp [hasKey, lookupKV]
    simp only [List.reverse_nil, List.nil_append, hf, sortKV_of_sorted kvs (keysSorted_sk kvs hc.1)]
  | arr xs =>
    rw [patch]
    simp only [bind, Except.bind]
    rw [patchList]
    simp
  | str s =>
    rw [patch]
    simp only [patchString_nil, bind, Except.bind]
  | null => simp [J.isContainer] at hcont
  | bool _ => simp [J.isContainer] at hcont
  | int _ => simp [J.isContainer] at hcont
  | flt _ => simp [J.isContainer] at hcont

theorem insertKV_lookup_self {α} (k : String) (v : α) : ∀ (m : List (String × α)), SK m → lookupKV k m = some v →
    insertKV k v m = m := by
  intro m hm hl
  apply sk_ext _ _ (insertKV_sorted _ _ _ hm) hm
  intro x
  rw [lookupKV_insertKV]
  by_cases hx : x = k
  · subst hx; simp [hl]
  · simp [hx]

/-- an empty diff pushed down an existing path changes nothing -/
theorem patch_identity : ∀ (q : List PKey) (doc : J), doc.canonical = true → pathOk doc q = true →
    patch doc (pushPath q []) = .ok doc
  | [], doc, hc, hp => patch_nil_ok doc hc (by cases doc <;> simp_all [pathOk])
  | k :: q, doc, hc, hp => by
      have hpp : pushPath (k :: q) [] = [opPatchKey k (pushPath q [])] := rfl
      rw [hpp]
      cases doc with
      | obj kvs =>
        cases k with
        | s key =>
          simp only [pathOk] at hp
          cases hl : lookupKV key kvs with
          | none => simp [hl] at hp
          | some v =>
            simp only [hl] at hp
            simp only [J.canonical, Bool.and_eq_true] at hc
            have hsk : SK kvs := keysSorted_sk kvs hc.1
            have cv : v.canonical = true := canonicalKvs_mem kvs hc.2 _ (lookupKV_mem key v kvs hl)
            rw [opPatchKey, patch_obj_patchK kvs hsk key _ v v hl (patch_identity q v cv hp),
              insertKV_lookup_self key v kvs hsk hl]
        | i n => simp [pathOk] at hp
      | arr xs =>
        cases k with
        | i n =>
          simp only [pathOk] at hp
          cases hl : xs[n]? with
          | none => simp [hl] at hp
          | some v =>
            simp only [hl] at hp
            have cv : v.canonical = true := by
              simp only [J.canonical] at hc
              exact canonicalList_mem xs hc v (List.mem_of_getElem? hl)
            rw [opPatchKey, patch_arr_patchI xs n _ v v hl (patch_identity q v cv hp)]
            congr 2
            apply List.ext_getElem?
            intro i
            rw [List.getElem?_set]
            by_cases hi : n = i
            · subst hi
              have hn : n < xs.length := by
                rcases Nat.lt_or_ge n xs.length with h | h
                · exact h
                · rw [List.getElem?_eq_none h] at hl; cases hl
              have : xs[n] = v := by
                have := List.getElem?_eq_getElem hn
                rw [hl] at this
                exact (Option.some.inj this).symm
              simp [hn, this]
            · simp [hi]
        | s key => simp [pathOk] at hp
      | str s =>
        cases k with
        | i n =>
          cases q with
          | nil =>
            simp only [pathOk] at hp
            have hn : n < (splitLines s).length := by
              rcases Nat.lt_or_ge n (splitLines s).length with h | h
              · exact h
              · rw [List.getElem?_eq_none h] at hp; cases hp
            have hoff := lineOffsets_get (splitLines s) 0 n (by omega)
            show patch (.str s) [.patchI n []] = .ok (.str s)
            rw [patch]
            simp [patchString, flatten, flattenOps, hoff, combineOps, sortByIdx, patchChars, bind, Except.bind, pure,
              Except.pure]
          | cons k2 q2 => simp [pathOk] at hp
        | s key => simp [pathOk] at hp
      | null => simp [pathOk] at hp
      | bool _ => simp [pathOk] at hp
      | int _ => simp [pathOk] at hp
      | flt _ => simp [pathOk] at hp

/-! ### choosing a side -/

def sideName (loc : Bool) : String := if loc then "local" else "remote"

/-- `chooseSide` on the merger's decisions -/
def Merge.MD.choose (loc : Bool) (d : MD) : MD :=
  { d with action := sideName loc, localDiff := some (d.localDiff.getD []), remoteDiff := some (d.remoteDiff.getD []) }

theorem choose_toDecision (loc : Bool) (d : MD) : (d.choose loc).toDecision = chooseSide (sideName loc) d.toDecision := rfl

theorem insertDesc_map (f : MD → MD) (hf : ∀ d, (f d).path = d.path) (e : MD) : ∀ (l : List MD),
    insertDesc (f e) (l.map f) = (insertDesc e l).map f
  | [] => rfl
  | x :: rest => by
      have hk : keyLt (sortKeyOf (f e)) (sortKeyOf (f x)) = keyLt (sortKeyOf e) (sortKeyOf x) := by
        simp only [sortKeyOf, hf]
      by_cases hlt : keyLt (sortKeyOf e) (sortKeyOf x) = true
      · simp only [List.map_cons, insertDesc, hk, hlt, if_true]
        rw [insertDesc_map f hf e rest]
      · simp only [List.map_cons, insertDesc, hk, hlt, if_false, Bool.false_eq_true]

theorem sortDesc_map (f : MD → MD) (hf : ∀ d, (f d).path = d.path) : ∀ (b : List MD),
    sortDesc (b.map f) = (sortDesc b).map f
  | [] => rfl
  | x :: rest => by
      simp only [sortDesc, List.map_cons, List.foldr_cons]
      have ih := sortDesc_map f hf rest
      simp only [sortDesc] at ih
      rw [ih, insertDesc_map f hf]

/-- the diff the chosen side gives a decision -/
def pick (loc : Bool) (d : MD) : List Op := if loc then d.localDiff.getD [] else d.remoteDiff.getD []

/-- the entries a decision stands for once a side is chosen -/
def chosenEntries (loc : Bool) (d : MD) : List Op :=
  match d.path with
  | [] => pick loc d
  | .s k :: q' => [.patchK k (pushPath q' (pick loc d))]
  | _ => []

/-- is the decision of kind `s` dropped (its diff replaced by the empty one) when `loc` is chosen? -/
def dropped (loc : Bool) : Side → Bool
  | .loc => !loc
  | .rem => loc
  | .both => false

theorem choose_res (loc : Bool) (d : MD) : Res ((d.choose loc).toDecision) d.path (pick loc (d.choose loc)) := by
  cases loc
  · refine ⟨rfl, by show ("remote" == "clear_all") = false; decide, fun base => ?_⟩
    exact resolve_remote base _ _ rfl (by simp [Merge.MD.choose, MD.toDecision, pick])
  · refine ⟨rfl, by show ("local" == "clear_all") = false; decide, fun base => ?_⟩
    exact resolve_local base _ _ rfl (by simp [Merge.MD.choose, MD.toDecision, pick])

theorem pick_choose_sideMD (loc : Bool) (s : Side) (q : List PKey) (x : List Op) :
    pick loc ((sideMD s q x).choose loc) = if dropped loc s then [] else x := by
  cases loc <;> cases s <;> simp [pick, Merge.MD.choose, sideMD, dropped]

/-- what a chosen decision of `mkSide s e` stands for -/
theorem chosen_mkSide (loc : Bool) (s : Side) {e : Op} (hm : e.isMapOp = true) :
    EntL ((mkSide s e).choose loc) (chosenEntries loc ((mkSide s e).choose loc)) ∧
    (dropped loc s = false → chosenEntries loc ((mkSide s e).choose loc) = [e]) ∧
    (dropped loc s = true → chosenEntries loc ((mkSide s e).choose loc) = [] ∨
      ∃ k q', e.skey = k ∧ (∃ x, e = .patchK k (pushPath q' x)) ∧
        chosenEntries loc ((mkSide s e).choose loc) = [.patchK k (pushPath q' [])]) := by
  rcases mapOp_cases hm with hp | ⟨k, dd, rfl⟩
  · rw [mkSide_plain s hp]
    have hpath : ((sideMD s [] [e]).choose loc).path = [] := rfl
    have hce : chosenEntries loc ((sideMD s [] [e]).choose loc) = if dropped loc s then [] else [e] := by
      simp only [chosenEntries, hpath, pick_choose_sideMD]
    refine ⟨?_, ?_, ?_⟩
    · refine Or.inl ⟨?_, hpath, ?_⟩
      · intro o ho
        rw [hce] at ho
        split at ho
        · cases ho
        · simp at ho; subst ho; exact hp
      · have := choose_res loc (sideMD s [] [e])
        simp only [chosenEntries, hpath]
        exact this
    · intro hd; rw [hce, hd]; simp
    · intro hd; left; rw [hce, hd]; simp
  · obtain ⟨q', x, hmk, hpush⟩ := mkSide_patch s k dd
    rw [hmk]
    have hpath : ((sideMD s (PKey.s k :: q') x).choose loc).path = PKey.s k :: q' := rfl
    have hce : chosenEntries loc ((sideMD s (PKey.s k :: q') x).choose loc) =
        [.patchK k (pushPath q' (if dropped loc s then [] else x))] := by
      simp only [chosenEntries, hpath, pick_choose_sideMD]
    refine ⟨?_, ?_, ?_⟩
    · refine Or.inr ⟨k, q', pick loc ((sideMD s (PKey.s k :: q') x).choose loc), hpath, by rw [hce, pick_choose_sideMD], ?_⟩
      exact choose_res loc (sideMD s (PKey.s k :: q') x)
    · intro hd; rw [hce, hd]; simp [hpush]
    · intro hd; right
      exact ⟨k, q', rfl, ⟨x, by rw [hpush]⟩, by rw [hce, hd]; simp⟩

theorem flatMap_nodup_keys {α β} (g : α → List β) (h : α → β) : ∀ (b : List α),
    (∀ d ∈ b, g d = [] ∨ g d = [h d]) → (b.map h).Nodup → (b.flatMap g).Nodup ∧ ∀ y ∈ b.flatMap g, y ∈ b.map h
  | [], _, _ => ⟨by simp, fun _ hy => by simp at hy⟩
  | d :: rest, hg, hn => by
      simp only [List.map_cons, List.nodup_cons] at hn
      obtain ⟨ih1, ih2⟩ := flatMap_nodup_keys g h rest (fun x hx => hg x (List.mem_cons_of_mem _ hx)) hn.2
      rcases hg d List.mem_cons_self with h0 | h1
      · simp only [List.flatMap_cons, h0, List.nil_append]
        exact ⟨ih1, fun y hy => List.mem_cons_of_mem _ (ih2 y hy)⟩
      · simp only [List.flatMap_cons, h1, List.singleton_append, List.nodup_cons]
        refine ⟨⟨fun hm => hn.1 (ih2 _ hm), ih1⟩, ?_⟩
        intro y hy
        rcases List.mem_cons.mp hy with rfl | hy
        · exact List.mem_cons_self
        · exact List.mem_cons_of_mem _ (ih2 y hy)


/-- the identity patch a dropped deep decision leaves behind is applicable and changes nothing -/
theorem identity_entry (base : List (String × J)) (hc : J.canonicalKvs base = true) (k : String) (q' : List PKey) (x : List Op)
    (hok : entryOk base (.patchK k (pushPath q' x)) = true) :
    ∃ v, lookupKV k base = some v ∧ patch v (pushPath q' []) = .ok v := by
  simp only [entryOk, Bool.and_eq_true, Bool.not_eq_true'] at hok
  cases hl : lookupKV k base with
  | none => simp [hl] at hok
  | some v =>
    simp only [hl, Bool.and_eq_true] at hok
    have cv : v.canonical = true := canonicalKvs_mem base hc _ (lookupKV_mem k v base hl)
    refine ⟨v, rfl, patch_identity q' v cv ?_⟩
    cases q' with
    | nil => simpa [pathOk] using hok.2.1
    | cons k2 q2 => exact wfAt_pathOk _ v x (wf_pushPath (k2 :: q2) v x (by simp) hok.2.2)

/-- **choosing a side for every decision of a key-wise merge reproduces that side** (C09): with every decision
    switched to local (`loc = true`) or remote (`loc = false`), `apply_decisions` patches base with that side's diff -/
theorem keywise_choose (loc : Bool) (E : Env) (base : List (String × J)) (ld rd : List Op) (ds : List MD) (X : J)
    (hc : (J.obj base).canonical = true) (hwfL : wf (.obj base) ld = true) (hwfR : wf (.obj base) rd = true)
    (hagree : ∀ el ∈ ld, ∀ er ∈ rd, el.skey = er.skey → el = er)
    (hX : patch (.obj base) (if loc then ld else rd) = .ok X)
    (h : decideMerge E (.obj base) ld rd = .ok ds) :
    applyDecisions (.obj base) ((ds.map MD.toDecision).map (chooseSide (sideName loc))) = .ok X := by
  rw [wf] at hwfL hwfR
  obtain ⟨l1, l2, _⟩ := wfObj_shape base ld [] hwfL
  obtain ⟨r1, r2, _⟩ := wfObj_shape base rd [] hwfR
  have okL := wfObj_entries base ld [] hwfL
  have okR := wfObj_entries base rd [] hwfR
  obtain ⟨b, rfl, hb0, hperm, hndU, hUmap⟩ := keywise_decisions E base ld rd ds l1 l2 r1 r2 hagree h
  have hcc := hc
  simp only [J.canonical, Bool.and_eq_true] at hcc
  have hb : SK base := keysSorted_sk base hcc.1
  generalize hT : (if loc then ld else rd) = T at hX
  have hTmap : ∀ e ∈ T, e.isMapOp = true := by
    intro e he; rw [← hT] at he
    cases loc
    · simp only [Bool.false_eq_true, if_false] at he; exact r1 e he
    · simp only [if_true] at he; exact l1 e he
  have hndT : (T.map Op.skey).Nodup := by
    rw [← hT]
    cases loc
    · simp only [Bool.false_eq_true, if_false]; exact r2
    · simp only [if_true]; exact l2
  have heffT : ∀ e ∈ T, (mapEff base e).isSome = true := by
    rw [patch] at hX
    simp only [bind, Except.bind] at hX
    cases hpd : patchDict base T [] [] with
    | error er => simp [hpd] at hX
    | ok R => exact fun e he => (patchDict_ok_eff base T [] [] R hpd e he).2
  -- the decisions, switched
  have hmapd : ((sortDesc b).map MD.toDecision).map (chooseSide (sideName loc)) =
      (sortDesc (b.map (MD.choose loc))).map MD.toDecision := by
    rw [sortDesc_map (MD.choose loc) (fun _ => rfl) b, List.map_map, List.map_map]
    apply List.map_congr_left; intro d _; rfl
  rw [hmapd, ← hX]
  -- every decision: kept (its entry belongs to the chosen side) or dropped (its key is not touched by the chosen side)
  have key : ∀ d ∈ b, ∃ s e, d = mkSide s e ∧ e.isMapOp = true ∧ e ∈ unionDiff ld rd ∧ (dropped loc s = false → e ∈ T) ∧
      (dropped loc s = true → e.skey ∉ T.map Op.skey ∧ entryOk base e = true) := by
    intro d hd
    obtain ⟨s, e, rfl, heU, h1, h2, h3⟩ := hb0 d hd
    refine ⟨s, e, rfl, hUmap e heU, heU, ?_, ?_⟩
    · intro hdr
      rw [← hT]
      cases loc <;> cases s <;> simp [dropped] at hdr ⊢
      · exact (h2 rfl).1
      · exact (h3 rfl).2
      · exact (h1 rfl).1
      · exact (h3 rfl).1
    · intro hdr
      rw [← hT]
      cases loc <;> cases s <;> simp [dropped] at hdr ⊢
      · exact ⟨fun x hx hk => (h1 rfl).2 (List.mem_map.mpr ⟨x, hx, hk⟩), okL e (h1 rfl).1⟩
      · exact ⟨fun x hx hk => (h2 rfl).2 (List.mem_map.mpr ⟨x, hx, hk⟩), okR e (h2 rfl).1⟩
  generalize hA : (b.map (MD.choose loc)).flatMap (chosenEntries loc) = A
  -- what the entries of A are
  have hAchar : ∀ a ∈ A, a ∈ T ∨ (∃ k q' v, a = .patchK k (pushPath q' []) ∧ k ∉ T.map Op.skey ∧
      lookupKV k base = some v ∧ patch v (pushPath q' []) = .ok v) := by
    intro a ha
    rw [← hA] at ha
    obtain ⟨d', hd', had⟩ := List.mem_flatMap.mp ha
    obtain ⟨d, hd, rfl⟩ := List.mem_map.mp hd'
    obtain ⟨s, e, rfl, hm, _, hkept, hdrop⟩ := key d hd
    obtain ⟨_, c2, c3⟩ := chosen_mkSide loc s hm
    cases hdr : dropped loc s with
    | false =>
      rw [c2 hdr] at had
      simp at had; subst had
      exact Or.inl (hkept hdr)
    | true =>
      rcases c3 hdr with h0 | ⟨k, q', hk, ⟨x, hex⟩, hce⟩
      · rw [h0] at had; cases had
      · rw [hce] at had
        simp at had; subst had
        obtain ⟨hnot, hok⟩ := hdrop hdr
        rw [hex] at hok
        obtain ⟨v, hv1, hv2⟩ := identity_entry base hcc.2 k q' x hok
        exact Or.inr ⟨k, q', v, rfl, by rw [← hk]; exact hnot, hv1, hv2⟩
  have hAeff : ∀ a ∈ A, a.isMapOp = true ∧ (mapEff base a).isSome = true := by
    intro a ha
    rcases hAchar a ha with h1 | ⟨k, q', v, rfl, _, hv1, hv2⟩
    · exact ⟨hTmap a h1, heffT a h1⟩
    · exact ⟨rfl, by simp [mapEff, hv1, hv2]⟩
  -- keys of A
  have hbkeys : ((b.map entryOf).map Op.skey).Nodup := ((hperm.map Op.skey).nodup_iff).mpr hndU
  have hAkeys : A.map Op.skey = b.flatMap (fun d => (chosenEntries loc (d.choose loc)).map Op.skey) := by
    rw [← hA, List.flatMap_map, List.map_flatMap]
  have hg : ∀ d ∈ b, (chosenEntries loc (d.choose loc)).map Op.skey = [] ∨
      (chosenEntries loc (d.choose loc)).map Op.skey = [(entryOf d).skey] := by
    intro d hd
    obtain ⟨s, e, rfl, hm, _, _, _⟩ := key d hd
    obtain ⟨_, c2, c3⟩ := chosen_mkSide loc s hm
    rw [entryOf_mkSide s hm]
    cases hdr : dropped loc s with
    | false => right; rw [c2 hdr]; rfl
    | true =>
      rcases c3 hdr with h0 | ⟨k, q', hk, _, hce⟩
      · left; rw [h0]; rfl
      · right; rw [hce, ← hk]; rfl
  have hndA : (A.map Op.skey).Nodup := by
    rw [hAkeys]
    have := (flatMap_nodup_keys (fun d => (chosenEntries loc (MD.choose loc d)).map Op.skey) (fun d => (entryOf d).skey) b hg
      (by rw [List.map_map] at hbkeys; exact hbkeys)).1
    exact this
  -- step 1: the switched decisions apply as `patch base A`
  have step1 : applyDecisions (.obj base) ((sortDesc (b.map (MD.choose loc))).map MD.toDecision) = patch (.obj base) A := by
    apply apply_entriesL base hc (b.map (MD.choose loc)) (chosenEntries loc) A
    · intro d' hd'
      obtain ⟨d, hd, rfl⟩ := List.mem_map.mp hd'
      obtain ⟨s, e, rfl, hm, _, _, _⟩ := key d hd
      exact (chosen_mkSide loc s hm).1
    · intro d' hd' o ho
      have : o ∈ A := by rw [← hA]; exact List.mem_flatMap.mpr ⟨d', hd', ho⟩
      exact (hAeff o this).2
    · rw [hA]
    · exact hndA
  rw [step1]
  -- every entry of the chosen side is in A
  have hTinA : ∀ e ∈ T, e ∈ A := by
    intro e he
    have heU : e ∈ unionDiff ld rd := by
      rw [← hT] at he
      unfold unionDiff
      cases loc
      · simp only [Bool.false_eq_true, if_false] at he
        by_cases hk : e.skey ∈ ld.map Op.skey
        · obtain ⟨el, hel, hkel⟩ := List.mem_map.mp hk
          have := hagree el hel e he hkel
          subst this
          exact List.mem_append_left _ hel
        · exact List.mem_append_right _ (List.mem_filter.mpr ⟨he, by simpa using hk⟩)
      · simp only [if_true] at he
        exact List.mem_append_left _ he
    obtain ⟨d, hd, hde⟩ := List.mem_map.mp (hperm.symm.subset heU)
    obtain ⟨s, e', rfl, hm, _, hkept, hdrop⟩ := key d hd
    rw [entryOf_mkSide s hm] at hde
    subst hde
    have hdr : dropped loc s = false := by
      cases hdr : dropped loc s with
      | false => rfl
      | true => exact absurd (List.mem_map_of_mem he) (hdrop hdr).1
    rw [← hA]
    refine List.mem_flatMap.mpr ⟨(mkSide s e').choose loc, List.mem_map_of_mem hd, ?_⟩
    rw [(chosen_mkSide loc s hm).2.1 hdr]
    exact List.mem_singleton_self _
  -- step 2: same effect as the chosen side's diff
  apply patch_table_ext base hb A T hndA hndT hAeff (fun e he => ⟨hTmap e he, heffT e he⟩)
  intro x
  by_cases hxT : x ∈ T.map Op.skey
  · obtain ⟨e, he, rfl⟩ := List.mem_map.mp hxT
    rw [keyed_lookup_mem hndA (hTinA e he), keyed_lookup_mem hndT he]
  · rw [keyed_lookup_none hxT]
    by_cases hxA : x ∈ A.map Op.skey
    · obtain ⟨a, ha, rfl⟩ := List.mem_map.mp hxA
      rw [keyed_lookup_mem hndA ha]
      rcases hAchar a ha with h1 | ⟨k, q', v, rfl, _, hv1, hv2⟩
      · exact absurd (List.mem_map_of_mem h1) hxT
      · simp [mapEff, Op.skey, hv1, hv2]
    · rw [keyed_lookup_none hxA]

end Nbdime
