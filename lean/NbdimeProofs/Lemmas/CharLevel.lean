import NbdimeProofs.Lemmas.SeqPatchBridge
/-
  Character level: `patch_string`'s inner loop (`patchChars`) on addchars / removerange entries is the
  abstract cursor semantics `pf` over characters, and `diff_strings_by_char` (difflib opcodes turned
  into a diff through the sequence builder) produces an ordered, in-bounds diff that rebuilds the
  target string — for every opcode list that satisfies difflib's contract (`opcodesValid`).
-/
namespace Nbdime
open Nbdime.Abs

def Abs.POp.isPat {α} : POp α → Bool
  | .pat _ _ => true
  | _ => false

/-- char-level abstract entries as model ops -/
def toOpC : POp Char → Op
  | .add k cs => .addchars k cs
  | .rem k n => .removerange k n
  | .pat _ _ => .invalid "char-level patch"

def NoPat {α} (l : List (POp α)) : Prop := ∀ e ∈ l, e.isPat = false

theorem NoPat.append {α} {l1 l2 : List (POp α)} (h1 : NoPat l1) (h2 : NoPat l2) : NoPat (l1 ++ l2) := by
  intro e he
  rcases List.mem_append.mp he with h | h
  · exact h1 e h
  · exact h2 e h

theorem toOpC_idx (e : POp Char) (h : e.isPat = false) : (toOpC e).idx = e.key := by
  cases e <;> simp_all [toOpC, Op.idx, POp.key, POp.isPat]

theorem patchChars_map (s : List Char) (cops : List (POp Char)) (t : Nat) (h : NoPat cops) :
    patchChars s (cops.map toOpC) t = .ok (pf cops t s) := by
  induction cops generalizing t with
  | nil => simp [patchChars, pf]
  | cons e es ih =>
    have hes : NoPat es := fun x hx => h x (List.mem_cons_of_mem _ hx)
    have he := h e (by simp)
    cases e with
    | add k cs =>
      simp only [List.map_cons, toOpC]
      rw [patchChars]
      simp [ih _ hes, pf, POp.key, POp.out, POp.eat, bind, Except.bind]
    | rem k n =>
      simp only [List.map_cons, toOpC]
      rw [patchChars]
      simp [ih _ hes, pf, POp.key, POp.out, POp.eat, bind, Except.bind]
    | pat k c => simp [POp.isPat] at he

/-- an add-type entry appended after a removerange with the same key is moved in front of it -/
theorem seqAppend_isAdd_before_rem (d : List Op) (k n : Nat) (e : Op) (he : e.isAdd = true) (hk : e.idx = k)
    (h : ∀ o ∈ d, o.idx < k) :
    seqAppend (d ++ [.removerange k n]) e = d ++ [e, .removerange k n] := by
  unfold seqAppend
  simp only [List.reverse_append, List.reverse_cons, List.reverse_nil, List.nil_append, List.singleton_append]
  have hc : (Op.removerange k n).idx ≥ e.idx := by rw [hk]; exact Nat.le_refl k
  have hstep : seqAppendRev e (Op.removerange k n :: d.reverse) = Op.removerange k n :: seqAppendRev e d.reverse := by
    simp only [seqAppendRev, he, if_true]
    exact if_pos hc
  rw [hstep, seqAppendRev_lt e d.reverse (fun o ho => by rw [hk]; exact h o (by simpa using ho))]
  simp

/-- state of `opcodes_to_diff`: the diff so far is a chain of char entries that has rebuilt `b.take j`
    from `a` up to position `i`; `strict`: every key so far is smaller than `i` -/
def CharSt (a b : List Char) (di : List Op) (i j : Nat) (strict : Bool) : Prop :=
  ∃ cops, NoPat cops ∧ di = cops.map toOpC ∧ BuiltC a b cops i j ∧ (∀ o ∈ di, o.idx ≤ i) ∧
    (strict = true → ∀ o ∈ di, o.idx < i) ∧ Strict di

theorem CharSt.init (a b : List Char) : CharSt a b [] 0 0 true :=
  ⟨[], fun _ h => absurd h (by simp), rfl, BuiltC.init a b, by simp, by simp, Strict.nil⟩

/-- an `equal` block: the characters are copied -/
theorem CharSt.keepN (a b : List Char) (di : List Op) (i j n : Nat) (st : Bool) (h : CharSt a b di i j st)
    (hn : 0 < n) (hi : i + n ≤ a.length) (hj : j + n ≤ b.length)
    (heq : slice' a i (i + n) = slice' b j (j + n)) : CharSt a b di (i + n) (j + n) true := by
  obtain ⟨cops, h1, h2, h3, h4, _, h6⟩ := h
  refine ⟨cops, h1, h2, ?_, fun o ho => by have := h4 o ho; omega, fun _ o ho => by have := h4 o ho; omega, h6⟩
  clear hn h4
  induction n with
  | zero => simpa using h3
  | succ n ih =>
    have hs : slice' a i (i + n) = slice' b j (j + n) := by
      have e1 := congrArg (List.take n) heq
      simp only [slice'] at e1 ⊢
      have ea : i + (n + 1) - i = n + 1 := by omega
      have eb : j + (n + 1) - j = n + 1 := by omega
      have ea' : i + n - i = n := by omega
      have eb' : j + n - j = n := by omega
      rw [ea, eb, List.take_take, List.take_take] at e1
      rw [ea', eb']
      simpa using e1
    have hprev := ih (by omega) (by omega) hs
    have hia : i + n < a.length := by omega
    have hjb : j + n < b.length := by omega
    have hc : a[i + n] = b[j + n] := by
      have e1 := congrArg (fun l => l[n]?) heq
      simp only [slice'] at e1
      have ea : i + (n + 1) - i = n + 1 := by omega
      have eb : j + (n + 1) - j = n + 1 := by omega
      rw [ea, eb] at e1
      simp only [List.getElem?_take, List.getElem?_drop, Nat.lt_succ_self, if_true] at e1
      rw [List.getElem?_eq_getElem hia, List.getElem?_eq_getElem hjb] at e1
      exact Option.some.inj e1
    have := BuiltC.keep a b cops (i + n) (j + n) hprev hia hjb hc
    simpa [Nat.add_assoc] using this

/-- an edit opcode: `n` characters removed and `cs` inserted at position `i` -/
theorem CharSt.gap (a b : List Char) (di : List Op) (i j n : Nat) (cs : List Char)
    (h : CharSt a b di i j true) (hcs : cs = slice' b j (j + cs.length)) (hjb : j + cs.length ≤ b.length)
    (hN : i + n ≤ a.length) :
    CharSt a b (seqAddchars (seqRemoverange di i n) i cs) (i + n) (j + cs.length) false := by
  obtain ⟨cops, h1, h2, h3, h4, h5, h6⟩ := h
  have hlt : ∀ o ∈ di, o.idx < i := h5 rfl
  have nopat1 : ∀ e : POp Char, e.isPat = false → NoPat (cops ++ [e]) := fun e he =>
    h1.append (fun x hx => by simp at hx; subst hx; exact he)
  by_cases hn : n = 0
  · subst hn
    by_cases hv : cs.isEmpty = true
    · have hv' : cs = [] := by simpa using hv
      subst hv'
      simp only [seqRemoverange, seqAddchars, beq_self_eq_true, if_true, List.isEmpty_nil, List.length_nil, Nat.add_zero]
      exact ⟨cops, h1, h2, h3, h4, by simp, h6⟩
    · simp only [seqRemoverange, seqAddchars, beq_self_eq_true, if_true, hv, Bool.false_eq_true, if_false]
      rw [seqAppend_end di (.addchars i cs) (by simpa [Op.idx] using hlt)]
      refine ⟨cops ++ [.add i cs], nopat1 _ rfl, by simp [h2, toOpC], ?_, ?_, by simp,
        h6.snoc (by simpa [okEntry] using hv) (fun o ho => Or.inl (by simpa [Op.idx] using hlt o ho))⟩
      · have := BuiltC.push a b cops i j (.add i cs) h3 rfl (by simpa [POp.out] using hcs) (by simpa [POp.out] using hjb)
          (by simp [POp.eat]; omega)
        simpa [POp.eat, POp.out] using this
      · intro o ho
        simp only [List.mem_append, List.mem_singleton] at ho
        rcases ho with ho | rfl
        · exact Nat.le_of_lt (hlt o ho)
        · simp [Op.idx]
  · have hrem : seqRemoverange di i n = di ++ [.removerange i n] := by
      simp only [seqRemoverange, beq_iff_eq, hn, if_false]
      exact seqAppend_end di _ (by simpa [Op.idx] using hlt)
    by_cases hv : cs.isEmpty = true
    · have hv' : cs = [] := by simpa using hv
      subst hv'
      simp only [hrem, seqAddchars, List.isEmpty_nil, if_true, List.length_nil, Nat.add_zero]
      refine ⟨cops ++ [.rem i n], nopat1 _ rfl, by simp [h2, toOpC], ?_, ?_, by simp,
        h6.snoc (by simp [okEntry]; omega) (fun o ho => Or.inl (by simpa [Op.idx] using hlt o ho))⟩
      · have := BuiltC.push a b cops i j (.rem i n) h3 rfl (by simp [POp.out, slice'_self]) (by simp [POp.out]; omega)
          (by simpa [POp.eat] using hN)
        simpa [POp.eat, POp.out] using this
      · intro o ho
        simp only [List.mem_append, List.mem_singleton] at ho
        rcases ho with ho | rfl
        · have := hlt o ho; omega
        · simp [Op.idx]
    · simp only [hrem, seqAddchars, hv, Bool.false_eq_true, if_false]
      rw [seqAppend_isAdd_before_rem di i n (.addchars i cs) rfl rfl hlt]
      have s1 : Strict (di ++ [.addchars i cs]) :=
        h6.snoc (by simpa [okEntry] using hv) (fun o ho => Or.inl (by simpa [Op.idx] using hlt o ho))
      have s2 : Strict (di ++ [.addchars i cs] ++ [.removerange i n]) :=
        s1.snoc (by simp [okEntry]; omega) (fun o ho => by
          simp only [List.mem_append, List.mem_singleton] at ho
          rcases ho with ho | rfl
          · exact Or.inl (by simpa [Op.idx] using hlt o ho)
          · exact Or.inr ⟨rfl, rfl, rfl⟩)
      refine ⟨cops ++ [.add i cs] ++ [.rem i n], (nopat1 _ rfl).append (fun x hx => by simp at hx; subst hx; rfl),
        by simp [h2, toOpC], ?_, ?_, by simp, by simpa [List.append_assoc] using s2⟩
      · have s1 := BuiltC.push a b cops i j (.add i cs) h3 rfl (by simpa [POp.out] using hcs) (by simpa [POp.out] using hjb)
          (by simp [POp.eat]; omega)
        simp only [POp.eat, POp.out, Nat.add_zero] at s1
        have s2 := BuiltC.push a b (cops ++ [.add i cs]) i (j + cs.length) (.rem i n) s1 rfl
          (by simp [POp.out, slice'_self]) (by simp [POp.out]; omega) (by simpa [POp.eat] using hN)
        simpa [POp.eat, POp.out] using s2
      · intro o ho
        simp only [List.mem_append, List.mem_cons, List.not_mem_nil, or_false] at ho
        rcases ho with ho | rfl | rfl
        · have := hlt o ho; omega
        · simp [Op.idx]
        · simp [Op.idx]

theorem slice'_len_le {α} (xs : List α) (lo hi : Nat) (h1 : lo ≤ hi) (h2 : hi ≤ xs.length) :
    (slice' xs lo hi).length = hi - lo := by
  simp [slice']; omega

/-- `opcodes_to_diff` on opcodes that satisfy difflib's contract -/
theorem opcodesToDiff_ok (a b : List Char) (ocs : List Opcode) (i j : Nat) (lastEdit : Bool) (di d : List Op)
    (hv : opcodesValidAux a b ocs i j lastEdit = true) (h : CharSt a b di i j (!lastEdit))
    (hr : opcodesToDiff b ocs di = .ok d) : ∃ st, CharSt a b d a.length b.length st := by
  induction ocs generalizing i j lastEdit di with
  | nil =>
    simp only [opcodesValidAux, Bool.and_eq_true, beq_iff_eq] at hv
    simp only [opcodesToDiff, Except.ok.injEq] at hr
    subst hr
    obtain ⟨e1, e2⟩ := hv
    subst e1; subst e2
    exact ⟨_, h⟩
  | cons oc rest ih =>
    rw [opcodesValidAux] at hv
    simp only [Bool.and_eq_true] at hv
    obtain ⟨⟨⟨⟨⟨⟨e1, e2⟩, l1⟩, l2⟩, b1⟩, b2⟩, htag⟩ := hv
    have e1 : oc.i1 = i := by simpa using e1
    have e2 : oc.j1 = j := by simpa using e2
    have l1 : oc.i1 ≤ oc.i2 := by simpa using l1
    have l2 : oc.j1 ≤ oc.j2 := by simpa using l2
    have b1 : oc.i2 ≤ a.length := by simpa using b1
    have b2 : oc.j2 ≤ b.length := by simpa using b2
    subst e1; subst e2
    simp only [opcodesToDiff] at hr
    by_cases heq : (oc.tag == "equal") = true
    · simp only [heq, if_true, Bool.and_eq_true] at htag hr
      obtain ⟨⟨hlt, hsl⟩, hrest⟩ := htag
      have hlt : oc.i1 < oc.i2 := by simpa using hlt
      have hsl' : slice' a oc.i1 oc.i2 = slice' b oc.j1 oc.j2 := by simpa [slice, slice'] using hsl
      have hlen : oc.i2 - oc.i1 = oc.j2 - oc.j1 := by
        have := congrArg List.length hsl'
        rw [slice'_len_le a _ _ l1 b1, slice'_len_le b _ _ l2 b2] at this
        exact this
      have e1 : oc.i1 + (oc.i2 - oc.i1) = oc.i2 := by omega
      have e2 : oc.j1 + (oc.i2 - oc.i1) = oc.j2 := by omega
      have hk := CharSt.keepN a b di oc.i1 oc.j1 (oc.i2 - oc.i1) _ h (by omega) (by omega) (by omega)
        (by rw [e1, e2]; exact hsl')
      rw [e1, e2] at hk
      exact ih oc.i2 oc.j2 false di hrest (by simpa using hk) hr
    · simp only [heq, Bool.false_eq_true, if_false] at htag hr
      by_cases hed : (oc.tag == "replace" || oc.tag == "insert" || oc.tag == "delete") = true
      · simp only [hed, if_true, Bool.and_eq_true] at htag
        obtain ⟨⟨⟨hle, hins⟩, hdel⟩, hrest⟩ := htag
        have hle : lastEdit = false := by simpa using hle
        have hins : ¬ (oc.tag == "insert") = true ∨ oc.i1 = oc.i2 := by
          simp only [Bool.or_eq_true, bne_iff_ne, ne_eq, beq_iff_eq] at hins
          rcases hins with h' | h'
          · exact Or.inl (by simpa using h')
          · exact Or.inr h'
        have hdel : ¬ (oc.tag == "delete") = true ∨ oc.j1 = oc.j2 := by
          simp only [Bool.or_eq_true, bne_iff_ne, ne_eq, beq_iff_eq] at hdel
          rcases hdel with h' | h'
          · exact Or.inl (by simpa using h')
          · exact Or.inr h'
        subst hle
        have hlen : (slice' b oc.j1 oc.j2).length = oc.j2 - oc.j1 := slice'_len_le b _ _ l2 b2
        have hg := CharSt.gap a b di oc.i1 oc.j1 (oc.i2 - oc.i1) (slice' b oc.j1 oc.j2) (by simpa using h)
          (by rw [hlen]; have : oc.j1 + (oc.j2 - oc.j1) = oc.j2 := by omega
              rw [this]) (by rw [hlen]; omega) (by omega)
        rw [hlen] at hg
        have e1 : oc.i1 + (oc.i2 - oc.i1) = oc.i2 := by omega
        have e2 : oc.j1 + (oc.j2 - oc.j1) = oc.j2 := by omega
        rw [e1, e2] at hg
        -- the three tags all reduce to the same two builder calls
        have key : opcodesToDiff b rest (seqAddchars (seqRemoverange di oc.i1 (oc.i2 - oc.i1)) oc.i1 (slice' b oc.j1 oc.j2)) = .ok d := by
          by_cases hrep : (oc.tag == "replace") = true
          · simpa [hrep, slice, slice'] using hr
          · simp only [hrep, Bool.false_eq_true, if_false] at hr
            by_cases hi : (oc.tag == "insert") = true
            · simp only [hi, if_true] at hr
              have : oc.i1 = oc.i2 := by
                rcases hins with h' | h'
                · exact absurd hi h'
                · exact h'
              have hz : oc.i2 - oc.i1 = 0 := by omega
              simpa [hz, seqRemoverange, slice, slice'] using hr
            · simp only [hi, Bool.false_eq_true, if_false] at hr
              by_cases hd : (oc.tag == "delete") = true
              · simp only [hd, if_true] at hr
                have : oc.j1 = oc.j2 := by
                  rcases hdel with h' | h'
                  · exact absurd hd h'
                  · exact h'
                have hz : slice' b oc.j1 oc.j2 = [] := by rw [this]; exact slice'_self b _
                simpa [hz, seqAddchars] using hr
              · simp [hrep, hi, hd] at hed
        exact ih oc.i2 oc.j2 true _ hrest (by simpa using hg) key
      · simp only [hed, Bool.false_eq_true, if_false] at htag

/-- `diff_strings_by_char`: an ordered in-bounds chain of character entries that rebuilds `b` from `a` -/
theorem diffStringsByChar_ok (O : Oracle) (hO : ∀ a b ocs, O.opcodes a b = .ok ocs → opcodesValid a b ocs = true)
    (a b : List Char) (d : List Op) (h : diffStringsByChar O a b = .ok d) :
    ∃ cops, NoPat cops ∧ d = cops.map toOpC ∧ ChainFrom a.length 0 cops ∧ pf cops 0 a = b ∧ Strict d := by
  unfold diffStringsByChar at h
  by_cases hab : (a == b) = true
  · simp only [hab, if_true, Except.ok.injEq] at h
    subst h
    have : a = b := by simpa using hab
    subst this
    exact ⟨[], fun _ hx => absurd hx (by simp), rfl, trivial, by simp [pf], Strict.nil⟩
  · simp only [hab, Bool.false_eq_true, if_false, bind, Except.bind] at h
    cases ho : O.opcodes a b with
    | error e => simp [ho] at h
    | ok ocs =>
      simp only [ho] at h
      have hv := hO a b ocs ho
      obtain ⟨st, cops, c1, c2, c3, _, _, c6⟩ := opcodesToDiff_ok a b ocs 0 0 false [] d hv (by simpa using CharSt.init a b) h
      exact ⟨cops, c1, c2, c3.2, Built.done a b cops c3.1, c6⟩

end Nbdime
