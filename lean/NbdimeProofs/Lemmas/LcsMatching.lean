import NbdimeProofs.Lemmas.Builder
/-
  The brute-force LCS backtracking (`bruteforce_lcs_indices`) always returns a monotone, in-bounds
  list of index pairs at which the comparison grid is true, whatever the LLCS table says; together
  with the builder lemma and the abstract round trip this gives the round trip of the model's
  shallow list differ for every predicate that implies equality.
-/
namespace Nbdime
open Nbdime.Abs

/-- monotone, in-bounds pairs at which the grid is true (all pairs ≥ (x, y)) -/
def GridMatching (G : Nat → Nat → Bool) (N M : Nat) : List (Nat × Nat) → Nat → Nat → Prop
  | [], _, _ => True
  | (i, j) :: ps, x, y => x ≤ i ∧ y ≤ j ∧ i < N ∧ j < M ∧ G i j = true ∧ GridMatching G N M ps (i + 1) (j + 1)

theorem GridMatching_weaken (G : Nat → Nat → Bool) (N M : Nat) (ps : List (Nat × Nat)) (x y x' y' : Nat)
    (hx : x' ≤ x) (hy : y' ≤ y) (h : GridMatching G N M ps x y) : GridMatching G N M ps x' y' := by
  cases ps with
  | nil => trivial
  | cons p ps =>
    obtain ⟨i, j⟩ := p
    obtain ⟨h1, h2, h3, h4, h5, h6⟩ := h
    exact ⟨by omega, by omega, h3, h4, h5, h6⟩

/-- the backtracking keeps the invariant, so its result is a grid matching from (0,0) -/
theorem lcsBack_matching (G : Nat → Nat → Bool) (R : Nat → Nat → Nat) (N M : Nat) (fuel x y : Nat)
    (acc ps : List (Nat × Nat)) (hx : x ≤ N) (hy : y ≤ M) (hacc : GridMatching G N M acc x y)
    (h : lcsBack G R fuel x y acc = .ok ps) : GridMatching G N M ps 0 0 := by
  induction fuel generalizing x y acc with
  | zero =>
    simp only [lcsBack, Except.ok.injEq] at h
    subst h
    exact GridMatching_weaken G N M acc x y 0 0 (Nat.zero_le _) (Nat.zero_le _) hacc
  | succ f ih =>
    simp only [lcsBack] at h
    by_cases h0 : x = 0 ∨ y = 0
    · simp only [h0, if_true, Except.ok.injEq] at h
      subst h
      exact GridMatching_weaken G N M acc x y 0 0 (Nat.zero_le _) (Nat.zero_le _) hacc
    · simp only [h0, if_false] at h
      have hxp : 0 < x := by omega
      have hyp : 0 < y := by omega
      by_cases hg : G (x - 1) (y - 1) = true
      · simp only [hg, if_true] at h
        split at h
        · cases h
        · refine ih (x - 1) (y - 1) ((x - 1, y - 1) :: acc) (by omega) (by omega) ?_ h
          refine ⟨Nat.le_refl _, Nat.le_refl _, by omega, by omega, hg, ?_⟩
          have e1 : x - 1 + 1 = x := by omega
          have e2 : y - 1 + 1 = y := by omega
          rw [e1, e2]; exact hacc
      · simp only [hg, Bool.false_eq_true, if_false] at h
        split at h
        · exact ih (x - 1) y acc (by omega) hy (GridMatching_weaken G N M acc x y (x - 1) y (by omega) (Nat.le_refl _) hacc) h
        · split at h
          · cases h
          · exact ih x (y - 1) acc hx (by omega) (GridMatching_weaken G N M acc x y x (y - 1) (Nat.le_refl _) (by omega) hacc) h

/-- a grid matching over a grid that implies equality of the items is a `Matching` -/
theorem GridMatching_to_Matching (A B : List J) (G : Nat → Nat → Bool) (ps : List (Nat × Nat)) (x y : Nat)
    (hG : ∀ i j, i < A.length → j < B.length → G i j = true → A[i]? = B[j]?)
    (h : GridMatching G A.length B.length ps x y) : Matching A B ps x y := by
  induction ps generalizing x y with
  | nil => trivial
  | cons p ps ih =>
    obtain ⟨i, j⟩ := p
    obtain ⟨h1, h2, h3, h4, h5, h6⟩ := h
    exact ⟨h1, h2, h3, h4, hG i j h3 h4 h5, ih (i + 1) (j + 1) h6⟩

/-- `mapM` in `Except`: success means every call succeeded, position by position -/
theorem mapM_ok_getElem {α β} (f : α → Except Err β) (xs : List α) (ys : List β) (h : xs.mapM f = .ok ys) :
    ys.length = xs.length ∧ ∀ i (hi : i < xs.length) (hj : i < ys.length), f xs[i] = .ok ys[i] := by
  induction xs generalizing ys with
  | nil =>
    simp only [List.mapM_nil, pure, Except.pure, Except.ok.injEq] at h
    subst h; exact ⟨rfl, fun i hi => absurd hi (by simp)⟩
  | cons x xs ih =>
    simp only [List.mapM_cons, bind, Except.bind] at h
    cases hx : f x with
    | error e => simp [hx] at h
    | ok y =>
      simp only [hx] at h
      cases hr : xs.mapM f with
      | error e => simp [hr] at h
      | ok rest =>
        simp only [hr, pure, Except.pure, Except.ok.injEq] at h
        subst h
        obtain ⟨hl, hall⟩ := ih rest hr
        refine ⟨by simp [hl], ?_⟩
        intro i hi hj
        cases i with
        | zero => simpa using hx
        | succ i => simpa using hall i (by simpa using hi) (by simpa using hj)

/-- what a true cell of the comparison grid means -/
theorem compareGrid_true (cmp : J → J → Except Err Bool) (A B : List J) (G : List (List Bool))
    (h : compareGrid cmp A B = .ok G) (i j : Nat) (hi : i < A.length) (hj : j < B.length)
    (hg : gridAt G i j = true) : cmp A[i] B[j] = .ok true := by
  unfold compareGrid at h
  obtain ⟨hl, hall⟩ := mapM_ok_getElem _ A G h
  have hiG : i < G.length := by omega
  have hrow := hall i hi hiG
  obtain ⟨hl2, hall2⟩ := mapM_ok_getElem _ B G[i] hrow
  have hjR : j < G[i].length := by omega
  have := hall2 j hj hjR
  unfold gridAt at hg
  simp only [List.getElem?_eq_getElem hiG, Option.getD_some, List.getElem?_eq_getElem hjR] at hg
  rw [this, hg]

/-- Round trip of the model's shallow list differ, for EVERY comparison predicate that implies
    equality: whatever LCS the table picks, patching `A` with `diff_sequence(A, B)` gives `B`. -/
theorem diffSequence_roundtrip (cmp : J → J → Except Err Bool)
    (hstrict : ∀ x y, cmp x y = .ok true → x = y) (A B : List J) (d : List Op)
    (h : diffSequence cmp A B = .ok d) : patchList A d 0 = .ok B := by
  unfold diffSequence at h
  simp only [bind, Except.bind] at h
  cases hG : compareGrid cmp A B with
  | error e => simp [hG] at h
  | ok G =>
    simp only [hG] at h
    cases hps : lcsIndices G A.length B.length with
    | error e => simp [hps] at h
    | ok ps =>
      simp only [hps, pure, Except.pure, Except.ok.injEq] at h
      subst h
      have hgm : GridMatching (gridAt G) A.length B.length ps 0 0 := by
        unfold lcsIndices at hps
        exact lcsBack_matching (gridAt G) _ A.length B.length _ A.length B.length [] ps (Nat.le_refl _) (Nat.le_refl _) trivial hps
      have hm : Matching A B ps 0 0 := by
        apply GridMatching_to_Matching A B (gridAt G) ps 0 0 _ hgm
        intro i j hi hj hg
        have := hstrict _ _ (compareGrid_true cmp A B G hG i j hi hj hg)
        rw [List.getElem?_eq_getElem hi, List.getElem?_eq_getElem hj, this]
      rw [diffFromLcs_eq_dfl A B ps hm, patchList_map_toOp, patch_dfl A B ps 0 0 (Nat.zero_le _) (Nat.zero_le _) hm]
      simp

end Nbdime
