import NbdimeProofs.Lemmas.MergeMixed
import NbdimeProofs.Lemmas.ApplyChoose
/-
  "Base with the local diff, then the remaining remote entries" on the mixed domain of C06: the two-stage patch is the
  one-stage patch with the merged diff `apply_mixed_obj` speaks about.
-/
set_option linter.unusedSimpArgs false
set_option linter.unusedVariables false
namespace Nbdime
open Nbdime.Abs Nbdime.Merge

/-- what `patch` does to an object, key by key (when it succeeds) -/
theorem patch_obj_table (base : List (String × J)) (hb : SK base) (A : List Op) (hndA : (A.map Op.skey).Nodup) (Y : J)
    (h : patch (.obj base) A = .ok Y) :
    ∃ R, Y = .obj R ∧ SK R ∧ (∀ e ∈ A, e.isMapOp = true ∧ (mapEff base e).isSome = true) ∧
      ∀ x, lookupKV x R = match lookupKV x (keyed A) with
        | some e => (mapEff base e).getD none
        | none => lookupKV x base := by
  have h' := h
  rw [patch] at h'
  simp only [bind, Except.bind] at h'
  cases hpd : patchDict base A [] [] with
  | error er => simp [hpd] at h'
  | ok R0 =>
    have heff := patchDict_ok_eff base A [] [] R0 hpd
    obtain ⟨R, hR, hsk, hlk⟩ := patchDict_table base hb.dk (keyed A) [] [] (keyed_dk hndA)
      (fun p hp => by obtain ⟨e, he, rfl⟩ := List.mem_map.mp hp; exact ⟨rfl, (heff e he).1, (heff e he).2⟩)
      (fun p _ => ⟨rfl, rfl⟩)
    rw [keyed_map_snd, hpd] at hR
    cases hR
    simp only [hpd, Except.ok.injEq] at h'
    refine ⟨R0, h'.symm, hsk, heff, ?_⟩
    intro x
    have := hlk x
    simp only [hasKey, lookupKV, Option.isSome_none, Bool.false_eq_true, if_false, List.contains_nil] at this
    exact this

/-- … and it succeeds when every entry is applicable -/
theorem patch_obj_of_table (base : List (String × J)) (hb : SK base) (A : List Op) (hndA : (A.map Op.skey).Nodup)
    (heff : ∀ e ∈ A, e.isMapOp = true ∧ (mapEff base e).isSome = true) :
    ∃ R, patch (.obj base) A = .ok (.obj R) ∧ SK R ∧
      ∀ x, lookupKV x R = match lookupKV x (keyed A) with
        | some e => (mapEff base e).getD none
        | none => lookupKV x base := by
  obtain ⟨R, hR, hsk, hlk⟩ := patchDict_table base hb.dk (keyed A) [] [] (keyed_dk hndA)
    (fun p hp => by obtain ⟨e, he, rfl⟩ := List.mem_map.mp hp; exact ⟨rfl, (heff e he).1, (heff e he).2⟩)
    (fun p _ => ⟨rfl, rfl⟩)
  rw [keyed_map_snd] at hR
  refine ⟨R, ?_, hsk, ?_⟩
  · rw [patch]; simp only [hR, bind, Except.bind]
  · intro x
    have := hlk x
    simp only [hasKey, lookupKV, Option.isSome_none, Bool.false_eq_true, if_false, List.contains_nil] at this
    exact this

/-- an entry only looks at its own key -/
theorem mapEff_congr (a b : List (String × J)) (e : Op) (h : lookupKV e.skey a = lookupKV e.skey b) :
    mapEff a e = mapEff b e := by
  cases e with
  | add k v =>
    simp only [Op.skey] at h
    show (if hasKey k a then none else some (some v)) = (if hasKey k b then none else some (some v))
    unfold hasKey; rw [h]
  | patchK k dd => simp only [Op.skey] at h; simp only [mapEff, h]
  | _ => rfl

theorem patch_arr_inv (xs : List J) (d : List Op) (pv : J) (h : patch (.arr xs) d = .ok pv) :
    ∃ R, patchList xs d 0 = .ok R ∧ pv = .arr R := by
  rw [patch] at h
  simp only [bind, Except.bind] at h
  cases hR : patchList xs d 0 with
  | error e => simp [hR] at h
  | ok R => simp only [hR, Except.ok.injEq] at h; exact ⟨R, rfl, h.symm⟩

/-- **two stages = one stage**: base patched with the local diff and then with the remaining remote entries is base
    patched with the merged diff (every entry of either side under the other keys; under `k` the list with both
    sides' patches) -/
theorem mixed_two_stage (base : List (String × J)) (hb : SK base) (ld rd : List Op)
    (hndL : (ld.map Op.skey).Nodup) (hndR : (rd.map Op.skey).Nodup)
    (k : String) (xs : List J) (dL dR : List Op) (hkL : Op.patchK k dL ∈ ld) (hkR : Op.patchK k dR ∈ rd)
    (hk : lookupKV k base = some (.arr xs)) (L X : J)
    (hL : patch (.obj base) ld = .ok L) (hX : patch L (mixedRest k ld rd) = .ok X) :
    ∃ RL RX, patchList xs dL 0 = .ok RL ∧ patchList RL dR 0 = .ok RX ∧
      patch (.obj base) ((unionDiff ld rd).filter (fun e => e.skey != k) ++ [.replace k (.arr RX)]) = .ok X := by
  obtain ⟨Lk, rfl, hskL, heffL, htL⟩ := patch_obj_table base hb ld hndL L hL
  -- the local patch of the list
  have e1 := (heffL _ hkL).2
  have hpL : ∃ pv, patch (.arr xs) dL = .ok pv := by
    simp only [mapEff, hk] at e1
    cases hp : patch (.arr xs) dL with
    | error er => simp [hp] at e1
    | ok pv => exact ⟨pv, rfl⟩
  obtain ⟨pvL, hpvL⟩ := hpL
  obtain ⟨RL, hRL, rfl⟩ := patch_arr_inv xs dL pvL hpvL
  have hLk : lookupKV k Lk = some (.arr RL) := by
    rw [htL k]
    have : lookupKV k (keyed ld) = some (.patchK k dL) := keyed_lookup_mem hndL hkL
    simp [this, mapEff, hk, hpvL]
  -- the remaining remote entries
  have hndRest : ((mixedRest k ld rd).map Op.skey).Nodup := (List.filter_sublist.map Op.skey).nodup hndR
  obtain ⟨Xk, rfl, hskX, heffR, htX⟩ := patch_obj_table Lk hskL (mixedRest k ld rd) hndRest X hX
  have hkRest : Op.patchK k dR ∈ mixedRest k ld rd := by
    unfold mixedRest
    rw [List.mem_filter]
    exact ⟨hkR, by simp [Op.skey]⟩
  have e2 := (heffR _ hkRest).2
  have hpR : ∃ pv, patch (.arr RL) dR = .ok pv := by
    simp only [mapEff, hLk] at e2
    cases hp : patch (.arr RL) dR with
    | error er => simp [hp] at e2
    | ok pv => exact ⟨pv, rfl⟩
  obtain ⟨pvR, hpvR⟩ := hpR
  obtain ⟨RX, hRX, rfl⟩ := patch_arr_inv RL dR pvR hpvR
  refine ⟨RL, RX, hRL, hRX, ?_⟩
  -- the merged diff
  generalize hUdef : (unionDiff ld rd).filter (fun e => e.skey != k) = U'
  have hUmem : ∀ a, a ∈ U' ↔ ((a ∈ ld ∨ (a ∈ rd ∧ a.skey ∉ ld.map Op.skey)) ∧ a.skey ≠ k) := by
    intro a
    rw [← hUdef, List.mem_filter]
    unfold unionDiff
    simp only [List.mem_append, List.mem_filter, Bool.not_eq_true', List.contains_eq_mem, decide_eq_false_iff_not, bne_iff_ne,
      ne_eq]
  have hndUfull : ((unionDiff ld rd).map Op.skey).Nodup := by
    unfold unionDiff
    rw [List.map_append, List.nodup_append]
    refine ⟨hndL, (List.filter_sublist.map Op.skey).nodup hndR, ?_⟩
    intro a ha b' hb' hab
    obtain ⟨e, he, rfl⟩ := List.mem_map.mp hb'
    have := (List.mem_filter.mp he).2
    simp only [Bool.not_eq_true', List.contains_eq_mem, decide_eq_false_iff_not] at this
    exact this (hab ▸ ha)
  have hndU : (U'.map Op.skey).Nodup := by
    rw [← hUdef]
    exact (List.filter_sublist.map Op.skey).nodup hndUfull
  have hndT : ((U' ++ [Op.replace k (.arr RX)]).map Op.skey).Nodup := by
    rw [List.map_append, List.nodup_append]
    refine ⟨hndU, by simp, ?_⟩
    intro a ha b' hb' hab
    simp only [List.map_cons, List.map_nil, List.mem_singleton] at hb'
    obtain ⟨e, he, rfl⟩ := List.mem_map.mp ha
    have := ((hUmem e).mp he).2
    rw [hab, hb'] at this
    exact this rfl
  -- a remote-only entry sees the same value in base and in the locally patched object
  have hsame : ∀ e : Op, e.skey ∉ ld.map Op.skey → lookupKV e.skey Lk = lookupKV e.skey base := by
    intro e he
    rw [htL e.skey, keyed_lookup_none he]
  have hRestMem : ∀ e ∈ rd, e.skey ∉ ld.map Op.skey → e ∈ mixedRest k ld rd := by
    intro e he hn
    unfold mixedRest
    rw [List.mem_filter]
    exact ⟨he, by simp [hn]⟩
  have heffT : ∀ e ∈ U' ++ [Op.replace k (.arr RX)], e.isMapOp = true ∧ (mapEff base e).isSome = true := by
    intro e he
    rcases List.mem_append.mp he with h1 | h1
    · rcases ((hUmem e).mp h1).1 with h2 | ⟨h2, h3⟩
      · exact heffL e h2
      · have := heffR e (hRestMem e h2 h3)
        rw [mapEff_congr Lk base e (hsame e h3)] at this
        exact this
    · simp only [List.mem_singleton] at h1
      subst h1
      exact ⟨rfl, rfl⟩
  obtain ⟨R2, hR2, hsk2, ht2⟩ := patch_obj_of_table base hb _ hndT heffT
  rw [hR2]
  congr 2
  apply sk_ext R2 Xk hsk2 hskX
  intro x
  rw [ht2 x, htX x]
  by_cases hxk : x = k
  · subst hxk
    have a1 : lookupKV x (keyed (U' ++ [Op.replace x (.arr RX)])) = some (.replace x (.arr RX)) :=
      keyed_lookup_mem hndT (e := .replace x (.arr RX)) (List.mem_append_right _ (List.mem_singleton.mpr rfl))
    have a2 : lookupKV x (keyed (mixedRest x ld rd)) = some (.patchK x dR) := keyed_lookup_mem hndRest hkRest
    simp [a1, a2, mapEff, hLk, hpvR]
  · by_cases hxl : x ∈ ld.map Op.skey
    · obtain ⟨el, hel, rfl⟩ := List.mem_map.mp hxl
      have hU : el ∈ U' := (hUmem el).mpr ⟨Or.inl hel, hxk⟩
      have a1 : lookupKV el.skey (keyed (U' ++ [Op.replace k (.arr RX)])) = some el :=
        keyed_lookup_mem hndT (List.mem_append_left _ hU)
      have a2 : lookupKV el.skey (keyed (mixedRest k ld rd)) = none := by
        apply keyed_lookup_none
        intro hm
        obtain ⟨e', he', hke⟩ := List.mem_map.mp hm
        unfold mixedRest at he'
        rw [List.mem_filter] at he'
        have := he'.2
        simp only [Bool.or_eq_true, beq_iff_eq, Bool.not_eq_true', List.contains_eq_mem, decide_eq_false_iff_not] at this
        rcases this with h3 | h3
        · exact hxk (by rw [← hke, h3])
        · exact h3 (by rw [hke]; exact hxl)
      have a3 : lookupKV el.skey (keyed ld) = some el := keyed_lookup_mem hndL hel
      simp only [a1, a2, htL el.skey, a3]
    · by_cases hxr : x ∈ rd.map Op.skey
      · obtain ⟨er, her, rfl⟩ := List.mem_map.mp hxr
        have hU : er ∈ U' := (hUmem er).mpr ⟨Or.inr ⟨her, hxl⟩, hxk⟩
        have a1 : lookupKV er.skey (keyed (U' ++ [Op.replace k (.arr RX)])) = some er :=
          keyed_lookup_mem hndT (List.mem_append_left _ hU)
        have a2 : lookupKV er.skey (keyed (mixedRest k ld rd)) = some er := keyed_lookup_mem hndRest (hRestMem er her hxl)
        simp only [a1, a2]
        rw [mapEff_congr Lk base er (hsame er hxl)]
      · have a1 : lookupKV x (keyed (U' ++ [Op.replace k (.arr RX)])) = none := by
          apply keyed_lookup_none
          intro hm
          obtain ⟨e', he', hke⟩ := List.mem_map.mp hm
          rcases List.mem_append.mp he' with h3 | h3
          · rcases ((hUmem e').mp h3).1 with h4 | ⟨h4, _⟩
            · exact hxl (hke ▸ List.mem_map_of_mem h4)
            · exact hxr (hke ▸ List.mem_map_of_mem h4)
          · simp only [List.mem_singleton] at h3
            subst h3
            exact hxk hke.symm
        have a2 : lookupKV x (keyed (mixedRest k ld rd)) = none := by
          apply keyed_lookup_none
          intro hm
          obtain ⟨e', he', hke⟩ := List.mem_map.mp hm
          exact hxr (hke ▸ List.mem_map_of_mem (List.mem_filter.mp he').1)
        have a3 : lookupKV x (keyed ld) = none := keyed_lookup_none hxl
        simp only [a1, a2, htL x, a3]

/-- the table of a diff with pairwise different keys does not depend on the order of its entries -/
theorem keyed_lookup_perm {A B : List Op} (hp : A.Perm B) (hndA : (A.map Op.skey).Nodup) (x : String) :
    lookupKV x (keyed A) = lookupKV x (keyed B) := by
  have hndB : (B.map Op.skey).Nodup := (hp.map Op.skey).nodup_iff.mp hndA
  by_cases hx : x ∈ A.map Op.skey
  · obtain ⟨e, he, rfl⟩ := List.mem_map.mp hx
    rw [keyed_lookup_mem hndA he, keyed_lookup_mem hndB (hp.subset he)]
  · have hx' : x ∉ B.map Op.skey := fun h => hx ((hp.map Op.skey).symm.subset h)
    rw [keyed_lookup_none hx, keyed_lookup_none hx']

/-- patching an object does not depend on the order of the entries (pairwise different keys) -/
theorem patch_obj_perm (base : List (String × J)) (hb : SK base) (A B : List Op) (hp : A.Perm B)
    (hndA : (A.map Op.skey).Nodup) (X : J) (h : patch (.obj base) A = .ok X) : patch (.obj base) B = .ok X := by
  obtain ⟨_, _, _, heffA, _⟩ := patch_obj_table base hb A hndA X h
  have hndB : (B.map Op.skey).Nodup := (hp.map Op.skey).nodup_iff.mp hndA
  rw [← h]
  symm
  apply patch_table_ext base hb A B hndA hndB heffA (fun e he => heffA e (hp.symm.subset he))
  intro x
  rw [keyed_lookup_perm hp hndA x]

/-- the list level: patching different items in either order gives the same list -/
theorem patchList_comm (xs : List J) (cxs : J.canonicalList xs = true) (dL dR : List Op) (h0 : AscPatch 0 dL) (h1 : AscPatch 0 dR)
    (hdis : ∀ e0 ∈ dL, ∀ e1 ∈ dR, e0.idx ≠ e1.idx) (RL RX RR RY : List J)
    (hRL : patchList xs dL 0 = .ok RL) (hRX : patchList RL dR 0 = .ok RX)
    (hRR : patchList xs dR 0 = .ok RR) (hRY : patchList RR dL 0 = .ok RY) : RX = RY := by
  -- through a one-key object
  let base : List (String × J) := [("c", .arr xs)]
  have hb : SK base := by simp [base, SK, List.Pairwise]
  have hc : (J.obj base).canonical = true := by
    simp only [base, J.canonical, keysSorted, J.canonicalKvs, Bool.and_eq_true, J.canonical]
    refine ⟨by decide, ?_, trivial⟩
    exact cxs
  have hk : lookupKV "c" base = some (.arr xs) := by simp [base, lookupKV]
  have pL : patch (.obj base) [.patchK "c" dL] = .ok (.obj (insertKV "c" (.arr RL) base)) :=
    patch_obj_patchK base hb "c" dL (.arr xs) (.arr RL) hk (by rw [patch]; simp [hRL, bind, Except.bind])
  have hsL : SK (insertKV "c" (.arr RL) base) := insertKV_sorted _ _ _ hb
  have hkL : lookupKV "c" (insertKV "c" (.arr RL) base) = some (.arr RL) := by rw [lookupKV_insertKV]; simp
  have pX : patch (.obj (insertKV "c" (.arr RL) base)) [.patchK "c" dR] = .ok (.obj (insertKV "c" (.arr RX) base)) := by
    rw [patch_obj_patchK _ hsL "c" dR (.arr RL) (.arr RX) hkL (by rw [patch]; simp [hRX, bind, Except.bind]),
      insertKV_twice "c" (.arr RL) (.arr RX) base hb]
  obtain ⟨R0, hR0, hX0⟩ := patchBoth_cells_comm base hc "c" xs hk dL dR h0 h1 hdis _ _ pL pX
  have pR : patch (.obj base) [.patchK "c" dR] = .ok (.obj (insertKV "c" (.arr RR) base)) :=
    patch_obj_patchK base hb "c" dR (.arr xs) (.arr RR) hk (by rw [patch]; simp [hRR, bind, Except.bind])
  rw [pR] at hR0
  cases hR0
  have hsR : SK (insertKV "c" (.arr RR) base) := insertKV_sorted _ _ _ hb
  have hkR : lookupKV "c" (insertKV "c" (.arr RR) base) = some (.arr RR) := by rw [lookupKV_insertKV]; simp
  have pY : patch (.obj (insertKV "c" (.arr RR) base)) [.patchK "c" dL] = .ok (.obj (insertKV "c" (.arr RY) base)) := by
    rw [patch_obj_patchK _ hsR "c" dL (.arr RR) (.arr RY) hkR (by rw [patch]; simp [hRY, bind, Except.bind]),
      insertKV_twice "c" (.arr RR) (.arr RY) base hb]
  rw [pY] at hX0
  have := Except.ok.inj hX0
  simp only [J.obj.injEq] at this
  have hl : lookupKV "c" (insertKV "c" (.arr RY) base) = lookupKV "c" (insertKV "c" (.arr RX) base) := by rw [this]
  rw [lookupKV_insertKV, lookupKV_insertKV] at hl
  simp at hl
  exact hl.symm

end Nbdime
