import NbdimeProofs.Lemmas.SeqBridge
/-
  The sequence diff builder (`SequenceDiffBuilder.append`) and `diff_from_lcs` as the model runs them
  (`seqAppend`, `diffFromLcsAux`) produce exactly the abstract entry list `dfl` of SeqAbstract, for
  every monotone matching: this connects the round-trip theorem to the model's executable differ.
-/
namespace Nbdime
open Nbdime.Abs

theorem seqAppendRev_lt (e : Op) (r : List Op) (h : ∀ o ∈ r, o.idx < e.idx) : seqAppendRev e r = e :: r := by
  cases r with
  | nil => rfl
  | cons x rest =>
    have hx : x.idx < e.idx := h x (by simp)
    simp only [seqAppendRev]
    have : ¬ (x.idx ≥ e.idx) := by omega
    have : ¬ (x.idx > e.idx) := by omega
    split <;> simp_all

/-- appending an entry whose key is larger than every key so far puts it at the end -/
theorem seqAppend_end (d : List Op) (e : Op) (h : ∀ o ∈ d, o.idx < e.idx) : seqAppend d e = d ++ [e] := by
  unfold seqAppend
  rw [seqAppendRev_lt e d.reverse (fun o ho => h o (by simpa using ho))]
  simp

/-- an addrange appended after a removerange with the same key is moved in front of it -/
theorem seqAppend_add_before_rem (d : List Op) (k n : Nat) (vs : List J) (h : ∀ o ∈ d, o.idx < k) :
    seqAppend (d ++ [.removerange k n]) (.addrange k vs) = d ++ [.addrange k vs, .removerange k n] := by
  unfold seqAppend
  simp only [List.reverse_append, List.reverse_cons, List.reverse_nil, List.nil_append, List.singleton_append]
  simp only [seqAppendRev, Op.isAdd, Op.idx, ge_iff_le, Nat.le_refl, if_true]
  rw [seqAppendRev_lt (.addrange k vs) d.reverse (fun o ho => by simpa [Op.idx] using h o (by simpa using ho))]
  simp

theorem mkAddrange_nonempty (k : Nat) (vs : List J) (di : List Op) (h : vs.isEmpty = false) :
    mkAddrange k vs di = seqAppend di (.addrange k vs) := by
  simp [mkAddrange, seqAddrange, h]

theorem toOp_idx (e : SOp J) : (toOp e).idx = e.key := by cases e <;> rfl

/-- the model's `diff_from_lcs` (through the builder) is the abstract `dfl`, entry for entry -/
theorem diffFromLcsAux_eq_dfl (A B : List J) (ps : List (Nat × Nat)) (x y : Nat) (di : List Op)
    (hy : y ≤ B.length) (hm : Matching A B ps x y) (hd : ∀ o ∈ di, o.idx < x) :
    diffFromLcsAux mkAddrange B A.length B.length ps x y di =
      di ++ (dfl A B ps x y).map toOp := by
  induction ps generalizing x y di with
  | nil =>
    simp only [diffFromLcsAux, dfl]
    have hslice : (B.drop y).take (B.length - y) = B.drop y := by
      apply List.take_of_length_le; simp
    by_cases h1 : y < B.length <;> by_cases h2 : x < A.length
    · have hne : (B.drop y).isEmpty = false := by
        simp only [List.isEmpty_eq_false_iff, ne_eq, List.drop_eq_nil_iff]; omega
      have hrem : seqRemoverange di x (A.length - x) = di ++ [.removerange x (A.length - x)] := by
        have : ¬ (A.length - x = 0) := by omega
        simp only [seqRemoverange, beq_iff_eq, this, if_false]
        exact seqAppend_end di _ (by simpa [Op.idx] using hd)
      simp only [h1, h2, if_true, hslice, hrem]
      rw [mkAddrange_nonempty _ _ _ hne, seqAppend_add_before_rem di x _ _ hd]
      simp [toOp]
    · have hne : (B.drop y).isEmpty = false := by
        simp only [List.isEmpty_eq_false_iff, ne_eq, List.drop_eq_nil_iff]; omega
      simp only [h1, h2, if_true, if_false, hslice]
      rw [mkAddrange_nonempty _ _ _ hne, seqAppend_end di _ (by simpa [Op.idx] using hd)]
      simp [toOp]
    · have hrem : seqRemoverange di x (A.length - x) = di ++ [.removerange x (A.length - x)] := by
        have : ¬ (A.length - x = 0) := by omega
        simp only [seqRemoverange, beq_iff_eq, this, if_false]
        exact seqAppend_end di _ (by simpa [Op.idx] using hd)
      simp [h1, h2, hrem, toOp]
    · simp [h1, h2]
  | cons p ps ih =>
    obtain ⟨i, j⟩ := p
    obtain ⟨hxi, hyj, hi, hj, _, hrest⟩ := hm
    simp only [diffFromLcsAux, dfl]
    by_cases h1 : j > y <;> by_cases h2 : i > x
    · -- removerange then addrange at key x
      have hrem : seqRemoverange di x (i - x) = di ++ [.removerange x (i - x)] := by
        have : ¬ (i - x = 0) := by omega
        simp only [seqRemoverange, beq_iff_eq, this, if_false]
        exact seqAppend_end di _ (by simpa [Op.idx] using hd)
      have hne : ((B.drop y).take (j - y)).isEmpty = false := by
        simp only [List.isEmpty_eq_false_iff, ne_eq, List.take_eq_nil_iff, List.drop_eq_nil_iff]; omega
      simp only [h1, h2, if_true, hrem]
      rw [mkAddrange_nonempty _ _ _ hne, seqAppend_add_before_rem di x _ _ hd]
      rw [ih (i + 1) (j + 1) _ (by omega) hrest (by
        intro o ho
        simp only [List.mem_append, List.mem_cons, List.not_mem_nil, or_false] at ho
        rcases ho with ho | rfl | rfl
        · have := hd o ho; omega
        · simp [Op.idx]; omega
        · simp [Op.idx]; omega)]
      simp [toOp, List.append_assoc]
    · have hix : i = x := by omega
      subst hix
      have hne : ((B.drop y).take (j - y)).isEmpty = false := by
        simp only [List.isEmpty_eq_false_iff, ne_eq, List.take_eq_nil_iff, List.drop_eq_nil_iff]; omega
      simp only [h1, h2, if_true, if_false]
      rw [mkAddrange_nonempty _ _ _ hne, seqAppend_end di _ (by simpa [Op.idx] using hd)]
      rw [ih (i + 1) (j + 1) _ (by omega) hrest (by
        intro o ho
        simp only [List.mem_append, List.mem_cons, List.not_mem_nil, or_false] at ho
        rcases ho with ho | rfl
        · have := hd o ho; omega
        · simp [Op.idx])]
      simp [toOp, List.append_assoc]
    · have hjy : j = y := by omega
      subst hjy
      have hrem : seqRemoverange di x (i - x) = di ++ [.removerange x (i - x)] := by
        have : ¬ (i - x = 0) := by omega
        simp only [seqRemoverange, beq_iff_eq, this, if_false]
        exact seqAppend_end di _ (by simpa [Op.idx] using hd)
      simp only [h1, h2, if_true, if_false, hrem]
      rw [ih (i + 1) (j + 1) _ (by omega) hrest (by
        intro o ho
        simp only [List.mem_append, List.mem_cons, List.not_mem_nil, or_false] at ho
        rcases ho with ho | rfl
        · have := hd o ho; omega
        · simp [Op.idx]; omega)]
      simp [toOp, List.append_assoc]
    · have hix : i = x := by omega
      have hjy : j = y := by omega
      subst hix; subst hjy
      simp only [h1, h2, if_false]
      rw [ih (i + 1) (j + 1) di (by omega) hrest (fun o ho => by have := hd o ho; omega)]
      simp

theorem diffFromLcs_eq_dfl (A B : List J) (ps : List (Nat × Nat)) (hm : Matching A B ps 0 0) :
    diffFromLcs A B ps = (dfl A B ps 0 0).map toOp := by
  unfold diffFromLcs
  rw [diffFromLcsAux_eq_dfl A B ps 0 0 [] (Nat.zero_le _) hm (by simp)]
  simp

end Nbdime
