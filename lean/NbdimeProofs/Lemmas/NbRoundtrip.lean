import NbdimeProofs.Lemmas.RoundtripAll
/-
  The notebook differs (`diff_mime_bundle`, `diff_attachments`, `diff_single_outputs`) and the round
  trip under any differ configuration whose table entries are sound kinds — in particular the
  tables `diff_notebooks` runs with (extracted per run and checked by `cfgSoundB`).
-/
set_option linter.unusedSimpArgs false
namespace Nbdime
open Nbdime.Abs

/-- a differ call is sound on canonical int-only values: its diff patches the one into the other -/
def SoundOn (f : J → J → Except Err (List Op)) : Prop :=
  ∀ x y cd, x.canonical = true → y.canonical = true → Compat x y →
    f x y = .ok cd → patch x cd = .ok y

theorem SoundOn.nil {f : J → J → Except Err (List Op)} (h : SoundOn f) (x y : J)
    (cx : x.canonical = true) (cy : y.canonical = true) (hxy : Compat x y)
    (hf : f x y = .ok []) : x = y :=
  (patch_nil x y cx (h x y [] cx cy hxy hf)).symm

/-- values under a common key are compatible -/
def CompatKvs (a b : List (String × J)) : Prop :=
  ∀ k av bv, lookupKV k a = some av → lookupKV k b = some bv → Compat av bv

/-! ### helper steps on the mapping table -/

theorem step_same (a b : List (String × J)) (s : List (String × Op)) (x : String) (av bv : J)
    (ha : lookupKV x a = some av) (hb : lookupKV x b = some bv) (hg : GoodT a b s) (heq : av = bv) :
    GoodT a b s ∧ Handled a b s x ∧ ∀ k', Handled a b s k' → Handled a b s k' :=
  ⟨hg, fun _ => by rw [ha, hb, heq], fun _ h => h⟩

theorem step_appended (a b : List (String × J)) (s s' : List (String × Op)) (x : String) (av bv : J) (e : Op)
    (ha : lookupKV x a = some av) (hb : lookupKV x b = some bv) (hg : GoodT a b s)
    (hek : e.skey = x) (heff : mapEff a e = some (some bv)) (hm : mapAppend s e = .ok s') :
    GoodT a b s' ∧ Handled a b s' x ∧ ∀ k', Handled a b s k' → Handled a b s' k' := by
  obtain ⟨g1, g2, g3⟩ := mapAppend_good a b s s' e hg (by rw [hek, hb]; exact heff)
    (by rw [hek, ha]; exact Or.inl rfl) hm
  rw [hek] at g2 g3
  exact ⟨g1, Handled.of_some g2, fun k' hk' => hk'.insert x g3 (by rw [g2]; rfl)⟩

theorem step_patch (a b : List (String × J)) (s s' : List (String × Op)) (x : String) (av bv : J) (dd : List Op)
    (ha : lookupKV x a = some av) (hb : lookupKV x b = some bv) (hg : GoodT a b s)
    (hp : patch av dd = .ok bv) (hnil : dd = [] → av = bv) (hm : mapPatch s x dd = .ok s') :
    GoodT a b s' ∧ Handled a b s' x ∧ ∀ k', Handled a b s k' → Handled a b s' k' := by
  unfold mapPatch at hm
  by_cases hemp : dd.isEmpty = true
  · simp only [hemp, if_true, Except.ok.injEq] at hm
    subst hm
    exact step_same a b s x av bv ha hb hg (hnil (by simpa using hemp))
  · simp only [hemp, Bool.false_eq_true, if_false] at hm
    exact step_appended a b s s' x av bv (.patchK x dd) ha hb hg rfl (by simp [mapEff, ha, hp]) hm

/-! ### `diff_mime_bundle` -/

theorem sameStr_eq (av bv : J) (h : sameStr av bv = true) : av = bv := by
  cases av <;> cases bv <;> simp_all [sameStr]

theorem mimeStep_good (O : Oracle) (recur : Recur) (a b : List (String × J))
    (ca : J.canonicalKvs a = true) (cb : J.canonicalKvs b = true) (hab : CompatKvs a b)
    (hgen : SoundOn (genericDiff O recur defaultCfg "")) :
    BothStepOK a b (mimeStep O recur a b) := by
  intro s x s' av bv ha hb hg hf
  unfold mimeStep at hf
  simp only [ha, hb, Option.getD_some] at hf
  have cav := canonicalKvs_mem a ca _ (lookupKV_mem x av a ha)
  have cbv := canonicalKvs_mem b cb _ (lookupKV_mem x bv b hb)
  have hxy := hab x av bv ha hb
  unfold addMimeDiff at hf
  by_cases hs : sameStr av bv = true
  · simp only [hs, if_true, Except.ok.injEq] at hf
    subst hf
    exact step_same a b s x av bv ha hb hg (sameStr_eq av bv hs)
  · simp only [hs, Bool.false_eq_true, if_false] at hf
    by_cases hsp : mimeSplit x = true
    · simp only [hsp, if_true, bind, Except.bind] at hf
      cases hd : genericDiff O recur defaultCfg "" av bv with
      | error e => simp [hd] at hf
      | ok dd =>
        simp only [hd] at hf
        exact step_patch a b s s' x av bv dd ha hb hg (hgen av bv dd cav cbv hxy hd)
          (fun hnil => hgen.nil av bv cav cbv hxy (by rw [← hnil]; exact hd)) hf
    · simp only [hsp, Bool.false_eq_true, if_false] at hf
      by_cases hne : (!J.pyEq av bv) = true
      · simp only [hne, if_true] at hf
        exact step_appended a b s s' x av bv (.replace x bv) ha hb hg rfl (by simp [mapEff]) hf
      · simp only [hne, Bool.false_eq_true, if_false, Except.ok.injEq] at hf
        subst hf
        have : J.pyEq av bv = true := by simpa using hne
        exact step_same a b s x av bv ha hb hg (compat_pyEq av bv hxy cav cbv this)

theorem mimeBundle_sound (O : Oracle) (recur : Recur) (hgen : SoundOn (genericDiff O recur defaultCfg "")) :
    SoundOn (mimeBundle O recur) := by
  intro x y d cx cy hxy h
  unfold mimeBundle at h
  cases x with
  | obj ak =>
    cases y with
    | obj bk =>
      simp only [J.canonical, Bool.and_eq_true] at cx cy
      have hkv : CompatKvs ak bk := hxy.obj_inv
      simp only at h
      have hk := listDiffKeys_spec ak bk
      generalize listDiffKeys ak bk = t at h hk
      obtain ⟨rem, both, add⟩ := t
      simp only [bind, Except.bind, pure, Except.pure] at h hk
      split at h
      · cases h
      · rename_i di1 h1
        split at h
        · cases h
        · rename_i di2 h2
          split at h
          · cases h
          · rename_i di3 h3
            simp only [Except.ok.injEq] at h
            subst h
            obtain ⟨g, hall⟩ := threeFold_table ak bk rem both add hk _
              (mimeStep_good O recur ak bk cx.2 cy.2 hkv hgen) di1 di2 di3 h1 h2 h3
            rw [patch]
            simp [table_apply ak bk (keysSorted_sk ak cx.1) (keysSorted_sk bk cy.1) di3 g hall, bind, Except.bind]
    | _ => simp at h
  | _ => simp at h

/-! ### `diff_attachments` -/

theorem attachmentsDiff_sound (O : Oracle) (recur : Recur) (path : String)
    (hgen : SoundOn (genericDiff O recur defaultCfg "")) : SoundOn (attachmentsDiff O recur path) := by
  intro x y d cx cy hxy h
  unfold attachmentsDiff at h
  split at h
  · cases h
  · cases x with
    | obj ak =>
      cases y with
      | obj bk =>
        simp only [J.canonical, Bool.and_eq_true] at cx cy
        have hkv : CompatKvs ak bk := hxy.obj_inv
        simp only at h
        have hk := listDiffKeys_spec ak bk
        generalize listDiffKeys ak bk = t at h hk
        obtain ⟨rem, both, add⟩ := t
        simp only [bind, Except.bind, pure, Except.pure] at h hk
        split at h
        · cases h
        · rename_i di1 h1
          split at h
          · cases h
          · rename_i di2 h2
            split at h
            · cases h
            · rename_i di3 h3
              simp only [Except.ok.injEq] at h
              subst h
              have hm := mimeBundle_sound O recur hgen
              have hF : BothStepOK ak bk (attachStep O recur ak bk) := by
                intro s x s' av bv ha hb hg hf
                unfold attachStep at hf
                simp only [ha, hb, Option.getD_some, bind, Except.bind] at hf
                have cav := canonicalKvs_mem ak cx.2 _ (lookupKV_mem x av ak ha)
                have cbv := canonicalKvs_mem bk cy.2 _ (lookupKV_mem x bv bk hb)
                have hvv := hkv x av bv ha hb
                cases hd : mimeBundle O recur av bv with
                | error e => simp [hd] at hf
                | ok dd =>
                  simp only [hd] at hf
                  exact step_patch ak bk s s' x av bv dd ha hb hg (hm av bv dd cav cbv hvv hd)
                    (fun hnil => hm.nil av bv cav cbv hvv (by rw [← hnil]; exact hd)) hf
              obtain ⟨g, hall⟩ := threeFold_table ak bk rem both add hk _ hF di1 di2 di3 h1 h2 h3
              rw [patch]
              simp [table_apply ak bk (keysSorted_sk ak cx.1) (keysSorted_sk bk cy.1) di3 g hall, bind, Except.bind]
      | _ => simp at h
    | _ => simp at h

/-! ### `diff_single_outputs` -/

theorem lookupKV_none_of_gt {α} (k : String) (l : List (String × α)) (h : ∀ y ∈ l, y.1 < k) :
    lookupKV k l = none := by
  induction l with
  | nil => rfl
  | cons x rest ih =>
    obtain ⟨a, b⟩ := x
    rw [lookupKV_cons']
    have hak : a < k := h (a, b) (by simp)
    have : a ≠ k := fun e => by rw [e] at hak; exact String.lt_irrefl _ hak
    simp only [this, if_false]
    exact ih (fun y hy => h y (List.mem_cons_of_mem _ hy))

theorem insertKV_end {α} (k : String) (v : α) (acc : List (String × α)) (h : ∀ p ∈ acc, p.1 < k) :
    insertKV k v acc = acc ++ [(k, v)] := by
  induction acc with
  | nil => rfl
  | cons x rest ih =>
    obtain ⟨a, b⟩ := x
    have hak : a < k := h (a, b) (by simp)
    have h1 : ¬ k < a := fun hka => String.lt_asymm hak hka
    have h2 : (a == k) = false := by
      have : a ≠ k := fun e => by rw [e] at hak; exact String.lt_irrefl _ hak
      simpa using this
    simp only [insertKV, h1, if_false, h2, Bool.false_eq_true, List.cons_append]
    rw [ih (fun p hp => h p (List.mem_cons_of_mem _ hp))]

/-- feeding the entries of a key-sorted table back through the builder rebuilds the table -/
theorem refold (l acc : List (String × Op)) (hs : SK (acc ++ l))
    (hl : ∀ p ∈ l, p.2.skey = p.1 ∧ p.2.isMapOp = true) :
    (l.map (·.2)).foldlM mapAppend acc = .ok (acc ++ l) := by
  induction l generalizing acc with
  | nil => simp [pure, Except.pure]
  | cons x rest ih =>
    obtain ⟨k, e⟩ := x
    obtain ⟨hk, hm⟩ := hl (k, e) (by simp)
    simp only at hk hm
    have hlt : ∀ p ∈ acc, p.1 < k := by
      intro p hp
      have := (List.pairwise_append.mp hs).2.2 p hp (k, e) (by simp)
      exact this
    have hno : hasKey e.skey acc = false := by
      rw [hk]; unfold hasKey; rw [lookupKV_none_of_gt k acc hlt]; rfl
    simp only [List.map_cons, List.foldlM_cons, bind, Except.bind]
    have : mapAppend acc e = .ok (acc ++ [(k, e)]) := by
      unfold mapAppend
      simp only [hm, hno, Bool.not_true, Bool.false_eq_true, if_false]
      rw [hk, insertKV_end k e acc hlt]
    rw [this]
    have := ih (acc ++ [(k, e)]) (by simpa [List.append_assoc] using hs)
      (fun p hp => hl p (List.mem_cons_of_mem _ hp))
    simpa [List.append_assoc] using this

theorem eraseKV_eq_filter {α} (k : String) (l : List (String × α)) : eraseKV k l = l.filter (fun p => p.1 != k) := by
  induction l with
  | nil => rfl
  | cons x rest ih =>
    obtain ⟨a, b⟩ := x
    by_cases h : (a == k) = true
    · have hn : (a != k) = false := by simp [bne, h]
      simp only [eraseKV, h, if_true, ih, List.filter_cons, hn, Bool.false_eq_true, if_false]
    · have h' : (a == k) = false := by simpa using h
      have hn : (a != k) = true := by simp [bne, h']
      simp only [eraseKV, h', Bool.false_eq_true, if_false, ih, List.filter_cons, hn, if_true]

theorem eraseKV_sk {α} (k : String) (l : List (String × α)) (h : SK l) : SK (eraseKV k l) := by
  rw [eraseKV_eq_filter]; exact List.Pairwise.filter _ h

theorem eraseKV_mem {α} (k : String) (l : List (String × α)) (p : String × α) (h : p ∈ eraseKV k l) : p ∈ l := by
  rw [eraseKV_eq_filter] at h
  exact (List.mem_filter.mp h).1

theorem canonicalKvs_of_mem (l : List (String × J)) (h : ∀ p ∈ l, p.2.canonical = true) : J.canonicalKvs l = true := by
  induction l with
  | nil => rfl
  | cons x rest ih =>
    obtain ⟨a, b⟩ := x
    simp only [J.canonicalKvs, Bool.and_eq_true]
    exact ⟨h (a, b) (by simp), ih (fun p hp => h p (List.mem_cons_of_mem _ hp))⟩

theorem intsOnlyKvs_of_mem (l : List (String × J)) (h : ∀ p ∈ l, p.2.intsOnly = true) : J.intsOnlyKvs l = true := by
  induction l with
  | nil => rfl
  | cons x rest ih =>
    obtain ⟨a, b⟩ := x
    simp only [J.intsOnlyKvs, Bool.and_eq_true]
    exact ⟨h (a, b) (by simp), ih (fun p hp => h p (List.mem_cons_of_mem _ hp))⟩

theorem sk_keysSorted {α} (l : List (String × α)) (h : SK l) : keysSorted l = true := by
  induction l with
  | nil => rfl
  | cons x rest ih =>
    cases rest with
    | nil => rfl
    | cons y rest2 =>
      obtain ⟨k, v⟩ := x
      obtain ⟨k', v'⟩ := y
      have c := List.pairwise_cons.mp h
      simp only [keysSorted, Bool.and_eq_true, decide_eq_true_eq]
      exact ⟨c.1 (k', v') (by simp), ih c.2⟩

/-- a good table for the dicts without key `key` is a good table for the dicts themselves -/
theorem goodT_unerase (key : String) (a b : List (String × J)) (di : List (String × Op))
    (hg : GoodT (eraseKV key a) (eraseKV key b) di) : GoodT a b di := by
  refine ⟨hg.1, ?_⟩
  intro k e hl
  obtain ⟨e1, e2, e3, e4⟩ := hg.2 k e hl
  have hk : k ≠ key := by
    intro heq
    subst heq
    simp [lookupKV_eraseKV] at e4
  have la : lookupKV k (eraseKV key a) = lookupKV k a := by simp [lookupKV_eraseKV, hk]
  have lb : lookupKV k (eraseKV key b) = lookupKV k b := by simp [lookupKV_eraseKV, hk]
  refine ⟨e1, e2, ?_, by rw [← la, ← lb]; exact e4⟩
  rw [← lb, ← e3]
  cases e with
  | add k' v =>
    simp only [Op.skey] at e1; subst e1
    show (if hasKey k' a then none else some (some v)) = (if hasKey k' (eraseKV key a) then none else some (some v))
    have : hasKey k' (eraseKV key a) = hasKey k' a := by unfold hasKey; rw [la]
    rw [this]
  | remove k' => rfl
  | replace k' v => rfl
  | patchK k' dd => simp only [Op.skey] at e1; subst e1; simp [mapEff, la]
  | addrange _ _ => rfl
  | addchars _ _ => rfl
  | removerange _ _ => rfl
  | patchI _ _ => rfl
  | invalid _ => rfl

/-- the sub-differ reached through the tables is sound at every path -/
def SubSound (recur : Recur) (cfg : Cfg) : Prop := ∀ p, SoundOn (recur cfg (cfg.differ p) p)

theorem dictRecOK_of_sub (recur : Recur) (cfg : Cfg) (path : String) (a b : List (String × J))
    (hsub : SubSound recur cfg) (ca : J.canonicalKvs a = true) (cb : J.canonicalKvs b = true)
    (hab : CompatKvs a b) : DictRecOK recur cfg path a b := by
  intro k av bv dd ha hb hc
  have cav := canonicalKvs_mem a ca _ (lookupKV_mem k av a ha)
  have cbv := canonicalKvs_mem b cb _ (lookupKV_mem k bv b hb)
  have hvv := hab k av bv ha hb
  exact ⟨hsub _ av bv dd cav cbv hvv hc, fun hnil => (hsub _).nil av bv cav cbv hvv (by rw [← hnil]; exact hc)⟩

theorem pyStrict_of_compat (a b : List (String × J)) (ca : J.canonicalKvs a = true) (cb : J.canonicalKvs b = true)
    (hab : CompatKvs a b) : PyStrict a b := by
  intro k av bv ha hb hc
  exact compat_pyEq _ _ (hab k av bv ha hb) (canonicalKvs_mem a ca _ (lookupKV_mem k av a ha))
    (canonicalKvs_mem b cb _ (lookupKV_mem k bv b hb)) hc

/-- `diff` on two dicts under any configuration whose sub-differs are sound -/
theorem genericDiff_obj_sound (O : Oracle) (recur : Recur) (cfg : Cfg) (path : String) (hsub : SubSound recur cfg)
    (ak bk : List (String × J)) (d : List Op)
    (cx : (J.obj ak).canonical = true) (cy : (J.obj bk).canonical = true)
    (hxy : Compat (J.obj ak) (J.obj bk))
    (h : genericDiff O recur cfg path (.obj ak) (.obj bk) = .ok d) : patch (.obj ak) d = .ok (.obj bk) := by
  simp only [J.canonical, Bool.and_eq_true] at cx cy
  have hkv : CompatKvs ak bk := hxy.obj_inv
  unfold genericDiff at h
  simp only at h
  have hr := diffDicts_roundtrip recur cfg path ak bk (keysSorted_sk ak cx.1) (keysSorted_sk bk cy.1)
    (dictRecOK_of_sub recur cfg path ak bk hsub cx.2 cy.2 hkv) (pyStrict_of_compat ak bk cx.2 cy.2 hkv) d h
  rw [patch]
  simp [hr, bind, Except.bind]

theorem singleOutputs_sound (O : Oracle) (recur : Recur) (cfg : Cfg) (path : String) (hsub : SubSound recur cfg)
    (hgen : SoundOn (genericDiff O recur defaultCfg "")) : SoundOn (singleOutputs O recur cfg path) := by
  intro x y d cx cy hxy h
  unfold singleOutputs at h
  split at h
  · cases h
  · cases x with
    | obj ak =>
      cases y with
      | obj bk =>
        simp only at h
        cases hta : lookupKV "output_type" ak with
        | none => simp [hta] at h
        | some ta =>
          cases htb : lookupKV "output_type" bk with
          | none => simp [hta, htb] at h
          | some tb =>
            simp only [hta, htb] at h
            split at h
            · cases h
            · split at h
              · -- rich output: the mime bundle is diffed separately
                cases hda : lookupKV "data" ak with
                | none => simp [hda] at h
                | some da =>
                  cases hdb : lookupKV "data" bk with
                  | none => simp [hda, hdb] at h
                  | some db =>
                    simp only [hda, hdb, bind, Except.bind, pure, Except.pure] at h
                    have cx' := cx
                    have cy' := cy
                    simp only [J.canonical, Bool.and_eq_true] at cx cy
                    have hkv : CompatKvs ak bk := hxy.obj_inv
                    have hkve : CompatKvs (eraseKV "data" ak) (eraseKV "data" bk) := by
                      intro k av bv ha hb
                      rw [lookupKV_eraseKV] at ha hb
                      by_cases hk : k = "data"
                      · simp [hk] at ha
                      · simp only [hk, if_false] at ha hb
                        exact hkv k av bv ha hb
                    have ska := keysSorted_sk ak cx.1
                    have skb := keysSorted_sk bk cy.1
                    have cea : J.canonicalKvs (eraseKV "data" ak) = true :=
                      canonicalKvs_of_mem _ (fun p hp => canonicalKvs_mem ak cx.2 p (eraseKV_mem _ _ p hp))
                    have ceb : J.canonicalKvs (eraseKV "data" bk) = true :=
                      canonicalKvs_of_mem _ (fun p hp => canonicalKvs_mem bk cy.2 p (eraseKV_mem _ _ p hp))
                    cases hconj : genericDiff O recur cfg path (.obj (eraseKV "data" ak)) (.obj (eraseKV "data" bk)) with
                    | error e => simp [hconj] at h
                    | ok dconj =>
                      simp only [hconj] at h
                      unfold genericDiff at hconj
                      simp only at hconj
                      obtain ⟨di0, rfl, g0, hall0⟩ := diffDicts_table recur cfg path _ _
                        (dictRecOK_of_sub recur cfg path _ _ hsub cea ceb hkve) (pyStrict_of_compat _ _ cea ceb hkve) dconj hconj
                      have hre : (mapValidated di0).foldlM mapAppend ([] : List (String × Op)) = .ok di0 := by
                        have := refold di0 [] (by simpa using g0.1) (fun p hp => by
                          obtain ⟨k, e⟩ := p
                          obtain ⟨e1, e2, _, _⟩ := g0.2 k e (lookupKV_of_mem k e di0 g0.1.dk hp)
                          exact ⟨e1, e2⟩)
                        simpa [mapValidated] using this
                      rw [hre] at h
                      simp only at h
                      cases hmb : mimeBundle O recur da db with
                      | error e => simp [hmb] at h
                      | ok dd =>
                        simp only [hmb] at h
                        cases hmp : mapPatch di0 "data" dd with
                        | error e => simp [hmp] at h
                        | ok di' =>
                          simp only [hmp, Except.ok.injEq] at h
                          subst h
                          have cda := canonicalKvs_mem ak cx.2 _ (lookupKV_mem "data" da ak hda)
                          have cdb := canonicalKvs_mem bk cy.2 _ (lookupKV_mem "data" db bk hdb)
                          have hdd := hkv "data" da db hda hdb
                          have hm := mimeBundle_sound O recur hgen
                          have gfull := goodT_unerase "data" ak bk di0 g0
                          obtain ⟨g1, hd1, keep1⟩ := step_patch ak bk di0 di' "data" da db dd hda hdb gfull
                            (hm da db dd cda cdb hdd hmb)
                            (fun hnil => hm.nil da db cda cdb hdd (by rw [← hnil]; exact hmb)) hmp
                          have hall : ∀ k, lookupKV k di' = none → lookupKV k ak = lookupKV k bk := by
                            intro k hn
                            by_cases hk : k = "data"
                            · subst hk; exact hd1 hn
                            · have h0 : Handled ak bk di0 k := by
                                intro hn0
                                have := hall0 k hn0
                                simpa [lookupKV_eraseKV, hk] using this
                              exact keep1 k h0 hn
                          rw [patch]
                          simp [table_apply ak bk ska skb di' g1 hall, bind, Except.bind]
              · exact genericDiff_obj_sound O recur cfg path hsub ak bk d cx cy hxy h
      | _ => simp at h
    | _ => simp at h

/-! ### any configuration made of sound kinds -/

/-- differ kinds for which `patch(a, diff(a,b)) = b` is meant to hold (the ignore wrappers hide changes
    on purpose; `stringsByChar` is only used as the inner differ of lines) -/
def Differ.allowed : Differ → Bool
  | .generic => true
  | .multilevel => true
  | .stringLines => true
  | .singleOutputs => true
  | .attachments => true
  | _ => false

/-- a predicate list is usable: several predicates (multilevel alignment, any answers) or exactly `==` -/
def predsOk (names : List String) : Bool := decide (names.length > 1) || names == ["eq"]

/-- decidable check on the tables of a configuration (run on the extracted live tables) -/
def cfgSoundB (cfg : Cfg) : Bool :=
  cfg.differDefault.allowed && cfg.differTable.all (fun p => p.2.allowed) &&
  predsOk cfg.predDefault && cfg.predTable.all (fun p => predsOk p.2)

def CfgSound (cfg : Cfg) : Prop := (∀ p, (cfg.differ p).allowed = true) ∧ (∀ p, predsOk (cfg.preds p) = true)

theorem cfgSound_of_B (cfg : Cfg) (h : cfgSoundB cfg = true) : CfgSound cfg := by
  simp only [cfgSoundB, Bool.and_eq_true, List.all_eq_true] at h
  obtain ⟨⟨⟨h1, h2⟩, h3⟩, h4⟩ := h
  constructor
  · intro p
    unfold Cfg.differ
    cases hl : lookupKV p cfg.differTable with
    | none => simpa using h1
    | some d => simpa using h2 (p, d) (lookupKV_mem p d _ hl)
  · intro p
    unfold Cfg.preds
    cases hl : lookupKV p cfg.predTable with
    | none => simpa using h3
    | some d => simpa using h4 (p, d) (lookupKV_mem p d _ hl)

theorem defaultCfg_sound : CfgSound defaultCfg := cfgSound_of_B defaultCfg (by decide +kernel)

theorem itemOK_of_sub (recur : Recur) (cfg : Cfg) (subpath : String) (A B : List J) (hsub : SubSound recur cfg)
    (ca : J.canonicalList A = true) (cb : J.canonicalList B = true)
    (hab : ∀ x ∈ A, ∀ y ∈ B, Compat x y) :
    ItemOK PatchRel recur cfg (cfg.differ subpath) subpath A B := by
  intro i j hi hj cd hc
  have c1 := canonicalList_mem A ca _ (List.getElem_mem hi)
  have c2 := canonicalList_mem B cb _ (List.getElem_mem hj)
  have hxy := hab _ (List.getElem_mem hi) _ (List.getElem_mem hj)
  exact ⟨hsub _ _ _ cd c1 c2 hxy hc, fun hnil => (hsub _).nil _ _ c1 c2 hxy (by rw [← hnil]; exact hc)⟩

/-- `diff` under a configuration of sound kinds whose sub-differs are sound -/
theorem genericDiff_sound (O : Oracle) (hO : OracleOK O) (f : Nat) (cfg : Cfg) (hcfg : CfgSound cfg)
    (hsub : SubSound (diffAt O f) cfg) (path : String) : SoundOn (genericDiff O (diffAt O f) cfg path) := by
  intro x y d cx cy hxy h
  cases x with
  | arr al =>
    cases y with
    | arr bl =>
      unfold genericDiff at h
      simp only at h
      simp only [J.canonical] at cx cy
      have hpairs := hxy.arr_inv
      have hitem := itemOK_of_sub (diffAt O f) cfg (path ++ "/*") al bl hsub cx cy hpairs
      have hr : patchList al d 0 = .ok bl := by
        by_cases hlen : (cfg.preds (orSlash path)).length > 1
        · have hml : diffLists O (diffAt O f) cfg path al bl = multilevel O (diffAt O f) cfg path al bl := by
            unfold diffLists; simp [hlen]
          rw [hml] at h
          exact multilevel_roundtrip O (diffAt O f) cfg path al bl hitem d h
        · have hp := hcfg.2 (orSlash path)
          simp only [predsOk, Bool.or_eq_true, decide_eq_true_eq, beq_iff_eq] at hp
          have hnames : cfg.preds (orSlash path) = ["eq"] := by
            rcases hp with hp | hp
            · exact absurd hp hlen
            · exact hp
          exact diffLists_single_roundtrip O (diffAt O f) cfg path al bl "eq" hnames
            (by
              intro i j hi hj hc
              rw [pred_eq] at hc
              simp only [Except.ok.injEq] at hc
              exact compat_pyEq _ _ (hpairs _ (List.getElem_mem hi) _ (List.getElem_mem hj))
                (canonicalList_mem al cx _ (List.getElem_mem hi)) (canonicalList_mem bl cy _ (List.getElem_mem hj)) hc)
            hitem d h
      rw [patch]
      simp [hr, bind, Except.bind]
    | _ => simp [genericDiff] at h
  | obj ak =>
    cases y with
    | obj bk => exact genericDiff_obj_sound O (diffAt O f) cfg path hsub ak bk d cx cy hxy h
    | _ => simp [genericDiff] at h
  | str sa =>
    cases y with
    | str sb =>
      unfold genericDiff at h
      simp only at h
      have hr := stringsLinewise_roundtrip O hO f sa sb d h
      rw [patch]
      simp [hr, bind, Except.bind]
    | _ => simp [genericDiff] at h
  | null => simp [genericDiff] at h
  | bool _ => simp [genericDiff] at h
  | int _ => simp [genericDiff] at h
  | flt _ => simp [genericDiff] at h

/-- Round trip under ANY configuration of sound kinds, for every differ kind of the tables, at every depth:
    `patch(a, diffAt … a b) = b` on canonical int-only documents, for every answer of the similarity
    predicates and every opcode answer that satisfies difflib's contract. -/
theorem diffAt_sound (O : Oracle) (hO : OracleOK O) (fuel : Nat) :
    ∀ (cfg : Cfg), CfgSound cfg → ∀ (dfr : Differ), dfr.allowed = true → ∀ (path : String),
      SoundOn (diffAt O fuel cfg dfr path) := by
  induction fuel with
  | zero => intro cfg _ dfr _ path x y d _ _ _ h; simp [diffAt] at h
  | succ f ih =>
    intro cfg hcfg dfr hd path
    have hsub : ∀ cfg', CfgSound cfg' → SubSound (diffAt O f) cfg' :=
      fun cfg' h' p => ih cfg' h' (cfg'.differ p) (h'.1 p) p
    have hgenD : SoundOn (genericDiff O (diffAt O f) defaultCfg "") :=
      genericDiff_sound O hO f defaultCfg defaultCfg_sound (hsub defaultCfg defaultCfg_sound) ""
    cases dfr with
    | generic =>
      intro x y d cx cy hxy h
      simp only [diffAt] at h
      exact genericDiff_sound O hO f cfg hcfg (hsub cfg hcfg) path x y d cx cy hxy h
    | multilevel =>
      intro x y d cx cy hxy h
      simp only [diffAt] at h
      cases x with
      | arr al =>
        cases y with
        | arr bl =>
          simp only at h
          simp only [J.canonical] at cx cy
          have hr := multilevel_roundtrip O (diffAt O f) cfg path al bl
            (itemOK_of_sub (diffAt O f) cfg (path ++ "/*") al bl (hsub cfg hcfg) cx cy hxy.arr_inv) d h
          rw [patch]
          simp [hr, bind, Except.bind]
        | _ => simp at h
      | _ => simp at h
    | stringLines =>
      intro x y d cx cy hxy h
      simp only [diffAt] at h
      cases x with
      | str sa =>
        cases y with
        | str sb =>
          simp only at h
          have hr := stringsLinewise_roundtrip O hO f sa sb d h
          rw [patch]
          simp [hr, bind, Except.bind]
        | _ => simp at h
      | _ => simp at h
    | attachments =>
      intro x y d cx cy hxy h
      simp only [diffAt] at h
      exact attachmentsDiff_sound O (diffAt O f) path hgenD x y d cx cy hxy h
    | singleOutputs =>
      intro x y d cx cy hxy h
      simp only [diffAt] at h
      exact singleOutputs_sound O (diffAt O f) cfg path (hsub cfg hcfg) hgenD x y d cx cy hxy h
    | stringsByChar => simp [Differ.allowed] at hd
    | ignore => simp [Differ.allowed] at hd
    | ignoreKeys _ _ => simp [Differ.allowed] at hd

end Nbdime
