import NbdimeProofs.Lemmas.Flatten
import NbdimeProofs.Lemmas.SplitLines
/-
  The rest of `flatten_list_of_string_diff` (`_combine_ops`, the final sort) and `patch_string`:
  on an ordered chain of character entries combining adjacent entries changes nothing of the
  meaning, never raises, and the sort is the identity.  Conclusion: patching a string with a line
  diff gives the concatenation of the patched lines.
-/
set_option linter.unusedSimpArgs false
namespace Nbdime
open Nbdime.Abs

/-- `_combine_ops` on two adjacent character entries -/
def mergeC : POp Char → POp Char → Option (POp Char)
  | .add k cs, .add k' cs' => if k == k' then some (.add k (cs ++ cs')) else none
  | .rem k n, .rem k' n' =>
      if k == k' then some (.rem k (n + n')) else if k + n == k' then some (.rem k (n + n')) else none
  | _, _ => none

theorem combineStep_nil (d : POp Char) : combineStep [] (toOpC d) = .ok [toOpC d] := by
  cases d <;> rfl

theorem combineStep_spec (last d : POp Char) (rest : List Op) (hl : last.isPat = false) (hd : d.isPat = false)
    (hch : last.key + last.eat ≤ d.key) :
    combineStep (toOpC last :: rest) (toOpC d) =
      .ok (match mergeC last d with
           | some m => toOpC m :: rest
           | none => toOpC d :: toOpC last :: rest) := by
  cases last with
  | pat k c => simp [POp.isPat] at hl
  | add k cs =>
    cases d with
    | pat k' c => simp [POp.isPat] at hd
    | add k' cs' =>
      simp only [toOpC, combineStep, mergeC]
      by_cases h : (k == k') = true <;> simp [h]
    | rem k' n' => simp [toOpC, combineStep, mergeC]
  | rem k n =>
    cases d with
    | pat k' c => simp [POp.isPat] at hd
    | add k' cs' => simp [toOpC, combineStep, mergeC]
    | rem k' n' =>
      simp only [POp.key, POp.eat] at hch
      simp only [toOpC, combineStep, mergeC]
      by_cases h : (k == k') = true
      · simp [h]
      · simp only [h, Bool.false_eq_true, if_false]
        by_cases h2 : k + n = k'
        · have : k + n ≥ k' := by omega
          simp [h2, this]
        · have h3 : ¬ (k + n ≥ k') := by omega
          have h4 : (k + n == k') = false := by simpa using h2
          simp [h3, h4]

/-- what a merge means: same start, same end, same effect from any cursor not past the first key -/
theorem mergeC_sem (last d m : POp Char) (xs : List Char) (hm : mergeC last d = some m)
    (hch : last.key + last.eat ≤ d.key) :
    m.isPat = false ∧ m.key = last.key ∧ m.key + m.eat = d.key + d.eat ∧
    ∀ c, c ≤ last.key → Abs.run [last, d] c xs = Abs.run [m] c xs := by
  cases last with
  | pat k c => simp [mergeC] at hm
  | add k cs =>
    cases d with
    | pat k' c => simp [mergeC] at hm
    | rem k' n' => simp [mergeC] at hm
    | add k' cs' =>
      simp only [mergeC] at hm
      by_cases h : (k == k') = true
      · simp only [h, if_true, Option.some.injEq] at hm
        subst hm
        have hk : k = k' := by simpa using h
        subst hk
        refine ⟨rfl, rfl, rfl, ?_⟩
        intro c hc
        simp only [POp.key] at hc
        simp only [Abs.run, POp.key, POp.eat, POp.out, Nat.add_zero, List.append_nil]
        have m1 : max c k = k := by omega
        simp [m1, List.append_assoc]
      · simp [h] at hm
  | rem k n =>
    cases d with
    | pat k' c => simp [mergeC] at hm
    | add k' cs' => simp [mergeC] at hm
    | rem k' n' =>
      simp only [POp.key, POp.eat] at hch
      simp only [mergeC] at hm
      by_cases h : (k == k') = true
      · simp only [h, if_true, Option.some.injEq] at hm
        subst hm
        have hk : k = k' := by simpa using h
        subst hk
        have hn : n = 0 := by omega
        subst hn
        refine ⟨rfl, rfl, by simp [POp.key, POp.eat], ?_⟩
        intro c hc
        simp only [POp.key] at hc
        simp only [Abs.run, POp.key, POp.eat, POp.out, Nat.add_zero, List.append_nil, Nat.zero_add]
        have m1 : max c k = k := by omega
        have m2 : max c (k + n') = k + n' := by omega
        have m3 : max k (k + n') = k + n' := by omega
        simp [m1, m2, m3]
      · simp only [h, Bool.false_eq_true, if_false] at hm
        by_cases h2 : (k + n == k') = true
        · simp only [h2, if_true, Option.some.injEq] at hm
          subst hm
          have hk : k + n = k' := by simpa using h2
          subst hk
          refine ⟨rfl, rfl, by simp [POp.key, POp.eat]; omega, ?_⟩
          intro c hc
          simp only [POp.key] at hc
          simp only [Abs.run, POp.key, POp.eat, POp.out, List.append_nil]
          have m1 : max c (k + n) = k + n := by omega
          have m2 : max (k + n) (k + n + n') = k + n + n' := by omega
          have m3 : max c (k + (n + n')) = k + (n + n') := by omega
          simp [m1, m2, m3, Nat.add_assoc]
        · simp [h2] at hm

/-- under the chain discipline the cursor never passes the next key -/
theorem chain_cursor_le {N t : Nat} (P : List (POp Char)) (e : POp Char) (Q : List (POp Char))
    (h : ChainFrom N t (P ++ e :: Q)) (xs : List Char) : (Abs.run P t xs).2 ≤ e.key := by
  induction P generalizing t with
  | nil => simpa [Abs.run] using h.1
  | cons p P ih =>
    obtain ⟨h1, _, h3⟩ := h
    simp only [Abs.run]
    have m : max t (p.key + p.eat) = p.key + p.eat := by omega
    rw [m]
    exact ih h3

theorem chain_adjacent {N t : Nat} (P : List (POp Char)) (last d : POp Char) (Q : List (POp Char))
    (h : ChainFrom N t (P ++ last :: d :: Q)) : last.key + last.eat ≤ d.key := by
  induction P generalizing t with
  | nil => exact h.2.2.1
  | cons p P ih => exact ih h.2.2

theorem chain_merged {N t : Nat} (P : List (POp Char)) (last d m : POp Char) (Q : List (POp Char))
    (s2 : m.key = last.key) (s3 : m.key + m.eat = d.key + d.eat)
    (h : ChainFrom N t (P ++ last :: d :: Q)) : ChainFrom N t (P ++ m :: Q) := by
  induction P generalizing t with
  | nil =>
    obtain ⟨a1, a2, a3, a4, a5⟩ := h
    exact ⟨by rw [s2]; exact a1, by rw [s3]; exact a4, by rw [s3]; exact a5⟩
  | cons p P ih => exact ⟨h.1, h.2.1, ih h.2.2⟩

/-- replacing two adjacent entries by their merge keeps the chain and the meaning -/
theorem merge_in_context {N t : Nat} (P : List (POp Char)) (last d m : POp Char) (Q : List (POp Char))
    (xs : List Char) (hm : mergeC last d = some m) (h : ChainFrom N t (P ++ last :: d :: Q)) :
    ChainFrom N t (P ++ m :: Q) ∧ pf (P ++ m :: Q) t xs = pf (P ++ last :: d :: Q) t xs := by
  obtain ⟨_, s2, s3, s4⟩ := mergeC_sem last d m xs hm (chain_adjacent P last d Q h)
  constructor
  · exact chain_merged P last d m Q s2 s3 h
  · have hc := chain_cursor_le P last (d :: Q) h xs
    have e1 : P ++ m :: Q = P ++ ([m] ++ Q) := by simp
    have e2 : P ++ last :: d :: Q = P ++ ([last, d] ++ Q) := by simp
    rw [e1, e2, pf_append, pf_append P, pf_append [m], pf_append [last, d], s4 _ hc]

/-- the fold of `_combine_ops` over a chain -/
theorem combineFold (N T : Nat) (xs : List Char) (X accP : List (POp Char))
    (hX : NoPat X) (hA : NoPat accP) (hc : ChainFrom N T (accP ++ X)) :
    ∃ Y, NoPat Y ∧ (X.map toOpC).foldlM combineStep ((accP.map toOpC).reverse) = .ok ((Y.map toOpC).reverse) ∧
      ChainFrom N T Y ∧ pf Y T xs = pf (accP ++ X) T xs := by
  induction X generalizing accP with
  | nil =>
    exact ⟨accP, hA, by simp [pure, Except.pure], by simpa using hc, by simp⟩
  | cons d X' ih =>
    have hd := hX d (by simp)
    have hX' : NoPat X' := fun x hx => hX x (List.mem_cons_of_mem _ hx)
    simp only [List.map_cons, List.foldlM_cons, bind, Except.bind]
    cases hrev : accP.reverse with
    | nil =>
      have : accP = [] := by simpa using hrev
      subst this
      simp only [List.map_nil, List.reverse_nil, combineStep_nil]
      have := ih [d] hX' (fun x hx => by simp at hx; subst hx; exact hd) (by simpa using hc)
      simpa using this
    | cons last Prev =>
      have hacc : accP = Prev.reverse ++ [last] := by
        have := congrArg List.reverse hrev
        simpa using this
      subst hacc
      have hl : last.isPat = false := hA last (by simp)
      have hP : NoPat Prev.reverse := fun x hx => hA x (by simp at hx ⊢; exact Or.inl hx)
      have hc' : ChainFrom N T (Prev.reverse ++ last :: d :: X') := by simpa using hc
      have hch : last.key + last.eat ≤ d.key := chain_adjacent Prev.reverse last d X' hc'
      have hstep : combineStep ((List.map toOpC (Prev.reverse ++ [last])).reverse) (toOpC d) =
          .ok (match mergeC last d with
               | some m => toOpC m :: (Prev.reverse.map toOpC).reverse
               | none => toOpC d :: toOpC last :: (Prev.reverse.map toOpC).reverse) := by
        have : (List.map toOpC (Prev.reverse ++ [last])).reverse = toOpC last :: (Prev.reverse.map toOpC).reverse := by simp
        rw [this]
        exact combineStep_spec last d _ hl hd hch
      rw [hstep]
      cases hm : mergeC last d with
      | none =>
        simp only
        have hA2 : NoPat (Prev.reverse ++ [last] ++ [d]) := hA.append (fun x hx => by simp at hx; subst hx; exact hd)
        obtain ⟨Y, y1, y2, y3, y4⟩ := ih (Prev.reverse ++ [last] ++ [d]) hX' hA2 (by simpa using hc)
        refine ⟨Y, y1, ?_, y3, by simpa using y4⟩
        have : (List.map toOpC (Prev.reverse ++ [last] ++ [d])).reverse = toOpC d :: toOpC last :: (Prev.reverse.map toOpC).reverse := by simp
        rw [this] at y2
        exact y2
      | some m =>
        simp only
        obtain ⟨m1, _, _, _⟩ := mergeC_sem last d m xs hm hch
        obtain ⟨g1, g2⟩ := merge_in_context Prev.reverse last d m X' xs hm hc'
        have hA2 : NoPat (Prev.reverse ++ [m]) := hP.append (fun x hx => by simp at hx; subst hx; exact m1)
        obtain ⟨Y, y1, y2, y3, y4⟩ := ih (Prev.reverse ++ [m]) hX' hA2 (by simpa using g1)
        refine ⟨Y, y1, ?_, y3, ?_⟩
        · have : (List.map toOpC (Prev.reverse ++ [m])).reverse = toOpC m :: (Prev.reverse.map toOpC).reverse := by simp
          rw [this] at y2
          exact y2
        · rw [y4]
          have e1 : Prev.reverse ++ [m] ++ X' = Prev.reverse ++ m :: X' := by simp
          have e2 : Prev.reverse ++ [last] ++ d :: X' = Prev.reverse ++ last :: d :: X' := by simp
          rw [e1, e2, g2]

theorem combineOps_chain (N T : Nat) (xs : List Char) (X : List (POp Char)) (hX : NoPat X) (hc : ChainFrom N T X) :
    ∃ Y, NoPat Y ∧ combineOps (X.map toOpC) = .ok (Y.map toOpC) ∧ ChainFrom N T Y ∧ pf Y T xs = pf X T xs := by
  obtain ⟨Y, y1, y2, y3, y4⟩ := combineFold N T xs X [] hX (fun _ h => absurd h (by simp)) (by simpa using hc)
  refine ⟨Y, y1, ?_, y3, by simpa using y4⟩
  unfold combineOps
  simp only [List.map_nil, List.reverse_nil] at y2
  simp [y2, bind, Except.bind, pure, Except.pure]

/-- a chain is sorted by key, so the final stable sort changes nothing -/
theorem sortByIdx_chain (N T : Nat) (Y : List (POp Char)) (hY : NoPat Y) (hc : ChainFrom N T Y) :
    sortByIdx (Y.map toOpC) = Y.map toOpC := by
  induction Y generalizing T with
  | nil => rfl
  | cons e es ih =>
    have hes : NoPat es := fun x hx => hY x (List.mem_cons_of_mem _ hx)
    have he := hY e (by simp)
    obtain ⟨_, _, h3⟩ := hc
    have := ih _ hes h3
    unfold sortByIdx at this ⊢
    simp only [List.map_cons, List.foldr_cons, this]
    cases es with
    | nil => rfl
    | cons e2 es2 =>
      have he2 := hY e2 (by simp)
      have hle : (toOpC e).idx ≤ (toOpC e2).idx := by
        rw [toOpC_idx e he, toOpC_idx e2 he2]
        have := h3.1; omega
      simp [insertByIdx, hle]

/-- `patch_string` with a line diff whose patch entries carry character chains gives the
    concatenation of the patched lines -/
theorem patchString_lines (s : List Char) (d : List Op) (pops : List (POp J))
    (hd : Denotes CharRel ((splitLines s).map J.str) d pops) (hc : ChainFrom (splitLines s).length 0 pops)
    (hs : ∀ e ∈ pops, ∀ x ∈ e.out, ∃ c, x = J.str c) :
    patchString s d = .ok (chars (pf pops 0 ((splitLines s).map J.str))) := by
  obtain ⟨X, x1, x2, x3, x4⟩ := flattenOps_spec (splitLines s) d pops 0 hd hc hs
  rw [join_splitLines, off_zero] at x3 x4
  obtain ⟨Y, y1, y2, y3, y4⟩ := combineOps_chain s.length 0 s X x1 x3
  unfold patchString flatten
  simp only [x2, y2, sortByIdx_chain s.length 0 Y y1 y3, bind, Except.bind, pure, Except.pure]
  rw [patchChars_map s Y 0 y1, y4, x4]

end Nbdime
