import NbdimeModel
/-
  `MergeDecisionBuilder.validated`: the descending stable sort by `_sort_key` puts every decision
  inside a sub-document before any decision on an enclosing path (C09, ordering clause) — for every
  builder content whatsoever.
-/
namespace Nbdime
namespace Merge

/-! ### the component order is a strict weak order -/

theorem str_not_lt_empty (s : String) : ¬ s < "" := by
  intro h
  have : s.toList < "".toList := h
  simp at this

theorem str_le_empty {t : String} (h : ¬ "" < t) : t = "" :=
  String.le_antisymm (String.not_lt.mp h) (String.not_lt.mp (str_not_lt_empty t))

theorem SortComp.lt_irrefl (a : SortComp) : a.lt a = false := by
  cases a with
  | num n => simp [SortComp.lt]
  | str s => simp [SortComp.lt]

theorem SortComp.lt_asymm {a b : SortComp} (h : a.lt b = true) : b.lt a = false := by
  cases a <;> cases b <;> simp [SortComp.lt] at h ⊢
  · omega
  · exact h
  · exact h
  · exact String.not_lt.mp (String.lt_asymm h)

theorem SortComp.neg_trans {a b c : SortComp} (h1 : a.lt b = false) (h2 : b.lt c = false) : a.lt c = false := by
  cases a <;> cases b <;> cases c <;> simp [SortComp.lt] at h1 h2 ⊢
  · omega
  · exact h2
  · simp [h1] at h2
  · subst h1
    have := str_le_empty (t := _) (String.not_lt.mpr h2)
    exact this
  · exact h1
  · subst h2
    exact String.not_lt.mp (str_not_lt_empty _)
  · intro hs; subst hs
    have := str_le_empty (t := _) (String.not_lt.mpr h1)
    exact h2 this
  · exact String.le_trans h2 h1

/-! ### the lexicographic order on sort keys -/

theorem keyLt_neg_trans : ∀ (x y z : List SortComp), keyLt x y = false → keyLt y z = false → keyLt x z = false
  | [], y, z, h1, h2 => by
      cases y with
      | nil => exact h2
      | cons b bs => simp [keyLt] at h1
  | a :: as, [], z, _, h2 => by
      cases z with
      | nil => simp [keyLt]
      | cons c cs => simp [keyLt] at h2
  | a :: as, b :: bs, [], _, _ => by simp [keyLt]
  | a :: as, b :: bs, c :: cs, h1, h2 => by
      simp only [keyLt] at h1 h2 ⊢
      have hab : a.lt b = false := by
        cases h : a.lt b <;> simp [h] at h1 ⊢
      have hbc : b.lt c = false := by
        cases h : b.lt c <;> simp [h] at h2 ⊢
      have hac : a.lt c = false := SortComp.neg_trans hab hbc
      simp only [hab, hbc, hac, Bool.false_eq_true, if_false] at h1 h2 ⊢
      cases hba : b.lt a with
      | true =>
        -- c < a, otherwise ¬ b < c and ¬ c < a give ¬ b < a
        cases hca : c.lt a with
        | true => simp
        | false => have := SortComp.neg_trans hbc hca; rw [hba] at this; cases this
      | false =>
        simp only [hba, Bool.false_eq_true, if_false] at h1
        cases hcb : c.lt b with
        | true =>
          cases hca : c.lt a with
          | true => simp
          | false => have := SortComp.neg_trans hca hab; rw [hcb] at this; cases this
        | false =>
          simp only [hcb, Bool.false_eq_true, if_false] at h2
          have hca : c.lt a = false := SortComp.neg_trans hcb hba
          simp only [hca, Bool.false_eq_true, if_false]
          exact keyLt_neg_trans as bs cs h1 h2

theorem keyLt_asymm : ∀ (x y : List SortComp), keyLt x y = true → keyLt y x = false
  | [], [], h => by simp [keyLt] at h
  | [], _ :: _, _ => by simp [keyLt]
  | _ :: _, [], h => by simp [keyLt] at h
  | a :: as, b :: bs, h => by
      simp only [keyLt] at h ⊢
      cases hab : a.lt b with
      | true => simp [SortComp.lt_asymm hab]
      | false =>
        simp only [hab, Bool.false_eq_true, if_false] at h
        cases hba : b.lt a with
        | true => simp [hba] at h
        | false =>
          simp only [hba, Bool.false_eq_true, if_false] at h ⊢
          exact keyLt_asymm as bs h

/-- a strict prefix has a strictly smaller sort key -/
theorem strictPrefix_keyLt : ∀ (p q : List PKey), strictPrefix p q = true →
    keyLt (p.map sortComp) (q.map sortComp) = true
  | [], [], h => by simp [strictPrefix] at h
  | [], _ :: _, _ => by simp [keyLt]
  | _ :: _, [], h => by simp [strictPrefix] at h
  | a :: as, b :: bs, h => by
      simp only [strictPrefix, Bool.and_eq_true, beq_iff_eq] at h
      obtain ⟨hab, hrest⟩ := h
      subst hab
      simp only [List.map_cons, keyLt, SortComp.lt_irrefl, Bool.false_eq_true, if_false]
      exact strictPrefix_keyLt as bs hrest

/-! ### the sort -/

def Desc (l : List MD) : Prop := l.Pairwise (fun x y => keyLt (sortKeyOf x) (sortKeyOf y) = false)

theorem mem_insertDesc (e : MD) : ∀ (l : List MD) (z : MD), z ∈ insertDesc e l → z = e ∨ z ∈ l
  | [], z, h => by simp [insertDesc] at h; exact Or.inl h
  | x :: rest, z, h => by
      simp only [insertDesc] at h
      split at h
      · simp only [List.mem_cons] at h
        rcases h with h | h
        · exact Or.inr (by simp [h])
        · rcases mem_insertDesc e rest z h with h | h
          · exact Or.inl h
          · exact Or.inr (by simp [h])
      · simp only [List.mem_cons] at h
        rcases h with h | h | h
        · exact Or.inl h
        · exact Or.inr (by simp [h])
        · exact Or.inr (by simp [h])

theorem insertDesc_desc (e : MD) : ∀ (l : List MD), Desc l → Desc (insertDesc e l)
  | [], _ => by simp [insertDesc, Desc]
  | x :: rest, h => by
      unfold Desc at h ⊢
      rw [List.pairwise_cons] at h
      obtain ⟨hx, hrest⟩ := h
      simp only [insertDesc]
      split
      · rename_i hlt
        rw [List.pairwise_cons]
        refine ⟨?_, insertDesc_desc e rest hrest⟩
        intro z hz
        rcases mem_insertDesc e rest z hz with hz | hz
        · subst hz; exact keyLt_asymm _ _ hlt
        · exact hx z hz
      · rename_i hnlt
        have hex : keyLt (sortKeyOf e) (sortKeyOf x) = false := by
          cases h : keyLt (sortKeyOf e) (sortKeyOf x) <;> simp_all
        rw [List.pairwise_cons]
        refine ⟨?_, List.pairwise_cons.mpr ⟨hx, hrest⟩⟩
        intro z hz
        simp only [List.mem_cons] at hz
        rcases hz with hz | hz
        · subst hz; exact hex
        · exact keyLt_neg_trans _ _ _ hex (hx z hz)

theorem sortDesc_desc (b : B) : Desc (sortDesc b) := by
  unfold sortDesc
  induction b with
  | nil => simp [Desc]
  | cons d rest ih => simpa [List.foldr] using insertDesc_desc d _ ih

theorem desc_childrenFirst : ∀ (l : List MD), Desc l → childrenFirst (l.map MD.toDecision) = true
  | [], _ => by simp [childrenFirst]
  | d :: rest, h => by
      unfold Desc at h
      rw [List.pairwise_cons] at h
      obtain ⟨hd, hrest⟩ := h
      simp only [List.map_cons, childrenFirst, Bool.and_eq_true, List.all_eq_true, List.mem_map]
      refine ⟨?_, desc_childrenFirst rest hrest⟩
      rintro e ⟨x, hx, rfl⟩
      have := hd x hx
      cases hp : strictPrefix d.toDecision.path x.toDecision.path with
      | false => simp
      | true =>
        have := strictPrefix_keyLt _ _ hp
        simp only [MD.toDecision] at this
        simp only [sortKeyOf] at hd
        have h2 := hd x hx
        rw [this] at h2; cases h2

/-- **C09, ordering clause, for the model of the merger**: whatever the builder holds, the list
    `validated` returns has every decision inside a sub-document before any decision on an
    enclosing path. -/
theorem validated_childrenFirst (b : B) : childrenFirst ((validated b).map MD.toDecision) = true :=
  desc_childrenFirst _ (sortDesc_desc _)

end Merge
end Nbdime
