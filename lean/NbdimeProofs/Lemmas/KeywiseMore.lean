import NbdimeProofs.Lemmas.ApplyKeywise
set_option linter.unusedSimpArgs false
set_option linter.unusedVariables false
namespace Nbdime
open Nbdime.Abs Nbdime.Merge

/-- **totality on the key-wise domain** (C03 for this domain): the decision procedure does not raise -/
theorem keywise_total (E : Env) (base : List (String × J)) (ld rd : List Op)
    (hmapL : ∀ e ∈ ld, e.isMapOp = true) (hndL : (ld.map Op.skey).Nodup)
    (hmapR : ∀ e ∈ rd, e.isMapOp = true) (hndR : (rd.map Op.skey).Nodup)
    (hagree : ∀ el ∈ ld, ∀ er ∈ rd, el.skey = er.skey → el = er) :
    ∃ ds, decideMerge E (.obj base) ld rd = .ok ds := by
  obtain ⟨l, hl, hskL, hpermL, hkeyL⟩ := dictBased_nodup ld hmapL hndL
  obtain ⟨r, hr, hskR, hpermR, hkeyR⟩ := dictBased_nodup rd hmapR hndR
  obtain ⟨tl1, tl2, tl3⟩ := table_lookup hskL hpermL hkeyL
  obtain ⟨tr1, tr2, tr3⟩ := table_lookup hskR hpermR hkeyR
  unfold decideMerge
  obtain ⟨n, hn⟩ := bigFuel_succ
  rw [hn]
  have hexact := mergeDicts_keywise_exact E (mergeF E n) false base ld rd l r hl hr
    (fun k el er h1 h2 => hagree el (tl1 k el h1).1 er (tr1 k er h2).1 (by rw [(tl1 k el h1).2, (tr1 k er h2).2]))
    (fun k e h1 => hmapL e (tl1 k e h1).1)
  simp only [mergeF, hexact, bind, Except.bind, pure, Except.pure]
  exact ⟨_, rfl⟩

end Nbdime

namespace Nbdime
open Nbdime.Abs Nbdime.Merge

/-- well-formedness of a diff for the sub-document at a path (a path may end on a line of a string: then the diff is
    character level) -/
def wfAt : J → List PKey → List Op → Bool
  | doc, [], x => wf doc x
  | .obj kvs, .s k :: q, x => match lookupKV k kvs with
      | some v => wfAt v q x
      | none => false
  | .arr xs, .i n :: q, x => match xs[n]? with
      | some v => wfAt v q x
      | none => false
  | .str s, [.i n], x => match (splitLines s)[n]? with
      | some l => wfChars l.length x 0 none
      | none => false
  | _, _, _ => false

/-- the per-entry content of `wfObj`: what it says about one entry -/
def entryOk (kvs : List (String × J)) : Op → Bool
  | .add k _ => !hasKey k kvs
  | .remove k => hasKey k kvs
  | .replace k _ => hasKey k kvs
  | .patchK k dd => !dd.isEmpty && (match lookupKV k kvs with
      | some v => v.isContainer && wf v dd
      | none => false)
  | _ => false

theorem wfObj_entries (kvs : List (String × J)) : ∀ (d : List Op) (seen : List String), wfObj kvs d seen = true →
    ∀ e ∈ d, entryOk kvs e = true
  | [], _, _ => fun _ h => nomatch h
  | e :: es, seen, h => by
      intro x hx
      cases e with
      | add k v =>
        rw [wfObj] at h
        simp only [Bool.and_eq_true, Bool.not_eq_true'] at h
        rcases List.mem_cons.mp hx with rfl | hx
        · simp [entryOk, h.1.2]
        · exact wfObj_entries kvs es _ h.2 x hx
      | remove k =>
        rw [wfObj] at h
        simp only [Bool.and_eq_true, Bool.not_eq_true'] at h
        rcases List.mem_cons.mp hx with rfl | hx
        · simp [entryOk, h.1.2]
        · exact wfObj_entries kvs es _ h.2 x hx
      | replace k v =>
        rw [wfObj] at h
        simp only [Bool.and_eq_true, Bool.not_eq_true'] at h
        rcases List.mem_cons.mp hx with rfl | hx
        · simp [entryOk, h.1.2]
        · exact wfObj_entries kvs es _ h.2 x hx
      | patchK k dd =>
        rw [wfObj] at h
        simp only [Bool.and_eq_true, Bool.not_eq_true'] at h
        rcases List.mem_cons.mp hx with rfl | hx
        · simp only [entryOk, Bool.and_eq_true, Bool.not_eq_true']
          exact ⟨h.1.1.2, h.1.2⟩
        · exact wfObj_entries kvs es _ h.2 x hx
      | addrange _ _ => unfold wfObj at h; simp at h
      | addchars _ _ => unfold wfObj at h; simp at h
      | removerange _ _ => unfold wfObj at h; simp at h
      | patchI _ _ => unfold wfObj at h; simp at h
      | invalid _ => unfold wfObj at h; simp at h

/-- a diff pushed down a path is well-formed for the document only if the diff is well-formed at the path -/
theorem wf_pushPath : ∀ (q : List PKey) (doc : J) (x : List Op), q ≠ [] → wf doc (pushPath q x) = true → wfAt doc q x = true
  | [], _, _, hq, _ => absurd rfl hq
  | k :: q, doc, x, _, h => by
      have hpp : pushPath (k :: q) x = [opPatchKey k (pushPath q x)] := rfl
      rw [hpp] at h
      cases k with
      | s key =>
        cases doc with
        | obj kvs =>
          rw [wf, opPatchKey, wfObj] at h
          simp only [Bool.and_eq_true, Bool.not_eq_true'] at h
          cases hl : lookupKV key kvs with
          | none => simp [hl] at h
          | some v =>
            simp only [hl, Bool.and_eq_true] at h
            simp only [wfAt, hl]
            cases q with
            | nil => exact h.1.2.2
            | cons k2 q2 => exact wf_pushPath (k2 :: q2) v x (by simp) h.1.2.2
        | arr xs => unfold wf opPatchKey wfList at h; simp at h
        | str s => unfold wf opPatchKey wfLines at h; simp at h
        | null => unfold wf at h; simp at h
        | bool _ => unfold wf at h; simp at h
        | int _ => unfold wf at h; simp at h
        | flt _ => unfold wf at h; simp at h
      | i n =>
        cases doc with
        | arr xs =>
          rw [wf, opPatchKey, wfList] at h
          simp only [Bool.and_eq_true, Bool.not_eq_true'] at h
          cases hl : xs[n]? with
          | none => simp [hl] at h
          | some v =>
            simp only [hl, Bool.and_eq_true] at h
            simp only [wfAt, hl]
            cases q with
            | nil => exact h.1.2.2
            | cons k2 q2 => exact wf_pushPath (k2 :: q2) v x (by simp) h.1.2.2
        | str s =>
          rw [wf, opPatchKey, wfLines] at h
          simp only [Bool.and_eq_true, Bool.not_eq_true'] at h
          cases hl : (splitLines s)[n]? with
          | none => simp [hl] at h
          | some l =>
            simp only [hl] at h
            cases q with
            | nil => simp only [wfAt, hl]; exact h.1.2
            | cons k2 q2 =>
              -- a character-level diff holds no patch entries
              exfalso
              have hpp2 : pushPath (k2 :: q2) x = [opPatchKey k2 (pushPath q2 x)] := rfl
              rw [hpp2] at h
              cases k2 <;> simp [opPatchKey, wfChars] at h
        | obj kvs => unfold wf opPatchKey wfObj at h; simp at h
        | null => unfold wf at h; simp at h
        | bool _ => unfold wf at h; simp at h
        | int _ => unfold wf at h; simp at h
        | flt _ => unfold wf at h; simp at h

end Nbdime

namespace Nbdime
open Nbdime.Abs Nbdime.Merge

/-- the decisions of a key-wise merge: each is the decision `mkSide` builds for an entry of one of the diffs -/
theorem keywise_shape (E : Env) (base : List (String × J)) (ld rd : List Op) (ds : List MD)
    (hmapL : ∀ e ∈ ld, e.isMapOp = true) (hndL : (ld.map Op.skey).Nodup)
    (hmapR : ∀ e ∈ rd, e.isMapOp = true) (hndR : (rd.map Op.skey).Nodup)
    (hagree : ∀ el ∈ ld, ∀ er ∈ rd, el.skey = er.skey → el = er)
    (h : decideMerge E (.obj base) ld rd = .ok ds) :
    ∀ d ∈ ds, ∃ s e, d = mkSide s e ∧ (e ∈ ld ∨ e ∈ rd) := by
  obtain ⟨l, hl, hskL, hpermL, hkeyL⟩ := dictBased_nodup ld hmapL hndL
  obtain ⟨r, hr, hskR, hpermR, hkeyR⟩ := dictBased_nodup rd hmapR hndR
  obtain ⟨tl1, tl2, tl3⟩ := table_lookup hskL hpermL hkeyL
  obtain ⟨tr1, tr2, tr3⟩ := table_lookup hskR hpermR hkeyR
  unfold decideMerge at h
  obtain ⟨n, hn⟩ := bigFuel_succ
  rw [hn] at h
  have hexact := mergeDicts_keywise_exact E (mergeF E n) false base ld rd l r hl hr
    (fun k el er h1 h2 => hagree el (tl1 k el h1).1 er (tr1 k er h2).1 (by rw [(tl1 k el h1).2, (tr1 k er h2).2]))
    (fun k e h1 => hmapL e (tl1 k e h1).1)
  simp only [mergeF, hexact, bind, Except.bind] at h
  generalize hbdef : (oneKeys l r).filterMap (keyDec l r) ++ (bothKeys l r).filterMap (keyDec l r) = b at h
  have hb0 : ∀ d ∈ b, ∃ s e, d = mkSide s e ∧ (e ∈ ld ∨ e ∈ rd) := by
    intro d hd
    rw [← hbdef] at hd
    simp only [List.mem_append, List.mem_filterMap] at hd
    have : ∃ k, keyDec l r k = some d := by
      rcases hd with ⟨k, _, hk⟩ | ⟨k, _, hk⟩ <;> exact ⟨k, hk⟩
    obtain ⟨k, hk⟩ := this
    obtain ⟨s, e, rfl, hcase⟩ := keyDec_mem hk
    refine ⟨s, e, rfl, ?_⟩
    rcases hcase with h1 | ⟨_, h2⟩
    · exact Or.inl (tl1 k e h1).1
    · exact Or.inr (tr1 k e h2).1
  have hnc : hasConflicted b = false := by
    unfold hasConflicted
    rw [List.any_eq_false]
    intro d hd
    obtain ⟨s, e, rfl, _⟩ := hb0 d hd
    simp [mkSide_noconf]
  rw [resolveGeneric_noconf hnc] at h
  simp only [pure, Except.pure, Except.ok.injEq] at h
  have hstrip : b.map (fun d => ({ d with strategy := none } : MD)) = b := by
    have : ∀ d ∈ b, ({ d with strategy := none } : MD) = d := by
      intro d hd
      obtain ⟨s, e, rfl, _⟩ := hb0 d hd
      simp [mkSide]
    rw [List.map_congr_left this]; simp
  unfold validated at h
  rw [hstrip] at h
  subst h
  intro d hd
  exact hb0 d (mem_sortDesc b d hd)

/-- every diff a decision of `mkSide s e` carries is well-formed for the sub-document at the decision's path, when `e`
    is an entry of a diff that is well-formed for the root object -/
theorem mkSide_wfAt (base : List (String × J)) (s : Side) (e : Op) (hm : e.isMapOp = true) (hok : entryOk base e = true) :
    ∀ x, ((mkSide s e).localDiff = some x ∨ (mkSide s e).remoteDiff = some x) → wfAt (.obj base) (mkSide s e).path x = true := by
  intro x hx
  rcases mapOp_cases hm with hp | ⟨k, dd, rfl⟩
  · rw [mkSide_plain s hp] at hx ⊢
    have hxe : x = [e] := by
      cases s <;> simp [sideMD] at hx <;> exact hx.symm
    subst hxe
    show wf (.obj base) [e] = true
    cases e <;> simp_all [isPlainMap, entryOk, wf, wfObj]
  · obtain ⟨q', y, hmk, hpush⟩ := mkSide_patch s k dd
    rw [hmk] at hx ⊢
    have hxy : x = y := by
      cases s <;> simp [sideMD] at hx <;> exact hx.symm
    subst hxy
    show wfAt (.obj base) (PKey.s k :: q') x = true
    simp only [entryOk, Bool.and_eq_true, Bool.not_eq_true'] at hok
    cases hl : lookupKV k base with
    | none => simp [hl] at hok
    | some v =>
      simp only [hl, Bool.and_eq_true] at hok
      simp only [wfAt, hl]
      cases q' with
      | nil =>
        have : x = dd := hpush
        subst this
        exact hok.2.2
      | cons k2 q2 =>
        apply wf_pushPath (k2 :: q2) v x (by simp)
        rw [hpush]; exact hok.2.2

/-- **C11 for the decisions of key-wise merges**: every local / remote diff embedded in a decision is well-formed for
    the sub-document at the decision's path (character level when the path ends on a line) -/
theorem keywise_decisions_wf (E : Env) (base : List (String × J)) (ld rd : List Op) (ds : List MD)
    (hwfL : wf (.obj base) ld = true) (hwfR : wf (.obj base) rd = true)
    (hagree : ∀ el ∈ ld, ∀ er ∈ rd, el.skey = er.skey → el = er)
    (h : decideMerge E (.obj base) ld rd = .ok ds) :
    ∀ d ∈ ds, ∀ x, (d.localDiff = some x ∨ d.remoteDiff = some x) → wfAt (.obj base) d.path x = true := by
  rw [wf] at hwfL hwfR
  obtain ⟨l1, l2, _⟩ := wfObj_shape base ld [] hwfL
  obtain ⟨r1, r2, _⟩ := wfObj_shape base rd [] hwfR
  intro d hd
  obtain ⟨s, e, rfl, he⟩ := keywise_shape E base ld rd ds l1 l2 r1 r2 hagree h d hd
  rcases he with he | he
  · exact mkSide_wfAt base s e (l1 e he) (wfObj_entries base ld [] hwfL e he)
  · exact mkSide_wfAt base s e (r1 e he) (wfObj_entries base rd [] hwfR e he)

end Nbdime
