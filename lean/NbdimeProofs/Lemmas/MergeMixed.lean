import NbdimeProofs.Lemmas.MergeCells
import NbdimeProofs.Lemmas.ApplyKeywise
import NbdimeProofs.Lemmas.SortBlocks
import NbdimeProofs.Lemmas.KeywiseMore
/-
  The mixed domain of C06: the two sides patch different items of the list under root key `k` (the cells), and on every
  other root key they either touch it on one side only or say the same. What `_merge_dicts` decides, exactly.
-/
set_option linter.unusedSimpArgs false
set_option linter.unusedVariables false
namespace Nbdime
open Nbdime.Abs Nbdime.Merge

/-- key `k` of the root object holds the list `xs`; both sides patch it, at different items -/
theorem dictBoth_cells (E : Env) (m : Nat) (base : List (String × J)) (spath : String) (b : B) (k : String) (xs : List J)
    (dL dR : List Op) (hk : lookupKV k base = some (.arr xs)) (h0 : AscPatch 0 dL) (h1 : AscPatch 0 dR)
    (hdis : ∀ e0 ∈ dL, ∀ e1 ∈ dR, e0.idx ≠ e1.idx) (hneq : Op.pyEq (.patchK k dL) (.patchK k dR) = false) (R : B)
    (h : dictBoth E (mergeF E (m + 1)) false base [] spath b k (.patchK k dL) (.patchK k dR) = .ok R) :
    R = b ++ walk [PKey.s k] (boundsOf xs.length dL dR) dL dR := by
  unfold dictBoth at h
  have hct : (chunkTypename [Op.patchK k dL] != chunkTypename [Op.patchK k dR]) = false := by simp [chunkTypename]
  simp only [isPD, Option.isSome_none, Bool.false_eq_true, if_false, isRemoveOp, Bool.or_self, hct, hneq, hk, opDiff, bind,
    Except.bind, pure, Except.pure, List.nil_append, mergeF] at h
  cases hm : mergeLists E (mergeF E m) false xs dL dR [PKey.s k] with
  | error e => simp [hm] at h
  | ok sub =>
    have hsub := mergeLists_patches E (mergeF E m) false xs dL dR [PKey.s k] sub h0 h1 hdis hm
    simp only [hm, Except.ok.injEq] at h
    rw [← h, hsub]

theorem foldlM_append_ok {α β} (g : β → α → Except Err β) : ∀ (l1 l2 : List α) (b : β),
    (l1 ++ l2).foldlM g b = (l1.foldlM g b >>= fun b' => l2.foldlM g b')
  | [], l2, b => by simp [bind, Except.bind, pure, Except.pure]
  | a :: l1, l2, b => by
      simp only [List.cons_append, List.foldlM_cons, bind, Except.bind]
      cases hg : g b a with
      | error e => rfl
      | ok b' =>
        have := foldlM_append_ok g l1 l2 b'
        simp only [bind, Except.bind] at this
        exact this

/-- the decisions of `_merge_dicts` at the root in the mixed domain, exactly: the one-sided keys, then the shared keys
    in order — agreed entries, and at `k` the decisions of the list merge -/
theorem mergeDicts_mixed_exact (E : Env) (m : Nat) (base : List (String × J)) (ld rd : List Op)
    (l r : List (String × Op)) (hl : dictBased ld = .ok l) (hr : dictBased rd = .ok r)
    (k : String) (xs : List J) (dL dR : List Op)
    (hlk : lookupKV k l = some (.patchK k dL)) (hrk : lookupKV k r = some (.patchK k dR))
    (hagree : ∀ k' el er, k' ≠ k → lookupKV k' l = some el → lookupKV k' r = some er → el = er)
    (hmap : ∀ k' e, lookupKV k' l = some e → e.isMapOp = true)
    (hk : lookupKV k base = some (.arr xs)) (h0 : AscPatch 0 dL) (h1 : AscPatch 0 dR)
    (hdis : ∀ e0 ∈ dL, ∀ e1 ∈ dR, e0.idx ≠ e1.idx) (hneq : Op.pyEq (.patchK k dL) (.patchK k dR) = false)
    (hnd : (bothKeys l r).Nodup) (R : B)
    (h : mergeDicts E (mergeF E (m + 1)) false base ld rd [] = .ok R) :
    ∃ pre post, bothKeys l r = pre ++ k :: post ∧ k ∉ pre ∧ k ∉ post ∧
      R = (oneKeys l r).filterMap (keyDec l r) ++ pre.filterMap (keyDec l r) ++
            walk [PKey.s k] (boundsOf xs.length dL dR) dL dR ++ post.filterMap (keyDec l r) := by
  have hkin : k ∈ bothKeys l r := by
    unfold bothKeys
    rw [_root_.Nbdime.mem_sortStrs]
    simp only [List.mem_filter, List.contains_eq_mem, decide_eq_true_eq, mem_keys_iff]
    simp [hlk, hrk]
  obtain ⟨pre, post, hsplit⟩ := List.append_of_mem hkin
  have hnd' := hnd
  rw [hsplit] at hnd'
  have hkpre : k ∉ pre := by
    intro hm
    have := (List.nodup_append.mp hnd').2.2 k hm k List.mem_cons_self
    exact this rfl
  have hkpost : k ∉ post := by
    have := (List.nodup_append.mp hnd').2.1
    exact (List.nodup_cons.mp this).1
  refine ⟨pre, post, hsplit, hkpre, hkpost, ?_⟩
  unfold mergeDicts at h
  simp only [hl, hr, bind, Except.bind] at h
  have h1k : ∀ k' ∈ oneKeys l r, (lookupKV k' l).isSome ≠ (lookupKV k' r).isSome := by
    intro k' hk'
    have hk'' := (_root_.Nbdime.mem_sortStrs k' _).mp hk'
    simp only [List.mem_append, List.mem_filter, Bool.not_eq_true', List.contains_eq_mem, decide_eq_false_iff_not] at hk''
    rcases hk'' with ⟨a, b⟩ | ⟨a, b⟩
    · have ha := (mem_keys_iff k' l).mp a
      have hb : (lookupKV k' r).isSome = false := by
        cases hh : (lookupKV k' r).isSome with
        | false => rfl
        | true => exact absurd ((mem_keys_iff k' r).mpr hh) b
      rw [ha, hb]; decide
    · have ha := (mem_keys_iff k' r).mp a
      have hb : (lookupKV k' l).isSome = false := by
        cases hh : (lookupKV k' l).isSome with
        | false => rfl
        | true => exact absurd ((mem_keys_iff k' l).mpr hh) b
      rw [ha, hb]; decide
  have h2k : ∀ k' ∈ bothKeys l r, k' ≠ k → ∃ e, lookupKV k' l = some e ∧ lookupKV k' r = some e ∧ e.isMapOp = true := by
    intro k' hk' hne
    have hk'' := (_root_.Nbdime.mem_sortStrs k' _).mp hk'
    simp only [List.mem_filter, List.contains_eq_mem, decide_eq_true_eq] at hk''
    obtain ⟨a, b⟩ := hk''
    have ha := (mem_keys_iff k' l).mp a
    have hb := (mem_keys_iff k' r).mp b
    cases hle : lookupKV k' l with
    | none => simp [hle] at ha
    | some el =>
      cases hre : lookupKV k' r with
      | none => simp [hre] at hb
      | some er =>
        have := hagree k' el er hne hle hre
        subst this
        exact ⟨el, rfl, rfl, hmap k' el hle⟩
  have f1 := fold_onekeys l r (oneKeys l r) [] h1k
  unfold oneKeys at f1
  rw [f1] at h
  simp only [List.nil_append] at h
  -- the shared keys: before `k`, `k`, after `k`
  generalize hg : (fun (b : B) (k' : String) =>
      match lookupKV k' l, lookupKV k' r with
      | some le, some re => dictBoth E (mergeF E (m + 1)) false base [] (starPath []) b k' le re
      | _, _ => throw (Err.key k')) = g at h
  have hgsame : ∀ b k' e, lookupKV k' l = some e → lookupKV k' r = some e →
      g b k' = dictBoth E (mergeF E (m + 1)) false base [] (starPath []) b k' e e := by
    intro b k' e ha hb; rw [← hg]; simp only [ha, hb]
  have hgk : ∀ b, g b k = dictBoth E (mergeF E (m + 1)) false base [] (starPath []) b k (.patchK k dL) (.patchK k dR) := by
    intro b; rw [← hg]; simp only [hlk, hrk]
  have hsplit' : sortStrs (List.filter (fun k' => (r.map (·.1)).contains k') (l.map (·.1))) = pre ++ k :: post := hsplit
  rw [hsplit'] at h
  have hpre := fold_bothkeys E (mergeF E (m + 1)) false base (starPath []) l r g hgsame pre
    ((oneKeys l r).filterMap (keyDec l r))
    (fun k' hk' => h2k k' (by rw [hsplit]; exact List.mem_append_left _ hk') (fun hh => hkpre (hh ▸ hk')))
  unfold oneKeys at hpre
  generalize hb1 : List.filterMap (keyDec l r) (sortStrs (List.filter (fun k => !(r.map (·.1)).contains k) (l.map (·.1)) ++
      List.filter (fun k => !(l.map (·.1)).contains k) (r.map (·.1)))) ++ List.filterMap (keyDec l r) pre = b1 at hpre
  rw [foldlM_append_ok, hpre] at h
  simp only [bind, Except.bind, List.foldlM_cons] at h
  rw [hgk] at h
  cases hdb : dictBoth E (mergeF E (m + 1)) false base [] (starPath []) b1 k (.patchK k dL) (.patchK k dR) with
  | error e => simp [hdb] at h
  | ok Rk =>
    have hRk := dictBoth_cells E m base (starPath []) _ k xs dL dR hk h0 h1 hdis hneq Rk hdb
    simp only [hdb] at h
    have hpost := fold_bothkeys E (mergeF E (m + 1)) false base (starPath []) l r g hgsame post Rk
      (fun k' hk' => h2k k' (by rw [hsplit]; exact List.mem_append_right _ (List.mem_cons_of_mem _ hk'))
        (fun hh => hkpost (hh ▸ hk')))
    rw [hpost] at h
    simp only [pure, Except.pure] at h
    have hnc : hasConflicted (Rk ++ List.filterMap (keyDec l r) post) = false := by
      unfold hasConflicted
      rw [List.any_eq_false]
      intro d hd
      rw [hRk, ← hb1] at hd
      simp only [List.mem_append, List.mem_filterMap] at hd
      have hw := walk_noconf [PKey.s k] (boundsOf xs.length dL dR) dL dR
      unfold hasConflicted at hw
      rw [List.any_eq_false] at hw
      rcases hd with ((⟨k', _, hk'⟩ | ⟨k', _, hk'⟩) | hd) | ⟨k', _, hk'⟩
      · obtain ⟨s, e, rfl, _⟩ := keyDec_mem hk'; simp [mkSide_noconf]
      · obtain ⟨s, e, rfl, _⟩ := keyDec_mem hk'; simp [mkSide_noconf]
      · exact hw d hd
      · obtain ⟨s, e, rfl, _⟩ := keyDec_mem hk'; simp [mkSide_noconf]
    rw [resolveDict_noconf hnc] at h
    simp only [Except.ok.injEq] at h
    rw [← h, hRk, ← hb1]
    unfold oneKeys
    simp [List.append_assoc]

/-! ### the block of cell decisions, as items -/

/-- the cell decisions of the walk, sorted as `validated` sorts them, are the lifted decisions of a list of good items —
    one per patched item, pairwise different indices —, and the list they produce is the list `patch_list` produces from
    the local patches followed by the remote patches -/
theorem cells_items (k : String) (xs : List J) (cxs : ∀ v ∈ xs, v.canonical = true) (dL dR : List Op) (RL RX : List J)
    (h0 : AscPatch 0 dL) (h1 : AscPatch 0 dR) (hdis : ∀ e0 ∈ dL, ∀ e1 ∈ dR, e0.idx ≠ e1.idx) (hne : dL ≠ [])
    (hRL : patchList xs dL 0 = .ok RL) (hRX : patchList RL dR 0 = .ok RX) :
    ∃ cells : List ArrItem,
      (sortDesc (walk [PKey.s k] (boundsOf xs.length dL dR) dL dR)).map MD.toDecision = cells.map (fun it => liftDec k it.d) ∧
      (∀ it ∈ cells, it.ok xs) ∧ (cells.map (·.j)).Nodup ∧ cells ≠ [] ∧ (∀ it ∈ cells, it.d.keyBased = false) ∧
      (∀ d ∈ walk [PKey.s k] (boundsOf xs.length dL dR) dL dR, d.conflict = false ∧ headIs k d = true) ∧
      (∀ R : List J, (∀ i, R[i]? = (xs[i]?).map (fun x => ((cells.find? (fun it => it.j == i)).map (·.pv)).getD x)) →
        R = RX) := by
  obtain ⟨EL, aL, dLeq, fL⟩ := patchList_inv xs dL 0 RL h0 hRL
  obtain ⟨RL', hRL', gL⟩ := patchList_edits xs EL 0 aL fL
  rw [← dLeq, hRL] at hRL'
  cases hRL'
  obtain ⟨ER, aR, dReq, fR⟩ := patchList_inv RL dR 0 RX h1 hRX
  obtain ⟨RX', hRX', gR⟩ := patchList_edits RL ER 0 aR fR
  rw [← dReq, hRX] at hRX'
  cases hRX'
  simp only [Nat.zero_add] at gL gR
  -- the indices of the two sides differ
  have hdisE : ∀ eL ∈ EL, ∀ eR ∈ ER, eL.j ≠ eR.j := by
    intro eL hL' eR hR'
    have m0 : Op.patchI eL.j eL.dd ∈ dL := by rw [dLeq]; exact List.mem_map_of_mem (f := fun e => Op.patchI e.j e.dd) hL'
    have m1 : Op.patchI eR.j eR.dd ∈ dR := by rw [dReq]; exact List.mem_map_of_mem (f := fun e => Op.patchI e.j e.dd) hR'
    exact hdis _ m0 _ m1
  -- remote edits see the base items
  have fR' : ∀ e ∈ ER, xs[e.j]? = some e.v ∧ patch e.v e.dd = .ok e.pv := by
    intro e he
    obtain ⟨f1, f2⟩ := fR e he
    rw [gL e.j, lookupEdit_none EL e.j (fun eL hL' => hdisE eL hL' e he)] at f1
    refine ⟨?_, f2⟩
    cases hx : xs[e.j]? with
    | none => simp [hx] at f1
    | some x => simpa [hx] using f1
  -- the decisions
  have hb0 : StrictAsc (insertNat xs.length [0]) := (insertNat_asc xs.length [0] trivial).1
  obtain ⟨a1, a2, a3⟩ := sectionBoundaries_patches dL (insertNat xs.length [0]) 0 h0 hb0
  obtain ⟨b1, b2, b3⟩ := sectionBoundaries_patches dR _ 0 h1 a1
  obtain ⟨w1, w2, w3, _, w5⟩ := walkE_spec (boundsOf xs.length dL dR) dL dR 0 b1 h0 h1 (fun e he => b2 _ (a3 e he)) b3 hdis
  generalize hWE : walkE (boundsOf xs.length dL dR) dL dR = WE at w1 w2 w3 w5
  have hW : walk [PKey.s k] (boundsOf xs.length dL dR) dL dR = WE.map (fun p => mkItem [PKey.s k] p.1 p.2) := by
    rw [walk_eq, hWE]
  rw [hW]
  -- every visited entry with its edit
  have visit : ∀ p ∈ WE, ∃ j dd v pv, p.2 = .patchI j dd ∧ xs[j]? = some v ∧ v.canonical = true ∧ patch v dd = .ok pv ∧
      ((p.1 = .loc ∧ ∃ e ∈ EL, e.j = j ∧ e.pv = pv) ∨ (p.1 = .rem ∧ ∃ e ∈ ER, e.j = j ∧ e.pv = pv)) := by
    intro p hp
    rcases w1 p hp with ⟨hs, hm⟩ | ⟨hs, hm⟩
    · rw [dLeq] at hm
      obtain ⟨e, he, hpe⟩ := List.mem_map.mp hm
      obtain ⟨f1, f2⟩ := fL e he
      exact ⟨e.j, e.dd, e.v, e.pv, hpe.symm, f1, cxs _ (List.mem_of_getElem? f1), f2, Or.inl ⟨hs, e, he, rfl, rfl⟩⟩
    · rw [dReq] at hm
      obtain ⟨e, he, hpe⟩ := List.mem_map.mp hm
      obtain ⟨f1, f2⟩ := fR' e he
      exact ⟨e.j, e.dd, e.v, e.pv, hpe.symm, f1, cxs _ (List.mem_of_getElem? f1), f2, Or.inr ⟨hs, e, he, rfl, rfl⟩⟩
  -- the sorted decisions as items
  generalize hWd : WE.map (fun p => mkItem [PKey.s k] p.1 p.2) = W
  have hperm := sortDesc_perm W
  have hmemW : ∀ d ∈ sortDesc W, ∃ p ∈ WE, d = mkItem [PKey.s k] p.1 p.2 := by
    intro d hd
    have := hperm.subset hd
    rw [← hWd] at this
    obtain ⟨p, hp, rfl⟩ := List.mem_map.mp this
    exact ⟨p, hp, rfl⟩
  let cells := (sortDesc W).map (itemOfDec xs)
  have hcellFacts : ∀ d ∈ sortDesc W, (itemOfDec xs d).ok xs ∧ liftDec k (itemOfDec xs d).d = d.toDecision ∧
      (itemOfDec xs d).d.keyBased = false ∧ d.conflict = false := by
    intro d hd
    obtain ⟨p, hp, rfl⟩ := hmemW d hd
    obtain ⟨j, dd, v, pv, hpe, f1, f2, f3, _⟩ := visit p hp
    rw [hpe]
    obtain ⟨i1, _, _, i4, i5, i6⟩ := item_of_visit k xs p.1 j dd v pv f1 f2 f3
    exact ⟨i1, i4, i5, i6⟩
  have hdec : (sortDesc W).map MD.toDecision = cells.map (fun it => liftDec k it.d) := by
    simp only [cells, List.map_map]
    apply List.map_congr_left
    intro d hd
    exact ((hcellFacts d hd).2.1).symm
  -- indices of the items
  have hjs : cells.map (·.j) = (sortDesc W).map (fun d => (itemOfDec xs d).j) := by simp [cells, List.map_map]
  have hjW : ∀ p ∈ WE, (itemOfDec xs (mkItem [PKey.s k] p.1 p.2)).j = p.2.idx := by
    intro p hp
    obtain ⟨j, dd, v, pv, hpe, f1, f2, f3, _⟩ := visit p hp
    rw [hpe]
    exact (item_of_visit k xs p.1 j dd v pv f1 f2 f3).2.1
  have hndC : (cells.map (·.j)).Nodup := by
    rw [hjs]
    have : ((sortDesc W).map (fun d => (itemOfDec xs d).j)).Perm (W.map (fun d => (itemOfDec xs d).j)) := hperm.map _
    rw [this.nodup_iff, ← hWd, List.map_map]
    have : WE.map ((fun d => (itemOfDec xs d).j) ∘ fun p => mkItem [PKey.s k] p.1 p.2) = WE.map (fun p => p.2.idx) :=
      List.map_congr_left (fun p hp => hjW p hp)
    rw [this]; exact w5
  have hneC : cells ≠ [] := by
    intro hnil
    have : (sortDesc W).length = 0 := by simpa [cells] using congrArg List.length hnil
    have hWl : W.length = 0 := by rw [← hperm.length_eq]; exact this
    cases dL with
    | nil => exact hne rfl
    | cons e rest =>
      have := w2 e List.mem_cons_self
      rw [← hWd] at hWl
      simp at hWl
      rw [hWl] at this; cases this
  have hconfW : ∀ d ∈ W, d.conflict = false ∧ headIs k d = true := by
    intro d hd
    refine ⟨(hcellFacts d (hperm.symm.subset hd)).2.2.2, ?_⟩
    rw [← hWd] at hd
    obtain ⟨p, hp, rfl⟩ := List.mem_map.mp hd
    obtain ⟨j, dd, v, pv, hpe, _⟩ := visit p hp
    rw [hpe]
    obtain ⟨q', x, hmk, _⟩ := mkItem_patch [PKey.s k] p.1 j dd
    rw [hmk]
    cases p.1 <;> simp [headIs, sideMD]
  refine ⟨cells, hdec, fun it hit => by
      obtain ⟨d, hd, rfl⟩ := List.mem_map.mp hit
      exact (hcellFacts d hd).1, hndC, hneC, fun it hit => by
      obtain ⟨d, hd, rfl⟩ := List.mem_map.mp hit
      exact (hcellFacts d hd).2.2.1, hconfW, ?_⟩
  intro R hR
  symm
  apply List.ext_getElem?
  intro i
  rw [hR i, gR i, gL i]
  -- which side, if any, edits item i
  cases hx : xs[i]? with
  | none => simp
  | some x =>
    simp only [Option.map_some]
    congr 1
    -- an item for every edit
    have itemFor : ∀ (s : Side) (e : CellEdit), (s, Op.patchI e.j e.dd) ∈ WE →
        (∃ e' ∈ (if s = .loc then EL else ER), e'.j = e.j ∧ e'.pv = e.pv ∧ e'.dd = e.dd) → True := fun _ _ _ _ => trivial
    by_cases hiL : ∃ e ∈ EL, e.j = i
    · obtain ⟨e, he, rfl⟩ := hiL
      have hwe : (Side.loc, Op.patchI e.j e.dd) ∈ WE := w2 _ (by rw [dLeq]; exact List.mem_map_of_mem (f := fun e => Op.patchI e.j e.dd) he)
      obtain ⟨f1, f2⟩ := fL e he
      obtain ⟨i1, i2, i3, _⟩ := item_of_visit k xs .loc e.j e.dd e.v e.pv f1 (cxs _ (List.mem_of_getElem? f1)) f2
      have hmemC : itemOfDec xs (mkItem [PKey.s k] .loc (.patchI e.j e.dd)) ∈ cells := by
        simp only [cells]
        apply List.mem_map_of_mem
        apply hperm.symm.subset
        rw [← hWd]
        exact List.mem_map.mpr ⟨(Side.loc, Op.patchI e.j e.dd), hwe, rfl⟩
      have hfind := find_of_nodup cells hndC _ hmemC
      rw [i2] at hfind
      rw [hfind, lookupEdit_mem aL e he, lookupEdit_none ER e.j (fun eR hR' => (hdisE e he eR hR').symm)]
      simp [i3]
    · have hLn : lookupEdit EL i = none := lookupEdit_none EL i (fun e he hei => hiL ⟨e, he, hei⟩)
      by_cases hiR : ∃ e ∈ ER, e.j = i
      · obtain ⟨e, he, rfl⟩ := hiR
        have hwe : (Side.rem, Op.patchI e.j e.dd) ∈ WE := w3 _ (by rw [dReq]; exact List.mem_map_of_mem (f := fun e => Op.patchI e.j e.dd) he)
        obtain ⟨f1, f2⟩ := fR' e he
        obtain ⟨i1, i2, i3, _⟩ := item_of_visit k xs .rem e.j e.dd e.v e.pv f1 (cxs _ (List.mem_of_getElem? f1)) f2
        have hmemC : itemOfDec xs (mkItem [PKey.s k] .rem (.patchI e.j e.dd)) ∈ cells := by
          simp only [cells]
          apply List.mem_map_of_mem
          apply hperm.symm.subset
          rw [← hWd]
          exact List.mem_map.mpr ⟨(Side.rem, Op.patchI e.j e.dd), hwe, rfl⟩
        have hfind := find_of_nodup cells hndC _ hmemC
        rw [i2] at hfind
        rw [hfind, hLn, lookupEdit_mem aR e he]
        simp [i3]
      · have hRn : lookupEdit ER i = none := lookupEdit_none ER i (fun e he hei => hiR ⟨e, he, hei⟩)
        have hnoC : cells.find? (fun it => it.j == i) = none := by
          rw [List.find?_eq_none]
          intro it hit hji
          obtain ⟨d, hd, rfl⟩ := List.mem_map.mp hit
          obtain ⟨p, hp, rfl⟩ := hmemW d hd
          obtain ⟨j, dd, v, pv, hpe, f1, f2, f3, hside⟩ := visit p hp
          have hj : (itemOfDec xs (mkItem [PKey.s k] p.1 p.2)).j = j := by
            rw [hpe]; exact (item_of_visit k xs p.1 j dd v pv f1 f2 f3).2.1
          rw [hj] at hji
          have hji' : j = i := by simpa using hji
          rcases hside with ⟨_, e, he, hej, _⟩ | ⟨_, e, he, hej, _⟩
          · exact hiL ⟨e, he, by rw [hej, hji']⟩
          · exact hiR ⟨e, he, by rw [hej, hji']⟩
        rw [hnoC, hLn, hRn]
        simp


/-! ### the document-level theorem on the mixed domain -/

theorem hiOf_not_eqOf (c : SortComp) (d : MD) (h : hiOf c d = true) : eqOf c d = false := by
  unfold hiOf at h; unfold eqOf
  cases hp : d.path with
  | nil => rfl
  | cons hh q => simp only [hp] at h; simp [h]

theorem filterMap_filter_none {α} (p : MD → Bool) (g : α → Option MD) : ∀ (keys : List α),
    (∀ k' ∈ keys, ∀ d, g k' = some d → p d = false) → (keys.filterMap g).filter p = []
  | [], _ => rfl
  | a :: rest, h => by
      have ih := filterMap_filter_none p g rest (fun k' hk' => h k' (List.mem_cons_of_mem _ hk'))
      simp only [List.filterMap_cons]
      cases hg : g a with
      | none => simpa using ih
      | some d => simp [List.filter_cons, h a List.mem_cons_self d hg, ih]

theorem filterMap_filter_all {α} (p : MD → Bool) (g : α → Option MD) : ∀ (keys : List α),
    (∀ k' ∈ keys, ∀ d, g k' = some d → p d = true) → (keys.filterMap g).filter p = keys.filterMap g
  | [], _ => rfl
  | a :: rest, h => by
      have ih := filterMap_filter_all p g rest (fun k' hk' => h k' (List.mem_cons_of_mem _ hk'))
      simp only [List.filterMap_cons]
      cases hg : g a with
      | none => simpa using ih
      | some d => simp [List.filter_cons, h a List.mem_cons_self d hg, ih]

/-- the entries the key decisions stand for, as a permutation of a diff `V` with pairwise different keys -/
theorem keyDec_entries_perm (l r : List (String × Op)) (keys : List String) (hnd : keys.Nodup) (V : List Op)
    (hV : (V.map Op.skey).Nodup)
    (hkey : ∀ k' d, keyDec l r k' = some d → (entryOf d).skey = k')
    (hin : ∀ k' ∈ keys, ∀ d, keyDec l r k' = some d → entryOf d ∈ V)
    (hcomplete : ∀ a ∈ V, a.skey ∈ keys ∧ ∃ d, keyDec l r a.skey = some d ∧ entryOf d = a) :
    ((keys.filterMap (keyDec l r)).map entryOf).Perm V := by
  rw [List.map_filterMap]
  apply (List.perm_ext_iff_of_nodup (filterMap_nodup _ Op.skey (fun k' a hka => by
      obtain ⟨d, hd, rfl⟩ := Option.map_eq_some_iff.mp hka
      exact hkey k' d hd) _ hnd) (nodup_of_map_nodup Op.skey V hV)).mpr
  intro a
  constructor
  · intro ha
    obtain ⟨k', hk', hka⟩ := List.mem_filterMap.mp ha
    obtain ⟨d, hd, rfl⟩ := Option.map_eq_some_iff.mp hka
    exact hin k' hk' d hd
  · intro ha
    obtain ⟨h1, d, h2, h3⟩ := hcomplete a ha
    exact List.mem_filterMap.mpr ⟨a.skey, h1, by rw [h2]; simp [h3]⟩


/-- **C06, mixed domain, document level**: the two sides patch different items of the list under root key `k` (not
    integer-like), and on every other root key they touch it on one side only or say the same. Then the merge reports no
    conflict and `apply_decisions` gives base patched with every entry of either side under the other keys and, under
    `k`, the list with the local patches followed by the remote patches — every strategy table, every oracle. -/
theorem apply_mixed_obj (E : Env) (base : List (String × J)) (ld rd : List Op) (ds : List MD) (X : J)
    (k : String) (xs : List J) (dL dR : List Op) (RL RX : List J)
    (hc : (J.obj base).canonical = true) (hkint : isIntLike k = false)
    (hmapL : ∀ e ∈ ld, e.isMapOp = true) (hndL : (ld.map Op.skey).Nodup)
    (hmapR : ∀ e ∈ rd, e.isMapOp = true) (hndR : (rd.map Op.skey).Nodup)
    (hkL : Op.patchK k dL ∈ ld) (hkR : Op.patchK k dR ∈ rd)
    (hagree : ∀ el ∈ ld, ∀ er ∈ rd, el.skey = er.skey → el.skey ≠ k → el = er)
    (hk : lookupKV k base = some (.arr xs)) (h0 : AscPatch 0 dL) (h1 : AscPatch 0 dR)
    (hdis : ∀ e0 ∈ dL, ∀ e1 ∈ dR, e0.idx ≠ e1.idx) (hne : dL ≠ [])
    (hneq : Op.pyEq (.patchK k dL) (.patchK k dR) = false)
    (hRL : patchList xs dL 0 = .ok RL) (hRX : patchList RL dR 0 = .ok RX)
    (hX : patch (.obj base) ((unionDiff ld rd).filter (fun e => e.skey != k) ++ [.replace k (.arr RX)]) = .ok X)
    (h : decideMerge E (.obj base) ld rd = .ok ds) :
    applyDecisions (.obj base) (ds.map MD.toDecision) = .ok X ∧ ∀ d ∈ ds, d.conflict = false := by
  have hcc := hc
  simp only [J.canonical, Bool.and_eq_true] at hcc
  have hb : SK base := keysSorted_sk base hcc.1
  have cxs : ∀ v ∈ xs, v.canonical = true := by
    have := canonicalKvs_mem base hcc.2 _ (lookupKV_mem k _ base hk)
    simp only [J.canonical] at this
    exact canonicalList_mem xs this
  obtain ⟨l, hl, hskL, hpermL, hkeyL⟩ := dictBased_nodup ld hmapL hndL
  obtain ⟨r, hr, hskR, hpermR, hkeyR⟩ := dictBased_nodup rd hmapR hndR
  obtain ⟨tl1, tl2, tl3⟩ := table_lookup hskL hpermL hkeyL
  obtain ⟨tr1, tr2, tr3⟩ := table_lookup hskR hpermR hkeyR
  have hlk : lookupKV k l = some (.patchK k dL) := tl2 _ hkL
  have hrk : lookupKV k r = some (.patchK k dR) := tr2 _ hkR
  have hkl : (l.map (·.1)).Nodup := sk_keys_nodup l hskL
  have hkr : (r.map (·.1)).Nodup := sk_keys_nodup r hskR
  have hboth : (bothKeys l r).Nodup := by
    unfold bothKeys
    have hin : ((l.map (·.1)).filter (fun k => (r.map (·.1)).contains k)).Nodup := List.filter_sublist.nodup hkl
    exact (sortStrs_perm _ hin).nodup_iff.mpr hin
  have hone : (oneKeys l r).Nodup := by
    unfold oneKeys
    have hin : ((l.map (·.1)).filter (fun k => !(r.map (·.1)).contains k) ++
        (r.map (·.1)).filter (fun k => !(l.map (·.1)).contains k)).Nodup := by
      rw [List.nodup_append]
      refine ⟨List.filter_sublist.nodup hkl, List.filter_sublist.nodup hkr, ?_⟩
      intro a ha b' hb' hab
      subst hab
      have h1 := (List.mem_filter.mp ha).1
      have h2 := (List.mem_filter.mp hb').2
      simp only [Bool.not_eq_true', List.contains_eq_mem, decide_eq_false_iff_not] at h2
      exact h2 h1
    exact (sortStrs_perm _ hin).nodup_iff.mpr hin
  have hmemOne : ∀ k', k' ∈ oneKeys l r ↔ ((lookupKV k' l).isSome ≠ (lookupKV k' r).isSome) := by
    intro k'
    unfold oneKeys
    rw [_root_.Nbdime.mem_sortStrs]
    simp only [List.mem_append, List.mem_filter, Bool.not_eq_true', List.contains_eq_mem, decide_eq_false_iff_not,
      mem_keys_iff]
    cases (lookupKV k' l).isSome <;> cases (lookupKV k' r).isSome <;> simp
  have hmemBoth : ∀ k', k' ∈ bothKeys l r ↔ ((lookupKV k' l).isSome = true ∧ (lookupKV k' r).isSome = true) := by
    intro k'
    unfold bothKeys
    rw [_root_.Nbdime.mem_sortStrs]
    simp only [List.mem_filter, List.contains_eq_mem, decide_eq_true_eq, mem_keys_iff]
  have hone_ne : ∀ k' ∈ oneKeys l r, k' ≠ k := by
    intro k' hk' hh
    subst hh
    have := (hmemOne _).mp hk'
    rw [hlk, hrk] at this
    exact this rfl
  have hag' : ∀ k' el er, k' ≠ k → lookupKV k' l = some el → lookupKV k' r = some er → el = er := by
    intro k' el er hne' h1' h2'
    exact hagree el (tl1 k' el h1').1 er (tr1 k' er h2').1 (by rw [(tl1 k' el h1').2, (tr1 k' er h2').2])
      (by rw [(tl1 k' el h1').2]; exact hne')
  unfold decideMerge at h
  obtain ⟨m, hf⟩ : ∃ m, bigFuel = m + 1 + 1 := ⟨99998, rfl⟩
  rw [hf] at h
  have hunf : mergeF E (m + 1 + 1) false (.obj base) (.d ld) (.d rd) [] = mergeDicts E (mergeF E (m + 1)) false base ld rd [] := rfl
  rw [hunf] at h
  simp only [bind, Except.bind] at h
  cases hmd : mergeDicts E (mergeF E (m + 1)) false base ld rd [] with
  | error e => simp [hmd] at h
  | ok R =>
    obtain ⟨pre, post, hsplit, hkpre, hkpost, hR⟩ := mergeDicts_mixed_exact E m base ld rd l r hl hr k xs dL dR hlk hrk hag'
      (fun k' e h1' => hmapL e (tl1 k' e h1').1) hk h0 h1 hdis hneq hboth R hmd
    simp only [hmd] at h
    obtain ⟨cells, hdecC, hokC, hndC, hneC, hkbC, hW2, hRX'⟩ := cells_items k xs cxs dL dR RL RX h0 h1 hdis hne hRL hRX
    have hstripW := walk_strip [PKey.s k] (boundsOf xs.length dL dR) dL dR
    generalize hWdef : walk [PKey.s k] (boundsOf xs.length dL dR) dL dR = W at hR hdecC hW2 hstripW
    -- the key decisions
    have hkdF : ∀ k' d, keyDec l r k' = some d → k' ≠ k →
        ∃ s e, d = mkSide s e ∧ e.isMapOp = true ∧ e.skey = k' ∧ e ∈ unionDiff ld rd ∧ headIs k d = false := by
      intro k' d hd hne'
      obtain ⟨s, e, rfl, hcase⟩ := keyDec_mem hd
      have hfacts : e.isMapOp = true ∧ e.skey = k' ∧ e ∈ unionDiff ld rd := by
        rcases hcase with h1' | ⟨h1', h2'⟩
        · exact ⟨hmapL e (tl1 k' e h1').1, (tl1 k' e h1').2, List.mem_append_left _ (tl1 k' e h1').1⟩
        · refine ⟨hmapR e (tr1 k' e h2').1, (tr1 k' e h2').2, List.mem_append_right _ ?_⟩
          rw [List.mem_filter]
          refine ⟨(tr1 k' e h2').1, ?_⟩
          have := tl3 k' h1'
          rw [(tr1 k' e h2').2]
          simpa using this
      refine ⟨s, e, rfl, hfacts.1, hfacts.2.1, hfacts.2.2, ?_⟩
      rcases mapOp_cases hfacts.1 with hp | ⟨k'', dd, rfl⟩
      · rw [mkSide_plain s hp]; cases s <;> rfl
      · obtain ⟨q', x, hmk, _⟩ := mkSide_patch s k'' dd
        rw [hmk]
        have hkk : k'' = k' := hfacts.2.1
        have hne2 : (k'' == k) = false := by rw [hkk]; simpa using hne'
        cases s <;> simp [headIs, sideMD, hne2]
    generalize hNKdef : oneKeys l r ++ pre ++ post = NKkeys
    have hNKne : ∀ k' ∈ NKkeys, k' ≠ k := by
      intro k' hk'
      rw [← hNKdef] at hk'
      simp only [List.mem_append] at hk'
      rcases hk' with (h1' | h1') | h1'
      · exact hone_ne k' h1'
      · exact fun hh => hkpre (hh ▸ h1')
      · exact fun hh => hkpost (hh ▸ h1')
    have hNKnd : NKkeys.Nodup := by
      rw [← hNKdef]
      have hpp : (pre ++ post).Nodup := by
        have := hboth
        rw [hsplit] at this
        obtain ⟨n1, n2, n3⟩ := List.nodup_append.mp this
        exact List.nodup_append.mpr ⟨n1, (List.nodup_cons.mp n2).2, fun a ha b' hb' => n3 a ha b' (List.mem_cons_of_mem _ hb')⟩
      rw [List.append_assoc, List.nodup_append]
      refine ⟨hone, hpp, ?_⟩
      intro a ha b' hb' hab
      subst hab
      have h1' := (hmemOne a).mp ha
      have hbk : a ∈ bothKeys l r := by
        rw [hsplit]
        rcases List.mem_append.mp hb' with h2' | h2'
        · exact List.mem_append_left _ h2'
        · exact List.mem_append_right _ (List.mem_cons_of_mem _ h2')
      have h2' := (hmemBoth a).mp hbk
      rw [h2'.1, h2'.2] at h1'
      exact h1' rfl
    -- what the merge recorded: key decisions and the block of cell decisions
    have hRfW : R.filter (headIs k) = W := by
      rw [hR]
      simp only [List.filter_append]
      rw [filterMap_filter_none (headIs k) (keyDec l r) (oneKeys l r) (fun k' hk' d hd => by
          obtain ⟨_, _, _, _, _, _, hh⟩ := hkdF k' d hd (hone_ne k' hk'); exact hh),
        filterMap_filter_none (headIs k) (keyDec l r) pre (fun k' hk' d hd => by
          obtain ⟨_, _, _, _, _, _, hh⟩ := hkdF k' d hd (fun hh => hkpre (hh ▸ hk')); exact hh),
        filterMap_filter_none (headIs k) (keyDec l r) post (fun k' hk' d hd => by
          obtain ⟨_, _, _, _, _, _, hh⟩ := hkdF k' d hd (fun hh => hkpost (hh ▸ hk')); exact hh),
        List.filter_eq_self.mpr (fun d hd => (hW2 d hd).2)]
      simp
    have hRfN : R.filter (fun d => !headIs k d) = NKkeys.filterMap (keyDec l r) := by
      rw [hR, ← hNKdef]
      simp only [List.filter_append, List.filterMap_append]
      rw [filterMap_filter_all (fun d => !headIs k d) (keyDec l r) (oneKeys l r) (fun k' hk' d hd => by
          obtain ⟨_, _, _, _, _, _, hh⟩ := hkdF k' d hd (hone_ne k' hk'); simp [hh]),
        filterMap_filter_all (fun d => !headIs k d) (keyDec l r) pre (fun k' hk' d hd => by
          obtain ⟨_, _, _, _, _, _, hh⟩ := hkdF k' d hd (fun hh => hkpre (hh ▸ hk')); simp [hh]),
        filterMap_filter_all (fun d => !headIs k d) (keyDec l r) post (fun k' hk' d hd => by
          obtain ⟨_, _, _, _, _, _, hh⟩ := hkdF k' d hd (fun hh => hkpost (hh ▸ hk')); simp [hh]),
        List.filter_eq_nil_iff.mpr (fun d hd => by simp [(hW2 d hd).2])]
      simp
    have hRmem : ∀ d ∈ R, (headIs k d = true ∧ d ∈ W) ∨
        (headIs k d = false ∧ ∃ k' ∈ NKkeys, keyDec l r k' = some d) := by
      intro d hd
      cases hh : headIs k d with
      | true =>
        left
        refine ⟨rfl, ?_⟩
        rw [← hRfW]
        exact List.mem_filter.mpr ⟨hd, hh⟩
      | false =>
        right
        refine ⟨rfl, ?_⟩
        have : d ∈ R.filter (fun d => !headIs k d) := List.mem_filter.mpr ⟨hd, by simp [hh]⟩
        rw [hRfN] at this
        obtain ⟨k', hk', hkd⟩ := List.mem_filterMap.mp this
        exact ⟨k', hk', hkd⟩
    -- no conflict, no strategy
    have hnc : hasConflicted R = false := by
      unfold hasConflicted
      rw [List.any_eq_false]
      intro d hd
      rcases hRmem d hd with ⟨_, hw⟩ | ⟨_, k', hk', hkd⟩
      · simp [(hW2 d hw).1]
      · obtain ⟨s, e, rfl, _⟩ := hkdF k' d hkd (hNKne k' hk')
        simp [mkSide_noconf]
    rw [resolveGeneric_noconf hnc] at h
    simp only [pure, Except.pure, Except.ok.injEq] at h
    have hstrip : R.map (fun d => ({ d with strategy := none } : MD)) = R := by
      have hNK : ∀ (keys : List String), (∀ k' ∈ keys, k' ≠ k) →
          (keys.filterMap (keyDec l r)).map (fun d => ({ d with strategy := none } : MD)) = keys.filterMap (keyDec l r) := by
        intro keys hkeys
        have : ∀ d ∈ keys.filterMap (keyDec l r), ({ d with strategy := none } : MD) = d := by
          intro d hd
          obtain ⟨k', hk', hkd⟩ := List.mem_filterMap.mp hd
          obtain ⟨s, e, rfl, _⟩ := hkdF k' d hkd (hkeys k' hk')
          simp [mkSide]
        rw [List.map_congr_left this]; simp
      rw [hR]
      simp only [List.map_append]
      rw [hNK _ hone_ne, hNK pre (fun k' hk' hh => hkpre (hh ▸ hk')), hNK post (fun k' hk' hh => hkpost (hh ▸ hk')), hstripW]
    unfold validated at h
    rw [hstrip] at h
    subst h
    -- conflicts
    refine ⟨?_, fun d hd => by
      rcases hRmem d (mem_sortDesc R d hd) with ⟨_, hw⟩ | ⟨_, k', hk', hkd⟩
      · exact (hW2 d hw).1
      · obtain ⟨s, e, rfl, _⟩ := hkdF k' d hkd (hNKne k' hk')
        exact mkSide_noconf s e⟩
    -- the sorted list: higher keys, the block of `k`, lower keys and the root
    have hkc : sortComp (.s k) = .str k := by simp [sortComp, hkint]
    have hS3 := desc_three (.str k) (sortDesc R) (sortDesc_desc R)
    have heqf : eqOf (.str k) = headIs k := funext (eqOf_str k hkint)
    have hSC : (sortDesc R).filter (eqOf (.str k)) = sortDesc W := by
      rw [heqf, filter_sortDesc, hRfW]
    rw [hSC] at hS3
    generalize hSA : (sortDesc R).filter (hiOf (.str k)) = SA at hS3
    generalize hSB : (sortDesc R).filter (loOf (.str k)) = SB at hS3
    have hSAm : ∀ d ∈ SA, d.path.isEmpty = false ∧ ∃ k' ∈ NKkeys, keyDec l r k' = some d := by
      intro d hd
      rw [← hSA, List.mem_filter] at hd
      have hdR := mem_sortDesc R d hd.1
      have hne1 : eqOf (.str k) d = false := hiOf_not_eqOf _ d hd.2
      rw [heqf] at hne1
      refine ⟨?_, ?_⟩
      · have := hd.2
        unfold hiOf at this
        cases hp : d.path with
        | nil => simp [hp] at this
        | cons a q => rfl
      · rcases hRmem d hdR with ⟨hh, _⟩ | ⟨_, hh⟩
        · rw [hh] at hne1; cases hne1
        · exact hh
    have hSBm : ∀ d ∈ SB, ∃ k' ∈ NKkeys, keyDec l r k' = some d := by
      intro d hd
      rw [← hSB, List.mem_filter] at hd
      have hdR := mem_sortDesc R d hd.1
      have hne1 : eqOf (.str k) d = false := by
        have := hd.2
        simp only [loOf, Bool.and_eq_true, Bool.not_eq_true'] at this
        exact this.2
      rw [heqf] at hne1
      rcases hRmem d hdR with ⟨hh, _⟩ | ⟨_, hh⟩
      · rw [hh] at hne1; cases hne1
      · exact hh
    have hSBdesc : Desc SB := by
      rw [← hSB]
      exact List.Pairwise.filter _ (sortDesc_desc R)
    have hpartB := desc_partition SB hSBdesc
    generalize hdeepB : SB.filter (fun d => !d.path.isEmpty) = deepB at hpartB
    generalize hrootB : SB.filter (fun d => d.path.isEmpty) = rootB at hpartB
    -- the merged diff outside `k`
    generalize hUdef : (unionDiff ld rd).filter (fun e => e.skey != k) = U' at hX
    have hUmem : ∀ a, a ∈ U' ↔ (a ∈ unionDiff ld rd ∧ a.skey ≠ k) := by
      intro a; rw [← hUdef, List.mem_filter]; simp
    have hndUfull : ((unionDiff ld rd).map Op.skey).Nodup := by
      unfold unionDiff
      rw [List.map_append, List.nodup_append]
      refine ⟨hndL, (List.filter_sublist.map Op.skey).nodup hndR, ?_⟩
      intro a ha b' hb' hab
      obtain ⟨e, he, rfl⟩ := List.mem_map.mp hb'
      have := (List.mem_filter.mp he).2
      simp only [Bool.not_eq_true', List.contains_eq_mem, decide_eq_false_iff_not] at this
      exact this (hab ▸ ha)
    have hndU : (U'.map Op.skey).Nodup := by
      rw [← hUdef]
      exact (List.filter_sublist.map Op.skey).nodup hndUfull
    have heffAll : ∀ e ∈ U', (mapEff base e).isSome = true := by
      rw [patch] at hX
      simp only [bind, Except.bind] at hX
      cases hpd : patchDict base (U' ++ [.replace k (.arr RX)]) [] [] with
      | error er => simp [hpd] at hX
      | ok R' => exact fun e he => (patchDict_ok_eff base _ [] [] R' hpd e (List.mem_append_left _ he)).2
    -- every key decision stands for its entry
    have hentry : ∀ k' ∈ NKkeys, ∀ d, keyDec l r k' = some d →
        EntL d [entryOf d] ∧ entryOf d ∈ U' ∧ (mapEff base (entryOf d)).isSome = true := by
      intro k' hk' d hkd
      obtain ⟨s, e, rfl, hm, hsk, hu, _⟩ := hkdF k' d hkd (hNKne k' hk')
      rw [entryOf_mkSide s hm]
      have heU : e ∈ U' := (hUmem e).mpr ⟨hu, by rw [hsk]; exact hNKne k' hk'⟩
      exact ⟨(mkSide_ent s hm).toL, heU, heffAll e heU⟩
    obtain ⟨itemsA, a1, a2, a3⟩ := items_exist base hcc.2 (fun d => [entryOf d]) SA (fun d hd => by
      obtain ⟨hp, k', hk', hkd⟩ := hSAm d hd
      obtain ⟨e1, _, e3⟩ := hentry k' hk' d hkd
      exact ⟨e1, hp, fun o ho => by simp at ho; subst ho; exact e3⟩)
    obtain ⟨itemsB, b1, b2, b3⟩ := items_exist base hcc.2 (fun d => [entryOf d]) deepB (fun d hd => by
      rw [← hdeepB, List.mem_filter] at hd
      obtain ⟨k', hk', hkd⟩ := hSBm d hd.1
      obtain ⟨e1, _, e3⟩ := hentry k' hk' d hkd
      exact ⟨e1, by simpa using hd.2, fun o ho => by simp at ho; subst ho; exact e3⟩)
    have hrootm : ∀ d ∈ rootB, (∀ o ∈ [entryOf d], isPlainMap o = true) ∧ Res d.toDecision [] [entryOf d] ∧
        ∀ o ∈ [entryOf d], (mapEff base o).isSome = true := by
      intro d hd
      rw [← hrootB, List.mem_filter] at hd
      obtain ⟨k', hk', hkd⟩ := hSBm d hd.1
      obtain ⟨e1, _, e3⟩ := hentry k' hk' d hkd
      obtain ⟨r1, r2⟩ := entL_root e1 hd.2
      exact ⟨r1, r2, fun o ho => by simp at ho; subst ho; exact e3⟩
    -- the decision list, in blocks
    have hdec : (sortDesc R).map MD.toDecision =
        itemsA.map DeepItem.dec ++ cells.map (fun it => liftDec k it.d) ++ itemsB.map DeepItem.dec ++
          (rootB.map (fun d => (d.toDecision, [entryOf d]))).map (·.1) := by
      rw [hS3, hpartB]
      simp only [List.map_append, a2, b2, hdecC, List.map_map, Function.comp, List.append_assoc]
      rfl
    rw [hdec]
    have core := apply_block_core base hb itemsA itemsB k xs cells (.replace k (.arr RX))
      (rootB.map (fun d => (d.toDecision, [entryOf d]))) (U' ++ [.replace k (.arr RX)]) a1 b1 hk hokC hndC hneC hkbC
      (fun R' hR' => by
        have := hRX' R' hR'
        subst this
        exact ⟨rfl, rfl, rfl⟩)
      (fun p hp' => by
        obtain ⟨d, hd, rfl⟩ := List.mem_map.mp hp'
        exact (hrootm d hd).1)
      (fun p hp' => by
        obtain ⟨d, hd, rfl⟩ := List.mem_map.mp hp'
        exact (hrootm d hd).2.1)
      (fun p hp' => by
        obtain ⟨d, hd, rfl⟩ := List.mem_map.mp hp'
        exact (hrootm d hd).2.2)
      ?_ ?_
    · rw [core, hX]
    · -- the entries
      rw [a3, b3, flatMap_pair_snd, flatMap_singleton', flatMap_singleton', flatMap_singleton']
      -- U' is a permutation of the entries of the key decisions
      have hp1 : ((NKkeys.filterMap (keyDec l r)).map entryOf).Perm U' := by
        apply keyDec_entries_perm l r NKkeys hNKnd U' hndU
        · intro k' d hkd
          obtain ⟨s, e, rfl, hcase⟩ := keyDec_mem hkd
          have hfacts : e.isMapOp = true ∧ e.skey = k' := by
            rcases hcase with h1' | ⟨h1', h2'⟩
            · exact ⟨hmapL e (tl1 k' e h1').1, (tl1 k' e h1').2⟩
            · exact ⟨hmapR e (tr1 k' e h2').1, (tr1 k' e h2').2⟩
          rw [entryOf_mkSide s hfacts.1]; exact hfacts.2
        · intro k' hk' d hkd
          exact (hentry k' hk' d hkd).2.1
        · intro a ha
          obtain ⟨hau, hak⟩ := (hUmem a).mp ha
          unfold unionDiff at hau
          have hkeyin : a.skey ∈ NKkeys ∧ ∃ d, keyDec l r a.skey = some d ∧ entryOf d = a := by
            rcases List.mem_append.mp hau with h1' | h1'
            · have hla := tl2 a h1'
              cases hra : lookupKV a.skey r with
              | none =>
                refine ⟨?_, mkSide .loc a, by simp [keyDec, hla, hra], entryOf_mkSide _ (hmapL a h1')⟩
                rw [← hNKdef]
                exact List.mem_append_left _ (List.mem_append_left _ ((hmemOne _).mpr (by simp [hla, hra])))
              | some e' =>
                refine ⟨?_, mkSide .both a, by simp [keyDec, hla, hra], entryOf_mkSide _ (hmapL a h1')⟩
                have hbk : a.skey ∈ bothKeys l r := (hmemBoth _).mpr ⟨by simp [hla], by simp [hra]⟩
                rw [hsplit] at hbk
                rw [← hNKdef]
                rcases List.mem_append.mp hbk with h2' | h2'
                · exact List.mem_append_left _ (List.mem_append_right _ h2')
                · rcases List.mem_cons.mp h2' with h3' | h3'
                  · exact absurd h3' hak
                  · exact List.mem_append_right _ h3'
            · obtain ⟨h1a, h1b⟩ := List.mem_filter.mp h1'
              simp only [Bool.not_eq_true', List.contains_eq_mem, decide_eq_false_iff_not] at h1b
              have hra := tr2 a h1a
              have hla : lookupKV a.skey l = none := by
                cases hh : lookupKV a.skey l with
                | none => rfl
                | some e' => exact absurd (List.mem_map.mpr ⟨e', (tl1 _ e' hh).1, (tl1 _ e' hh).2⟩) h1b
              refine ⟨?_, mkSide .rem a, by simp [keyDec, hla, hra], entryOf_mkSide _ (hmapR a h1a)⟩
              rw [← hNKdef]
              exact List.mem_append_left _ (List.mem_append_left _ ((hmemOne _).mpr (by simp [hla, hra])))
          exact hkeyin
      -- the sorted key decisions
      have hp2 : (SA ++ SB).Perm (NKkeys.filterMap (keyDec l r)) := by
        have e1 : (sortDesc R).filter (fun d => !headIs k d) = SA ++ SB := by
          conv => lhs; rw [hS3]
          simp only [List.filter_append]
          have f1 : SA.filter (fun d => !headIs k d) = SA := by
            rw [List.filter_eq_self]
            intro d hd
            rw [← hSA, List.mem_filter] at hd
            have := hiOf_not_eqOf _ d hd.2
            rw [heqf] at this
            simp [this]
          have f2 : (sortDesc W).filter (fun d => !headIs k d) = [] := by
            rw [List.filter_eq_nil_iff]
            intro d hd
            simp [(hW2 d (mem_sortDesc W d hd)).2]
          have f3 : SB.filter (fun d => !headIs k d) = SB := by
            rw [List.filter_eq_self]
            intro d hd
            rw [← hSB, List.mem_filter] at hd
            have := hd.2
            simp only [loOf, Bool.and_eq_true, Bool.not_eq_true'] at this
            have h2 := this.2
            rw [heqf] at h2
            simp [h2]
          rw [f1, f2, f3]; simp
        rw [← e1, ← hRfN]
        exact (sortDesc_perm R).filter _
      have hp3 : ((SA ++ SB).map entryOf).Perm U' := (hp2.map entryOf).trans hp1
      rw [hpartB] at hp3
      simp only [List.map_append] at hp3
      -- insert the entry of `k`
      have hp4 : (U' ++ [Op.replace k (.arr RX)]).Perm (Op.replace k (.arr RX) :: U') := List.perm_append_singleton _ _
      refine hp4.trans ?_
      have hp5 : (SA.map entryOf ++ [Op.replace k (.arr RX)] ++ deepB.map entryOf ++ rootB.map entryOf).Perm
          (Op.replace k (.arr RX) :: (SA.map entryOf ++ (deepB.map entryOf ++ rootB.map entryOf))) := by
        simp only [List.append_assoc, List.singleton_append]
        exact List.perm_middle
      exact (List.Perm.cons _ hp3.symm).trans hp5.symm
    · -- keys
      rw [List.map_append, List.nodup_append]
      refine ⟨hndU, by simp, ?_⟩
      intro a ha b' hb' hab
      simp only [List.map_cons, List.map_nil, List.mem_singleton] at hb'
      obtain ⟨e, he, rfl⟩ := List.mem_map.mp ha
      have := ((hUmem e).mp he).2
      rw [hab, hb'] at this
      exact this rfl

/-- **what a merge in the mixed domain decides**: the sorted list of the key decisions (one per entry of either side under
    a key other than `k`) and of the cell decisions of the walk -/
theorem mixed_decisions (E : Env) (base : List (String × J)) (ld rd : List Op) (ds : List MD)
    (k : String) (xs : List J) (dL dR : List Op)
    (hmapL : ∀ e ∈ ld, e.isMapOp = true) (hndL : (ld.map Op.skey).Nodup)
    (hmapR : ∀ e ∈ rd, e.isMapOp = true) (hndR : (rd.map Op.skey).Nodup)
    (hkL : Op.patchK k dL ∈ ld) (hkR : Op.patchK k dR ∈ rd)
    (hagree : ∀ el ∈ ld, ∀ er ∈ rd, el.skey = er.skey → el.skey ≠ k → el = er)
    (hk : lookupKV k base = some (.arr xs)) (h0 : AscPatch 0 dL) (h1 : AscPatch 0 dR)
    (hdis : ∀ e0 ∈ dL, ∀ e1 ∈ dR, e0.idx ≠ e1.idx)
    (hneq : Op.pyEq (.patchK k dL) (.patchK k dR) = false)
    (h : decideMerge E (.obj base) ld rd = .ok ds) :
    ∃ R, ds = sortDesc R ∧ ∀ d ∈ R, d ∈ walk [PKey.s k] (boundsOf xs.length dL dR) dL dR ∨
      ∃ s e, d = mkSide s e ∧ e.isMapOp = true ∧ e.skey ≠ k ∧ (e ∈ ld ∨ e ∈ rd) := by
  obtain ⟨l, hl, hskL, hpermL, hkeyL⟩ := dictBased_nodup ld hmapL hndL
  obtain ⟨r, hr, hskR, hpermR, hkeyR⟩ := dictBased_nodup rd hmapR hndR
  obtain ⟨tl1, tl2, tl3⟩ := table_lookup hskL hpermL hkeyL
  obtain ⟨tr1, tr2, tr3⟩ := table_lookup hskR hpermR hkeyR
  have hlk : lookupKV k l = some (.patchK k dL) := tl2 _ hkL
  have hrk : lookupKV k r = some (.patchK k dR) := tr2 _ hkR
  have hkl : (l.map (·.1)).Nodup := sk_keys_nodup l hskL
  have hkr : (r.map (·.1)).Nodup := sk_keys_nodup r hskR
  have hboth : (bothKeys l r).Nodup := by
    unfold bothKeys
    have hin : ((l.map (·.1)).filter (fun k => (r.map (·.1)).contains k)).Nodup := List.filter_sublist.nodup hkl
    exact (sortStrs_perm _ hin).nodup_iff.mpr hin
  have hone : (oneKeys l r).Nodup := by
    unfold oneKeys
    have hin : ((l.map (·.1)).filter (fun k => !(r.map (·.1)).contains k) ++
        (r.map (·.1)).filter (fun k => !(l.map (·.1)).contains k)).Nodup := by
      rw [List.nodup_append]
      refine ⟨List.filter_sublist.nodup hkl, List.filter_sublist.nodup hkr, ?_⟩
      intro a ha b' hb' hab
      subst hab
      have h1 := (List.mem_filter.mp ha).1
      have h2 := (List.mem_filter.mp hb').2
      simp only [Bool.not_eq_true', List.contains_eq_mem, decide_eq_false_iff_not] at h2
      exact h2 h1
    exact (sortStrs_perm _ hin).nodup_iff.mpr hin
  have hmemOne : ∀ k', k' ∈ oneKeys l r ↔ ((lookupKV k' l).isSome ≠ (lookupKV k' r).isSome) := by
    intro k'
    unfold oneKeys
    rw [_root_.Nbdime.mem_sortStrs]
    simp only [List.mem_append, List.mem_filter, Bool.not_eq_true', List.contains_eq_mem, decide_eq_false_iff_not,
      mem_keys_iff]
    cases (lookupKV k' l).isSome <;> cases (lookupKV k' r).isSome <;> simp
  have hmemBoth : ∀ k', k' ∈ bothKeys l r ↔ ((lookupKV k' l).isSome = true ∧ (lookupKV k' r).isSome = true) := by
    intro k'
    unfold bothKeys
    rw [_root_.Nbdime.mem_sortStrs]
    simp only [List.mem_filter, List.contains_eq_mem, decide_eq_true_eq, mem_keys_iff]
  have hone_ne : ∀ k' ∈ oneKeys l r, k' ≠ k := by
    intro k' hk' hh
    subst hh
    have := (hmemOne _).mp hk'
    rw [hlk, hrk] at this
    exact this rfl
  have hag' : ∀ k' el er, k' ≠ k → lookupKV k' l = some el → lookupKV k' r = some er → el = er := by
    intro k' el er hne' h1' h2'
    exact hagree el (tl1 k' el h1').1 er (tr1 k' er h2').1 (by rw [(tl1 k' el h1').2, (tr1 k' er h2').2])
      (by rw [(tl1 k' el h1').2]; exact hne')
  unfold decideMerge at h
  obtain ⟨m, hf⟩ : ∃ m, bigFuel = m + 1 + 1 := ⟨99998, rfl⟩
  rw [hf] at h
  have hunf : mergeF E (m + 1 + 1) false (.obj base) (.d ld) (.d rd) [] = mergeDicts E (mergeF E (m + 1)) false base ld rd [] := rfl
  rw [hunf] at h
  simp only [bind, Except.bind] at h
  cases hmd : mergeDicts E (mergeF E (m + 1)) false base ld rd [] with
  | error e => simp [hmd] at h
  | ok R =>
    obtain ⟨pre, post, hsplit, hkpre, hkpost, hR⟩ := mergeDicts_mixed_exact E m base ld rd l r hl hr k xs dL dR hlk hrk hag'
      (fun k' e h1' => hmapL e (tl1 k' e h1').1) hk h0 h1 hdis hneq hboth R hmd
    simp only [hmd] at h
    have hstripW := walk_strip [PKey.s k] (boundsOf xs.length dL dR) dL dR
    have hncW := walk_noconf [PKey.s k] (boundsOf xs.length dL dR) dL dR
    generalize hWdef : walk [PKey.s k] (boundsOf xs.length dL dR) dL dR = W at hR hstripW hncW
    have hkd2 : ∀ k' d, keyDec l r k' = some d → k' ≠ k →
        ∃ s e, d = mkSide s e ∧ e.isMapOp = true ∧ e.skey ≠ k ∧ (e ∈ ld ∨ e ∈ rd) := by
      intro k' d hd hne'
      obtain ⟨s, e, rfl, hcase⟩ := keyDec_mem hd
      rcases hcase with h1' | ⟨h1', h2'⟩
      · exact ⟨s, e, rfl, hmapL e (tl1 k' e h1').1, by rw [(tl1 k' e h1').2]; exact hne', Or.inl (tl1 k' e h1').1⟩
      · exact ⟨s, e, rfl, hmapR e (tr1 k' e h2').1, by rw [(tr1 k' e h2').2]; exact hne', Or.inr (tr1 k' e h2').1⟩
    have hRmem : ∀ d ∈ R, d ∈ W ∨ ∃ s e, d = mkSide s e ∧ e.isMapOp = true ∧ e.skey ≠ k ∧ (e ∈ ld ∨ e ∈ rd) := by
      intro d hd
      rw [hR] at hd
      simp only [List.mem_append, List.mem_filterMap] at hd
      rcases hd with ((⟨k', hk', hkd⟩ | ⟨k', hk', hkd⟩) | hd) | ⟨k', hk', hkd⟩
      · exact Or.inr (hkd2 k' d hkd (hone_ne k' hk'))
      · exact Or.inr (hkd2 k' d hkd (fun hh => hkpre (hh ▸ hk')))
      · exact Or.inl hd
      · exact Or.inr (hkd2 k' d hkd (fun hh => hkpost (hh ▸ hk')))
    have hnc : hasConflicted R = false := by
      unfold hasConflicted
      rw [List.any_eq_false]
      intro d hd
      rcases hRmem d hd with hw | ⟨s, e, rfl, _⟩
      · unfold hasConflicted at hncW
        rw [List.any_eq_false] at hncW
        exact hncW d hw
      · simp [mkSide_noconf]
    rw [resolveGeneric_noconf hnc] at h
    simp only [pure, Except.pure, Except.ok.injEq] at h
    have hstrip : R.map (fun d => ({ d with strategy := none } : MD)) = R := by
      have hNK : ∀ (keys : List String), (∀ k' ∈ keys, k' ≠ k) →
          (keys.filterMap (keyDec l r)).map (fun d => ({ d with strategy := none } : MD)) = keys.filterMap (keyDec l r) := by
        intro keys hkeys
        have : ∀ d ∈ keys.filterMap (keyDec l r), ({ d with strategy := none } : MD) = d := by
          intro d hd
          obtain ⟨k', hk', hkd⟩ := List.mem_filterMap.mp hd
          obtain ⟨s, e, rfl, _⟩ := hkd2 k' d hkd (hkeys k' hk')
          simp [mkSide]
        rw [List.map_congr_left this]; simp
      rw [hR]
      simp only [List.map_append]
      rw [hNK _ hone_ne, hNK pre (fun k' hk' hh => hkpre (hh ▸ hk')), hNK post (fun k' hk' hh => hkpost (hh ▸ hk')), hstripW]
    unfold validated at h
    rw [hstrip] at h
    exact ⟨R, h.symm, hRmem⟩

/-- the diffs inside the cell decisions of the walk are well-formed for the item they sit in -/
theorem walk_items_wf (base : List (String × J)) (k : String) (xs : List J) (dL dR : List Op)
    (hk : lookupKV k base = some (.arr xs)) (h0 : AscPatch 0 dL) (h1 : AscPatch 0 dR)
    (hdis : ∀ e0 ∈ dL, ∀ e1 ∈ dR, e0.idx ≠ e1.idx)
    (hwL : wfList xs dL 0 none = true) (hwR : wfList xs dR 0 none = true) :
    ∀ d ∈ walk [PKey.s k] (boundsOf xs.length dL dR) dL dR, ∀ x, (d.localDiff = some x ∨ d.remoteDiff = some x) →
      wfAt (.obj base) d.path x = true := by
  have hb0 : StrictAsc (insertNat xs.length [0]) := (insertNat_asc xs.length [0] trivial).1
  obtain ⟨a1, a2, a3⟩ := sectionBoundaries_patches dL (insertNat xs.length [0]) 0 h0 hb0
  obtain ⟨b1, b2, b3⟩ := sectionBoundaries_patches dR _ 0 h1 a1
  obtain ⟨w1, _, _, _, _⟩ := walkE_spec (boundsOf xs.length dL dR) dL dR 0 b1 h0 h1 (fun e he => b2 _ (a3 e he)) b3 hdis
  intro d hd' x hx
  rw [walk_eq] at hd'
  obtain ⟨p, hp, rfl⟩ := List.mem_map.mp hd'
  have hent : ∃ j dd v, p.2 = .patchI j dd ∧ xs[j]? = some v ∧ v.isContainer = true ∧ wf v dd = true := by
    rcases w1 p hp with ⟨_, hm⟩ | ⟨_, hm⟩
    · obtain ⟨_, j, dd, hpe⟩ := AscPatch.idx_ge h0 p.2 hm
      rw [hpe] at hm
      obtain ⟨v, f1, f2, f3⟩ := wfList_entries xs dL 0 none hwL j dd hm
      exact ⟨j, dd, v, hpe, f1, f2, f3⟩
    · obtain ⟨_, j, dd, hpe⟩ := AscPatch.idx_ge h1 p.2 hm
      rw [hpe] at hm
      obtain ⟨v, f1, f2, f3⟩ := wfList_entries xs dR 0 none hwR j dd hm
      exact ⟨j, dd, v, hpe, f1, f2, f3⟩
  obtain ⟨j, dd, v, hpe, f1, f2, f3⟩ := hent
  rw [hpe] at hx ⊢
  obtain ⟨q', y, hmk, hpush⟩ := mkItem_patch [PKey.s k] p.1 j dd
  rw [hmk] at hx ⊢
  have hxy : x = y := by
    generalize p.1 = sd at hx
    cases sd <;> simp [sideMD] at hx <;> exact hx.symm
  subst hxy
  show wfAt (.obj base) ([PKey.s k] ++ PKey.i j :: q') x = true
  simp only [List.cons_append, List.nil_append, wfAt, hk, f1]
  cases q' with
  | nil =>
    have : x = dd := hpush
    subst this
    exact f3
  | cons k2 q2 =>
    apply wf_pushPath (k2 :: q2) v x (by simp)
    rw [hpush]; exact f3

end Nbdime
