import NbdimeProofs.Lemmas.NbRoundtrip
import NbdimeProofs.Lemmas.WfDiff
/-
  C11 for the model of the notebook differ: under any differ configuration made of sound kinds (in
  particular the live tables of `diff_notebooks`, extracted per run) every diff is well-formed for
  the document it was computed from. Mirrors `NbRoundtrip.lean`.
-/
set_option linter.unusedSimpArgs false
namespace Nbdime
open Nbdime.Abs

/-- a differ call yields, when not empty, a diff that is well-formed for its (container) base -/
def WfOn (f : J → J → Except Err (List Op)) : Prop :=
  ∀ x y cd, x.canonical = true → y.canonical = true → Compat x y →
    f x y = .ok cd → cd ≠ [] → x.isContainer = true ∧ wf x cd = true

/-! ### `diff_mime_bundle`, `diff_attachments` -/

theorem mimeStep_W (O : Oracle) (recur : Recur) (a b : List (String × J))
    (ca : J.canonicalKvs a = true) (cb : J.canonicalKvs b = true) (hab : CompatKvs a b)
    (hgen : WfOn (genericDiff O recur defaultCfg "")) : BothStepW a b (mimeStep O recur a b) := by
  intro s x s' av bv ha hb hw hf
  unfold mimeStep at hf
  simp only [ha, hb, Option.getD_some] at hf
  have cav := canonicalKvs_mem a ca _ (lookupKV_mem x av a ha)
  have cbv := canonicalKvs_mem b cb _ (lookupKV_mem x bv b hb)
  have hxy := hab x av bv ha hb
  unfold addMimeDiff at hf
  split at hf
  · cases hf; exact hw
  · split at hf
    · simp only [bind, Except.bind] at hf
      split at hf
      · cases hf
      · rename_i dd hd
        exact mapPatch_W hw ha (hgen av bv dd cav cbv hxy hd) hf
    · split at hf
      · exact mapAppend_W (e := .replace x bv) hw (show hasKey x a = true by simp [hasKey, ha])
          (Or.inl (by simp [Op.skey, ha])) hf
      · cases hf; exact hw

theorem mimeBundle_wf (O : Oracle) (recur : Recur) (hgen : WfOn (genericDiff O recur defaultCfg "")) :
    WfOn (mimeBundle O recur) := by
  intro x y d cx cy hxy h _
  unfold mimeBundle at h
  cases x with
  | obj ak =>
    cases y with
    | obj bk =>
      simp only [J.canonical, Bool.and_eq_true] at cx cy
      have hkv : CompatKvs ak bk := hxy.obj_inv
      simp only at h
      have hk := listDiffKeys_spec ak bk
      generalize listDiffKeys ak bk = t at h hk
      obtain ⟨rem, both, add⟩ := t
      simp only [bind, Except.bind, pure, Except.pure] at h hk
      split at h
      · cases h
      · rename_i di1 h1
        split at h
        · cases h
        · rename_i di2 h2
          split at h
          · cases h
          · rename_i di3 h3
            simp only [Except.ok.injEq] at h
            subst h
            have hw := threeFold_W ak bk rem both add hk _ (mimeStep_W O recur ak bk cx.2 cy.2 hkv hgen) di1 di2 di3 h1 h2 h3
            refine ⟨rfl, ?_⟩
            rw [wf]
            exact wfObj_of_tableW hw
    | _ => simp at h
  | _ => simp at h

theorem attachmentsDiff_wf (O : Oracle) (recur : Recur) (path : String)
    (hgen : WfOn (genericDiff O recur defaultCfg "")) : WfOn (attachmentsDiff O recur path) := by
  intro x y d cx cy hxy h _
  unfold attachmentsDiff at h
  split at h
  · cases h
  · cases x with
    | obj ak =>
      cases y with
      | obj bk =>
        simp only [J.canonical, Bool.and_eq_true] at cx cy
        have hkv : CompatKvs ak bk := hxy.obj_inv
        simp only at h
        have hk := listDiffKeys_spec ak bk
        generalize listDiffKeys ak bk = t at h hk
        obtain ⟨rem, both, add⟩ := t
        simp only [bind, Except.bind, pure, Except.pure] at h hk
        split at h
        · cases h
        · rename_i di1 h1
          split at h
          · cases h
          · rename_i di2 h2
            split at h
            · cases h
            · rename_i di3 h3
              simp only [Except.ok.injEq] at h
              subst h
              have hm := mimeBundle_wf O recur hgen
              have hF : BothStepW ak bk (attachStep O recur ak bk) := by
                intro s x s' av bv ha hb hw hf
                unfold attachStep at hf
                simp only [ha, hb, Option.getD_some, bind, Except.bind] at hf
                have cav := canonicalKvs_mem ak cx.2 _ (lookupKV_mem x av ak ha)
                have cbv := canonicalKvs_mem bk cy.2 _ (lookupKV_mem x bv bk hb)
                have hvv := hkv x av bv ha hb
                split at hf
                · cases hf
                · rename_i dd hd
                  exact mapPatch_W hw ha (hm av bv dd cav cbv hvv hd) hf
              have hw := threeFold_W ak bk rem both add hk _ hF di1 di2 di3 h1 h2 h3
              refine ⟨rfl, ?_⟩
              rw [wf]
              exact wfObj_of_tableW hw
      | _ => simp at h
    | _ => simp at h

/-! ### `diff_single_outputs` -/

theorem hasKey_eraseKV {α} (key k : String) (l : List (String × α)) (hk : k ≠ key) :
    hasKey k (eraseKV key l) = hasKey k l := by
  unfold hasKey
  rw [lookupKV_eraseKV]
  simp [hk]

/-- a table computed for the two dicts without `key` is a table for the full dicts -/
theorem tableW_unerase (key : String) (a b : List (String × J)) (di : List (String × Op))
    (h : TableW (eraseKV key a) (eraseKV key b) di) : TableW a b di := by
  refine ⟨h.1, ?_⟩
  intro k e hl
  obtain ⟨e1, e2, e3⟩ := h.2 k e hl
  have hk : k ≠ key := by
    intro hk
    subst hk
    simp [lookupKV_eraseKV] at e3
  have e3' : (lookupKV k a).isSome = true ∨ (lookupKV k b).isSome = true := by
    simpa [lookupKV_eraseKV, hk] using e3
  refine ⟨e1, ?_, e3'⟩
  cases e with
  | add k' v => simp only [Op.skey] at e1; subst e1; simp only [entryOK] at e2 ⊢; rwa [hasKey_eraseKV key k' a hk] at e2
  | remove k' => simp only [Op.skey] at e1; subst e1; simp only [entryOK] at e2 ⊢; rwa [hasKey_eraseKV key k' a hk] at e2
  | replace k' v => simp only [Op.skey] at e1; subst e1; simp only [entryOK] at e2 ⊢; rwa [hasKey_eraseKV key k' a hk] at e2
  | patchK k' dd =>
    simp only [Op.skey] at e1; subst e1
    obtain ⟨h1, v, h2, h3, h4⟩ := e2
    refine ⟨h1, v, ?_, h3, h4⟩
    simpa [lookupKV_eraseKV, hk] using h2
  | addrange _ _ => exact absurd e2 (by simp [entryOK])
  | addchars _ _ => exact absurd e2 (by simp [entryOK])
  | removerange _ _ => exact absurd e2 (by simp [entryOK])
  | patchI _ _ => exact absurd e2 (by simp [entryOK])
  | invalid _ => exact absurd e2 (by simp [entryOK])

/-- the sub-differ reached through the tables is well-formed at every path -/
def SubWf (recur : Recur) (cfg : Cfg) : Prop := ∀ p, WfOn (recur cfg (cfg.differ p) p)

theorem dictRecW_of_sub (recur : Recur) (cfg : Cfg) (path : String) (a b : List (String × J))
    (hsub : SubWf recur cfg) (ca : J.canonicalKvs a = true) (cb : J.canonicalKvs b = true)
    (hab : CompatKvs a b) : DictRecW recur cfg path a b := by
  intro k av bv dd ha hb hc hne
  have cav := canonicalKvs_mem a ca _ (lookupKV_mem k av a ha)
  have cbv := canonicalKvs_mem b cb _ (lookupKV_mem k bv b hb)
  exact hsub _ av bv dd cav cbv (hab k av bv ha hb) hc hne

theorem entryOK_isMapOp {a : List (String × J)} {e : Op} (h : entryOK a e) : e.isMapOp = true := by
  cases e <;> simp_all [entryOK, Op.isMapOp]

theorem singleOutputs_wf (O : Oracle) (recur : Recur) (cfg : Cfg) (path : String) (hsub : SubWf recur cfg)
    (hgen : WfOn (genericDiff O recur defaultCfg "")) : WfOn (singleOutputs O recur cfg path) := by
  intro x y d cx cy hxy h _
  unfold singleOutputs at h
  split at h
  · cases h
  · cases x with
    | obj ak =>
      cases y with
      | obj bk =>
        refine ⟨rfl, ?_⟩
        rw [wf]
        simp only at h
        cases hta : lookupKV "output_type" ak with
        | none => simp [hta] at h
        | some ta =>
          cases htb : lookupKV "output_type" bk with
          | none => simp [hta, htb] at h
          | some tb =>
            simp only [hta, htb] at h
            have cx0 := cx
            have cy0 := cy
            simp only [J.canonical, Bool.and_eq_true] at cx cy
            have hkv : CompatKvs ak bk := hxy.obj_inv
            split at h
            · cases h
            · split at h
              · cases hda : lookupKV "data" ak with
                | none => simp [hda] at h
                | some da =>
                  cases hdb : lookupKV "data" bk with
                  | none => simp [hda, hdb] at h
                  | some db =>
                    simp only [hda, hdb, bind, Except.bind, pure, Except.pure] at h
                    have hkve : CompatKvs (eraseKV "data" ak) (eraseKV "data" bk) := by
                      intro k av bv ha hb
                      rw [lookupKV_eraseKV] at ha hb
                      by_cases hk : k = "data"
                      · simp [hk] at ha
                      · simp only [hk, if_false] at ha hb
                        exact hkv k av bv ha hb
                    have cea : J.canonicalKvs (eraseKV "data" ak) = true :=
                      canonicalKvs_of_mem _ (fun p hp => canonicalKvs_mem ak cx.2 p (eraseKV_mem _ _ p hp))
                    have ceb : J.canonicalKvs (eraseKV "data" bk) = true :=
                      canonicalKvs_of_mem _ (fun p hp => canonicalKvs_mem bk cy.2 p (eraseKV_mem _ _ p hp))
                    cases hconj : genericDiff O recur cfg path (.obj (eraseKV "data" ak)) (.obj (eraseKV "data" bk)) with
                    | error e => simp [hconj] at h
                    | ok dconj =>
                      simp only [hconj] at h
                      unfold genericDiff at hconj
                      simp only at hconj
                      obtain ⟨di0, rfl, w0⟩ := diffDicts_W recur cfg path _ _
                        (dictRecW_of_sub recur cfg path _ _ hsub cea ceb hkve) dconj hconj
                      have hre : (mapValidated di0).foldlM mapAppend ([] : List (String × Op)) = .ok di0 := by
                        have := refold di0 [] (by simpa using w0.1) (fun p hp => by
                          obtain ⟨k, e⟩ := p
                          obtain ⟨e1, e2, _⟩ := w0.2 k e (lookupKV_of_mem k e di0 w0.1.dk hp)
                          exact ⟨e1, entryOK_isMapOp e2⟩)
                        simpa [mapValidated] using this
                      rw [hre] at h
                      simp only at h
                      cases hmb : mimeBundle O recur da db with
                      | error e => simp [hmb] at h
                      | ok dd =>
                        simp only [hmb] at h
                        cases hmp : mapPatch di0 "data" dd with
                        | error e => simp [hmp] at h
                        | ok di' =>
                          simp only [hmp, Except.ok.injEq] at h
                          subst h
                          have cda := canonicalKvs_mem ak cx.2 _ (lookupKV_mem "data" da ak hda)
                          have cdb := canonicalKvs_mem bk cy.2 _ (lookupKV_mem "data" db bk hdb)
                          have hdd := hkv "data" da db hda hdb
                          have wfull := tableW_unerase "data" ak bk di0 w0
                          have w1 := mapPatch_W wfull hda (mimeBundle_wf O recur hgen da db dd cda cdb hdd hmb) hmp
                          exact wfObj_of_tableW w1
              · unfold genericDiff at h
                simp only at h
                exact diffDicts_wf recur cfg path ak bk (dictRecW_of_sub recur cfg path ak bk hsub cx.2 cy.2 hkv) d h
      | _ => simp at h
    | _ => simp at h


/-! ### any configuration made of sound kinds -/

theorem itemOK_PW (recur : Recur) (cfg : Cfg) (subpath : String) (A B : List J) (hsub : SubSound recur cfg)
    (hwf : SubWf recur cfg) (ca : J.canonicalList A = true) (cb : J.canonicalList B = true)
    (hab : ∀ x ∈ A, ∀ y ∈ B, Compat x y) :
    ItemOK PW recur cfg (cfg.differ subpath) subpath A B := by
  intro i j hi hj cd hc
  have c1 := canonicalList_mem A ca _ (List.getElem_mem hi)
  have c2 := canonicalList_mem B cb _ (List.getElem_mem hj)
  have hxy := hab _ (List.getElem_mem hi) _ (List.getElem_mem hj)
  exact ⟨⟨hsub _ _ _ cd c1 c2 hxy hc, hwf _ _ _ cd c1 c2 hxy hc⟩,
    fun hnil => (hsub _).nil _ _ c1 c2 hxy (by rw [← hnil]; exact hc)⟩

theorem lists_wf (O : Oracle) (f : Nat) (cfg : Cfg) (hcfg : CfgSound cfg)
    (hsub : SubSound (diffAt O f) cfg) (hwf : SubWf (diffAt O f) cfg) (path : String) (al bl : List J) (d : List Op)
    (cx : J.canonicalList al = true) (cy : J.canonicalList bl = true) (hpairs : ∀ x ∈ al, ∀ y ∈ bl, Compat x y)
    (h : diffLists O (diffAt O f) cfg path al bl = .ok d) : wfList al d 0 none = true := by
  have hitem := itemOK_PW (diffAt O f) cfg (path ++ "/*") al bl hsub hwf cx cy hpairs
  by_cases hlen : (cfg.preds (orSlash path)).length > 1
  · have hml : diffLists O (diffAt O f) cfg path al bl = multilevel O (diffAt O f) cfg path al bl := by
      unfold diffLists; simp [hlen]
    rw [hml] at h
    obtain ⟨kb, hb⟩ := multilevel_built (P := PW) O (diffAt O f) cfg path al bl hitem d h
    exact wfList_of_built (P := PW) (fun v dd new hp hne => hp.2 hne) hb
  · have hp := hcfg.2 (orSlash path)
    simp only [predsOk, Bool.or_eq_true, decide_eq_true_eq, beq_iff_eq] at hp
    have hnames : cfg.preds (orSlash path) = ["eq"] := by
      rcases hp with hp | hp
      · exact absurd hp hlen
      · exact hp
    obtain ⟨kb, hb⟩ := diffLists_single_built (P := PW) O (diffAt O f) cfg path al bl "eq" hnames
      (by
        intro i j hi hj hc
        rw [pred_eq] at hc
        simp only [Except.ok.injEq] at hc
        exact compat_pyEq _ _ (hpairs _ (List.getElem_mem hi) _ (List.getElem_mem hj))
          (canonicalList_mem al cx _ (List.getElem_mem hi)) (canonicalList_mem bl cy _ (List.getElem_mem hj)) hc)
      hitem d h
    exact wfList_of_built (P := PW) (fun v dd new hp hne => hp.2 hne) hb

/-- `diff` under a configuration of sound kinds whose sub-differs are sound and well-formed -/
theorem genericDiff_wf (O : Oracle) (hO : OracleOK O) (f : Nat) (cfg : Cfg) (hcfg : CfgSound cfg)
    (hsub : SubSound (diffAt O f) cfg) (hwf : SubWf (diffAt O f) cfg) (path : String) :
    WfOn (genericDiff O (diffAt O f) cfg path) := by
  intro x y d cx cy hxy h _
  cases x with
  | arr al =>
    cases y with
    | arr bl =>
      unfold genericDiff at h
      simp only at h
      simp only [J.canonical] at cx cy
      refine ⟨rfl, ?_⟩
      rw [wf]
      exact lists_wf O f cfg hcfg hsub hwf path al bl d cx cy hxy.arr_inv h
    | _ => simp [genericDiff] at h
  | obj ak =>
    cases y with
    | obj bk =>
      unfold genericDiff at h
      simp only at h
      simp only [J.canonical, Bool.and_eq_true] at cx cy
      refine ⟨rfl, ?_⟩
      rw [wf]
      exact diffDicts_wf (diffAt O f) cfg path ak bk (dictRecW_of_sub (diffAt O f) cfg path ak bk hwf cx.2 cy.2 hxy.obj_inv) d h
    | _ => simp [genericDiff] at h
  | str sa =>
    cases y with
    | str sb =>
      unfold genericDiff at h
      simp only at h
      refine ⟨rfl, ?_⟩
      rw [wf]
      exact stringsLinewise_wf O hO f sa sb d h
    | _ => simp [genericDiff] at h
  | null => simp [genericDiff] at h
  | bool _ => simp [genericDiff] at h
  | int _ => simp [genericDiff] at h
  | flt _ => simp [genericDiff] at h

/-- Well-formedness under ANY configuration of sound kinds, for every differ kind of the tables, at every depth. -/
theorem diffAt_wf (O : Oracle) (hO : OracleOK O) (fuel : Nat) :
    ∀ (cfg : Cfg), CfgSound cfg → ∀ (dfr : Differ), dfr.allowed = true → ∀ (path : String),
      WfOn (diffAt O fuel cfg dfr path) := by
  induction fuel with
  | zero => intro cfg _ dfr _ path x y d _ _ _ h; simp [diffAt] at h
  | succ f ih =>
    intro cfg hcfg dfr hd path
    have hsub : ∀ cfg', CfgSound cfg' → SubSound (diffAt O f) cfg' :=
      fun cfg' h' p => diffAt_sound O hO f cfg' h' (cfg'.differ p) (h'.1 p) p
    have hwf : ∀ cfg', CfgSound cfg' → SubWf (diffAt O f) cfg' :=
      fun cfg' h' p => ih cfg' h' (cfg'.differ p) (h'.1 p) p
    have hgenD : WfOn (genericDiff O (diffAt O f) defaultCfg "") :=
      genericDiff_wf O hO f defaultCfg defaultCfg_sound (hsub defaultCfg defaultCfg_sound) (hwf defaultCfg defaultCfg_sound) ""
    cases dfr with
    | generic =>
      intro x y d cx cy hxy h hne
      simp only [diffAt] at h
      exact genericDiff_wf O hO f cfg hcfg (hsub cfg hcfg) (hwf cfg hcfg) path x y d cx cy hxy h hne
    | multilevel =>
      intro x y d cx cy hxy h _
      simp only [diffAt] at h
      cases x with
      | arr al =>
        cases y with
        | arr bl =>
          simp only at h
          simp only [J.canonical] at cx cy
          refine ⟨rfl, ?_⟩
          rw [wf]
          obtain ⟨kb, hb⟩ := multilevel_built (P := PW) O (diffAt O f) cfg path al bl
            (itemOK_PW (diffAt O f) cfg (path ++ "/*") al bl (hsub cfg hcfg) (hwf cfg hcfg) cx cy hxy.arr_inv) d h
          exact wfList_of_built (P := PW) (fun v dd new hp hne => hp.2 hne) hb
        | _ => simp at h
      | _ => simp at h
    | stringLines =>
      intro x y d cx cy hxy h _
      simp only [diffAt] at h
      cases x with
      | str sa =>
        cases y with
        | str sb =>
          simp only at h
          refine ⟨rfl, ?_⟩
          rw [wf]
          exact stringsLinewise_wf O hO f sa sb d h
        | _ => simp at h
      | _ => simp at h
    | attachments =>
      intro x y d cx cy hxy h hne
      simp only [diffAt] at h
      exact attachmentsDiff_wf O (diffAt O f) path hgenD x y d cx cy hxy h hne
    | singleOutputs =>
      intro x y d cx cy hxy h hne
      simp only [diffAt] at h
      exact singleOutputs_wf O (diffAt O f) cfg path (hwf cfg hcfg) hgenD x y d cx cy hxy h hne
    | stringsByChar => simp [Differ.allowed] at hd
    | ignore => simp [Differ.allowed] at hd
    | ignoreKeys _ _ => simp [Differ.allowed] at hd

/-- **C11 for the model of the notebook differ**: for every configuration that passes `cfgSoundB` (the live
    tables are checked per run), every oracle with `OracleOK`, every pair of compatible canonical notebooks:
    the diff `diffNotebooks` returns is well-formed for the base notebook. -/
theorem diffNotebooks_wf (O : Oracle) (hO : OracleOK O) (cfg : Cfg) (hcfg : cfgSoundB cfg = true)
    (a b : J) (d : List Op) (ca : a.canonical = true) (cb : b.canonical = true) (hab : Compat a b)
    (h : diffNotebooks O cfg a b = .ok d) : wf a d = true := by
  unfold diffNotebooks at h
  cases a with
  | obj ak =>
    cases b with
    | obj bk =>
      simp only at h
      cases d with
      | nil => rw [wf, wfObj]
      | cons e es =>
        exact (diffAt_wf O hO bigFuel cfg (cfgSound_of_B cfg hcfg) .generic rfl "" _ _ _ ca cb hab h (by simp)).2
    | _ => simp at h
  | _ => simp at h

end Nbdime
