import NbdimeProofs.Lemmas.ApplyCells
/-
  C06 for the items of a list (cells): the decisions `_merge_lists` records when both sides only patch items, and no
  item is patched by both.
-/
set_option linter.unusedSimpArgs false
set_option linter.unusedVariables false
namespace Nbdime
open Nbdime.Abs Nbdime.Merge

/-- a patch-only list diff with strictly ascending keys, all at least `lo` -/
def AscPatch : Nat → List Op → Prop
  | _, [] => True
  | lo, .patchI j _ :: rest => lo ≤ j ∧ AscPatch (j + 1) rest
  | _, _ :: _ => False

theorem AscPatch.mono : ∀ {d : List Op} {lo lo' : Nat}, lo' ≤ lo → AscPatch lo d → AscPatch lo' d
  | [], _, _, _, _ => trivial
  | .patchI j dd :: rest, lo, lo', h, ha => ⟨Nat.le_trans h ha.1, ha.2⟩
  | .add _ _ :: _, _, _, _, ha => ha.elim
  | .remove _ :: _, _, _, _, ha => ha.elim
  | .replace _ _ :: _, _, _, _, ha => ha.elim
  | .patchK _ _ :: _, _, _, _, ha => ha.elim
  | .addrange _ _ :: _, _, _, _, ha => ha.elim
  | .addchars _ _ :: _, _, _, _, ha => ha.elim
  | .removerange _ _ :: _, _, _, _, ha => ha.elim
  | .invalid _ :: _, _, _, _, ha => ha.elim

theorem AscPatch.idx_ge : ∀ {d : List Op} {lo : Nat}, AscPatch lo d → ∀ e ∈ d, lo ≤ e.idx ∧ ∃ j dd, e = .patchI j dd
  | [], _, _, _, he => nomatch he
  | .patchI j dd :: rest, lo, ha, e, he => by
      rcases List.mem_cons.mp he with rfl | he
      · exact ⟨ha.1, j, dd, rfl⟩
      · have := AscPatch.idx_ge ha.2 e he
        exact ⟨by have := ha.1; omega, this.2⟩
  | .add _ _ :: _, _, ha, _, _ => ha.elim
  | .remove _ :: _, _, ha, _, _ => ha.elim
  | .replace _ _ :: _, _, ha, _, _ => ha.elim
  | .patchK _ _ :: _, _, ha, _, _ => ha.elim
  | .addrange _ _ :: _, _, ha, _, _ => ha.elim
  | .addchars _ _ :: _, _, ha, _, _ => ha.elim
  | .removerange _ _ :: _, _, ha, _, _ => ha.elim
  | .invalid _ :: _, _, ha, _, _ => ha.elim

/-- `split_diffs_on_boundaries` leaves a patch-only ascending diff as it is -/
theorem splitOnBoundaries_patches (bs : List Nat) : ∀ (d nd : List Op) (lo : Nat), AscPatch lo d → (∀ o ∈ nd, o.idx < lo) →
    splitOnBoundaries d bs nd = .ok (nd ++ d)
  | [], nd, _, _, _ => by simp [splitOnBoundaries]
  | .patchI j dd :: rest, nd, lo, ha, hnd => by
      rw [splitOnBoundaries]
      have hend : seqAppend nd (.patchI j dd) = nd ++ [.patchI j dd] :=
        seqAppend_end nd _ (fun o ho => by
          have h1 := hnd o ho; have h2 := ha.1
          show o.idx < j
          omega)
      rw [hend]
      have ih := splitOnBoundaries_patches bs rest (nd ++ [.patchI j dd]) (j + 1) ha.2 (fun o ho => by
        rcases List.mem_append.mp ho with h | h
        · have := hnd o h; have := ha.1; omega
        · simp at h; subst h; simp [Op.idx])
      rw [ih]
      simp
  | .add _ _ :: _, _, _, ha, _ => ha.elim
  | .remove _ :: _, _, _, ha, _ => ha.elim
  | .replace _ _ :: _, _, _, ha, _ => ha.elim
  | .patchK _ _ :: _, _, _, ha, _ => ha.elim
  | .addrange _ _ :: _, _, _, ha, _ => ha.elim
  | .addchars _ _ :: _, _, _, ha, _ => ha.elim
  | .removerange _ _ :: _, _, _, ha, _ => ha.elim
  | .invalid _ :: _, _, _, ha, _ => ha.elim

/-- strictly ascending boundaries -/
def StrictAsc : List Nat → Prop
  | [] => True
  | [_] => True
  | a :: b :: rest => a < b ∧ StrictAsc (b :: rest)

theorem StrictAsc.tail {a : Nat} {l : List Nat} (h : StrictAsc (a :: l)) : StrictAsc l := by
  cases l with
  | nil => trivial
  | cons b rest => exact h.2

theorem StrictAsc.head_lt {a : Nat} : ∀ {l : List Nat}, StrictAsc (a :: l) → ∀ x ∈ l, a < x
  | [], _, _, hx => nomatch hx
  | b :: rest, h, x, hx => by
      rcases List.mem_cons.mp hx with rfl | hx
      · exact h.1
      · exact Nat.lt_trans h.1 (StrictAsc.head_lt h.2 x hx)

theorem insertNat_asc (n : Nat) : ∀ (l : List Nat), StrictAsc l → StrictAsc (insertNat n l) ∧ ∀ x, x ∈ insertNat n l ↔ x = n ∨ x ∈ l
  | [], _ => ⟨trivial, fun x => by simp [insertNat]⟩
  | a :: rest, h => by
      obtain ⟨ih1, ih2⟩ := insertNat_asc n rest h.tail
      simp only [insertNat]
      by_cases h1 : n < a
      · simp only [h1, if_true]
        exact ⟨⟨h1, h⟩, fun x => by simp⟩
      · simp only [h1, if_false]
        by_cases h2 : n = a
        · subst h2
          simp only [BEq.rfl, if_true]
          exact ⟨h, fun x => by simp⟩
        · have : (n == a) = false := by simpa using h2
          simp only [this, Bool.false_eq_true, if_false]
          refine ⟨?_, fun x => by
            simp only [List.mem_cons, ih2 x]
            constructor
            · rintro (h | h | h)
              · exact Or.inr (Or.inl h)
              · exact Or.inl h
              · exact Or.inr (Or.inr h)
            · rintro (h | h | h)
              · exact Or.inr (Or.inl h)
              · exact Or.inl h
              · exact Or.inr (Or.inr h)⟩
          cases hr : insertNat n rest with
          | nil => trivial
          | cons b rest' =>
            refine ⟨?_, by rw [← hr]; exact ih1⟩
            have hb : b ∈ insertNat n rest := by rw [hr]; exact List.mem_cons_self
            rcases (ih2 b).mp hb with rfl | hb'
            · omega
            · exact StrictAsc.head_lt h b hb'

theorem sectionBoundaries_patches : ∀ (d : List Op) (acc : List Nat) (lo : Nat), AscPatch lo d → StrictAsc acc →
    StrictAsc (sectionBoundaries acc d) ∧ (∀ x ∈ acc, x ∈ sectionBoundaries acc d) ∧
      ∀ e ∈ d, e.idx ∈ sectionBoundaries acc d
  | [], acc, _, _, hacc => ⟨hacc, fun _ h => h, fun _ h => nomatch h⟩
  | .patchI j dd :: rest, acc, lo, ha, hacc => by
      obtain ⟨a1, a2⟩ := insertNat_asc j acc hacc
      obtain ⟨b1, b2⟩ := insertNat_asc (j + 1) (insertNat j acc) a1
      obtain ⟨c1, c2, c3⟩ := sectionBoundaries_patches rest (insertNat (j + 1) (insertNat j acc)) (j + 1) ha.2 b1
      simp only [sectionBoundaries]
      refine ⟨c1, fun x hx => c2 x ((b2 x).mpr (Or.inr ((a2 x).mpr (Or.inr hx)))), ?_⟩
      intro e he
      rcases List.mem_cons.mp he with rfl | he
      · exact c2 _ ((b2 _).mpr (Or.inr ((a2 _).mpr (Or.inl rfl))))
      · exact c3 e he
  | .add _ _ :: _, _, _, ha, _ => ha.elim
  | .remove _ :: _, _, _, ha, _ => ha.elim
  | .replace _ _ :: _, _, _, ha, _ => ha.elim
  | .patchK _ _ :: _, _, _, ha, _ => ha.elim
  | .addrange _ _ :: _, _, _, ha, _ => ha.elim
  | .addchars _ _ :: _, _, _, ha, _ => ha.elim
  | .removerange _ _ :: _, _, _, ha, _ => ha.elim
  | .invalid _ :: _, _, _, ha, _ => ha.elim


/-! ### the decisions, chunk by chunk -/

def itemDiffs (s : Side) (e : Op) : List (Option (List Op)) :=
  match s with
  | .loc => [some [e], some [], none]
  | .rem => [some [], some [e], none]
  | .both => [some [e], some [e], none]

/-- the decision `onesided` / `agreement` record for one list entry `e` at `path` -/
def mkItem (path : List PKey) (s : Side) (e : Op) : MD :=
  let (p, ds) := ensureCommonPath pathFuel path (itemDiffs s e)
  { path := p, action := s.action, conflict := false, localDiff := (ds[0]?).getD none, remoteDiff := (ds[1]?).getD none,
    customDiff := (ds[2]?).getD none, strategy := none, similarInsert := none }

theorem onesided_item_loc (b : B) (path : List PKey) (e : Op) :
    onesided b path (some [e]) (some []) = .ok (b ++ [mkItem path .loc e]) := by
  simp [onesided, nonEmpty, addDecision, mkItem, itemDiffs, Side.action]

theorem onesided_item_rem (b : B) (path : List PKey) (e : Op) :
    onesided b path (some []) (some [e]) = .ok (b ++ [mkItem path .rem e]) := by
  simp [onesided, nonEmpty, addDecision, mkItem, itemDiffs, Side.action]

theorem mergeChunk_empty (E : Env) (rec : Rec) (inStr : Bool) (base : List J) (path : List PKey) (ls is : Option String)
    (b : B) (j k : Nat) : mergeChunk E rec inStr base path ls is b ⟨j, k, [], []⟩ = .ok b := by
  simp only [mergeChunk, chunkTypename, List.filter_nil]
  unfold chunkSwitch
  have : (("" ++ "" ++ "/" ++ "" ++ "" : String) == "/") = true := by decide
  simp [this, pure, Except.pure]

theorem mergeChunk_loc (E : Env) (rec : Rec) (inStr : Bool) (base : List J) (path : List PKey) (ls is : Option String)
    (b : B) (j k i : Nat) (dd : List Op) :
    mergeChunk E rec inStr base path ls is b ⟨j, k, [.patchI i dd], []⟩ = .ok (b ++ [mkItem path .loc (.patchI i dd)]) := by
  simp only [mergeChunk, chunkTypename]
  unfold chunkSwitch
  have : (("" ++ ("P" ++ "") ++ "/" ++ "" ++ "" : String) == "/") = false := by decide
  simp only [this, Bool.false_eq_true, if_false, List.isEmpty_nil, Bool.not_true, Bool.and_false, Bool.not_false, if_true,
    List.isEmpty_cons]
  exact onesided_item_loc b path _

theorem mergeChunk_rem (E : Env) (rec : Rec) (inStr : Bool) (base : List J) (path : List PKey) (ls is : Option String)
    (b : B) (j k i : Nat) (dd : List Op) :
    mergeChunk E rec inStr base path ls is b ⟨j, k, [], [.patchI i dd]⟩ = .ok (b ++ [mkItem path .rem (.patchI i dd)]) := by
  simp only [mergeChunk, chunkTypename]
  unfold chunkSwitch
  have : (("" ++ "" ++ "/" ++ "" ++ ("P" ++ "") : String) == "/") = false := by decide
  simp only [this, Bool.false_eq_true, if_false, List.isEmpty_nil, Bool.not_true, Bool.false_and, Bool.not_false, if_true,
    List.isEmpty_cons, Bool.and_false]
  exact onesided_item_rem b path _

/-- the entry with index `j` at the front of an ascending diff, if any -/
def takeAt (j : Nat) : List Op → Option Op × List Op
  | [] => (none, [])
  | e :: rest => if e.idx == j then (some e, rest) else (none, e :: rest)

theorem spanKey_asc (j lo : Nat) : ∀ (r : List Op), AscPatch lo r →
    spanKey j r = ((takeAt j r).1.toList, (takeAt j r).2)
  | [], _ => rfl
  | .patchI i dd :: rest, ha => by
      simp only [spanKey, Op.key, takeAt, Op.idx]
      by_cases hi : i = j
      · subst hi
        have hrest : spanKey i rest = ([], rest) := by
          cases rest with
          | nil => rfl
          | cons e2 r2 =>
            obtain ⟨h1, j2, d2, rfl⟩ := AscPatch.idx_ge ha.2 e2 List.mem_cons_self
            simp only [Op.idx] at h1
            have : (Key.i j2 == Key.i i) = false := by simp; omega
            simp [spanKey, Op.key, this]
        simp [hrest]
      · have h1 : (Key.i i == Key.i j) = false := by simpa using hi
        have h2 : (i == j) = false := by simpa using hi
        simp [h1, h2]
  | .add _ _ :: _, ha => ha.elim
  | .remove _ :: _, ha => ha.elim
  | .replace _ _ :: _, ha => ha.elim
  | .patchK _ _ :: _, ha => ha.elim
  | .addrange _ _ :: _, ha => ha.elim
  | .addchars _ _ :: _, ha => ha.elim
  | .removerange _ _ :: _, ha => ha.elim
  | .invalid _ :: _, ha => ha.elim

/-- the decisions of `_merge_lists`, boundary by boundary -/
def walk (path : List PKey) : List Nat → List Op → List Op → List MD
  | [], _, _ => []
  | j :: bs, r0, r1 =>
      (match (takeAt j r0).1, (takeAt j r1).1 with
       | some e, none => [mkItem path .loc e]
       | none, some e => [mkItem path .rem e]
       | _, _ => []) ++ walk path bs (takeAt j r0).2 (takeAt j r1).2

theorem takeAt_asc (j lo : Nat) (r : List Op) (ha : AscPatch lo r) (hj : ∀ e ∈ r, j ≤ e.idx) :
    AscPatch (j + 1) (takeAt j r).2 ∧ (∀ e ∈ (takeAt j r).2, e ∈ r ∧ e.idx ≠ j) ∧
    (∀ e, (takeAt j r).1 = some e → e ∈ r ∧ e.idx = j ∧ ∃ dd, e = .patchI j dd) := by
  cases r with
  | nil => exact ⟨trivial, (fun _ h => nomatch h), (fun _ h => nomatch h)⟩
  | cons e rest =>
    obtain ⟨h1, i, dd, rfl⟩ := AscPatch.idx_ge ha e List.mem_cons_self
    have hidx : (Op.patchI i dd).idx = i := rfl
    rw [hidx] at h1
    have hji := hj _ List.mem_cons_self
    rw [hidx] at hji
    by_cases hi : i = j
    · subst hi
      have ht : takeAt i (Op.patchI i dd :: rest) = (some (Op.patchI i dd), rest) := by simp [takeAt, hidx]
      rw [ht]
      refine ⟨ha.2, ?_, ?_⟩
      · intro e he
        have := (AscPatch.idx_ge ha.2 e he).1
        exact ⟨List.mem_cons_of_mem _ he, by omega⟩
      · intro e he; cases he; exact ⟨List.mem_cons_self, rfl, dd, rfl⟩
    · have ht : takeAt j (Op.patchI i dd :: rest) = (none, Op.patchI i dd :: rest) := by simp [takeAt, hidx, hi]
      rw [ht]
      refine ⟨⟨by omega, ha.2⟩, ?_, (fun _ h => nomatch h)⟩
      intro e he
      rcases List.mem_cons.mp he with rfl | he'
      · exact ⟨List.mem_cons_self, by rw [hidx]; exact hi⟩
      · have := (AscPatch.idx_ge ha.2 e he').1
        exact ⟨he, by omega⟩

theorem fold_chunks (E : Env) (rec : Rec) (inStr : Bool) (base : List J) (path : List PKey) (ls is : Option String) :
    ∀ (bs : List Nat) (r0 r1 : List Op) (b : B) (lo : Nat), StrictAsc bs → AscPatch lo r0 → AscPatch lo r1 →
    (∀ e ∈ r0, e.idx ∈ bs) → (∀ e ∈ r1, e.idx ∈ bs) → (∀ e0 ∈ r0, ∀ e1 ∈ r1, e0.idx ≠ e1.idx) →
    (makeChunks bs r0 r1).foldlM (mergeChunk E rec inStr base path ls is) b = .ok (b ++ walk path bs r0 r1)
  | [], r0, r1, b, _, _, _, _, _, _, _ => by simp [makeChunks, walk, pure, Except.pure]
  | j :: bs, r0, r1, b, lo, hbs, ha0, ha1, hm0, hm1, hdis => by
      have hge : ∀ (r : List Op), (∀ e ∈ r, e.idx ∈ j :: bs) → ∀ e ∈ r, j ≤ e.idx := by
        intro r hm e he
        rcases List.mem_cons.mp (hm e he) with h | h
        · omega
        · exact Nat.le_of_lt (StrictAsc.head_lt hbs _ h)
      obtain ⟨t0a, t0b, t0c⟩ := takeAt_asc j lo r0 ha0 (hge r0 hm0)
      obtain ⟨t1a, t1b, t1c⟩ := takeAt_asc j lo r1 ha1 (hge r1 hm1)
      have hm0' : ∀ e ∈ (takeAt j r0).2, e.idx ∈ bs := by
        intro e he
        obtain ⟨h1, h2⟩ := t0b e he
        rcases List.mem_cons.mp (hm0 e h1) with h | h
        · exact absurd h h2
        · exact h
      have hm1' : ∀ e ∈ (takeAt j r1).2, e.idx ∈ bs := by
        intro e he
        obtain ⟨h1, h2⟩ := t1b e he
        rcases List.mem_cons.mp (hm1 e h1) with h | h
        · exact absurd h h2
        · exact h
      have hdis' : ∀ e0 ∈ (takeAt j r0).2, ∀ e1 ∈ (takeAt j r1).2, e0.idx ≠ e1.idx :=
        fun e0 h0 e1 h1 => hdis e0 (t0b e0 h0).1 e1 (t1b e1 h1).1
      have ih := fun b' => fold_chunks E rec inStr base path ls is bs (takeAt j r0).2 (takeAt j r1).2 b' (j + 1)
        hbs.tail t0a t1a hm0' hm1' hdis'
      rw [makeChunks.eq_def]
      simp only [spanKey_asc j lo r0 ha0, spanKey_asc j lo r1 ha1, walk]
      cases h0 : (takeAt j r0).1 with
      | some e0 =>
        obtain ⟨m0, i0, dd0, rfl⟩ := t0c e0 h0
        cases h1 : (takeAt j r1).1 with
        | some e1 =>
          obtain ⟨m1, i1, _⟩ := t1c e1 h1
          exact absurd (by rw [i0, i1]) (hdis _ m0 e1 m1)
        | none =>
          simp only [Option.toList, List.isEmpty_cons, Bool.not_false, Bool.or_true, Bool.true_or, if_true, List.foldlM_cons,
            mergeChunk_loc, bind, Except.bind, ih]
          simp [List.append_assoc]
      | none =>
        cases h1 : (takeAt j r1).1 with
        | some e1 =>
          obtain ⟨m1, i1, dd1, rfl⟩ := t1c e1 h1
          simp only [Option.toList, List.isEmpty_cons, List.isEmpty_nil, Bool.not_false, Bool.not_true, Bool.or_true,
            Bool.or_false, if_true, List.foldlM_cons, mergeChunk_rem, bind, Except.bind, ih]
          simp [List.append_assoc]
        | none =>
          simp only [Option.toList, List.isEmpty_nil, Bool.not_true, Bool.or_false, List.nil_append]
          split
          all_goals
            split
            · simp only [List.foldlM_cons, mergeChunk_empty, bind, Except.bind, ih]
            · exact ih b


/-- boundaries of two patch-only diffs -/
def boundsOf (n : Nat) (d0 d1 : List Op) : List Nat := sectionBoundaries (sectionBoundaries (insertNat n [0]) d0) d1

theorem makeMergeChunks_patches (n : Nat) (d0 d1 : List Op) (chunks : List Chunk) (h0 : AscPatch 0 d0) (h1 : AscPatch 0 d1)
    (h : makeMergeChunks n d0 d1 = .ok chunks) : chunks = makeChunks (boundsOf n d0 d1) d0 d1 := by
  unfold makeMergeChunks at h
  have s0 := splitOnBoundaries_patches (boundsOf n d0 d1) d0 [] 0 h0 (fun _ h => nomatch h)
  have s1 := splitOnBoundaries_patches (boundsOf n d0 d1) d1 [] 0 h1 (fun _ h => nomatch h)
  simp only [List.nil_append] at s0 s1
  unfold boundsOf at s0 s1
  simp only [s0, s1, bind, Except.bind, pure, Except.pure] at h
  unfold boundsOf
  split at h
  · split at h
    · split at h
      · cases h
      · split at h
        · cases h
        · cases h; rfl
    · cases h
  · cases h; rfl

theorem walk_noconf (path : List PKey) : ∀ (bs : List Nat) (r0 r1 : List Op), hasConflicted (walk path bs r0 r1) = false
  | [], _, _ => rfl
  | j :: bs, r0, r1 => by
      have ih := walk_noconf path bs (takeAt j r0).2 (takeAt j r1).2
      unfold hasConflicted at ih ⊢
      simp only [walk, List.any_append, ih, Bool.or_false]
      cases (takeAt j r0).1 <;> cases (takeAt j r1).1 <;> simp [mkItem]

/-- **the decisions of `_merge_lists`** when both sides only patch items and no item is patched by both -/
theorem mergeLists_patches (E : Env) (rec : Rec) (inStr : Bool) (xs : List J) (d0 d1 : List Op) (path : List PKey) (b : B)
    (h0 : AscPatch 0 d0) (h1 : AscPatch 0 d1) (hdis : ∀ e0 ∈ d0, ∀ e1 ∈ d1, e0.idx ≠ e1.idx)
    (h : mergeLists E rec inStr xs d0 d1 path = .ok b) : b = walk path (boundsOf xs.length d0 d1) d0 d1 := by
  unfold mergeLists at h
  simp only [bind, Except.bind] at h
  cases hc : makeMergeChunks xs.length d0 d1 with
  | error e => simp [hc] at h
  | ok chunks =>
    simp only [hc] at h
    have hch := makeMergeChunks_patches xs.length d0 d1 chunks h0 h1 hc
    -- the boundaries
    have hb0 : StrictAsc (insertNat xs.length [0]) := (insertNat_asc xs.length [0] trivial).1
    obtain ⟨a1, a2, a3⟩ := sectionBoundaries_patches d0 (insertNat xs.length [0]) 0 h0 hb0
    obtain ⟨b1, b2, b3⟩ := sectionBoundaries_patches d1 _ 0 h1 a1
    have hf := fold_chunks E rec inStr xs path (E.S.get (starPath path)) (E.S.get (starPath path ++ "/*"))
      (boundsOf xs.length d0 d1) d0 d1 [] 0 b1 h0 h1 (fun e he => b2 _ (a3 e he)) b3 hdis
    rw [hch, hf] at h
    simp only [List.nil_append] at h
    rw [resolveList_noconf (walk_noconf path _ d0 d1)] at h
    cases h; rfl


/-! ### from the decisions to items of the list -/

/-- the decision `mkItem` builds for a patch entry: below the item, on the common path of its sub-diff -/
theorem mkItem_patch (path : List PKey) (s : Side) (j : Nat) (dd : List Op) :
    ∃ q' x, mkItem path s (.patchI j dd) = sideMD s (path ++ PKey.i j :: q') x ∧ pushPath q' x = dd := by
  obtain ⟨n, hn⟩ := pathFuel_succ
  obtain ⟨suffix, d', h1, h2⟩ := ensure_side s n (path ++ [PKey.i j]) dd
  refine ⟨suffix, d', ?_, h2⟩
  have hpop : popPath (itemDiffs s (.patchI j dd)) = some (PKey.i j, sideDiffs s dd) := by
    cases s <;> simp [itemDiffs, sideDiffs, popPath, popPathAux, patchParts]
  simp only [mkItem, hn, ensureCommonPath, hpop]
  rw [h1]
  cases s <;> simp [sideMD, sideDiffs, List.append_assoc]

/-- `patch_list` succeeded on an ascending patch-only diff: every entry found its item and patched it -/
theorem patchList_inv (xs : List J) : ∀ (d : List Op) (t : Nat) (R : List J), AscPatch t d → patchList xs d t = .ok R →
    ∃ es : List CellEdit, Asc t es ∧ d = es.map (fun e => Op.patchI e.j e.dd) ∧
      ∀ e ∈ es, xs[e.j]? = some e.v ∧ patch e.v e.dd = .ok e.pv
  | [], _, _, _, _ => ⟨[], trivial, rfl, fun _ h => nomatch h⟩
  | .patchI j dd :: rest, t, R, ha, h => by
      rw [patchList] at h
      cases hv : xs[j]? with
      | none => simp [hv] at h
      | some v =>
        simp only [hv, bind, Except.bind] at h
        cases hp : patch v dd with
        | error e => simp [hp] at h
        | ok pv =>
          simp only [hp] at h
          cases hr : patchList xs rest (max t (j + 1)) with
          | error e => simp [hr] at h
          | ok R' =>
            have hmax : max t (j + 1) = j + 1 := Nat.max_eq_right (by have := ha.1; omega)
            rw [hmax] at hr
            obtain ⟨es, e1, e2, e3⟩ := patchList_inv xs rest (j + 1) R' ha.2 hr
            refine ⟨⟨j, dd, v, pv⟩ :: es, ⟨ha.1, e1⟩, by simp [e2], ?_⟩
            intro e he
            rcases List.mem_cons.mp he with rfl | he
            · exact ⟨hv, hp⟩
            · exact e3 e he
  | .add _ _ :: _, _, _, ha, _ => ha.elim
  | .remove _ :: _, _, _, ha, _ => ha.elim
  | .replace _ _ :: _, _, _, ha, _ => ha.elim
  | .patchK _ _ :: _, _, _, ha, _ => ha.elim
  | .addrange _ _ :: _, _, _, ha, _ => ha.elim
  | .addchars _ _ :: _, _, _, ha, _ => ha.elim
  | .removerange _ _ :: _, _, _, ha, _ => ha.elim
  | .invalid _ :: _, _, _, ha, _ => ha.elim


theorem walk_strip (path : List PKey) : ∀ (bs : List Nat) (r0 r1 : List Op),
    (walk path bs r0 r1).map (fun d => ({ d with strategy := none } : MD)) = walk path bs r0 r1
  | [], _, _ => rfl
  | j :: bs, r0, r1 => by
      simp only [walk, List.map_append, walk_strip path bs]
      congr 1
      cases (takeAt j r0).1 <;> cases (takeAt j r1).1 <;> simp [mkItem]

/-- **the decisions of the whole merge** when the two sides patch items of the list under key `k` of the root object
    and nothing else, no item by both -/
theorem decideMerge_cells (E : Env) (base : List (String × J)) (k : String) (xs : List J) (dL dR : List Op) (ds : List MD)
    (hk : lookupKV k base = some (.arr xs)) (h0 : AscPatch 0 dL) (h1 : AscPatch 0 dR)
    (hdis : ∀ e0 ∈ dL, ∀ e1 ∈ dR, e0.idx ≠ e1.idx)
    (hneq : Op.pyEq (.patchK k dL) (.patchK k dR) = false)
    (h : decideMerge E (.obj base) [.patchK k dL] [.patchK k dR] = .ok ds) :
    ds = sortDesc (walk [PKey.s k] (boundsOf xs.length dL dR) dL dR) := by
  unfold decideMerge at h
  obtain ⟨m, hf⟩ : ∃ m, bigFuel = m + 1 + 1 := ⟨99998, rfl⟩
  rw [hf] at h
  simp only [mergeF, bind, Except.bind] at h
  unfold mergeDicts at h
  have hdb : ∀ d, dictBased [Op.patchK k d] = .ok [(k, Op.patchK k d)] := by
    intro d
    simp [dictBased, entryKey, Op.pkey, hasKey, lookupKV, insertKV, bind, Except.bind, pure, Except.pure]
  simp only [hdb, bind, Except.bind, List.map_cons, List.map_nil] at h
  have e1 : List.filter (fun x => !([k] : List String).contains x) [k] = [] := by simp
  have e2 : List.filter (fun x => ([k] : List String).contains x) [k] = [k] := by simp
  simp only [e1, e2, List.append_nil, sortStrs, List.foldl_nil, List.foldl_cons, insertStr, List.foldlM_nil, List.foldlM_cons,
    pure, Except.pure, lookupKV, BEq.rfl, if_true] at h
  unfold dictBoth at h
  have hct : (chunkTypename [Op.patchK k dL] != chunkTypename [Op.patchK k dR]) = false := by simp [chunkTypename]
  simp only [isPD, Option.isSome_none, Bool.false_eq_true, if_false, isRemoveOp, Bool.or_self, hct, hneq, hk, opDiff, bind,
    Except.bind, pure, Except.pure, List.nil_append, mergeF] at h
  cases hm : mergeLists E (mergeF E m) false xs dL dR [PKey.s k] with
  | error e => simp [hm] at h
  | ok sub =>
    have hsub := mergeLists_patches E (mergeF E m) false xs dL dR [PKey.s k] sub h0 h1 hdis hm
    simp only [hm] at h
    have hnc : hasConflicted sub = false := by rw [hsub]; exact walk_noconf _ _ _ _
    rw [resolveDict_noconf hnc] at h
    simp only [resolveGeneric_noconf hnc, Except.ok.injEq] at h
    rw [← h]
    unfold validated
    rw [hsub, walk_strip]


/-! ### which entries the walk visits -/

/-- the walk, as (side, entry) pairs -/
def walkE : List Nat → List Op → List Op → List (Side × Op)
  | [], _, _ => []
  | j :: bs, r0, r1 =>
      (match (takeAt j r0).1, (takeAt j r1).1 with
       | some e, none => [(Side.loc, e)]
       | none, some e => [(Side.rem, e)]
       | _, _ => []) ++ walkE bs (takeAt j r0).2 (takeAt j r1).2

theorem walk_eq (path : List PKey) : ∀ (bs : List Nat) (r0 r1 : List Op),
    walk path bs r0 r1 = (walkE bs r0 r1).map (fun p => mkItem path p.1 p.2)
  | [], _, _ => rfl
  | j :: bs, r0, r1 => by
      simp only [walk, walkE, List.map_append, walk_eq path bs]
      congr 1
      cases (takeAt j r0).1 <;> cases (takeAt j r1).1 <;> rfl

theorem takeAt_cases (j : Nat) (r : List Op) :
    ((takeAt j r).1 = none ∧ (takeAt j r).2 = r) ∨ (∃ e rest, r = e :: rest ∧ e.idx = j ∧ (takeAt j r).1 = some e ∧ (takeAt j r).2 = rest) := by
  cases r with
  | nil => exact Or.inl ⟨rfl, rfl⟩
  | cons e rest =>
    by_cases h : e.idx = j
    · exact Or.inr ⟨e, rest, rfl, h, by simp [takeAt, h], by simp [takeAt, h]⟩
    · exact Or.inl ⟨by simp [takeAt, h], by simp [takeAt, h]⟩

/-- the walk visits every entry of both diffs once, local entries as local and remote entries as remote, in ascending
    order of the index -/
theorem walkE_spec : ∀ (bs : List Nat) (r0 r1 : List Op) (lo : Nat), StrictAsc bs → AscPatch lo r0 → AscPatch lo r1 →
    (∀ e ∈ r0, e.idx ∈ bs) → (∀ e ∈ r1, e.idx ∈ bs) → (∀ e0 ∈ r0, ∀ e1 ∈ r1, e0.idx ≠ e1.idx) →
    (∀ p ∈ walkE bs r0 r1, (p.1 = .loc ∧ p.2 ∈ r0) ∨ (p.1 = .rem ∧ p.2 ∈ r1)) ∧
    (∀ e ∈ r0, (Side.loc, e) ∈ walkE bs r0 r1) ∧ (∀ e ∈ r1, (Side.rem, e) ∈ walkE bs r0 r1) ∧
    (∀ p ∈ walkE bs r0 r1, p.2.idx ∈ bs) ∧ ((walkE bs r0 r1).map (fun p => p.2.idx)).Nodup
  | [], r0, r1, _, _, _, _, h0, h1, _ => by
      refine ⟨(fun _ h => nomatch h), ?_, ?_, (fun _ h => nomatch h), List.nodup_nil⟩
      · intro e he; exact absurd (h0 e he) (by simp)
      · intro e he; exact absurd (h1 e he) (by simp)
  | j :: bs, r0, r1, lo, hbs, ha0, ha1, hm0, hm1, hdis => by
      have hge : ∀ (r : List Op), (∀ e ∈ r, e.idx ∈ j :: bs) → ∀ e ∈ r, j ≤ e.idx := by
        intro r hm e he
        rcases List.mem_cons.mp (hm e he) with h | h
        · omega
        · exact Nat.le_of_lt (StrictAsc.head_lt hbs _ h)
      obtain ⟨t0a, t0b, t0c⟩ := takeAt_asc j lo r0 ha0 (hge r0 hm0)
      obtain ⟨t1a, t1b, t1c⟩ := takeAt_asc j lo r1 ha1 (hge r1 hm1)
      have hm0' : ∀ e ∈ (takeAt j r0).2, e.idx ∈ bs := by
        intro e he
        obtain ⟨h1, h2⟩ := t0b e he
        rcases List.mem_cons.mp (hm0 e h1) with h | h
        · exact absurd h h2
        · exact h
      have hm1' : ∀ e ∈ (takeAt j r1).2, e.idx ∈ bs := by
        intro e he
        obtain ⟨h1, h2⟩ := t1b e he
        rcases List.mem_cons.mp (hm1 e h1) with h | h
        · exact absurd h h2
        · exact h
      have hdis' : ∀ e0 ∈ (takeAt j r0).2, ∀ e1 ∈ (takeAt j r1).2, e0.idx ≠ e1.idx :=
        fun e0 h0 e1 h1 => hdis e0 (t0b e0 h0).1 e1 (t1b e1 h1).1
      obtain ⟨i1, i2, i3, i4, i5⟩ := walkE_spec bs (takeAt j r0).2 (takeAt j r1).2 (j + 1) hbs.tail t0a t1a hm0' hm1' hdis'
      have hjbs : j ∉ bs := fun h => Nat.lt_irrefl j (StrictAsc.head_lt hbs j h)
      -- what the head contributes
      rcases takeAt_cases j r0 with ⟨n0, k0⟩ | ⟨e0, rest0, hr0, hi0, s0, k0⟩
      · rcases takeAt_cases j r1 with ⟨n1, k1⟩ | ⟨e1, rest1, hr1, hi1, s1, k1⟩
        · simp only [walkE, n0, n1, k0, k1, List.nil_append] at *
          exact ⟨i1, i2, i3, fun p hp => List.mem_cons_of_mem _ (i4 p hp), i5⟩
        · simp only [walkE, n0, s1, k0, k1, List.singleton_append] at *
          subst hr1
          refine ⟨?_, ?_, ?_, ?_, ?_⟩
          · intro p hp
            rcases List.mem_cons.mp hp with rfl | hp
            · exact Or.inr ⟨rfl, List.mem_cons_self⟩
            · rcases i1 p hp with h | h
              · exact Or.inl h
              · exact Or.inr ⟨h.1, List.mem_cons_of_mem _ h.2⟩
          · intro e he; exact List.mem_cons_of_mem _ (i2 e he)
          · intro e he
            rcases List.mem_cons.mp he with rfl | he
            · exact List.mem_cons_self
            · exact List.mem_cons_of_mem _ (i3 e he)
          · intro p hp
            rcases List.mem_cons.mp hp with rfl | hp
            · simp [hi1]
            · exact List.mem_cons_of_mem _ (i4 p hp)
          · simp only [List.map_cons, List.nodup_cons]
            refine ⟨?_, i5⟩
            intro hm
            obtain ⟨p, hp, hpe⟩ := List.mem_map.mp hm
            have := i4 p hp
            rw [hpe, hi1] at this
            exact hjbs this
      · have n1 : (takeAt j r1).1 = none ∧ (takeAt j r1).2 = r1 := by
          rcases takeAt_cases j r1 with h | ⟨e1, rest1, hr1, hi1, s1, k1⟩
          · exact h
          · exfalso
            exact hdis e0 (by rw [hr0]; exact List.mem_cons_self) e1 (by rw [hr1]; exact List.mem_cons_self) (by rw [hi0, hi1])
        simp only [walkE, s0, n1.1, k0, n1.2, List.singleton_append] at *
        subst hr0
        refine ⟨?_, ?_, ?_, ?_, ?_⟩
        · intro p hp
          rcases List.mem_cons.mp hp with rfl | hp
          · exact Or.inl ⟨rfl, List.mem_cons_self⟩
          · rcases i1 p hp with h | h
            · exact Or.inl ⟨h.1, List.mem_cons_of_mem _ h.2⟩
            · exact Or.inr h
        · intro e he
          rcases List.mem_cons.mp he with rfl | he
          · exact List.mem_cons_self
          · exact List.mem_cons_of_mem _ (i2 e he)
        · intro e he; exact List.mem_cons_of_mem _ (i3 e he)
        · intro p hp
          rcases List.mem_cons.mp hp with rfl | hp
          · simp [hi0]
          · exact List.mem_cons_of_mem _ (i4 p hp)
        · simp only [List.map_cons, List.nodup_cons]
          refine ⟨?_, i5⟩
          intro hm
          obtain ⟨p, hp, hpe⟩ := List.mem_map.mp hm
          have := i4 p hp
          rw [hpe, hi0] at this
          exact hjbs this


/-! ### the document-level theorem for items of a list -/

/-- the decision one level down: its path without the root key -/
def arrDec (d : MD) : Decision := { d.toDecision with path := d.path.drop 1 }

/-- the item a decision below `<key>/<index>` stands for -/
def itemOfDec (xs : List J) (d : MD) : ArrItem :=
  match d.path with
  | _ :: .i j :: q' =>
      let v := (xs[j]?).getD .null
      ⟨j, q', d.sideDiff, v, (match patch v (pushPath q' d.sideDiff) with
        | .ok pv => pv
        | .error _ => .null), arrDec d⟩
  | _ => ⟨0, [], [], .null, .null, arrDec d⟩

theorem patch_obj_replace (m : List (String × J)) (hm : SK m) (k : String) (v : J) :
    patch (.obj m) [.replace k v] = .ok (.obj (insertKV k v m)) := by
  rw [patch]
  simp only [bind, Except.bind]
  rw [patchDict]
  simp only [Op.isMapOp, Bool.not_true, Bool.false_eq_true, if_false, Op.skey, hasKey, lookupKV, Option.isSome_none,
    List.contains_nil]
  rw [patchDict]
  simp only [List.reverse_cons, List.reverse_nil, List.nil_append]
  rw [sortKV_cons_filter k v m hm]

theorem find_of_nodup (cells : List ArrItem) (hnd : (cells.map (·.j)).Nodup) (it : ArrItem) (hit : it ∈ cells) :
    cells.find? (fun c => c.j == it.j) = some it := by
  induction cells with
  | nil => cases hit
  | cons c rest ih =>
    simp only [List.map_cons, List.nodup_cons] at hnd
    simp only [List.find?_cons]
    rcases List.mem_cons.mp hit with rfl | h
    · simp
    · have hne : c.j ≠ it.j := fun heq => hnd.1 (by rw [heq]; exact List.mem_map_of_mem h)
      have : (c.j == it.j) = false := by simpa using hne
      simp only [this]
      exact ih hnd.2 h

/-- what one visited entry gives: its decision is the lifted decision of a good item -/
theorem item_of_visit (k : String) (xs : List J) (s : Side) (j : Nat) (dd : List Op) (v pv : J)
    (hv : xs[j]? = some v) (cv : v.canonical = true) (hp : patch v dd = .ok pv) :
    let d := mkItem [PKey.s k] s (.patchI j dd)
    (itemOfDec xs d).ok xs ∧ (itemOfDec xs d).j = j ∧ (itemOfDec xs d).pv = pv ∧
      liftDec k (itemOfDec xs d).d = d.toDecision ∧ (itemOfDec xs d).d.keyBased = false ∧ d.conflict = false := by
  intro d
  obtain ⟨q', x, hmk, hpush⟩ := mkItem_patch [PKey.s k] s j dd
  have hd : d = sideMD s (PKey.s k :: PKey.i j :: q') x := by simpa using hmk
  have hpath : d.path = PKey.s k :: PKey.i j :: q' := by rw [hd]; rfl
  have hsd : d.sideDiff = x := by rw [hd]; exact sideMD_sideDiff s _ x
  have hio : itemOfDec xs d = ⟨j, q', x, v, pv, arrDec d⟩ := by
    simp only [itemOfDec, hpath, hsd, hv, Option.getD_some, hpush, hp]
  rw [hio]
  have harr : arrDec d = (sideMD s (PKey.i j :: q') x).toDecision := by
    rw [hd]; cases s <;> rfl
  refine ⟨⟨hv, cv, by rw [hpush]; exact hp, ?_⟩, rfl, rfl, ?_, ?_, ?_⟩
  · show Res (arrDec d) (PKey.i j :: q') x
    rw [harr]; exact sideMD_res s _ x
  · show liftDec k (arrDec d) = d.toDecision
    rw [harr, hd]; cases s <;> rfl
  · show (arrDec d).keyBased = false
    rw [harr]; cases s <;> rfl
  · rw [hd]; cases s <;> rfl


theorem lookupEdit_mem {lo : Nat} : ∀ {es : List CellEdit}, Asc lo es → ∀ e ∈ es, lookupEdit es e.j = some e.pv
  | [], _, _, he => nomatch he
  | c :: rest, h, e, he => by
      unfold lookupEdit
      rcases List.mem_cons.mp he with rfl | he'
      · simp [List.find?_cons]
      · have hlt : c.j < e.j := by
          have : ∀ {lo' : Nat} {l : List CellEdit}, Asc lo' l → ∀ x ∈ l, lo' ≤ x.j := by
            intro lo' l
            induction l generalizing lo' with
            | nil => intro _ x hx; cases hx
            | cons y ys ih =>
              intro hl x hx
              rcases List.mem_cons.mp hx with rfl | hx
              · exact hl.1
              · have := ih hl.2 x hx; have := hl.1; omega
          have := this h.2 e he'
          omega
        have hne : (c.j == e.j) = false := by simp; omega
        simp only [List.find?_cons, hne]
        exact lookupEdit_mem h.2 e he'

theorem lookupEdit_none (es : List CellEdit) (i : Nat) (h : ∀ e ∈ es, e.j ≠ i) : lookupEdit es i = none := by
  unfold lookupEdit
  rw [List.find?_eq_none.mpr (fun e he => by simpa using h e he)]
  rfl

/-- **C06 for the items of a list, document level**: the root object holds a list under key `k`; the local side patches
    some of its items, the remote side others (no insertions or removals, no item patched by both). Then the merge
    reports no conflict and `apply_decisions` gives base with the local patches, then the remote patches applied —
    every strategy table, every oracle. -/
theorem apply_cells_only (E : Env) (base : List (String × J)) (k : String) (xs : List J) (dL dR : List Op) (ds : List MD)
    (L X : J) (hc : (J.obj base).canonical = true) (hk : lookupKV k base = some (.arr xs))
    (h0 : AscPatch 0 dL) (h1 : AscPatch 0 dR) (hdis : ∀ e0 ∈ dL, ∀ e1 ∈ dR, e0.idx ≠ e1.idx)
    (hne : dL ≠ [])
    (hneq : Op.pyEq (.patchK k dL) (.patchK k dR) = false)
    (hL : patch (.obj base) [.patchK k dL] = .ok L) (hX : patch L [.patchK k dR] = .ok X)
    (h : decideMerge E (.obj base) [.patchK k dL] [.patchK k dR] = .ok ds) :
    applyDecisions (.obj base) (ds.map MD.toDecision) = .ok X ∧ ∀ d ∈ ds, d.conflict = false := by
  have hcc := hc
  simp only [J.canonical, Bool.and_eq_true] at hcc
  have hb : SK base := keysSorted_sk base hcc.1
  have cxs : ∀ v ∈ xs, v.canonical = true := by
    have := canonicalKvs_mem base hcc.2 _ (lookupKV_mem k _ base hk)
    simp only [J.canonical] at this
    exact canonicalList_mem xs this
  -- the local result
  obtain ⟨v1, pv1, hv1, hp1⟩ := patch_obj_patchK_inv base k dL L hL
  rw [hk] at hv1; cases hv1
  have hLeq : L = .obj (insertKV k pv1 base) := by
    have := patch_obj_patchK base hb k dL (.arr xs) pv1 hk hp1
    rw [hL] at this; exact (Except.ok.inj this)
  rw [patch] at hp1
  simp only [bind, Except.bind] at hp1
  cases hRL : patchList xs dL 0 with
  | error e => simp [hRL] at hp1
  | ok RL =>
    simp only [hRL, Except.ok.injEq] at hp1
    subst hp1
    obtain ⟨EL, aL, dLeq, fL⟩ := patchList_inv xs dL 0 RL h0 hRL
    obtain ⟨RL', hRL', gL⟩ := patchList_edits xs EL 0 aL fL
    rw [← dLeq, hRL] at hRL'
    cases hRL'
    -- the remote patch on top of it
    subst hLeq
    have hsL : SK (insertKV k (.arr RL) base) := insertKV_sorted _ _ _ hb
    have hkL : lookupKV k (insertKV k (.arr RL) base) = some (.arr RL) := by rw [lookupKV_insertKV]; simp
    obtain ⟨v2, pv2, hv2, hp2⟩ := patch_obj_patchK_inv _ k dR X hX
    rw [hkL] at hv2; cases hv2
    have hXeq : X = .obj (insertKV k pv2 base) := by
      have := patch_obj_patchK _ hsL k dR (.arr RL) pv2 hkL hp2
      rw [hX, insertKV_twice k (.arr RL) pv2 base hb] at this; exact (Except.ok.inj this)
    rw [patch] at hp2
    simp only [bind, Except.bind] at hp2
    cases hRX : patchList RL dR 0 with
    | error e => simp [hRX] at hp2
    | ok RX =>
      simp only [hRX, Except.ok.injEq] at hp2
      subst hp2
      obtain ⟨ER, aR, dReq, fR⟩ := patchList_inv RL dR 0 RX h1 hRX
      obtain ⟨RX', hRX', gR⟩ := patchList_edits RL ER 0 aR fR
      rw [← dReq, hRX] at hRX'
      cases hRX'
      simp only [Nat.zero_add] at gL gR
      -- the indices of the two sides differ
      have hdisE : ∀ eL ∈ EL, ∀ eR ∈ ER, eL.j ≠ eR.j := by
        intro eL hL' eR hR'
        have m0 : Op.patchI eL.j eL.dd ∈ dL := by rw [dLeq]; exact List.mem_map_of_mem (f := fun e => Op.patchI e.j e.dd) hL'
        have m1 : Op.patchI eR.j eR.dd ∈ dR := by rw [dReq]; exact List.mem_map_of_mem (f := fun e => Op.patchI e.j e.dd) hR'
        exact hdis _ m0 _ m1
      -- remote edits see the base items
      have fR' : ∀ e ∈ ER, xs[e.j]? = some e.v ∧ patch e.v e.dd = .ok e.pv := by
        intro e he
        obtain ⟨f1, f2⟩ := fR e he
        rw [gL e.j, lookupEdit_none EL e.j (fun eL hL' => hdisE eL hL' e he)] at f1
        refine ⟨?_, f2⟩
        cases hx : xs[e.j]? with
        | none => simp [hx] at f1
        | some x => simpa [hx] using f1
      -- the decisions
      have hds := decideMerge_cells E base k xs dL dR ds hk h0 h1 hdis hneq h
      have hb0 : StrictAsc (insertNat xs.length [0]) := (insertNat_asc xs.length [0] trivial).1
      obtain ⟨a1, a2, a3⟩ := sectionBoundaries_patches dL (insertNat xs.length [0]) 0 h0 hb0
      obtain ⟨b1, b2, b3⟩ := sectionBoundaries_patches dR _ 0 h1 a1
      obtain ⟨w1, w2, w3, _, w5⟩ := walkE_spec (boundsOf xs.length dL dR) dL dR 0 b1 h0 h1 (fun e he => b2 _ (a3 e he)) b3 hdis
      generalize hWE : walkE (boundsOf xs.length dL dR) dL dR = WE at w1 w2 w3 w5
      have hW : walk [PKey.s k] (boundsOf xs.length dL dR) dL dR = WE.map (fun p => mkItem [PKey.s k] p.1 p.2) := by
        rw [walk_eq, hWE]
      rw [hW] at hds
      -- every visited entry with its edit
      have visit : ∀ p ∈ WE, ∃ j dd v pv, p.2 = .patchI j dd ∧ xs[j]? = some v ∧ v.canonical = true ∧ patch v dd = .ok pv ∧
          ((p.1 = .loc ∧ ∃ e ∈ EL, e.j = j ∧ e.pv = pv) ∨ (p.1 = .rem ∧ ∃ e ∈ ER, e.j = j ∧ e.pv = pv)) := by
        intro p hp
        rcases w1 p hp with ⟨hs, hm⟩ | ⟨hs, hm⟩
        · rw [dLeq] at hm
          obtain ⟨e, he, hpe⟩ := List.mem_map.mp hm
          obtain ⟨f1, f2⟩ := fL e he
          exact ⟨e.j, e.dd, e.v, e.pv, hpe.symm, f1, cxs _ (List.mem_of_getElem? f1), f2, Or.inl ⟨hs, e, he, rfl, rfl⟩⟩
        · rw [dReq] at hm
          obtain ⟨e, he, hpe⟩ := List.mem_map.mp hm
          obtain ⟨f1, f2⟩ := fR' e he
          exact ⟨e.j, e.dd, e.v, e.pv, hpe.symm, f1, cxs _ (List.mem_of_getElem? f1), f2, Or.inr ⟨hs, e, he, rfl, rfl⟩⟩
      -- the sorted decisions as items
      generalize hWd : WE.map (fun p => mkItem [PKey.s k] p.1 p.2) = W at hds
      subst hds
      have hperm := sortDesc_perm W
      have hmemW : ∀ d ∈ sortDesc W, ∃ p ∈ WE, d = mkItem [PKey.s k] p.1 p.2 := by
        intro d hd
        have := hperm.subset hd
        rw [← hWd] at this
        obtain ⟨p, hp, rfl⟩ := List.mem_map.mp this
        exact ⟨p, hp, rfl⟩
      let cells := (sortDesc W).map (itemOfDec xs)
      have hcellFacts : ∀ d ∈ sortDesc W, (itemOfDec xs d).ok xs ∧ liftDec k (itemOfDec xs d).d = d.toDecision ∧
          (itemOfDec xs d).d.keyBased = false ∧ d.conflict = false := by
        intro d hd
        obtain ⟨p, hp, rfl⟩ := hmemW d hd
        obtain ⟨j, dd, v, pv, hpe, f1, f2, f3, _⟩ := visit p hp
        rw [hpe]
        obtain ⟨i1, _, _, i4, i5, i6⟩ := item_of_visit k xs p.1 j dd v pv f1 f2 f3
        exact ⟨i1, i4, i5, i6⟩
      refine ⟨?_, fun d hd => (hcellFacts d hd).2.2.2⟩
      have hdec : (sortDesc W).map MD.toDecision = cells.map (fun it => liftDec k it.d) := by
        simp only [cells, List.map_map]
        apply List.map_congr_left
        intro d hd
        exact ((hcellFacts d hd).2.1).symm
      -- indices of the items
      have hjs : cells.map (·.j) = (sortDesc W).map (fun d => (itemOfDec xs d).j) := by simp [cells, List.map_map]
      have hjW : ∀ p ∈ WE, (itemOfDec xs (mkItem [PKey.s k] p.1 p.2)).j = p.2.idx := by
        intro p hp
        obtain ⟨j, dd, v, pv, hpe, f1, f2, f3, _⟩ := visit p hp
        rw [hpe]
        exact (item_of_visit k xs p.1 j dd v pv f1 f2 f3).2.1
      have hndC : (cells.map (·.j)).Nodup := by
        rw [hjs]
        have : ((sortDesc W).map (fun d => (itemOfDec xs d).j)).Perm (W.map (fun d => (itemOfDec xs d).j)) := hperm.map _
        rw [this.nodup_iff, ← hWd, List.map_map]
        have : WE.map ((fun d => (itemOfDec xs d).j) ∘ fun p => mkItem [PKey.s k] p.1 p.2) = WE.map (fun p => p.2.idx) :=
          List.map_congr_left (fun p hp => hjW p hp)
        rw [this]; exact w5
      have hneC : cells ≠ [] := by
        intro hnil
        have : (sortDesc W).length = 0 := by simpa [cells] using congrArg List.length hnil
        have hWl : W.length = 0 := by rw [← hperm.length_eq]; exact this
        cases dL with
        | nil => exact hne rfl
        | cons e rest =>
          have := w2 e List.mem_cons_self
          rw [← hWd] at hWl
          simp at hWl
          rw [hWl] at this; cases this
      -- the core
      rw [hdec]
      have core := apply_block_core base hb [] [] k xs cells (.replace k (.arr RX)) [] [.replace k (.arr RX)]
        (fun _ h => nomatch h) (fun _ h => nomatch h) hk
        (fun it hit => by
          obtain ⟨d, hd, rfl⟩ := List.mem_map.mp hit
          exact (hcellFacts d hd).1)
        hndC hneC
        (fun it hit => by
          obtain ⟨d, hd, rfl⟩ := List.mem_map.mp hit
          exact (hcellFacts d hd).2.2.1)
        ?_ (fun _ h => nomatch h) (fun _ h => nomatch h) (fun _ h => nomatch h) (by simp) (by simp)
      · simp only [List.map_nil, List.nil_append, List.append_nil] at core
        rw [core, patch_obj_replace base hb k (.arr RX), hXeq]
      · -- the list the block produces is the list `patch_list` produces
        intro R hR
        refine ⟨rfl, rfl, ?_⟩
        show some (some (J.arr RX)) = some (some (J.arr R))
        congr 3
        apply List.ext_getElem?
        intro i
        rw [hR i, gR i, gL i]
        -- which side, if any, edits item i
        cases hx : xs[i]? with
        | none => simp
        | some x =>
          simp only [Option.map_some]
          congr 1
          -- an item for every edit
          have itemFor : ∀ (s : Side) (e : CellEdit), (s, Op.patchI e.j e.dd) ∈ WE →
              (∃ e' ∈ (if s = .loc then EL else ER), e'.j = e.j ∧ e'.pv = e.pv ∧ e'.dd = e.dd) → True := fun _ _ _ _ => trivial
          by_cases hiL : ∃ e ∈ EL, e.j = i
          · obtain ⟨e, he, rfl⟩ := hiL
            have hwe : (Side.loc, Op.patchI e.j e.dd) ∈ WE := w2 _ (by rw [dLeq]; exact List.mem_map_of_mem (f := fun e => Op.patchI e.j e.dd) he)
            obtain ⟨f1, f2⟩ := fL e he
            obtain ⟨i1, i2, i3, _⟩ := item_of_visit k xs .loc e.j e.dd e.v e.pv f1 (cxs _ (List.mem_of_getElem? f1)) f2
            have hmemC : itemOfDec xs (mkItem [PKey.s k] .loc (.patchI e.j e.dd)) ∈ cells := by
              simp only [cells]
              apply List.mem_map_of_mem
              apply hperm.symm.subset
              rw [← hWd]
              exact List.mem_map.mpr ⟨(Side.loc, Op.patchI e.j e.dd), hwe, rfl⟩
            have hfind := find_of_nodup cells hndC _ hmemC
            rw [i2] at hfind
            rw [hfind, lookupEdit_mem aL e he, lookupEdit_none ER e.j (fun eR hR' => (hdisE e he eR hR').symm)]
            simp [i3]
          · have hLn : lookupEdit EL i = none := lookupEdit_none EL i (fun e he hei => hiL ⟨e, he, hei⟩)
            by_cases hiR : ∃ e ∈ ER, e.j = i
            · obtain ⟨e, he, rfl⟩ := hiR
              have hwe : (Side.rem, Op.patchI e.j e.dd) ∈ WE := w3 _ (by rw [dReq]; exact List.mem_map_of_mem (f := fun e => Op.patchI e.j e.dd) he)
              obtain ⟨f1, f2⟩ := fR' e he
              obtain ⟨i1, i2, i3, _⟩ := item_of_visit k xs .rem e.j e.dd e.v e.pv f1 (cxs _ (List.mem_of_getElem? f1)) f2
              have hmemC : itemOfDec xs (mkItem [PKey.s k] .rem (.patchI e.j e.dd)) ∈ cells := by
                simp only [cells]
                apply List.mem_map_of_mem
                apply hperm.symm.subset
                rw [← hWd]
                exact List.mem_map.mpr ⟨(Side.rem, Op.patchI e.j e.dd), hwe, rfl⟩
              have hfind := find_of_nodup cells hndC _ hmemC
              rw [i2] at hfind
              rw [hfind, hLn, lookupEdit_mem aR e he]
              simp [i3]
            · have hRn : lookupEdit ER i = none := lookupEdit_none ER i (fun e he hei => hiR ⟨e, he, hei⟩)
              have hnoC : cells.find? (fun it => it.j == i) = none := by
                rw [List.find?_eq_none]
                intro it hit hji
                obtain ⟨d, hd, rfl⟩ := List.mem_map.mp hit
                obtain ⟨p, hp, rfl⟩ := hmemW d hd
                obtain ⟨j, dd, v, pv, hpe, f1, f2, f3, hside⟩ := visit p hp
                have hj : (itemOfDec xs (mkItem [PKey.s k] p.1 p.2)).j = j := by
                  rw [hpe]; exact (item_of_visit k xs p.1 j dd v pv f1 f2 f3).2.1
                rw [hj] at hji
                have hji' : j = i := by simpa using hji
                rcases hside with ⟨_, e, he, hej, _⟩ | ⟨_, e, he, hej, _⟩
                · exact hiL ⟨e, he, by rw [hej, hji']⟩
                · exact hiR ⟨e, he, by rw [hej, hji']⟩
              rw [hnoC, hLn, hRn]
              simp


/-- the per-entry content of `wfList` for a patch entry -/
theorem wfList_entries (xs : List J) : ∀ (d : List Op) (lo : Nat) (added : Option Nat), wfList xs d lo added = true →
    ∀ j dd, Op.patchI j dd ∈ d → ∃ v, xs[j]? = some v ∧ v.isContainer = true ∧ wf v dd = true
  | [], _, _, _, _, _, hm => nomatch hm
  | e :: es, lo, added, h, j, dd, hm => by
      cases e with
      | addrange k vs =>
        rw [wfList] at h
        simp only [Bool.and_eq_true] at h
        rcases List.mem_cons.mp hm with hc | hm'
        · cases hc
        · exact wfList_entries xs es _ _ h.2 j dd hm'
      | removerange k m =>
        rw [wfList] at h
        simp only [Bool.and_eq_true] at h
        rcases List.mem_cons.mp hm with hc | hm'
        · cases hc
        · exact wfList_entries xs es _ _ h.2 j dd hm'
      | patchI k d2 =>
        rw [wfList] at h
        simp only [Bool.and_eq_true] at h
        rcases List.mem_cons.mp hm with hc | hm'
        · cases hc
          cases hx : xs[j]? with
          | none => simp [hx] at h
          | some v =>
            simp only [hx, Bool.and_eq_true] at h
            exact ⟨v, rfl, h.1.2.1, h.1.2.2⟩
        · exact wfList_entries xs es _ _ h.2 j dd hm'
      | add _ _ => unfold wfList at h; simp at h
      | remove _ => unfold wfList at h; simp at h
      | replace _ _ => unfold wfList at h; simp at h
      | patchK _ _ => unfold wfList at h; simp at h
      | addchars _ _ => unfold wfList at h; simp at h
      | invalid _ => unfold wfList at h; simp at h

/-- **C11 for the decisions of cell-wise merges**: every local / remote diff inside a decision is well-formed for the
    sub-document at the decision's path -/
theorem cells_decisions_wf (E : Env) (base : List (String × J)) (k : String) (xs : List J) (dL dR : List Op) (ds : List MD)
    (hk : lookupKV k base = some (.arr xs)) (h0 : AscPatch 0 dL) (h1 : AscPatch 0 dR)
    (hdis : ∀ e0 ∈ dL, ∀ e1 ∈ dR, e0.idx ≠ e1.idx) (hneq : Op.pyEq (.patchK k dL) (.patchK k dR) = false)
    (hwL : wfList xs dL 0 none = true) (hwR : wfList xs dR 0 none = true)
    (h : decideMerge E (.obj base) [.patchK k dL] [.patchK k dR] = .ok ds) :
    ∀ d ∈ ds, ∀ x, (d.localDiff = some x ∨ d.remoteDiff = some x) → wfAt (.obj base) d.path x = true := by
  have hds := decideMerge_cells E base k xs dL dR ds hk h0 h1 hdis hneq h
  have hb0 : StrictAsc (insertNat xs.length [0]) := (insertNat_asc xs.length [0] trivial).1
  obtain ⟨a1, a2, a3⟩ := sectionBoundaries_patches dL (insertNat xs.length [0]) 0 h0 hb0
  obtain ⟨b1, b2, b3⟩ := sectionBoundaries_patches dR _ 0 h1 a1
  obtain ⟨w1, _, _, _, _⟩ := walkE_spec (boundsOf xs.length dL dR) dL dR 0 b1 h0 h1 (fun e he => b2 _ (a3 e he)) b3 hdis
  intro d hd x hx
  rw [hds] at hd
  have hd' := (sortDesc_perm _).subset hd
  rw [walk_eq] at hd'
  obtain ⟨p, hp, rfl⟩ := List.mem_map.mp hd'
  -- the entry and its item
  have hent : ∃ j dd v, p.2 = .patchI j dd ∧ xs[j]? = some v ∧ v.isContainer = true ∧ wf v dd = true := by
    rcases w1 p hp with ⟨_, hm⟩ | ⟨_, hm⟩
    · obtain ⟨_, j, dd, hpe⟩ := AscPatch.idx_ge h0 p.2 hm
      rw [hpe] at hm
      obtain ⟨v, f1, f2, f3⟩ := wfList_entries xs dL 0 none hwL j dd hm
      exact ⟨j, dd, v, hpe, f1, f2, f3⟩
    · obtain ⟨_, j, dd, hpe⟩ := AscPatch.idx_ge h1 p.2 hm
      rw [hpe] at hm
      obtain ⟨v, f1, f2, f3⟩ := wfList_entries xs dR 0 none hwR j dd hm
      exact ⟨j, dd, v, hpe, f1, f2, f3⟩
  obtain ⟨j, dd, v, hpe, f1, f2, f3⟩ := hent
  rw [hpe] at hx ⊢
  obtain ⟨q', y, hmk, hpush⟩ := mkItem_patch [PKey.s k] p.1 j dd
  rw [hmk] at hx ⊢
  have hxy : x = y := by
    generalize p.1 = sd at hx
    cases sd <;> simp [sideMD] at hx <;> exact hx.symm
  subst hxy
  show wfAt (.obj base) ([PKey.s k] ++ PKey.i j :: q') x = true
  simp only [List.cons_append, List.nil_append, wfAt, hk, f1]
  cases q' with
  | nil =>
    have : x = dd := hpush
    subst this
    exact f3
  | cons k2 q2 =>
    apply wf_pushPath (k2 :: q2) v x (by simp)
    rw [hpush]; exact f3


/-! ### choosing a side, list level -/

/-- the item a decision below `<key>/<index>` stands for once a side is chosen -/
def itemOfChosen (xs : List J) (loc : Bool) (d : MD) : ArrItem :=
  match d.path with
  | _ :: .i j :: q' =>
      let v := (xs[j]?).getD .null
      ⟨j, q', pick loc d, v, (match patch v (pushPath q' (pick loc d)) with
        | .ok pv => pv
        | .error _ => .null), arrDec d⟩
  | _ => ⟨0, [], [], .null, .null, arrDec d⟩

theorem chosen_item_of_visit (k : String) (xs : List J) (loc : Bool) (s : Side) (j : Nat) (dd : List Op) (v pv : J)
    (hv : xs[j]? = some v) (cv : v.canonical = true) (hp : patch v dd = .ok pv) (hcont : v.isContainer = true)
    (hwf : wf v dd = true) :
    let d := (mkItem [PKey.s k] s (.patchI j dd)).choose loc
    (itemOfChosen xs loc d).ok xs ∧ (itemOfChosen xs loc d).j = j ∧
      (itemOfChosen xs loc d).pv = (if dropped loc s then v else pv) ∧
      liftDec k (itemOfChosen xs loc d).d = d.toDecision ∧ (itemOfChosen xs loc d).d.keyBased = false := by
  intro d
  obtain ⟨q', x, hmk, hpush⟩ := mkItem_patch [PKey.s k] s j dd
  have hd : d = (sideMD s (PKey.s k :: PKey.i j :: q') x).choose loc := by
    show (mkItem [PKey.s k] s (.patchI j dd)).choose loc = _
    rw [hmk]; rfl
  have hpath : d.path = PKey.s k :: PKey.i j :: q' := by rw [hd]; rfl
  have hpick : pick loc d = if dropped loc s then [] else x := by rw [hd]; exact pick_choose_sideMD loc s _ x
  -- what the chosen diff does to the item
  have hpatch : patch v (pushPath q' (pick loc d)) = .ok (if dropped loc s then v else pv) := by
    rw [hpick]
    cases hdr : dropped loc s with
    | true =>
      simp only [if_true]
      apply patch_identity q' v cv
      cases q' with
      | nil => simpa [pathOk] using hcont
      | cons k2 q2 =>
        exact wfAt_pathOk _ v x (wf_pushPath (k2 :: q2) v x (by simp) (by rw [hpush]; exact hwf))
    | false => simp only [Bool.false_eq_true, if_false, hpush, hp]
  have hio : itemOfChosen xs loc d = ⟨j, q', pick loc d, v, (if dropped loc s then v else pv), arrDec d⟩ := by
    simp only [itemOfChosen, hpath, hv, Option.getD_some, hpatch]
  rw [hio]
  have hres : Res (arrDec d) (PKey.i j :: q') (pick loc d) := by
    have hap : (arrDec d).path = PKey.i j :: q' := by simp [arrDec, hpath]
    rw [hd]
    cases loc
    · refine ⟨by rw [← hd]; exact hap, by show ("remote" == "clear_all") = false; decide, fun base => ?_⟩
      exact resolve_remote base _ _ rfl (by simp [arrDec, Merge.MD.choose, MD.toDecision, pick])
    · refine ⟨by rw [← hd]; exact hap, by show ("local" == "clear_all") = false; decide, fun base => ?_⟩
      exact resolve_local base _ _ rfl (by simp [arrDec, Merge.MD.choose, MD.toDecision, pick])
  refine ⟨⟨hv, cv, hpatch, hres⟩, rfl, rfl, ?_, ?_⟩
  · show liftDec k (arrDec d) = d.toDecision
    simp only [liftDec, arrDec, hpath, List.drop_succ_cons, List.drop_zero]
    cases hdd : d.toDecision
    simp only [MD.toDecision] at hdd
    cases hdd
    simp [hpath]
  · show (arrDec d).keyBased = false
    rw [hd]; cases loc <;> rfl

/-- **choosing a side for every decision of a cell-wise merge reproduces that side** (C09): with every decision switched
    to local (`loc = true`) or remote, `apply_decisions` gives base patched with that side's diff -/
theorem cells_choose (loc : Bool) (E : Env) (base : List (String × J)) (k : String) (xs : List J) (dL dR : List Op)
    (ds : List MD) (T : J) (hc : (J.obj base).canonical = true) (hk : lookupKV k base = some (.arr xs))
    (h0 : AscPatch 0 dL) (h1 : AscPatch 0 dR) (hdis : ∀ e0 ∈ dL, ∀ e1 ∈ dR, e0.idx ≠ e1.idx)
    (hne : dL ≠ []) (hneq : Op.pyEq (.patchK k dL) (.patchK k dR) = false)
    (hwL : wfList xs dL 0 none = true) (hwR : wfList xs dR 0 none = true)
    (hpL : ∃ L, patch (.obj base) [.patchK k dL] = .ok L) (hpR : ∃ R, patch (.obj base) [.patchK k dR] = .ok R)
    (hT : patch (.obj base) [.patchK k (if loc then dL else dR)] = .ok T)
    (h : decideMerge E (.obj base) [.patchK k dL] [.patchK k dR] = .ok ds) :
    applyDecisions (.obj base) ((ds.map MD.toDecision).map (chooseSide (sideName loc))) = .ok T := by
  have hcc := hc
  simp only [J.canonical, Bool.and_eq_true] at hcc
  have hb : SK base := keysSorted_sk base hcc.1
  have cxs : ∀ v ∈ xs, v.canonical = true := by
    have := canonicalKvs_mem base hcc.2 _ (lookupKV_mem k _ base hk)
    simp only [J.canonical] at this
    exact canonicalList_mem xs this
  -- both sides' edits against the base list
  have edits : ∀ (d : List Op), AscPatch 0 d → (∃ D, patch (.obj base) [.patchK k d] = .ok D) →
      ∃ (RD : List J) (ED : List CellEdit), patch (.obj base) [.patchK k d] = .ok (.obj (insertKV k (.arr RD) base)) ∧
        Asc 0 ED ∧ d = ED.map (fun e => Op.patchI e.j e.dd) ∧ (∀ e ∈ ED, xs[e.j]? = some e.v ∧ patch e.v e.dd = .ok e.pv) ∧
        (∀ i, RD[i]? = (xs[i]?).map (fun x => (lookupEdit ED i).getD x)) := by
    intro d ha ⟨D, hD⟩
    obtain ⟨v1, pv1, hv1, hp1⟩ := patch_obj_patchK_inv base k d D hD
    rw [hk] at hv1; cases hv1
    have hDeq := patch_obj_patchK base hb k d (.arr xs) pv1 hk hp1
    rw [patch] at hp1
    simp only [bind, Except.bind] at hp1
    cases hRD : patchList xs d 0 with
    | error e => simp [hRD] at hp1
    | ok RD =>
      simp only [hRD, Except.ok.injEq] at hp1
      subst hp1
      obtain ⟨ED, aD, deq, fD⟩ := patchList_inv xs d 0 RD ha hRD
      obtain ⟨RD', hRD', gD⟩ := patchList_edits xs ED 0 aD fD
      rw [← deq, hRD] at hRD'
      cases hRD'
      simp only [Nat.zero_add] at gD
      exact ⟨RD, ED, hDeq, aD, deq, fD, gD⟩
  obtain ⟨RL, EL, hLdoc, aL, dLeq, fL, gL⟩ := edits dL h0 hpL
  obtain ⟨RR, ER, hRdoc, aR, dReq, fR, gR⟩ := edits dR h1 hpR
  have hdisE : ∀ eL ∈ EL, ∀ eR ∈ ER, eL.j ≠ eR.j := by
    intro eL hL' eR hR'
    have m0 : Op.patchI eL.j eL.dd ∈ dL := by rw [dLeq]; exact List.mem_map_of_mem (f := fun e => Op.patchI e.j e.dd) hL'
    have m1 : Op.patchI eR.j eR.dd ∈ dR := by rw [dReq]; exact List.mem_map_of_mem (f := fun e => Op.patchI e.j e.dd) hR'
    exact hdis _ m0 _ m1
  -- the chosen side's list
  generalize hRT : (if loc then RL else RR) = RT
  have hTdoc : T = .obj (insertKV k (.arr RT) base) := by
    cases loc
    · simp only [Bool.false_eq_true, if_false] at hT hRT
      rw [hRdoc] at hT; rw [← hRT]; exact (Except.ok.inj hT).symm
    · simp only [if_true] at hT hRT
      rw [hLdoc] at hT; rw [← hRT]; exact (Except.ok.inj hT).symm
  -- the decisions
  have hds := decideMerge_cells E base k xs dL dR ds hk h0 h1 hdis hneq h
  have hb0 : StrictAsc (insertNat xs.length [0]) := (insertNat_asc xs.length [0] trivial).1
  obtain ⟨a1, a2, a3⟩ := sectionBoundaries_patches dL (insertNat xs.length [0]) 0 h0 hb0
  obtain ⟨b1, b2, b3⟩ := sectionBoundaries_patches dR _ 0 h1 a1
  obtain ⟨w1, w2, w3, _, w5⟩ := walkE_spec (boundsOf xs.length dL dR) dL dR 0 b1 h0 h1 (fun e he => b2 _ (a3 e he)) b3 hdis
  generalize hWE : walkE (boundsOf xs.length dL dR) dL dR = WE at w1 w2 w3 w5
  have hW : walk [PKey.s k] (boundsOf xs.length dL dR) dL dR = WE.map (fun p => mkItem [PKey.s k] p.1 p.2) := by
    rw [walk_eq, hWE]
  rw [hW] at hds
  have visit : ∀ p ∈ WE, ∃ j dd v pv, p.2 = .patchI j dd ∧ xs[j]? = some v ∧ v.canonical = true ∧ patch v dd = .ok pv ∧
      v.isContainer = true ∧ wf v dd = true ∧
      ((p.1 = .loc ∧ ∃ e ∈ EL, e.j = j ∧ e.pv = pv) ∨ (p.1 = .rem ∧ ∃ e ∈ ER, e.j = j ∧ e.pv = pv)) := by
    intro p hp
    rcases w1 p hp with ⟨hs, hm⟩ | ⟨hs, hm⟩
    · have hm' := hm
      rw [dLeq] at hm
      obtain ⟨e, he, hpe⟩ := List.mem_map.mp hm
      obtain ⟨f1, f2⟩ := fL e he
      rw [← hpe] at hm'
      obtain ⟨v', g1, g2, g3⟩ := wfList_entries xs dL 0 none hwL e.j e.dd hm'
      rw [f1] at g1; cases g1
      exact ⟨e.j, e.dd, e.v, e.pv, hpe.symm, f1, cxs _ (List.mem_of_getElem? f1), f2, g2, g3, Or.inl ⟨hs, e, he, rfl, rfl⟩⟩
    · have hm' := hm
      rw [dReq] at hm
      obtain ⟨e, he, hpe⟩ := List.mem_map.mp hm
      obtain ⟨f1, f2⟩ := fR e he
      rw [← hpe] at hm'
      obtain ⟨v', g1, g2, g3⟩ := wfList_entries xs dR 0 none hwR e.j e.dd hm'
      rw [f1] at g1; cases g1
      exact ⟨e.j, e.dd, e.v, e.pv, hpe.symm, f1, cxs _ (List.mem_of_getElem? f1), f2, g2, g3, Or.inr ⟨hs, e, he, rfl, rfl⟩⟩
  generalize hWd : WE.map (fun p => mkItem [PKey.s k] p.1 p.2) = W at hds
  subst hds
  have hperm := sortDesc_perm W
  -- the switched decisions, sorted the same way
  have hmapd : ((sortDesc W).map MD.toDecision).map (chooseSide (sideName loc)) =
      ((sortDesc W).map (MD.choose loc)).map MD.toDecision := by
    rw [List.map_map, List.map_map]
    apply List.map_congr_left; intro d _; rfl
  rw [hmapd]
  have hmemW : ∀ d ∈ sortDesc W, ∃ p ∈ WE, d = mkItem [PKey.s k] p.1 p.2 := by
    intro d hd
    have := hperm.subset hd
    rw [← hWd] at this
    obtain ⟨p, hp, rfl⟩ := List.mem_map.mp this
    exact ⟨p, hp, rfl⟩
  let cells := (sortDesc W).map (fun d => itemOfChosen xs loc (d.choose loc))
  have hcellFacts : ∀ d ∈ sortDesc W, (itemOfChosen xs loc (d.choose loc)).ok xs ∧
      liftDec k (itemOfChosen xs loc (d.choose loc)).d = (d.choose loc).toDecision ∧
      (itemOfChosen xs loc (d.choose loc)).d.keyBased = false := by
    intro d hd
    obtain ⟨p, hp, rfl⟩ := hmemW d hd
    obtain ⟨j, dd, v, pv, hpe, f1, f2, f3, f4, f5, _⟩ := visit p hp
    rw [hpe]
    obtain ⟨i1, _, _, i4, i5⟩ := chosen_item_of_visit k xs loc p.1 j dd v pv f1 f2 f3 f4 f5
    exact ⟨i1, i4, i5⟩
  have hdec : ((sortDesc W).map (MD.choose loc)).map MD.toDecision = cells.map (fun it => liftDec k it.d) := by
    simp only [cells, List.map_map]
    apply List.map_congr_left
    intro d hd
    exact ((hcellFacts d hd).2.1).symm
  have hjW : ∀ p ∈ WE, (itemOfChosen xs loc ((mkItem [PKey.s k] p.1 p.2).choose loc)).j = p.2.idx := by
    intro p hp
    obtain ⟨j, dd, v, pv, hpe, f1, f2, f3, f4, f5, _⟩ := visit p hp
    rw [hpe]
    exact (chosen_item_of_visit k xs loc p.1 j dd v pv f1 f2 f3 f4 f5).2.1
  have hndC : (cells.map (·.j)).Nodup := by
    have hjs : cells.map (·.j) = (sortDesc W).map (fun d => (itemOfChosen xs loc (d.choose loc)).j) := by
      simp [cells, List.map_map]
    rw [hjs]
    have : ((sortDesc W).map (fun d => (itemOfChosen xs loc (d.choose loc)).j)).Perm
        (W.map (fun d => (itemOfChosen xs loc (d.choose loc)).j)) := hperm.map _
    rw [this.nodup_iff, ← hWd, List.map_map]
    have : WE.map ((fun d => (itemOfChosen xs loc (d.choose loc)).j) ∘ fun p => mkItem [PKey.s k] p.1 p.2) =
        WE.map (fun p => p.2.idx) := List.map_congr_left (fun p hp => hjW p hp)
    rw [this]; exact w5
  have hneC : cells ≠ [] := by
    intro hnil
    have : (sortDesc W).length = 0 := by simpa [cells] using congrArg List.length hnil
    have hWl : W.length = 0 := by rw [← hperm.length_eq]; exact this
    cases dL with
    | nil => exact hne rfl
    | cons e rest =>
      have := w2 e List.mem_cons_self
      rw [← hWd] at hWl
      simp at hWl
      rw [hWl] at this; cases this
  rw [hdec]
  have core := apply_block_core base hb [] [] k xs cells (.replace k (.arr RT)) [] [.replace k (.arr RT)]
    (fun _ h => nomatch h) (fun _ h => nomatch h) hk
    (fun it hit => by
      obtain ⟨d, hd, rfl⟩ := List.mem_map.mp hit
      exact (hcellFacts d hd).1)
    hndC hneC
    (fun it hit => by
      obtain ⟨d, hd, rfl⟩ := List.mem_map.mp hit
      exact (hcellFacts d hd).2.2)
    ?_ (fun _ h => nomatch h) (fun _ h => nomatch h) (fun _ h => nomatch h) (by simp) (by simp)
  · simp only [List.map_nil, List.nil_append, List.append_nil] at core
    rw [core, patch_obj_replace base hb k (.arr RT), hTdoc]
  · intro R hR
    refine ⟨rfl, rfl, ?_⟩
    show some (some (J.arr RT)) = some (some (J.arr R))
    congr 3
    apply List.ext_getElem?
    intro i
    rw [hR i]
    -- the chosen side's list at i
    have hRTi : RT[i]? = (xs[i]?).map (fun x => (lookupEdit (if loc then EL else ER) i).getD x) := by
      rw [← hRT]; cases loc
      · simp only [Bool.false_eq_true, if_false]; exact gR i
      · simp only [if_true]; exact gL i
    rw [hRTi]
    cases hx : xs[i]? with
    | none => simp
    | some x =>
      simp only [Option.map_some]
      congr 1
      -- the item at index i, if any
      have itemAt : ∀ (s : Side) (e : CellEdit), (s, Op.patchI e.j e.dd) ∈ WE → xs[e.j]? = some e.v → patch e.v e.dd = .ok e.pv →
          e.j = i → (cells.find? (fun it => it.j == i)).map (·.pv) = some (if dropped loc s then e.v else e.pv) := by
        intro s e hwe f1 f2 hji
        obtain ⟨j, dd, v, pv, hpe, g1, g2, g3, g4, g5, _⟩ := visit (s, Op.patchI e.j e.dd) hwe
        simp only at hpe
        cases hpe
        rw [f1] at g1; cases g1
        rw [f2] at g3; cases g3
        obtain ⟨i1, i2, i3, _⟩ := chosen_item_of_visit k xs loc s e.j e.dd e.v e.pv f1 g2 f2 g4 g5
        have hmemC : itemOfChosen xs loc ((mkItem [PKey.s k] s (.patchI e.j e.dd)).choose loc) ∈ cells := by
          simp only [cells]
          apply List.mem_map.mpr
          refine ⟨mkItem [PKey.s k] s (.patchI e.j e.dd), ?_, rfl⟩
          apply hperm.symm.subset
          rw [← hWd]
          exact List.mem_map.mpr ⟨(s, Op.patchI e.j e.dd), hwe, rfl⟩
        have hfind := find_of_nodup cells hndC _ hmemC
        rw [i2] at hfind
        have hfun : (fun (it : ArrItem) => it.j == i) = (fun it => it.j == e.j) := by rw [hji]
        rw [hfun, hfind]
        simp only [Option.map_some]
        rw [i3]
      by_cases hiL : ∃ e ∈ EL, e.j = i
      · obtain ⟨e, he, hji⟩ := hiL
        have hwe : (Side.loc, Op.patchI e.j e.dd) ∈ WE := w2 _ (by rw [dLeq]; exact List.mem_map_of_mem (f := fun e => Op.patchI e.j e.dd) he)
        obtain ⟨f1, f2⟩ := fL e he
        rw [itemAt .loc e hwe f1 f2 hji]
        have hxv : x = e.v := by rw [hji] at f1; rw [hx] at f1; exact Option.some.inj f1
        cases loc
        · have : lookupEdit ER i = none := lookupEdit_none ER i (fun eR hR' heq => hdisE e he eR hR' (by rw [hji, heq]))
          simp [dropped, this, hxv]
        · have : lookupEdit EL i = some e.pv := by rw [← hji]; exact lookupEdit_mem aL e he
          simp [dropped, this]
      · have hLn : lookupEdit EL i = none := lookupEdit_none EL i (fun e he hei => hiL ⟨e, he, hei⟩)
        by_cases hiR : ∃ e ∈ ER, e.j = i
        · obtain ⟨e, he, hji⟩ := hiR
          have hwe : (Side.rem, Op.patchI e.j e.dd) ∈ WE := w3 _ (by rw [dReq]; exact List.mem_map_of_mem (f := fun e => Op.patchI e.j e.dd) he)
          obtain ⟨f1, f2⟩ := fR e he
          rw [itemAt .rem e hwe f1 f2 hji]
          have hxv : x = e.v := by rw [hji] at f1; rw [hx] at f1; exact Option.some.inj f1
          cases loc
          · have : lookupEdit ER i = some e.pv := by rw [← hji]; exact lookupEdit_mem aR e he
            simp [dropped, this]
          · simp [dropped, hLn, hxv]
        · have hRn : lookupEdit ER i = none := lookupEdit_none ER i (fun e he hei => hiR ⟨e, he, hei⟩)
          have hnoC : cells.find? (fun it => it.j == i) = none := by
            rw [List.find?_eq_none]
            intro it hit hji
            obtain ⟨d, hd, rfl⟩ := List.mem_map.mp hit
            obtain ⟨p, hp, rfl⟩ := hmemW d hd
            obtain ⟨j, dd, v, pv, hpe, f1, f2, f3, f4, f5, hside⟩ := visit p hp
            have hj : (itemOfChosen xs loc ((mkItem [PKey.s k] p.1 p.2).choose loc)).j = j := by
              rw [hpe]; exact (chosen_item_of_visit k xs loc p.1 j dd v pv f1 f2 f3 f4 f5).2.1
            rw [hj] at hji
            have hji' : j = i := by simpa using hji
            rcases hside with ⟨_, e, he, hej, _⟩ | ⟨_, e, he, hej, _⟩
            · exact hiL ⟨e, he, by rw [hej, hji']⟩
            · exact hiR ⟨e, he, by rw [hej, hji']⟩
          rw [hnoC]
          cases loc <;> simp [hLn, hRn]


/-! ### the order of the two sides does not matter -/

/-- a successful patch of the list under key `k` with an ascending patch-only diff, spelled out -/
theorem cell_edits (base : List (String × J)) (hb : SK base) (k : String) (xs : List J) (hk : lookupKV k base = some (.arr xs))
    (d : List Op) (ha : AscPatch 0 d) (D : J) (hD : patch (.obj base) [.patchK k d] = .ok D) :
    ∃ (RD : List J) (ED : List CellEdit), D = .obj (insertKV k (.arr RD) base) ∧
      Asc 0 ED ∧ d = ED.map (fun e => Op.patchI e.j e.dd) ∧ (∀ e ∈ ED, xs[e.j]? = some e.v ∧ patch e.v e.dd = .ok e.pv) ∧
      (∀ i, RD[i]? = (xs[i]?).map (fun x => (lookupEdit ED i).getD x)) := by
  obtain ⟨v1, pv1, hv1, hp1⟩ := patch_obj_patchK_inv base k d D hD
  rw [hk] at hv1; cases hv1
  have hDeq := patch_obj_patchK base hb k d (.arr xs) pv1 hk hp1
  rw [hD] at hDeq
  rw [patch] at hp1
  simp only [bind, Except.bind] at hp1
  cases hRD : patchList xs d 0 with
  | error e => simp [hRD] at hp1
  | ok RD =>
    simp only [hRD, Except.ok.injEq] at hp1
    subst hp1
    obtain ⟨ED, aD, deq, fD⟩ := patchList_inv xs d 0 RD ha hRD
    obtain ⟨RD', hRD', gD⟩ := patchList_edits xs ED 0 aD fD
    rw [← deq, hRD] at hRD'
    cases hRD'
    simp only [Nat.zero_add] at gD
    exact ⟨RD, ED, Except.ok.inj hDeq, aD, deq, fD, gD⟩

/-- patching different items of the list in either order gives the same document -/
theorem patchBoth_cells_comm (base : List (String × J)) (hc : (J.obj base).canonical = true) (k : String) (xs : List J)
    (hk : lookupKV k base = some (.arr xs)) (dL dR : List Op) (h0 : AscPatch 0 dL) (h1 : AscPatch 0 dR)
    (hdis : ∀ e0 ∈ dL, ∀ e1 ∈ dR, e0.idx ≠ e1.idx) (L X : J)
    (hL : patch (.obj base) [.patchK k dL] = .ok L) (hX : patch L [.patchK k dR] = .ok X) :
    ∃ R, patch (.obj base) [.patchK k dR] = .ok R ∧ patch R [.patchK k dL] = .ok X := by
  have hcc := hc
  simp only [J.canonical, Bool.and_eq_true] at hcc
  have hb : SK base := keysSorted_sk base hcc.1
  obtain ⟨RL, EL, rfl, aL, dLeq, fL, gL⟩ := cell_edits base hb k xs hk dL h0 L hL
  have hsL : SK (insertKV k (.arr RL) base) := insertKV_sorted _ _ _ hb
  have hkL : lookupKV k (insertKV k (.arr RL) base) = some (.arr RL) := by rw [lookupKV_insertKV]; simp
  obtain ⟨RX, ER, hXeq, aR, dReq, fR, gR⟩ := cell_edits _ hsL k RL hkL dR h1 X hX
  rw [insertKV_twice k (.arr RL) (.arr RX) base hb] at hXeq
  have hdisE : ∀ eL ∈ EL, ∀ eR ∈ ER, eL.j ≠ eR.j := by
    intro eL hL' eR hR'
    have m0 : Op.patchI eL.j eL.dd ∈ dL := by rw [dLeq]; exact List.mem_map_of_mem (f := fun e => Op.patchI e.j e.dd) hL'
    have m1 : Op.patchI eR.j eR.dd ∈ dR := by rw [dReq]; exact List.mem_map_of_mem (f := fun e => Op.patchI e.j e.dd) hR'
    exact hdis _ m0 _ m1
  -- the remote edits see the base items, the local edits see them after the remote patch
  have fR' : ∀ e ∈ ER, xs[e.j]? = some e.v ∧ patch e.v e.dd = .ok e.pv := by
    intro e he
    obtain ⟨f1, f2⟩ := fR e he
    rw [gL e.j, lookupEdit_none EL e.j (fun eL hL' => hdisE eL hL' e he)] at f1
    refine ⟨?_, f2⟩
    cases hx : xs[e.j]? with
    | none => simp [hx] at f1
    | some x => simpa [hx] using f1
  obtain ⟨RR, hRR, gRR⟩ := patchList_edits xs ER 0 aR fR'
  simp only [Nat.zero_add] at gRR
  rw [← dReq] at hRR
  have hRdoc : patch (.obj base) [.patchK k dR] = .ok (.obj (insertKV k (.arr RR) base)) :=
    patch_obj_patchK base hb k dR (.arr xs) (.arr RR) hk (by rw [patch]; simp [hRR, bind, Except.bind])
  have fL' : ∀ e ∈ EL, RR[e.j]? = some e.v ∧ patch e.v e.dd = .ok e.pv := by
    intro e he
    obtain ⟨f1, f2⟩ := fL e he
    refine ⟨?_, f2⟩
    rw [gRR e.j, lookupEdit_none ER e.j (fun eR hR' => (hdisE e he eR hR').symm), f1]
    rfl
  obtain ⟨RY, hRY, gRY⟩ := patchList_edits RR EL 0 aL fL'
  simp only [Nat.zero_add] at gRY
  rw [← dLeq] at hRY
  have hsR : SK (insertKV k (.arr RR) base) := insertKV_sorted _ _ _ hb
  have hkR : lookupKV k (insertKV k (.arr RR) base) = some (.arr RR) := by rw [lookupKV_insertKV]; simp
  refine ⟨_, hRdoc, ?_⟩
  rw [patch_obj_patchK _ hsR k dL (.arr RR) (.arr RY) hkR (by rw [patch]; simp [hRY, bind, Except.bind]),
    insertKV_twice k (.arr RR) (.arr RY) base hb, hXeq]
  congr 4
  apply List.ext_getElem?
  intro i
  rw [gRY i, gRR i, gR i, gL i]
  cases hx : xs[i]? with
  | none => simp
  | some x =>
    simp only [Option.map_some]
    congr 1
    -- at most one of the two sides edits item i
    cases hl : lookupEdit EL i with
    | none => simp
    | some pl =>
      have : lookupEdit ER i = none := by
        apply lookupEdit_none
        intro eR hR' heq
        unfold lookupEdit at hl
        cases hf : EL.find? (fun e => e.j == i) with
        | none => simp [hf] at hl
        | some eL =>
          have hmem := List.mem_of_find?_eq_some hf
          have hj : eL.j = i := by simpa using List.find?_some hf
          exact hdisE eL hmem eR hR' (by rw [hj, heq])
      simp [this]

end Nbdime
