/-
  Abstract sequence layer: Python's `patch_list` cursor semantics and `diff_from_lcs`
  (with the builder's addrange-before-removerange order) over an arbitrary element type.
  Core Lean only.
-/
namespace Nbdime.Abs

inductive SOp (α : Type) where
  | addrange (k : Nat) (vs : List α)
  | removerange (k n : Nat)

def SOp.key {α} : SOp α → Nat
  | .addrange k _ => k
  | .removerange k _ => k

def patchFrom {α} : List (SOp α) → Nat → List α → List α
  | [], take, xs => xs.drop take
  | .addrange k vs :: es, take, xs =>
      (xs.drop take).take (k - take) ++ vs ++ patchFrom es (max take k) xs
  | .removerange k n :: es, take, xs =>
      (xs.drop take).take (k - take) ++ patchFrom es (max take (k + n)) xs

theorem take_split {α} (a : List α) (t x k : Nat) (h1 : t ≤ x) (h2 : x ≤ k) :
    (a.drop t).take (k - t) = (a.drop t).take (x - t) ++ (a.drop x).take (k - x) := by
  have hx : a.drop x = (a.drop t).drop (x - t) := by rw [List.drop_drop]; congr 1; omega
  rw [hx]
  have : k - t = (x - t) + (k - x) := by omega
  rw [this, List.take_add]

theorem drop_split {α} (a : List α) (t x : Nat) (h1 : t ≤ x) :
    a.drop t = (a.drop t).take (x - t) ++ a.drop x := by
  have hx : a.drop x = (a.drop t).drop (x - t) := by rw [List.drop_drop]; congr 1; omega
  rw [hx, List.take_append_drop]

/-- Lemma A: the cursor may lag behind the first key. -/
theorem patchFrom_cursor {α} (ops : List (SOp α)) (a : List α) (t x : Nat)
    (ht : t ≤ x) (hk : ∀ e ∈ ops.head?, x ≤ e.key) :
    patchFrom ops t a = (a.drop t).take (x - t) ++ patchFrom ops x a := by
  cases ops with
  | nil => simpa [patchFrom] using drop_split a t x ht
  | cons e es =>
    have hk' : x ≤ e.key := hk e (by simp)
    cases e with
    | addrange k vs =>
      simp only [SOp.key] at hk'
      simp only [patchFrom]
      rw [take_split a t x k ht hk', Nat.max_eq_right (by omega : t ≤ k), Nat.max_eq_right hk']
      simp [List.append_assoc]
    | removerange k n =>
      simp only [SOp.key] at hk'
      simp only [patchFrom]
      rw [take_split a t x k ht hk', Nat.max_eq_right (by omega : t ≤ k + n),
          Nat.max_eq_right (by omega : x ≤ k + n)]
      simp [List.append_assoc]

def dfl {α} (a b : List α) : List (Nat × Nat) → Nat → Nat → List (SOp α)
  | [], x, y =>
      (if y < b.length then [SOp.addrange x (b.drop y)] else []) ++
      (if x < a.length then [SOp.removerange x (a.length - x)] else [])
  | (i, j) :: ps, x, y =>
      (if j > y then [SOp.addrange x ((b.drop y).take (j - y))] else []) ++
      (if i > x then [SOp.removerange x (i - x)] else []) ++
      dfl a b ps (i + 1) (j + 1)

def Matching {α} (a b : List α) : List (Nat × Nat) → Nat → Nat → Prop
  | [], _, _ => True
  | (i, j) :: ps, x, y => x ≤ i ∧ y ≤ j ∧ i < a.length ∧ j < b.length ∧ a[i]? = b[j]? ∧ Matching a b ps (i+1) (j+1)

theorem dfl_head_key {α} (a b : List α) (ps : List (Nat × Nat)) (x y : Nat)
    (hm : Matching a b ps x y) : ∀ e ∈ (dfl a b ps x y).head?, x ≤ e.key := by
  induction ps generalizing x y with
  | nil =>
    intro e he
    simp only [dfl] at he
    by_cases h1 : y < b.length <;> by_cases h2 : x < a.length <;> simp [h1, h2] at he <;>
      (subst he; simp [SOp.key])
  | cons p ps ih =>
    obtain ⟨i, j⟩ := p
    obtain ⟨hxi, hyj, hi, hj, _, hrest⟩ := hm
    intro e he
    simp only [dfl] at he
    by_cases h1 : j > y <;> by_cases h2 : i > x <;> simp [h1, h2] at he
    · subst he; simp [SOp.key]
    · subst he; simp [SOp.key]
    · subst he; simp [SOp.key]
    · have := ih (i+1) (j+1) hrest e (by simpa using he)
      omega

theorem patch_dfl {α} (a b : List α) (ps : List (Nat × Nat)) (x y : Nat)
    (hx : x ≤ a.length) (hy : y ≤ b.length) (hm : Matching a b ps x y) :
    patchFrom (dfl a b ps x y) x a = b.drop y := by
  induction ps generalizing x y with
  | nil =>
    simp only [dfl]
    by_cases h1 : y < b.length <;> by_cases h2 : x < a.length <;>
      simp [h1, h2, patchFrom]
    · omega
    · omega
    · have : b.length ≤ y := by omega
      rw [List.drop_eq_nil_of_le this, List.drop_eq_nil_of_le (by omega)]
    · have : b.length ≤ y := by omega
      rw [List.drop_eq_nil_of_le this, List.drop_eq_nil_of_le (by omega)]
  | cons p ps ih =>
    obtain ⟨i, j⟩ := p
    obtain ⟨hxi, hyj, hi, hj, heq, hrest⟩ := hm
    have ih' := ih (i+1) (j+1) (by omega) (by omega) hrest
    have hkey := dfl_head_key a b ps (i+1) (j+1) hrest
    have hbj : b.drop j = b[j] :: b.drop (j+1) := List.drop_eq_getElem_cons hj
    have hai : (a.drop i).take 1 = [a[i]] := by
      rw [List.drop_eq_getElem_cons hi]; simp [List.take]
    have hab : a[i] = b[j] := by
      rw [List.getElem?_eq_getElem hi, List.getElem?_eq_getElem hj] at heq
      exact Option.some.inj heq
    -- rest, started with cursor at i: keeps item i then continues
    have rest : patchFrom (dfl a b ps (i+1) (j+1)) i a = b.drop j := by
      rw [patchFrom_cursor _ a i (i+1) (by omega) hkey, ih', hbj]
      simp [hai, hab]
    have hb : b.drop y = (b.drop y).take (j - y) ++ b.drop j := drop_split b y j hyj
    simp only [dfl]
    by_cases h1 : j > y <;> by_cases h2 : i > x
    · simp only [h1, h2, if_true, List.singleton_append, List.cons_append, List.nil_append, patchFrom]
      simp only [Nat.sub_self, List.take_zero, List.nil_append, Nat.max_self]
      rw [Nat.max_eq_right (by omega : x ≤ x + (i - x))]
      have : x + (i - x) = i := by omega
      rw [this, rest]; exact hb.symm
    · have hix : i = x := by omega
      subst hix
      simp only [h1, h2, if_true, if_false, List.singleton_append, List.nil_append, List.append_nil, patchFrom]
      simp only [Nat.sub_self, List.take_zero, List.nil_append, Nat.max_self]
      rw [rest]; exact hb.symm
    · have hjy : j = y := by omega
      subst hjy
      simp only [h1, h2, if_true, if_false, List.singleton_append, List.nil_append, patchFrom]
      simp only [Nat.sub_self, List.take_zero, List.nil_append]
      rw [Nat.max_eq_right (by omega : x ≤ x + (i - x))]
      have : x + (i - x) = i := by omega
      rw [this, rest]
    · have hix : i = x := by omega
      have hjy : j = y := by omega
      subst hix; subst hjy
      simp only [h1, h2, if_false, List.nil_append]
      exact rest


end Nbdime.Abs
