import NbdimeProofs.Lemmas.JsonEq
import NbdimeProofs.Lemmas.KVSorted
/-
  `Compat a b`: wherever the differ compares a value of `a` with a value of `b` using Python `==`
  (values under the same dict key; any item of a list against any item of the other list), `==`
  implies equality.  This is exactly the complement of finding F-eq (`True == 1 == 1.0`): two
  documents are incompatible only if a boolean meets a 0/1-valued number (or an int an integral
  float) at such a place.  The round-trip theorems hold for all compatible pairs.
-/
namespace Nbdime

/-! ### membership facts for the recursive predicates -/

theorem canonicalList_mem (xs : List J) (h : J.canonicalList xs = true) : ∀ x ∈ xs, x.canonical = true := by
  induction xs with
  | nil => intro x hx; simp at hx
  | cons y ys ih =>
    simp only [J.canonicalList, Bool.and_eq_true] at h
    intro x hx
    simp only [List.mem_cons] at hx
    rcases hx with rfl | hx
    · exact h.1
    · exact ih h.2 x hx

theorem intsOnlyList_mem (xs : List J) (h : J.intsOnlyList xs = true) : ∀ x ∈ xs, x.intsOnly = true := by
  induction xs with
  | nil => intro x hx; simp at hx
  | cons y ys ih =>
    simp only [J.intsOnlyList, Bool.and_eq_true] at h
    intro x hx
    simp only [List.mem_cons] at hx
    rcases hx with rfl | hx
    · exact h.1
    · exact ih h.2 x hx

theorem canonicalKvs_mem (kvs : List (String × J)) (h : J.canonicalKvs kvs = true) : ∀ p ∈ kvs, p.2.canonical = true := by
  induction kvs with
  | nil => intro x hx; simp at hx
  | cons y ys ih =>
    obtain ⟨k, v⟩ := y
    simp only [J.canonicalKvs, Bool.and_eq_true] at h
    intro x hx
    simp only [List.mem_cons] at hx
    rcases hx with rfl | hx
    · exact h.1
    · exact ih h.2 x hx

theorem intsOnlyKvs_mem (kvs : List (String × J)) (h : J.intsOnlyKvs kvs = true) : ∀ p ∈ kvs, p.2.intsOnly = true := by
  induction kvs with
  | nil => intro x hx; simp at hx
  | cons y ys ih =>
    obtain ⟨k, v⟩ := y
    simp only [J.intsOnlyKvs, Bool.and_eq_true] at h
    intro x hx
    simp only [List.mem_cons] at hx
    rcases hx with rfl | hx
    · exact h.1
    · exact ih h.2 x hx

inductive Compat : J → J → Prop
  | arr {xs ys : List J} : (∀ x ∈ xs, ∀ y ∈ ys, Compat x y) → Compat (.arr xs) (.arr ys)
  | obj {a b : List (String × J)} :
      (∀ k av bv, lookupKV k a = some av → lookupKV k b = some bv → Compat av bv) → Compat (.obj a) (.obj b)
  | other {x y : J} : (∀ xs ys, ¬ (x = .arr xs ∧ y = .arr ys)) → (∀ a b, ¬ (x = .obj a ∧ y = .obj b)) →
      (J.pyEq x y = true → x = y) → Compat x y

theorem Compat.arr_inv {xs ys : List J} (h : Compat (.arr xs) (.arr ys)) : ∀ x ∈ xs, ∀ y ∈ ys, Compat x y := by
  cases h with
  | arr h => exact h
  | other h1 _ _ => exact absurd ⟨rfl, rfl⟩ (h1 xs ys)

theorem Compat.obj_inv {a b : List (String × J)} (h : Compat (.obj a) (.obj b)) :
    ∀ k av bv, lookupKV k a = some av → lookupKV k b = some bv → Compat av bv := by
  cases h with
  | obj h => exact h
  | other _ h2 _ => exact absurd ⟨rfl, rfl⟩ (h2 a b)

theorem pyEqList_of_compat (xs ys : List J)
    (ih : ∀ x ∈ xs, ∀ y ∈ ys, J.pyEq x y = true → x = y) (h : J.pyEqList xs ys = true) : xs = ys := by
  induction xs generalizing ys with
  | nil => cases ys <;> simp_all [J.pyEqList]
  | cons x xs ihx =>
    cases ys with
    | nil => simp [J.pyEqList] at h
    | cons y ys =>
      simp only [J.pyEqList, Bool.and_eq_true] at h
      have e1 := ih x (by simp) y (by simp) h.1
      have e2 := ihx ys (fun x' hx' y' hy' => ih x' (List.mem_cons_of_mem _ hx') y' (List.mem_cons_of_mem _ hy')) h.2
      rw [e1, e2]

theorem pyEqKvs_of_compat (a b : List (String × J)) (sa : SK a) (sb : SK b)
    (ih : ∀ k av bv, lookupKV k a = some av → lookupKV k b = some bv → J.pyEq av bv = true → av = bv)
    (h : J.pyEqKvs a b = true) : a = b := by
  induction a generalizing b with
  | nil => cases b <;> simp_all [J.pyEqKvs]
  | cons p a iha =>
    obtain ⟨k, x⟩ := p
    cases b with
    | nil => simp [J.pyEqKvs] at h
    | cons q b =>
      obtain ⟨l, y⟩ := q
      simp only [J.pyEqKvs, Bool.and_eq_true, beq_iff_eq] at h
      obtain ⟨⟨hk, hxy⟩, hrest⟩ := h
      subst hk
      have ca := List.pairwise_cons.mp sa
      have cb := List.pairwise_cons.mp sb
      have e1 := ih k x y (by simp [lookupKV]) (by simp [lookupKV]) hxy
      have e2 := iha b ca.2 cb.2 (by
        intro k' av bv ha hb
        have hne : k ≠ k' := by
          intro e; subst e
          rw [lookupKV_none_of_lt k a ca.1] at ha; cases ha
        exact ih k' av bv (by simp [lookupKV_cons', hne, ha]) (by simp [lookupKV_cons', hne, hb])) hrest
      rw [e1, e2]

/-- on compatible canonical documents Python `==` is equality -/
theorem compat_pyEq (x y : J) (h : Compat x y) (cx : x.canonical = true) (cy : y.canonical = true)
    (he : J.pyEq x y = true) : x = y := by
  induction h with
  | @arr xs ys _ ih =>
    simp only [J.canonical] at cx cy
    simp only [J.pyEq] at he
    have hcx := canonicalList_mem xs cx
    have hcy := canonicalList_mem ys cy
    rw [pyEqList_of_compat xs ys (fun x hx y hy e => ih x hx y hy (hcx x hx) (hcy y hy) e) he]
  | @obj a b _ ih =>
    simp only [J.canonical, Bool.and_eq_true] at cx cy
    simp only [J.pyEq] at he
    have hmem : ∀ (l : List (String × J)), J.canonicalKvs l = true → ∀ k v, lookupKV k l = some v → v.canonical = true :=
      fun l hl k v hv => canonicalKvs_mem l hl (k, v) (lookupKV_mem k v l hv)
    rw [pyEqKvs_of_compat a b (keysSorted_sk a cx.1) (keysSorted_sk b cy.1)
      (fun k av bv ha hb e => ih k av bv ha hb (hmem a cx.2 k av ha) (hmem b cy.2 k bv hb) e) he]
  | other _ _ h3 => exact h3 he

mutual
theorem compat_ints : ∀ (x y : J), x.intsOnly = true → y.intsOnly = true → Compat x y
  | .arr xs, y, hx, hy => by
      cases y with
      | arr ys =>
        simp only [J.intsOnly] at hx hy
        exact Compat.arr (fun x hxm y hym => compat_ints_list xs hx x hxm y (intsOnlyList_mem ys hy y hym))
      | _ => exact Compat.other (by intro _ _ h; cases h.2) (by intro _ _ h; cases h.1) (fun e => J.pyEq_eq _ _ hx hy e)
  | .obj a, y, hx, hy => by
      cases y with
      | obj b =>
        simp only [J.intsOnly] at hx hy
        exact Compat.obj (fun k av bv ha hb => compat_ints_kvs a hx k av ha bv
          (intsOnlyKvs_mem b hy (k, bv) (lookupKV_mem k bv b hb)))
      | _ => exact Compat.other (by intro _ _ h; cases h.1) (by intro _ _ h; cases h.2) (fun e => J.pyEq_eq _ _ hx hy e)
  | .null, y, hx, hy => Compat.other (by intro _ _ h; cases h.1) (by intro _ _ h; cases h.1) (fun e => J.pyEq_eq _ _ hx hy e)
  | .bool _, y, hx, hy => Compat.other (by intro _ _ h; cases h.1) (by intro _ _ h; cases h.1) (fun e => J.pyEq_eq _ _ hx hy e)
  | .int _, y, hx, hy => Compat.other (by intro _ _ h; cases h.1) (by intro _ _ h; cases h.1) (fun e => J.pyEq_eq _ _ hx hy e)
  | .flt _, y, hx, hy => Compat.other (by intro _ _ h; cases h.1) (by intro _ _ h; cases h.1) (fun e => J.pyEq_eq _ _ hx hy e)
  | .str _, y, hx, hy => Compat.other (by intro _ _ h; cases h.1) (by intro _ _ h; cases h.1) (fun e => J.pyEq_eq _ _ hx hy e)
theorem compat_ints_list : ∀ (xs : List J), J.intsOnlyList xs = true → ∀ x ∈ xs, ∀ y, y.intsOnly = true → Compat x y
  | [], _, x, hx, _, _ => by simp at hx
  | z :: zs, h, x, hx, y, hy => by
      simp only [J.intsOnlyList, Bool.and_eq_true] at h
      simp only [List.mem_cons] at hx
      rcases hx with rfl | hx
      · exact compat_ints x y h.1 hy
      · exact compat_ints_list zs h.2 x hx y hy
theorem compat_ints_kvs : ∀ (a : List (String × J)), J.intsOnlyKvs a = true → ∀ k av, lookupKV k a = some av →
    ∀ y, y.intsOnly = true → Compat av y
  | [], _, k, av, ha, _, _ => by simp [lookupKV] at ha
  | (zk, zv) :: zs, h, k, av, ha, y, hy => by
      simp only [J.intsOnlyKvs, Bool.and_eq_true] at h
      rw [lookupKV_cons'] at ha
      by_cases hk : zk = k
      · simp only [hk, if_true, Option.some.injEq] at ha
        subst ha
        exact compat_ints zv y h.1 hy
      · simp only [hk, if_false] at ha
        exact compat_ints_kvs zs h.2 k av ha y hy
end

end Nbdime
