import NbdimeProofs.Lemmas.SeqPatchBridge
import NbdimeProofs.Lemmas.SnakesValid
/-
  `compute_diff_from_snakes` (model: `fromSnakes`) followed by `patch_list` rebuilds the target
  for every ordered, in-bounds list of snakes — whatever the similarity predicates said — provided
  the sub-differ used on the aligned items is itself sound (`ItemOK`).
-/
namespace Nbdime
open Nbdime.Abs

/-- the differ used on aligned items produces a diff that patches the one into the other -/
def ItemOK (P : J → List Op → J → Prop) (recur : Recur) (cfg : Cfg) (dfr : Differ) (subpath : String)
    (A B : List J) : Prop :=
  ∀ i j (hi : i < A.length) (hj : j < B.length) (cd : List Op),
    recur cfg dfr subpath A[i] B[j] = .ok cd → P A[i] cd B[j] ∧ (cd = [] → A[i] = B[j])

variable {P : J → List Op → J → Prop}

/-- ordered, in-bounds, non-empty snakes from `(i0, j0)` on -/
abbrev SnakesOK (A B : List J) := SnakesIn A.length B.length

theorem slice_eq_slice' {α} (xs : List α) (lo hi : Nat) : slice xs lo hi = slice' xs lo hi := rfl

theorem snakePatches_built (recur : Recur) (cfg : Cfg) (dfr : Differ) (subpath : String)
    (A B : List J) (s : Snake) (hA : s.i + s.n ≤ A.length) (hB : s.j + s.n ≤ B.length)
    (hok : ItemOK P recur cfg dfr subpath A B) (m : Nat) (hm : m ≤ s.n) (di di' : List Op) (kb : Nat)
    (h : BuiltM P A B di (s.i + (s.n - m)) (s.j + (s.n - m)) kb) (hkb : kb ≤ s.i + (s.n - m))
    (hr : snakePatches recur cfg dfr subpath A B s m di = .ok di') :
    BuiltM P A B di' (s.i + s.n) (s.j + s.n) (max kb (s.i + s.n - 1)) := by
  induction m generalizing di kb with
  | zero =>
    simp only [snakePatches, Except.ok.injEq] at hr
    subst hr
    simp only [Nat.sub_zero] at h
    exact h.mono (Nat.le_max_left _ _)
  | succ m ih =>
    have hi : s.i + (s.n - (m + 1)) < A.length := by omega
    have hj : s.j + (s.n - (m + 1)) < B.length := by omega
    simp only [snakePatches, List.getElem?_eq_getElem hi, List.getElem?_eq_getElem hj, bind, Except.bind,
      pure, Except.pure] at hr
    cases hc : recur cfg dfr subpath A[s.i + (s.n - (m + 1))] B[s.j + (s.n - (m + 1))] with
    | error e => simp [hc] at hr
    | ok cd =>
      simp only [hc] at hr
      obtain ⟨hp, hnil⟩ := hok _ _ hi hj cd hc
      have hb := h.patch hkb hi hj cd hp hnil
      have e1 : s.i + (s.n - (m + 1)) + 1 = s.i + (s.n - m) := by omega
      have e2 : s.j + (s.n - (m + 1)) + 1 = s.j + (s.n - m) := by omega
      rw [e1, e2] at hb
      have := ih (by omega) _ _ hb (by omega) hr
      exact this.mono (by omega)

theorem slice'_length {α} (xs : List α) (lo hi : Nat) (h1 : lo ≤ hi) (h2 : hi ≤ xs.length) :
    (slice' xs lo hi).length = hi - lo := by
  simp [slice']; omega

/-- one snake step keeps the construction invariant -/
theorem snakeStep_built (recur : Recur) (cfg : Cfg) (subpath : String) (A B : List J) (s : Snake)
    (di : List Op) (i0 j0 kb : Nat) (hi0 : i0 ≤ s.i) (hj0 : j0 ≤ s.j)
    (hA : s.i + s.n ≤ A.length) (hB : s.j + s.n ≤ B.length)
    (hok : ItemOK P recur cfg (cfg.differ subpath) subpath A B)
    (h : BuiltM P A B di i0 j0 kb) (hkb : kb < i0 ∨ di = [])
    (st : List Op × Nat × Nat)
    (hr : snakeStep recur cfg subpath A B (di, i0, j0) s = .ok st) :
    st.2.1 = s.i + s.n ∧ st.2.2 = s.j + s.n ∧
    BuiltM P A B st.1 (s.i + s.n) (s.j + s.n) (max i0 (s.i + s.n - 1)) := by
  -- the two conditional builder calls are the unconditional ones
  have hrem : (if s.i > i0 then seqRemoverange di i0 (s.i - i0) else di) = seqRemoverange di i0 (s.i - i0) := by
    by_cases hc : s.i > i0
    · simp [hc]
    · have : s.i - i0 = 0 := by omega
      simp [hc, this, seqRemoverange]
  have hadd : ∀ d : List Op, (if s.j > j0 then seqAddrange d i0 (slice B j0 s.j) else d) =
      seqAddrange d i0 (slice B j0 s.j) := by
    intro d
    by_cases hc : s.j > j0
    · simp [hc]
    · have : s.j - j0 = 0 := by omega
      simp [hc, slice, this, seqAddrange]
  simp only [snakeStep, hrem, hadd, bind, Except.bind, pure, Except.pure] at hr
  cases hp : snakePatches recur cfg (cfg.differ subpath) subpath A B s s.n
      (seqAddrange (seqRemoverange di i0 (s.i - i0)) i0 (slice B j0 s.j)) with
  | error e => simp [hp] at hr
  | ok di2 =>
    simp only [hp, Except.ok.injEq] at hr
    subst hr
    refine ⟨rfl, rfl, ?_⟩
    have hlen : (slice B j0 s.j).length = s.j - j0 := slice'_length B j0 s.j hj0 (by omega)
    have hg := h.gap hkb (s.i - i0) (slice B j0 s.j) (by
      rw [hlen, slice_eq_slice']
      have : j0 + (s.j - j0) = s.j := by omega
      rw [this]) (by rw [hlen]; omega) (by omega)
    rw [hlen] at hg
    have e1 : i0 + (s.i - i0) = s.i := by omega
    have e2 : j0 + (s.j - j0) = s.j := by omega
    rw [e1, e2] at hg
    have := snakePatches_built recur cfg (cfg.differ subpath) subpath A B s hA hB hok s.n (Nat.le_refl _)
      _ di2 i0 (by simpa using hg) (by simpa using hi0) hp
    exact this

/-- the fold over the snakes followed by the end sentinel -/
theorem snakeFold_roundtrip (recur : Recur) (cfg : Cfg) (subpath : String) (A B : List J)
    (hok : ItemOK P recur cfg (cfg.differ subpath) subpath A B)
    (snakes : List Snake) (di : List Op) (i0 j0 kb : Nat)
    (hs : SnakesOK A B snakes i0 j0)
    (h : BuiltM P A B di i0 j0 kb) (hkb : kb < i0 ∨ di = [])
    (st : List Op × Nat × Nat)
    (hr : (snakes ++ [(⟨A.length, B.length, 0⟩ : Snake)]).foldlM (snakeStep recur cfg subpath A B) (di, i0, j0) = .ok st) :
    ∃ kb', BuiltM P A B st.1 A.length B.length kb' := by
  induction snakes generalizing di i0 j0 kb with
  | nil =>
    simp only [List.nil_append, List.foldlM_cons, List.foldlM_nil, bind, Except.bind, pure, Except.pure] at hr
    cases hp : snakeStep recur cfg subpath A B (di, i0, j0) ⟨A.length, B.length, 0⟩ with
    | error e => simp [hp] at hr
    | ok st1 =>
      simp only [hp, Except.ok.injEq] at hr
      subst hr
      obtain ⟨_, _, hb⟩ := snakeStep_built recur cfg subpath A B ⟨A.length, B.length, 0⟩ di i0 j0 kb
        hs.1 hs.2 (by simp) (by simp) hok h hkb st1 hp
      exact ⟨_, by simpa using hb⟩
  | cons s rest ih =>
    obtain ⟨h1, h2, h3, h6⟩ := hs
    have h4 := h6.start_le.1
    have h5 := h6.start_le.2
    simp only [List.cons_append, List.foldlM_cons, bind, Except.bind] at hr
    cases hp : snakeStep recur cfg subpath A B (di, i0, j0) s with
    | error e => simp [hp] at hr
    | ok st1 =>
      simp only [hp] at hr
      obtain ⟨e1, e2, hb⟩ := snakeStep_built recur cfg subpath A B s di i0 j0 kb h1 h2 h4 h5 hok h hkb st1 hp
      obtain ⟨d1, a1, b1⟩ := st1
      simp only at e1 e2 hb
      subst e1; subst e2
      exact ih d1 _ _ _ h6 hb (Or.inl (by omega)) hr

/-- `compute_diff_from_snakes`, for any item relation: the result is a finished construction -/
theorem fromSnakes_built (recur : Recur) (cfg : Cfg) (path : String) (A B : List J)
    (snakes : List Snake) (hs : SnakesOK A B snakes 0 0)
    (hok : ItemOK P recur cfg (cfg.differ (path ++ "/*")) (path ++ "/*") A B)
    (d : List Op) (h : fromSnakes recur cfg path A B snakes = .ok d) :
    ∃ kb, BuiltM P A B d A.length B.length kb := by
  unfold fromSnakes at h
  simp only [bind, Except.bind, pure, Except.pure] at h
  cases hf : (snakes ++ [(⟨A.length, B.length, 0⟩ : Snake)]).foldlM
      (snakeStep recur cfg (path ++ "/*") A B) ([], 0, 0) with
  | error e => simp [hf] at h
  | ok st =>
    obtain ⟨d1, a1, b1⟩ := st
    simp only [hf, Except.ok.injEq] at h
    subst h
    exact snakeFold_roundtrip recur cfg (path ++ "/*") A B hok snakes [] 0 0 0 hs (BuiltM.init A B) (Or.inr rfl) (d1, a1, b1) hf

/-- `diff_sequence_multilevel`, for any item relation, whatever the predicates answer -/
theorem multilevel_built (O : Oracle) (recur : Recur) (cfg : Cfg) (path : String) (A B : List J)
    (hok : ItemOK P recur cfg (cfg.differ (path ++ "/*")) (path ++ "/*") A B)
    (d : List Op) (h : multilevel O recur cfg path A B = .ok d) :
    ∃ kb, BuiltM P A B d A.length B.length kb := by
  unfold multilevel at h
  simp only [bind, Except.bind] at h
  cases hs : snakesML ((cfg.preds (orSlash path)).map O.pred) A B ((cfg.preds (orSlash path)).length - 1)
      ⟨0, 0, A.length, B.length⟩ with
  | error e => simp [hs] at h
  | ok snakes =>
    simp only [hs] at h
    have hin := snakesML_in _ A B _ ⟨0, 0, A.length, B.length⟩ snakes (Nat.zero_le _) (Nat.zero_le _) hs
    exact fromSnakes_built recur cfg path A B snakes hin hok d h

/-- `compute_diff_from_snakes` then `patch_list`: exact round trip -/
theorem fromSnakes_roundtrip (recur : Recur) (cfg : Cfg) (path : String) (A B : List J)
    (snakes : List Snake) (hs : SnakesOK A B snakes 0 0)
    (hok : ItemOK PatchRel recur cfg (cfg.differ (path ++ "/*")) (path ++ "/*") A B)
    (d : List Op) (h : fromSnakes recur cfg path A B snakes = .ok d) : patchList A d 0 = .ok B := by
  obtain ⟨kb, hb⟩ := fromSnakes_built recur cfg path A B snakes hs hok d h
  exact hb.done

/-- `diff_sequence_multilevel` then `patch_list`: exact round trip, whatever the predicates answer -/
theorem multilevel_roundtrip (O : Oracle) (recur : Recur) (cfg : Cfg) (path : String) (A B : List J)
    (hok : ItemOK PatchRel recur cfg (cfg.differ (path ++ "/*")) (path ++ "/*") A B)
    (d : List Op) (h : multilevel O recur cfg path A B = .ok d) : patchList A d 0 = .ok B := by
  obtain ⟨kb, hb⟩ := multilevel_built O recur cfg path A B hok d h
  exact hb.done

end Nbdime
