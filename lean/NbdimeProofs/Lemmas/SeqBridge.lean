import NbdimeModel
import NbdimeProofs.Lemmas.SeqAbstract
/- Bridge between the abstract sequence layer and the executable model (`patchList`). -/
namespace Nbdime
open Nbdime.Abs

def toOp : SOp J → Op
  | .addrange k vs => .addrange k vs
  | .removerange k n => .removerange k n

/-- the model's `patchList` on a diff made of addrange/removerange only never fails and is the
    abstract cursor semantics -/
theorem patchList_map_toOp (obj : List J) (ops : List (SOp J)) (take : Nat) :
    patchList obj (ops.map toOp) take = .ok (patchFrom ops take obj) := by
  induction ops generalizing take with
  | nil => simp [patchList, patchFrom]
  | cons e es ih =>
    cases e with
    | addrange k vs =>
      simp only [List.map_cons, toOp]
      rw [patchList]
      simp [ih, patchFrom, bind, Except.bind]
    | removerange k n =>
      simp only [List.map_cons, toOp]
      rw [patchList]
      simp [ih, patchFrom, bind, Except.bind]

end Nbdime
