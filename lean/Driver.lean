import Lean.Data.Json
import NbdimeModel
/-
  Line-protocol driver: one JSON request per line on stdin, one JSON reply per line on stdout.
  Tagged encoding (Lean's JSON normalises 1.0 to 1, so numbers travel as strings):
    null | true/false | {"i":"12"} | {"f":"1.5"} | "text" | [..] | {"o":[[k,v],..]}
  diff entries: ["add",k,v] ["remove",k] ["replace",k,v] ["patch",k,d] ["addrange",i,vs]
                ["addchars",i,"s"] ["removerange",i,n] ["patchi",i,d] ["invalid",what]
-/
open Lean Nbdime

partial def decJ (j : Json) : Except String J :=
  match j with
  | .null => .ok .null
  | .bool b => .ok (.bool b)
  | .str s => .ok (.str s.toList)
  | .arr xs => do
      let ys ← xs.toList.mapM decJ
      .ok (.arr ys)
  | .obj _ =>
      match j.getObjVal? "i" with
      | .ok (.str s) => match s.toInt? with
          | some i => .ok (.int i)
          | none => .error s!"bad int {s}"
      | _ => match j.getObjVal? "f" with
        | .ok (.str s) => .ok (.flt s)
        | _ => match j.getObjVal? "o" with
          | .ok (.arr kvs) => do
              let ps ← kvs.toList.mapM (fun kv => match kv with
                | .arr #[.str k, v] => do
                    let v' ← decJ v
                    pure (k, v')
                | _ => throw "bad kv")
              .ok (.obj (sortKV ps))
          | _ => .error "bad tagged object"
  | .num _ => .error "bare number"

partial def encJ : J → Json
  | .null => .null
  | .bool b => .bool b
  | .int i => Json.mkObj [("i", .str (toString i))]
  | .flt r => Json.mkObj [("f", .str r)]
  | .str s => .str (String.ofList s)
  | .arr xs => .arr (xs.map encJ).toArray
  | .obj kvs => Json.mkObj [("o", .arr (kvs.map (fun (k, v) => Json.arr #[.str k, encJ v])).toArray)]

def jnat (j : Json) : Except String Nat :=
  match j.getNat? with
  | .ok n => .ok n
  | .error e => .error e

partial def decOp (j : Json) : Except String Op :=
  match j with
  | .arr #[.str "add", .str k, v] => do pure (.add k (← decJ v))
  | .arr #[.str "remove", .str k] => pure (.remove k)
  | .arr #[.str "replace", .str k, v] => do pure (.replace k (← decJ v))
  | .arr #[.str "patch", .str k, .arr d] => do pure (.patchK k (← d.toList.mapM decOp))
  | .arr #[.str "addrange", i, .arr vs] => do pure (.addrange (← jnat i) (← vs.toList.mapM decJ))
  | .arr #[.str "addchars", i, .str s] => do pure (.addchars (← jnat i) s.toList)
  | .arr #[.str "removerange", i, n] => do pure (.removerange (← jnat i) (← jnat n))
  | .arr #[.str "patchi", i, .arr d] => do pure (.patchI (← jnat i) (← d.toList.mapM decOp))
  | .arr #[.str "invalid", .str w] => pure (.invalid w)
  | _ => .error s!"bad op {j.compress}"

def decDiff (j : Json) : Except String (List Op) :=
  match j with
  | .arr d => d.toList.mapM decOp
  | _ => .error "diff must be a list"

partial def encOp : Op → Json
  | .add k v => .arr #[.str "add", .str k, encJ v]
  | .remove k => .arr #[.str "remove", .str k]
  | .replace k v => .arr #[.str "replace", .str k, encJ v]
  | .patchK k d => .arr #[.str "patch", .str k, .arr (d.map encOp).toArray]
  | .addrange i vs => .arr #[.str "addrange", toJson i, .arr (vs.map encJ).toArray]
  | .addchars i cs => .arr #[.str "addchars", toJson i, .str (String.ofList cs)]
  | .removerange i n => .arr #[.str "removerange", toJson i, toJson n]
  | .patchI i d => .arr #[.str "patchi", toJson i, .arr (d.map encOp).toArray]
  | .invalid w => .arr #[.str "invalid", .str w]

def encDiff (d : List Op) : Json := .arr (d.map encOp).toArray

/-- injective rendering used as hash key for oracle memo lookups -/
partial def renderJ : J → String
  | .null => "n"
  | .bool b => if b then "t" else "f"
  | .int i => "i" ++ toString i ++ ";"
  | .flt r => "d" ++ r ++ ";"
  | .str s => "s" ++ toString s.length ++ ":" ++ String.ofList s
  | .arr xs => "[" ++ String.join (xs.map renderJ) ++ "]"
  | .obj kvs => "{" ++ String.join (kvs.map (fun (k, v) => "k" ++ toString k.length ++ ":" ++ k ++ renderJ v)) ++ "}"

def errJson (e : Err) : Json :=
  let what := match e with
    | .assertion w => w | .format w => w | .runtime w => w | .value w => w
    | .typeErr w => w | .key w => w | .index w => w | .oracleMiss w => w | .fuel => ""
  Json.mkObj [("err", .str e.cls), ("what", .str what)]

def reply {α} (r : Except Err α) (enc : α → Json) : Json :=
  match r with
  | .ok v => Json.mkObj [("ok", enc v)]
  | .error e => errJson e

def decDiffer : Json → Except String Differ
  | .str "generic" => pure .generic
  | .str "multilevel" => pure .multilevel
  | .str "stringLines" => pure .stringLines
  | .str "stringsByChar" => pure .stringsByChar
  | .str "singleOutputs" => pure .singleOutputs
  | .str "attachments" => pure .attachments
  | .str "ignore" => pure .ignore
  | .arr #[.str "ignoreKeys", inner, .arr keys] => do
      let i ← decDiffer inner
      let ks ← keys.toList.mapM (fun k => match k with
        | .str s => pure s
        | _ => throw "bad key")
      pure (.ignoreKeys i ks)
  | j => .error s!"bad differ {j.compress}"

def strList (j : Json) : Except String (List String) :=
  match j with
  | .arr xs => xs.toList.mapM (fun k => match k with
      | .str s => pure s
      | _ => throw "bad string list")
  | _ => .error "expected list of strings"

def decCfg (j : Json) : Except String Cfg := do
  let pt ← match j.getObjVal? "predTable" with
    | .ok (.arr xs) => xs.toList.mapM (fun kv => match kv with
        | .arr #[.str k, v] => do pure (k, ← strList v)
        | _ => throw "bad predTable")
    | _ => throw "predTable"
  let pd ← strList (j.getObjValD "predDefault")
  let pg ← strList (j.getObjValD "predGuard")
  let dt ← match j.getObjVal? "differTable" with
    | .ok (.arr xs) => xs.toList.mapM (fun kv => match kv with
        | .arr #[.str k, v] => do pure (k, ← decDiffer v)
        | _ => throw "bad differTable")
    | _ => throw "differTable"
  let dd ← decDiffer (j.getObjValD "differDefault")
  let at_ ← match j.getObjVal? "atomicTable" with
    | .ok (.arr xs) => xs.toList.mapM (fun kv => match kv with
        | .arr #[.str k, .bool b] => pure (k, b)
        | _ => throw "bad atomicTable")
    | _ => throw "atomicTable"
  pure { predTable := pt, predDefault := pd, predGuard := pg, differTable := dt,
         differDefault := dd, atomicTable := at_ }

/-- memo: {"vals":[v..], "cmp":[[name,ix,iy,bool]..], "opcodes":[[a,b,[[tag,i1,i2,j1,j2]..]]..]} -/
def decOracle (j : Json) : Except String Oracle := do
  let vals ← match j.getObjVal? "vals" with
    | .ok (.arr xs) => xs.toList.mapM decJ
    | _ => pure []
  let keys := (vals.map renderJ).toArray
  let mut cm : Std.HashMap String Bool := {}
  match j.getObjVal? "cmp" with
  | .ok (.arr xs) =>
      for e in xs do
        match e with
        | .arr #[.str name, ix, iy, .bool b] =>
            let x ← jnat ix
            let y ← jnat iy
            cm := cm.insert (name ++ "\x00" ++ keys[x]! ++ "\x00" ++ keys[y]!) b
        | _ => throw "bad cmp memo"
  | _ => pure ()
  let mut om : Std.HashMap String (List Opcode) := {}
  match j.getObjVal? "opcodes" with
  | .ok (.arr xs) =>
      for e in xs do
        match e with
        | .arr #[.str a, .str b, .arr ocs] =>
            let l ← ocs.toList.mapM (fun oc => match oc with
              | .arr #[.str tag, i1, i2, j1, j2] => do
                  pure ({ tag := tag, i1 := ← jnat i1, i2 := ← jnat i2, j1 := ← jnat j1, j2 := ← jnat j2 } : Opcode)
              | _ => throw "bad opcode")
            om := om.insert (a ++ "\x00" ++ b) l
        | _ => throw "bad opcodes memo"
  | _ => pure ()
  let cm' := cm
  let om' := om
  pure {
    cmp := fun name x y =>
      match cm'.get? (name ++ "\x00" ++ renderJ x ++ "\x00" ++ renderJ y) with
      | some b => .ok b
      | none => .error (.oracleMiss name)
    opcodes := fun a b =>
      match om'.get? (String.ofList a ++ "\x00" ++ String.ofList b) with
      | some l => .ok l
      | none => .error (.oracleMiss "opcodes") }

/-- the opcode answers of a memo, for checking the hypothesis `OracleOK` of the round-trip theorems -/
def decOpcodeAnswers (j : Json) : Except String (List (String × String × List Opcode)) :=
  match j.getObjVal? "opcodes" with
  | .ok (.arr xs) =>
      xs.toList.mapM (fun e => match e with
        | .arr #[.str a, .str b, .arr ocs] => do
            let l ← ocs.toList.mapM (fun oc => match oc with
              | .arr #[.str tag, i1, i2, j1, j2] => do
                  pure ({ tag := tag, i1 := ← jnat i1, i2 := ← jnat i2, j1 := ← jnat j1, j2 := ← jnat j2 } : Opcode)
              | _ => throw "bad opcode")
            pure (a, b, l)
        | _ => throw "bad opcodes memo")
  | _ => pure []

def decIgnVal : Json → Except String IgnVal
  | .bool true => pure .yes
  | .bool false => pure .no
  | j => do pure (.keys (← strList j))

def decCall (j : Json) : Except String Call := do
  let t ← j.getObjValAs? String "t"
  match t with
  | "diff" => do
      let a ← decJ (j.getObjValD "a")
      let b ← decJ (j.getObjValD "b")
      let O ← decOracle (j.getObjValD "memo")
      pure (.diff O a b)
  | "other" => pure .other
  | "reset" => pure .reset
  | "ignores" =>
      match j.getObjVal? "m" with
      | .ok (.arr xs) => do
          let m ← xs.toList.mapM (fun kv => match kv with
            | .arr #[.str k, v] => do pure (k, ← decIgnVal v)
            | _ => throw "bad ignores entry")
          pure (.ignores m)
      | _ => throw "ignores.m"
  | "targets" =>
      match j.getObjVal? "flags" with
      | .ok (.arr #[.bool s, .bool o, .bool a, .bool m, .bool i, .bool d]) => pure (.targets ⟨s, o, a, m, i, d⟩)
      | _ => throw "targets.flags"
  | _ => throw s!"bad call {t}"

def runHist (calls : List Call) : List Json :=
  let rec go (st : HState) : List Call → List Json
    | [] => []
    | c :: cs =>
        let (r, st') := step st c
        (match r with
         | none => Json.null
         | some res => reply res encDiff) :: go st' cs
  go .init calls

open Nbdime.GitCfg in
def decChunk : Json → Except String Chunk
  | .str "diffLine" => pure .diffLine
  | .str "mergeLine" => pure .mergeLine
  | .arr #[.str "foreign", .str s, .bool d, .bool m] => pure (.foreign s d m)
  | _ => throw "bad chunk"

open Nbdime.GitCfg in
def encChunk : Chunk → Json
  | .diffLine => .str "diffLine"
  | .mergeLine => .str "mergeLine"
  | .foreign s d m => .arr #[.str "foreign", .str s, .bool d, .bool m]

open Nbdime.GitCfg in
def decCmd : Json → Except String Cmd
  | .str "enableDiffDriver" => pure .enableDiffDriver
  | .str "disableDiffDriver" => pure .disableDiffDriver
  | .str "enableMergeDriver" => pure .enableMergeDriver
  | .str "disableMergeDriver" => pure .disableMergeDriver
  | .arr #[.str "enableDiffTool", .bool sd] => pure (.enableDiffTool sd)
  | .str "disableDiffTool" => pure .disableDiffTool
  | .arr #[.str "enableMergeTool", .bool sd] => pure (.enableMergeTool sd)
  | .str "disableMergeTool" => pure .disableMergeTool
  | .str "enableAll" => pure .enableAll
  | .str "disableAll" => pure .disableAll
  | j => throw s!"bad cmd {j.compress}"

open Nbdime.GitCfg in
def encStore (s : Store) : Json :=
  Json.mkObj [("cfg", .arr (s.cfg.map (fun (k, v) => Json.arr #[.str k, .str v])).toArray),
              ("attrs", match s.attrs with
                | none => .null
                | some cs => .arr (cs.map encChunk).toArray)]

open Nbdime.GitCfg in
def handleGitCfg (req : Json) : Except String Json := do
  let cfg ← match req.getObjVal? "cfg" with
    | .ok (.arr xs) => xs.toList.mapM (fun kv => match kv with
        | .arr #[.str k, .str v] => pure (k, v)
        | _ => throw "bad cfg entry")
    | _ => throw "gitcfg.cfg"
  let attrs ← match req.getObjVal? "attrs" with
    | .ok (.arr xs) => do pure (some (← xs.toList.mapM decChunk))
    | _ => pure none
  let cmds ← match req.getObjVal? "cmds" with
    | .ok (.arr xs) => xs.toList.mapM decCmd
    | _ => throw "gitcfg.cmds"
  let rec go (s : Store) : List Cmd → List Json
    | [] => []
    | c :: cs => let s' := step s c; encStore s' :: go s' cs
  pure (Json.mkObj [("ok", .arr (go ⟨cfg, attrs⟩ cmds).toArray)])

def objKvs (j : J) : List (String × J) :=
  match j with
  | .obj o => o
  | _ => []

open Nbdime.Config in
def handleCfg (req : Json) : Except String Json := do
  let mro ← match req.getObjVal? "mro" with
    | .ok (.arr xs) => xs.toList.mapM (fun c => do
        let name ← c.getObjValAs? String "name"
        let own ← decJ (c.getObjValD "own")
        pure ({ name := name, own := objKvs own } : Cls))
    | _ => throw "cfg.mro"
  let files ← match req.getObjVal? "files" with
    | .ok (.arr xs) => xs.toList.mapM (fun f => do pure (objKvs (← decJ f)))
    | _ => throw "cfg.files"
  let disk := diskConfig files
  let inter := match req.getObjVal? "interleaved" with
    | .ok (.bool true) => true
    | _ => false
  let r := if inter then buildConfigInterleaved mro disk else buildConfig mro disk
  pure (Json.mkObj [("ok", encJ (.obj r))])

open Nbdime.GitFiles in
def decRef : Json → Except String Ref
  | .str "index" => pure .index
  | .str "worktree" => pure .worktree
  | .arr #[.str "commit", .str n] => pure (.commit n)
  | _ => throw "bad ref"

def optStrList (j : Json) : Except String (Option (List String)) :=
  match j with
  | .null => pure none
  | j => do pure (some (← strList j))

def optStr (j : Json) : Option String :=
  match j with
  | .str s => some s
  | _ => none

open Nbdime.GitFiles in
def encStream : Stream → Json
  | .missing => .str "missing"
  | .blob l c => .arr #[.str "blob", .str l, .str c]
  | .file c => .arr #[.str "file", .str c]

open Nbdime.GitFiles in
def handleGitFiles (req : Json) : Except String Json := do
  let cwd ← strList (req.getObjValD "cwd")
  let repoDir ← strList (req.getObjValD "repoDir")
  let files ← match req.getObjVal? "files" with
    | .ok (.arr xs) => xs.toList.mapM (fun f => match f with
        | .arr #[p, .str c] => do pure (← strList p, c)
        | _ => throw "bad file")
    | _ => throw "gitfiles.files"
  let entries ← match req.getObjVal? "entries" with
    | .ok (.arr xs) => xs.toList.mapM (fun e => do
        let a ← optStrList (e.getObjValD "a")
        let b ← optStrList (e.getObjValD "b")
        pure ({ aPath := a, bPath := b, aBlob := optStr (e.getObjValD "ab"), bBlob := optStr (e.getObjValD "bb") } : Entry))
    | _ => throw "gitfiles.entries"
  let base ← decRef (req.getObjValD "base")
  let remote ← decRef (req.getObjValD "remote")
  let restore := match req.getObjVal? "restore" with
    | .ok (.bool false) => false
    | _ => true
  let (pairs, w) := changed restore base remote repoDir ⟨cwd, files⟩ entries
  pure (Json.mkObj [("ok", Json.mkObj [
    ("pairs", .arr (pairs.map (fun (a, b) => Json.arr #[encStream a, encStream b])).toArray),
    ("cwd", .arr (w.cwd.map Json.str).toArray)])])

open Nbdime.Web in
def decArg : Json → Except String Arg
  | .str "readable" => pure .readable
  | .str "unreadable" => pure .unreadable
  | .str "notString" => pure .notString
  | _ => throw "bad arg"

open Nbdime.Web in
def decWebReq : Json → Except String Req
  | .str "page" => pure .page
  | .str "apiClose" => pure .apiClose
  | .str "unknown" => pure .unknown
  | .arr #[.str "apiDiff", .bool ok, b, r] => do pure (.apiDiff ok (← decArg b) (← decArg r))
  | .arr #[.str "apiMerge", .bool ok, b, l, r] => do pure (.apiMerge ok (← decArg b) (← decArg l) (← decArg r))
  | .arr #[.str "apiStore", .str "malformedJson", _] => pure (.apiStore .malformedJson)
  | .arr #[.str "apiStore", .str "missingMerged", .bool f] => pure (.apiStore (.missingMerged f))
  | .arr #[.str "apiStore", .str "notSerialisable", .bool f] => pure (.apiStore (.notSerialisable f))
  | .arr #[.str "apiStore", .str "notebook", .bool f] => pure (.apiStore (.notebook f))
  | j => throw s!"bad web request {j.compress}"

open Nbdime.Web in
def handleWeb (req : Json) : Except String Json := do
  let pj := req.getObjValD "params"
  let cwd ← pj.getObjValAs? String "cwd"
  let out := optStr (pj.getObjValD "out")
  let closable := match pj.getObjVal? "closable" with
    | .ok (.bool b) => b
    | _ => false
  let sf := match req.getObjVal? "serialiseFirst" with
    | .ok (.bool false) => false
    | _ => true
  let reqs ← match req.getObjVal? "reqs" with
    | .ok (.arr xs) => xs.toList.mapM decWebReq
    | _ => throw "web.reqs"
  let enc := fun (r : Resp) => Json.mkObj [("status", toJson r.status), ("stops", .bool r.stops),
    ("effects", .arr (r.effects.map (fun e => match e with
      | .truncate p => Json.arr #[.str "truncate", .str p]
      | .write p => Json.arr #[.str "write", .str p])).toArray)]
  pure (Json.mkObj [("ok", .arr (reqs.map (fun r => enc (Nbdime.Web.handle sf ⟨cwd, out, closable⟩ r))).toArray)])

def decPKey : Json → Except String PKey
  | .str s => pure (.s s)
  | j => do pure (.i (← jnat j))

def optDiff (j : Json) : Except String (Option (List Op)) :=
  match j with
  | .null => pure none
  | j => do pure (some (← decDiff j))

def decDecision (j : Json) : Except String Decision := do
  let path ← match j.getObjVal? "path" with
    | .ok (.arr xs) => xs.toList.mapM decPKey
    | _ => throw "decision.path"
  let action ← j.getObjValAs? String "action"
  let conflict := match j.getObjVal? "conflict" with
    | .ok (.bool b) => b
    | _ => false
  pure { path := path, action := action, conflict := conflict,
         localDiff := ← optDiff (j.getObjValD "local"), remoteDiff := ← optDiff (j.getObjValD "remote"),
         customDiff := ← optDiff (j.getObjValD "custom") }

def decDecisions (j : Json) : Except String (List Decision) :=
  match j with
  | .arr xs => xs.toList.mapM decDecision
  | _ => throw "decisions must be a list"

def encOptDiff : Option (List Op) → Json
  | none => .null
  | some d => encDiff d

def encPKey : PKey → Json
  | .s k => .str k
  | .i n => toJson n

def encMD (d : Merge.MD) : Json :=
  Json.mkObj [("path", .arr (d.path.map encPKey).toArray), ("action", .str d.action), ("conflict", .bool d.conflict),
              ("local", encOptDiff d.localDiff), ("remote", encOptDiff d.remoteDiff), ("custom", encOptDiff d.customDiff),
              ("similar", encOptDiff d.similarInsert)]

def decStrategies (j : Json) : Except String Merge.Strategies := do
  let tab ← match j.getObjVal? "table" with
    | .ok (.arr xs) => xs.toList.mapM (fun kv => match kv with
        | .arr #[.str k, .str v] => pure (k, v)
        | _ => throw "bad strategy entry")
    | _ => throw "strategies.table"
  let tr ← strList (j.getObjValD "transients")
  pure { table := tab, transients := tr }

/-- render memo: [[base, local, remote, merged, status]..]; `builtin` = answer misses with the model of the built-in renderer -/
def decRender (j : Json) (builtin : Bool) : Except String Merge.Render := do
  let mut rm : Std.HashMap String (String × Nat) := {}
  match j with
  | .arr xs =>
      for e in xs do
        match e with
        | .arr #[.str b, .str l, .str r, .str m, st] =>
            rm := rm.insert (b ++ "\x00" ++ l ++ "\x00" ++ r) (m, ← jnat st)
        | _ => throw "bad render memo"
  | _ => pure ()
  let rm' := rm
  pure (fun b l r =>
    match rm'.get? (String.ofList b ++ "\x00" ++ String.ofList l ++ "\x00" ++ String.ofList r) with
    | some (m, st) => .ok (m.toList, st)
    | none => if builtin then .ok (Nbdime.Render.builtinMerge l r) else .error (.oracleMiss "merge_render"))

def handleMerge (req : Json) : Except String Json := do
  let base ← decJ (req.getObjValD "base")
  let ld ← decDiff (req.getObjValD "local")
  let rd ← decDiff (req.getObjValD "remote")
  let S ← decStrategies (req.getObjValD "strategies")
  let cfg ← decCfg (req.getObjValD "cfg")
  let O ← decOracle (req.getObjValD "memo")
  let builtin := match req.getObjVal? "builtin" with
    | .ok (.bool b) => b
    | _ => false
  let render ← decRender (req.getObjValD "render") builtin
  let E : Merge.Env := { O := O, cfg := cfg, S := S, render := render }
  match req.getObjVal? "want" with
  | .ok (.str "disjoint") => pure (Json.mkObj [("ok", .bool (Merge.disjoint S base ld rd))])
  | .ok (.str "cellwise") =>
      let side := fun (s : String) => (do
        let ds ← Merge.decideMerge E base ld rd
        applyAs s base (ds.map Merge.MD.toDecision) : Except Err J)
      pure (Json.mkObj [("ok", .bool (Merge.cellwise base ld rd && wf base ld && wf base rd)),
                        ("merged", reply (Merge.mergeApply E base ld rd) encJ),
                        ("both", reply (Merge.patchBoth base ld rd) encJ),
                        ("as_local", reply (side "local") encJ), ("as_remote", reply (side "remote") encJ),
                        ("local", reply (patch base ld) encJ), ("remote", reply (patch base rd) encJ)])
  | .ok (.str "mixedwise") =>
      let k := (req.getObjValAs? String "key").toOption.getD "cells"
      let side := fun (s : String) => (do
        let ds ← Merge.decideMerge E base ld rd
        applyAs s base (ds.map Merge.MD.toDecision) : Except Err J)
      pure (Json.mkObj [("ok", .bool (Merge.mixedwise base k ld rd)),
                        ("merged", reply (Merge.mergeApply E base ld rd) encJ),
                        ("both", reply (Merge.patchBothMixed base k ld rd) encJ),
                        ("as_local", reply (side "local") encJ), ("as_remote", reply (side "remote") encJ),
                        ("local", reply (patch base ld) encJ), ("remote", reply (patch base rd) encJ)])
  | .ok (.str "keywise") =>
      let side := fun (s : String) => (do
        let ds ← Merge.decideMerge E base ld rd
        applyAs s base (ds.map Merge.MD.toDecision) : Except Err J)
      pure (Json.mkObj [("ok", .bool (Merge.keywise base ld rd)),
                        ("merged", reply (Merge.mergeApply E base ld rd) encJ),
                        ("patched", reply (patch base (Merge.keywiseUnion ld rd)) encJ),
                        ("as_local", reply (side "local") encJ), ("as_remote", reply (side "remote") encJ),
                        ("local", reply (patch base ld) encJ), ("remote", reply (patch base rd) encJ)])
  | _ => pure (reply (Merge.decideMerge E base ld rd) (fun ds => .arr (ds.map encMD).toArray))

def handle (req : Json) : Except String Json := do
  let cmd ← req.getObjValAs? String "cmd"
  match cmd with
  | "patch" => do
      let doc ← decJ (req.getObjValD "doc")
      let d ← decDiff (req.getObjValD "diff")
      pure (reply (patch doc d) encJ)
  | "merge" => handleMerge req
  | "gitcfg" => handleGitCfg req
  | "cfg" => handleCfg req
  | "gitfiles" => handleGitFiles req
  | "web" => handleWeb req
  | "shouldignore" => do
      let p ← req.getObjValAs? String "path"
      match req.getObjVal? "include" with
      | .ok (.arr #[.bool a, .bool b, .bool c, .bool d, .bool e, .bool f]) =>
          pure (Json.mkObj [("ok", .bool (Nbdime.Pretty.shouldIgnore ⟨a, b, c, d, e, f⟩ p))])
      | _ => throw "shouldignore.include"
  | "tspatch" => do
      let doc ← decJ (req.getObjValD "doc")
      let d ← decDiff (req.getObjValD "diff")
      match reply (Nbdime.Ts.patch doc d) encJ with
      | .obj kvs => pure (.obj (kvs.insert "domain" (.bool (doc.canonical && Nbdime.Ts.noExotic doc && wf doc d))
                                 |>.insert "python" (reply (patch doc d) encJ)))
      | j => pure j
  | "tsapply" => do
      let base ← decJ (req.getObjValD "base")
      let ds ← decDecisions (req.getObjValD "decisions")
      pure (Json.mkObj [("ts", reply (Nbdime.Ts.applyDecisions base ds) encJ), ("py", reply (applyDecisions base ds) encJ)])
  | "tssplit" => do
      let t ← req.getObjValAs? String "text"
      pure (Json.mkObj [("ok", .arr ((Nbdime.Ts.splitLines t.toList).map (fun l => Json.str (String.ofList l))).toArray)])
  | "builtinmerge" => do
      let l ← req.getObjValAs? String "local"
      let r ← req.getObjValAs? String "remote"
      let (m, st) := Nbdime.Render.builtinMerge l.toList r.toList
      pure (Json.mkObj [("ok", .arr #[.str (String.ofList m), toJson st])])
  | "validcell" => do
      let cell ← decJ (req.getObjValD "cell")
      let minor ← jnat (req.getObjValD "minor")
      pure (Json.mkObj [("ok", .bool (Nbdime.NbShape.validCell minor cell))])
  | "apply" => do
      let base ← decJ (req.getObjValD "base")
      let ds ← decDecisions (req.getObjValD "decisions")
      pure (reply (applyDecisions base ds) encJ)
  | "applyas" => do
      let base ← decJ (req.getObjValD "base")
      let ds ← decDecisions (req.getObjValD "decisions")
      let side ← req.getObjValAs? String "side"
      pure (reply (applyAs side base ds) encJ)
  | "childrenfirst" => do
      let ds ← decDecisions (req.getObjValD "decisions")
      pure (Json.mkObj [("ok", .bool (childrenFirst ds))])
  | "hist" =>
      match req.getObjVal? "calls" with
      | .ok (.arr xs) => do
          let calls ← xs.toList.mapM decCall
          pure (Json.mkObj [("ok", .arr (runHist calls).toArray)])
      | _ => throw "hist.calls"
  | "wf" => do
      let doc ← decJ (req.getObjValD "doc")
      let d ← decDiff (req.getObjValD "diff")
      pure (Json.mkObj [("ok", .bool (wf doc d))])
  | "wfchars" => do
      let doc ← decJ (req.getObjValD "doc")
      let d ← decDiff (req.getObjValD "diff")
      match doc with
      | .str s => pure (Json.mkObj [("ok", .bool (wfChars s.length d 0 none))])
      | _ => throw "wfchars needs a string"
  | "splitlines" => do
      let doc ← decJ (req.getObjValD "doc")
      match doc with
      | .str s => pure (Json.mkObj [("ok", .arr ((splitLines s).map (fun l => Json.str (String.ofList l))).toArray)])
      | _ => throw "splitlines needs a string"
  | "oracleok" => do
      let answers ← decOpcodeAnswers (req.getObjValD "memo")
      let bad := answers.filter (fun (a, b, ocs) => !opcodesValid a.toList b.toList ocs)
      pure (Json.mkObj [("ok", .bool bad.isEmpty), ("checked", .num answers.length),
                        ("first_bad", match bad with
                          | (a, b, _) :: _ => .arr #[.str a, .str b]
                          | [] => .null)])
  | "diff" => do
      let a ← decJ (req.getObjValD "a")
      let b ← decJ (req.getObjValD "b")
      let O ← decOracle (req.getObjValD "memo")
      pure (reply (diffGeneric O a b) encDiff)
  | "diffnb" => do
      let a ← decJ (req.getObjValD "a")
      let b ← decJ (req.getObjValD "b")
      let O ← decOracle (req.getObjValD "memo")
      let cfg ← decCfg (req.getObjValD "cfg")
      pure (reply (diffNotebooks O cfg a b) encDiff)
  | _ => throw s!"unknown cmd {cmd}"

partial def loop (h : IO.FS.Stream) (out : IO.FS.Stream) : IO Unit := do
  let line ← h.getLine
  if line.isEmpty then return ()
  let r := match Json.parse line with
    | .error e => Json.mkObj [("bad", .str e)]
    | .ok req => match handle req with
      | .ok j => j
      | .error e => Json.mkObj [("bad", .str e)]
  out.putStrLn r.compress
  loop h out

def main : IO Unit := do
  let out ← IO.getStdout
  loop (← IO.getStdin) out
  out.flush
