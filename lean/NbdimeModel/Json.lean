/-
  JSON values as nbdime sees them (Python objects after `json.load` / `nbformat.read`).
  Import-free (core Lean only) so the line-protocol driver links as a native executable.

  * floats are carried as their Python `repr` (opaque text): no property needs float arithmetic,
    but `1`, `1.0` and `True` must stay different values (C02);
  * strings are lists of Unicode scalar values;
  * objects are association lists; the codec hands them over sorted by key and every model
    function that builds an object keeps them sorted (`insertKV`), so that `=` on `J` is
    "serialises to the same canonical JSON".
-/
namespace Nbdime

inductive J where
  | null
  | bool (b : Bool)
  | int (i : Int)
  | flt (r : String)
  | str (s : List Char)
  | arr (xs : List J)
  | obj (kvs : List (String × J))
  deriving Repr, Inhabited

/-- Python exception classes the modelled code can raise. -/
inductive Err where
  | assertion (what : String)   -- AssertionError
  | format (what : String)      -- NBDiffFormatError
  | runtime (what : String)     -- RuntimeError
  | value (what : String)       -- ValueError
  | typeErr (what : String)     -- TypeError
  | key (what : String)         -- KeyError
  | index (what : String)       -- IndexError
  | oracleMiss (what : String)  -- model asked the oracle a question the code never asked
  | fuel                        -- model ran out of recursion fuel (never on real inputs)
  deriving Repr, Inhabited, DecidableEq

def Err.cls : Err → String
  | .assertion _ => "AssertionError"
  | .format _ => "NBDiffFormatError"
  | .runtime _ => "RuntimeError"
  | .value _ => "ValueError"
  | .typeErr _ => "TypeError"
  | .key _ => "KeyError"
  | .index _ => "IndexError"
  | .oracleMiss w => "oracle-miss:" ++ w
  | .fuel => "fuel"

/-! ### strict (type-aware) equality: "serialises to the same JSON" -/
mutual
def J.beq : J → J → Bool
  | .null, .null => true
  | .bool a, .bool b => a == b
  | .int a, .int b => a == b
  | .flt a, .flt b => a == b
  | .str a, .str b => a == b
  | .arr a, .arr b => J.beqList a b
  | .obj a, .obj b => J.beqKvs a b
  | _, _ => false
def J.beqList : List J → List J → Bool
  | [], [] => true
  | x :: xs, y :: ys => J.beq x y && J.beqList xs ys
  | _, _ => false
def J.beqKvs : List (String × J) → List (String × J) → Bool
  | [], [] => true
  | (k, x) :: xs, (l, y) :: ys => k == l && J.beq x y && J.beqKvs xs ys
  | _, _ => false
end

instance : BEq J := ⟨J.beq⟩

/-! ### Python `==` on JSON values: `True == 1 == 1.0`. -/

/-- integer value of a float repr such as `"3.0"`, `"-0.0"`; `none` for non-integral reprs. -/
def fltIntVal (r : String) : Option Int :=
  let cs := r.toList
  let (neg, ds) := match cs with
    | '-' :: rest => (true, rest)
    | _ => (false, cs)
  let ip := ds.takeWhile Char.isDigit
  let rest := ds.dropWhile Char.isDigit
  if ip.isEmpty then none
  else if rest == ['.', '0'] then
    let n : Nat := ip.foldl (fun acc c => acc * 10 + (c.toNat - '0'.toNat)) 0
    some (if neg then - (Int.ofNat n) else Int.ofNat n)
  else none

/-- numeric view used by Python equality across bool / int / integral float. -/
def J.numVal : J → Option Int
  | .bool b => some (if b then 1 else 0)
  | .int i => some i
  | .flt r => fltIntVal r
  | _ => none

def J.isNum : J → Bool
  | .bool _ => true
  | .int _ => true
  | .flt _ => true
  | _ => false

mutual
def J.pyEq : J → J → Bool
  | .null, .null => true
  | .str a, .str b => a == b
  | .arr a, .arr b => J.pyEqList a b
  | .obj a, .obj b => J.pyEqKvs a b
  | .flt a, .flt b => a == b || (fltIntVal a).isSome && fltIntVal a == fltIntVal b
  | .bool a, .bool b => a == b
  | .int a, .int b => a == b
  | .bool a, .int b => (if a then (1:Int) else 0) == b
  | .int a, .bool b => a == (if b then (1:Int) else 0)
  | .bool a, .flt b => fltIntVal b == some (if a then (1:Int) else 0)
  | .flt a, .bool b => fltIntVal a == some (if b then (1:Int) else 0)
  | .int a, .flt b => fltIntVal b == some a
  | .flt a, .int b => fltIntVal a == some b
  | _, _ => false
def J.pyEqList : List J → List J → Bool
  | [], [] => true
  | x :: xs, y :: ys => J.pyEq x y && J.pyEqList xs ys
  | _, _ => false
def J.pyEqKvs : List (String × J) → List (String × J) → Bool
  | [], [] => true
  | (k, x) :: xs, (l, y) :: ys => k == l && J.pyEq x y && J.pyEqKvs xs ys
  | _, _ => false
end

/-- Python `type(a) is type(b)` on JSON values (dict / NotebookNode are one kind here). -/
def J.sameType : J → J → Bool
  | .null, .null => true
  | .bool _, .bool _ => true
  | .int _, .int _ => true
  | .flt _, .flt _ => true
  | .str _, .str _ => true
  | .arr _, .arr _ => true
  | .obj _, .obj _ => true
  | _, _ => false

/-- `not isinstance(x, (str, list, dict))` -/
def J.isLeaf : J → Bool
  | .str _ => false
  | .arr _ => false
  | .obj _ => false
  | _ => true

/-! ### association lists sorted by key -/

def lookupKV {α} (k : String) : List (String × α) → Option α
  | [] => none
  | (k', v) :: rest => if k' == k then some v else lookupKV k rest

def hasKey {α} (k : String) (kvs : List (String × α)) : Bool := (lookupKV k kvs).isSome

def eraseKV {α} (k : String) : List (String × α) → List (String × α)
  | [] => []
  | (k', v) :: rest => if k' == k then eraseKV k rest else (k', v) :: eraseKV k rest

/-- insert or overwrite, keeping the list sorted by key when it was sorted. -/
def insertKV {α} (k : String) (v : α) : List (String × α) → List (String × α)
  | [] => [(k, v)]
  | (k', v') :: rest =>
      if k < k' then (k, v) :: (k', v') :: rest
      else if k' == k then (k, v) :: rest
      else (k', v') :: insertKV k v rest

def sortKV {α} (kvs : List (String × α)) : List (String × α) :=
  kvs.foldl (fun acc kv => insertKV kv.1 kv.2 acc) []

def keysSorted {α} : List (String × α) → Bool
  | [] => true
  | [_] => true
  | (k, _) :: (k', v') :: rest => decide (k < k') && keysSorted ((k', v') :: rest)

/-- insertion sort of strings (Python `sorted` on `str` compares code points, as `String.lt`). -/
def insertStr (k : String) : List String → List String
  | [] => [k]
  | k' :: rest => if k < k' then k :: k' :: rest else if k' == k then k' :: rest else k' :: insertStr k rest

def sortStrs (ks : List String) : List String := ks.foldl (fun acc k => insertStr k acc) []

/- every object inside has strictly sorted keys. -/
mutual
def J.canonical : J → Bool
  | .arr xs => J.canonicalList xs
  | .obj kvs => keysSorted kvs && J.canonicalKvs kvs
  | _ => true
def J.canonicalList : List J → Bool
  | [] => true
  | x :: xs => J.canonical x && J.canonicalList xs
def J.canonicalKvs : List (String × J) → Bool
  | [] => true
  | (_, x) :: xs => J.canonical x && J.canonicalKvs xs
end

end Nbdime
