import NbdimeModel.Diff
/-
  C12 — the differ as a state machine. The only state a diff depends on is the table of differ
  overrides installed by `set_notebook_diff_ignores` / `set_notebook_diff_targets` and cleared by
  `reset_notebook_differ` (after the repair of F-guard, predicate lookups no longer insert keys;
  the similarity caches are transparent by oracle contract K1).
-/
namespace Nbdime

inductive IgnVal where
  | yes
  | no
  | keys (ks : List String)
  deriving Repr

/-- `notebook_differs.default_values` -/
def defaultDiffers : List (String × Differ) :=
  [("/cells", .multilevel), ("/cells/*", .generic), ("/cells/*/source", .stringLines),
   ("/cells/*/outputs", .multilevel), ("/cells/*/outputs/*", .singleOutputs),
   ("/cells/*/attachments", .attachments)]

/-- `notebook_predicates.default_values` -/
def defaultPreds : List (String × List String) :=
  [("/cells", ["compare_cell_approximate", "compare_cell_moderate", "compare_cell_strict", "compare_cell_by_ids"]),
   ("/cells/*/outputs", ["compare_output_approximate", "compare_output_strict"])]

structure HState where
  overrides : List (String × Differ)
  deriving Repr

def HState.init : HState := ⟨[]⟩

def HState.differAt (st : HState) (p : String) : Differ :=
  match lookupKV p st.overrides with
  | some d => d
  | none => (lookupKV p defaultDiffers).getD .generic

def setOverride (p : String) (d : Differ) (ov : List (String × Differ)) : List (String × Differ) :=
  (p, d) :: eraseKV p ov

/-- `set_notebook_diff_ignores`, entries in dict order -/
def applyIgnores (st : HState) : List (String × IgnVal) → HState
  | [] => st
  | (p, .yes) :: rest => applyIgnores ⟨setOverride p .ignore st.overrides⟩ rest
  | (p, .no) :: rest => applyIgnores ⟨eraseKV p st.overrides⟩ rest
  | (p, .keys ks) :: rest => applyIgnores ⟨setOverride p (.ignoreKeys (st.differAt p) ks) st.overrides⟩ rest

structure Targets where
  sources : Bool
  outputs : Bool
  attachments : Bool
  metadata : Bool
  identifier : Bool
  details : Bool
  deriving Repr

def onoff (process : Bool) : IgnVal := if process then .no else .yes

/-- the mapping `set_notebook_diff_targets` builds, in its insertion order -/
def targetsMapping (t : Targets) : List (String × IgnVal) :=
  [("/cells/*/source", onoff t.sources), ("/cells/*/outputs", onoff t.outputs),
   ("/cells/*/attachments", onoff t.attachments), ("/metadata", onoff t.metadata),
   ("/cells/*/id", onoff t.identifier), ("/cells/*/metadata", onoff t.metadata),
   ("/cells/*/outputs/*/metadata", onoff t.metadata),
   ("/cells/*", if t.details then .no else .keys ["execution_count"]),
   ("/cells/*/outputs/*", if t.details then .no else .keys ["execution_count"])]

def HState.cfg (st : HState) : Cfg :=
  { predTable := defaultPreds, predDefault := ["eq"], predGuard := [],
    differTable := st.overrides ++ defaultDiffers, differDefault := .generic,
    atomicTable := [("/cells/*/id", true)] }

inductive Call where
  | diff (O : Oracle) (a b : J)
  | other                        -- merge / render calls: no differ state is written
  | ignores (m : List (String × IgnVal))
  | targets (t : Targets)
  | reset

def Call.isConfig : Call → Bool
  | .ignores _ => true
  | .targets _ => true
  | _ => false

abbrev Result := Option (Except Err (List Op))

def step (st : HState) : Call → Result × HState
  | .diff O a b => (some (diffNotebooks O st.cfg a b), st)
  | .other => (none, st)
  | .ignores m => (none, applyIgnores st m)
  | .targets t => (none, applyIgnores st (targetsMapping t))
  | .reset => (none, .init)

def run (st : HState) : List Call → HState
  | [] => st
  | c :: cs => run (step st c).2 cs

def Call.isReset : Call → Bool
  | .reset => true
  | _ => false

def hasReset (h : List Call) : Bool := h.any Call.isReset

/-- the configuration calls since the last reset: all that a fresh process has to replay -/
def configSuffix : List Call → List Call
  | [] => []
  | c :: cs =>
      if hasReset cs then configSuffix cs
      else match c with
        | .reset => configSuffix cs
        | .ignores m => .ignores m :: configSuffix cs
        | .targets t => .targets t :: configSuffix cs
        | _ => configSuffix cs

end Nbdime
