import NbdimeModel.Lcs
import NbdimeModel.Patch
/-
  `nbdime/diffing/generic.py`, `sequences.py`, `seq_difflib.py` and the differs of
  `nbdime/diffing/notebooks.py`. Similarity predicates and difflib are *oracles* (parameters);
  what is done with their answers is modelled.
-/
namespace Nbdime

inductive Differ where
  | generic                                   -- `diff`
  | multilevel                                -- `diff_sequence_multilevel`
  | stringLines                               -- `diff_string_lines`
  | stringsByChar                             -- `diff_strings_by_char`
  | singleOutputs                             -- `diff_single_outputs`
  | attachments                               -- `diff_attachments`
  | ignore                                    -- `diff_ignore`
  | ignoreKeys (inner : Differ) (keys : List String)   -- `diff_ignore_keys(inner, keys)`
  deriving Repr, Inhabited

/-- The three tables of a `DiffConfig`, as data. Predicates are named: `"eq"` is
    `operator.__eq__`, every other name is answered by the oracle. -/
structure Cfg where
  predTable : List (String × List String)
  predDefault : List String
  predGuard : List String          -- paths explicitly present in the predicate table
  differTable : List (String × Differ)
  differDefault : Differ
  atomicTable : List (String × Bool)
  deriving Repr, Inhabited

def Cfg.preds (c : Cfg) (path : String) : List String :=
  (lookupKV path c.predTable).getD c.predDefault
def Cfg.differ (c : Cfg) (path : String) : Differ :=
  (lookupKV path c.differTable).getD c.differDefault
def Cfg.isAtomic (c : Cfg) (x : J) (path : String) : Bool :=
  match lookupKV path c.atomicTable with
  | some b => b
  | none => x.isLeaf

structure Opcode where
  tag : String
  i1 : Nat
  i2 : Nat
  j1 : Nat
  j2 : Nat
  deriving Repr

structure Oracle where
  cmp : String → J → J → Except Err Bool
  opcodes : List Char → List Char → Except Err (List Opcode)

def defaultCfg : Cfg :=
  { predTable := [], predDefault := ["eq"], predGuard := [], differTable := [],
    differDefault := .generic, atomicTable := [] }

/-- the config `diff_strings_linewise` builds for itself -/
def linesCfg : Cfg :=
  { predTable := [], predDefault := ["compare_strings_approximate", "eq"], predGuard := [],
    differTable := [], differDefault := .stringsByChar, atomicTable := [] }

def Oracle.pred (O : Oracle) (name : String) : J → J → Except Err Bool :=
  if name == "eq" then fun x y => .ok (J.pyEq x y) else O.cmp name

def orSlash (path : String) : String := if path.isEmpty then "/" else path

/-- `opcodes_to_diff` on characters -/
def opcodesToDiff (b : List Char) : List Opcode → List Op → Except Err (List Op)
  | [], di => .ok di
  | oc :: rest, di =>
      if oc.tag == "equal" then opcodesToDiff b rest di
      else if oc.tag == "replace" then
        let di := seqRemoverange di oc.i1 (oc.i2 - oc.i1)
        opcodesToDiff b rest (seqAddchars di oc.i1 (slice b oc.j1 oc.j2))
      else if oc.tag == "insert" then
        opcodesToDiff b rest (seqAddchars di oc.i1 (slice b oc.j1 oc.j2))
      else if oc.tag == "delete" then
        opcodesToDiff b rest (seqRemoverange di oc.i1 (oc.i2 - oc.i1))
      else .error (.runtime "Unknown action")

/-- difflib's contract for `get_opcodes()`: the opcodes tile `a` and `b` from `(0,0)` to the ends,
    `equal` blocks are non-empty and equal, and two edits are always separated by an `equal` block.
    The round-trip theorems assume it of the oracle; the harness evaluates it on every recorded answer. -/
def opcodesValidAux (a b : List Char) : List Opcode → Nat → Nat → Bool → Bool
  | [], i, j, _ => i == a.length && j == b.length
  | oc :: rest, i, j, lastEdit =>
      oc.i1 == i && oc.j1 == j && decide (oc.i1 ≤ oc.i2) && decide (oc.j1 ≤ oc.j2) &&
      decide (oc.i2 ≤ a.length) && decide (oc.j2 ≤ b.length) &&
      (if oc.tag == "equal" then
         decide (oc.i1 < oc.i2) && slice a oc.i1 oc.i2 == slice b oc.j1 oc.j2 &&
         opcodesValidAux a b rest oc.i2 oc.j2 false
       else if oc.tag == "replace" || oc.tag == "insert" || oc.tag == "delete" then
         !lastEdit && (oc.tag != "insert" || oc.i1 == oc.i2) && (oc.tag != "delete" || oc.j1 == oc.j2) &&
         opcodesValidAux a b rest oc.i2 oc.j2 true
       else false)

def opcodesValid (a b : List Char) (ocs : List Opcode) : Bool := opcodesValidAux a b ocs 0 0 false

def diffStringsByChar (O : Oracle) (a b : List Char) : Except Err (List Op) :=
  if a == b then .ok [] else do
    let ocs ← O.opcodes a b
    opcodesToDiff b ocs []

def countConsumed : Op → Except Err (Nat × Nat)
  | .addrange _ vs => .ok (0, vs.length)
  | .addchars _ cs => .ok (0, cs.length)
  | .removerange _ n => .ok (n, 0)
  | .patchI _ _ => .ok (1, 1)
  | _ => .error (.format "Invalid op")

def mimeSplit (key : String) : Bool :=
  let m := key.toLower
  m.startsWith "text/" || m.startsWith "image/svg+xml" || m.startsWith "application/javascript" ||
  m.startsWith "application/json"

def listDiffKeys (a b : List (String × J)) : List String × List String × List String :=
  let ak := a.map (·.1)
  let bk := b.map (·.1)
  (sortStrs (ak.filter (fun k => !bk.contains k)),
   sortStrs (ak.filter (fun k => bk.contains k)),
   sortStrs (bk.filter (fun k => !ak.contains k)))

def filterIgnored (keys : List String) (d : List Op) : List Op :=
  d.filter (fun e => match e.key with
    | .s k => !keys.contains k
    | _ => true)

abbrev Recur := Cfg → Differ → String → J → J → Except Err (List Op)

/-- `diff_lists` item loop: `n` aligned items starting at `(i, j)` -/
def itemLoop (recur : Recur) (cfg : Cfg) (subpath : String) (al bl : List J) :
    Nat → Nat → Nat → List Op → Except Err (List Op)
  | _, _, 0, di => .ok di
  | i, j, n + 1, di => do
      let av ← match al[i]? with
        | some v => pure v
        | none => throw (.index "a[i + k]")
      let bv ← match bl[j]? with
        | some v => pure v
        | none => throw (.index "b[j + k]")
      let di ← if !cfg.isAtomic av subpath then do
          let cd ← recur cfg (cfg.differ subpath) subpath av bv
          pure (seqPatch di i cd)
        else pure di
      itemLoop recur cfg subpath al bl (i + 1) (j + 1) n di

/-- the per-snake body of `compute_diff_from_snakes`: patches for `k in range(n)` -/
def snakePatches (recur : Recur) (cfg : Cfg) (dfr : Differ) (subpath : String) (al bl : List J)
    (s : Snake) : Nat → List Op → Except Err (List Op)
  | 0, di => .ok di
  | m + 1, di => do
      -- k runs 0 .. n-1 in increasing order: k = s.n - (m+1)
      let k := s.n - (m + 1)
      let av ← match al[s.i + k]? with
        | some v => pure v
        | none => throw (.index "a[i + k]")
      let bv ← match bl[s.j + k]? with
        | some v => pure v
        | none => throw (.index "b[j + k]")
      let cd ← recur cfg dfr subpath av bv
      snakePatches recur cfg dfr subpath al bl s m (seqPatch di (s.i + k) cd)

/-- one snake of `compute_diff_from_snakes`: state is (diff so far, i0, j0) -/
def snakeStep (recur : Recur) (cfg : Cfg) (subpath : String) (al bl : List J)
    (st : List Op × Nat × Nat) (s : Snake) : Except Err (List Op × Nat × Nat) := do
  let (di, i0, j0) := st
  let di := if s.i > i0 then seqRemoverange di i0 (s.i - i0) else di
  let di := if s.j > j0 then seqAddrange di i0 (slice bl j0 s.j) else di
  let di ← snakePatches recur cfg (cfg.differ subpath) subpath al bl s s.n di
  pure (di, s.i + s.n, s.j + s.n)

/-- `compute_diff_from_snakes` -/
def fromSnakes (recur : Recur) (cfg : Cfg) (path : String) (al bl : List J) (snakes : List Snake) :
    Except Err (List Op) := do
  let (di, _, _) ← (snakes ++ [(⟨al.length, bl.length, 0⟩ : Snake)]).foldlM
    (snakeStep recur cfg (path ++ "/*") al bl) ([], 0, 0)
  pure di

/-- `diff_sequence_multilevel` -/
def multilevel (O : Oracle) (recur : Recur) (cfg : Cfg) (path : String) (al bl : List J) :
    Except Err (List Op) := do
  let names := cfg.preds (orSlash path)
  let cmps := names.map O.pred
  let snakes ← snakesML cmps al bl (names.length - 1) ⟨0, 0, al.length, bl.length⟩
  fromSnakes recur cfg path al bl snakes

/-- one entry of the shallow diff in `diff_lists`: state is (diff so far, i, j) -/
def listStep (recur : Recur) (cfg : Cfg) (subpath : String) (al bl : List J)
    (st : List Op × Nat × Nat) (e : Op) : Except Err (List Op × Nat × Nat) := do
  let (di, i, j) := st
  let n := e.idx - i
  let (askip, bskip) ← countConsumed e
  let di ← itemLoop recur cfg subpath al bl i j n di
  pure (seqAppend di e, i + n + askip, j + n + bskip)

/-- `diff_lists` -/
def diffLists (O : Oracle) (recur : Recur) (cfg : Cfg) (path : String) (al bl : List J) :
    Except Err (List Op) := do
  let names := cfg.preds (orSlash path)
  if names.length > 1 then multilevel O recur cfg path al bl
  else do
    let c0 ← match names[0]? with
      | some n => pure n
      | none => throw (.index "compares[0]")
    let shallow ← diffSequence (O.pred c0) al bl
    let subpath := path ++ "/*"
    let (di, i, j) ← shallow.foldlM (listStep recur cfg subpath al bl) ([], 0, 0)
    if al.length < i then throw (.assertion "Cannot have negative remaining entries")
    let n := al.length - i
    if bl.length < j ∨ bl.length - j != n then throw (.assertion "Base/remote indexing mismatch")
    itemLoop recur cfg subpath al bl i j n di

/-- `diff_strings_linewise`: its own config, so the recursion only reaches `stringsByChar` -/
def stringsLinewise (O : Oracle) (recur : Recur) (a b : List Char) : Except Err (List Op) :=
  if a == b then .ok [] else
    diffLists O recur linesCfg "" ((splitLines a).map J.str) ((splitLines b).map J.str)

/-- one key present on both sides in `diff_dicts` -/
def dictBothStep (recur : Recur) (cfg : Cfg) (path : String) (a b : List (String × J))
    (di : List (String × Op)) (k : String) : Except Err (List (String × Op)) := do
  let av := (lookupKV k a).getD .null
  let bv := (lookupKV k b).getD .null
  let subpath := path ++ "/" ++ k
  if av.sameType bv && !cfg.isAtomic av subpath then do
    let dd ← recur cfg (cfg.differ subpath) subpath av bv
    mapPatch di k dd
  else
    if cfg.predGuard.contains (orSlash path) then
      throw (.runtime "Found predicate(s) for path pointing to dict entry")
    else if !J.pyEq av bv then mapAppend di (.replace k bv)
    else pure di

/-- `diff_dicts` -/
def diffDicts (recur : Recur) (cfg : Cfg) (path : String) (a b : List (String × J)) :
    Except Err (List Op) := do
  let (rem, both, add) := listDiffKeys a b
  let di : List (String × Op) := []
  let di ← rem.foldlM (fun di k => mapAppend di (.remove k)) di
  let di ← both.foldlM (dictBothStep recur cfg path a b) di
  let di ← add.foldlM (fun di k => mapAppend di (.add k ((lookupKV k b).getD .null))) di
  pure (mapValidated di)

/-- `diff` -/
def genericDiff (O : Oracle) (recur : Recur) (cfg : Cfg) (path : String) (a b : J) : Except Err (List Op) :=
  match a, b with
  | .arr al, .arr bl => diffLists O recur cfg path al bl
  | .obj ak, .obj bk => diffDicts recur cfg path ak bk
  | .str sa, .str sb => stringsLinewise O recur sa sb
  | _, _ => .error (.runtime "Can currently only diff list, dict, or str objects.")

/-- `isinstance(avalue, str) and avalue == bvalue` -/
def sameStr : J → J → Bool
  | .str x, .str y => x == y
  | _, _ => false

/-- `add_mime_diff` (its `diff` call uses a fresh default config) -/
def addMimeDiff (O : Oracle) (recur : Recur) (key : String) (av bv : J) (di : List (String × Op)) :
    Except Err (List (String × Op)) :=
  if sameStr av bv then .ok di
  else if mimeSplit key then do
    let dd ← genericDiff O recur defaultCfg "" av bv
    mapPatch di key dd
  else if !J.pyEq av bv then mapAppend di (.replace key bv)
  else .ok di

/-- one common key of `diff_mime_bundle` -/
def mimeStep (O : Oracle) (recur : Recur) (ak bk : List (String × J)) (di : List (String × Op)) (k : String) :
    Except Err (List (String × Op)) :=
  addMimeDiff O recur k ((lookupKV k ak).getD .null) ((lookupKV k bk).getD .null) di

/-- `diff_mime_bundle` -/
def mimeBundle (O : Oracle) (recur : Recur) (a b : J) : Except Err (List Op) :=
  match a, b with
  | .obj ak, .obj bk => do
      let (rem, both, add) := listDiffKeys ak bk
      let di : List (String × Op) := []
      let di ← rem.foldlM (fun di k => mapAppend di (.remove k)) di
      let di ← both.foldlM (mimeStep O recur ak bk) di
      let di ← add.foldlM (fun di k => mapAppend di (.add k ((lookupKV k bk).getD .null))) di
      pure (mapValidated di)
  | _, _ => .error (.typeErr "MIME bundles should be dictionaries")

/-- one common key of `diff_attachments` -/
def attachStep (O : Oracle) (recur : Recur) (ak bk : List (String × J)) (di : List (String × Op)) (k : String) :
    Except Err (List (String × Op)) := do
  let dd ← mimeBundle O recur ((lookupKV k ak).getD .null) ((lookupKV k bk).getD .null)
  mapPatch di k dd

/-- `diff_attachments` -/
def attachmentsDiff (O : Oracle) (recur : Recur) (path : String) (a b : J) : Except Err (List Op) :=
  if path != "/cells/*/attachments" then .error (.assertion "Invalid path for attachment") else
  match a, b with
  | .obj ak, .obj bk => do
      let (rem, both, add) := listDiffKeys ak bk
      let di : List (String × Op) := []
      let di ← rem.foldlM (fun di k => mapAppend di (.remove k)) di
      let di ← both.foldlM (attachStep O recur ak bk) di
      let di ← add.foldlM (fun di k => mapAppend di (.add k ((lookupKV k bk).getD .null))) di
      pure (mapValidated di)
  | _, _ => .error (.typeErr "Attachments stores should be dictionaries")

/-- `diff_single_outputs` -/
def singleOutputs (O : Oracle) (recur : Recur) (cfg : Cfg) (path : String) (a b : J) : Except Err (List Op) :=
  if path != "/cells/*/outputs/*" then .error (.assertion "Invalid path for ouput") else
  match a, b with
  | .obj ak, .obj bk =>
      match lookupKV "output_type" ak, lookupKV "output_type" bk with
      | some ta, some tb =>
        if !J.pyEq ta tb then .error (.assertion "cannot diff outputs of different types")
        else if J.pyEq ta (.str "execute_result".toList) || J.pyEq ta (.str "display_data".toList) then
          match lookupKV "data" ak, lookupKV "data" bk with
          | some da, some db => do
              let dconj ← genericDiff O recur cfg path (.obj (eraseKV "data" ak)) (.obj (eraseKV "data" bk))
              let di ← dconj.foldlM mapAppend ([] : List (String × Op))
              let dd ← mimeBundle O recur da db
              let di ← mapPatch di "data" dd
              pure (mapValidated di)
          | _, _ => .error (.key "data")
        else genericDiff O recur cfg path a b
      | _, _ => .error (.key "output_type")   -- AttributeError/KeyError in Python
  | _, _ => .error (.typeErr "outputs should be dictionaries")

/-- All differs, with recursion fuel (decreases on every descent into a sub-document). -/
def diffAt (O : Oracle) : Nat → Cfg → Differ → String → J → J → Except Err (List Op)
  | 0, _, _, _, _, _ => .error .fuel
  | fuel + 1, cfg, dfr, path, a, b =>
    let recur : Recur := diffAt O fuel
    match dfr with
    | .generic => genericDiff O recur cfg path a b
    | .multilevel =>
        match a, b with
        | .arr al, .arr bl => multilevel O recur cfg path al bl
        | _, _ => .error (.typeErr "diff_sequence_multilevel on non-lists")
    | .stringLines =>
        match a, b with
        | .str sa, .str sb => stringsLinewise O recur sa sb
        | _, _ => .error (.assertion "Arguments need to be string types")
    | .stringsByChar =>
        match a, b with
        | .str sa, .str sb => diffStringsByChar O sa sb
        | _, _ => .error (.assertion "Arguments need to be string types")
    | .ignore => .ok []
    | .ignoreKeys inner keys => do
        let d ← recur cfg inner path a b
        pure (filterIgnored keys d)
    | .attachments => attachmentsDiff O recur path a b
    | .singleOutputs => singleOutputs O recur cfg path a b

/-- fuel used by the driver; deeper documents than this are outside the model -/
def bigFuel : Nat := 100000

def diffGeneric (O : Oracle) (a b : J) : Except Err (List Op) :=
  diffAt O bigFuel defaultCfg .generic "" a b

def diffNotebooks (O : Oracle) (cfg : Cfg) (a b : J) : Except Err (List Op) :=
  match a, b with
  | .obj _, .obj _ => diffAt O bigFuel cfg .generic "" a b
  | _, _ => .error (.typeErr "Expected inputs to be dicts")

end Nbdime
