import NbdimeModel.Json
/-
  C19 — option resolution (`nbdime/config.py`, `args.ConfigBackedParser`).
  A configuration is a JSON object; `recursive_update` merges nested objects key by key, a
  `null` deletes the key, emptied sub-objects are pruned (include_none = False).
-/
namespace Nbdime.Config

/-- one `k, v` of `recursive_update`; `rec` is the recursive call for nested objects -/
def updStep (rec : List (String × J) → List (String × J) → List (String × J))
    (t : List (String × J)) (kv : String × J) : List (String × J) :=
  match kv.2 with
  | .obj sub =>
      let cur := match lookupKV kv.1 t with
        | some (.obj o) => o
        | _ => []
      let merged := rec cur sub
      if merged.isEmpty then eraseKV kv.1 t else insertKV kv.1 (.obj merged) t
  | .null => eraseKV kv.1 t
  | v => insertKV kv.1 v t

/-- `recursive_update(target, new, include_none=False)`; fuel bounds the nesting depth. -/
def recUpdate : Nat → List (String × J) → List (String × J) → List (String × J)
  | 0, target, _ => target
  | fuel + 1, target, new => new.foldl (updStep (recUpdate fuel)) target

/-- a configurable class: its section name and the defaults of the traits it declares itself -/
structure Cls where
  name : String
  own : List (String × J)
  deriving Repr

/-- `_load_config_files` + merge: `files` in ascending priority (system, user, ..., cwd). -/
def diskConfig (files : List (List (String × J))) : List (String × J) :=
  files.foldl (fun acc f => recUpdate 8 acc f) []

def sectionOf (disk : List (String × J)) (name : String) : List (String × J) :=
  match lookupKV name disk with
  | some (.obj o) => o
  | _ => []

/-- `build_config` as repaired: all class defaults along the reversed MRO, then all sections
    along the reversed MRO. `mro` is most specific first. -/
def buildConfig (mro : List Cls) (disk : List (String × J)) : List (String × J) :=
  let defaults := mro.reverse.foldl (fun acc c => recUpdate 8 acc c.own) []
  mro.reverse.foldl (fun acc c => recUpdate 8 acc (sectionOf disk c.name)) defaults

/-- the unrepaired layering: defaults and section interleaved class by class -/
def buildConfigInterleaved (mro : List Cls) (disk : List (String × J)) : List (String × J) :=
  mro.reverse.foldl (fun acc c => recUpdate 8 (recUpdate 8 acc c.own) (sectionOf disk c.name)) []

/-- command line flag, else the configured value, else argparse's own default -/
def effective (mro : List Cls) (files : List (List (String × J))) (flags argDefaults : List (String × J))
    (opt : String) : Option J :=
  match lookupKV opt flags with
  | some v => some v
  | none => match lookupKV opt (buildConfig mro (diskConfig files)) with
    | some v => some v
    | none => lookupKV opt argDefaults

end Nbdime.Config
