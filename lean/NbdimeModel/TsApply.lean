import NbdimeModel.Apply
import NbdimeModel.TsPatch
/-
  C15 — the browser-side applier: `applyDecisions`, `resolveAction`, `splitDiffStringPath`, `pushPath` and the action
  check of the `MergeDecision` constructor in packages/nbdime/src/merge/decisions.ts.
  Differences from `apply_decisions` (Python, `Apply.lean`) that the model keeps: the diffs of decisions on one path are
  concatenated in decision order and handed to the browser-side `patch` without `combine_patches`; a missing diff counts
  as an empty one; the action vocabulary is the TypeScript one (`clear_parent` instead of `clear_all`; no `remove`,
  `take_max`); `clear_parent` on an object iterates the object and throws.
  JavaScript corner cases on ill-formed input (`undefined` while walking a path, numeric keys on objects) are mapped
  to `.runtime "unmodelled"`; the correspondence check treats that answer as "outside the model".
-/
namespace Nbdime.Ts
open Nbdime

def unmodelled {α} : Except Err α := .error (.runtime "unmodelled")

/-- `makeClearedValue` -/
def makeClearedValue : J → J
  | .arr _ => .arr []
  | .str _ => .str []
  | .obj _ => .obj []
  | _ => .null

/-- the key loop of the `clear` action over the combined diffs: `key` stays unset while falsy (`""`) -/
def clearKey : Option String → List Op → Except Err (Option String)
  | key, [] => .ok key
  | key, d :: rest =>
      match d with
      | .add k _ | .remove k | .replace k _ | .patchK k _ =>
          (match key with
           | some k0 => if k0 != "" then (if k0 != k then .error (.runtime "Cannot combine diffs with different keys") else clearKey key rest)
                        else clearKey (some k) rest
           | none => clearKey (some k) rest)
      | _ => unmodelled

/-- `resolveAction(base, decision)` -/
def resolveAction (base : J) (d : Decision) : Except Err (List Op) :=
  let get := fun (x : Option (List Op)) => x.getD []
  match d.action with
  | "base" => .ok []
  | "local" => .ok (get d.localDiff)
  | "either" => .ok (get d.localDiff)
  | "remote" => .ok (get d.remoteDiff)
  | "custom" => .ok (get d.customDiff)
  | "local_then_remote" => .ok (get d.localDiff ++ get d.remoteDiff)
  | "remote_then_local" => .ok (get d.remoteDiff ++ get d.localDiff)
  | "clear" =>
      match base with
      | .obj kvs => do
          match ← clearKey none (get d.localDiff ++ get d.remoteDiff) with
          | some k => if k == "" then pure [] else
              (match lookupKV k kvs with
               | some v => pure [.replace k (makeClearedValue v)]
               | none => pure [.replace k (.obj [])])      -- `makeClearedValue(undefined)` is `{}`
          | none => pure []
      | .arr _ => if (get d.localDiff ++ get d.remoteDiff).isEmpty then .ok [] else unmodelled
      | .null => if (get d.localDiff ++ get d.remoteDiff).isEmpty then .ok [] else unmodelled
      | _ => .error (.typeErr "Can only use `'clear'` action on objects/dicts")
  | "clear_parent" =>
      match base with
      | .arr xs => .ok [.removerange 0 xs.length]
      | .str s => .ok [.removerange 0 (splitLines s).length]
      | _ => .error (.typeErr "base is not iterable")
  | _ => .error (.runtime "The action is not defined")

structure TGroup where
  path : List PKey
  diffs : List Op
  clear : Bool

/-- apply the collected diffs of one path: `merged = patch(resolved, diffs)` / `parent[lastKey] = patch(resolved, diffs)` -/
def flush (merged : J) (g : Option TGroup) : Except Err J :=
  match g with
  | none => .ok merged
  | some g => do
      let resolved ← getAt merged g.path
      let patched ← Ts.patch resolved g.diffs
      setAt merged g.path patched

def applyLoop : List Decision → J → Option TGroup → Except Err J
  | [], merged, g => flush merged g
  | md :: rest, merged, g => do
      let (path, line) ← splitStringPath merged md.path
      let step := fun (resolved : J) => (do
        let ad ← resolveAction resolved md
        pure (if line.isEmpty then ad else pushPath line ad) : Except Err (List Op))
      match g with
      | some grp =>
          if grp.path == path then
            if grp.clear then applyLoop rest merged g
            else do
              let resolved ← getAt merged path
              let ad ← step resolved
              let (clr, d0) := if md.action == "clear_parent" then (true, ([] : List Op)) else (false, grp.diffs)
              applyLoop rest merged (some ⟨path, d0 ++ ad, clr⟩)
          else do
            let merged' ← flush merged g
            let resolved ← getAt merged' path
            let ad ← step resolved
            applyLoop rest merged' (some ⟨path, ad, md.action == "clear_parent"⟩)
      | none => do
          let resolved ← getAt merged path
          let ad ← step resolved
          applyLoop rest merged (some ⟨path, ad, md.action == "clear_parent"⟩)

/-- `decisions.map(d => new MergeDecision(d))` (the constructor validates the action), then `applyDecisions` -/
def applyDecisions (base : J) (ds : List Decision) : Except Err J :=
  if ds.all (fun d => actionsPinned.contains d.action) then applyLoop ds base none
  else .error (.runtime "Invalid merge decision action")

end Nbdime.Ts
