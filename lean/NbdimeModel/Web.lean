/-
  C20 — the local web server's API (`nbdime/webapp/nbdimeserver.py`): what each request may write,
  which status class it gets, and whether it stops the server. Tornado routing, JSON parsing and the
  library calls are inputs: a request arrives already classified.
-/
namespace Nbdime.Web

structure Params where
  cwd : String
  outputfilename : Option String
  closable : Bool
  deriving Repr, DecidableEq

/-- how a notebook argument of a request resolves on the server -/
inductive Arg where
  | readable           -- names a readable notebook below `cwd` (or the null file)
  | unreadable         -- missing file, not a notebook, not JSON
  | notString          -- the JSON value is not a string
  deriving Repr, DecidableEq

inductive StoreBody where
  | malformedJson
  | missingMerged (hasPathFields : Bool)        -- valid JSON without a `merged` key
  | notSerialisable (hasPathFields : Bool)      -- `merged` is not a notebook document
  | notebook (hasPathFields : Bool)             -- `merged` is a notebook; other fields are ignored
  deriving Repr, DecidableEq

inductive Req where
  | page                                         -- GET of one of the HTML pages
  | apiDiff (bodyOk : Bool) (base remote : Arg)
  | apiMerge (bodyOk : Bool) (base local_ remote : Arg)
  | apiStore (body : StoreBody)
  | apiClose
  | unknown
  deriving Repr, DecidableEq

inductive Effect where
  | truncate (path : String)
  | write (path : String)                        -- the complete submitted notebook
  deriving Repr, DecidableEq

structure Resp where
  status : Nat
  effects : List Effect
  stops : Bool
  deriving Repr, DecidableEq

def argStatus : Arg → Nat
  | .readable => 200
  | .unreadable => 422
  | .notString => 400

def firstBad : List Arg → Nat
  | [] => 200
  | a :: rest => if argStatus a != 200 then argStatus a else firstBad rest

def joinPath (cwd fn : String) : String := cwd ++ "/" ++ fn

/-- the store handler as repaired: the document is serialised before the file is opened.
    `serialiseFirst = false` is the original order (open, then serialise while writing). -/
def handleStore (serialiseFirst : Bool) (p : Params) (b : StoreBody) : Resp :=
  match p.outputfilename with
  | none => ⟨400, [], false⟩
  | some fn =>
    let path := joinPath p.cwd fn
    match b with
    | .malformedJson => ⟨500, [], false⟩
    | .missingMerged _ => ⟨500, [], false⟩
    | .notSerialisable _ => if serialiseFirst then ⟨500, [], false⟩ else ⟨500, [.truncate path], false⟩
    | .notebook _ => ⟨200, [.truncate path, .write path], false⟩

def handle (serialiseFirst : Bool) (p : Params) : Req → Resp
  | .page => ⟨200, [], false⟩
  | .apiDiff ok base remote =>
      if !ok then ⟨500, [], false⟩ else ⟨firstBad [base, remote], [], false⟩
  | .apiMerge ok base l r =>
      if !ok then ⟨500, [], false⟩ else ⟨firstBad [base, l, r], [], false⟩
  | .apiStore b => handleStore serialiseFirst p b
  | .apiClose => if p.closable then ⟨200, [], true⟩ else ⟨400, [], false⟩
  | .unknown => ⟨404, [], false⟩

def Effect.path : Effect → String
  | .truncate p => p
  | .write p => p

end Nbdime.Web
