import NbdimeModel.Apply
import NbdimeModel.Diff
/-
  `nbdime/merging/generic.py`, `chunks.py`, the `MergeDecisionBuilder` of `decisions.py`:
  the three-way merge decision procedure `decide_merge_with_diff`.
  Part 1: paths, strategies, the decision builder, chunking.
  (Strategy resolvers: `MergeStrategies.lean`; the recursive merger: `MergeGeneric.lean`.)

  Oracles (parameters, never modelled): the similarity predicates and difflib used by the
  intermediate diff of `_split_addrange` (`Oracle`), and the text merge renderer `merge_render`
  (git merge-file / diff3 / built-in) used by the inline strategies.
-/
namespace Nbdime
namespace Merge

/-- a decision while it sits in a `MergeDecisionBuilder` -/
structure MD where
  path : List PKey
  action : String
  conflict : Bool
  localDiff : Option (List Op)
  remoteDiff : Option (List Op)
  customDiff : Option (List Op) := none
  strategy : Option String := none
  similarInsert : Option (List Op) := none
  deriving Repr, Inhabited

abbrev B := List MD

def MD.toDecision (d : MD) : Decision :=
  { path := d.path, action := d.action, conflict := d.conflict, localDiff := d.localDiff,
    remoteDiff := d.remoteDiff, customDiff := d.customDiff }

/-- the diff argument of `_merge`: a diff, or the `ParentDeleted` sentinel -/
inductive MDiff where
  | d (x : List Op)
  | parentDeleted
  deriving Repr, Inhabited

/-! ### paths (`utils.star_path`, `join_path`, `split_path`, `Strategies.get`) -/

/-- `r_is_int = ^[-+]?\d+$` (ASCII digits; `$` also matches before one trailing newline) -/
def isIntLike (s : String) : Bool :=
  let cs := s.toList
  let cs := match cs with
    | '-' :: r => r
    | '+' :: r => r
    | _ => cs
  let cs := if cs.getLast? == some '\n' then cs.dropLast else cs
  !cs.isEmpty && cs.all Char.isDigit

def starKey : PKey → Option String
  | .i _ => some "*"
  | .s k => if k == "" || k == "/" then none else some (if isIntLike k then "*" else k)

def joinPath (comps : List String) : String :=
  let ret := "/".intercalate comps
  if ret.toList.head? == some '/' then ret else "/" ++ ret

/-- `star_path(path)` -/
def starPath (p : List PKey) : String := joinPath (p.filterMap starKey)

/-- split on '/', dropping empty parts; `cur` is the current part, reversed -/
def splitOnSlash : List Char → List Char → List String
  | [], cur => if cur.isEmpty then [] else [String.ofList cur.reverse]
  | c :: rest, cur =>
      if c == '/' then (if cur.isEmpty then [] else [String.ofList cur.reverse]) ++ splitOnSlash rest []
      else splitOnSlash rest (c :: cur)

def splitPath (k : String) : List String := splitOnSlash k.toList []

structure Strategies where
  table : List (String × String)
  transients : List String
  deriving Repr, Inhabited

/-- `Strategies.get(k)`: split, star again, join, look up -/
def Strategies.get (S : Strategies) (k : String) : Option String :=
  let key := joinPath ((splitPath k).filterMap (fun p => starKey (.s p)))
  lookupKV key S.table

/-- Python truthiness of a strategy value -/
def truthy : Option String → Bool
  | some s => s != ""
  | none => false

/-! ### the internal `parent_deleted` entry -/

def pdPrefix : String := "parent_deleted:"

def pdEntry (k : String) : Op := .invalid (pdPrefix ++ k)

def isPD : Op → Option String
  | .invalid w => if w.startsWith pdPrefix then some (w.drop pdPrefix.length).toString else none
  | _ => none

/-- key of an entry, `parent_deleted` entries included -/
def entryKey (e : Op) : Option PKey :=
  match e.pkey with
  | some k => some k
  | none => (isPD e).map PKey.s

def patchParts : Op → Option (PKey × List Op)
  | .patchK k d => some (.s k, d)
  | .patchI i d => some (.i i, d)
  | _ => none

/-! ### `MergeDecisionBuilder` -/

/-- `_pop_path`: `key` is the shared key found so far -/
def popPathAux : List (Option (List Op)) → Option PKey → Option (Option PKey × List (Option (List Op)))
  | [], key => some (key, [])
  | d :: rest, key =>
      match d with
      | none => (popPathAux rest key).map (fun (k, ds) => (k, none :: ds))
      | some [] => (popPathAux rest key).map (fun (k, ds) => (k, none :: ds))
      | some [e] =>
          match patchParts e with
          | none => none
          | some (k, dd) =>
              if key.isNone || key == some k then
                (popPathAux rest (some k)).map (fun (k', ds) => (k', some dd :: ds))
              else none
      | some _ => none

def popPath (diffs : List (Option (List Op))) : Option (PKey × List (Option (List Op))) :=
  match popPathAux diffs none with
  | some (some k, ds) => some (k, ds)
  | _ => none

/-- `ensure_common_path`; fuel bounds the nesting depth -/
def ensureCommonPath : Nat → List PKey → List (Option (List Op)) → List PKey × List (Option (List Op))
  | 0, path, diffs => (path, diffs)
  | fuel + 1, path, diffs =>
      match popPath diffs with
      | some (k, ds) => ensureCommonPath fuel (path ++ [k]) ds
      | none => (path, diffs)

def pathFuel : Nat := 100000

/-- `add_decision` -/
def addDecision (b : B) (path : List PKey) (action : String) (ld rd : Option (List Op))
    (conflict : Bool := false) (strategy : Option String := none)
    (custom : Option (List Op) := none) (similar : Option (List Op) := none) : B :=
  let (p, ds) := ensureCommonPath pathFuel path [ld, rd, custom]
  b ++ [{ path := p, action := action, conflict := conflict,
          localDiff := (ds[0]?).getD none, remoteDiff := (ds[1]?).getD none,
          customDiff := (ds[2]?).getD none, strategy := strategy, similarInsert := similar }]

/-- Python truthiness of an optional diff -/
def nonEmpty : Option (List Op) → Bool
  | some (_ :: _) => true
  | _ => false

def optPyEq : Option (List Op) → Option (List Op) → Bool
  | some a, some b => Op.pyEqList a b
  | none, none => true
  | _, _ => false

def onesided (b : B) (path : List PKey) (ld rd : Option (List Op)) (conflict : Bool := false) : Except Err B :=
  if !(nonEmpty ld || nonEmpty rd) then .error (.assertion "one diff needed in onesided merge decisions")
  else if nonEmpty ld && nonEmpty rd then .error (.assertion "one diff should be empty in onesided merge decisions")
  else .ok (addDecision b path (if nonEmpty ld then "local" else "remote") ld rd conflict)

def agreement (b : B) (path : List PKey) (ld rd : Option (List Op)) : Except Err B :=
  if !(nonEmpty ld && nonEmpty rd) then .error (.assertion "should have two diffs for agreed merge decisions")
  else if !optPyEq ld rd then .error (.assertion "should have identical diffs for agreed merged decisions")
  else .ok (addDecision b path "either" ld rd)

def sequential (action : String) (b : B) (path : List PKey) (ld rd : Option (List Op))
    (conflict : Bool := false) (strategy : Option String := none) : Except Err B :=
  if !(nonEmpty ld && nonEmpty rd) then .error (.assertion "should have two diffs for sequential merge decisions")
  else .ok (addDecision b path action ld rd conflict strategy)

def localD (b : B) (path : List PKey) (ld rd : Option (List Op)) (conflict : Bool := false)
    (strategy : Option String := none) : Except Err B :=
  if !nonEmpty ld then .error (.assertion "needs non-empty local diff")
  else .ok (addDecision b path "local" ld rd conflict strategy)

def remoteD (b : B) (path : List PKey) (ld rd : Option (List Op)) (conflict : Bool := false)
    (strategy : Option String := none) : Except Err B :=
  if !nonEmpty rd then .error (.assertion "needs non-empty remote diff")
  else .ok (addDecision b path "remote" ld rd conflict strategy)

def baseD (b : B) (path : List PKey) (ld rd : Option (List Op)) : B :=
  addDecision b path "base" ld rd

def customD (b : B) (path : List PKey) (ld rd cd : Option (List Op)) (conflict : Bool)
    (strategy : Option String) : B :=
  addDecision b path "custom" ld rd conflict strategy cd

/-- the action a strategy maps to in `tryresolve`; `none` = unhandled (warning) -/
def strategyAction (s : String) : Except Err (Option String) :=
  if s == "use-local" then .ok (some "local")
  else if s == "use-remote" then .ok (some "remote")
  else if s == "use-base" then .ok (some "base")
  else if s == "union" then .ok (some "local_then_remote")
  else if s == "clear" then .ok (some "clear")
  else if s == "take-max" then .ok (some "take_max")
  else if s == "fail" then .error (.runtime "Unexpected conflict")
  else .ok none

/-- `tryresolve`: returns the builder and the action taken -/
def tryresolve (b : B) (path : List PKey) (ld rd : Option (List Op)) (strategy : Option String) :
    Except Err (B × Option String) :=
  if !truthy strategy then .ok (b, none)
  else if !(nonEmpty ld && nonEmpty rd) then .error (.assertion "onesided merges should not be conflicted")
  else if optPyEq ld rd then .error (.assertion "agreed merges should not be conflicted")
  else do
    let a ← strategyAction (strategy.getD "")
    match a with
    | some act => pure (addDecision b path act ld rd false strategy, some act)
    | none => pure (b, none)

/-- `conflict` / `similar_insert` -/
def conflictD (b : B) (path : List PKey) (ld rd : Option (List Op)) (strategy : Option String)
    (similar : Option (List Op) := none) : Except Err B :=
  if !(nonEmpty ld && nonEmpty rd) then .error (.assertion "onesided merges should not be conflicted")
  else if optPyEq ld rd then .error (.assertion "agreed merges should not be conflicted")
  else do
    let (b', a) ← tryresolve b path ld rd strategy
    match a with
    | some _ => pure b'
    | none => pure (addDecision b path "base" ld rd true none none similar)

def hasConflicted (b : B) : Bool := b.any (·.conflict)

/-! ### `validated`: drop `strategy`, sort by `_sort_key`, reverse, stable -/

inductive SortComp where
  | num (n : Int)       -- `('', -n)`
  | str (s : String)    -- `(s,)`
  deriving Repr, DecidableEq

/-- `int(s)` for a string accepted by `r_is_int` -/
def pyInt (s : String) : Int :=
  let cs := s.toList
  let (neg, ds) := match cs with
    | '-' :: r => (true, r)
    | '+' :: r => (false, r)
    | _ => (false, cs)
  let n : Nat := (ds.filter Char.isDigit).foldl (fun acc c => acc * 10 + (c.toNat - '0'.toNat)) 0
  if neg then - (Int.ofNat n) else Int.ofNat n

def sortComp : PKey → SortComp
  | .i n => .num (Int.ofNat n)
  | .s k => if isIntLike k then .num (pyInt k) else .str k

/-- tuple comparison of two components: `lt a b` -/
def SortComp.lt : SortComp → SortComp → Bool
  | .num a, .num b => decide (-a < -b)
  | .num _, .str s => s != ""          -- ('', -a) < (s,)  iff  '' < s ; equal first items: longer tuple is greater
  | .str s, .num _ => s == ""          -- ('',) < ('', -a)
  | .str a, .str b => decide (a < b)

def keyLt : List SortComp → List SortComp → Bool
  | [], [] => false
  | [], _ :: _ => true
  | _ :: _, [] => false
  | a :: as, b :: bs => if a.lt b then true else if b.lt a then false else keyLt as bs

def sortKeyOf (d : MD) : List SortComp := d.path.map sortComp

/-- stable insertion for a descending sort: `e` came before everything in the list -/
def insertDesc (e : MD) : List MD → List MD
  | [] => [e]
  | x :: rest => if keyLt (sortKeyOf e) (sortKeyOf x) then x :: insertDesc e rest else e :: x :: rest

def sortDesc (b : B) : B := b.foldr insertDesc []

def validated (b : B) : List MD := sortDesc (b.map (fun d => { d with strategy := none }))

/-! ### `chunks.py` -/

def insertNat (n : Nat) : List Nat → List Nat
  | [] => [n]
  | x :: rest => if n < x then n :: x :: rest else if n == x then x :: rest else x :: insertNat n rest

/-- `get_section_boundaries` folded into a sorted set -/
def sectionBoundaries (acc : List Nat) : List Op → List Nat
  | [] => acc
  | e :: es =>
      let acc := match e with
        | .addrange j _ => insertNat j acc
        | .addchars j _ => insertNat j acc
        | .removerange j n => insertNat (j + n) (insertNat j acc)
        | .patchI j _ => insertNat (j + 1) (insertNat j acc)
        | _ => acc          -- entries without integer key: rejected by `splitOnBoundaries`
      sectionBoundaries acc es

/-- second loop of `split_diffs_on_boundaries`: emit pieces while the next boundary is inside the range -/
def splitRange (stop : Nat) : List Nat → List Op → List Nat × List Op
  | x :: y :: rest, nd =>
      if y ≤ stop then splitRange stop (y :: rest) (seqRemoverange nd x (y - x)) else (x :: y :: rest, nd)
  | bs, nd => (bs, nd)

def dropBelow (key : Nat) : List Nat → List Nat
  | [] => []
  | x :: rest => if x < key then dropBelow key rest else x :: rest

/-- `split_diffs_on_boundaries`: `bs` is `boundaries[b:]` -/
def splitOnBoundaries : List Op → List Nat → List Op → Except Err (List Op)
  | [], _, nd => .ok nd
  | e :: es, bs, nd =>
      match e with
      | .addrange _ _ => splitOnBoundaries es bs (seqAppend nd e)
      | .addchars _ _ => splitOnBoundaries es bs (seqAppend nd e)
      | .patchI _ _ => splitOnBoundaries es bs (seqAppend nd e)
      | .removerange key n =>
          match dropBelow key bs with
          | [] => .error (.index "list index out of range")
          | x :: rest =>
              if x != key then .error (.assertion "key not found in boundaries")
              else
                let (bs', nd') := splitRange (key + n) (x :: rest) nd
                splitOnBoundaries es bs' nd'
      | _ => .error (.value "Unhandled diff entry op")

structure Chunk where
  j : Nat
  k : Nat
  d0 : List Op
  d1 : List Op
  deriving Repr

def spanKey (j : Nat) : List Op → List Op × List Op
  | [] => ([], [])
  | e :: es => if e.key == Key.i j then let (a, b) := spanKey j es; (e :: a, b) else ([], e :: es)

/-- `make_chunks` for two diffs -/
def makeChunks : List Nat → List Op → List Op → List Chunk
  | [], _, _ => []
  | j :: bs, r0, r1 =>
      let k := match bs with
        | k :: _ => k
        | [] => j
      let (s0, r0') := spanKey j r0
      let (s1, r1') := spanKey j r1
      let rest := makeChunks bs r0' r1'
      if j < k || !s0.isEmpty || !s1.isEmpty then ⟨j, k, s0, s1⟩ :: rest else rest

/-- `make_merge_chunks(base, d0, d1)` (only the length of base matters) -/
def makeMergeChunks (n : Nat) (d0 d1 : List Op) : Except Err (List Chunk) := do
  let bounds := sectionBoundaries (sectionBoundaries (insertNat n [0]) d0) d1
  let s0 ← splitOnBoundaries d0 bounds []
  let s1 ← splitOnBoundaries d1 bounds []
  let chunks := makeChunks bounds s0 s1
  if n != 0 || !s0.isEmpty || !s1.isEmpty then
    match chunks, chunks.getLast? with
    | c :: _, some l =>
        if c.j != 0 then throw (.assertion "invalid range start of first merge chunk")
        else if l.k != n then throw (.assertion "invalid range end of final merge chunk")
        else pure chunks
    | _, _ => throw (.assertion "no merge chunks produced")
  else pure chunks

/-- `chunk_typename` -/
def chunkTypename : List Op → String × String
  | [] => ("", "")
  | e :: es =>
      let (a, p) := chunkTypename es
      match e with
      | .addrange _ _ => ("A" ++ a, p)
      | .addchars _ _ => ("A" ++ a, p)
      | .add _ _ => ("a" ++ a, p)
      | .patchI _ _ => (a, "P" ++ p)
      | .patchK _ _ => (a, "P" ++ p)
      | .removerange _ _ => (a, "R" ++ p)
      | .remove _ => (a, "r" ++ p)
      | .replace _ _ => (a, "c" ++ p)
      | .invalid _ => (a, p)

def isAddrange : Op → Bool
  | .addrange _ _ => true
  | .addchars _ _ => true
  | _ => false

end Merge
end Nbdime
