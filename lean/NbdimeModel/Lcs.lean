import NbdimeModel.DiffFormat
/-
  `nbdime/diffing/seq_bruteforce.py`, `lcs.py`, `snakes.py`: brute-force LCS on a comparison
  grid, conversion of the LCS to a shallow diff, snakes and their multilevel refinement.
-/
namespace Nbdime

/-- `bruteforce_compare_grid` (the predicate may be an oracle that fails). -/
def compareGrid {α β} (cmp : α → β → Except Err Bool) (A : List α) (B : List β) :
    Except Err (List (List Bool)) :=
  A.mapM (fun a => B.mapM (fun b => cmp a b))

def gridAt (G : List (List Bool)) (i j : Nat) : Bool := ((G[i]?).getD [])[j]?.getD false

/-- one row of `bruteforce_llcs_grid`: `prev` is `R[x-1][y-1:]`, `left` is `R[x][y-1]`. -/
def llcsRowAux : List Bool → List Nat → Nat → List Nat
  | g :: gs, p0 :: p1 :: ps, left =>
      let v := if g then p0 + 1 else max p1 left
      v :: llcsRowAux gs (p1 :: ps) v
  | _, _, _ => []

def llcsRow (prev : List Nat) (g : List Bool) : List Nat := 0 :: llcsRowAux g prev 0

/-- all rows `R[0..N]`; `R[0]` is `M+1` zeros. -/
def llcsRows (G : List (List Bool)) (M : Nat) : List (List Nat) :=
  let r0 := List.replicate (M + 1) 0
  (G.foldl (fun (acc : List (List Nat) × List Nat) g =>
      let r := llcsRow acc.2 g
      (r :: acc.1, r)) ([r0], r0)).1.reverse

def tabAt (R : List (List Nat)) (x y : Nat) : Nat := ((R[x]?).getD [])[y]?.getD 0

/-- `bruteforce_lcs_indices`: walk back from `(x, y)`; pairs are prepended, so the result is
    in increasing order. `fuel` is `x + y`. -/
def lcsBack (G : Nat → Nat → Bool) (R : Nat → Nat → Nat) :
    Nat → Nat → Nat → List (Nat × Nat) → Except Err (List (Nat × Nat))
  | 0, _, _, acc => .ok acc
  | f + 1, x, y, acc =>
      if x = 0 ∨ y = 0 then .ok acc
      else if G (x - 1) (y - 1) then
        if R x y != R (x - 1) (y - 1) + 1 then .error (.assertion "R[x][y] == R[x-1][y-1] + 1")
        else lcsBack G R f (x - 1) (y - 1) ((x - 1, y - 1) :: acc)
      else if R x y == R (x - 1) y then lcsBack G R f (x - 1) y acc
      else if R x y != R x (y - 1) then .error (.assertion "R[x][y] == R[x][y-1]")
      else lcsBack G R f x (y - 1) acc

def lcsIndices (G : List (List Bool)) (N M : Nat) : Except Err (List (Nat × Nat)) :=
  let R := llcsRows G M
  lcsBack (gridAt G) (tabAt R) (N + M) N M []

/-- `diff_from_lcs` through the sequence builder; `x y` = consumed so far. -/
def diffFromLcsAux {α} (mk : Nat → List α → List Op → List Op) (B : List α) (N M : Nat) :
    List (Nat × Nat) → Nat → Nat → List Op → List Op
  | [], x, y, di =>
      let di := if x < N then seqRemoverange di x (N - x) else di
      if y < M then mk x ((B.drop y).take (M - y)) di else di
  | (i, j) :: ps, x, y, di =>
      let di := if i > x then seqRemoverange di x (i - x) else di
      let di := if j > y then mk x ((B.drop y).take (j - y)) di else di
      diffFromLcsAux mk B N M ps (i + 1) (j + 1) di

def mkAddrange (k : Nat) (vs : List J) (di : List Op) : List Op := seqAddrange di k vs

def diffFromLcs (A B : List J) (ps : List (Nat × Nat)) : List Op :=
  diffFromLcsAux mkAddrange B A.length B.length ps 0 0 []

/-- `diff_sequence_bruteforce` -/
def diffSequence (cmp : J → J → Except Err Bool) (A B : List J) : Except Err (List Op) := do
  let G ← compareGrid cmp A B
  let ps ← lcsIndices G A.length B.length
  pure (diffFromLcs A B ps)

/-! ### snakes -/

structure Snake where
  i : Nat
  j : Nat
  n : Nat
  deriving Repr, DecidableEq

/-- `bruteforce_compute_snakes`: note the code compares the *start* of the last snake with
    the new pair, so only a match at `(0,0)` extends the initial empty snake. -/
def snakesFromIndices : List (Nat × Nat) → List Snake → List Snake
  -- second argument: snakes so far, reversed (last first)
  | [], acc => acc
  | (i, j) :: ps, [] => snakesFromIndices ps [⟨i, j, 1⟩]
  | (i, j) :: ps, s :: rest =>
      if s.i == i && s.j == j then snakesFromIndices ps (⟨s.i, s.j, s.n + 1⟩ :: rest)
      else snakesFromIndices ps (⟨i, j, 1⟩ :: s :: rest)

def dropZeroHead : List Snake → List Snake
  | s :: rest => if s.n == 0 then rest else s :: rest
  | [] => []

def bruteforceSnakes {α β} (cmp : α → β → Except Err Bool) (A : List α) (B : List β) :
    Except Err (List Snake) := do
  let G ← compareGrid cmp A B
  let ps ← lcsIndices G A.length B.length
  pure (dropZeroHead (snakesFromIndices ps [⟨0, 0, 0⟩]).reverse)

structure Rect where
  i0 : Nat
  j0 : Nat
  i1 : Nat
  j1 : Nat

def slice {α} (xs : List α) (lo hi : Nat) : List α := (xs.drop lo).take (hi - lo)

/-- `compute_snakes` (the sanity assertion re-asks the same predicate and is not repeated). -/
def computeSnakes {α β} (cmp : α → β → Except Err Bool) (A : List α) (B : List β) (r : Rect) :
    Except Err (List Snake) := do
  let sn ← bruteforceSnakes cmp (slice A r.i0 r.i1) (slice B r.j0 r.j1)
  pure (sn.map (fun s => ⟨s.i + r.i0, s.j + r.j0, s.n⟩))

/-- append a snake to the reversed list, merging it into the last one when it continues it -/
def pushOrMerge (s : Snake) : List Snake → List Snake
  | l :: rest =>
      if l.i + l.n == s.i && l.j + l.n == s.j then (⟨l.i, l.j, l.n + s.n⟩ : Snake) :: rest
      else s :: l :: rest
  | [] => [s]

/-- one step of the refinement loop of `compute_snakes_multilevel`; state: newsnakes reversed, i0, j0.
    `sub` computes the snakes of the next lower level inside a rectangle. -/
def mlStep (sub : Rect → Except Err (List Snake)) (st : List Snake × Nat × Nat) (s : Snake) :
    Except Err (List Snake × Nat × Nat) := do
  let (ns, i0, j0) := st
  let ns ← if s.i > i0 && s.j > j0 then do
      let sb ← sub (⟨i0, j0, s.i, s.j⟩ : Rect)
      pure (sb.reverse ++ ns)
    else pure ns
  let ns := if s.n > 0 then pushOrMerge s ns else ns
  pure (ns, s.i + s.n, s.j + s.n)

/-- `compute_snakes_multilevel`; `cmps` in order of low-to-high precedence, `level` indexes it. -/
def snakesML {α β} (cmps : List (α → β → Except Err Bool)) (A : List α) (B : List β) :
    Nat → Rect → Except Err (List Snake)
  | level, r => do
      let cmp ← match cmps[level]? with
        | some c => pure c
        | none => throw (.index "compares[level]")
      let snakes ← computeSnakes cmp A B r
      match level with
      | 0 => pure snakes
      | lvl + 1 => do
        let (ns, _, _) ← (snakes ++ [(⟨r.i1, r.j1, 0⟩ : Snake)]).foldlM (mlStep (snakesML cmps A B lvl))
          ([(⟨0, 0, 0⟩ : Snake)], r.i0, r.j0)
        pure (dropZeroHead ns.reverse)

end Nbdime
