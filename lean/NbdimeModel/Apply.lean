import NbdimeModel.Patch
/-
  `nbdime/merging/decisions.py`: merge decisions and their application to the base document
  (`split_string_path`, `resolve_action`, `push_path`, `apply_decisions`) and
  `strategies.combine_patches`.
-/
namespace Nbdime

inductive PKey where
  | s (k : String)
  | i (n : Nat)
  deriving Repr, DecidableEq, Inhabited

structure Decision where
  path : List PKey
  action : String
  conflict : Bool
  localDiff : Option (List Op)
  remoteDiff : Option (List Op)
  customDiff : Option (List Op)
  deriving Repr, Inhabited

def getKey (doc : J) (k : PKey) : Except Err J :=
  match doc, k with
  | .obj kvs, .s key => match lookupKV key kvs with
      | some v => .ok v
      | none => .error (.key key)
  | .arr xs, .i n => match xs[n]? with
      | some v => .ok v
      | none => .error (.index "list index out of range")
  | .str s, .i n => match s[n]? with
      | some c => .ok (.str [c])
      | none => .error (.index "string index out of range")
  | _, _ => .error (.typeErr "indices must match the container")

def getAt (doc : J) : List PKey → Except Err J
  | [] => .ok doc
  | k :: rest => do
      let sub ← getKey doc k
      getAt sub rest

def setAt (doc : J) (path : List PKey) (v : J) : Except Err J :=
  match path with
  | [] => .ok v
  | k :: rest =>
      match doc, k with
      | .obj kvs, .s key => match lookupKV key kvs with
          | some sub => do
              let sub' ← setAt sub rest v
              .ok (.obj (insertKV key sub' kvs))
          | none => .error (.key key)
      | .arr xs, .i n => match xs[n]? with
          | some sub => do
              let sub' ← setAt sub rest v
              .ok (.arr (xs.set n sub'))
          | none => .error (.index "list index out of range")
      | _, _ => .error (.typeErr "indices must match the container")

/-- `split_string_path`: the part of the path that reaches a string, and the rest (a line key) -/
def splitStringPath (base : J) : List PKey → Except Err (List PKey × List PKey)
  | [] => .ok ([], [])
  | k :: rest =>
      match base with
      | .str _ => .ok ([], k :: rest)
      | _ => do
          let sub ← getKey base k
          let (p, l) ← splitStringPath sub rest
          .ok (k :: p, l)

def opPatchKey (k : PKey) (d : List Op) : Op :=
  match k with
  | .s key => .patchK key d
  | .i n => .patchI n d

/-- `push_path` -/
def pushPath (path : List PKey) (d : List Op) : List Op :=
  path.foldr (fun k acc => [opPatchKey k acc]) d

def Op.pkey : Op → Option PKey
  | .add k _ => some (.s k)
  | .remove k => some (.s k)
  | .replace k _ => some (.s k)
  | .patchK k _ => some (.s k)
  | .addrange i _ => some (.i i)
  | .addchars i _ => some (.i i)
  | .removerange i _ => some (.i i)
  | .patchI i _ => some (.i i)
  | .invalid _ => none

def PKey.lt : PKey → PKey → Option Bool
  | .s a, .s b => some (decide (a < b))
  | .i a, .i b => some (decide (a < b))
  | _, _ => none

/-- `op != DiffOp.ADDRANGE` (insertions of items, lines or characters are the same op) -/
def Op.notInsert : Op → Bool
  | .addrange _ _ => false
  | .addchars _ _ => false
  | _ => true

/-- stable insertion by the sort key (Python `sorted(newdiffs, key=lambda x: (x.key, x.op != DiffOp.ADDRANGE))`:
    by key, an insertion before a patch / removal on the same key); mixed key types raise TypeError -/
def insertByKey (e : Op) : List Op → Except Err (List Op)
  | [] => .ok [e]
  | x :: rest =>
      match e.pkey, x.pkey with
      | some ke, some kx =>
          -- `e` precedes the elements already placed (it came earlier): keep it first among equals
          match PKey.lt kx ke with
          | none => .error (.typeErr "'<' not supported between instances of 'str' and 'int'")
          | some false =>
              if kx == ke && !x.notInsert && e.notInsert then do
                let r ← insertByKey e rest
                .ok (x :: r)
              else .ok (e :: x :: rest)
          | some true => do
              let r ← insertByKey e rest
              .ok (x :: r)
      | _, _ => .error (.format "diff entry without key")

def sortByKey (ops : List Op) : Except Err (List Op) :=
  ops.foldrM (fun e acc => insertByKey e acc) []

/-- merge `e` into the first patch entry with the same key, if any -/
def mergePatch (k : PKey) (d : List Op) : List Op → Option (List Op)
  | [] => none
  | x :: rest =>
      match x with
      | .patchK k' d' => if PKey.s k' == k then some (.patchK k' (d' ++ d) :: rest)
          else (mergePatch k d rest).map (x :: ·)
      | .patchI i' d' => if PKey.i i' == k then some (.patchI i' (d' ++ d) :: rest)
          else (mergePatch k d rest).map (x :: ·)
      | _ => (mergePatch k d rest).map (x :: ·)

/-- one step of the gathering loop of `combine_patches`: a patch entry is merged into the first patch entry with
    the same key, anything else is appended -/
def gatherStep (acc : List Op) (d : Op) : List Op :=
  match d with
  | .patchK k dd => match mergePatch (.s k) dd acc with
      | some acc' => acc'
      | none => acc ++ [d]
  | .patchI i dd => match mergePatch (.i i) dd acc with
      | some acc' => acc'
      | none => acc ++ [d]
  | _ => acc ++ [d]

/-- canonicalise the sub-diff of a patch entry with `rec` -/
def canonStep (rec : List Op → Except Err (List Op)) (d : Op) : Except Err Op :=
  match d with
  | .patchK k dd => do pure (.patchK k (← rec dd))
  | .patchI i dd => do pure (.patchI i (← rec dd))
  | d => pure d

/-- `combine_patches`; fuel bounds the nesting depth of patch entries -/
def combinePatches : Nat → List Op → Except Err (List Op)
  | 0, _ => .error .fuel
  | fuel + 1, diffs => do
      -- gather: one patch entry per key (at the position of its first occurrence)
      let gathered := diffs.foldl gatherStep []
      -- canonicalise the collected sub-diffs
      let canon ← gathered.mapM (canonStep (combinePatches fuel))
      sortByKey canon

def makeCleared : J → J
  | .arr _ => .arr []
  | .obj _ => .obj []
  | .str _ => .str []
  | _ => .null

def singleKey (d : List Op) : Except Err PKey :=
  match d.filterMap Op.pkey with
  | [] => .error (.value "not enough values to unpack")
  | k :: rest => if rest.all (· == k) then .ok k else .error (.value "too many values to unpack")

def intOf : J → Option Int
  | .int i => some i
  | _ => none

def firstValue : Option (List Op) → Option J
  | some (.replace _ v :: _) => some v
  | some (.add _ v :: _) => some v
  | _ => none

/-- `_pop_path` on one diff: `none` = not poppable; `some none` = empty/absent diff -/
def popDiff (d : Option (List Op)) : Option (Option (PKey × List Op)) :=
  match d with
  | none => some none
  | some [] => some none
  | some [.patchK k dd] => some (some (.s k, dd))
  | some [.patchI i dd] => some (some (.i i, dd))
  | some _ => none

/-- `pop_patch_decision`: all present diffs are single patch entries with the same key -/
def popDecision (d : Decision) : Option (PKey × Decision) :=
  let diffs := if d.action == "custom" then [d.localDiff, d.remoteDiff, d.customDiff] else [d.localDiff, d.remoteDiff]
  match diffs.mapM popDiff with
  | none => none
  | some popped =>
    match popped.filterMap id with
    | [] => none
    | (k, _) :: rest =>
        if rest.all (fun p => p.1 == k) then
          let get := fun (x : Option (List Op)) => match popDiff x with
            | some (some (_, dd)) => some dd
            | _ => none
          some (k, { d with path := d.path ++ [k], localDiff := get d.localDiff, remoteDiff := get d.remoteDiff,
                            customDiff := if d.action == "custom" then get d.customDiff else d.customDiff })
        else none

/-- `resolve_action` for a decision taken at its own level (no pushed-up key-based action) -/
def resolveLeaf (base : J) (d : Decision) : Except Err (List Op) :=
  let need := fun (x : Option (List Op)) => match x with
    | some v => Except.ok v
    | none => Except.error (Err.typeErr "diff is None")
  match d.action with
  | "base" => .ok []
  | "local" => need d.localDiff
  | "either" => need d.localDiff
  | "remote" => need d.remoteDiff
  | "custom" => need d.customDiff
  | "local_then_remote" => do pure ((← need d.localDiff) ++ (← need d.remoteDiff))
  | "remote_then_local" => do pure ((← need d.remoteDiff) ++ (← need d.localDiff))
  | "clear" => do
      let key ← singleKey ((← need d.localDiff) ++ (← need d.remoteDiff))
      let v ← getKey base key
      match key with
      | .s k => pure [.replace k (makeCleared v)]
      | .i _ => throw (.format "replace on a sequence is not modelled")
  | "remove" => do
      let key ← singleKey ((← need d.localDiff) ++ (← need d.remoteDiff))
      match base, key with
      | .arr _, .i n => pure [.removerange n 1]
      | .str _, .i n => pure [.removerange n 1]
      | _, .s k => pure [.remove k]
      | _, _ => throw (.typeErr "remove: key does not match container")
  | "clear_all" =>
      match base with
      | .obj kvs => .ok (kvs.map (fun kv => .remove kv.1))
      | .arr xs => .ok [.removerange 0 xs.length]
      | .str s => .ok [.removerange 0 s.length]
      | _ => .error (.typeErr "clear_all on a leaf")     -- Python returns None here
  | "take_max" => do
      let key ← singleKey ((← need d.localDiff) ++ (← need d.remoteDiff))
      let bval ← getKey base key
      let lval := match d.localDiff with
        | some (_ :: _) => (firstValue d.localDiff).getD bval
        | _ => bval
      let rval := match d.remoteDiff with
        | some (_ :: _) => (firstValue d.remoteDiff).getD bval
        | _ => bval
      match intOf bval, intOf lval, intOf rval, key with
      | some b, some l, some r, .s k =>
          let m := max b (max l r)
          if b == m then pure [] else pure [.replace k (.int m)]
      | _, _, _, _ => throw (.typeErr "take_max on non-integers is not modelled")
  | _ => .error (.runtime "NotImplementedError: action is not defined")


def Decision.keyBased (d : Decision) : Bool :=
  d.action == "clear" || d.action == "remove" || d.action == "take_max"

/-- `resolve_action(base, decision)`; fuel bounds the descent through pushed-up decisions -/
def resolveActionF : Nat → J → Decision → Except Err (List Op)
  | 0, _, _ => .error .fuel
  | fuel + 1, base, d =>
  match (if d.keyBased then popDecision d else none) with
  | some (k, popped) => do
      let sub ← getKey base k
      let subdiff ← resolveActionF fuel sub popped
      pure (if subdiff.isEmpty then [] else [opPatchKey k subdiff])
  | none => resolveLeaf base d

def resolveAction (base : J) (d : Decision) : Except Err (List Op) := resolveActionF 32 base d

structure Group where
  path : List PKey
  diffs : List Op
  clearAll : Bool

def flush (merged : J) (g : Option Group) : Except Err J :=
  match g with
  | none => .ok merged
  | some g => do
      let resolved ← getAt merged g.path
      let patched ← patch resolved g.diffs
      setAt merged g.path patched

/-- `apply_decisions` -/
def applyLoop : List Decision → J → Option Group → Except Err J
  | [], merged, g => flush merged g
  | md :: rest, merged, g => do
      let (path, line) ← splitStringPath merged md.path
      match g with
      | some grp =>
          if grp.path == path then
            if grp.clearAll then applyLoop rest merged g
            else do
              let resolved ← getAt merged path
              let (clr, diffs0) := if md.action == "clear_all" then (true, []) else (false, grp.diffs)
              let ad ← resolveAction resolved md
              let ad := if line.isEmpty then ad else pushPath line ad
              let diffs ← combinePatches 64 (diffs0 ++ ad)
              applyLoop rest merged (some ⟨path, diffs, clr⟩)
          else do
            let merged' ← flush merged g
            let resolved ← getAt merged' path
            let ad ← resolveAction resolved md
            let ad := if line.isEmpty then ad else pushPath line ad
            applyLoop rest merged' (some ⟨path, ad, md.action == "clear_all"⟩)
      | none => do
          let resolved ← getAt merged path
          let ad ← resolveAction resolved md
          let ad := if line.isEmpty then ad else pushPath line ad
          applyLoop rest merged (some ⟨path, ad, md.action == "clear_all"⟩)

def applyDecisions (base : J) (ds : List Decision) : Except Err J := applyLoop ds base none

/-- choose one side for every decision; a missing diff means "no change" -/
def chooseSide (side : String) (d : Decision) : Decision :=
  { d with action := side, localDiff := some (d.localDiff.getD []), remoteDiff := some (d.remoteDiff.getD []) }

def applyAs (side : String) (base : J) (ds : List Decision) : Except Err J :=
  applyDecisions base (ds.map (chooseSide side))

/-- strict prefix on paths -/
def strictPrefix : List PKey → List PKey → Bool
  | [], _ :: _ => true
  | a :: as, b :: bs => a == b && strictPrefix as bs
  | _, _ => false

/-- the published ordering: no decision on an enclosing path comes before one inside it -/
def childrenFirst : List Decision → Bool
  | [] => true
  | d :: rest => rest.all (fun e => !strictPrefix d.path e.path) && childrenFirst rest

end Nbdime
